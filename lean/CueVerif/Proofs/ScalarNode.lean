import CueVerif.Proofs.Scalar
/-!
C03 — proofs, node level: inserting a conjunct intersects the denotation of the node with the
denotation of the conjunct (`insert_den`), and `finalize` reports bottom / the pinned atom
accordingly.  Core Lean only.
-/
namespace CueVerif.Scalar
open CueVerif Std

def SNode.bounds (n : SNode) : List Bound := n.lower.toList ++ n.upper.toList ++ n.checks

theorem mem_bounds (n : SNode) (b : Bound) :
    b ∈ n.bounds ↔ n.lower = some b ∨ n.upper = some b ∨ b ∈ n.checks := by
  simp only [SNode.bounds, List.mem_append, Option.mem_toList, Option.mem_def, or_assoc]

/-- the atoms a node still admits -/
def den (re : Bytes → Bytes → Bool) (n : SNode) (v : Atom) : Prop :=
  n.err = false ∧ Kind.has n.kind v = true ∧ (∀ s, n.scalar = some s → v.same s = true) ∧
  (∀ b, n.lower = some b → boundHolds re b v = true) ∧
  (∀ b, n.upper = some b → boundHolds re b v = true) ∧
  (∀ b ∈ n.checks, boundHolds re b v = true)

theorem mem_lower {n : SNode} {b : Bound} (h : n.lower = some b) : b ∈ n.bounds :=
  (mem_bounds n b).2 (Or.inl h)
theorem mem_upper {n : SNode} {b : Bound} (h : n.upper = some b) : b ∈ n.bounds :=
  (mem_bounds n b).2 (Or.inr (Or.inl h))
theorem mem_checks {n : SNode} {b : Bound} (h : b ∈ n.checks) : b ∈ n.bounds :=
  (mem_bounds n b).2 (Or.inr (Or.inr h))

theorem den_bounds {re : Bytes → Bytes → Bool} {n : SNode} {v : Atom} (h : den re n v) {b : Bound}
    (hb : b ∈ n.bounds) : boundHolds re b v = true := by
  rcases (mem_bounds n b).1 hb with h' | h' | h'
  · exact h.2.2.2.1 b h'
  · exact h.2.2.2.2.1 b h'
  · exact h.2.2.2.2.2 b h'

structure WF (n : SNode) : Prop where
  lower : ∀ b, n.lower = some b → isLower b.op = true
  upper : ∀ b, n.upper = some b → isUpper b.op = true
  sub : ∀ b ∈ n.bounds, Kind.sub n.kind b.kind
  scalar : ∀ s, n.scalar = some s → ∀ i, Nat.testBit n.kind i = true → i = s.kindBit
  nonbot : n.err = false → n.kind ≠ 0

theorem WF.admits {n : SNode} (h : WF n) {v : Atom} (hk : Kind.has n.kind v = true) {b : Bound}
    (hb : b ∈ n.bounds) : boundAdmits b v = true := by
  rw [← kind_has_admits]; exact h.sub b hb v hk

theorem wf_top : WF SNode.top := by
  refine ⟨?_, ?_, ?_, ?_, ?_⟩ <;> intros <;> simp_all [SNode.top, SNode.bounds, Kind.top]

theorem den_top (re : Bytes → Bytes → Bool) (v : Atom) : den re SNode.top v := by
  refine ⟨rfl, top_has v, ?_, ?_, ?_, ?_⟩
  · intro s h; cases h
  · intro b h; cases h
  · intro b h; cases h
  · intro b hb; simp [SNode.top] at hb

/-! ### updateKind -/

def shrink (n : SNode) (k : Kind) : SNode := { n with kind := n.kind &&& k }

theorem updateKind_spec (n : SNode) (k : Kind) (hk : k ≠ 0) :
    (n.kind = 0 ∧ updateKind n k = (n, false)) ∨
    (n.kind &&& k = 0 ∧ updateKind n k = ({ n with kind := 0, err := true }, false)) ∨
    (n.kind &&& k ≠ 0 ∧ updateKind n k = (shrink n k, true)) := by
  unfold updateKind shrink
  by_cases h0 : n.kind = 0
  · left; simp [h0, Kind.bottom]
  · right
    by_cases h1 : n.kind &&& k = 0
    · left; simp [h0, hk, h1, Kind.bottom]
    · right; simp [h0, hk, h1, Kind.bottom]

theorem wf_shrink (n : SNode) (k : Kind) (h : WF n) (hne : n.kind &&& k ≠ 0) : WF (shrink n k) := by
  refine ⟨h.lower, h.upper, ?_, ?_, fun _ => hne⟩
  · intro b hb; exact Kind.sub_trans (Kind.sub_and_left _ _) (h.sub b hb)
  · intro s hs i hi
    simp only [shrink, Nat.testBit_and, Bool.and_eq_true] at hi
    exact h.scalar s hs i hi.1

theorem den_shrink (re : Bytes → Bytes → Bool) (n : SNode) (k : Kind) (v : Atom) :
    den re (shrink n k) v ↔ den re n v ∧ Kind.has k v = true := by
  unfold den shrink
  simp only [Kind.has_and, Bool.and_eq_true]
  constructor
  · rintro ⟨h1, ⟨h2, h3⟩, h4⟩; exact ⟨⟨h1, h2, h4⟩, h3⟩
  · rintro ⟨⟨h1, h2, h4⟩, h3⟩; exact ⟨h1, ⟨h2, h3⟩, h4⟩

/-- The common shape of the three insertion functions: `updateNodeType`, stop on failure,
otherwise continue with `g`.  `P` is "the atom satisfies the new conjunct". -/
theorem insert_shape (re : Bytes → Bytes → Bool) (n : SNode) (k : Kind) (g : SNode → SNode)
    (P : Atom → Prop) (hk : k ≠ 0) (hwf : WF n)
    (hP : ∀ v, P v → Kind.has k v = true)
    (hg : ∀ n1, WF n1 → n1.kind = n.kind &&& k →
      WF (g n1) ∧ ∀ v, (den re (g n1) v ↔ den re n1 v ∧ P v)) :
    WF (if !(updateKind n k).2 then (updateKind n k).1 else g (updateKind n k).1) ∧
    ∀ v, (den re (if !(updateKind n k).2 then (updateKind n k).1 else g (updateKind n k).1) v ↔
      den re n v ∧ P v) := by
  rcases updateKind_spec n k hk with ⟨h0, he⟩ | ⟨h0, he⟩ | ⟨h0, he⟩ <;> rw [he]
  · simp only [Bool.not_false, if_true]
    refine ⟨hwf, fun v => ?_⟩
    have : ¬ den re n v := by
      intro h; have := h.2.1; rw [h0, Kind.has_zero] at this; cases this
    exact ⟨fun h => absurd h this, fun h => absurd h.1 this⟩
  · simp only [Bool.not_false, if_true]
    refine ⟨⟨hwf.lower, hwf.upper, ?_, ?_, ?_⟩, fun v => ?_⟩
    · intro b _ w hw; rw [Kind.has_zero] at hw; cases hw
    · intro s _ i hi; simp only [Nat.zero_testBit] at hi; cases hi
    · intro h; cases h
    · constructor
      · intro h; cases h.1
      · rintro ⟨h, hp⟩
        have := Kind.has_and n.kind k v
        rw [h0, Kind.has_zero, h.2.1, hP v hp] at this; cases this
  · simp only [Bool.not_true, Bool.false_eq_true, if_false]
    obtain ⟨w1, w2⟩ := hg (shrink n k) (wf_shrink n k hwf h0) rfl
    refine ⟨w1, fun v => ?_⟩
    rw [w2 v, den_shrink]
    constructor
    · rintro ⟨⟨h1, _⟩, h3⟩; exact ⟨h1, h3⟩
    · rintro ⟨h1, h3⟩; exact ⟨⟨h1, hP v h3⟩, h3⟩

/-! ### the lower/upper re-check -/

theorem recheck_spec (re : Bytes → Bytes → Bool) (n : SNode) (hwf : WF n) :
    WF (recheck re n) ∧ ∀ v, (den re (recheck re n) v ↔ den re n v) := by
  unfold recheck
  split
  · rename_i l u hl hu
    split
    · rename_i herr
      refine ⟨⟨?_, ?_, ?_, hwf.scalar, ?_⟩, fun v => ?_⟩
      · intro b hb; cases hb
      · intro b hb; cases hb
      · intro b hb
        exact hwf.sub b ((mem_bounds n b).2 (Or.inr (Or.inr (by simpa [SNode.bounds] using hb))))
      · intro h; cases h
      · constructor
        · intro h; cases h.1
        · intro h
          exfalso
          have hl' : l ∈ n.bounds := (mem_bounds n l).2 (Or.inl hl)
          have hu' : u ∈ n.bounds := (mem_bounds n u).2 (Or.inr (Or.inl hu))
          have hs := simplify_sound re n.kind l u v (hwf.admits h.2.1 hl') (hwf.admits h.2.1 hu') h.2.1
          rw [herr] at hs
          exact hs ⟨den_bounds h hl', den_bounds h hu'⟩
    · exact ⟨hwf, fun v => Iff.rfl⟩
  · exact ⟨hwf, fun v => Iff.rfl⟩

/-! ### storing an ordering bound -/

theorem ite_XY (c : Prop) [Decidable c] :
    (if c then Outcome.keepX else Outcome.keepY) = .keepX ∨
    (if c then Outcome.keepX else Outcome.keepY) = .keepY := by
  by_cases h : c <;> simp [h]

theorem same_XY_of_lower (re : Bytes → Bytes → Bool) (k : Kind) (x y : Bound)
    (hx : isLower x.op = true) (hy : isLower y.op = true) :
    simplifyBounds re k x y = .keepX ∨ simplifyBounds re k x y = .keepY := by
  obtain ⟨xop, a⟩ := x
  obtain ⟨yop, b⟩ := y
  cases xop <;> simp [isLower] at hx <;> cases yop <;> simp [isLower] at hy <;>
    simp [simplifyBounds, simplifySame, opInfo] <;>
    exact ite_XY _

theorem same_XY_of_upper (re : Bytes → Bytes → Bool) (k : Kind) (x y : Bound)
    (hx : isUpper x.op = true) (hy : isUpper y.op = true) :
    simplifyBounds re k x y = .keepX ∨ simplifyBounds re k x y = .keepY := by
  obtain ⟨xop, a⟩ := x
  obtain ⟨yop, b⟩ := y
  cases xop <;> simp [isUpper] at hx <;> cases yop <;> simp [isUpper] at hy <;>
    simp [simplifyBounds, simplifySame, opInfo] <;>
    exact ite_XY _

theorem slotLower_spec (re : Bytes → Bytes → Bool) (n : SNode) (x : Bound) (hwf : WF n)
    (hx : isLower x.op = true) (hsub : Kind.sub n.kind x.kind) :
    WF (slotLower re n x) ∧
    ∀ v, (den re (slotLower re n x) v ↔ den re n v ∧ boundHolds re x v = true) := by
  have hadx : ∀ v, Kind.has n.kind v = true → boundAdmits x v = true := by
    intro v hv; rw [← kind_has_admits]; exact hsub v hv
  have replWF : WF { n with lower := some x } := by
    refine ⟨?_, hwf.upper, ?_, hwf.scalar, hwf.nonbot⟩
    · intro b hb; cases hb; exact hx
    · intro b hb
      rcases (mem_bounds _ b).1 hb with h | h | h
      · cases h; exact hsub
      · exact hwf.sub b (mem_upper h)
      · exact hwf.sub b (mem_checks h)
  unfold slotLower
  split
  · rename_i y hy
    have hyb : y ∈ n.bounds := mem_lower hy
    have hsound := fun v (hv : Kind.has n.kind v = true) =>
      simplify_sound re n.kind x y v (hadx v hv) (hwf.admits hv hyb) hv
    split
    · rename_i hk
      have hk' : simplifyBounds re n.kind x y = .keepY := by simpa using hk
      refine ⟨hwf, fun v => ⟨fun h => ⟨h, ?_⟩, fun h => h.1⟩⟩
      have := hsound v h.2.1
      rw [hk'] at this
      exact this (den_bounds h hyb)
    · rename_i hk
      have hk' : simplifyBounds re n.kind x y = .keepX := by
        rcases same_XY_of_lower re n.kind x y hx (hwf.lower y hy) with h | h
        · exact h
        · rw [h] at hk; simp at hk
      refine ⟨replWF, fun v => ?_⟩
      unfold den
      constructor
      · rintro ⟨h1, h2, h3, h4, h5, h6⟩
        have hx' := h4 x rfl
        refine ⟨⟨h1, h2, h3, ?_, h5, h6⟩, hx'⟩
        intro b hb; rw [hy] at hb; cases hb
        have := hsound v h2
        rw [hk'] at this
        exact this hx'
      · rintro ⟨⟨h1, h2, h3, _, h5, h6⟩, h4⟩
        exact ⟨h1, h2, h3, (fun b hb => by cases hb; exact h4), h5, h6⟩
  · rename_i hnone
    refine ⟨replWF, fun v => ?_⟩
    unfold den
    constructor
    · rintro ⟨h1, h2, h3, h4, h5, h6⟩
      exact ⟨⟨h1, h2, h3, (fun b hb => by rw [hnone] at hb; cases hb), h5, h6⟩, h4 x rfl⟩
    · rintro ⟨⟨h1, h2, h3, _, h5, h6⟩, h4⟩
      exact ⟨h1, h2, h3, (fun b hb => by cases hb; exact h4), h5, h6⟩

theorem slotUpper_spec (re : Bytes → Bytes → Bool) (n : SNode) (x : Bound) (hwf : WF n)
    (hx : isUpper x.op = true) (hsub : Kind.sub n.kind x.kind) :
    WF (slotUpper re n x) ∧
    ∀ v, (den re (slotUpper re n x) v ↔ den re n v ∧ boundHolds re x v = true) := by
  have hadx : ∀ v, Kind.has n.kind v = true → boundAdmits x v = true := by
    intro v hv; rw [← kind_has_admits]; exact hsub v hv
  have replWF : WF { n with upper := some x } := by
    refine ⟨hwf.lower, ?_, ?_, hwf.scalar, hwf.nonbot⟩
    · intro b hb; cases hb; exact hx
    · intro b hb
      rcases (mem_bounds _ b).1 hb with h | h | h
      · exact hwf.sub b (mem_lower h)
      · cases h; exact hsub
      · exact hwf.sub b (mem_checks h)
  unfold slotUpper
  split
  · rename_i y hy
    have hyb : y ∈ n.bounds := mem_upper hy
    have hsound := fun v (hv : Kind.has n.kind v = true) =>
      simplify_sound re n.kind x y v (hadx v hv) (hwf.admits hv hyb) hv
    split
    · rename_i hk
      have hk' : simplifyBounds re n.kind x y = .keepY := by simpa using hk
      refine ⟨hwf, fun v => ⟨fun h => ⟨h, ?_⟩, fun h => h.1⟩⟩
      have := hsound v h.2.1
      rw [hk'] at this
      exact this (den_bounds h hyb)
    · rename_i hk
      have hk' : simplifyBounds re n.kind x y = .keepX := by
        rcases same_XY_of_upper re n.kind x y hx (hwf.upper y hy) with h | h
        · exact h
        · rw [h] at hk; simp at hk
      refine ⟨replWF, fun v => ?_⟩
      unfold den
      constructor
      · rintro ⟨h1, h2, h3, h4, h5, h6⟩
        have hx' := h5 x rfl
        refine ⟨⟨h1, h2, h3, h4, ?_, h6⟩, hx'⟩
        intro b hb; rw [hy] at hb; cases hb
        have := hsound v h2
        rw [hk'] at this
        exact this hx'
      · rintro ⟨⟨h1, h2, h3, h4, _, h6⟩, h5⟩
        exact ⟨h1, h2, h3, h4, (fun b hb => by cases hb; exact h5), h6⟩
  · rename_i hnone
    refine ⟨replWF, fun v => ?_⟩
    unfold den
    constructor
    · rintro ⟨h1, h2, h3, h4, h5, h6⟩
      exact ⟨⟨h1, h2, h3, h4, (fun b hb => by rw [hnone] at hb; cases hb), h6⟩, h5 x rfl⟩
    · rintro ⟨⟨h1, h2, h3, h4, _, h6⟩, h5⟩
      exact ⟨h1, h2, h3, h4, (fun b hb => by cases hb; exact h5), h6⟩

/-! ### `!=`, `=~`, `!~`: the checks list -/

theorem insertCheck_subset (re : Bytes → Bytes → Bool) (k : Kind) (x : Bound) (ys : List Bound) :
    ∀ b ∈ (insertCheck re k x ys).1, b ∈ ys := by
  induction ys with
  | nil => intro b hb; simp [insertCheck] at hb
  | cons y ys ih =>
    intro b hb
    unfold insertCheck at hb
    cases hs : simplifyBounds re k x y <;> rw [hs] at hb <;> simp only at hb
    · exact List.mem_cons_of_mem _ (ih b hb)
    all_goals
      rcases List.mem_cons.1 hb with h | h
      · rw [h]; exact List.mem_cons_self
      · exact List.mem_cons_of_mem _ (ih b h)

theorem insertCheck_spec (re : Bytes → Bytes → Bool) (k : Kind) (x : Bound) (v : Atom)
    (hk : Kind.has k v = true) (hax : boundAdmits x v = true)
    (ys : List Bound) (hys : ∀ y ∈ ys, boundAdmits y v = true) :
    ((∀ b ∈ (insertCheck re k x ys).1, boundHolds re b v = true) → boundHolds re x v = true →
      ∀ b ∈ ys, boundHolds re b v = true) ∧
    ((insertCheck re k x ys).2 = true → (∀ b ∈ (insertCheck re k x ys).1, boundHolds re b v = true) →
      boundHolds re x v = true) := by
  induction ys with
  | nil => simp [insertCheck]
  | cons y ys ih =>
    have ih' := ih (fun b hb => hys b (List.mem_cons_of_mem _ hb))
    have hy := hys y List.mem_cons_self
    have hsound := simplify_sound re k x y v hax hy hk
    unfold insertCheck
    cases hs : simplifyBounds re k x y <;> rw [hs] at hsound <;> simp only at hsound ⊢
    · -- keepX: y is deleted
      refine ⟨?_, ih'.2⟩
      intro hr hx b hb
      rcases List.mem_cons.1 hb with h | h
      · rw [h]; exact hsound hx
      · exact ih'.1 hr hx b h
    · -- keepY: x is redundant
      refine ⟨?_, ?_⟩
      · intro hr hx b hb
        rcases List.mem_cons.1 hb with h | h
        · rw [h]; exact hr y List.mem_cons_self
        · exact ih'.1 (fun b hb => hr b (List.mem_cons_of_mem _ hb)) hx b h
      · intro _ hr; exact hsound (hr y List.mem_cons_self)
    · refine ⟨?_, ?_⟩
      · intro hr hx b hb
        rcases List.mem_cons.1 hb with h | h
        · rw [h]; exact hr y List.mem_cons_self
        · exact ih'.1 (fun b hb => hr b (List.mem_cons_of_mem _ hb)) hx b h
      · intro hm hr; exact ih'.2 hm (fun b hb => hr b (List.mem_cons_of_mem _ hb))
    · refine ⟨?_, ?_⟩
      · intro hr hx b hb
        rcases List.mem_cons.1 hb with h | h
        · rw [h]; exact hr y List.mem_cons_self
        · exact ih'.1 (fun b hb => hr b (List.mem_cons_of_mem _ hb)) hx b h
      · intro hm hr; exact ih'.2 hm (fun b hb => hr b (List.mem_cons_of_mem _ hb))

theorem addCheck_spec (re : Bytes → Bytes → Bool) (n : SNode) (x : Bound) (hwf : WF n)
    (hsub : Kind.sub n.kind x.kind) :
    WF (addCheck re n x) ∧
    ∀ v, (den re (addCheck re n x) v ↔ den re n v ∧ boundHolds re x v = true) := by
  have hsubset := insertCheck_subset re n.kind x n.checks
  have hmem : ∀ b ∈ (addCheck re n x).checks, b ∈ n.checks ∨ b = x := by
    intro b hb
    unfold addCheck at hb
    simp only at hb
    split at hb
    · exact Or.inl (hsubset b hb)
    · rcases List.mem_append.1 hb with h | h
      · exact Or.inl (hsubset b h)
      · exact Or.inr (by simpa using h)
  refine ⟨⟨hwf.lower, hwf.upper, ?_, hwf.scalar, hwf.nonbot⟩, fun v => ?_⟩
  · intro b hb
    rcases (mem_bounds _ b).1 hb with h | h | h
    · exact hwf.sub b (mem_lower h)
    · exact hwf.sub b (mem_upper h)
    · rcases hmem b h with h' | h'
      · exact hwf.sub b (mem_checks h')
      · rw [h']; exact hsub
  · -- denotation
    have key : Kind.has n.kind v = true →
        ((∀ b ∈ (addCheck re n x).checks, boundHolds re b v = true) ↔
          (∀ b ∈ n.checks, boundHolds re b v = true) ∧ boundHolds re x v = true) := by
      intro hk
      have hax : boundAdmits x v = true := by rw [← kind_has_admits]; exact hsub v hk
      have hys : ∀ y ∈ n.checks, boundAdmits y v = true :=
        fun y hy => hwf.admits hk (mem_checks hy)
      have sp := insertCheck_spec re n.kind x v hk hax n.checks hys
      unfold addCheck
      simp only
      split
      · rename_i hm
        constructor
        · intro hr
          have hx := sp.2 hm hr
          exact ⟨sp.1 hr hx, hx⟩
        · rintro ⟨hall, _⟩ b hb; exact hall b (hsubset b hb)
      · constructor
        · intro hr
          have hx : boundHolds re x v = true := hr x (List.mem_append.2 (Or.inr (by simp)))
          exact ⟨sp.1 (fun b hb => hr b (List.mem_append.2 (Or.inl hb))) hx, hx⟩
        · rintro ⟨hall, hx⟩ b hb
          rcases List.mem_append.1 hb with h | h
          · exact hall b (hsubset b h)
          · have : b = x := by simpa using h
            rw [this]; exact hx
    unfold den
    constructor
    · rintro ⟨h1, h2, h3, h4, h5, h6⟩
      have := (key h2).1 h6
      exact ⟨⟨h1, h2, h3, h4, h5, this.1⟩, this.2⟩
    · rintro ⟨⟨h1, h2, h3, h4, h5, h6⟩, hx⟩
      exact ⟨h1, h2, h3, h4, h5, (key h2).2 ⟨h6, hx⟩⟩

/-! ### one conjunct -/

theorem placeBound_spec (re : Bytes → Bytes → Bool) (n : SNode) (x : Bound) (hwf : WF n)
    (hsub : Kind.sub n.kind x.kind) :
    WF (placeBound re n x) ∧
    ∀ v, (den re (placeBound re n x) v ↔ den re n v ∧ boundHolds re x v = true) := by
  have lower : isLower x.op = true → WF (recheck re (slotLower re n x)) ∧
      ∀ v, (den re (recheck re (slotLower re n x)) v ↔ den re n v ∧ boundHolds re x v = true) := by
    intro hx
    obtain ⟨w, d⟩ := slotLower_spec re n x hwf hx hsub
    obtain ⟨w', d'⟩ := recheck_spec re _ w
    exact ⟨w', fun v => (d' v).trans (d v)⟩
  have upper : isUpper x.op = true → WF (recheck re (slotUpper re n x)) ∧
      ∀ v, (den re (recheck re (slotUpper re n x)) v ↔ den re n v ∧ boundHolds re x v = true) := by
    intro hx
    obtain ⟨w, d⟩ := slotUpper_spec re n x hwf hx hsub
    obtain ⟨w', d'⟩ := recheck_spec re _ w
    exact ⟨w', fun v => (d' v).trans (d v)⟩
  unfold placeBound
  split
  · rename_i h; exact lower (by rw [h]; rfl)
  · rename_i h; exact lower (by rw [h]; rfl)
  · rename_i h; exact upper (by rw [h]; rfl)
  · rename_i h; exact upper (by rw [h]; rfl)
  · exact addCheck_spec re n x hwf hsub

theorem not_wellTyped_unsat (re : Bytes → Bytes → Bool) (x : Bound) (v : Atom)
    (h : x.wellTyped = false) : satBound re v x = false := by
  obtain ⟨op, a⟩ := x
  cases a <;> simp [Bound.wellTyped] at h <;> cases op <;> simp at h <;> cases v <;>
    simp [satBound, boundAdmits, boundHolds, ordCmp, Atom.num?, Atom.isNull, Atom.sameKind, Atom.kindBit]

theorem insertBound_spec (re : Bytes → Bytes → Bool) (n : SNode) (x : Bound) (hwf : WF n) :
    WF (insertBound re n x) ∧
    ∀ v, (den re (insertBound re n x) v ↔ den re n v ∧ satBound re v x = true) := by
  unfold insertBound
  by_cases hw : x.wellTyped = true
  · simp only [hw, Bool.not_true, Bool.false_eq_true, if_false]
    refine insert_shape re n x.kind (fun m => placeBound re m x) (fun v => satBound re v x = true)
      (bound_kind_ne_zero x) hwf ?_ ?_
    · intro v hv
      rw [kind_has_admits]
      simp only [satBound, Bool.and_eq_true] at hv; exact hv.1
    · intro n1 w1 hk1
      have hsub : Kind.sub n1.kind x.kind := by rw [hk1]; exact Kind.sub_and_right _ _
      obtain ⟨w, d⟩ := placeBound_spec re n1 x w1 hsub
      refine ⟨w, fun v => ?_⟩
      rw [d v]
      constructor
      · rintro ⟨h1, h2⟩
        refine ⟨h1, ?_⟩
        simp only [satBound, Bool.and_eq_true]
        refine ⟨?_, h2⟩
        rw [← kind_has_admits]; exact hsub v h1.2.1
      · rintro ⟨h1, h2⟩
        simp only [satBound, Bool.and_eq_true] at h2; exact ⟨h1, h2.2⟩
  · have hw' : x.wellTyped = false := by simpa using hw
    simp only [hw', Bool.not_false, if_true]
    refine ⟨⟨hwf.lower, hwf.upper, hwf.sub, hwf.scalar, ?_⟩, fun v => ?_⟩
    · intro h; cases h
    · constructor
      · intro h; cases h.1
      · rintro ⟨_, h⟩; rw [not_wellTyped_unsat re x v hw'] at h; cases h

theorem placeAtom_spec (re : Bytes → Bytes → Bool) (n : SNode) (a : Atom) (hwf : WF n)
    (hbits : ∀ i, Nat.testBit n.kind i = true → i = a.kindBit) :
    WF (placeAtom re n a) ∧ ∀ v, (den re (placeAtom re n a) v ↔ den re n v ∧ v.same a = true) := by
  have hkind : ∀ v, Kind.has n.kind v = true → v.sameKind a = true := by
    intro v hv
    have := hbits _ hv
    simp only [Atom.sameKind, this, beq_self_eq_true]
  unfold placeAtom
  simp only
  split
  · rename_i y hy
    split
    · rename_i he
      obtain ⟨w', d'⟩ := recheck_spec re n hwf
      refine ⟨w', fun v => (d' v).trans ⟨fun h => ⟨h, ?_⟩, fun h => h.1⟩⟩
      have hvy := h.2.2.1 y hy
      simp only [Atom.same, Bool.and_eq_true] at hvy ⊢
      refine ⟨hkind v h.2.1, ?_⟩
      have he' : a.eqv y = true := he
      rw [eqv_symm] at he'
      exact eqv_trans v y a hvy.2 he'
    · rename_i he
      have w1 : WF { n with err := true } :=
        ⟨hwf.lower, hwf.upper, hwf.sub, hwf.scalar, fun h => by cases h⟩
      obtain ⟨w', d'⟩ := recheck_spec re _ w1
      refine ⟨w', fun v => (d' v).trans ⟨(fun h => by cases h.1), ?_⟩⟩
      rintro ⟨h, hva⟩
      exfalso
      have hvy := h.2.2.1 y hy
      simp only [Atom.same, Bool.and_eq_true] at hvy hva
      apply he
      have : a.eqv v = true := by rw [eqv_symm]; exact hva.2
      exact eqv_trans a v y this hvy.2
  · rename_i hnone
    have w1 : WF { n with scalar := some a } := by
      refine ⟨hwf.lower, hwf.upper, hwf.sub, ?_, hwf.nonbot⟩
      intro s hs; cases hs; exact hbits
    obtain ⟨w', d'⟩ := recheck_spec re _ w1
    refine ⟨w', fun v => (d' v).trans ?_⟩
    unfold den
    constructor
    · rintro ⟨h1, h2, h3, h4⟩
      exact ⟨⟨h1, h2, (fun s hs => by rw [hnone] at hs; cases hs), h4⟩, h3 a rfl⟩
    · rintro ⟨⟨h1, h2, _, h4⟩, h3⟩
      exact ⟨h1, h2, (fun s hs => by cases hs; exact h3), h4⟩

theorem insertAtom_spec (re : Bytes → Bytes → Bool) (n : SNode) (a : Atom) (hwf : WF n) :
    WF (insertAtom re n a) ∧
    ∀ v, (den re (insertAtom re n a) v ↔ den re n v ∧ v.same a = true) := by
  unfold insertAtom
  refine insert_shape re n a.kind (fun m => placeAtom re m a) (fun v => v.same a = true)
    (atom_kind_ne_zero a) hwf ?_ ?_
  · intro v hv
    rw [atom_kind_has]
    simp only [Atom.same, Bool.and_eq_true] at hv; exact hv.1
  · intro n1 w1 hk1
    refine placeAtom_spec re n1 a w1 ?_
    intro i hi
    rw [hk1, Nat.testBit_and, Bool.and_eq_true] at hi
    have := hi.2
    simp only [Atom.kind, Nat.testBit_two_pow, decide_eq_true_eq] at this
    exact this.symm

theorem insertType_spec (re : Bytes → Bytes → Bool) (n : SNode) (k : Kind) (hwf : WF n) (hk : k ≠ 0) :
    WF (insertType re n k) ∧
    ∀ v, (den re (insertType re n k) v ↔ den re n v ∧ Kind.has k v = true) := by
  unfold insertType
  refine insert_shape re n k (fun m => recheck re m) (fun v => Kind.has k v = true) hk hwf
    (fun _ h => h) ?_
  intro n1 w1 hk1
  obtain ⟨w', d'⟩ := recheck_spec re n1 w1
  refine ⟨w', fun v => (d' v).trans ⟨fun h => ⟨h, ?_⟩, fun h => h.1⟩⟩
  have := h.2.1
  rw [hk1, Kind.has_and] at this
  simp only [Bool.and_eq_true] at this; exact this.2

def Constraint.isBasic : Constraint → Bool
  | .range _ => false
  | _ => true

theorem btype_kind_ne_zero (t : BType) : t.kind ≠ 0 := by cases t <;> decide

theorem insertBasic_spec (re : Bytes → Bytes → Bool) (n : SNode) (c : Constraint) (hwf : WF n)
    (hb : c.isBasic = true) :
    WF (insertBasic re n c) ∧ ∀ v, (den re (insertBasic re n c) v ↔ den re n v ∧ sat re v c = true) := by
  cases c with
  | atom a => exact insertAtom_spec re n a hwf
  | type t => exact insertType_spec re n t.kind hwf (btype_kind_ne_zero t)
  | bound b => exact insertBound_spec re n b hwf
  | range r => cases hb

theorem foldl_spec (re : Bytes → Bytes → Bool) (f : SNode → Constraint → SNode)
    (ok : Constraint → Prop)
    (hf : ∀ n c, WF n → ok c → WF (f n c) ∧ ∀ v, (den re (f n c) v ↔ den re n v ∧ sat re v c = true)) :
    ∀ (cs : List Constraint) (n : SNode), WF n → (∀ c ∈ cs, ok c) →
      WF (cs.foldl f n) ∧ ∀ v, (den re (cs.foldl f n) v ↔ den re n v ∧ ∀ c ∈ cs, sat re v c = true) := by
  intro cs
  induction cs with
  | nil => intro n hwf _; exact ⟨hwf, fun v => by simp⟩
  | cons c cs ih =>
    intro n hwf hok
    obtain ⟨w, d⟩ := hf n c hwf (hok c List.mem_cons_self)
    obtain ⟨w', d'⟩ := ih (f n c) w (fun c' hc' => hok c' (List.mem_cons_of_mem _ hc'))
    refine ⟨w', fun v => ?_⟩
    rw [List.foldl_cons, d' v, d v]
    constructor
    · rintro ⟨⟨h1, h2⟩, h3⟩
      refine ⟨h1, fun c' hc' => ?_⟩
      rcases List.mem_cons.1 hc' with h | h
      · rw [h]; exact h2
      · exact h3 c' h
    · rintro ⟨h1, h2⟩
      exact ⟨⟨h1, h2 c List.mem_cons_self⟩, fun c' hc' => h2 c' (List.mem_cons_of_mem _ hc')⟩

/-! ### predeclared ranges -/

theorem expand_ok (r : Range) : ∀ c ∈ r.expand, c.isBasic = true := by
  cases r <;> decide

theorem isNum_eq (v : Atom) : v.isNum = v.num?.isSome := by cases v <;> rfl

theorem sat_ge_num (re : Bytes → Bytes → Bool) (v : Atom) (m : Atom) (d x : Dec)
    (hv : v.num? = some d) (hm : m.num? = some x) :
    sat re v (.bound ⟨.ge, m⟩) = (Dec.cmp x d).isLE := by
  have hadm : boundAdmits ⟨.ge, m⟩ v = true := by
    cases m <;> simp [Atom.num?] at hm <;> simp [boundAdmits, isNum_eq, hv]
  simp only [sat, satBound, hadm, Bool.true_and, boundHolds, ordCmp_num v m d x hv hm, opHolds_ge]
  exact OrientedCmp.isGE_eq_isLE

theorem sat_le_num (re : Bytes → Bytes → Bool) (v : Atom) (m : Atom) (d x : Dec)
    (hv : v.num? = some d) (hm : m.num? = some x) :
    sat re v (.bound ⟨.le, m⟩) = (Dec.cmp d x).isLE := by
  have hadm : boundAdmits ⟨.le, m⟩ v = true := by
    cases m <;> simp [Atom.num?] at hm <;> simp [boundAdmits, isNum_eq, hv]
  simp only [sat, satBound, hadm, Bool.true_and, boundHolds, ordCmp_num v m d x hv hm, opHolds_le]

theorem sat_bound_nonnum (re : Bytes → Bytes → Bool) (v : Atom) (op : Op) (m : Atom) (x : Dec)
    (hv : v.num? = none) (hm : m.num? = some x) : sat re v (.bound ⟨op, m⟩) = false := by
  have hadm : boundAdmits ⟨op, m⟩ v = false := by
    cases m <;> simp [Atom.num?] at hm <;> simp [boundAdmits, isNum_eq, hv]
  simp only [sat, satBound, hadm, Bool.false_and]

theorem sat_range (re : Bytes → Bytes → Bool) (r : Range) (v : Atom) :
    sat re v (.range r) = true ↔ ∀ c ∈ r.expand, sat re v c = true := by
  show satRange v r = true ↔ _
  unfold satRange Range.expand
  cases hspec : r.intSpec with
  | none =>
    simp only [List.forall_mem_cons, List.not_mem_nil, false_imp_iff, implies_true, and_true]
    cases hv : v.num? with
    | none =>
      rw [sat_bound_nonnum re v .ge (.float r.floatMax.neg) r.floatMax.neg hv rfl]
      simp
    | some d =>
      rw [sat_ge_num re v (.float r.floatMax.neg) d r.floatMax.neg hv rfl,
        sat_le_num re v (.float r.floatMax) d r.floatMax hv rfl]
      simp only [Bool.and_eq_true]
  | some p =>
    obtain ⟨lo, hi⟩ := p
    simp only [List.cons_append, List.nil_append, List.forall_mem_cons]
    cases v with
    | int z =>
      have h1 : sat re (.int z) (.type .int) = true := (by decide : Nat.testBit 4 2 = true)
      have h2 : sat re (.int z) (.bound ⟨.ge, .int lo⟩) = decide (lo ≤ z) := by
        rw [sat_ge_num re (.int z) (.int lo) (Dec.ofInt z) (Dec.ofInt lo) rfl rfl, Dec.cmp_ofInt_ofInt, Bool.eq_iff_iff]
        simp only [decide_eq_true_eq]; exact Int.isLE_compare
      rw [h1, h2]
      cases hi with
      | none => simp
      | some h =>
        have h3 : sat re (.int z) (.bound ⟨.le, .int h⟩) = decide (z ≤ h) := by
          rw [sat_le_num re (.int z) (.int h) (Dec.ofInt z) (Dec.ofInt h) rfl rfl, Dec.cmp_ofInt_ofInt, Bool.eq_iff_iff]
          simp only [decide_eq_true_eq]; exact Int.isLE_compare
        simp [h3]
    | null =>
      have h1 : sat re Atom.null (.type .int) = false := (by decide : Nat.testBit 4 0 = false)
      simp [h1]
    | bool b =>
      have h1 : sat re (Atom.bool b) (.type .int) = false := (by decide : Nat.testBit 4 1 = false)
      simp [h1]
    | float d =>
      have h1 : sat re (Atom.float d) (.type .int) = false := (by decide : Nat.testBit 4 3 = false)
      simp [h1]
    | str s =>
      have h1 : sat re (Atom.str s) (.type .int) = false := (by decide : Nat.testBit 4 4 = false)
      simp [h1]
    | bytes s =>
      have h1 : sat re (Atom.bytes s) (.type .int) = false := (by decide : Nat.testBit 4 5 = false)
      simp [h1]

theorem insert_spec (re : Bytes → Bytes → Bool) (n : SNode) (c : Constraint) (hwf : WF n) :
    WF (insert re n c) ∧ ∀ v, (den re (insert re n c) v ↔ den re n v ∧ sat re v c = true) := by
  cases c with
  | range r =>
    have := foldl_spec re (insertBasic re) (fun c => c.isBasic = true)
      (fun n c w h => insertBasic_spec re n c w h) r.expand n hwf (expand_ok r)
    refine ⟨this.1, fun v => ?_⟩
    show den re (r.expand.foldl (insertBasic re) n) v ↔ _
    rw [this.2 v, sat_range]
  | atom a => exact insertBasic_spec re n (.atom a) hwf rfl
  | type t => exact insertBasic_spec re n (.type t) hwf rfl
  | bound b => exact insertBasic_spec re n (.bound b) hwf rfl

/-- The node after inserting all conjuncts admits exactly the atoms satisfying all of them. -/
theorem fold_den (re : Bytes → Bytes → Bool) (cs : List Constraint) :
    WF (cs.foldl (insert re) SNode.top) ∧
    ∀ v, (den re (cs.foldl (insert re) SNode.top) v ↔ Sat re cs v) := by
  have := foldl_spec re (insert re) (fun _ => True)
    (fun n c w _ => insert_spec re n c w) cs SNode.top wf_top (fun _ _ => trivial)
  refine ⟨this.1, fun v => ?_⟩
  rw [this.2 v]
  exact ⟨fun h => h.2, fun h => ⟨den_top re v, h⟩⟩

/-! ### finalisation -/

theorem same_refl (a : Atom) : a.same a = true := by
  simp only [Atom.same, Atom.sameKind, beq_self_eq_true, eqv_refl, Bool.and_self]

theorem has_congr (k : Kind) (v w : Atom) (h : v.same w = true) : Kind.has k v = Kind.has k w := by
  simp only [Atom.same, Atom.sameKind, Bool.and_eq_true, beq_iff_eq] at h
  simp only [Kind.has, h.1]

theorem holds_congr (re : Bytes → Bytes → Bool) (b : Bound) (v w : Atom) (h : v.same w = true) :
    boundHolds re b v = boundHolds re b w := by
  simp only [Atom.same, Bool.and_eq_true] at h
  rw [← binOpBool_eq_holds, ← binOpBool_eq_holds, binOpBool_congr_left re b.op v w b.val h.2]

theorem same_symm (v w : Atom) (h : v.same w = true) : w.same v = true := by
  simp only [Atom.same, Atom.sameKind, Bool.and_eq_true, beq_iff_eq] at h ⊢
  exact ⟨h.1.symm, by rw [eqv_symm]; exact h.2⟩

theorem same_trans (u v w : Atom) (h1 : u.same v = true) (h2 : v.same w = true) : u.same w = true := by
  simp only [Atom.same, Atom.sameKind, Bool.and_eq_true, beq_iff_eq] at h1 h2 ⊢
  exact ⟨h1.1.trans h2.1, eqv_trans u v w h1.2 h2.2⟩

/-- the denotation does not distinguish equal atoms (`1.0` / `1.00`) -/
theorem den_congr (re : Bytes → Bytes → Bool) (n : SNode) (v w : Atom) (h : v.same w = true)
    (hd : den re n v) : den re n w := by
  obtain ⟨h1, h2, h3, h4, h5, h6⟩ := hd
  refine ⟨h1, by rw [← has_congr n.kind v w h]; exact h2, ?_, ?_, ?_, ?_⟩
  · intro s hs; exact same_trans w v s (same_symm v w h) (h3 s hs)
  · intro b hb; rw [← holds_congr re b v w h]; exact h4 b hb
  · intro b hb; rw [← holds_congr re b v w h]; exact h5 b hb
  · intro b hb; rw [← holds_congr re b v w h]; exact h6 b hb

theorem optAll_iff (o : Option Bound) (p : Bound → Bool) :
    optAll o p = true ↔ ∀ b, o = some b → p b = true := by
  cases o <;> simp [optAll]

theorem finalize_spec (re : Bytes → Bytes → Bool) (n : SNode) (hwf : WF n) :
    match finalize re n with
    | .bottom => ∀ v, ¬ den re n v
    | .atom s => den re n s ∧ ∀ v, den re n v → v.same s = true
    | .residual _ _ => n.scalar = none := by
  by_cases herr : n.err = true
  · have e : finalize re n = .bottom := by unfold finalize; rw [if_pos herr]
    rw [e]
    intro v h; rw [h.1] at herr; cases herr
  · have herr' : n.err = false := by simpa using herr
    cases hs : n.scalar with
    | none =>
      have e : finalize re n = .residual n.kind (residualBounds re n) := by
        unfold finalize; rw [if_neg herr]; simp only [hs]
      rw [e]
    | some s =>
      -- the validation condition is "all bounds hold for s"
      have hval : (optAll n.lower (validate re · s) && optAll n.upper (validate re · s) &&
          n.checks.all (validate re · s)) = true ↔
          ((∀ b, n.lower = some b → boundHolds re b s = true) ∧
           (∀ b, n.upper = some b → boundHolds re b s = true) ∧
           (∀ b ∈ n.checks, boundHolds re b s = true)) := by
        simp only [Bool.and_eq_true, optAll_iff, List.all_eq_true, validate, binOpBool_eq_holds, and_assoc]
      by_cases hv : (optAll n.lower (validate re · s) && optAll n.upper (validate re · s) &&
          n.checks.all (validate re · s)) = true
      · have e : finalize re n = .atom s := by
          unfold finalize; rw [if_neg herr]; simp only [hs]; rw [if_pos hv]
        rw [e]
        have hv' := hval.1 hv
        refine ⟨⟨herr', ?_, ?_, hv'.1, hv'.2.1, hv'.2.2⟩, fun v h => h.2.2.1 s hs⟩
        · obtain ⟨i, hi⟩ := Nat.exists_testBit_of_ne_zero (hwf.nonbot herr')
          have := hwf.scalar s hs i hi
          rw [this] at hi; exact hi
        · intro s' hs'; rw [hs] at hs'; cases hs'; exact same_refl _
      · have e : finalize re n = .bottom := by
          unfold finalize; rw [if_neg herr]; simp only [hs]; rw [if_neg hv]
        rw [e]
        intro v h
        apply hv
        have hvs := h.2.2.1 s hs
        have hs' := den_congr re n v s hvs h
        exact hval.2 ⟨hs'.2.2.2.1, hs'.2.2.2.2.1, hs'.2.2.2.2.2⟩

/-! ### once an atom has been inserted the node is settled: error, scalar or empty kind -/

def settled (n : SNode) : Prop := n.err = true ∨ n.scalar.isSome = true ∨ n.kind = 0

theorem recheck_fields (re : Bytes → Bytes → Bool) (n : SNode) :
    (recheck re n).scalar = n.scalar ∧ (recheck re n).kind = n.kind ∧
    (n.err = true → (recheck re n).err = true) := by
  unfold recheck
  repeat' split
  all_goals simp

theorem slotLower_fields (re : Bytes → Bytes → Bool) (n : SNode) (x : Bound) :
    (slotLower re n x).scalar = n.scalar ∧ (slotLower re n x).kind = n.kind ∧
    (slotLower re n x).err = n.err := by
  unfold slotLower
  repeat' split
  all_goals simp

theorem slotUpper_fields (re : Bytes → Bytes → Bool) (n : SNode) (x : Bound) :
    (slotUpper re n x).scalar = n.scalar ∧ (slotUpper re n x).kind = n.kind ∧
    (slotUpper re n x).err = n.err := by
  unfold slotUpper
  repeat' split
  all_goals simp

theorem settled_recheck (re : Bytes → Bytes → Bool) (n : SNode) (h : settled n) : settled (recheck re n) := by
  obtain ⟨h1, h2, h3⟩ := recheck_fields re n
  unfold settled
  rw [h1, h2]
  rcases h with h | h | h
  · exact Or.inl (h3 h)
  · exact Or.inr (Or.inl h)
  · exact Or.inr (Or.inr h)

theorem settled_placeBound (re : Bytes → Bytes → Bool) (n : SNode) (x : Bound) (h : settled n) :
    settled (placeBound re n x) := by
  have hl : settled (slotLower re n x) := by
    obtain ⟨h1, h2, h3⟩ := slotLower_fields re n x
    unfold settled; rw [h1, h2, h3]; exact h
  have hu : settled (slotUpper re n x) := by
    obtain ⟨h1, h2, h3⟩ := slotUpper_fields re n x
    unfold settled; rw [h1, h2, h3]; exact h
  unfold placeBound
  split
  · exact settled_recheck re _ hl
  · exact settled_recheck re _ hl
  · exact settled_recheck re _ hu
  · exact settled_recheck re _ hu
  · exact h

theorem settled_updateKind (n : SNode) (k : Kind) (h : settled n) : settled (updateKind n k).1 := by
  unfold updateKind
  by_cases h0 : (n.kind == Kind.bottom || k == Kind.bottom) = true
  · rw [if_pos h0]; exact h
  · rw [if_neg h0]
    by_cases h1 : (n.kind &&& k == Kind.bottom) = true
    · simp only [h1, if_true]; exact Or.inl rfl
    · simp only [h1, if_false]
      rcases h with h | h | h
      · exact Or.inl h
      · exact Or.inr (Or.inl h)
      · exfalso; apply h0; simp [h, Kind.bottom]

theorem settled_placeAtom (re : Bytes → Bytes → Bool) (n : SNode) (a : Atom) : settled (placeAtom re n a) := by
  unfold placeAtom
  apply settled_recheck
  split
  · split
    · rename_i y hy _; exact Or.inr (Or.inl (by rw [hy]; rfl))
    · exact Or.inl rfl
  · exact Or.inr (Or.inl rfl)

theorem settled_insertAtom (re : Bytes → Bytes → Bool) (n : SNode) (a : Atom) : settled (insertAtom re n a) := by
  unfold insertAtom
  simp only
  rcases updateKind_spec n a.kind (atom_kind_ne_zero a) with ⟨h0, he⟩ | ⟨_, he⟩ | ⟨_, he⟩ <;> rw [he]
  · exact Or.inr (Or.inr h0)
  · exact Or.inl rfl
  · exact settled_placeAtom re _ a

theorem settled_insertBasic (re : Bytes → Bytes → Bool) (n : SNode) (c : Constraint) (h : settled n) :
    settled (insertBasic re n c) := by
  cases c with
  | atom a => exact settled_insertAtom re n a
  | type t =>
    show settled (insertType re n t.kind)
    unfold insertType
    simp only
    split
    · exact settled_updateKind n _ h
    · exact settled_recheck re _ (settled_updateKind n _ h)
  | bound b =>
    show settled (insertBound re n b)
    unfold insertBound
    simp only
    split
    · exact Or.inl rfl
    · split
      · exact settled_updateKind n _ h
      · exact settled_placeBound re _ b (settled_updateKind n _ h)
  | range r => exact h

theorem settled_foldl (f : SNode → Constraint → SNode) (hf : ∀ n c, settled n → settled (f n c))
    (cs : List Constraint) (n : SNode) (h : settled n) : settled (cs.foldl f n) := by
  induction cs generalizing n with
  | nil => exact h
  | cons c cs ih => exact ih (f n c) (hf n c h)

theorem settled_insert (re : Bytes → Bytes → Bool) (n : SNode) (c : Constraint) (h : settled n) :
    settled (insert re n c) := by
  cases c with
  | range r => exact settled_foldl (insertBasic re) (settled_insertBasic re) r.expand n h
  | atom a => exact settled_insertBasic re n (.atom a) h
  | type t => exact settled_insertBasic re n (.type t) h
  | bound b => exact settled_insertBasic re n (.bound b) h

theorem settled_of_mem (re : Bytes → Bytes → Bool) (a : Atom) (cs : List Constraint) (n : SNode)
    (h : Constraint.atom a ∈ cs) : settled (cs.foldl (insert re) n) := by
  induction cs generalizing n with
  | nil => cases h
  | cons c cs ih =>
    rcases List.mem_cons.1 h with h' | h'
    · subst h'
      exact settled_foldl (insert re) (settled_insert re) cs _ (settled_insertAtom re n a)
    · exact ih (insert re n c) h'

/-! ### the property theorems (statements are repeated in `Props/C03.lean`) -/

theorem accept_iff (re : Bytes → Bytes → Bool) (cs : List Constraint) (a : Atom)
    (ha : Constraint.atom a ∈ cs) :
    accepts (evalS re cs) a ↔ Sat re cs a := by
  obtain ⟨hwf, hden⟩ := fold_den re cs
  have hfin := finalize_spec re _ hwf
  have hset := settled_of_mem re a cs SNode.top ha
  unfold evalS accepts
  constructor
  · rintro ⟨b, hb, hsame⟩
    rw [hb] at hfin
    exact (hden a).1 (den_congr re _ b a hsame hfin.1)
  · intro hsat
    have hd := (hden a).2 hsat
    cases hres : finalize re (cs.foldl (insert re) SNode.top) with
    | bottom => rw [hres] at hfin; exact absurd hd (hfin a)
    | atom b =>
      rw [hres] at hfin
      exact ⟨b, rfl, same_symm a b (hfin.2 a hd)⟩
    | residual k bs =>
      rw [hres] at hfin
      exfalso
      rcases hset with h | h | h
      · rw [hd.1] at h; cases h
      · rw [hfin] at h; cases h
      · have := hd.2.1; rw [h, Kind.has_zero] at this; cases this

theorem bottom_sound (re : Bytes → Bytes → Bool) (cs : List Constraint)
    (h : evalS re cs = .bottom) : ∀ a, ¬ Sat re cs a := by
  obtain ⟨hwf, hden⟩ := fold_den re cs
  have hfin := finalize_spec re _ hwf
  unfold evalS at h
  rw [h] at hfin
  intro a hs; exact hfin a ((hden a).2 hs)

theorem pinned (re : Bytes → Bytes → Bool) (cs : List Constraint) (b : Atom)
    (h : evalS re cs = .atom b) : Sat re cs b ∧ ∀ a, Sat re cs a → a.same b = true := by
  obtain ⟨hwf, hden⟩ := fold_den re cs
  have hfin := finalize_spec re _ hwf
  unfold evalS at h
  rw [h] at hfin
  exact ⟨(hden b).1 hfin.1, fun a hs => hfin.2 a ((hden a).2 hs)⟩

/-! ### the residual keeps the denotation (`getValidators`) -/

theorem ite_X_both_or {c : Prop} [Decidable c] :
    (if c then Outcome.keepX else Outcome.both) = .keepX ∨
    (if c then Outcome.keepX else Outcome.both) = .both := by
  by_cases h : c <;> simp [h]

/-- an ordering bound against a `!=`: `SimplifyBounds` returns the ordering bound or nil -/
theorem ord_vs_ne (re : Bytes → Bytes → Bool) (k : Kind) (u c : Bound) (hu : isOrd u.op = true)
    (hc : c.op = .ne) :
    simplifyBounds re k u c = .keepX ∨ simplifyBounds re k u c = .both := by
  obtain ⟨uop, a⟩ := u
  obtain ⟨cop, b⟩ := c
  simp only at hc; subst hc
  cases uop <;> simp [isOrd] at hu <;> simp [simplifyBounds, opInfo, simplifyNe] <;> exact ite_X_both_or

theorem finalize_residual (re : Bytes → Bytes → Bool) (n : SNode) (k : Kind) (bs : List Bound)
    (h : finalize re n = .residual k bs) :
    n.err = false ∧ n.scalar = none ∧ k = n.kind ∧ bs = residualBounds re n := by
  unfold finalize at h
  by_cases herr : n.err = true
  · rw [if_pos herr] at h; cases h
  · rw [if_neg herr] at h
    cases hs : n.scalar with
    | some s => simp only [hs] at h; split at h <;> cases h
    | none =>
      simp only [hs] at h
      cases h
      exact ⟨by simpa using herr, rfl, rfl, rfl⟩

theorem mem_residual (re : Bytes → Bytes → Bool) (n : SNode) (b : Bound) (h : b ∈ residualBounds re n) :
    b ∈ n.bounds := by
  unfold residualBounds at h
  rcases List.mem_append.1 h with h | h
  · rcases List.mem_append.1 h with h | h
    · exact mem_lower (by simpa using h)
    · exact mem_upper (by simpa using h)
  · exact mem_checks (List.mem_filter.1 h).1

theorem residual_den (re : Bytes → Bytes → Bool) (n : SNode) (hwf : WF n) (he : n.err = false)
    (hs : n.scalar = none) (v : Atom) :
    den re n v ↔ (Kind.has n.kind v = true ∧ ∀ b ∈ residualBounds re n, satBound re v b = true) := by
  constructor
  · intro h
    refine ⟨h.2.1, fun b hb => ?_⟩
    have hb' := mem_residual re n b hb
    simp only [satBound, Bool.and_eq_true]
    exact ⟨hwf.admits h.2.1 hb', den_bounds h hb'⟩
  · rintro ⟨hk, hall⟩
    have holds : ∀ b ∈ residualBounds re n, boundHolds re b v = true := by
      intro b hb
      have := hall b hb
      simp only [satBound, Bool.and_eq_true] at this; exact this.2
    have hl : ∀ b, n.lower = some b → boundHolds re b v = true := by
      intro b hb; apply holds
      unfold residualBounds
      exact List.mem_append.2 (Or.inl (List.mem_append.2 (Or.inl (by simp [hb]))))
    have hu : ∀ b, n.upper = some b → boundHolds re b v = true := by
      intro b hb; apply holds
      unfold residualBounds
      exact List.mem_append.2 (Or.inl (List.mem_append.2 (Or.inr (by simp [hb]))))
    refine ⟨he, hk, (fun s h => by rw [hs] at h; cases h), hl, hu, ?_⟩
    intro c hc
    -- either kept, or a `!=` implied by the upper / lower bound
    by_cases hkeep : (!(c.op == .ne &&
        ((match n.upper with | some u => simplifyBounds re n.kind u c != .both | none => false) ||
         (match n.lower with | some l => simplifyBounds re n.kind l c != .both | none => false)))) = true
    · apply holds
      unfold residualBounds
      exact List.mem_append.2 (Or.inr (List.mem_filter.2 ⟨hc, hkeep⟩))
    · simp only [Bool.not_eq_true', Bool.not_eq_false, Bool.and_eq_true, beq_iff_eq,
        Bool.or_eq_true] at hkeep
      obtain ⟨hne, hdrop⟩ := hkeep
      have hadc : boundAdmits c v = true := hwf.admits hk (mem_checks hc)
      have imp : ∀ u, u ∈ n.bounds → isOrd u.op = true → (simplifyBounds re n.kind u c != .both) = true →
          boundHolds re u v = true → boundHolds re c v = true := by
        intro u hub huo hnb huh
        have hsound := simplify_sound re n.kind u c v (hwf.admits hk hub) hadc hk
        rcases ord_vs_ne re n.kind u c huo hne with h | h
        · rw [h] at hsound; exact hsound huh
        · rw [h] at hnb; simp at hnb
      rcases hdrop with hd | hd
      · cases hup : n.upper with
        | none => rw [hup] at hd; cases hd
        | some u =>
          rw [hup] at hd
          exact imp u (mem_upper hup) (isOrd_of_upper _ (hwf.upper u hup)) hd (hu u hup)
      · cases hlo : n.lower with
        | none => rw [hlo] at hd; cases hd
        | some l =>
          rw [hlo] at hd
          exact imp l (mem_lower hlo) (isOrd_of_lower _ (hwf.lower l hlo)) hd (hl l hlo)

/-- A non-concrete result denotes exactly the atoms that satisfy every conjunct. -/
theorem residual_exact (re : Bytes → Bytes → Bool) (cs : List Constraint) (k : Kind) (bs : List Bound)
    (h : evalS re cs = .residual k bs) (a : Atom) :
    Sat re cs a ↔ (Kind.has k a = true ∧ ∀ b ∈ bs, satBound re a b = true) := by
  obtain ⟨hwf, hden⟩ := fold_den re cs
  unfold evalS at h
  obtain ⟨he, hs, hk, hb⟩ := finalize_residual re _ k bs h
  rw [← hden a, residual_den re _ hwf he hs a, hk, hb]

end CueVerif.Scalar
