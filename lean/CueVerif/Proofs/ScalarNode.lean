import CueVerif.Proofs.Scalar
/-!
C03 — proofs, node level: inserting a conjunct intersects the denotation of the node with the
denotation of the conjunct (`insert_den`), and `finalize` reports bottom / the pinned atom
accordingly.  Core Lean only.
-/
namespace CueVerif.Scalar
open CueVerif Std

def SNode.bounds (n : SNode) : List Bound := n.lower.toList ++ n.upper.toList ++ n.checks

theorem mem_bounds (n : SNode) (b : Bound) :
    b ∈ n.bounds ↔ n.lower = some b ∨ n.upper = some b ∨ b ∈ n.checks := by
  simp only [SNode.bounds, List.mem_append, Option.mem_toList, Option.mem_def, or_assoc]

/-- the atoms a node still admits -/
def den (re : Bytes → Bytes → Bool) (n : SNode) (v : Atom) : Prop :=
  n.err = false ∧ Kind.has n.kind v = true ∧ (∀ s, n.scalar = some s → v.same s = true) ∧
  ∀ b ∈ n.bounds, boundHolds re b v = true

structure WF (n : SNode) : Prop where
  lower : ∀ b, n.lower = some b → isLower b.op = true
  upper : ∀ b, n.upper = some b → isUpper b.op = true
  sub : ∀ b ∈ n.bounds, Kind.sub n.kind b.kind
  small : ∀ b ∈ n.bounds, b.small = true
  scalar : ∀ s, n.scalar = some s → Kind.sub n.kind s.kind
  nonbot : n.err = false → n.kind ≠ 0

theorem WF.admits {n : SNode} (h : WF n) {v : Atom} (hk : Kind.has n.kind v = true) {b : Bound}
    (hb : b ∈ n.bounds) : boundAdmits b v = true := by
  rw [← kind_has_admits]; exact h.sub b hb v hk

theorem wf_top : WF SNode.top := by
  refine ⟨?_, ?_, ?_, ?_, ?_, ?_⟩ <;> intros <;> simp_all [SNode.top, SNode.bounds, Kind.top]

theorem den_top (re : Bytes → Bytes → Bool) (v : Atom) : den re SNode.top v := by
  refine ⟨rfl, top_has v, ?_, ?_⟩
  · intro s h; cases h
  · intro b hb; simp [SNode.top, SNode.bounds] at hb

/-! ### updateKind -/

def shrink (n : SNode) (k : Kind) : SNode := { n with kind := n.kind &&& k }

theorem updateKind_spec (n : SNode) (k : Kind) (hk : k ≠ 0) :
    (n.kind = 0 ∧ updateKind n k = (n, false)) ∨
    (n.kind &&& k = 0 ∧ updateKind n k = ({ n with kind := 0, err := true }, false)) ∨
    (n.kind &&& k ≠ 0 ∧ updateKind n k = (shrink n k, true)) := by
  unfold updateKind shrink
  by_cases h0 : n.kind = 0
  · left; simp [h0, Kind.bottom]
  · right
    by_cases h1 : n.kind &&& k = 0
    · left; simp [h0, hk, h1, Kind.bottom]
    · right; simp [h0, hk, h1, Kind.bottom]

theorem wf_shrink (n : SNode) (k : Kind) (h : WF n) (hne : n.kind &&& k ≠ 0) : WF (shrink n k) := by
  refine ⟨h.lower, h.upper, ?_, h.small, ?_, fun _ => hne⟩
  · intro b hb; exact Kind.sub_trans (Kind.sub_and_left _ _) (h.sub b hb)
  · intro s hs; exact Kind.sub_trans (Kind.sub_and_left _ _) (h.scalar s hs)

theorem den_shrink (re : Bytes → Bytes → Bool) (n : SNode) (k : Kind) (v : Atom) :
    den re (shrink n k) v ↔ den re n v ∧ Kind.has k v = true := by
  unfold den shrink
  simp only [Kind.has_and, Bool.and_eq_true, SNode.bounds]
  constructor
  · rintro ⟨h1, ⟨h2, h3⟩, h4, h5⟩; exact ⟨⟨h1, h2, h4, h5⟩, h3⟩
  · rintro ⟨⟨h1, h2, h4, h5⟩, h3⟩; exact ⟨h1, ⟨h2, h3⟩, h4, h5⟩

/-- The common shape of the three insertion functions: `updateNodeType`, stop on failure,
otherwise continue with `g`.  `P` is "the atom satisfies the new conjunct". -/
theorem insert_shape (re : Bytes → Bytes → Bool) (n : SNode) (k : Kind) (g : SNode → SNode)
    (P : Atom → Prop) (hk : k ≠ 0) (hwf : WF n)
    (hP : ∀ v, P v → Kind.has k v = true)
    (hg : ∀ n1, WF n1 → n1.kind = n.kind &&& k →
      WF (g n1) ∧ ∀ v, (den re (g n1) v ↔ den re n1 v ∧ P v)) :
    WF (if !(updateKind n k).2 then (updateKind n k).1 else g (updateKind n k).1) ∧
    ∀ v, (den re (if !(updateKind n k).2 then (updateKind n k).1 else g (updateKind n k).1) v ↔
      den re n v ∧ P v) := by
  rcases updateKind_spec n k hk with ⟨h0, he⟩ | ⟨h0, he⟩ | ⟨h0, he⟩ <;> rw [he]
  · simp only [Bool.not_false, if_true]
    refine ⟨hwf, fun v => ?_⟩
    have : ¬ den re n v := by
      intro h; have := h.2.1; rw [h0, Kind.has_zero] at this; cases this
    exact ⟨fun h => absurd h this, fun h => absurd h.1 this⟩
  · simp only [Bool.not_false, if_true]
    refine ⟨⟨hwf.lower, hwf.upper, ?_, hwf.small, ?_, ?_⟩, fun v => ?_⟩
    · intro b _ w hw; rw [Kind.has_zero] at hw; cases hw
    · intro s _ w hw; rw [Kind.has_zero] at hw; cases hw
    · intro h; cases h
    · constructor
      · intro h; cases h.1
      · rintro ⟨h, hp⟩
        have := Kind.has_and n.kind k v
        rw [h0, Kind.has_zero, h.2.1, hP v hp] at this; cases this
  · simp only [Bool.not_true, Bool.false_eq_true, if_false]
    obtain ⟨w1, w2⟩ := hg (shrink n k) (wf_shrink n k hwf h0) rfl
    refine ⟨w1, fun v => ?_⟩
    rw [w2 v, den_shrink]
    constructor
    · rintro ⟨⟨h1, _⟩, h3⟩; exact ⟨h1, h3⟩
    · rintro ⟨h1, h3⟩; exact ⟨⟨h1, hP v h3⟩, h3⟩

/-! ### the lower/upper re-check -/

theorem recheck_spec (re : Bytes → Bytes → Bool) (n : SNode) (hwf : WF n) :
    WF (recheck re n) ∧ ∀ v, (den re (recheck re n) v ↔ den re n v) := by
  unfold recheck
  split
  · rename_i l u hl hu
    split
    · rename_i herr
      refine ⟨⟨?_, ?_, ?_, ?_, hwf.scalar, ?_⟩, fun v => ?_⟩
      · intro b hb; cases hb
      · intro b hb; cases hb
      · intro b hb
        exact hwf.sub b ((mem_bounds n b).2 (Or.inr (Or.inr (by simpa [SNode.bounds] using hb))))
      · intro b hb
        exact hwf.small b ((mem_bounds n b).2 (Or.inr (Or.inr (by simpa [SNode.bounds] using hb))))
      · intro h; cases h
      · constructor
        · intro h; cases h.1
        · intro h
          exfalso
          have hl' : l ∈ n.bounds := (mem_bounds n l).2 (Or.inl hl)
          have hu' : u ∈ n.bounds := (mem_bounds n u).2 (Or.inr (Or.inl hu))
          have hs := simplify_sound re n.kind l u v (hwf.admits h.2.1 hl') (hwf.admits h.2.1 hu') h.2.1
            (hwf.small l hl') (hwf.small u hu')
          rw [herr] at hs
          exact hs ⟨h.2.2.2 l hl', h.2.2.2 u hu'⟩
    · exact ⟨hwf, fun v => Iff.rfl⟩
  · exact ⟨hwf, fun v => Iff.rfl⟩

/-! ### storing an ordering bound -/

theorem ite_XY (c : Prop) [Decidable c] :
    (if c then Outcome.keepX else Outcome.keepY) = .keepX ∨
    (if c then Outcome.keepX else Outcome.keepY) = .keepY := by
  by_cases h : c <;> simp [h]

theorem same_XY_of_lower (re : Bytes → Bytes → Bool) (k : Kind) (x y : Bound)
    (hx : isLower x.op = true) (hy : isLower y.op = true) :
    simplifyBounds re k x y = .keepX ∨ simplifyBounds re k x y = .keepY := by
  obtain ⟨xop, a⟩ := x
  obtain ⟨yop, b⟩ := y
  cases xop <;> simp [isLower] at hx <;> cases yop <;> simp [isLower] at hy <;>
    simp [simplifyBounds, simplifySame, opInfo] <;>
    exact ite_XY _

theorem same_XY_of_upper (re : Bytes → Bytes → Bool) (k : Kind) (x y : Bound)
    (hx : isUpper x.op = true) (hy : isUpper y.op = true) :
    simplifyBounds re k x y = .keepX ∨ simplifyBounds re k x y = .keepY := by
  obtain ⟨xop, a⟩ := x
  obtain ⟨yop, b⟩ := y
  cases xop <;> simp [isUpper] at hx <;> cases yop <;> simp [isUpper] at hy <;>
    simp [simplifyBounds, simplifySame, opInfo] <;>
    exact ite_XY _

theorem slotLower_spec (re : Bytes → Bytes → Bool) (n : SNode) (x : Bound) (hwf : WF n)
    (hx : isLower x.op = true) (hsub : Kind.sub n.kind x.kind) (hs : x.small = true) :
    WF (slotLower re n x) ∧
    ∀ v, (den re (slotLower re n x) v ↔ den re n v ∧ boundHolds re x v = true) := by
  have hadx : ∀ v, Kind.has n.kind v = true → boundAdmits x v = true := by
    intro v hv; rw [← kind_has_admits]; exact hsub v hv
  -- the node with the slot replaced
  have repl : WF { n with lower := some x } ∧
      ∀ v, (den re { n with lower := some x } v ↔
        n.err = false ∧ Kind.has n.kind v = true ∧ (∀ s, n.scalar = some s → v.same s = true) ∧
        boundHolds re x v = true ∧ (∀ b, n.upper = some b → boundHolds re b v = true) ∧
        (∀ b ∈ n.checks, boundHolds re b v = true)) := by
    refine ⟨⟨?_, hwf.upper, ?_, ?_, hwf.scalar, hwf.nonbot⟩, fun v => ?_⟩
    · intro b hb; cases hb; exact hx
    · intro b hb
      rcases (mem_bounds _ b).1 hb with h | h | h
      · cases h; exact hsub
      · exact hwf.sub b ((mem_bounds n b).2 (Or.inr (Or.inl h)))
      · exact hwf.sub b ((mem_bounds n b).2 (Or.inr (Or.inr h)))
    · intro b hb
      rcases (mem_bounds _ b).1 hb with h | h | h
      · cases h; exact hs
      · exact hwf.small b ((mem_bounds n b).2 (Or.inr (Or.inl h)))
      · exact hwf.small b ((mem_bounds n b).2 (Or.inr (Or.inr h)))
    · unfold den
      constructor
      · rintro ⟨h1, h2, h3, h4⟩
        refine ⟨h1, h2, h3, h4 x ((mem_bounds _ x).2 (Or.inl rfl)), ?_, ?_⟩
        · intro b hb; exact h4 b ((mem_bounds _ b).2 (Or.inr (Or.inl hb)))
        · intro b hb; exact h4 b ((mem_bounds _ b).2 (Or.inr (Or.inr hb)))
      · rintro ⟨h1, h2, h3, h4, h5, h6⟩
        refine ⟨h1, h2, h3, ?_⟩
        intro b hb
        rcases (mem_bounds _ b).1 hb with h | h | h
        · cases h; exact h4
        · exact h5 b h
        · exact h6 b h
  have denN : ∀ v, den re n v ↔ n.err = false ∧ Kind.has n.kind v = true ∧
      (∀ s, n.scalar = some s → v.same s = true) ∧
      (∀ b, n.lower = some b → boundHolds re b v = true) ∧
      (∀ b, n.upper = some b → boundHolds re b v = true) ∧
      (∀ b ∈ n.checks, boundHolds re b v = true) := by
    intro v; unfold den
    constructor
    · rintro ⟨h1, h2, h3, h4⟩
      exact ⟨h1, h2, h3, fun b hb => h4 b ((mem_bounds n b).2 (Or.inl hb)),
        fun b hb => h4 b ((mem_bounds n b).2 (Or.inr (Or.inl hb))),
        fun b hb => h4 b ((mem_bounds n b).2 (Or.inr (Or.inr hb)))⟩
    · rintro ⟨h1, h2, h3, h4, h5, h6⟩
      refine ⟨h1, h2, h3, fun b hb => ?_⟩
      rcases (mem_bounds n b).1 hb with h | h | h
      · exact h4 b h
      · exact h5 b h
      · exact h6 b h
  unfold slotLower
  split
  · rename_i y hy
    have hyb : y ∈ n.bounds := (mem_bounds n y).2 (Or.inl hy)
    have hsound := fun v (hv : Kind.has n.kind v = true) =>
      simplify_sound re n.kind x y v (hadx v hv) (hwf.admits hv hyb) hv hs (hwf.small y hyb)
    split
    · rename_i hk
      have hk' : simplifyBounds re n.kind x y = .keepY := by simpa using hk
      refine ⟨hwf, fun v => ⟨fun h => ⟨h, ?_⟩, fun h => h.1⟩⟩
      have := hsound v h.2.1
      rw [hk'] at this
      exact this (h.2.2.2 y hyb)
    · rename_i hk
      have hk' : simplifyBounds re n.kind x y = .keepX := by
        rcases same_XY_of_lower re n.kind x y hx (hwf.lower y hy) with h | h
        · exact h
        · rw [h] at hk; simp at hk
      refine ⟨repl.1, fun v => ?_⟩
      rw [repl.2 v, denN v]
      constructor
      · rintro ⟨h1, h2, h3, h4, h5, h6⟩
        refine ⟨⟨h1, h2, h3, ?_, h5, h6⟩, h4⟩
        intro b hb; rw [hy] at hb; cases hb
        have := hsound v h2
        rw [hk'] at this
        exact this h4
      · rintro ⟨⟨h1, h2, h3, _, h5, h6⟩, h4⟩
        exact ⟨h1, h2, h3, h4, h5, h6⟩
  · rename_i hnone
    refine ⟨repl.1, fun v => ?_⟩
    rw [repl.2 v, denN v]
    constructor
    · rintro ⟨h1, h2, h3, h4, h5, h6⟩
      exact ⟨⟨h1, h2, h3, (fun b hb => by rw [hnone] at hb; cases hb), h5, h6⟩, h4⟩
    · rintro ⟨⟨h1, h2, h3, _, h5, h6⟩, h4⟩
      exact ⟨h1, h2, h3, h4, h5, h6⟩

end CueVerif.Scalar
