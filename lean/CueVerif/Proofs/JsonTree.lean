/-
C10 helper lemmas: the reference parser of Spec/JsonDoc.lean is the token-keeping parser of
Spec/JsonTree.lean followed by the denotation (`pValue = den ∘ sValue`).  Core Lean only.
-/
import CueVerif.Spec.JsonTree
namespace CueVerif.Json
open CueVerif.Quote (Bytes)

theorem consFst_map {α β γ : Type} (g : α → β) (gl : List α → List β) (hgl : ∀ a as, gl (a :: as) = g a :: gl as)
    (a : α) (o : Option (List α × γ)) :
    consFst (g a) (o.map fun p => (gl p.1, p.2)) = (consFst a o).map fun p => (gl p.1, p.2) := by
  cases o with
  | none => rfl
  | some p => obtain ⟨as, r⟩ := p; simp [consFst, hgl]

mutual
theorem pValue_eq : ∀ (f : Nat) (s : Bytes), pValue f s = (sValue f s).map fun p => (p.1.den, p.2)
  | 0, s => by simp [pValue, sValue]
  | f + 1, s => by
    cases s with
    | nil => simp [pValue, sValue]
    | cons c r =>
      simp only [pValue, sValue]
      split
      · split <;> simp [JTree.den]
      · split
        · split <;> simp [JTree.den]
        · split
          · split <;> simp [JTree.den]
          · split
            · simp only [pString, Option.map_map]; rfl
            · split
              · cases hs : skipWs r with
                | nil => rfl
                | cons c1 r1 =>
                  simp only
                  split
                  · simp [JTree.den, JTree.denList]
                  · rw [pElems_eq f]; simp only [Option.map_map]; rfl
              · split
                · cases hs : skipWs r with
                  | nil => rfl
                  | cons c1 r1 =>
                    simp only
                    split
                    · simp [JTree.den, JTree.denMembers]
                    · rw [pMembers_eq f]; simp only [Option.map_map]; rfl
                · simp only [Option.map_map]; rfl
theorem pElems_eq : ∀ (f : Nat) (s : Bytes), pElems f s = (sElems f s).map fun p => (JTree.denList p.1, p.2)
  | 0, s => by simp [pElems, sElems]
  | f + 1, s => by
    simp only [pElems, sElems]
    rw [pValue_eq f s]
    cases hv : sValue f s with
    | none => rfl
    | some p =>
      obtain ⟨v, r⟩ := p
      simp only [Option.map_some]
      cases hs : skipWs r with
      | nil => rfl
      | cons c r' =>
        simp only
        split
        · rw [pElems_eq f]
          exact consFst_map JTree.den JTree.denList (fun a as => by simp [JTree.denList]) v _
        · split <;> simp [JTree.denList]
theorem pMembers_eq : ∀ (f : Nat) (s : Bytes),
    pMembers f s = (sMembers f s).map fun p => (JTree.denMembers p.1, p.2)
  | 0, s => by simp [pMembers, sMembers]
  | f + 1, s => by
    cases s with
    | nil => simp [pMembers, sMembers]
    | cons q r =>
      simp only [pMembers, sMembers]
      split
      · rfl
      · simp only [pString]
        cases hk : pStrBody (r.length + 1) r with
        | none => rfl
        | some kp =>
          obtain ⟨k, r1⟩ := kp
          simp only [Option.map_some]
          cases hs : skipWs r1 with
          | nil => rfl
          | cons c r2 =>
            simp only
            split
            · rfl
            · rw [pValue_eq f]
              cases hv : sValue f (skipWs r2) with
              | none => rfl
              | some p =>
                obtain ⟨v, r3⟩ := p
                simp only [Option.map_some]
                cases hs3 : skipWs r3 with
                | nil => rfl
                | cons c' r4 =>
                  simp only
                  split
                  · rw [pMembers_eq f]
                    exact consFst_map (fun (kv : List JItem × JTree) => (denote kv.1, kv.2.den))
                      JTree.denMembers (fun a as => by obtain ⟨k', v'⟩ := a; simp [JTree.denMembers]) (k, v) _
                  · split <;> simp [JTree.denMembers]
end

/-- the reference parser is the parse tree followed by the denotation -/
theorem parseJSON_eq (s : Bytes) : parseJSON s = (parseTree s).map JTree.den := by
  simp only [parseJSON, parseTree, pValue_eq]
  cases sValue (s.length + 1) (skipWs s) with
  | none => rfl
  | some p =>
    obtain ⟨t, r⟩ := p
    simp only [Option.map_some]
    split <;> rfl

end CueVerif.Json
