/-
C06 helper lemmas, part D (auxiliary): digit-count bounds, the rational value of a `Dec` under
rescaling / normalisation, and the arithmetic core of `quoRound`.  Core Lean only.
-/
import CueVerif.Model.DecArith
import CueVerif.Spec.Arith
import CueVerif.Proofs.Dec
namespace CueVerif.Proofs.ArithQuo
open CueVerif CueVerif.Arith CueVerif.Spec.Arith


theorem numDigitsAux_pos (fuel n : Nat) : 1 ≤ Dec.numDigitsAux fuel n := by
  cases fuel with
  | zero => simp [Dec.numDigitsAux]
  | succ f => simp only [Dec.numDigitsAux]; split <;> omega

theorem numDigitsAux_bounds (fuel : Nat) : ∀ n, n ≤ fuel →
    n < 10 ^ Dec.numDigitsAux fuel n ∧ (0 < n → 10 ^ (Dec.numDigitsAux fuel n - 1) ≤ n) := by
  induction fuel with
  | zero => intro n h; simp [Dec.numDigitsAux]; omega
  | succ f ih =>
    intro n h
    simp only [Dec.numDigitsAux]
    split
    · simp; omega
    · have h1 : n / 10 ≤ f := by omega
      obtain ⟨ih1, ih2⟩ := ih (n / 10) h1
      have hp := numDigitsAux_pos f (n / 10)
      have e1 : 10 ^ (1 + Dec.numDigitsAux f (n / 10)) = 10 * 10 ^ Dec.numDigitsAux f (n / 10) := by
        rw [Nat.add_comm, Nat.pow_succ, Nat.mul_comm]
      have e2 : 10 ^ (Dec.numDigitsAux f (n / 10)) = 10 * 10 ^ (Dec.numDigitsAux f (n / 10) - 1) := by
        have : Dec.numDigitsAux f (n / 10) = (Dec.numDigitsAux f (n / 10) - 1) + 1 := by omega
        rw [this, Nat.pow_succ, Nat.mul_comm]; simp
      have e3 : 1 + Dec.numDigitsAux f (n / 10) - 1 = Dec.numDigitsAux f (n / 10) := by omega
      rw [e3, e1]
      refine ⟨by omega, fun _ => ?_⟩
      have := ih2 (by omega)
      omega

theorem numDigits_pos (n : Nat) : 1 ≤ Dec.numDigits n := numDigitsAux_pos n n
theorem lt_pow_numDigits (n : Nat) : n < 10 ^ Dec.numDigits n := (numDigitsAux_bounds n n (Nat.le_refl n)).1
theorem pow_numDigits_le (n : Nat) (h : 0 < n) : 10 ^ (Dec.numDigits n - 1) ≤ n :=
  (numDigitsAux_bounds n n (Nat.le_refl n)).2 h


theorem ten_ne : (10 : Rat) ≠ 0 := by decide
theorem ten_pos : (0 : Rat) < 10 := by decide

theorem round_lo (V w D q0 R : Rat) (hw : 0 < w) (hD : 0 < D)
    (h : V * D = (q0 * D + R) * w) (hR : 0 ≤ R) (hlt : ¬ D ≤ 2 * R) :
    2 * (V - q0 * w) ≤ w ∧ 2 * (q0 * w - V) ≤ w := by
  have a : (2 * R) * w ≤ D * w :=
    Rat.mul_le_mul_of_nonneg_right (Rat.le_of_lt (Rat.not_le.1 hlt)) (Rat.le_of_lt hw)
  have b : 0 ≤ R * w := Rat.mul_nonneg hR (Rat.le_of_lt hw)
  have c : 0 < w * D := Rat.mul_pos hw hD
  constructor
  · apply Rat.le_of_mul_le_mul_right (c := D) _ hD
    grind
  · apply Rat.le_of_mul_le_mul_right (c := D) _ hD
    grind

theorem round_hi (V w D q0 R : Rat) (hw : 0 < w) (hD : 0 < D)
    (h : V * D = (q0 * D + R) * w) (hR : R < D) (hge : D ≤ 2 * R) :
    2 * (V - (q0 + 1) * w) ≤ w ∧ 2 * ((q0 + 1) * w - V) ≤ w := by
  have a : D * w ≤ (2 * R) * w :=
    Rat.mul_le_mul_of_nonneg_right hge (Rat.le_of_lt hw)
  have b : R * w ≤ D * w := Rat.mul_le_mul_of_nonneg_right (Rat.le_of_lt hR) (Rat.le_of_lt hw)
  have c : 0 < w * D := Rat.mul_pos hw hD
  constructor
  · apply Rat.le_of_mul_le_mul_right (c := D) _ hD
    grind
  · apply Rat.le_of_mul_le_mul_right (c := D) _ hD
    grind

theorem exact_iff (V w D q0 R q1 : Rat) (hw : 0 < w) (hD : 0 < D)
    (h : V * D = (q0 * D + R) * w) (hR0 : 0 ≤ R) (hR : R < D)
    (hq : (D ≤ 2 * R ∧ q1 = q0 + 1) ∨ (¬ D ≤ 2 * R ∧ q1 = q0)) :
    q1 * w = V ↔ R = 0 := by
  have hw' : w ≠ 0 := Rat.ne_of_gt hw
  have hD' : D ≠ 0 := Rat.ne_of_gt hD
  constructor
  · intro e
    subst e
    have h2 : (q1 * D) * w = (q0 * D + R) * w := by grind
    have h3 : q1 * D = q0 * D + R := by
      have := congrArg (· * w⁻¹) h2
      simp only [Rat.mul_assoc, Rat.mul_inv_cancel _ hw'] at this
      grind
    rcases hq with ⟨h4, rfl⟩ | ⟨h4, rfl⟩ <;> grind
  · intro e
    subst e
    have h4 : ¬ D ≤ 2 * 0 := by grind
    rcases hq with ⟨h5, _⟩ | ⟨_, rfl⟩
    · exact absurd h5 h4
    · have h2 : (q1 * w) * D = V * D := by grind
      have := congrArg (· * D⁻¹) h2
      simp only [Rat.mul_assoc, Rat.mul_inv_cancel _ hD'] at this
      grind



theorem zpow_sub' (m n : Int) : (10 : Rat) ^ (m - n) = 10 ^ m * (10 ^ n)⁻¹ := by
  rw [Int.sub_eq_add_neg, Rat.zpow_add ten_ne, Rat.zpow_neg]

theorem scale_id (na nb : Rat) (hnb : nb ≠ 0) (ea eb : Int) (s k : Nat) :
    (na * 10 ^ ea) / (nb * 10 ^ eb) * (nb * 10 ^ k) =
      (na * 10 ^ s) * (10 : Rat) ^ (ea - eb - (s : Int) + (k : Int)) := by
  rw [Rat.zpow_add ten_ne, zpow_sub', zpow_sub', Rat.zpow_natCast, Rat.zpow_natCast]
  have h1 : (10 : Rat) ^ eb ≠ 0 := Rat.ne_of_gt (Rat.zpow_pos ten_pos)
  have h2 : (10 : Rat) ^ s ≠ 0 := Rat.ne_of_gt (Rat.pow_pos ten_pos)
  grind

def sg (z : Int) : Rat := if z < 0 then -1 else 1

theorem sg_cases (z : Int) : sg z = 1 ∨ sg z = -1 := by
  unfold sg; split <;> simp

theorem cast_eq_sg (z : Int) : (z : Rat) = sg z * ((z.natAbs : Nat) : Rat) := by
  unfold sg
  split
  · have : z = -((z.natAbs : Nat) : Int) := by omega
    conv => lhs; rw [this]
    rw [Rat.intCast_neg, Rat.intCast_natCast]; grind
  · have : z = ((z.natAbs : Nat) : Int) := by omega
    conv => lhs; rw [this]
    rw [Rat.intCast_natCast]; grind

theorem sgnMul_cast (x y : Int) (m : Nat) :
    ((sgnMul (decide (x < 0) != decide (y < 0)) m : Int) : Rat) = sg x * sg y * (m : Rat) := by
  unfold sgnMul sg
  by_cases hx : x < 0 <;> by_cases hy : y < 0 <;> simp [hx, hy, Rat.intCast_neg, Rat.intCast_natCast] <;> grind

theorem sgnMul_natAbs (b : Bool) (m : Nat) : (sgnMul b m).natAbs = m := by
  unfold sgnMul; split <;> omega

theorem toRat_mul_pow (c : Int) (k : Nat) (e : Int) : toRat ⟨c * 10 ^ k, e⟩ = toRat ⟨c, e + k⟩ := by
  unfold toRat
  simp only [Rat.intCast_mul, Rat.intCast_pow]
  rw [Rat.zpow_add ten_ne, Rat.zpow_natCast]
  have : ((10 : Int) : Rat) = 10 := by norm_cast
  rw [this]; grind

theorem toRat_strip (e : Int) (fuel : Nat) : ∀ (c : Int) (k : Nat),
    toRat ⟨(Dec.stripZerosAux fuel c k).1, e + ((Dec.stripZerosAux fuel c k).2 : Nat)⟩ = toRat ⟨c, e + k⟩ := by
  induction fuel with
  | zero => intro c k; simp [Dec.stripZerosAux]
  | succ f ih =>
    intro c k
    simp only [Dec.stripZerosAux]
    split
    · rename_i h
      rw [ih]
      have h10 : c % 10 = 0 := by simpa using (by simpa using h : _ ∧ _).2
      have hc : c = c / 10 * 10 ^ 1 := by omega
      conv => rhs; rw [hc, toRat_mul_pow]
      congr 1
      simp; omega
    · rfl

theorem toRat_normalize (d : Dec) : toRat (Dec.normalize d) = toRat d := by
  unfold Dec.normalize
  split
  · rename_i h
    have : d.coeff = 0 := by simpa using h
    simp [toRat, this]
  · have := toRat_strip d.exp d.coeff.natAbs d.coeff 0
    simpa using this

theorem toRat_reduceKeepingFloats (d : Dec) : toRat (reduceKeepingFloats d) = toRat d := by
  unfold reduceKeepingFloats
  simp only
  split
  · have := toRat_mul_pow (Dec.normalize d).coeff 1 ((Dec.normalize d).exp - 1)
    simp only [Int.pow_one] at this
    rw [this]
    have e : (Dec.normalize d).exp - 1 + ((1 : Nat) : Int) = (Dec.normalize d).exp := by omega
    rw [e]
    exact toRat_normalize d
  · exact toRat_normalize d



/-- the integer quotient of the scaled magnitudes has more than `p` digits -/
theorem quo_nat (p na nb : Nat) (hp : 0 < p) (ha : 0 < na) (hb : 0 < nb) :
    let q := na * 10 ^ (p + Dec.numDigits nb) / nb
    let k := Dec.numDigits q - p
    10 ^ (p - 1) ≤ q / 10 ^ k ∧ q / 10 ^ k < 10 ^ p := by
  intro q k
  have hq : 10 ^ p ≤ q := by
    apply (Nat.le_div_iff_mul_le hb).2
    rw [Nat.pow_add, ← Nat.mul_assoc]
    have h1 : nb ≤ 10 ^ Dec.numDigits nb := Nat.le_of_lt (lt_pow_numDigits nb)
    calc 10 ^ p * nb ≤ 10 ^ p * 10 ^ Dec.numDigits nb := Nat.mul_le_mul_left _ h1
      _ ≤ na * 10 ^ p * 10 ^ Dec.numDigits nb := by
        apply Nat.mul_le_mul_right
        exact Nat.le_mul_of_pos_left _ ha
  have hq0 : 0 < q := Nat.lt_of_lt_of_le (Nat.pow_pos (by decide)) hq
  have hlt := lt_pow_numDigits q
  have hge := pow_numDigits_le q hq0
  have hnd : p < Dec.numDigits q := by
    apply Nat.lt_of_not_le
    intro h
    have := Nat.pow_le_pow_right (n := 10) (by decide) h
    omega
  have hk : Dec.numDigits q = p + k := by omega
  have hk' : Dec.numDigits q - 1 = (p - 1) + k := by omega
  have h10k : 0 < 10 ^ k := Nat.pow_pos (by decide)
  constructor
  · apply (Nat.le_div_iff_mul_le h10k).2
    rw [← Nat.pow_add, ← hk']; exact hge
  · apply (Nat.div_lt_iff_lt_mul h10k).2
    rw [← Nat.pow_add, ← hk]; exact hlt


theorem rat_mul_right_cancel {x y c : Rat} (hc : c ≠ 0) (h : x * c = y * c) : x = y := by
  have := congrArg (· * c⁻¹) h
  simp only [Rat.mul_assoc, Rat.mul_inv_cancel _ hc] at this
  grind

theorem cast10 : ((10 : Nat) : Rat) = 10 := by norm_cast

theorem fits_exact (p q0 R D c : Nat) (V : Rat) (E er : Int) (hp : 0 < p)
    (hV : V = (c : Rat) * (10 : Rat) ^ E)
    (h : V * (D : Rat) = ((q0 : Rat) * D + R) * (10 : Rat) ^ er)
    (hR : R < D) (hq0 : 10 ^ (p - 1) ≤ q0) (hc : c < 10 ^ p) : R = 0 := by
  subst hV
  by_cases hE : er ≤ E
  · obtain ⟨m, hm⟩ : ∃ m : Nat, E = er + (m : Int) := ⟨(E - er).toNat, by omega⟩
    rw [hm, Rat.zpow_add ten_ne, Rat.zpow_natCast] at h
    have h2 : ((c * 10 ^ m * D : Nat) : Rat) = ((q0 * D + R : Nat) : Rat) := by
      simp only [Rat.natCast_mul, Rat.natCast_pow, Rat.natCast_add, cast10]
      apply rat_mul_right_cancel (Rat.ne_of_gt (Rat.zpow_pos ten_pos (n := er)))
      rw [← h]; grind
    have h3 : c * 10 ^ m * D = q0 * D + R := Rat.natCast_inj.1 h2
    have h4 := congrArg (· % D) h3
    simp only [Nat.mul_mod_left, Nat.mul_add_mod_self_right, Nat.mul_mod_left] at h4
    rw [Nat.mod_eq_of_lt hR] at h4
    exact h4.symm
  · exfalso
    obtain ⟨m, hm⟩ : ∃ m : Nat, er = E + ((m + 1 : Nat) : Int) := ⟨(er - E).toNat - 1, by omega⟩
    rw [hm, Rat.zpow_add ten_ne, Rat.zpow_natCast] at h
    have h2 : ((c * D : Nat) : Rat) = (((q0 * D + R) * 10 ^ (m + 1) : Nat) : Rat) := by
      simp only [Rat.natCast_mul, Rat.natCast_pow, Rat.natCast_add, cast10]
      apply rat_mul_right_cancel (Rat.ne_of_gt (Rat.zpow_pos ten_pos (n := E)))
      grind
    have h3 : c * D = (q0 * D + R) * 10 ^ (m + 1) := Rat.natCast_inj.1 h2
    have hD : 0 < D := by omega
    have h4 : 10 ^ p * D ≤ (q0 * D + R) * 10 ^ (m + 1) := by
      have e : 10 ^ p = 10 ^ (p - 1) * 10 := by
        rw [← Nat.pow_succ]; congr 1; omega
      have e2 : 10 ≤ 10 ^ (m + 1) := by
        rw [Nat.pow_succ]; exact Nat.le_mul_of_pos_left _ (Nat.pow_pos (by decide))
      calc 10 ^ p * D = (10 ^ (p - 1) * D) * 10 := by rw [e, Nat.mul_right_comm]
        _ ≤ (q0 * D + R) * 10 ^ (m + 1) := by
          apply Nat.mul_le_mul _ e2
          exact Nat.le_trans (Nat.mul_le_mul_right _ hq0) (Nat.le_add_right _ _)
    have h5 : c * D < 10 ^ p * D := Nat.mul_lt_mul_of_pos_right hc hD
    omega





theorem sg_mul_cases (x y : Int) : sg x * sg y = 1 ∨ sg x * sg y = -1 := by
  rcases sg_cases x with h | h <;> rcases sg_cases y with h' | h' <;> rw [h, h'] <;> grind

theorem div_sg (x y A B : Rat) (sx sy : Rat) (hy : sy = 1 ∨ sy = -1) (hB : y * B ≠ 0) :
    (sx * x * A) / (sy * y * B) = sx * sy * ((x * A) / (y * B)) := by
  rcases hy with rfl | rfl
  · grind
  · grind

theorem quoRound_core (p : Nat) (hp : 0 < p) (a b : Dec) (ha : a.coeff ≠ 0) (hb : b.coeff ≠ 0) :
    ∃ (σ V : Rat) (q0 q1 R D : Nat),
      (σ = 1 ∨ σ = -1) ∧ toRat a / toRat b = σ * V ∧
      toRat (quoRound p a b).1 = σ * ((q1 : Rat) * (10 : Rat) ^ (quoRound p a b).1.exp) ∧
      (quoRound p a b).1.coeff.natAbs = q1 ∧
      ((D ≤ 2 * R ∧ q1 = q0 + 1) ∨ (¬ D ≤ 2 * R ∧ q1 = q0)) ∧
      ((quoRound p a b).2 = false ↔ R = 0) ∧ R < D ∧ 10 ^ (p - 1) ≤ q0 ∧ q0 < 10 ^ p ∧
      V * (D : Rat) = ((q0 : Rat) * D + R) * (10 : Rat) ^ (quoRound p a b).1.exp := by
  have hna : 0 < a.coeff.natAbs := by omega
  have hnb : 0 < b.coeff.natAbs := by omega
  generalize hnaE : a.coeff.natAbs = na at hna
  generalize hnbE : b.coeff.natAbs = nb at hnb
  obtain ⟨hq0lo, hq0hi⟩ := quo_nat p na nb hp hna hnb
  generalize hs : p + Dec.numDigits nb = s at hq0lo hq0hi
  generalize hq : na * 10 ^ s / nb = q at hq0lo hq0hi
  generalize hk : Dec.numDigits q - p = k at hq0lo hq0hi
  have hrem : na * 10 ^ s % nb < nb := Nat.mod_lt _ hnb
  generalize hremE : na * 10 ^ s % nb = rem at hrem
  have hr1 : q % 10 ^ k < 10 ^ k := Nat.mod_lt _ (Nat.pow_pos (by decide))
  generalize hr1E : q % 10 ^ k = r1 at hr1
  generalize hq0E : q / 10 ^ k = q0 at hq0lo hq0hi
  have hN : na * 10 ^ s = q * nb + rem := by
    rw [← hq, ← hremE, Nat.mul_comm _ nb]; exact (Nat.div_add_mod _ _).symm
  have hQ : q = q0 * 10 ^ k + r1 := by
    rw [← hq0E, ← hr1E, Nat.mul_comm _ (10 ^ k)]; exact (Nat.div_add_mod _ _).symm
  have hND : na * 10 ^ s = q0 * (10 ^ k * nb) + (r1 * nb + rem) := by
    rw [hN, hQ, Nat.add_mul, Nat.mul_assoc, Nat.add_assoc]
  have hRD : r1 * nb + rem < 10 ^ k * nb := by
    have : (r1 + 1) * nb ≤ 10 ^ k * nb := Nat.mul_le_mul_right _ hr1
    rw [Nat.add_mul] at this; omega
  -- the result
  have hres : quoRound p a b =
      (⟨sgnMul (decide (a.coeff < 0) != decide (b.coeff < 0))
          (if 10 ^ k * nb ≤ 2 * (r1 * nb + rem) then q0 + 1 else q0),
        a.exp - b.exp - (s : Int) + (k : Int)⟩, r1 != 0 || rem != 0) := by
    unfold quoRound
    simp only [hnaE, hnbE, hs, hq, hk, hremE, hr1E, hq0E, decide_eq_true_eq]
  rw [hres]
  refine ⟨sg a.coeff * sg b.coeff, ((na : Rat) * 10 ^ a.exp) / ((nb : Rat) * 10 ^ b.exp), q0,
    (if 10 ^ k * nb ≤ 2 * (r1 * nb + rem) then q0 + 1 else q0), r1 * nb + rem, 10 ^ k * nb,
    sg_mul_cases _ _, ?_, ?_, sgnMul_natAbs _ _, ?_, ?_, hRD, hq0lo, hq0hi, ?_⟩
  · unfold toRat
    rw [cast_eq_sg a.coeff, cast_eq_sg b.coeff, hnaE, hnbE]
    apply div_sg _ _ _ _ _ _ (sg_cases _)
    apply Rat.ne_of_gt
    exact Rat.mul_pos (Rat.natCast_pos.2 hnb) (Rat.zpow_pos ten_pos)
  · simp only [toRat]
    rw [sgnMul_cast]; grind
  · by_cases h : 10 ^ k * nb ≤ 2 * (r1 * nb + rem) <;> simp [h]
  · simp only [Bool.or_eq_false_iff, bne_eq_false_iff_eq]
    constructor
    · rintro ⟨rfl, rfl⟩; simp
    · intro h
      have : r1 * nb = 0 ∧ rem = 0 := by omega
      refine ⟨?_, this.2⟩
      rcases Nat.mul_eq_zero.1 this.1 with h | h <;> omega
  · simp only
    have hc : ((10 ^ k * nb : Nat) : Rat) = (nb : Rat) * 10 ^ k := by
      rw [Rat.natCast_mul, Rat.natCast_pow, Rat.mul_comm]; norm_cast
    rw [hc, scale_id _ _ (Rat.ne_of_gt (Rat.natCast_pos.2 hnb)) _ _ s k]
    congr 1
    have := congrArg (fun n : Nat => (n : Rat)) hND
    simp only [Rat.natCast_mul, Rat.natCast_pow, Rat.natCast_add] at this
    rw [← hc]
    simp only [Rat.natCast_mul, Rat.natCast_pow, Rat.natCast_add]
    have e10 : ((10 : Nat) : Rat) = 10 := by norm_cast
    rw [e10] at this ⊢
    exact this

end CueVerif.Proofs.ArithQuo
