/-
Concrete witnesses for C04 on a genuine meet-semilattice: the flat lattice
top > 1, 2, 3 (pairwise incompatible) on `Fin 4` (0 = top).  Everything here is closed by
`decide` (kernel evaluation of the executable model and spec), so the file also documents
that both are computable.
-/
import CueVerif.Spec.Disj
namespace CueVerif.Disj.Witness
open CueVerif.Disj

/-- flat lattice: `0` is top, `1 2 3` are atoms -/
def flat4 : Sl (Fin 4) :=
  { meet := fun a b => if a = b then some a else if a = 0 then some b else if b = 0 then some a else none,
    top := 0 }

theorem flat4_laws : Laws flat4 where
  comm := by decide
  assoc := by decide
  idem := by decide
  top := by decide

def a (n : Fin 4) : Expr (Fin 4) := .atom n
/-- `*1 | 2 | 3` -/
def A : Expr (Fin 4) := .or (.or (.mark (a 1)) (a 2)) (a 3)
/-- `1 | *2 | 3` -/
def B : Expr (Fin 4) := .or (.or (a 1) (.mark (a 2))) (a 3)
/-- `2 | 3` -/
def C : Expr (Fin 4) := .or (a 2) (a 3)
/-- `(*1|2|3) | (1|*2|3)&2`, the row of the spec's table the implementation deviates on -/
def w1304 : Expr (Fin 4) := .or (.paren A) (.and (.paren B) (a 2))
/-- `(*3|3) | 1`: a nested marked disjunction collapsing to one survivor loses its default -/
def wCollapse : Expr (Fin 4) := .or (.paren (.or (.mark (a 3)) (a 3))) (a 1)

theorem w1304_ok : w1304.WF = true ∧ w1304.NoNestedMarks = true := by decide
theorem w1304_model : (eval flat4 w1304).resolve = .value 1 := by decide
theorem w1304_spec : specPair flat4 w1304 = { v := [1, 2, 3], d := [1, 2] } := by decide
theorem w1304_spec_resolve : (specPair flat4 w1304).resolve = .ambiguous := by decide

theorem wCollapse_ok : wCollapse.WF = true ∧ wCollapse.NoNestedMarks = true := by decide
theorem wCollapse_model : (eval flat4 wCollapse).resolve = .ambiguous := by decide
theorem wCollapse_spec : (specPair flat4 wCollapse).resolve = .value 3 := by decide

/-- two marked disjunctions at one node: the transcribed algorithm depends on the order of
the conjuncts, the spec does not -/
theorem order_model_ABC : (eval flat4 (.and A (.and B C))).resolve = .ambiguous := by decide
theorem order_model_CAB : (eval flat4 (.and (.and C A) B)).resolve = .value 2 := by decide
theorem order_spec_ABC : (specPair flat4 (.and A (.and B C))).resolve = .value 2 := by decide
theorem order_spec_CAB : (specPair flat4 (.and (.and C A) B)).resolve = .value 2 := by decide
theorem order_flat : (Expr.and A (.and B C)).flatConj = true ∧ (Expr.and A (.and B C)).markedChains = 2 := by
  decide

/-! ### The spec's own tables (doc/ref/spec.md §"Default values"), row by row.

These are TESTS of the specification model (samples, not the property): every row of the
"Value-default pair" table and every row of the "Resolves to" table except
`(*1|2) + (2|*3)` (arithmetic is outside the fragment).  Values are subsets of a small
universe as bit masks (`bits`); a disjunction value is listed disjunct by disjunct, so the
spec's `string` for `string | "foo"` appears as `[string, "foo"]`. -/
namespace Table
def n (k : Nat) : Expr Nat := .atom k
def m (e : Expr Nat) : Expr Nat := .mark e
def or3 (x y z : Expr Nat) : Expr Nat := .or (.or x y) z
def P (e : Expr Nat) : Expr Nat := .paren e
-- "tcp" = 1, "udp" = 2, "foo" = 4, string = 7
example : specPair bits (.or (m (n 1)) (n 2)) = ⟨[1, 2], [1]⟩ := by decide          -- *"tcp" | "udp"
example : specPair bits (.or (n 7) (m (n 4))) = ⟨[7, 4], [4]⟩ := by decide          -- string | *"foo"
-- 1, 2, 3 = 1, 2, 4
def d1 : Expr Nat := or3 (m (n 1)) (n 2) (n 4)   -- *1|2|3
def d2 : Expr Nat := or3 (n 1) (m (n 2)) (n 4)   -- 1|*2|3
example : specPair bits d1 = ⟨[1, 2, 4], [1]⟩ := by decide
example : specPair bits (.or (P d1) (P d2)) = ⟨[1, 2, 4], [1, 2]⟩ := by decide      -- (*1|2|3) | (1|*2|3)
example : specPair bits (.or (P d1) (m (P d2))) = ⟨[1, 2, 4], [2]⟩ := by decide     -- (*1|2|3) | *(1|*2|3)   (M2, M3)
example : specPair bits (.or (P d1) (.and (P d2) (n 2))) = ⟨[1, 2, 4], [1, 2]⟩ := by decide  -- (*1|2|3) | (1|*2|3)&2
example : specPair bits (.and (P (.or (m (n 1)) (n 2))) (P (.or (n 1) (m (n 2))))) = ⟨[1, 2], []⟩ := by
  decide                                                                           -- (*1|2) & (1|*2): default _|_
-- "Resolves to"
example : (specPair bits (.or (n 1) (n 2))).resolve = .ambiguous := by decide       -- "tcp" | "udp"
example : (specPair bits (.or (m (n 1)) (n 2))).resolve = .value 1 := by decide     -- *"tcp" | "udp"
example : (specPair bits (.or (n 8) (m (n 1)))).resolve = .value 1 := by decide     -- float | *1     (float = 8, 1 = 1)
example : (specPair bits (.or (m (n 7)) (n 8))).resolve = .value 7 := by decide     -- *string | 1.0  (string = 7, 1.0 = 8)
example : (specPair bits (.or (P d1) (P d2))).defaultSet = [1, 2] := by decide      -- (*1|2|3) | (1|*2|3)  →  1|2
example : (specPair bits (.and (P d1) (P d2))).defaultSet = [1, 2, 4] := by decide  -- (*1|2|3) & (1|*2|3)  →  1|2|3
-- points 4, 5, 6 = 1, 2, 4:  >=5 = 6, <=5 = 3, int = 7, 5 = 2
example : (specPair bits (.and (P (.or (m (n 6)) (n 7))) (P (.or (m (n 3)) (n 7))))).resolve = .value 2 := by
  decide                                                                           -- (* >=5 | int) & (* <=5 | int)  →  5
def tu : Expr Nat := .or (m (n 1)) (n 2)   -- *"tcp" | "udp"
example : (specPair bits (.and (P tu) (P (.or (n 2) (m (n 1)))))).resolve = .value 1 := by decide
example : (specPair bits (.and (P tu) (P (.or (n 2) (n 1))))).resolve = .value 1 := by decide
example : (specPair bits (.and (P tu) (n 1))).resolve = .value 1 := by decide
example : specPair bits (.and (P tu) (P (.or (m (n 2)) (n 1)))) = ⟨[1, 2], []⟩ := by decide   -- default _|_
-- true = 1, false = 2, bool = 3
example : (specPair bits (.and (P tu) (n 3))).resolve = .value 1 := by decide       -- (*true | false) & bool
example : (specPair bits (.and (P tu) (P (.or (n 1) (n 2))))).resolve = .value 1 := by decide
-- probes {a:1}, {b:1}, {a:1,b:1} = bits 1, 2, 4:  {a:1} = 5, {b:1} = 6, {a:1,b:1} = 4
example : (specPair bits (.or (n 5) (n 6))).defaultSet = [5, 6] := by decide        -- {a:1} | {b:1}
example : (specPair bits (.or (n 5) (m (n 6)))).resolve = .value 6 := by decide     -- {a:1} | *{b:1}
example : (specPair bits (.or (m (n 5)) (m (n 6)))).defaultSet = [5, 6] := by decide
example : specPair bits (.and (P (.or (n 5) (n 6))) (n 5)) = ⟨[5, 4], []⟩ := by decide   -- {a:1} | {a:1,b:1}
example : (specPair bits (.and (P (.or (n 5) (m (n 6)))) (P (.or (n 5) (m (n 6)))))).resolve = .value 6 := by
  decide
end Table

end CueVerif.Disj.Witness
