/-
C05 — algebra of the arc-type merge (`Closed.Kind.merge` ← `Vertex.updateArcType`,
`Closed.mergeK` on optional arcs) and the required-field rule of validation.
-/
import CueVerif.Spec.Closed
namespace CueVerif.Closed

theorem Kind.merge_comm (a b : Kind) : a.merge b = b.merge a := by
  cases a <;> cases b <;> rfl

theorem Kind.merge_assoc (a b c : Kind) : (a.merge b).merge c = a.merge (b.merge c) := by
  cases a <;> cases b <;> cases c <;> rfl

theorem Kind.merge_idem (a : Kind) : a.merge a = a := by
  cases a <;> rfl

theorem Kind.merge_member (a : Kind) : a.merge .member = .member := by
  cases a <;> rfl

theorem Kind.merge_optional (a : Kind) : a.merge .optional = a := by
  cases a <;> rfl

theorem Kind.merge_required_member : Kind.required.merge .member = .member := rfl
theorem Kind.merge_required_optional : Kind.required.merge .optional = .required := rfl

/-- the merge is the meet of the linear order member < required < optional -/
theorem Kind.merge_rank (a b : Kind) : (a.merge b).rank = min a.rank b.rank := by
  cases a <;> cases b <;> decide

theorem Kind.merge_eq_left_or_right (a b : Kind) : a.merge b = a ∨ a.merge b = b := by
  cases a <;> cases b <;> simp [Kind.merge, Kind.rank]

/-- `mergeK`: absent arcs are the unit -/
theorem mergeK_none_left (b : Option Kind) : mergeK none b = b := by
  cases b <;> rfl
theorem mergeK_none_right (a : Option Kind) : mergeK a none = a := by
  cases a <;> rfl
theorem mergeK_comm (a b : Option Kind) : mergeK a b = mergeK b a := by
  cases a <;> cases b <;> simp [mergeK, Kind.merge_comm]
theorem mergeK_assoc (a b c : Option Kind) : mergeK (mergeK a b) c = mergeK a (mergeK b c) := by
  cases a <;> cases b <;> cases c <;> simp [mergeK, Kind.merge_assoc]
theorem mergeK_idem (a : Option Kind) : mergeK a a = a := by
  cases a <;> simp [mergeK, Kind.merge_idem]
/-- a regular field anywhere makes the arc a regular field -/
theorem mergeK_member (a : Option Kind) : mergeK a (some .member) = some .member := by
  cases a <;> simp [mergeK, Kind.merge_member]

/-! ### the required-field rule -/

/-- model (`validate`, transcribing adt/validate.go): a struct that passes
`Validate(Concrete(true))` in a regular context has no arc that is still a required
constraint -/
theorem validate_no_required (labels : List Label) (kind : Label → Option Kind) (val : Label → Val)
    (hard soft : List Pred) (names wide : Pred) (r e : Bool)
    (h : validate true (.st labels kind val hard soft names wide r e) = true) :
    ∀ l ∈ labels, kind l ≠ some .required := by
  intro l hl hk
  unfold validate at h
  rw [List.all_eq_true] at h
  have := h l hl
  simp [hk] at this

/-- … and a struct with such an arc fails -/
theorem validate_required_fails (labels : List Label) (kind : Label → Option Kind) (val : Label → Val)
    (hard soft : List Pred) (names wide : Pred) (r e : Bool) (l : Label)
    (hl : l ∈ labels) (hk : kind l = some .required) :
    validate true (.st labels kind val hard soft names wide r e) = false := by
  cases hv : validate true (.st labels kind val hard soft names wide r e)
  · rfl
  · exact absurd hk (validate_no_required labels kind val hard soft names wide r e hv l hl)

/-- below a hidden/definition field (`full = false`) a required constraint is not an error
(validate.go does not descend there with the required check) -/
theorem validate_required_hidden_ok (l : Label) (v : Val) :
    validate false (single l .required v) = true := by
  simp [single, validate]

/-- spec (`admitsN`): in a regular context every label the schema declares `l!:` must be
present in the result — from the data or as a regular field of some conjunct -/
theorem admitsN_required_present (n : Nat) (e : Expr) (od : Option Data) (l : Label)
    (hs : (shape e).meet (optShape od) = .st)
    (h : admitsN (n + 1) true e od = true)
    (hl : l ∈ fieldLabels e) (hr : hasDecl .required e l = true) :
    ((match od with | some d => d.labels | none => []).contains l || hasDecl .member e l) = true := by
  cases od with
  | none =>
    unfold admitsN at h
    rw [hs] at h
    simp only [List.all_eq_true] at h
    have := h l (List.mem_append_left _ hl)
    cases hm : hasDecl .member e l
    · simp [hm, hr] at this
    · simp
  | some d =>
    unfold admitsN at h
    rw [hs] at h
    simp only [List.all_eq_true] at h
    have := h l (List.mem_append_left _ hl)
    cases hm : hasDecl .member e l
    · cases hc : d.labels.contains l
      · simp [hm, hr] at this
        have hc' : l ∉ d.labels := by simpa using hc
        exact absurd this.1 hc'
      · simp
    · simp

end CueVerif.Closed
