import CueVerif.Model.ModzipJoin
import CueVerif.Proofs.ModzipCreate
/-!
C15, confinement at byte level: `filepath.Join(dir, name)` for an accepted name is literally
`dir + "/" + name`, and the code's Windows rules hold for every element of an accepted name.
-/
namespace CueVerif.Modzip

theorem splitOn_cons_sep (s : Str) : splitOn 47 (47 :: s) = [] :: splitOn 47 s := by
  simp [splitOn]

/-- `path.Clean` leaves an absolute path made of plain elements alone -/
theorem pathClean_rooted (xs : List Str) (hne : xs ≠ [])
    (h : ∀ e ∈ xs, e ≠ [] ∧ e ≠ sDot ∧ e ≠ sDotDot ∧ 47 ∉ e) :
    pathClean (47 :: joinSlash xs) = 47 :: joinSlash xs := by
  have hsp : splitOn 47 (joinSlash xs) = xs := splitOn_joinSlash xs hne (fun e he => (h e he).2.2.2)
  unfold pathClean
  simp only [List.isEmpty_cons, Bool.false_eq_true, if_false, List.head?_cons, beq_self_eq_true,
    if_true, splitOn_cons_sep, hsp]
  have : cleanElems true ([] :: xs) [] = xs := by
    unfold cleanElems
    simp only [List.isEmpty_nil, Bool.true_or, if_true]
    rw [cleanElems_of_plain true xs [] (fun e he => ⟨(h e he).1, (h e he).2.1, (h e he).2.2.1⟩)]
    simp
  rw [this]

/-- **filepath.Join(dir, name), byte for byte.**  `dir` a clean absolute path `/d1/…/dn`
(n ≥ 1, plain elements), `name` accepted by CheckFilePath: the result is `dir ++ "/" ++ name`
unchanged — nothing is removed by Clean, no `..` is resolved, the result has `dir ++ "/"` as a
proper prefix — and its elements are those of `dir` followed by those of `name` (the
element-level `fjoin` of `C15_confined`). -/
theorem fpJoin_accepted (U : Uni) (ds : List Str) (hds : ds ≠ [])
    (hd : ∀ e ∈ ds, e ≠ [] ∧ e ≠ sDot ∧ e ≠ sDotDot ∧ 47 ∉ e)
    (p : Str) (hp : checkFilePath U p = none) :
    fpJoin (47 :: joinSlash ds) p = (47 :: joinSlash ds) ++ 47 :: p ∧
    splitOn 47 (fpJoin (47 :: joinSlash ds) p) = [] :: fjoin ds p := by
  obtain ⟨es, hes, rfl, hg⟩ := Coll.checkFilePath_good U p hp
  have hpne : joinSlash es ≠ [] := Coll.joinSlash_ne_nil es hes hg
  have hall : ∀ e ∈ ds ++ es, e ≠ [] ∧ e ≠ sDot ∧ e ≠ sDotDot ∧ 47 ∉ e := by
    intro e he
    rcases List.mem_append.mp he with h | h
    · exact hd e h
    · exact hg e h
  have hcat : (47 :: joinSlash ds) ++ 47 :: joinSlash es = 47 :: joinSlash (ds ++ es) := by
    rw [joinSlash_append ds es hds hes]; rfl
  have hj : fpJoin (47 :: joinSlash ds) (joinSlash es) = 47 :: joinSlash (ds ++ es) := by
    unfold fpJoin
    have e1 : (47 :: joinSlash ds).isEmpty = false := rfl
    have e2 : (joinSlash es).isEmpty = false := by simpa using hpne
    rw [e1, e2]
    simp only [Bool.false_eq_true, if_false]
    rw [hcat, pathClean_rooted (ds ++ es) (by simp [hds]) hall]
  refine ⟨by rw [hj, hcat], ?_⟩
  rw [hj, splitOn_cons_sep, splitOn_joinSlash (ds ++ es) (by simp [hds]) (fun e he => (hall e he).2.2.2)]
  have hsafe := checkFilePath_safe U (joinSlash es) hp
  rw [(fjoin_of_safe ds (joinSlash es) hsafe).1,
    splitOn_joinSlash es hes (fun e he => (hg e he).2.2.2)]

/-! ### the Windows rules, per element -/

theorem fileNameOK_notForbidden (il : Nat → Bool) (b : Nat) (h : fileNameOK il b = true)
    (hlt : b < 128) : winForbidden b = false := by
  have : ∀ k, k < 128 → fileNameOK (fun _ => false) k = true → winForbidden k = false := by decide
  apply this b hlt
  simpa [fileNameOK, hlt] using h

theorem cutAt_fst (e : Str) : (cutAt 46 e).1 = shortName e := rfl

theorem checkElem_winSafe {U : Uni} {e : Str} (h : checkElem U e = none) : WinSafeElem U e := by
  unfold checkElem at h
  split at h
  · simp at h
  · rename_i hemp
    split at h
    · simp at h
    · rename_i hdots
      split at h
      · simp at h
      · rename_i hlast
        split at h
        · simp at h
        · rename_i hall
          split at h
          · simp at h
          · rename_i hbad
            refine ⟨?_, ?_, by simpa using hlast, ?_, ?_⟩
            · rintro rfl; simp at hemp
            · intro hd
              apply hdots
              unfold isDotsOnly
              exact List.all_eq_true.mpr (fun b hb => by simp [hd b hb])
            · intro b hb
              by_cases hlt : b < 128
              · have hall' : (runes e).all (fileNameOK U.isLetter) = true := by simpa using hall
                exact fileNameOK_notForbidden _ b
                  (List.all_eq_true.mp hall' b (mem_runes_of_ascii e b hb hlt)) hlt
              · unfold winForbidden
                have : ¬ b < 32 := by omega
                simp [this]
                omega
            · intro bad hb
              rw [← cutAt_fst]
              cases hq : equalFold U bad (cutAt 46 e).1 with
              | false => rfl
              | true => exact absurd (List.any_eq_true.mpr ⟨bad, hb, hq⟩) hbad

theorem checkFilePath_winSafe (U : Uni) (p : Str) (h : checkFilePath U p = none) :
    ∀ e ∈ splitOn 47 p, WinSafeElem U e := by
  intro e he
  exact checkElem_winSafe (checkElems_none (checkFilePath_none h).2.2 e he)

end CueVerif.Modzip
