/-
C08 helper lemmas: the blank policies of the two formatters.

Structure of the argument
* `toks_fmt1` / `toks_fmt2`: forgetting the blank decisions, both formatters emit `printP`.
* token-level facts (`hazard_*`, `unaryOpMerges_eq`): which adjacent pairs can be a hazard at all.
* `sepFrom` / `lastT`: `sepOK` with the previous token made explicit, so that it splits over `++`.
* `Good l tf`: the invariant of one printed operand (separated; first token an atom, `(` or a
  unary operator - an atom or `(` when `tf`; last token an atom or `)`), closed under the
  binary / unary / parenthesis steps (`good_bin`, `good_un`, `good_iparens`).
* `cutoff_ge` / `binaryCutoff_ge`: both cutoffs are ≥ 6, so operators of precedence ≤ 5 always get
  their blanks.
* `fmt1_good` / `fmt2_good`: the induction over the formatter.
-/
import CueVerif.Spec.Fmt
namespace CueVerif.Fmt

namespace Policy

theorem prec_le7 (o : OpTok) : o.prec ≤ 7 := by cases o <;> decide

theorem toks_append (l m : Items) : toks (l ++ m) = toks l ++ toks m := by
  simp [toks]

theorem toks_cons (x : Bool × Tok) (l : Items) : toks (x :: l) = x.2 :: toks l := rfl

theorem toks_nil : toks [] = [] := rfl

theorem toks_setFirst (b : Bool) (l : Items) : toks (setFirst b l) = toks l := by
  cases l with
  | nil => rfl
  | cons x r => cases x; rfl

theorem toks_iparens (l : Items) : toks (iparens l) = parens (toks l) := by
  simp [iparens, parens, toks]

theorem toks_applyMayCombine (q : Option Tok) (l : Items) : toks (applyMayCombine q l) = toks l := by
  induction l generalizing q with
  | nil => cases q <;> rfl
  | cons x r ih =>
    obtain ⟨b, t⟩ := x
    cases q <;> simp [applyMayCombine, toks_cons, ih]

theorem toks_fmt1 (g : Bool) (p d : Nat) (e : Expr) : toks (fmt1 g p d e) = printP p e := by
  fun_induction fmt1 g p d e
  case case1 => simp [printP, toks_cons, toks_nil]
  case case2 p depth o x y d1 d pb body h ih2 ih1 =>
    simp only [printP, if_pos h]
    simp [body, toks_append, toks_cons, toks_setFirst, toks_iparens, ih1, ih2]
  case case3 p depth o x y d1 d pb body h ih2 ih1 =>
    simp only [printP, if_neg h]
    simp [body, toks_append, toks_cons, toks_setFirst, ih1, ih2]
  case case4 p depth o x d body h ih =>
    simp only [printP, if_pos h]
    simp [body, toks_cons, toks_setFirst, toks_iparens, ih]
  case case5 p depth o x d body h ih =>
    simp only [printP, if_neg h]
    simp [body, toks_cons, toks_setFirst, ih]
  case case6 ih => simp_all [printP]
  case case7 ih => simp_all [printP, toks_iparens]

theorem toks_fmt2 (p d : Nat) (e : Expr) (hp : p ≤ unaryPrec) : toks (fmt2 p d e) = printP p e := by
  fun_induction fmt2 p d e
  case case1 => simp [printP, toks_cons, toks_nil]
  case case2 p depth o x y d sp body h ih1 ih2 =>
    have := prec_le7 o
    have h1 := ih1 (by simp [unaryPrec]; omega)
    have h2 := ih2 (by simp [unaryPrec]; omega)
    simp only [printP, if_pos h]
    simp [body, toks_append, toks_cons, toks_setFirst, toks_iparens, h1, h2]
  case case3 p depth o x y d sp body h ih1 ih2 =>
    have := prec_le7 o
    have h1 := ih1 (by simp [unaryPrec]; omega)
    have h2 := ih2 (by simp [unaryPrec]; omega)
    simp only [printP, if_neg h]
    simp [body, toks_append, toks_cons, toks_setFirst, h1, h2]
  case case4 p depth o x ih =>
    have h1 := ih (Nat.le_refl _)
    have hn : ¬ unaryPrec < p := Nat.not_lt.mpr hp
    simp only [printP, if_neg hn]
    simp [toks_cons, toks_setFirst, h1]
  case case5 ih =>
    have := ih (by simp [unaryPrec, lowestPrec])
    simp_all [printP]
  case case6 ih =>
    have := ih (by simp [unaryPrec, lowestPrec])
    simp_all [printP, toks_iparens]

theorem printP_wf_aux (p : Nat) (e : Expr) (h : e.wf = true) : ∀ t ∈ printP p e, t.wf = true := by
  induction e generalizing p with
  | atom a => intro t ht; simp [printP] at ht; subst ht; simpa [Tok.wf, Expr.wf] using h
  | un o x ih =>
    simp only [Expr.wf, Bool.and_eq_true] at h
    intro t ht
    simp only [printP] at ht
    have key : ∀ t ∈ Tok.op o :: printP unaryPrec x, t.wf = true := by
      intro t ht
      rcases List.mem_cons.mp ht with rfl | ht
      · rfl
      · exact ih _ h.2 t ht
    split at ht
    · simp only [parens, List.mem_append, List.mem_singleton] at ht
      rcases ht with (rfl | ht) | rfl
      · rfl
      · exact key t ht
      · rfl
    · exact key t ht
  | bin o x y ihx ihy =>
    simp only [Expr.wf, Bool.and_eq_true] at h
    intro t ht
    simp only [printP] at ht
    have key : ∀ t ∈ printP o.prec x ++ [Tok.op o] ++ printP (o.prec + 1) y, t.wf = true := by
      intro t ht
      simp only [List.mem_append, List.mem_singleton] at ht
      rcases ht with (ht | rfl) | ht
      · exact ihx _ h.1.2 t ht
      · rfl
      · exact ihy _ h.2 t ht
    split at ht
    · simp only [parens, List.mem_append, List.mem_singleton] at ht
      rcases ht with (rfl | ht) | rfl
      · rfl
      · exact key t (by simpa only [List.mem_append, List.mem_singleton] using ht)
      · rfl
    · exact key t ht
  | paren x ih =>
    simp only [Expr.wf] at h
    have key : ∀ t ∈ parens (printP lowestPrec x), t.wf = true := by
      intro t ht
      simp only [parens, List.mem_append, List.mem_singleton] at ht
      rcases ht with (rfl | ht) | rfl
      · rfl
      · exact ih _ h t ht
      · rfl
    cases x with
    | paren z =>
      intro t ht
      rw [printP] at ht
      exact ih _ h t ht
    | atom a => intro t ht; rw [printP] at ht; exact key t ht; all_goals (intro z hz; cases hz)
    | un o z => intro t ht; rw [printP] at ht; exact key t ht; all_goals (intro z hz; cases hz)
    | bin o z w => intro t ht; rw [printP] at ht; exact key t ht; all_goals (intro z hz; cases hz)


/-! ### token-level hazard facts -/

def firstOK : Tok → Bool
  | .atom a => a.wf
  | .op o => o == .lparen || o.isUnary

def closed : Tok → Bool
  | .atom a => a.wf
  | .op o => o == .lparen

def lastOK : Tok → Bool
  | .atom _ => true
  | .op o => o == .rparen

theorem closed_firstOK {t : Tok} (h : closed t = true) : firstOK t = true := by
  cases t with
  | atom a => exact h
  | op o => simp only [closed] at h; simp [firstOK, h]

theorem atom_wf_spell {a : Atom} (h : a.wf = true) :
    ∃ c s, a.spell = c :: s ∧ (isLetter c || isDigit c) = true := by
  cases a with
  | ident s =>
    cases s with
    | nil => simp [Atom.wf] at h
    | cons c s => simp only [Atom.wf, Bool.and_eq_true] at h; exact ⟨c, s, rfl, by simp [h.1]⟩
  | int s =>
    cases s with
    | nil => simp [Atom.wf] at h
    | cons c s => simp only [Atom.wf, Bool.and_eq_true] at h; exact ⟨c, s, rfl, by simp [h.1]⟩

theorem alnum_ne {c : Char} (h : (isLetter c || isDigit c) = true) :
    c ≠ '/' ∧ c ≠ '-' ∧ c ≠ '=' ∧ c ≠ '~' := by
  refine ⟨?_, ?_, ?_, ?_⟩ <;> (rintro rfl; revert h; decide)

/-- (i) an operand's last token followed by a binary operator -/
theorem hazard_last_binop {a : Tok} {o : OpTok} (ha : lastOK a = true) (ho : 1 ≤ o.prec) :
    hazard a (.op o) = false := by
  cases a with
  | atom a => cases a <;> cases o <;> first | rfl | (exfalso; revert ho; decide)
  | op q => cases q <;> first | (exfalso; revert ha; decide) | (cases o <;> rfl)

/-- (iv) `(` followed by anything -/
theorem hazard_lparen {t : Tok} (ht : firstOK t = true) : hazard (.op .lparen) t = false := by
  cases t with
  | atom a =>
    obtain ⟨c, s, hs, _⟩ := atom_wf_spell ht
    simp [hazard, Tok.spell, hs, hazardChar]
  | op o => cases o <;> rfl

/-- (iv) anything followed by `)` -/
theorem hazard_rparen (t : Tok) : hazard t (.op .rparen) = false := by
  cases t with
  | atom a => cases a <;> rfl
  | op o => cases o <;> rfl

/-- (ii) an additive / multiplicative operator followed by the first token of an operand -/
theorem hazard_binop_first {o : OpTok} {t : Tok} (ho : 6 ≤ o.prec) (ht : firstOK t = true) :
    hazard (.op o) t = false := by
  cases t with
  | atom a =>
    obtain ⟨c, s, hs, hc⟩ := atom_wf_spell ht
    have := alnum_ne hc
    cases o <;> first | (exfalso; revert ho; decide) | simp [hazard, Tok.spell, hs, hazardChar, this]
  | op q =>
    cases o <;> first | (exfalso; revert ho; decide) | (cases q <;> first | rfl | (exfalso; revert ht; decide))

/-- (iii) a unary operator followed by an atom or `(` -/
theorem hazard_unop_closed {o : OpTok} {t : Tok} (ho : o.isUnary = true) (ht : closed t = true) :
    hazard (.op o) t = false := by
  cases t with
  | atom a =>
    obtain ⟨c, s, hs, hc⟩ := atom_wf_spell ht
    have := alnum_ne hc
    cases o <;> first | (exfalso; revert ho; decide) | simp [hazard, Tok.spell, hs, hazardChar, this]
  | op q =>
    simp only [closed, beq_iff_eq] at ht
    subst ht
    cases o <;> rfl

/-- (iii) a unary operator followed by a unary operator: the guard is exactly the hazard -/
theorem unaryOpMerges_eq {o i : OpTok} (x : Expr) (ho : o.isUnary = true) (hi : i.isUnary = true) :
    unaryOpMerges o (.un i x) = hazard (.op o) (.op i) := by
  cases o <;> first | (exfalso; revert ho; decide) | (cases i <;> first | (exfalso; revert hi; decide) | rfl)


/-! ### `sepOK` with an explicit previous token -/

def sepFrom : Option Tok → Items → Bool
  | _, [] => true
  | prev, (b, t) :: r =>
    (match prev with
     | none => true
     | some a => b || !hazard a t) && sepFrom (some t) r

def lastT : Option Tok → Items → Option Tok
  | prev, [] => prev
  | _, (_, t) :: r => lastT (some t) r

theorem sepOK_cons (b : Bool) (t : Tok) (r : Items) : sepOK ((b, t) :: r) = sepFrom (some t) r := by
  induction r generalizing b t with
  | nil => rfl
  | cons x r ih =>
    obtain ⟨b2, t2⟩ := x
    simp [sepOK, sepFrom, ih]

theorem sepOK_eq (l : Items) : sepOK l = sepFrom none l := by
  cases l with
  | nil => rfl
  | cons x r => obtain ⟨b, t⟩ := x; simp [sepOK_cons, sepFrom]

theorem sepFrom_append (prev : Option Tok) (l m : Items) :
    sepFrom prev (l ++ m) = (sepFrom prev l && sepFrom (lastT prev l) m) := by
  induction l generalizing prev with
  | nil => simp [sepFrom, lastT]
  | cons x r ih => obtain ⟨b, t⟩ := x; simp [sepFrom, lastT, ih, Bool.and_assoc]

theorem lastT_append (prev : Option Tok) (l m : Items) :
    lastT prev (l ++ m) = lastT (lastT prev l) m := by
  induction l generalizing prev with
  | nil => rfl
  | cons x r ih => obtain ⟨b, t⟩ := x; simp [lastT, ih]

theorem lastT_setFirst (prev : Option Tok) (c : Bool) (l : Items) :
    lastT prev (setFirst c l) = lastT prev l := by
  cases l with
  | nil => rfl
  | cons x r => obtain ⟨b, t⟩ := x; rfl

/-- blanks only get added by `applyMayCombine` -/
theorem sepFrom_applyMayCombine (prev q : Option Tok) (l : Items) (h : sepFrom prev l = true) :
    sepFrom prev (applyMayCombine q l) = true := by
  induction l generalizing prev q with
  | nil => cases q <;> exact h
  | cons x r ih =>
    obtain ⟨b, t⟩ := x
    simp only [sepFrom, Bool.and_eq_true] at h
    cases q with
    | none =>
      simp only [applyMayCombine, sepFrom, Bool.and_eq_true]
      exact ⟨h.1, ih _ _ h.2⟩
    | some q =>
      simp only [applyMayCombine, sepFrom, Bool.and_eq_true]
      refine ⟨?_, ih _ _ h.2⟩
      cases prev with
      | none => rfl
      | some a =>
        have := h.1
        simp only [Bool.or_eq_true] at this ⊢
        rcases this with h1 | h1
        · simp [h1]
        · exact Or.inr h1

/-! ### the invariant of one printed operand -/

/-- `tf` = the caller may rely on the first token being an atom or `(` -/
structure Good (l : Items) (tf : Bool) : Prop where
  sep : sepFrom none l = true
  head : ∃ b t r, l = (b, t) :: r ∧ firstOK t = true ∧ (tf = true → closed t = true)
  last : ∀ prev, ∃ t, lastT prev l = some t ∧ lastOK t = true

theorem good_atom {a : Atom} (h : a.wf = true) (tf : Bool) : Good [(false, .atom a)] tf := by
  refine ⟨rfl, ⟨false, .atom a, [], rfl, h, fun _ => h⟩, fun prev => ⟨.atom a, rfl, rfl⟩⟩

theorem sepFrom_rparen (q : Option Tok) : sepFrom q [(false, .op .rparen)] = true := by
  cases q <;> simp [sepFrom, hazard_rparen]

theorem good_iparens {l : Items} {tf0 : Bool} (h : Good l tf0) (tf : Bool) : Good (iparens l) tf := by
  obtain ⟨b, t, r, hl, h1, _⟩ := h.head
  refine ⟨?_, ⟨false, .op .lparen, l ++ [(false, .op .rparen)], by simp [iparens], rfl, fun _ => rfl⟩, ?_⟩
  · have hs := h.sep
    obtain ⟨a, ha, _⟩ := h.last (some (.op .lparen))
    subst hl
    simp only [sepFrom, Bool.true_and] at hs
    simp [iparens, sepFrom, sepFrom_append, hs, hazard_lparen h1]
    cases lastT (some t) r <;> simp [hazard_rparen]
  · intro prev
    refine ⟨.op .rparen, ?_, rfl⟩
    simp [iparens, lastT, lastT_append]

theorem good_bin {L R : Items} {tl tr : Bool} {o : OpTok} {pb : Bool} (hL : Good L tl) (hR : Good R tr)
    (ho : 1 ≤ o.prec) (hpb : o.prec ≤ 5 → pb = true) :
    Good (L ++ (pb, .op o) :: setFirst pb R) false := by
  obtain ⟨b, t, r, hl, h1, _⟩ := hL.head
  obtain ⟨b', t', r', hr, h1', _⟩ := hR.head
  refine ⟨?_, ⟨b, t, r ++ (pb, .op o) :: setFirst pb R, by simp [hl], h1, fun h => by cases h⟩, ?_⟩
  · obtain ⟨a, ha, hla⟩ := hL.last none
    have hs := hR.sep
    subst hr
    simp only [sepFrom, Bool.true_and] at hs
    have hz : (pb || !hazard (.op o) t') = true := by
      by_cases h5 : o.prec ≤ 5
      · simp [hpb h5]
      · simp [hazard_binop_first (o := o) (by omega) h1']
    simp only [Bool.or_eq_true] at hz
    rcases hz with hz | hz
    · simp [sepFrom_append, hL.sep, ha, sepFrom, setFirst, hs, hz]
    · simp [sepFrom_append, hL.sep, ha, sepFrom, setFirst, hs, hz, hazard_last_binop hla ho]
  · intro prev
    obtain ⟨a, ha, hla⟩ := hR.last (some (.op o))
    exact ⟨a, by simp [lastT_append, lastT, lastT_setFirst, ha], hla⟩

theorem good_un {X : Items} {tf : Bool} {o : OpTok} {c : Bool} (hX : Good X tf)
    (hc : ∀ b t r, X = (b, t) :: r → (c || !hazard (.op o) t) = true) (ho : o.isUnary = true) :
    Good ((false, .op o) :: setFirst c X) false := by
  obtain ⟨b, t, r, hl, h1, _⟩ := hX.head
  refine ⟨?_, ⟨false, .op o, setFirst c X, rfl, by simp [firstOK, ho], fun h => by cases h⟩, ?_⟩
  · have hs := hX.sep
    have hz := hc b t r hl
    subst hl
    simp only [sepFrom, Bool.true_and] at hs
    simp only [Bool.or_eq_true] at hz
    rcases hz with hz | hz
    · simp [sepFrom, setFirst, hs, hz]
    · simp [sepFrom, setFirst, hs, hz]
  · intro prev
    obtain ⟨a, ha, hla⟩ := hX.last (some (.op o))
    exact ⟨a, by simp [lastT, lastT_setFirst, ha], hla⟩


/-! ### the cutoffs are at least 6: every operator of precedence ≤ 5 gets its blanks -/

theorem walk_maxProblem (e : Expr) :
    (walkBinary e).maxProblem = 0 ∨ 6 ≤ (walkBinary e).maxProblem := by
  fun_induction walkBinary e
  case case8 => exact Or.inl rfl
  all_goals
    expose_names
    have hw : w_1.maxProblem = 0 ∨ 6 ≤ w_1.maxProblem := by
      simp only [w_1]
      split
      · split
        · exact Or.inl rfl
        · simp only [w]
          split <;> simp_all
      · exact Or.inl rfl
    first
      | exact hw
      | (simp only []; split <;> simp_all)
      | simp

theorem cutoff_ge (e : Expr) (d : Nat) : 6 ≤ cutoff e d := by
  have := walk_maxProblem e
  unfold cutoff
  simp only []
  repeat' split
  all_goals omega

theorem binaryCutoff_ge (e : Expr) (d : Nat) : 6 ≤ binaryCutoff e d := by
  unfold binaryCutoff
  simp only []
  repeat' split
  all_goals omega


/-! ### the two formatters -/

/-- the operand is printed, in a context of precedence `p`, starting with an atom or `(` -/
def tight (p : Nat) : Expr → Bool
  | .atom _ => true
  | .paren _ => true
  | .bin o _ _ => decide (o.prec < p)
  | .un _ _ => false

theorem good_un_step {X : Items} {o : OpTok} {x : Expr} {g : Bool}
    (hX : Good X (tight unaryPrec x)) (ht : toks X = printP unaryPrec x)
    (ho : o.isUnary = true) (hx : x.wf = true)
    (hg : g = false → NoUnaryMerge (.un o x) = true) :
    Good ((false, .op o) :: setFirst (g && unaryOpMerges o x) X) false := by
  refine good_un hX ?_ ho
  intro b t r hl
  have hclosed : tight unaryPrec x = true → (g && unaryOpMerges o x || !hazard (.op o) t) = true := by
    intro htf
    obtain ⟨b', t', r', hl', _, hc⟩ := hX.head
    rw [hl] at hl'
    cases hl'
    simp [hazard_unop_closed ho (hc htf)]
  cases x with
  | atom a => exact hclosed rfl
  | paren z => exact hclosed rfl
  | bin q a b =>
    have := prec_le7 q
    have hq : q.prec < 8 := by omega
    exact hclosed (by simp [tight, unaryPrec, hq])
  | un i z =>
    simp only [Expr.wf, Bool.and_eq_true] at hx
    have hti : t = .op i := by
      have h2 := ht
      rw [hl] at h2
      simp [toks_cons, printP, unaryPrec] at h2
      exact h2.1
    subst hti
    rw [unaryOpMerges_eq z ho hx.1]
    cases g with
    | true => simp
    | false =>
      have h2 := hg rfl
      simp [NoUnaryMerge, firstTok, printP, unaryPrec] at h2
      simp [h2.1]

theorem fmt1_good (g : Bool) (p d : Nat) (e : Expr) (h : e.wf = true)
    (hg : g = false → NoUnaryMerge e = true) : Good (fmt1 g p d e) (tight p e) := by
  fun_induction fmt1 g p d e
  case case1 a => exact good_atom h _
  case case2 p depth o x y d1 d pb body hlt ih2 ih1 =>
    simp only [Expr.wf, Bool.and_eq_true, decide_eq_true_eq] at h
    have hpb : o.prec ≤ 5 → pb = true := by
      intro h5
      have := cutoff_ge (.bin o x y) d
      simp only [pb, decide_eq_true_eq]
      omega
    have hn : g = false → NoUnaryMerge x = true ∧ NoUnaryMerge y = true := by
      intro hgf; simpa [NoUnaryMerge] using hg hgf
    exact good_iparens (good_bin (ih2 h.1.2 (fun q => (hn q).1)) (ih1 h.2 (fun q => (hn q).2)) h.1.1 hpb) _
  case case3 p depth o x y d1 d pb body hlt ih2 ih1 =>
    simp only [Expr.wf, Bool.and_eq_true, decide_eq_true_eq] at h
    have hpb : o.prec ≤ 5 → pb = true := by
      intro h5
      have := cutoff_ge (.bin o x y) d
      simp only [pb, decide_eq_true_eq]
      omega
    have hn : g = false → NoUnaryMerge x = true ∧ NoUnaryMerge y = true := by
      intro hgf; simpa [NoUnaryMerge] using hg hgf
    have htf : tight p (.bin o x y) = false := by simp [tight, hlt]
    rw [htf]
    exact good_bin (ih2 h.1.2 (fun q => (hn q).1)) (ih1 h.2 (fun q => (hn q).2)) h.1.1 hpb
  case case4 p depth o x d body hlt ih =>
    simp only [Expr.wf, Bool.and_eq_true] at h
    have hn : g = false → NoUnaryMerge x = true := by
      intro hgf
      have := hg hgf
      simp only [NoUnaryMerge, Bool.and_eq_true] at this
      exact this.2
    exact good_iparens (good_un_step (ih h.2 hn) (toks_fmt1 _ _ _ _) h.1 h.2 hg) _
  case case5 p depth o x d body hlt ih =>
    simp only [Expr.wf, Bool.and_eq_true] at h
    have hn : g = false → NoUnaryMerge x = true := by
      intro hgf
      have := hg hgf
      simp only [NoUnaryMerge, Bool.and_eq_true] at this
      exact this.2
    exact good_un_step (ih h.2 hn) (toks_fmt1 _ _ _ _) h.1 h.2 hg
  case case6 p depth x ih =>
    exact ih (by simpa [Expr.wf] using h) (fun q => by simpa [NoUnaryMerge] using hg q)
  case case7 p depth x hx ih =>
    exact good_iparens (ih (by simpa [Expr.wf] using h) (fun q => by simpa [NoUnaryMerge] using hg q)) _

theorem fmt2_good (p d : Nat) (e : Expr) (h : e.wf = true) : Good (fmt2 p d e) (tight p e) := by
  fun_induction fmt2 p d e
  case case1 a => exact good_atom h _
  case case2 p depth o x y d sp body hlt ih2 ih1 =>
    simp only [Expr.wf, Bool.and_eq_true, decide_eq_true_eq] at h
    have hsp : o.prec ≤ 5 → sp = true := by
      intro h5
      have := binaryCutoff_ge (.bin o x y) d
      simp only [sp, Bool.or_eq_true, decide_eq_true_eq]
      left; omega
    exact good_iparens (good_bin (ih2 h.1.2) (ih1 h.2) h.1.1 hsp) _
  case case3 p depth o x y d sp body hlt ih2 ih1 =>
    simp only [Expr.wf, Bool.and_eq_true, decide_eq_true_eq] at h
    have hsp : o.prec ≤ 5 → sp = true := by
      intro h5
      have := binaryCutoff_ge (.bin o x y) d
      simp only [sp, Bool.or_eq_true, decide_eq_true_eq]
      left; omega
    have htf : tight p (.bin o x y) = false := by simp [tight, hlt]
    rw [htf]
    exact good_bin (ih2 h.1.2) (ih1 h.2) h.1.1 hsp
  case case4 p depth o x ih =>
    simp only [Expr.wf, Bool.and_eq_true] at h
    have := good_un_step (g := true) (ih h.2) (toks_fmt2 _ _ _ (Nat.le_refl _)) h.1 h.2 (fun q => by cases q)
    simp only [Bool.true_and] at this
    exact this
  case case5 p depth x ih =>
    exact ih (by simpa [Expr.wf] using h)
  case case6 p depth x hx ih =>
    exact good_iparens (ih (by simpa [Expr.wf] using h)) _

end Policy

open Policy

theorem printP_wf (p : Nat) (e : Expr) (h : e.wf = true) : ∀ t ∈ printP p e, t.wf = true :=
  printP_wf_aux p e h

/-- both formatters emit the token stream `printE` -/
theorem toks_fmtV1g (g : Bool) (e : Expr) : toks (fmtV1g g e) = printE e := by
  simp [fmtV1g, printE, toks_applyMayCombine, toks_fmt1]

theorem toks_fmtV2 (e : Expr) : toks (fmtV2 e) = printE e := by
  simp [fmtV2, printE, toks_fmt2 lowestPrec 1 e (by decide)]

theorem fmtV2_safe (e : Expr) (h : e.wf = true) : sepOK (fmtV2 e) = true := by
  rw [sepOK_eq]
  exact (fmt2_good _ _ e h).sep

theorem fmtV1g_guard_safe (e : Expr) (h : e.wf = true) : sepOK (fmtV1g true e) = true := by
  rw [sepOK_eq]
  exact sepFrom_applyMayCombine _ _ _ (fmt1_good true _ _ e h (fun q => by cases q)).sep

theorem fmtV1g_partial (e : Expr) (h : e.wf = true) (hn : NoUnaryMerge e = true) :
    sepOK (fmtV1g false e) = true := by
  rw [sepOK_eq]
  exact sepFrom_applyMayCombine _ _ _ (fmt1_good false _ _ e h (fun _ => hn)).sep

end CueVerif.Fmt
