import CueVerif.Proofs.MvsDfs
/-!
`Req` (Algorithm R of https://research.swtch.com/vgo-mvs, as written in mvs.go):
for every run that does not run out of fuel the returned list is sufficient (its build list
is the original one), contains `base`, and no element outside `base` can be dropped.

Key facts about the postorder: it is a concatenation of depth-first trees, each ending in
its root, a build-list element; the prefix up to a root is closed under requirements.  So in
the reverse postorder loop only tree roots can be appended to `min`, and a root appended later
(an earlier tree) cannot reach a root appended earlier.
-/
namespace CueVerif.Mvs

/-! ### lists without duplicates split uniquely -/

theorem nodup_split_unique {α : Type} (x : α) :
    ∀ (a a' b b' : List α), (a ++ x :: b).Nodup → a ++ x :: b = a' ++ x :: b' → a = a' ∧ b = b'
  | [], [], b, b', _, h => by
    simp only [List.nil_append, List.cons.injEq, true_and] at h
    exact ⟨rfl, h⟩
  | [], y :: a', b, b', hn, h => by
    simp only [List.nil_append, List.cons_append, List.cons.injEq] at h
    obtain ⟨hxy, hb⟩ := h
    simp only [List.nil_append, List.nodup_cons] at hn
    exfalso
    apply hn.1
    rw [hb]
    simp
  | y :: a, [], b, b', hn, h => by
    simp only [List.nil_append, List.cons_append, List.cons.injEq] at h
    obtain ⟨hxy, hb⟩ := h
    subst hxy
    simp only [List.cons_append, List.nodup_cons] at hn
    exfalso
    apply hn.1
    simp
  | y :: a, z :: a', b, b', hn, h => by
    simp only [List.cons_append, List.cons.injEq] at h
    obtain ⟨hyz, ht⟩ := h
    simp only [List.cons_append, List.nodup_cons] at hn
    obtain ⟨h1, h2⟩ := nodup_split_unique x a a' b b' hn.2 ht
    exact ⟨by rw [hyz, h1], h2⟩

/-! ### phase 1: the postorder -/

structure TopInv (gc : Graph) (main : Node) (list : List Node) (s : DfsSt) : Prop where
  cache_iff : ∀ n, n ∈ s.cache ↔ n = main ∨ n ∈ s.post
  nodup : s.post.Nodup
  main_notin : main ∉ s.post
  closed : ∀ n ∈ s.post, ∀ k ∈ gc n, k = main ∨ k ∈ s.post
  cover : ∀ x ∈ s.post, ∃ pre rr suf, s.post = pre ++ rr :: suf ∧ rr ∈ list ∧
    (x ∈ pre ∨ x = rr) ∧ Reach gc [rr] x ∧
    (∀ n ∈ pre ++ [rr], ∀ k ∈ gc n, k = main ∨ k ∈ pre ++ [rr])

theorem topInv_init (gc : Graph) (main : Node) (list : List Node) :
    TopInv gc main list { cache := [main], post := [] } where
  cache_iff := by simp
  nodup := List.nodup_nil
  main_notin := by simp
  closed := by simp
  cover := by simp

theorem top_step (gc : Graph) (main : Node) (list : List Node) (f : Nat) (m : Node)
    (s s' : DfsSt) (hi : TopInv gc main list s) (hm : m ∈ list)
    (h : walk gc f m s = some s') :
    TopInv gc main list s' ∧ m ∈ s'.cache ∧ (∀ n ∈ s.post, n ∈ s'.post) := by
  obtain ⟨new, hw, hin, hnot⟩ := walk_spec gc f m s s' h
  by_cases hc : m ∈ s.cache
  · have := hin hc
    subst this
    exact ⟨hi, hc, fun _ h => h⟩
  · obtain ⟨t, ht⟩ := hnot hc
    have hpost : s'.post = s.post ++ new := hw.post_eq
    have hmem : ∀ n, n ∈ s'.post ↔ n ∈ s.post ∨ n ∈ new := by
      intro n; rw [hpost, List.mem_append]
    have hcache : ∀ n, n ∈ s'.cache ↔ n = main ∨ n ∈ s'.post := by
      intro n
      rw [hw.cache_iff, hi.cache_iff, hmem, or_assoc]
    have hmaincache : main ∈ s.cache := (hi.cache_iff main).mpr (Or.inl rfl)
    have hclosed : ∀ n ∈ s'.post, ∀ k ∈ gc n, k = main ∨ k ∈ s'.post := by
      intro n hn k hk
      rcases (hmem n).mp hn with hn | hn
      · rcases hi.closed n hn k hk with h | h
        · exact Or.inl h
        · exact Or.inr ((hmem k).mpr (Or.inl h))
      · exact (hcache k).mp (hw.closed n hn k hk)
    refine ⟨⟨hcache, ?_, ?_, hclosed, ?_⟩, hw.roots_in m List.mem_cons_self,
      fun n hn => (hmem n).mpr (Or.inl hn)⟩
    · rw [hpost, List.nodup_append]
      refine ⟨hi.nodup, hw.nodup, ?_⟩
      intro a ha b hb hab
      subst hab
      exact hw.fresh a hb ((hi.cache_iff a).mpr (Or.inr ha))
    · intro hmain
      rcases (hmem main).mp hmain with h | h
      · exact hi.main_notin h
      · exact hw.fresh main h hmaincache
    · intro x hx
      rcases (hmem x).mp hx with hx | hx
      · obtain ⟨pre, rr, suf, hsplit, hrr, hxin, hreach, hcl⟩ := hi.cover x hx
        refine ⟨pre, rr, suf ++ new, ?_, hrr, hxin, hreach, hcl⟩
        rw [hpost, hsplit]
        simp
      · have hsp : s'.post = (s.post ++ t) ++ m :: [] := by
          rw [hpost, ht, List.append_assoc]
        refine ⟨s.post ++ t, m, [], hsp, hm, ?_, ?_, ?_⟩
        · rw [ht] at hx
          rcases List.mem_append.mp hx with hx | hx
          · exact Or.inl (List.mem_append_right _ hx)
          · rw [List.mem_singleton] at hx
            exact Or.inr hx
        · obtain ⟨r, hr, hre⟩ := hw.reach x hx
          rw [List.mem_singleton] at hr
          subst hr
          exact hre
        · rw [← hsp]
          exact hclosed

theorem top_fold (gc : Graph) (main : Node) (list : List Node) (f : Nat) :
    ∀ (ms : List Node) (s s' : DfsSt), (∀ m ∈ ms, m ∈ list) → TopInv gc main list s →
      foldOpt (fun s m => walk gc f m s) s ms = some s' →
      TopInv gc main list s' ∧ (∀ m ∈ ms, m = main ∨ m ∈ s'.post) ∧
        (∀ n ∈ s.post, n ∈ s'.post) := by
  intro ms
  induction ms with
  | nil =>
    intro s s' _ hi h
    simp only [foldOpt, Option.some.injEq] at h
    subst h
    exact ⟨hi, by simp, fun _ h => h⟩
  | cons m ms ih =>
    intro s s' hsub hi h
    simp only [foldOpt] at h
    cases hw : walk gc f m s with
    | none => rw [hw] at h; cases h
    | some s1 =>
      rw [hw] at h
      obtain ⟨hi1, hm1, hmono1⟩ := top_step gc main list f m s s1 hi (hsub m List.mem_cons_self) hw
      obtain ⟨hi2, hms, hmono2⟩ := ih s1 s' (fun x hx => hsub x (List.mem_cons_of_mem _ hx)) hi1 h
      refine ⟨hi2, ?_, fun n hn => hmono2 n (hmono1 n hn)⟩
      intro x hx
      rcases List.mem_cons.mp hx with hx | hx
      · subst hx
        rcases (hi1.cache_iff x).mp hm1 with h | h
        · exact Or.inl h
        · exact Or.inr (hmono2 x h)
      · exact hms x hx

/-! ### phase 2: `have` and `min` -/

/-- `have` is exactly what the elements of `min` reach in the cut graph -/
structure HvInv (gc : Graph) (s : ReqSt) : Prop where
  closed : ∀ n ∈ s.hv, ∀ k ∈ gc n, k ∈ s.hv
  gen : ∀ n ∈ s.hv, ∃ r ∈ s.min, Reach gc [r] n
  min_in : ∀ r ∈ s.min, r ∈ s.hv

theorem hv_step (gc : Graph) (f : Nat) (m : Node) (s : ReqSt) (hv' : List Node)
    (hi : HvInv gc s) (h : mark gc f m s.hv = some hv') :
    HvInv gc { hv := hv', min := s.min ++ [m] } ∧ (∀ n ∈ s.hv, n ∈ hv') ∧ m ∈ hv' := by
  have hm := mark_spec gc f m s.hv hv' h
  refine ⟨⟨hm.closed_all hi.closed, ?_, ?_⟩, hm.mono, hm.roots_in m List.mem_cons_self⟩
  · intro n hn
    rcases hm.reach n hn with h | ⟨r, hr, hre⟩
    · obtain ⟨r, hr, hre⟩ := hi.gen n h
      exact ⟨r, List.mem_append_left _ hr, hre⟩
    · rw [List.mem_singleton] at hr
      subst hr
      exact ⟨r, List.mem_append_right _ List.mem_cons_self, hre⟩
  · intro r hr
    rcases List.mem_append.mp hr with hr | hr
    · exact hm.mono r (hi.min_in r hr)
    · rw [List.mem_singleton] at hr
      subst hr
      exact hm.roots_in r List.mem_cons_self

theorem reqBase_spec (gc : Graph) (f : Nat) (sel : Nat → Nat) (base : List Nat) :
    ∀ (ps hb : List Nat) (s s' : ReqSt), (∀ p ∈ ps, p ∈ base) → HvInv gc s →
      (∀ r ∈ s.min, r.1 ∈ base ∧ r.2 = sel r.1) → (∀ p ∈ hb, (p, sel p) ∈ s.min) →
      reqBase gc f sel ps hb s = some s' →
      HvInv gc s' ∧ (∀ r ∈ s'.min, r.1 ∈ base ∧ r.2 = sel r.1) ∧
        (∀ p ∈ ps, (p, sel p) ∈ s'.min) ∧ (∀ r ∈ s.min, r ∈ s'.min) := by
  intro ps
  induction ps with
  | nil =>
    intro hb s s' _ hi hmin _ h
    simp only [reqBase, Option.some.injEq] at h
    subst h
    exact ⟨hi, hmin, by simp, fun _ h => h⟩
  | cons p ps ih =>
    intro hb s s' hsub hi hmin hhb h
    unfold reqBase at h
    by_cases hc : hb.contains p = true
    · rw [if_pos hc] at h
      have hp : p ∈ hb := by simpa using hc
      obtain ⟨h1, h2, h3, h4⟩ :=
        ih hb s s' (fun x hx => hsub x (List.mem_cons_of_mem _ hx)) hi hmin hhb h
      refine ⟨h1, h2, ?_, h4⟩
      intro x hx
      rcases List.mem_cons.mp hx with hx | hx
      · subst hx
        exact h4 _ (hhb x hp)
      · exact h3 x hx
    · rw [if_neg hc] at h
      cases hmk : mark gc f (p, sel p) s.hv with
      | none => rw [hmk] at h; cases h
      | some hv' =>
        rw [hmk] at h
        obtain ⟨hi', _, _⟩ := hv_step gc f (p, sel p) s hv' hi hmk
        have hmin' : ∀ r ∈ s.min ++ [(p, sel p)], r.1 ∈ base ∧ r.2 = sel r.1 := by
          intro r hr
          rcases List.mem_append.mp hr with hr | hr
          · exact hmin r hr
          · rw [List.mem_singleton] at hr
            subst hr
            exact ⟨hsub p List.mem_cons_self, rfl⟩
        have hhb' : ∀ q ∈ p :: hb, (q, sel q) ∈ s.min ++ [(p, sel p)] := by
          intro q hq
          rcases List.mem_cons.mp hq with hq | hq
          · subst hq
            exact List.mem_append_right _ List.mem_cons_self
          · exact List.mem_append_left _ (hhb q hq)
        obtain ⟨h1, h2, h3, h4⟩ :=
          ih (p :: hb) _ s' (fun x hx => hsub x (List.mem_cons_of_mem _ hx)) hi' hmin' hhb' h
        refine ⟨h1, h2, ?_, fun r hr => h4 r (List.mem_append_left _ hr)⟩
        intro x hx
        rcases List.mem_cons.mp hx with hx | hx
        · subst hx
          exact h4 _ (List.mem_append_right _ List.mem_cons_self)
        · exact h3 x hx

/-- the invariant of the reverse-postorder loop; `done` is the processed suffix of postorder -/
structure LoopInv (gc : Graph) (sel : Nat → Nat) (base : List Nat) (done : List Node)
    (s : ReqSt) : Prop where
  hv : HvInv gc s
  sel_done : ∀ x ∈ done, x.2 ≠ 0 → sel x.1 = x.2 → x ∈ s.hv
  min_sel : ∀ r ∈ s.min, r.2 = sel r.1
  added_done : ∀ r ∈ s.min, r.1 ∉ base → r ∈ done ∧ r.2 ≠ 0
  indep : ∀ r ∈ s.min, r.1 ∉ base → ∀ r' ∈ s.min, r' ≠ r → ¬ Reach gc [r'] r

theorem cut_main (g : Graph) (main : Node) : cut g main main = [] := by
  simp [cut]

theorem reqLoop_spec (g : Graph) (main : Node) (list : List Node) (f : Nat) (sel : Nat → Nat)
    (base : List Nat) (d : DfsSt) (hd : TopInv (cut g main) main list d)
    (hls : ∀ n ∈ list, n.2 ≠ 0 ∧ sel n.1 = n.2) :
    ∀ (ms done : List Node) (s s' : ReqSt), d.post = ms.reverse ++ done →
      LoopInv (cut g main) sel base done s →
      reqLoop (cut g main) f sel ms s = some s' → LoopInv (cut g main) sel base d.post s' := by
  intro ms
  induction ms with
  | nil =>
    intro done s s' hp hi h
    simp only [reqLoop, Option.some.injEq] at h
    subst h
    simp only [List.reverse_nil, List.nil_append] at hp
    rw [hp]; exact hi
  | cons m ms ih =>
    intro done s s' hp hi h
    have hp' : d.post = ms.reverse ++ (m :: done) := by
      rw [hp, List.reverse_cons, List.append_assoc]; rfl
    -- the state is unchanged: `m` joins the processed suffix
    have skip : (m.2 ≠ 0 → sel m.1 = m.2 → m ∈ s.hv) →
        LoopInv (cut g main) sel base (m :: done) s := by
      intro hm
      refine ⟨hi.hv, ?_, hi.min_sel, ?_, hi.indep⟩
      · intro x hx h0 hs
        rcases List.mem_cons.mp hx with hx | hx
        · subst hx; exact hm h0 hs
        · exact hi.sel_done x hx h0 hs
      · intro r hr hb
        exact ⟨List.mem_cons_of_mem _ (hi.added_done r hr hb).1, (hi.added_done r hr hb).2⟩
    unfold reqLoop at h
    by_cases hold : m.2 = 0 ∨ sel m.1 ≠ m.2
    · rw [if_pos hold] at h
      refine ih (m :: done) s s' hp' (skip ?_) h
      intro h0 hs
      rcases hold with h1 | h1
      · exact absurd h1 h0
      · exact absurd hs h1
    · rw [if_neg hold] at h
      have hm0 : m.2 ≠ 0 := fun h0 => hold (Or.inl h0)
      have hmsel : sel m.1 = m.2 := by
        by_cases hq : sel m.1 = m.2
        · exact hq
        · exact absurd (Or.inr hq) hold
      by_cases hc : s.hv.contains m = true
      · rw [if_pos hc] at h
        have hmin : m ∈ s.hv := by simpa using hc
        exact ih (m :: done) s s' hp' (skip fun _ _ => hmin) h
      · rw [if_neg hc] at h
        have hmnot : m ∉ s.hv := by simpa using hc
        cases hmk : mark (cut g main) f m s.hv with
        | none => rw [hmk] at h; cases h
        | some hv' =>
          rw [hmk] at h
          obtain ⟨hi', hmono, hmin'⟩ := hv_step (cut g main) f m s hv' hi.hv hmk
          refine ih (m :: done) _ s' hp' ?_ h
          -- `m` is the root of its depth-first tree
          have hmpost : m ∈ d.post := by rw [hp']; simp
          obtain ⟨pre, rr, suf, hsplit, hrr, hxin, hreach, hcl⟩ := hd.cover m hmpost
          have hroot : pre = ms.reverse ∧ suf = done ∧ rr = m := by
            rcases hxin with hin | heq
            · exfalso
              obtain ⟨p1, p2, hpre⟩ := List.append_of_mem hin
              have e1 : d.post = p1 ++ m :: (p2 ++ rr :: suf) := by
                rw [hsplit, hpre]; simp
              have hn : (p1 ++ m :: (p2 ++ rr :: suf)).Nodup := by rw [← e1]; exact hd.nodup
              have := nodup_split_unique m p1 ms.reverse _ done hn (by rw [← e1, hp'])
              have hrrdone : rr ∈ done := by rw [← this.2]; simp
              have hrrhv : rr ∈ s.hv :=
                hi.sel_done rr hrrdone (hls rr hrr).1 (hls rr hrr).2
              exact hmnot (closed_reach _ s.hv hi.hv.closed rr hrrhv m hreach)
            · subst heq
              have hn : (pre ++ m :: suf).Nodup := by rw [← hsplit]; exact hd.nodup
              have := nodup_split_unique m pre ms.reverse suf done hn (by rw [← hsplit, hp'])
              exact ⟨this.1, this.2, rfl⟩
          obtain ⟨hpre, hsuf, hrm⟩ := hroot
          subst hrm
          -- everything `m` reaches is `main` or in its prefix
          have hreachm : ∀ n, Reach (cut g main) [rr] n → n ∈ main :: (pre ++ [rr]) := by
            refine closed_reach _ (main :: (pre ++ [rr])) ?_ rr ?_
            · intro n hn k hk
              rcases List.mem_cons.mp hn with hn | hn
              · subst hn
                rw [cut_main] at hk
                cases hk
              · rcases hcl n hn k hk with h | h
                · subst h; exact List.mem_cons_self
                · exact List.mem_cons_of_mem _ h
            · simp
          have hnodup : (pre ++ rr :: suf).Nodup := by rw [← hsplit]; exact hd.nodup
          refine ⟨hi', ?_, ?_, ?_, ?_⟩
          · intro x hx h0 hs
            rcases List.mem_cons.mp hx with hx | hx
            · subst hx; exact hmin'
            · exact hmono x (hi.sel_done x hx h0 hs)
          · intro r hr
            rcases List.mem_append.mp hr with hr | hr
            · exact hi.min_sel r hr
            · rw [List.mem_singleton] at hr
              subst hr
              exact hmsel.symm
          · intro r hr hb
            rcases List.mem_append.mp hr with hr | hr
            · exact ⟨List.mem_cons_of_mem _ (hi.added_done r hr hb).1, (hi.added_done r hr hb).2⟩
            · rw [List.mem_singleton] at hr
              subst hr
              exact ⟨List.mem_cons_self, hm0⟩
          · intro r hr0 hb r' hr0' hne hre
            rcases List.mem_append.mp hr0 with hr | hr
            · rcases List.mem_append.mp hr0' with hr' | hr'
              · exact hi.indep r hr hb r' hr' hne hre
              · rw [List.mem_singleton] at hr'
                clear hr0 hr0'
                subst hr'
                -- a later root cannot reach an earlier one
                have hrdone : r ∈ done := (hi.added_done r hr hb).1
                have hrpost : r ∈ d.post := by rw [hp]; exact List.mem_append_right _ hrdone
                have hmem := hreachm r hre
                rcases List.mem_cons.mp hmem with h | h
                · subst h; exact hd.main_notin hrpost
                · rcases List.mem_append.mp h with h | h
                  · rw [← hsuf] at hrdone
                    rw [List.nodup_append] at hnodup
                    exact hnodup.2.2 r h r (List.mem_cons_of_mem _ hrdone) rfl
                  · rw [List.mem_singleton] at h
                    exact hne h.symm
            · rw [List.mem_singleton] at hr
              clear hr0
              subst hr
              rcases List.mem_append.mp hr0' with hr' | hr'
              · exact hmnot (closed_reach _ s.hv hi.hv.closed r' (hi.hv.min_in r' hr') r hre)
              · rw [List.mem_singleton] at hr'
                exact hne hr'

/-! ### the three phases together -/

/-- everything `Req` guarantees about `min` (before the final sort, which permutes it) -/
structure ReqOut (g : Graph) (main : Node) (base : List Nat) (sel : Nat → Nat)
    (list min : List Node) : Prop where
  /-- the paths of `base` are listed -/
  base_in : ∀ p ∈ base, (p, sel p) ∈ min
  /-- only selected versions are listed -/
  min_sel : ∀ r ∈ min, r.2 = sel r.1
  /-- a listed module outside `base` is a real version met by the traversal -/
  min_real : ∀ r ∈ min, r.1 ∉ base → r.2 ≠ 0 ∧ r ≠ main ∧ ∃ rr ∈ list, Reach (cut g main) [rr] r
  /-- every build-list entry is implied by a listed module -/
  covers : ∀ n ∈ list, n = main ∨ ∃ r ∈ min, Reach (cut g main) [r] n
  /-- no listed module outside `base` is implied by another listed module -/
  indep : ∀ r ∈ min, r.1 ∉ base → ∀ r' ∈ min, r' ≠ r → ¬ Reach (cut g main) [r'] r

theorem reqCore_out (g : Graph) (fuel : Nat) (main : Node) (base : List Nat)
    (list min : List Node)
    (hls : ∀ n ∈ list, n.2 ≠ 0 ∧ listVersion list n.1 = n.2)
    (h : reqCore g fuel main base list = some min) :
    ReqOut g main base (listVersion list) list min := by
  unfold reqCore at h
  simp only at h
  cases h1 : foldOpt (fun s m => walk (cut g main) fuel m s) { cache := [main], post := [] } list with
  | none => rw [h1] at h; cases h
  | some d =>
    rw [h1] at h
    simp only at h
    cases h2 : reqBase (cut g main) fuel (listVersion list) base [] { hv := [], min := [] } with
    | none => rw [h2] at h; cases h
    | some s0 =>
      rw [h2] at h
      simp only at h
      cases h3 : reqLoop (cut g main) fuel (listVersion list) d.post.reverse s0 with
      | none => rw [h3] at h; cases h
      | some s1 =>
        rw [h3] at h
        simp only [Option.some.injEq] at h
        subst h
        obtain ⟨hd, hlistpost, _⟩ := top_fold (cut g main) main list fuel list _ d
          (fun _ h => h) (topInv_init _ main list) h1
        obtain ⟨hb1, hb2, hb3, _⟩ := reqBase_spec (cut g main) fuel (listVersion list) base
          base [] _ s0 (fun _ h => h) ⟨by simp, by simp, by simp⟩ (by simp) (by simp) h2
        have hl0 : LoopInv (cut g main) (listVersion list) base [] s0 :=
          ⟨hb1, by simp, fun r hr => (hb2 r hr).2,
            fun r hr hb => absurd (hb2 r hr).1 hb, fun r hr hb => absurd (hb2 r hr).1 hb⟩
        have hl := reqLoop_spec g main list fuel (listVersion list) base d hd hls
          d.post.reverse [] s0 s1 (by simp) hl0 h3
        -- the base elements survive the loop
        have hmono : ∀ (ms : List Node) (s s' : ReqSt),
            reqLoop (cut g main) fuel (listVersion list) ms s = some s' →
            ∀ r ∈ s.min, r ∈ s'.min := by
          intro ms
          induction ms with
          | nil =>
            intro s s' h r hr
            simp only [reqLoop, Option.some.injEq] at h
            subst h; exact hr
          | cons m ms ih =>
            intro s s' h r hr
            unfold reqLoop at h
            split at h
            · exact ih s s' h r hr
            · split at h
              · exact ih s s' h r hr
              · cases hmk : mark (cut g main) fuel m s.hv with
                | none => rw [hmk] at h; cases h
                | some hv' =>
                  rw [hmk] at h
                  exact ih _ s' h r (List.mem_append_left _ hr)
        refine ⟨?_, hl.min_sel, ?_, ?_, hl.indep⟩
        · intro p hp
          exact hmono _ s0 s1 h3 _ (hb3 p hp)
        · intro r hr hb
          obtain ⟨hrd, hr0⟩ := hl.added_done r hr hb
          obtain ⟨pre, rr, suf, _, hrr, _, hreach, _⟩ := hd.cover r hrd
          refine ⟨hr0, ?_, rr, hrr, hreach⟩
          intro hmain
          subst hmain
          exact hd.main_notin hrd
        · intro n hn
          rcases hlistpost n hn with h | h
          · exact Or.inl h
          · exact Or.inr (hl.hv.gen n (hl.sel_done n h (hls n hn).1 (hls n hn).2))

/-! ### from `ReqOut` to build lists -/

theorem listVersion_eq (sel : Nat → Nat) (list : List Node) (h : IsBuildList sel list) :
    ∀ p, listVersion list p = sel p := by
  intro p
  unfold listVersion
  cases hf : list.find? (fun n => n.1 == p) with
  | none =>
    simp only
    by_cases h0 : sel p = 0
    · exact h0.symm
    · exfalso
      have hin : (p, sel p) ∈ list := (h (p, sel p)).mpr ⟨h0, rfl⟩
      have := List.find?_eq_none.mp hf (p, sel p) hin
      simp at this
  | some n =>
    simp only
    have hn : n ∈ list := List.mem_of_find?_eq_some hf
    have hp : n.1 = p := by
      have := List.find?_some hf
      simpa using this
    rw [← hp]
    exact ((h n).mp hn).2

theorem cut_sub_override (g : Graph) (main : Node) (l : List Node) :
    ∀ m n, n ∈ cut g main m → n ∈ override g main l m := by
  intro m n h
  unfold cut at h
  unfold override
  by_cases hm : m = main
  · rw [if_pos hm] at h; cases h
  · rw [if_neg hm] at h; rw [if_neg hm]; exact h

theorem cut_sub (g : Graph) (main : Node) : ∀ m n, n ∈ cut g main m → n ∈ g m := by
  intro m n h
  unfold cut at h
  by_cases hm : m = main
  · rw [if_pos hm] at h; cases h
  · rw [if_neg hm] at h; exact h

/-- reachability in a graph whose main module requires `l`: the main module, or something a
member of `l` reaches without passing through the main module -/
theorem reach_override (g : Graph) (main : Node) (l : List Node) :
    ∀ n, Reach (override g main l) [main] n →
      n = main ∨ ∃ r ∈ l, Reach (cut g main) [r] n := by
  intro n hn
  induction hn with
  | root h =>
    rw [List.mem_singleton] at h
    exact Or.inl h
  | @dep m n _ hmn ih =>
    by_cases hm : m = main
    · subst hm
      have : n ∈ l := by simpa [override] using hmn
      exact Or.inr ⟨n, this, Reach.root List.mem_cons_self⟩
    · rcases ih with h | ⟨r, hr, hre⟩
      · exact absurd h hm
      · refine Or.inr ⟨r, hr, Reach.dep hre ?_⟩
        have : n ∈ g m := by simpa [override, hm] using hmn
        simpa [cut, hm] using this

theorem reach_of_override (g : Graph) (main : Node) (l : List Node) (r n : Node) (hr : r ∈ l)
    (h : Reach (cut g main) [r] n) : Reach (override g main l) [main] n := by
  have h1 : Reach (override g main l) [r] n :=
    reach_mono _ _ [r] (cut_sub_override g main l) n h
  refine reach_trans _ [main] [r] ?_ n h1
  intro x hx
  rw [List.mem_singleton] at hx
  subst hx
  refine Reach.dep (Reach.root List.mem_cons_self) ?_
  simpa [override] using hr

/-- **Req is sufficient**: replacing the main module's requirements by `min` leaves the
selection (hence the build list) unchanged. -/
theorem req_sufficient (g : Graph) (fuel : Nat) (main : Node) (base : List Nat)
    (sel : Nat → Nat) (list min : List Node)
    (hsel : IsSel g [main] sel) (hbl : IsBuildList sel list)
    (hbase : ∀ p ∈ base, sel p ≠ 0)
    (h : reqCore g fuel main base list = some min) :
    IsSel (override g main min) [main] sel := by
  have hlv := listVersion_eq sel list hbl
  have hls : ∀ n ∈ list, n.2 ≠ 0 ∧ listVersion list n.1 = n.2 := by
    intro n hn
    have := (hbl n).mp hn
    exact ⟨this.1, by rw [hlv]; exact this.2.symm⟩
  have ho := reqCore_out g fuel main base list min hls h
  -- members of the build list are reachable in g
  have hlist_reach : ∀ n ∈ list, Reach g [main] n := by
    intro n hn
    have := (hbl n).mp hn
    rcases (hsel n.1).2 with h0 | h0
    · exact absurd (this.2.trans h0) this.1
    · rw [← this.2] at h0; exact h0
  have hmin_reach : ∀ r ∈ min, Reach g [main] r := by
    intro r hr
    by_cases hb : r.1 ∈ base
    · have h1 := ho.min_sel r hr
      rw [hlv] at h1
      rcases (hsel r.1).2 with h0 | h0
      · exact absurd h0 (hbase _ hb)
      · rw [← h1] at h0; exact h0
    · obtain ⟨_, _, rr, hrr, hre⟩ := ho.min_real r hr hb
      refine reach_trans g [main] [rr] ?_ r (reach_mono _ _ [rr] (cut_sub g main) r hre)
      intro x hx
      rw [List.mem_singleton] at hx
      subst hx
      exact hlist_reach x hrr
  have hsub : ∀ n, Reach (override g main min) [main] n → Reach g [main] n := by
    intro n hn
    rcases reach_override g main min n hn with h | ⟨r, hr, hre⟩
    · subst h; exact Reach.root List.mem_cons_self
    · refine reach_trans g [main] [r] ?_ n (reach_mono _ _ [r] (cut_sub g main) n hre)
      intro x hx
      rw [List.mem_singleton] at hx
      subst hx
      exact hmin_reach x hr
  intro p
  refine ⟨fun v hv => (hsel p).1 v (hsub _ hv), ?_⟩
  by_cases h0 : sel p = 0
  · exact Or.inl h0
  · right
    have hin : (p, sel p) ∈ list := (hbl (p, sel p)).mpr ⟨h0, rfl⟩
    rcases ho.covers _ hin with h | ⟨r, hr, hre⟩
    · rw [h]; exact Reach.root List.mem_cons_self
    · exact reach_of_override g main min r _ hr hre

/-- **Req is minimal**: a listed module whose path is not in `base` is not reachable any more
once it is dropped from the list … -/
theorem req_minimal_reach (g : Graph) (fuel : Nat) (main : Node) (base : List Nat)
    (sel : Nat → Nat) (list min : List Node) (hbl : IsBuildList sel list)
    (h : reqCore g fuel main base list = some min) (r : Node) (hr : r ∈ min)
    (hb : r.1 ∉ base) :
    ¬ Reach (override g main (min.filter fun x => x != r)) [main] r := by
  have hlv := listVersion_eq sel list hbl
  have hls : ∀ n ∈ list, n.2 ≠ 0 ∧ listVersion list n.1 = n.2 := by
    intro n hn
    have := (hbl n).mp hn
    exact ⟨this.1, by rw [hlv]; exact this.2.symm⟩
  have ho := reqCore_out g fuel main base list min hls h
  intro hre
  rcases reach_override g main _ r hre with h | ⟨r', hr', hre'⟩
  · exact (ho.min_real r hr hb).2.1 h
  · have hm := List.mem_filter.mp hr'
    have hne : r' ≠ r := by simpa using hm.2
    exact ho.indep r hr hb r' hm.1 hne hre'

/-- … hence the build list changes: the selection is no longer `sel`. -/
theorem req_minimal (g : Graph) (fuel : Nat) (main : Node) (base : List Nat)
    (sel : Nat → Nat) (list min : List Node) (hbl : IsBuildList sel list)
    (h : reqCore g fuel main base list = some min) (r : Node) (hr : r ∈ min)
    (hb : r.1 ∉ base) :
    ¬ IsSel (override g main (min.filter fun x => x != r)) [main] sel := by
  have hlv := listVersion_eq sel list hbl
  have hls : ∀ n ∈ list, n.2 ≠ 0 ∧ listVersion list n.1 = n.2 := by
    intro n hn
    have := (hbl n).mp hn
    exact ⟨this.1, by rw [hlv]; exact this.2.symm⟩
  have ho := reqCore_out g fuel main base list min hls h
  intro his
  have h1 := ho.min_sel r hr
  rw [hlv] at h1
  rcases (his r.1).2 with h0 | h0
  · exact (ho.min_real r hr hb).1 (h1.trans h0)
  · rw [← h1] at h0
    exact req_minimal_reach g fuel main base sel list min hbl h r hr hb h0

/-- `base` is honoured and only selected versions are listed -/
theorem req_base (g : Graph) (fuel : Nat) (main : Node) (base : List Nat)
    (sel : Nat → Nat) (list min : List Node) (hbl : IsBuildList sel list)
    (h : reqCore g fuel main base list = some min) :
    (∀ p ∈ base, (p, sel p) ∈ min) ∧ (∀ r ∈ min, r.2 = sel r.1) := by
  have hlv := listVersion_eq sel list hbl
  have hls : ∀ n ∈ list, n.2 ≠ 0 ∧ listVersion list n.1 = n.2 := by
    intro n hn
    have := (hbl n).mp hn
    exact ⟨this.1, by rw [hlv]; exact this.2.symm⟩
  have ho := reqCore_out g fuel main base list min hls h
  refine ⟨?_, ?_⟩
  · intro p hp
    have := ho.base_in p hp
    rw [hlv] at this; exact this
  · intro r hr
    have := ho.min_sel r hr
    rw [hlv] at this; exact this

end CueVerif.Mvs
