/-
C04: a (marked) disjunction with ARBITRARILY NESTED unmarked disjunctions inside its terms.

`default_nestedChain`: for `e = t1 | … | tn` where each term is `*`-marked or not and is,
below its mark, any mark-free expression (nested disjunctions, conjunctions of disjunctions,
any depth), the transcribed algorithm resolves exactly as the spec's pair built with D0–D2
and M0–M3: the default set is the union of the values of the marked terms.

Proof: all nested results are all-`maybeDefault` (`allMaybe_all`), so a term's result has the
shape `RShape m` (leaf: dm = maybe, odm = m; multi: dm = maybe, odm = m, nested all maybe);
the second loop of `crossProduct` is a fold of `appendDisjunct` over the flattened results
(`place_flat`), in which a leaf gets `combineDefault2(maybe, m, true, rightDrops)` and an
unrolled nested disjunct `combineDefault2(maybe, combineDefault(m, maybe), true, false)`
(the `false` of Issue #1304); both are isDefault exactly for the marked terms, because
`rightDrops` is false as soon as one marked term survives.  The `hasNonMaybe` demotion does
not touch isDefault.
-/
import CueVerif.Model.DisjFrag
import CueVerif.Proofs.DisjNested
namespace CueVerif.Disj
variable {V : Type} [DecidableEq V]
set_option linter.unusedSectionVars false

/-! ### the second loop of `crossProduct` as a fold of `appendDisjunct` -/

/-- the leaves one `doDisjunct` result contributes, with the modes `crossProduct` assigns -/
def flatR (ld rd : Bool) : R V → List (Leaf V)
  | .leaf l => [{ l with dm := combineDefault2 l.dm l.odm ld rd }]
  | .multi dm odm ds => ds.map fun x => { x with dm := combineDefault2 dm (combineDefault odm x.dm) ld false }

theorem unroll_flat (rdm rodm : Mode) (ld : Bool) (xs : List (Leaf V)) (acc : List (Leaf V) × Bool) :
    (unroll rdm rodm ld xs acc).1 =
      (xs.map fun x => { x with dm := combineDefault2 rdm (combineDefault rodm x.dm) ld false }).foldl
        appendDisjunct acc.1 := by
  induction xs generalizing acc with
  | nil => rfl
  | cons x xs ih =>
    obtain ⟨dst, hnm⟩ := acc
    unfold unroll
    rw [ih]
    rfl

theorem place_flat (ld rd : Bool) (rs : List (R V)) (acc : List (Leaf V) × Bool) :
    (rs.foldl (place ld rd) acc).1 = (rs.flatMap (flatR ld rd)).foldl appendDisjunct acc.1 := by
  induction rs generalizing acc with
  | nil => rfl
  | cons r rs ih =>
    simp only [List.foldl_cons, List.flatMap_cons, List.foldl_append]
    rw [ih]
    congr 1
    cases r with
    | leaf l => rfl
    | multi dm odm ds => exact unroll_flat dm odm ld ds acc

/-- a mode-only update that keeps isDefault-ness keeps both sets -/
theorem sets_map_mode (f : Leaf V → Leaf V) (hv : ∀ r, (f r).v = r.v)
    (hd : ∀ r, (f r).dm = .isDef ↔ r.dm = .isDef) (c : List (Leaf V)) :
    valsP (c.map f) = valsP c ∧ defsP (c.map f) = defsP c := by
  constructor
  · funext x; apply propext
    constructor
    · rintro ⟨q, hq, rfl⟩
      obtain ⟨r, hr, rfl⟩ := List.mem_map.1 hq
      exact ⟨r, hr, (hv r).symm⟩
    · rintro ⟨r, hr, rfl⟩
      exact ⟨f r, List.mem_map.2 ⟨r, hr, rfl⟩, hv r⟩
  · funext x; apply propext
    constructor
    · rintro ⟨q, hq, rfl, hdm⟩
      obtain ⟨r, hr, rfl⟩ := List.mem_map.1 hq
      exact ⟨r, hr, (hv r).symm, (hd r).1 hdm⟩
    · rintro ⟨r, hr, rfl, hdm⟩
      exact ⟨f r, List.mem_map.2 ⟨r, hr, rfl⟩, hv r, (hd r).2 hdm⟩

/-- `crossProduct` with a single left operand that carries no default: value and default
sets of the result in terms of the flattened term results -/
theorem crossProduct_single (p : Leaf V) (hp1 : p.dm = .maybe) (hp2 : p.odm = .maybe)
    (rs : List (R V)) :
    let rd := !(rs.any fun r => r.odm == .isDef)
    (∀ x, valsP (crossProduct [p] (fun _ => rs)) x ↔ ∃ l ∈ rs.flatMap (flatR true rd), l.v = x) ∧
    (∀ x, defsP (crossProduct [p] (fun _ => rs)) x ↔
      ∃ l ∈ rs.flatMap (flatR true rd), l.v = x ∧ l.dm = .isDef) := by
  intro rd
  have hld : (!([(p, rs)].any fun pr => !pr.2.isEmpty && (pr.1.dm == .isDef || pr.1.odm == .isDef))) = true := by
    simp [hp1, hp2]
  have hrd : (!([(p, rs)].any fun pr => pr.2.any fun r => r.odm == .isDef)) = rd := by
    simp [rd]
  unfold crossProduct
  simp only [List.map_cons, List.map_nil, hld, hrd, List.flatMap_cons, List.flatMap_nil,
    List.append_nil]
  obtain ⟨f1, f2, _, _⟩ := fold_AD (rs.flatMap (flatR true rd)) ([] : List (Leaf V))
  have hpf := place_flat true rd rs ([], false)
  have hdem := sets_map_mode (fun r : Leaf V => if r.dm = .maybe then { r with dm := .notDef } else r)
    (by intro r; split <;> rfl)
    (by
      intro r
      by_cases hr : r.dm = .maybe
      · simp [hr]
      · simp [hr])
    (rs.foldl (place true rd) ([], false)).1
  have hbase_v : ∀ x, ¬ valsP ([] : List (Leaf V)) x := by rintro x ⟨q, hq, _⟩; cases hq
  have hbase_d : ∀ x, ¬ defsP ([] : List (Leaf V)) x := by rintro x ⟨q, hq, _⟩; cases hq
  constructor
  · intro x
    split
    · rw [hdem.1, hpf, f1]; simp [hbase_v]
    · rw [hpf, f1]; simp [hbase_v]
  · intro x
    split
    · rw [hdem.2, hpf, f2]; simp [hbase_d]
    · rw [hpf, f2]; simp [hbase_d]

/-! ### the shape of a term's result when everything nested is `maybeDefault` -/

def RShape (m : Mode) : R V → Prop
  | .leaf l => l.dm = .maybe ∧ l.odm = m
  | .multi dm odm ds => dm = .maybe ∧ odm = m ∧ AllMaybe ds

theorem rshape_doDisj (sc : Option V → Option V) (cj : List (Leaf V) → List (Leaf V))
    (hcj : ∀ c, AllMaybe c → AllMaybe (cj c)) (p : Leaf V) (hp : p.dm = .maybe) (m : Mode) :
    ∀ r ∈ doDisj sc cj p m, RShape m r := by
  unfold doDisj
  cases sc (some p.v) with
  | none => intro r hr; cases hr
  | some v =>
    simp only
    have hc := hcj [{ v := v, dm := p.dm, odm := m }]
      (by intro q hq; rw [List.mem_singleton] at hq; rw [hq]; exact hp)
    generalize cj [{ v := v, dm := p.dm, odm := m }] = L at hc
    match L, hc with
    | [], _ => intro r hr; cases hr
    | [x], hc =>
      intro r hr
      rw [List.mem_singleton] at hr; subst hr
      exact ⟨hc x (List.mem_cons_self ..), rfl⟩
    | x :: y :: t, hc =>
      intro r hr
      rw [List.mem_singleton] at hr; subst hr
      exact ⟨hp, rfl, hc⟩

theorem rshape_odm (m : Mode) (r : R V) (h : RShape m r) : r.odm = m := by
  cases r with
  | leaf l => exact h.2
  | multi dm odm ds => exact h.2.1

/-- the leaves a shaped result contributes: their values are the result's values; they are
isDefault iff the term is marked (given that `rightDrops` is false when a marked term is there) -/
theorem flatR_shape (m : Mode) (rd : Bool) (hrd : m = .isDef → rd = false) (r : R V) (h : RShape m r) :
    (∀ x, (∃ l ∈ flatR true rd r, l.v = x) ↔ x ∈ r.vals) ∧
    (∀ l ∈ flatR true rd r, (l.dm = .isDef ↔ m = .isDef)) := by
  cases r with
  | leaf l =>
    obtain ⟨h1, h2⟩ := h
    constructor
    · intro x; simp [flatR, R.vals, eq_comm]
    · intro l' hl'
      simp only [flatR, List.mem_singleton] at hl'
      subst hl'
      simp only [h1, h2]
      cases m with
      | isDef => rw [hrd rfl]; decide
      | maybe => cases rd <;> decide
      | notDef => cases rd <;> decide
  | multi dm odm ds =>
    obtain ⟨h1, h2, h3⟩ := h
    subst h1; subst h2
    constructor
    · intro x
      simp only [flatR, R.vals, List.mem_map]
      constructor
      · rintro ⟨l, ⟨q, hq, rfl⟩, rfl⟩; exact ⟨q, hq, rfl⟩
      · rintro ⟨q, hq, rfl⟩; exact ⟨_, ⟨q, hq, rfl⟩, rfl⟩
    · intro l' hl'
      simp only [flatR, List.mem_map] at hl'
      obtain ⟨q, hq, rfl⟩ := hl'
      simp only [h3 q hq]
      cases odm <;> decide

/-! ### terms of a mark-free chain -/

theorem tms_markfree (e : Expr V) (mk : Bool) (h : e.mfChain = true) :
    ∀ mt ∈ tms e mk, mt.2.hasAnyMark = false := by
  induction e generalizing mk with
  | atom a => intro mt hm; simp [tms] at hm; subst hm; rfl
  | and l r _ _ =>
    intro mt hm; simp [tms] at hm; subst hm
    simpa [Expr.mfChain] using h
  | paren e _ =>
    intro mt hm; simp [tms] at hm; subst hm
    simpa [Expr.mfChain] using h
  | mark e ih => exact ih true h
  | or l r ihl ihr =>
    simp only [Expr.mfChain, Bool.and_eq_true] at h
    intro mt hm; simp only [tms, List.mem_append] at hm
    rcases hm with hm | hm
    · exact ihl mk h.1 mt hm
    · exact ihr mk h.2 mt hm

theorem mode_isDef (hd mk : Bool) : mode hd mk = .isDef ↔ (hd = true ∧ mk = true) := by
  cases hd <;> cases mk <;> decide

/-- model side: value set and default set of a nested chain evaluated at a left operand
without default -/
theorem chain_sets (S : Sl V) (h : Laws S) (l r : Expr V) (hf : (Expr.or l r).mfChain = true)
    (p : Leaf V) (hp1 : p.dm = .maybe) (hp2 : p.odm = .maybe) :
    (∀ y, valsP ((sem S (.or l r)).conj [p]) y ↔
      ∃ mt ∈ tms (.or l r) false, ∃ x ∈ (specPair S mt.2).v, S.meet p.v x = some y) ∧
    (∀ y, defsP ((sem S (.or l r)).conj [p]) y ↔
      ∃ mt ∈ tms (.or l r) false, mt.1 = true ∧ ∃ x ∈ (specPair S mt.2).v, S.meet p.v x = some y) := by
  let ts := tms (.or l r) false
  let hd := (Expr.or l r).chainMarked
  let rs := ts.flatMap (termR S hd p)
  have e0 : (sem S (.or l r)).conj [p] = crossProduct [p] (fun _ => rs) := by
    have e1 : (sem S (.or l r)).conj [p] = crossProduct [p] (fun q =>
        (sem S l).terms ((sem S l).hasMark || (sem S r).hasMark) false q ++
        (sem S r).terms ((sem S l).hasMark || (sem S r).hasMark) false q) := rfl
    rw [e1]
    have e2 : ∀ q, (sem S l).terms ((sem S l).hasMark || (sem S r).hasMark) false q ++
        (sem S r).terms ((sem S l).hasMark || (sem S r).hasMark) false q =
        ts.flatMap (termR S hd q) := by
      intro q
      rw [terms_eq, terms_eq, hasMark_eq, hasMark_eq]
      simp [ts, hd, tms, Expr.chainMarked]
    simp only [e2]
    unfold crossProduct
    simp only [List.map_cons, List.map_nil]
    rfl
  have hmf := tms_markfree (.or l r) false hf
  have hany : ts.any (·.1) = hd := by
    have := tms_any (.or l r) false
    simpa [ts, hd] using this
  -- every result has the shape of its term's mode
  have hshape : ∀ mt ∈ ts, ∀ x ∈ termR S hd p mt, RShape (mode hd mt.1) x := by
    intro mt hmt x hx
    exact rshape_doDisj _ _ (allMaybe_all S mt.2 (hmf mt hmt)).conj p hp1 _ x hx
  have hrd : ∀ mt ∈ ts, ∀ x ∈ termR S hd p mt, mode hd mt.1 = .isDef →
      (!(rs.any fun r => r.odm == .isDef)) = false := by
    intro mt hmt x hx hm
    rw [Bool.not_eq_false', List.any_eq_true]
    refine ⟨x, List.mem_flatMap.2 ⟨mt, hmt, hx⟩, ?_⟩
    rw [rshape_odm _ x (hshape mt hmt x hx), hm]; rfl
  obtain ⟨c1, c2⟩ := crossProduct_single p hp1 hp2 rs
  rw [e0]
  constructor
  · intro y
    rw [c1]
    constructor
    · rintro ⟨lf, hlf, rfl⟩
      obtain ⟨x, hx, hlx⟩ := List.mem_flatMap.1 hlf
      obtain ⟨mt, hmt, hxm⟩ := List.mem_flatMap.1 hx
      have hs := flatR_shape _ _ (hrd mt hmt x hxm) x (hshape mt hmt x hxm)
      have hv : lf.v ∈ x.vals := (hs.1 lf.v).1 ⟨lf, hlx, rfl⟩
      have : lf.v ∈ rvals (termR S hd p mt) := by
        unfold rvals; exact List.mem_flatMap.2 ⟨x, hxm, hv⟩
      exact ⟨mt, hmt, (doDisj_values S h mt.2 p _ lf.v).1 this⟩
    · rintro ⟨mt, hmt, hx⟩
      have : y ∈ rvals (termR S hd p mt) := (doDisj_values S h mt.2 p _ y).2 hx
      unfold rvals at this
      obtain ⟨x, hxm, hv⟩ := List.mem_flatMap.1 this
      have hs := flatR_shape _ _ (hrd mt hmt x hxm) x (hshape mt hmt x hxm)
      obtain ⟨lf, hlf, hlv⟩ := (hs.1 y).2 hv
      exact ⟨lf, List.mem_flatMap.2 ⟨x, List.mem_flatMap.2 ⟨mt, hmt, hxm⟩, hlf⟩, hlv⟩
  · intro y
    rw [c2]
    constructor
    · rintro ⟨lf, hlf, rfl, hdm⟩
      obtain ⟨x, hx, hlx⟩ := List.mem_flatMap.1 hlf
      obtain ⟨mt, hmt, hxm⟩ := List.mem_flatMap.1 hx
      have hs := flatR_shape _ _ (hrd mt hmt x hxm) x (hshape mt hmt x hxm)
      have hv : lf.v ∈ x.vals := (hs.1 lf.v).1 ⟨lf, hlx, rfl⟩
      have hm : mode hd mt.1 = .isDef := (hs.2 lf hlx).1 hdm
      have : lf.v ∈ rvals (termR S hd p mt) := by
        unfold rvals; exact List.mem_flatMap.2 ⟨x, hxm, hv⟩
      exact ⟨mt, hmt, ((mode_isDef _ _).1 hm).2, (doDisj_values S h mt.2 p _ lf.v).1 this⟩
    · rintro ⟨mt, hmt, hmk, hx⟩
      have : y ∈ rvals (termR S hd p mt) := (doDisj_values S h mt.2 p _ y).2 hx
      unfold rvals at this
      obtain ⟨x, hxm, hv⟩ := List.mem_flatMap.1 this
      have hs := flatR_shape _ _ (hrd mt hmt x hxm) x (hshape mt hmt x hxm)
      obtain ⟨lf, hlf, hlv⟩ := (hs.1 y).2 hv
      have hhd : hd = true := by
        rw [← hany, List.any_eq_true]; exact ⟨mt, hmt, hmk⟩
      have hm : mode hd mt.1 = .isDef := (mode_isDef _ _).2 ⟨hhd, hmk⟩
      exact ⟨lf, List.mem_flatMap.2 ⟨x, List.mem_flatMap.2 ⟨mt, hmt, hxm⟩, hlf⟩, hlv,
        (hs.2 lf hlf).2 hm⟩

/-! ### spec side -/

theorem chain_spec_nested (S : Sl V) (l r : Expr V) (hf : (Expr.or l r).mfChain = true) :
    (∀ y, y ∈ (specPair S (.or l r)).v ↔ ∃ mt ∈ tms (.or l r) false, y ∈ (specPair S mt.2).v) ∧
    (∀ y, y ∈ (specPair S (.or l r)).d ↔
      ∃ mt ∈ tms (.or l r) false, mt.1 = true ∧ y ∈ (specPair S mt.2).v) := by
  have hmf := tms_markfree (.or l r) false hf
  have e0 : specPair S (.or l r) =
      disjPair ((tms (.or l r) false).map fun mt => (mt.1, specPair S mt.2)) := by
    show disjPair ((specSem S l).terms false ++ (specSem S r).terms false) = _
    rw [spec_terms_eq, spec_terms_eq]; simp [tms]
  rw [e0]
  generalize tms (.or l r) false = ts at hmf
  constructor
  · intro y
    rw [mem_disjPair_v]
    constructor
    · rintro ⟨t, ht, hy⟩
      obtain ⟨mt, hmt, rfl⟩ := List.mem_map.1 ht
      exact ⟨mt, hmt, hy⟩
    · rintro ⟨mt, hmt, hy⟩
      exact ⟨_, List.mem_map.2 ⟨mt, hmt, rfl⟩, hy⟩
  · intro y
    unfold disjPair
    simp only
    rw [(fold_D _ _ _ y).2]
    simp only [List.not_mem_nil, false_or]
    constructor
    · rintro ⟨t, ht, hy⟩
      obtain ⟨mt, hmt, rfl⟩ := List.mem_map.1 ht
      have hd0 : (specPair S mt.2).d = [] := (spec_unmarked S mt.2 (hmf mt hmt)).d
      split at hy
      · cases hb : mt.1 with
        | true => simp [M, hb, hd0] at hy; exact ⟨mt, hmt, hb, hy⟩
        | false => simp [M, hb] at hy
      · rw [hd0] at hy; cases hy
    · rintro ⟨mt, hmt, hmk, hy⟩
      refine ⟨_, List.mem_map.2 ⟨mt, hmt, rfl⟩, ?_⟩
      have hd0 : (specPair S mt.2).d = [] := (spec_unmarked S mt.2 (hmf mt hmt)).d
      have hany : (List.map (fun mt => (mt.1, specPair S mt.2)) ts).any (·.1) = true := by
        rw [List.any_eq_true]
        exact ⟨_, List.mem_map.2 ⟨mt, hmt, rfl⟩, hmk⟩
      rw [if_pos hany]
      simp [M, hmk, hd0]; exact hy

/-- A disjunction — marked or not — with ARBITRARILY NESTED unmarked disjunctions inside its
terms resolves in the transcribed algorithm exactly as the spec's value-default pair. -/
theorem default_nestedChain (S : Sl V) (h : Laws S) (e : Expr V) (hf : e.NestedChain = true) :
    (eval S e).resolve = (specPair S e).resolve := by
  match e, hf with
  | .or l r, hf =>
    have hf' : (Expr.or l r).mfChain = true := hf
    rw [eval_resolve]
    have hsv : sv S (.or l r) = some S.top := rfl
    rw [hsv]
    simp only
    obtain ⟨m1, m2⟩ := chain_sets S h l r hf' ⟨S.top, .maybe, .maybe⟩ rfl rfl
    obtain ⟨s1, s2⟩ := chain_spec_nested S l r hf'
    obtain ⟨⟨k1, k2⟩, _⟩ := specPair_nodup S (.or l r)
    have hnd : (vals ((sem S (.or l r)).conj [⟨S.top, .maybe, .maybe⟩])).Nodup :=
      nodup_conj S _ _ (by simp [vals])
    rw [Pair.resolve_eq]
    refine resOf_congr hnd k1 ((List.filter_sublist.map _).nodup hnd) k2 ?_ ?_
    · rw [memP_vals]
      funext y; apply propext
      rw [m1 y]
      show _ ↔ y ∈ (specPair S (.or l r)).v
      rw [s1 y]
      simp only [h.top, Option.some.injEq]
      constructor
      · rintro ⟨mt, hmt, x, hx, rfl⟩; exact ⟨mt, hmt, hx⟩
      · rintro ⟨mt, hmt, hx⟩; exact ⟨mt, hmt, y, hx, rfl⟩
    · rw [memP_defs]
      funext y; apply propext
      rw [m2 y]
      show _ ↔ y ∈ (specPair S (.or l r)).d
      rw [s2 y]
      simp only [h.top, Option.some.injEq]
      constructor
      · rintro ⟨mt, hmt, hmk, x, hx, rfl⟩; exact ⟨mt, hmt, hmk, hx⟩
      · rintro ⟨mt, hmt, hmk, hx⟩; exact ⟨mt, hmt, hmk, y, hx, rfl⟩

end CueVerif.Disj
