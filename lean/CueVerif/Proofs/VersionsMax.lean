import CueVerif.Model.VersionsMax
import CueVerif.Proofs.Semver
/-!
`module.Versions.Max` meets the contract `mvs.Reqs.Max` states, and the comparison mvs derives
from it is: "none" below everything, "" (the main module) above everything, `semver.Compare`
in between — i.e. versions behave as ranks of a linear order, as the MVS model assumes, as
long as versions that compare equal are equal strings (canonical versions without build
metadata, which `module.NewVersion` enforces).
-/
namespace CueVerif.Semver

theorem versionsMax_mem (a b : Str) : versionsMax a b = a ∨ versionsMax a b = b := by
  unfold versionsMax
  split
  · exact Or.inr rfl
  · split
    · exact Or.inl rfl
    · split
      · exact Or.inl rfl
      · exact Or.inr rfl

/-- "For all versions v, Max(v, "none") must be v" -/
theorem versionsMax_none_right (v : Str) : versionsMax v noneStr = v := by
  unfold versionsMax
  by_cases h : v = noneStr
  · subst h; simp
  · have h1 : (v == noneStr) = false := by simpa using h
    have h2 : noneStr.isEmpty = false := by decide
    simp [h1, h2]

theorem versionsMax_none_left (v : Str) : versionsMax noneStr v = v := by
  unfold versionsMax
  simp

/-- "for the target passed as the first argument to MVS functions, Max(target, v) must be
target": the main module has version "" -/
theorem versionsMax_main_left (v : Str) : versionsMax [] v = [] := by
  unfold versionsMax
  by_cases h : v = []
  · subst h; simp
  · have h1 : v.isEmpty = false := by
      cases v with
      | nil => exact absurd rfl h
      | cons _ _ => rfl
    have h2 : (([] : Str) == noneStr) = false := by decide
    simp [h1, h2]

theorem versionsMax_main_right (v : Str) : versionsMax v [] = [] := by
  unfold versionsMax
  simp

/-- on ordinary versions `Max` is the maximum under `Compare` (ties: the second argument) -/
theorem versionsMax_ordinary (a b : Str) (ha : a ≠ noneStr) (ha' : a ≠ []) (hb : b ≠ noneStr)
    (hb' : b ≠ []) : versionsMax a b = if compare' a b = .gt then a else b := by
  unfold versionsMax
  have h1 : (a == noneStr) = false := by simpa using ha
  have h2 : (b == noneStr) = false := by simpa using hb
  have h3 : a.isEmpty = false := by
    cases a with
    | nil => exact absurd rfl ha'
    | cons _ _ => rfl
  have h4 : b.isEmpty = false := by
    cases b with
    | nil => exact absurd rfl hb'
    | cons _ _ => rfl
  simp only [h1, h2, h3, h4, Bool.or_self, Bool.false_eq_true, if_false, beq_iff_eq]

/-- the comparison mvs derives is `semver.Compare` on ordinary versions that are equal
whenever they compare equal -/
theorem mvsCmp_ordinary (a b : Str) (ha : a ≠ noneStr) (ha' : a ≠ []) (hb : b ≠ noneStr)
    (hb' : b ≠ []) (hcanon : compare' a b = .eq → a = b) : mvsCmp a b = compare' a b := by
  unfold mvsCmp
  rw [versionsMax_ordinary a b ha ha' hb hb', versionsMax_ordinary b a hb hb' ha ha']
  have hsw := compare'_swap a b
  cases hc : compare' a b with
  | lt =>
    rw [hc] at hsw
    have hne : b ≠ a := by
      intro e; subst e
      rw [compare'_refl] at hc; cases hc
    simp [hne]
  | eq =>
    rw [hc] at hsw
    have := hcanon hc
    subst this
    simp [hsw]
  | gt =>
    rw [hc] at hsw
    have hne : a ≠ b := by
      intro e; subst e
      rw [compare'_refl] at hc; cases hc
    simp [hsw, hne]

/-- "none" is below every other version -/
theorem mvsCmp_none (v : Str) (hv : v ≠ noneStr) :
    mvsCmp v noneStr = .gt ∧ mvsCmp noneStr v = .lt := by
  unfold mvsCmp
  rw [versionsMax_none_right, versionsMax_none_left]
  have h1 : (v != noneStr) = true := by simpa using hv
  have h2 : (v != v) = false := by simp
  simp [h1]

/-- the main module's version "" is above every other version -/
theorem mvsCmp_main (v : Str) (hv : v ≠ []) :
    mvsCmp [] v = .gt ∧ mvsCmp v [] = .lt := by
  unfold mvsCmp
  rw [versionsMax_main_left, versionsMax_main_right]
  have h1 : (([] : Str) != v) = true := by
    have : ([] : Str) ≠ v := fun e => hv e.symm
    simpa using this
  simp [h1]

end CueVerif.Semver
