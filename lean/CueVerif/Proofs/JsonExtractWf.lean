/-
C10 helper lemmas, reading direction: every parse tree the reference parser returns has
well-formed tokens (`parseTree_wf`), so the well-formedness part of `JTree.Readable` is free for
parsed texts: `extract_text_full` needs only the region `JTree.InRegion`.  Core Lean only.
-/
import CueVerif.Proofs.JsonExtract
import CueVerif.Proofs.JsonDocFuelEnough
import CueVerif.Proofs.JsonOut
namespace CueVerif.Json
open CueVerif CueVerif.Quote

/-! ### what the parser returns is well-formed -/

theorem wfItems_cons {i : JItem} {t : List JItem} (hi : i.wf = true) (ht : WfItems t) : WfItems (i :: t) := by
  intro x hx
  rcases List.mem_cons.mp hx with h | h
  · rw [h]; exact hi
  · exact ht x h

theorem pStrBody_wf : ∀ (f : Nat) (s : Bytes) (is : List JItem) (r : Bytes),
    pStrBody f s = some (is, r) → WfItems is
  | 0, s, is, r, h => by simp [pStrBody] at h
  | f + 1, [], is, r, h => by simp [pStrBody] at h
  | f + 1, c :: rest, is, r, h => by
    simp only [pStrBody] at h
    split at h
    · simp only [Option.some.injEq, Prod.mk.injEq] at h; rw [← h.1]; intro x hx; cases hx
    · split at h
      · split at h
        · next a b c' d rest' =>
          split at h
          · next hhex =>
            obtain ⟨as, r', h1, h2⟩ := consFst_some h
            simp only [Prod.mk.injEq] at h2; rw [h2.1]
            exact wfItems_cons (by simpa [JItem.wf] using hhex) (pStrBody_wf f _ as r' h1)
          · cases h
        · split at h
          · obtain ⟨as, r', h1, h2⟩ := consFst_some h
            simp only [Prod.mk.injEq] at h2; rw [h2.1]
            exact wfItems_cons rfl (pStrBody_wf f _ as r' h1)
          · cases h
        · cases h
      · split at h
        · cases h
        · next hq hb h20 =>
          split at h
          · next h80 =>
            obtain ⟨as, r', h1, h2⟩ := consFst_some h
            simp only [Prod.mk.injEq] at h2; rw [h2.1]
            refine wfItems_cons ?_ (pStrBody_wf f _ as r' h1)
            have e1 : c ≠ 0x22 := by simpa using hq
            have e2 : c ≠ 0x5C := by simpa using hb
            simp only [JItem.wf, isScalar, Bool.and_eq_true, decide_eq_true_eq, Bool.not_eq_true',
              Bool.and_eq_false_iff, decide_eq_false_iff_not, bne_iff_ne, ne_eq]
            omega
          · split at h
            · cases h
            · next hw =>
              obtain ⟨as, r', h1, h2⟩ := consFst_some h
              simp only [Prod.mk.injEq] at h2; rw [h2.1]
              refine wfItems_cons ?_ (pStrBody_wf f _ as r' h1)
              have hd := encodeRune_decodeRune (c :: rest) (by omega)
              simp only [JItem.wf, isScalar, Bool.and_eq_true, decide_eq_true_eq, Bool.not_eq_true',
                Bool.and_eq_false_iff, decide_eq_false_iff_not, bne_iff_ne, ne_eq]
              omega

theorem span_loop_all (p : Nat → Bool) : ∀ (l acc : Bytes), acc.all p = true →
    (List.span.loop p l acc).1.all p = true
  | [], acc, h => by simpa [List.span.loop] using h
  | a :: l, acc, h => by
    simp only [List.span.loop]
    split
    · next hp => exact span_loop_all p l (a :: acc) (by simp [hp, h])
    · simpa using h

theorem spanDigits_all (u : Bytes) : allDigits (spanDigits u).1 = true := by
  have := span_loop_all isDigit u [] rfl
  simpa [spanDigits, List.span, allDigits] using this

theorem pInt_wf (u i r1 : Bytes) (h : pInt u = some (i, r1)) :
    i ≠ [] ∧ allDigits i = true ∧ (i = [48] ∨ i.head? ≠ some 48) := by
  have ha := spanDigits_all u
  unfold pInt at h
  split at h
  · cases h
  · simp only [Option.some.injEq, Prod.mk.injEq] at h
    rw [← h.1]; exact ⟨by simp, by decide, Or.inl rfl⟩
  · next int r0 hne hz hs =>
    simp only [Option.some.injEq, Prod.mk.injEq] at h
    rw [hs] at ha; rw [← h.1]
    refine ⟨fun e => hne e, ha, ?_⟩
    cases int with
    | nil => exact (hne rfl).elim
    | cons d ds =>
      right
      intro e
      simp only [List.head?_cons, Option.some.injEq] at e
      exact hz ds (by rw [e])

theorem pFrac_wf (r1 : Bytes) (fr : Option Bytes) (r2 : Bytes) (h : pFrac r1 = some (fr, r2)) :
    fracWf fr = true := by
  unfold pFrac at h
  split at h
  · next r =>
    have ha := spanDigits_all r
    split at h
    · cases h
    · next f r2' hne hs =>
      simp only [Option.some.injEq, Prod.mk.injEq] at h
      rw [hs] at ha; rw [← h.1]
      simp only [fracWf, Bool.and_eq_true, Bool.not_eq_true', List.isEmpty_eq_false_iff]
      exact ⟨fun e => hne e, ha⟩
  · simp only [Option.some.injEq, Prod.mk.injEq] at h; rw [← h.1]; rfl

theorem pExp_wf (r2 : Bytes) (e : Option JExp) (r3 : Bytes) (h : pExp r2 = some (e, r3)) :
    expWf e = true := by
  unfold pExp at h
  split at h
  · simp only [Option.some.injEq, Prod.mk.injEq] at h; rw [← h.1]; rfl
  · next c r =>
    split at h
    · have ha := spanDigits_all (pSign r).2
      split at h
      · cases h
      · next ds r4 hne hsp =>
        simp only [Option.some.injEq, Prod.mk.injEq] at h
        rw [hsp] at ha; rw [← h.1]
        simp only [expWf, JExp.wf, Bool.and_eq_true, Bool.not_eq_true', List.isEmpty_eq_false_iff]
        exact ⟨fun e => hne e, ha⟩
    · simp only [Option.some.injEq, Prod.mk.injEq] at h; rw [← h.1]; rfl

theorem pNumber_wf (s : Bytes) (n : JNum) (r : Bytes) (h : pNumber s = some (n, r)) : n.wf = true := by
  unfold pNumber at h
  split at h
  · cases h
  · next i r1 hi =>
    split at h
    · cases h
    · next fr r2 hf =>
      split at h
      · cases h
      · next e r3 he =>
        simp only [Option.some.injEq, Prod.mk.injEq] at h
        rw [← h.1]
        obtain ⟨a1, a2, a3⟩ := pInt_wf _ _ _ hi
        exact (jnum_wf_iff _).mpr ⟨a1, a2, a3, pFrac_wf _ _ _ hf, pExp_wf _ _ _ he⟩

mutual
/-- every token of the tree is well-formed -/
def JTree.TokWf : JTree → Prop
  | .null => True
  | .bool _ => True
  | .num n => n.wf = true
  | .str items => WfItems items
  | .arr es => JTree.TokWfList es
  | .obj ms => JTree.TokWfMembers ms
def JTree.TokWfList : List JTree → Prop
  | [] => True
  | e :: es => e.TokWf ∧ JTree.TokWfList es
def JTree.TokWfMembers : List (List JItem × JTree) → Prop
  | [] => True
  | (k, v) :: ms => WfItems k ∧ v.TokWf ∧ JTree.TokWfMembers ms
end

mutual
theorem sValue_wf : ∀ (f : Nat) (s : Bytes) (x : JTree × Bytes), sValue f s = some x → x.1.TokWf
  | 0, s, x, h => by simp [sValue] at h
  | f + 1, [], x, h => by simp [sValue] at h
  | f + 1, c :: r, x, h => by
    simp only [sValue] at h
    split at h
    · split at h
      · simp only [Option.some.injEq] at h; rw [← h]; simp [JTree.TokWf]
      · cases h
    · split at h
      · split at h
        · simp only [Option.some.injEq] at h; rw [← h]; simp [JTree.TokWf]
        · cases h
      · split at h
        · split at h
          · simp only [Option.some.injEq] at h; rw [← h]; simp [JTree.TokWf]
          · cases h
        · split at h
          · obtain ⟨p, hp, hx⟩ := map_eq_some' h
            rw [← hx]; simp only [JTree.TokWf]
            exact pStrBody_wf _ _ p.1 p.2 hp
          · split at h
            · cases hs : skipWs r with
              | nil => rw [hs] at h; cases h
              | cons c1 r1 =>
                rw [hs] at h
                simp only at h
                split at h
                · simp only [Option.some.injEq] at h; rw [← h]; simp [JTree.TokWf, JTree.TokWfList]
                · obtain ⟨p, hp, hx⟩ := map_eq_some' h
                  rw [← hx]; simp only [JTree.TokWf]
                  exact sElems_wf f _ p hp
            · split at h
              · cases hs : skipWs r with
                | nil => rw [hs] at h; cases h
                | cons c1 r1 =>
                  rw [hs] at h
                  simp only at h
                  split at h
                  · simp only [Option.some.injEq] at h; rw [← h]; simp [JTree.TokWf, JTree.TokWfMembers]
                  · obtain ⟨p, hp, hx⟩ := map_eq_some' h
                    rw [← hx]; simp only [JTree.TokWf]
                    exact sMembers_wf f _ p hp
              · obtain ⟨p, hp, hx⟩ := map_eq_some' h
                rw [← hx]; simp only [JTree.TokWf]
                exact pNumber_wf _ p.1 p.2 hp
theorem sElems_wf : ∀ (f : Nat) (s : Bytes) (x : List JTree × Bytes), sElems f s = some x →
    JTree.TokWfList x.1
  | 0, s, x, h => by simp [sElems] at h
  | f + 1, s, x, h => by
    simp only [sElems] at h
    cases hv : sValue f s with
    | none => rw [hv] at h; cases h
    | some p =>
      obtain ⟨v, r⟩ := p
      rw [hv] at h
      simp only at h
      have hw := sValue_wf f s (v, r) hv
      cases hs : skipWs r with
      | nil => rw [hs] at h; cases h
      | cons c r' =>
        rw [hs] at h
        simp only at h
        split at h
        · obtain ⟨as, r'', hE, hx⟩ := consFst_some h
          rw [hx]; simp only [JTree.TokWfList]
          exact ⟨hw, sElems_wf f _ (as, r'') hE⟩
        · split at h
          · simp only [Option.some.injEq] at h; rw [← h]; simp only [JTree.TokWfList]; exact ⟨hw, trivial⟩
          · cases h
theorem sMembers_wf : ∀ (f : Nat) (s : Bytes) (x : List (List JItem × JTree) × Bytes),
    sMembers f s = some x → JTree.TokWfMembers x.1
  | 0, s, x, h => by simp [sMembers] at h
  | f + 1, [], x, h => by simp [sMembers] at h
  | f + 1, q :: r, x, h => by
    simp only [sMembers] at h
    split at h
    · cases h
    · cases hk : pStrBody (r.length + 1) r with
      | none => rw [hk] at h; cases h
      | some kp =>
        obtain ⟨k, r1⟩ := kp
        rw [hk] at h
        simp only at h
        have hkw := pStrBody_wf _ _ k r1 hk
        cases hs : skipWs r1 with
        | nil => rw [hs] at h; cases h
        | cons c r2 =>
          rw [hs] at h
          simp only at h
          split at h
          · cases h
          · cases hv : sValue f (skipWs r2) with
            | none => rw [hv] at h; cases h
            | some p =>
              obtain ⟨v, r3⟩ := p
              rw [hv] at h
              simp only at h
              have hw := sValue_wf f _ (v, r3) hv
              cases hs3 : skipWs r3 with
              | nil => rw [hs3] at h; cases h
              | cons c' r4 =>
                rw [hs3] at h
                simp only at h
                split at h
                · obtain ⟨as, r5, hM, hx⟩ := consFst_some h
                  rw [hx]; simp only [JTree.TokWfMembers]
                  exact ⟨hkw, hw, sMembers_wf f _ (as, r5) hM⟩
                · split at h
                  · simp only [Option.some.injEq] at h; rw [← h]; simp only [JTree.TokWfMembers]
                    exact ⟨hkw, hw, trivial⟩
                  · cases h
end

/-- every parse tree the parser returns has well-formed tokens -/
theorem parseTree_wf (s : Bytes) (t : JTree) (h : parseTree s = some t) : t.TokWf := by
  unfold parseTree at h
  cases hv : sValue (s.length + 1) (skipWs s) with
  | none => rw [hv] at h; cases h
  | some p =>
    obtain ⟨t', r⟩ := p
    rw [hv] at h
    simp only at h
    split at h
    · simp only [Option.some.injEq] at h; rw [← h]; exact sValue_wf _ _ (t', r) hv
    · cases h

mutual
/-- the covered region of JSON texts, stated on the parse tree WITHOUT the (always true)
well-formedness of its tokens: strings are Unicode text (surrogate escapes paired) without raw
U+FEFF, numbers within apd's limits, member names of every object pairwise distinct -/
def JTree.InRegion : JTree → Prop
  | .null => True
  | .bool _ => True
  | .num n => n.inApdRange
  | .str items => wellPaired items = true ∧ noRawBOM items = true
  | .arr es => JTree.InRegionList es
  | .obj ms => JTree.InRegionMembers ms ∧ distinctKeys (JTree.denMembers ms) = true
def JTree.InRegionList : List JTree → Prop
  | [] => True
  | e :: es => e.InRegion ∧ JTree.InRegionList es
def JTree.InRegionMembers : List (List JItem × JTree) → Prop
  | [] => True
  | (k, v) :: ms => (wellPaired k = true ∧ noRawBOM k = true) ∧ v.InRegion ∧ JTree.InRegionMembers ms
end

mutual
theorem readable_of : ∀ (t : JTree), t.TokWf → t.InRegion → t.Readable
  | .null, _, _ => trivial
  | .bool _, _, _ => trivial
  | .num n, hw, hr => by simp only [JTree.TokWf, JTree.InRegion, JTree.Readable] at *; exact ⟨hw, hr⟩
  | .str items, hw, hr => by
    simp only [JTree.TokWf, JTree.InRegion, JTree.Readable, StrOk] at *; exact ⟨hw, hr.1, hr.2⟩
  | .arr es, hw, hr => by
    simp only [JTree.TokWf, JTree.InRegion, JTree.Readable] at *; exact readable_list es hw hr
  | .obj ms, hw, hr => by
    simp only [JTree.TokWf, JTree.InRegion, JTree.Readable] at *
    exact ⟨readable_members ms hw hr.1, hr.2⟩
theorem readable_list : ∀ (es : List JTree), JTree.TokWfList es → JTree.InRegionList es →
    JTree.ReadableList es
  | [], _, _ => trivial
  | e :: es, hw, hr => by
    simp only [JTree.TokWfList, JTree.InRegionList, JTree.ReadableList] at *
    exact ⟨readable_of e hw.1 hr.1, readable_list es hw.2 hr.2⟩
theorem readable_members : ∀ (ms : List (List JItem × JTree)), JTree.TokWfMembers ms →
    JTree.InRegionMembers ms → JTree.ReadableMembers ms
  | [], _, _ => trivial
  | (k, v) :: ms, hw, hr => by
    simp only [JTree.TokWfMembers, JTree.InRegionMembers, JTree.ReadableMembers, StrOk] at *
    exact ⟨⟨hw.1, hr.1.1, hr.1.2⟩, readable_of v hw.2.1 hr.2.1, readable_members ms hw.2.2 hr.2.2⟩
end

/-- text level, no well-formedness hypothesis: for EVERY text the reference parser accepts
whose tree is in the region -/
theorem extract_text_full {E : Env} (hE : E.Ok) (nq : Bytes → Bool) (text : Bytes) (t : JTree)
    (ht : parseTree text = some t) (hr : t.InRegion) :
    ∃ c, extractModel E nq text = some c ∧ evalData c = (parseJSON text).map JVal.normZero :=
  extract_text hE nq text t ht (readable_of t (parseTree_wf text t ht) hr)

/-- a text the reference parser accepts has a parse tree (with well-formed tokens) denoting the
parser's value -/
theorem parseJSON_tree (text : Bytes) (d : JVal) (h : parseJSON text = some d) :
    ∃ t, parseTree text = some t ∧ t.den = d ∧ t.TokWf := by
  rw [parseJSON_eq] at h
  cases ht : parseTree text with
  | none => rw [ht] at h; cases h
  | some t =>
    rw [ht] at h
    simp only [Option.map_some, Option.some.injEq] at h
    exact ⟨t, rfl, h, parseTree_wf text t ht⟩

end CueVerif.Json
