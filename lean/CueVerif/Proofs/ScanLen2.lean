/-
More length lemmas for the scanner model (C09): quoted literals, numbers, the token switch.
Core Lean only.
-/
import CueVerif.Proofs.ScanLen
namespace CueVerif.Scan
open CueVerif.Quote

theorem scanQuoted_len (nh ch : Nat) (cur : Str) : (scanQuoted nh ch cur).rest.length ≤ cur.length := by
  unfold scanQuoted
  dsimp only
  have hc := consumeN_len ch 2 cur
  have hh := consumeN_len 35 nh (consumeN ch 2 cur).2
  repeat' split
  all_goals (try simp only [ofStr])
  all_goals (try (rename_i heq; have hl := congrArg List.length heq; simp only [List.length_cons] at hl))
  all_goals first
    | omega
    | (refine Nat.le_trans (strLoop_len _ _ _ _ _ _ _) ?_; omega)

/-! ### the number automaton (`NumLit`) -/

theorem sMant_len (base : Nat) : ∀ cur last, (NumLit.sMant base last cur).1.length ≤ cur.length := by
  intro cur
  induction cur with
  | nil => intro last; simp [NumLit.sMant]
  | cons c cs ih =>
    intro last
    unfold NumLit.sMant
    split
    · have := ih c; simp only [List.length_cons]; omega
    · simp

theorem sSign_len (cs : Str) : (NumLit.sSign cs).1.length ≤ cs.length := by
  unfold NumLit.sSign
  split <;> simp only [List.length_cons] <;> omega

theorem sExpDigits_len (cur : Str) (e : Bool) : (NumLit.sExpDigits cur e).2.1.length ≤ cur.length := by
  unfold NumLit.sExpDigits
  exact sMant_len 10 cur 0

theorem sExponent_len (k : NumLit.Kind) (cur : Str) (e : Bool) :
    (NumLit.sExponent k cur e).2.1.length ≤ cur.length := by
  unfold NumLit.sExponent
  split
  · simp
  · rename_i c cs
    split
    · split <;> simp only [List.length_cons] <;> omega
    · split
      · have h1 := sSign_len cs
        have h2 := sExpDigits_len (NumLit.sSign cs).1
        dsimp only
        refine Nat.le_trans (h2 _) ?_
        simp only [List.length_cons]; omega
      · simp

theorem sFraction_len (k : NumLit.Kind) (cur : Str) (e : Bool) :
    (NumLit.sFraction k cur e).2.1.length ≤ cur.length := by
  unfold NumLit.sFraction
  split
  · simp
  · rename_i cs _
    dsimp only
    refine Nat.le_trans (sExponent_len _ _ _) ?_
    have := sMant_len 10 cs 0
    simp only [List.length_cons]; omega
  · exact sExponent_len _ _ _

theorem sPrefixed_len (base n0 : Nat) (cs : Str) (e : Bool) :
    (NumLit.sPrefixed base n0 cs e).2.1.length ≤ cs.length := by
  unfold NumLit.sPrefixed
  exact sMant_len base cs 0

theorem sZeroTail_len (r : Str) (sd e : Bool) : (NumLit.sZeroTail r sd e).2.1.length ≤ r.length := by
  unfold NumLit.sZeroTail
  dsimp only
  repeat' split
  all_goals first
    | exact Nat.le_refl _
    | exact sFraction_len _ _ _
    | exact sExponent_len _ _ _

/-- after a decimal point -/
theorem sScanNumber_true_len (cur : Str) : (NumLit.sScanNumber true cur).2.1.length ≤ cur.length := by
  unfold NumLit.sScanNumber
  simp only [if_true]
  exact Nat.le_trans (sExponent_len _ _ _) (sMant_len 10 cur 0)

/-- a number token starting with a digit consumes that digit -/
theorem sScanNumber_false_lt (b : Nat) (rest : Str) (hb : (48 ≤ b && b ≤ 57) = true) :
    (NumLit.sScanNumber false (b :: rest)).2.1.length ≤ rest.length := by
  have hd : NumLit.digitVal b < 10 := by
    simp only [Bool.and_eq_true, decide_eq_true_eq] at hb
    unfold NumLit.digitVal
    split <;> omega
  have hm : (NumLit.sMant 10 0 (b :: rest)).1.length ≤ rest.length := by
    unfold NumLit.sMant
    simp only [hd, if_true]
    exact sMant_len 10 rest b
  unfold NumLit.sScanNumber
  simp only [Bool.false_eq_true, if_false]
  split
  · rename_i cs heq
    injection heq with h1 h2
    subst h1 h2
    repeat' split
    all_goals first
      | (refine Nat.le_trans (sPrefixed_len _ _ _ _) ?_; simp only [List.length_cons]; omega)
      | (refine Nat.le_trans (sZeroTail_len _ _ _) ?_; first | exact sMant_len 10 _ 0 | exact Nat.le_refl _)
  · exact Nat.le_trans (sFraction_len _ _ _) hm

end CueVerif.Scan
