/-
Duplicate and failed disjuncts never change the outcome of a flat disjunction at the root.
Built on the set characterisation of `CueVerif.Proofs.DisjDefault` (`model_flat1`, `CV`, `CD`).
Core Lean only.
-/
import CueVerif.Proofs.DisjDefault
namespace CueVerif.Disj
variable {V : Type} [DecidableEq V]
set_option linter.unusedSectionVars false

/-- syntactic term list of an `or` chain under an inherited mark (what addDisjunctionElem collects) -/
def Expr.termList {V : Type} : Expr V → Bool → List (Bool × Expr V)
  | .or l r, mk => l.termList mk ++ r.termList mk
  | .mark e, _ => e.termList true
  | e, mk => [(mk, e)]

theorem termList_eq_tms (e : Expr V) (mk : Bool) : e.termList mk = tms e mk := by
  induction e generalizing mk with
  | atom a => simp [Expr.termList, tms]
  | and l r _ _ => simp [Expr.termList, tms]
  | paren e _ => simp [Expr.termList, tms]
  | mark e ih => simp only [Expr.termList, tms]; exact ih true
  | or l r ihl ihr => simp only [Expr.termList, tms, ihl, ihr]

/-- a scalar term whose spec value set is empty has no scalar value -/
theorem sv_none_of_spec_nil {S : Sl V} (h : Laws S) (t : Expr V) (hs : t.scalarOnly = true)
    (hv : (specPair S t).v = []) (x : V) : sv S t ≠ some x := by
  intro hx
  have h1 := (spec_scalar h t hs).1
  have : memP (specPair S t).v x := by rw [h1]; exact hx
  rw [hv] at this
  exact absurd this (by simp [memP])

theorem dup_fail_flat (S : Sl V) (h : Laws S) (c1 c2 t : Expr V)
    (hf : (Expr.or (.or c1 c2) t).flatChain = true)
    (ht : ∀ ms ∈ t.termList false, ms ∈ (Expr.or c1 c2).termList false ∨ (specPair S ms.2).v = []) :
    (eval S (.or (.or c1 c2) t)).resolve = (eval S (.or c1 c2)).resolve := by
  have hf' := hf
  simp only [Expr.flatChain, Bool.and_eq_true] at hf'
  have hf2 : (Expr.or c1 c2).flatChain = true := by
    simp only [Expr.flatChain, Bool.and_eq_true]; exact hf'.1
  have hft : t.flatChain = true := hf'.2
  have hst := tms_scalarOnly t false hft
  rw [termList_eq_tms] at ht
  simp only [termList_eq_tms] at ht
  have htms : tms (.or (.or c1 c2) t) false = tms (.or c1 c2) false ++ tms t false := rfl
  -- the chain sets agree
  have hCV : CV S (.or (.or c1 c2) t) = CV S (.or c1 c2) := by
    funext x; apply propext
    show (∃ mt ∈ tms (.or (.or c1 c2) t) false, sv S mt.2 = some x) ↔
      (∃ mt ∈ tms (.or c1 c2) false, sv S mt.2 = some x)
    rw [htms]
    constructor
    · rintro ⟨mt, hmt, hx⟩
      rw [List.mem_append] at hmt
      rcases hmt with hmt | hmt
      · exact ⟨mt, hmt, hx⟩
      · rcases ht mt hmt with hd | hfail
        · exact ⟨mt, hd, hx⟩
        · exact absurd hx (sv_none_of_spec_nil h mt.2 (hst mt hmt) hfail x)
    · rintro ⟨mt, hmt, hx⟩
      exact ⟨mt, List.mem_append_left _ hmt, hx⟩
  have hCD : CD S (.or (.or c1 c2) t) = CD S (.or c1 c2) := by
    funext x; apply propext
    show (∃ mt ∈ tms (.or (.or c1 c2) t) false, mt.1 = true ∧ sv S mt.2 = some x) ↔
      (∃ mt ∈ tms (.or c1 c2) false, mt.1 = true ∧ sv S mt.2 = some x)
    rw [htms]
    constructor
    · rintro ⟨mt, hmt, hb, hx⟩
      rw [List.mem_append] at hmt
      rcases hmt with hmt | hmt
      · exact ⟨mt, hmt, hb, hx⟩
      · rcases ht mt hmt with hd | hfail
        · exact ⟨mt, hd, hb, hx⟩
        · exact absurd hx (sv_none_of_spec_nil h mt.2 (hst mt hmt) hfail x)
    · rintro ⟨mt, hmt, hb, hx⟩
      exact ⟨mt, List.mem_append_left _ hmt, hb, hx⟩
  have hsv : svP S (.or (.or c1 c2) t) = svP S (.or c1 c2) := rfl
  have hm1 : (Expr.or (.or c1 c2) t).markedChains ≤ 1 := by
    simp only [Expr.markedChains]; split <;> omega
  have hm2 : (Expr.or c1 c2).markedChains ≤ 1 := by
    simp only [Expr.markedChains]; split <;> omega
  obtain ⟨vs1, ds1, a1, a2, a3, a4, a5⟩ := model_flat1 h (.or (.or c1 c2) t) hf hm1
  obtain ⟨vs2, ds2, b1, b2, b3, b4, b5⟩ := model_flat1 h (.or c1 c2) hf2 hm2
  rw [a5, b5]
  exact resOf_congr a1 b1 a2 b2 (by rw [a3, b3, hsv, hCV]) (by rw [a4, b4, hsv, hCD])

/-- special case: every term of `t` already occurs (same mark, same expression) in the chain -/
theorem dup_flat (S : Sl V) (h : Laws S) (c1 c2 t : Expr V)
    (hf : (Expr.or (.or c1 c2) t).flatChain = true)
    (ht : ∀ ms ∈ t.termList false, ms ∈ (Expr.or c1 c2).termList false) :
    (eval S (.or (.or c1 c2) t)).resolve = (eval S (.or c1 c2)).resolve :=
  dup_fail_flat S h c1 c2 t hf (fun ms hms => Or.inl (ht ms hms))

/-- special case: every term of `t` fails (marked or not) -/
theorem fail_flat (S : Sl V) (h : Laws S) (c1 c2 t : Expr V)
    (hf : (Expr.or (.or c1 c2) t).flatChain = true)
    (ht : ∀ ms ∈ t.termList false, (specPair S ms.2).v = []) :
    (eval S (.or (.or c1 c2) t)).resolve = (eval S (.or c1 c2)).resolve :=
  dup_fail_flat S h c1 c2 t hf (fun ms hms => Or.inr (ht ms hms))

end CueVerif.Disj
