/-
The token switch of `Scan` makes progress (C09).  Core Lean only.
-/
import CueVerif.Proofs.ScanLen2
namespace CueVerif.Scan
open CueVerif.Quote

/-- what `classify` guarantees about positions: every exit is at a position strictly after
the token start, except EOF and the automatic comma emitted without consuming (which needs
`insertEOL`) -/
def ActOk (ins : Bool) (cur : Str) : Act → Prop
  | .done k _ rest i _ _ => (k = .EOF ∧ cur = [] ∧ rest = [] ∧ i = false) ∨ rest.length < cur.length
  | .autoComma rest => rest.length < cur.length ∨ (rest = cur ∧ ins = true)
  | .again start => start.length < cur.length
  | .attr c1 => c1.length < cur.length

theorem ActOk.done_lt {ins : Bool} {cur : Str} {k : Kind} {l rest : Str} {i e : Bool} {p : Option QI}
    (h : rest.length < cur.length) : ActOk ins cur (.done k l rest i e p) := Or.inr h
theorem ActOk.comma_lt {ins : Bool} {cur rest : Str} (h : rest.length < cur.length) :
    ActOk ins cur (.autoComma rest) := Or.inl h
theorem ActOk.comma_same {ins : Bool} {cur : Str} (h : ins = true) : ActOk ins cur (.autoComma cur) :=
  Or.inr ⟨rfl, h⟩
theorem ActOk.again_lt {ins : Bool} {cur s : Str} (h : s.length < cur.length) : ActOk ins cur (.again s) := h
theorem ActOk.attr_lt {ins : Bool} {cur s : Str} (h : s.length < cur.length) : ActOk ins cur (.attr s) := h

theorem scanFieldIdent_lt (U : Uni) (b : Nat) (rest : Str)
    (h : (isLetterAt U (b :: rest) || b == 36 || b == 35) = true) :
    (scanFieldIdent U (b :: rest)).length ≤ rest.length := by
  unfold scanFieldIdent
  split
  · rename_i r heq
    injection heq with h1 h2
    subst h2
    split
    · exact Nat.le_refl _
    · exact identLoop_len U _ 0
  · rename_i hne
    have hb : b ≠ 35 := by
      intro e; subst e; exact hne rest rfl
    apply identLoop_lt
    unfold identPartAt
    simp only [Bool.or_eq_true, beq_iff_eq] at h ⊢
    rcases h with (h | h) | h
    · exact Or.inl (Or.inl h)
    · exact Or.inr (Or.inr h)
    · exact absurd h hb

theorem quotedAct_ok (ins : Bool) (cur : Str) (nh ch : Nat) (after : Str) (h : after.length < cur.length) :
    ActOk ins cur (quotedAct cur nh ch after) := by
  unfold quotedAct
  exact ActOk.done_lt (Nat.lt_of_le_of_lt (scanQuoted_len nh ch after) h)

theorem hashString_ok (ins : Bool) (cur l r2 : Str) (h : r2.length < cur.length) :
    ActOk ins cur (hashString cur l r2) := by
  unfold hashString
  have hc := consumeN_len 35 r2.length r2
  dsimp only
  split
  · rename_i c r3 heq
    have hl := congrArg List.length heq
    simp only [List.length_cons] at hl
    split
    · apply quotedAct_ok; omega
    · apply ActOk.done_lt; omega
  · apply ActOk.done_lt; omega

theorem classIdent_ok (U : Uni) (ins : Bool) (b : Nat) (rest : Str)
    (h : (isLetterAt U (b :: rest) || b == 36 || b == 35) = true) :
    ActOk ins (b :: rest) (classIdent U (b :: rest) b) := by
  have hr := scanFieldIdent_lt U b rest h
  unfold classIdent
  dsimp only
  split
  · apply ActOk.done_lt; simp only [List.length_cons]; omega
  · split
    · apply ActOk.done_lt; simp only [List.length_cons]; omega
    · split
      · rename_i r2 heq
        have hl := congrArg List.length heq
        simp only [List.length_cons] at hl
        apply hashString_ok; simp only [List.length_cons]; omega
      · rename_i c r2 _ heq
        have hl := congrArg List.length heq
        simp only [List.length_cons] at hl
        apply quotedAct_ok; simp only [List.length_cons]; omega
      · apply ActOk.done_lt; simp only [List.length_cons]; omega

theorem classUnderscore_ok (U : Uni) (ins : Bool) (b : Nat) (rest : Str) :
    ActOk ins (b :: rest) (classUnderscore U (b :: rest) rest) := by
  unfold classUnderscore
  split
  · apply ActOk.done_lt; simp only [List.length_cons]; omega
  · have hr := scanFieldIdent_len U rest
    dsimp only
    split
    · apply ActOk.done_lt
      have := identLoop_len U ((scanFieldIdent U rest).drop 1) 0
      simp only [List.length_drop, List.length_cons] at *; omega
    · apply ActOk.done_lt; simp only [List.length_cons]; omega

theorem classNewline_ok (ins : Bool) (b : Nat) (rest : Str) : ActOk ins (b :: rest) (classNewline rest) := by
  unfold classNewline
  have := skipWs_len false rest
  dsimp only
  split
  · apply ActOk.again_lt; simp only [List.length_cons]; omega
  · apply ActOk.comma_lt; simp only [List.length_cons]; omega

theorem classDot_ok (ins : Bool) (b : Nat) (rest : Str) : ActOk ins (b :: rest) (classDot (b :: rest) rest) := by
  unfold classDot
  split
  · apply ActOk.done_lt; simp only [List.length_cons]; omega
  · apply ActOk.done_lt; simp only [List.length_cons]; omega
  · split
    · apply ActOk.done_lt
      have := sScanNumber_true_len rest
      simp only [List.length_cons]; omega
    · apply ActOk.done_lt; simp

theorem classSlash_ok (M : Mode) (ins : Bool) (b : Nat) (rest : Str) :
    ActOk ins (b :: rest) (classSlash M ins (b :: rest) rest) := by
  unfold classSlash
  split
  · rename_i r
    have := skipLine_len r
    split
    · rename_i h; exact ActOk.comma_same h
    · dsimp only
      split
      · apply ActOk.again_lt; simp only [List.length_cons]; omega
      · apply ActOk.done_lt; simp only [List.length_cons]; omega
  · apply ActOk.done_lt; simp

theorem classOther_ok (ins : Bool) (b : Nat) (rest : Str) :
    ActOk ins (b :: rest) (classOther ins (b :: rest) b rest) := by
  unfold classOther
  split
  · apply ActOk.done_lt; simp only [List.length_cons, List.length_drop]; omega
  · apply ActOk.done_lt
    have := drop_width_lt b rest
    simp only [List.length_cons]; omega

theorem classify_ok (M : Mode) (U : Uni) (ins : Bool) (cur : Str) : ActOk ins cur (classify M U ins cur) := by
  cases cur with
  | nil =>
    unfold classify
    dsimp only
    split
    · rename_i h; exact ActOk.comma_same h
    · exact Or.inl ⟨rfl, rfl, rfl, rfl⟩
  | cons b rest =>
    unfold classify
    dsimp only
    split
    · rename_i h
      apply ActOk.done_lt
      have := sScanNumber_false_lt b rest h
      simp only [List.length_cons]; omega
    · split
      · rename_i h; exact classIdent_ok U ins b rest h
      · split
        · exact classUnderscore_ok U ins b rest
        · split
          · exact classNewline_ok ins b rest
          · split
            · apply quotedAct_ok; simp
            · split
              · apply ActOk.attr_lt
                have := identLoop_len U rest 0
                simp only [List.length_cons]; omega
              · split
                · exact classDot_ok ins b rest
                · split
                  · exact classSlash_ok M ins b rest
                  · exact classOther_ok ins b rest

end CueVerif.Scan
