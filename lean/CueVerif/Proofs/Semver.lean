/-
Proofs for the version-comparison half of C14: the model of Go's `semver.Compare`
(`compare'`) agrees with SemVer 2.0.0 precedence (`specCmp`) on valid versions and is a
total preorder on all strings.  Core Lean only.
-/
import CueVerif.Spec.Semver
namespace CueVerif.Semver
open Std

/-! ### order laws of the specification -/

instance : OrientedCmp Ident.cmp where
  eq_swap {a b} := by
    cases a <;> cases b <;> simp only [Ident.cmp, Ordering.swap_lt, Ordering.swap_gt]
    · exact OrientedCmp.eq_swap
    · exact OrientedCmp.eq_swap (cmp := List.compareLex compare)

instance : TransCmp Ident.cmp where
  isLE_trans {a b c} hab hbc := by
    cases a <;> cases b <;> cases c <;> simp only [Ident.cmp] at * <;>
      first
        | exact TransCmp.isLE_trans hab hbc
        | exact TransCmp.isLE_trans (cmp := List.compareLex compare) hab hbc
        | rfl
        | (exact absurd hab (by decide))
        | (exact absurd hbc (by decide))

instance : LawfulEqCmp Ident.cmp where
  compare_self {a} := ReflCmp.compare_self
  eq_of_compare {a b} h := by
    cases a <;> cases b <;> simp only [Ident.cmp] at h
    · exact congrArg _ (LawfulEqCmp.eq_of_compare h)
    · exact absurd h (by decide)
    · exact absurd h (by decide)
    · exact congrArg _ (LawfulEqCmp.eq_of_compare (cmp := List.compareLex compare) h)

theorem preCmp_cons_cons (a b : Ident) (as bs : List Ident) :
    preCmp (a :: as) (b :: bs) = List.compareLex Ident.cmp (a :: as) (b :: bs) := rfl

theorem preCmp_of_ne_nil {a b : List Ident} (ha : a ≠ []) (hb : b ≠ []) :
    preCmp a b = List.compareLex Ident.cmp a b := by
  cases a with
  | nil => exact absurd rfl ha
  | cons x xs => cases b with
    | nil => exact absurd rfl hb
    | cons y ys => rfl

instance : OrientedCmp preCmp where
  eq_swap {a b} := by
    cases a <;> cases b <;> try rfl
    simp only [preCmp_cons_cons]
    exact OrientedCmp.eq_swap

instance : TransCmp preCmp where
  isLE_trans {a b c} hab hbc := by
    cases a <;> cases b <;> cases c <;> simp only [preCmp] at * <;>
      first
        | exact TransCmp.isLE_trans (cmp := List.compareLex Ident.cmp) hab hbc
        | rfl
        | (exact absurd hab (by decide))
        | (exact absurd hbc (by decide))

instance : LawfulEqCmp preCmp where
  compare_self {a} := ReflCmp.compare_self
  eq_of_compare {a b} h := by
    cases a <;> cases b <;> simp only [preCmp] at h
    · rfl
    · exact absurd h (by decide)
    · exact absurd h (by decide)
    · exact LawfulEqCmp.eq_of_compare (cmp := List.compareLex Ident.cmp) h

/-- comparison of the pre-release components of two structured versions -/
def preOn (v w : SV) : Ordering := preCmp v.pre w.pre

instance : OrientedCmp preOn where
  eq_swap := OrientedCmp.eq_swap (cmp := preCmp)

instance : TransCmp preOn where
  isLE_trans := TransCmp.isLE_trans (cmp := preCmp)

theorem specCmp_eq_lex : specCmp =
    compareLex (compareOn SV.maj) (compareLex (compareOn SV.min)
      (compareLex (compareOn SV.pat) preOn)) := rfl

instance : TransCmp specCmp := by
  rw [specCmp_eq_lex]; infer_instance

instance : LawfulEqCmp specCmp where
  compare_self {a} := ReflCmp.compare_self
  eq_of_compare {a b} h := by
    simp only [specCmp, Ordering.then_eq_eq, Nat.compare_eq_eq] at h
    obtain ⟨h1, h2, h3, h4⟩ := h
    have h5 := LawfulEqCmp.eq_of_compare h4
    cases a; cases b; simp_all

/-! ### bytewise comparison -/

theorem lexCmp_eq (x y : Str) : lexCmp x y = List.compareLex compare x y := by
  induction x generalizing y with
  | nil => cases y <;> rfl
  | cons a as ih =>
    cases y with
    | nil => rfl
    | cons b bs => simp only [lexCmp, List.compareLex_cons_cons, ih]

theorem lexCmp_eq_eq {x y : Str} : lexCmp x y = .eq ↔ x = y := by
  rw [lexCmp_eq]; exact LawfulEqCmp.compare_eq_iff_eq

/-! ### digit strings -/

theorem isDigit_iff {c : Nat} : isDigit c = true ↔ 48 ≤ c ∧ c ≤ 57 := by
  simp [isDigit]

theorem foldl_ge (x : Str) (p : Nat) :
    p ≤ x.foldl (fun acc c => acc * 10 + (c - 48)) p := by
  induction x generalizing p with
  | nil => exact Nat.le_refl _
  | cons a as ih =>
    simp only [List.foldl_cons]
    have := ih (p * 10 + (a - 48))
    omega

theorem cmp_step (p q a b : Nat) (ha : 48 ≤ a ∧ a ≤ 57) (hb : 48 ≤ b ∧ b ≤ 57) :
    compare (p * 10 + (a - 48)) (q * 10 + (b - 48)) = (compare p q).then (compare a b) := by
  rcases Nat.lt_trichotomy p q with h | h | h
  · rw [Nat.compare_eq_lt.mpr h, Nat.compare_eq_lt.mpr (by omega)]; rfl
  · subst h
    rw [Nat.compare_eq_eq.mpr (rfl : p = p), Ordering.eq_then]
    rcases Nat.lt_trichotomy a b with h | h | h
    · rw [Nat.compare_eq_lt.mpr h, Nat.compare_eq_lt.mpr (by omega)]
    · rw [Nat.compare_eq_eq.mpr h, Nat.compare_eq_eq.mpr (by omega)]
    · rw [Nat.compare_eq_gt.mpr h, Nat.compare_eq_gt.mpr (by omega)]
  · rw [Nat.compare_eq_gt.mpr h, Nat.compare_eq_gt.mpr (by omega)]; rfl

/-- equal-length digit strings: numeric order with carried-in accumulators is the
accumulator order, then the bytewise order -/
theorem foldl_cmp_same (x y : Str) (p q : Nat)
    (hx : x.all isDigit = true) (hy : y.all isDigit = true) (hl : x.length = y.length) :
    compare (x.foldl (fun acc c => acc * 10 + (c - 48)) p)
        (y.foldl (fun acc c => acc * 10 + (c - 48)) q)
      = (compare p q).then (lexCmp x y) := by
  induction x generalizing y p q with
  | nil =>
    cases y with
    | nil => simp [lexCmp]
    | cons b bs => simp at hl
  | cons a as ih =>
    cases y with
    | nil => simp at hl
    | cons b bs =>
      simp only [List.all_cons, Bool.and_eq_true] at hx hy
      simp only [List.length_cons, Nat.add_right_cancel_iff] at hl
      simp only [List.foldl_cons, lexCmp]
      rw [ih bs _ _ hx.2 hy.2 hl, cmp_step p q a b (isDigit_iff.mp hx.1) (isDigit_iff.mp hy.1),
        Ordering.then_assoc]

/-- a digit string that is not longer, started from a smaller accumulator, stays smaller -/
theorem foldl_lt_of_shorter (y x : Str) (p q : Nat)
    (hx : x.all isDigit = true) (hl : x.length ≤ y.length) (hpq : p < q) :
    x.foldl (fun acc c => acc * 10 + (c - 48)) p
      < y.foldl (fun acc c => acc * 10 + (c - 48)) q := by
  induction y generalizing x p q with
  | nil =>
    cases x with
    | nil => simpa using hpq
    | cons a as => simp at hl
  | cons b bs ih =>
    cases x with
    | nil =>
      have := foldl_ge (b :: bs) q
      simp only [List.foldl_nil]
      omega
    | cons a as =>
      simp only [List.all_cons, Bool.and_eq_true] at hx
      simp only [List.length_cons, Nat.add_le_add_iff_right] at hl
      simp only [List.foldl_cons]
      have ha := isDigit_iff.mp hx.1
      exact ih as _ _ hx.2 hl (by omega)

/-- a `GoodNum` is numerically below every longer `GoodNum` -/
theorem digitsVal_lt_of_length_lt {x y : Str} (hx : GoodNum x) (hy : GoodNum y)
    (hl : x.length < y.length) : digitsVal x < digitsVal y := by
  obtain ⟨hxne, hxall, _⟩ := hx
  obtain ⟨_, hyall, hyhead⟩ := hy
  cases y with
  | nil => simp at hl
  | cons b bs =>
    simp only [List.all_cons, Bool.and_eq_true] at hyall
    have hb := isDigit_iff.mp hyall.1
    have hb48 : b ≠ 48 := by
      intro h
      subst h
      have := hyhead rfl
      simp only [List.length_cons] at this hl
      have : x.length = 0 := by omega
      exact hxne (List.length_eq_zero_iff.mp this)
    simp only [List.length_cons] at hl
    simp only [digitsVal, List.foldl_cons]
    exact foldl_lt_of_shorter bs x 0 _ hxall (by omega) (by omega)

theorem compareInt_eq (x y : Str) (hx : GoodNum x) (hy : GoodNum y) :
    compareInt x y = compare (digitsVal x) (digitsVal y) := by
  unfold compareInt
  rcases Nat.lt_trichotomy x.length y.length with h | h | h
  · rw [Nat.compare_eq_lt.mpr h, Nat.compare_eq_lt.mpr (digitsVal_lt_of_length_lt hx hy h)]; rfl
  · rw [Nat.compare_eq_eq.mpr h, Ordering.eq_then]
    have := foldl_cmp_same x y 0 0 hx.2.1 hy.2.1 h
    rw [Nat.compare_eq_eq.mpr (rfl : 0 = 0), Ordering.eq_then] at this
    exact this.symm
  · rw [Nat.compare_eq_gt.mpr h, Nat.compare_eq_gt.mpr (digitsVal_lt_of_length_lt hy hx h)]; rfl

theorem compareInt_eq_eq {x y : Str} : compareInt x y = .eq → x = y := by
  intro h
  simp only [compareInt, Ordering.then_eq_eq] at h
  exact lexCmp_eq_eq.mp h.2

/-! ### `splitDot` -/

theorem splitDot_ne_nil (x : Str) : splitDot x ≠ [] := by
  cases x with
  | nil => simp [splitDot]
  | cons c cs =>
    unfold splitDot
    split
    · simp
    · split <;> simp

/-- inverse of `splitDot` -/
def joinDot : List Str → Str
  | [] => []
  | [a] => a
  | a :: b :: r => a ++ 46 :: joinDot (b :: r)

theorem joinDot_cons_cons (c : Nat) (h : Str) (t : List Str) :
    joinDot ((c :: h) :: t) = c :: joinDot (h :: t) := by
  cases t <;> simp [joinDot]

theorem joinDot_splitDot (x : Str) : joinDot (splitDot x) = x := by
  induction x with
  | nil => simp [splitDot, joinDot]
  | cons c cs ih =>
    unfold splitDot
    split
    · rename_i hc
      have hc : c = 46 := by simpa using hc
      cases hs : splitDot cs with
      | nil => exact absurd hs (splitDot_ne_nil cs)
      | cons h t =>
        rw [hs] at ih
        simp [joinDot, ih, hc]
    · split
      · rename_i hs
        exact absurd hs (splitDot_ne_nil cs)
      · rename_i h t hs
        rw [hs] at ih
        rw [joinDot_cons_cons, ih]

theorem splitDot_inj {x y : Str} (h : splitDot x = splitDot y) : x = y := by
  rw [← joinDot_splitDot x, ← joinDot_splitDot y, h]

/-! ### what `parse` returns -/

/-- a pre-release identifier accepted by `parsePrerelease` -/
def GoodId (s : Str) : Prop := s ≠ [] ∧ isBadNum s = false

/-- a pre-release field as returned by `parse`: empty, or '-' followed by dot-separated
good identifiers -/
def GoodPre (pre : Str) : Prop :=
  pre = [] ∨ ∃ body, pre = 45 :: body ∧ ∀ id ∈ splitDot body, GoodId id

theorem parseInt_good {v n r : Str} (h : parseInt v = some (n, r)) : GoodNum n := by
  unfold parseInt at h
  cases v with
  | nil => simp at h
  | cons c rest =>
    simp only at h
    split at h
    · simp at h
    · rename_i hc
      split at h
      · simp at h
      · rename_i hz
        simp only [Option.some.injEq, Prod.mk.injEq] at h
        obtain ⟨rfl, -⟩ := h
        have hc : isDigit c = true := by simpa using hc
        refine ⟨by simp, ?_, ?_⟩
        · simp only [List.all_cons, hc, Bool.true_and]
          exact List.all_takeWhile
        · intro h48
          simp only [List.head?_cons, Option.some.injEq] at h48
          subst h48
          simp only [BEq.rfl, Bool.true_and, Bool.not_eq_true'] at hz
          simp only [List.length_cons]
          have : (List.takeWhile isDigit rest) = [] := by simpa using hz
          simp [this]

theorem parsePrerelease_good {v pre r : Str} (h : parsePrerelease v = some (pre, r)) :
    ∃ body, pre = 45 :: body ∧ ∀ id ∈ splitDot body, GoodId id := by
  unfold parsePrerelease at h
  cases v with
  | nil => simp at h
  | cons c rest =>
    simp only at h
    split at h
    · simp at h
    · rename_i hc
      have hc : c = 45 := by simpa using hc
      split at h
      · simp at h
      · split at h
        · simp at h
        · rename_i hany
          simp only [Option.some.injEq, Prod.mk.injEq] at h
          obtain ⟨rfl, -⟩ := h
          refine ⟨_, by rw [hc], ?_⟩
          intro id hid
          simp only [List.any_eq_true, not_exists, not_and, Bool.or_eq_true, not_or,
            Bool.not_eq_true] at hany
          have := hany id hid
          exact ⟨by simpa using this.1, this.2⟩

theorem parseTail_good {maj min pat v : Str} {p : Parsed} (h : parseTail maj min pat v = some p) :
    p.major = maj ∧ p.minor = min ∧ p.patch = pat ∧ GoodPre p.prerelease := by
  unfold parseTail at h
  simp only at h
  split at h
  · simp at h
  · rename_i pre v1 hpre
    split at h
    · simp at h
    · rename_i bld v2 hbld
      split at h
      · simp only [Option.some.injEq] at h
        subst h
        refine ⟨rfl, rfl, rfl, ?_⟩
        split at hpre
        · exact Or.inr (parsePrerelease_good hpre)
        · simp only [Option.some.injEq, Prod.mk.injEq] at hpre
          exact Or.inl hpre.1.symm
      · simp at h

theorem goodNum_zero : GoodNum [48] := by
  refine ⟨by simp, by decide, fun _ => rfl⟩

theorem parse_good {v : Str} {p : Parsed} (h : parse v = some p) :
    GoodNum p.major ∧ GoodNum p.minor ∧ GoodNum p.patch ∧ GoodPre p.prerelease := by
  unfold parse at h
  split at h
  · split at h
    · simp at h
    · rename_i maj v1 hmaj
      have gmaj := parseInt_good hmaj
      split at h
      · simp only [Option.some.injEq] at h
        subst h
        exact ⟨gmaj, goodNum_zero, goodNum_zero, Or.inl rfl⟩
      · split at h
        · simp at h
        · rename_i min v2 hmin
          have gmin := parseInt_good hmin
          split at h
          · simp only [Option.some.injEq] at h
            subst h
            exact ⟨gmaj, gmin, goodNum_zero, Or.inl rfl⟩
          · split at h
            · simp at h
            · rename_i pat v3 hpat
              have gpat := parseInt_good hpat
              obtain ⟨h1, h2, h3, h4⟩ := parseTail_good h
              rw [h1, h2, h3]
              exact ⟨gmaj, gmin, gpat, h4⟩
          · simp at h
      · simp at h
  · simp at h

/-! ### pre-release comparison -/

theorem goodNum_of_goodId {s : Str} (h : GoodId s) (hn : isNum s = true) : GoodNum s := by
  obtain ⟨hne, hbad⟩ := h
  refine ⟨hne, hn, ?_⟩
  intro h48
  simp only [isBadNum, isNum] at hbad hn
  simp only [hn, h48, Bool.true_and, BEq.rfl, Bool.and_true, decide_eq_false_iff_not,
    Nat.not_lt] at hbad
  have : s.length ≠ 0 := fun h => hne (List.length_eq_zero_iff.mp h)
  omega

theorem cmpIdentDiff_eq {dx dy : Str} (hx : GoodId dx) (hy : GoodId dy) (hne : dx ≠ dy) :
    cmpIdentDiff dx dy = Ident.cmp (toIdent dx) (toIdent dy) ∧ cmpIdentDiff dx dy ≠ .eq := by
  unfold cmpIdentDiff toIdent
  cases h1 : isNum dx <;> cases h2 : isNum dy <;> simp only [Ident.cmp]
  · simp only [bne_self_eq_false, Bool.false_eq_true, ↓reduceIte]
    refine ⟨lexCmp_eq dx dy, ?_⟩
    intro h; exact hne (lexCmp_eq_eq.mp h)
  · simp
  · simp
  · simp only [bne_self_eq_false, Bool.false_eq_true, ↓reduceIte]
    have := compareInt_eq dx dy (goodNum_of_goodId hx h1) (goodNum_of_goodId hy h2)
    unfold compareInt at this
    refine ⟨this, ?_⟩
    intro h; exact hne (compareInt_eq_eq h)

theorem cmpIdents_eq (xs ys : List Str) (hx : ∀ id ∈ xs, GoodId id) (hy : ∀ id ∈ ys, GoodId id)
    (hne : xs ≠ ys) :
    cmpIdents xs ys = List.compareLex Ident.cmp (xs.map toIdent) (ys.map toIdent) := by
  induction xs generalizing ys with
  | nil =>
    cases ys with
    | nil => exact absurd rfl hne
    | cons dy ys => rfl
  | cons dx xs ih =>
    cases ys with
    | nil => rfl
    | cons dy ys =>
      simp only [cmpIdents, List.map_cons, List.compareLex_cons_cons]
      have gx := hx dx (List.mem_cons_self)
      have gy := hy dy (List.mem_cons_self)
      by_cases hd : dx = dy
      · subst hd
        have hne' : xs ≠ ys := fun h => hne (by rw [h])
        simp only [bne_self_eq_false, Bool.false_eq_true, ↓reduceIte]
        rw [ReflCmp.compare_self (cmp := Ident.cmp), Ordering.eq_then]
        exact ih ys (fun id h => hx id (List.mem_cons_of_mem _ h))
          (fun id h => hy id (List.mem_cons_of_mem _ h)) hne'
      · obtain ⟨h1, h2⟩ := cmpIdentDiff_eq gx gy hd
        have hb : (dx != dy) = true := by simpa using hd
        simp only [hb, ↓reduceIte]
        rw [← h1]
        cases h : cmpIdentDiff dx dy
        · rfl
        · exact absurd h h2
        · rfl

/-- the pre-release identifier list denoted by a pre-release field -/
def preOf (p : Str) : List Ident :=
  if p.isEmpty then [] else (splitDot p.tail).map toIdent

theorem comparePrerelease_eq {x y : Str} (hx : GoodPre x) (hy : GoodPre y) :
    comparePrerelease x y = preCmp (preOf x) (preOf y) := by
  have hmap : ∀ b : Str, (splitDot b).map toIdent ≠ [] := by
    intro b h
    exact splitDot_ne_nil b (List.map_eq_nil_iff.mp h)
  rcases hx with rfl | ⟨bx, rfl, gx⟩ <;> rcases hy with rfl | ⟨by', rfl, gy⟩
  · rfl
  · simp only [comparePrerelease, preOf, List.isEmpty_nil, List.isEmpty_cons, List.tail_cons,
      ↓reduceIte, Bool.false_eq_true]
    cases h : (splitDot by').map toIdent with
    | nil => exact absurd h (hmap by')
    | cons a as => simp [preCmp]
  · simp only [comparePrerelease, preOf, List.isEmpty_nil, List.isEmpty_cons, List.tail_cons,
      ↓reduceIte, Bool.false_eq_true]
    cases h : (splitDot bx).map toIdent with
    | nil => exact absurd h (hmap bx)
    | cons a as => simp [preCmp]
  · simp only [comparePrerelease, preOf, List.isEmpty_cons, List.tail_cons, Bool.false_eq_true,
      ↓reduceIte]
    by_cases hb : bx = by'
    · subst hb
      simp only [BEq.rfl, ↓reduceIte]
      exact (ReflCmp.compare_self (cmp := preCmp)).symm
    · have hb' : ((45 :: bx) == (45 :: by')) = false := by simpa using hb
      simp only [hb', Bool.false_eq_true, ↓reduceIte]
      rw [preCmp_of_ne_nil (hmap bx) (hmap by')]
      exact cmpIdents_eq _ _ gx gy (fun h => hb (splitDot_inj h))

/-! ### `Compare` against the specification -/

theorem compare'_eq_spec (v w : Str) (pv pw : Parsed)
    (hv : parse v = some pv) (hw : parse w = some pw) :
    compare' v w = specCmp (structure' pv) (structure' pw) := by
  obtain ⟨v1, v2, v3, v4⟩ := parse_good hv
  obtain ⟨w1, w2, w3, w4⟩ := parse_good hw
  simp only [compare', hv, hw]
  rw [compareInt_eq _ _ v1 w1, compareInt_eq _ _ v2 w2, compareInt_eq _ _ v3 w3,
    comparePrerelease_eq v4 w4]
  rfl

theorem compare'_invalid (v w : Str) :
    (parse v = none → parse w = none → compare' v w = .eq) ∧
    (parse v = none → (parse w).isSome → compare' v w = .lt) ∧
    ((parse v).isSome → parse w = none → compare' v w = .gt) := by
  refine ⟨?_, ?_, ?_⟩
  · intro hv hw; simp only [compare', hv, hw]
  · intro hv hw
    obtain ⟨pw, hw⟩ := Option.isSome_iff_exists.mp hw
    simp only [compare', hv, hw]
  · intro hv hw
    obtain ⟨pv, hv⟩ := Option.isSome_iff_exists.mp hv
    simp only [compare', hv, hw]

theorem compare'_refl (v : Str) : compare' v v = .eq := by
  cases h : parse v with
  | none => simp only [compare', h]
  | some p =>
    rw [compare'_eq_spec v v p p h h]
    exact ReflCmp.compare_self

theorem compare'_swap (v w : Str) : compare' w v = (compare' v w).swap := by
  cases hv : parse v with
  | none =>
    cases hw : parse w with
    | none => simp only [compare', hv, hw, Ordering.swap_eq]
    | some pw => simp only [compare', hv, hw, Ordering.swap_lt]
  | some pv =>
    cases hw : parse w with
    | none => simp only [compare', hv, hw, Ordering.swap_gt]
    | some pw =>
      rw [compare'_eq_spec v w pv pw hv hw, compare'_eq_spec w v pw pv hw hv]
      exact OrientedCmp.eq_swap

theorem compare'_trans (u v w : Str)
    (h1 : (compare' u v).isLE) (h2 : (compare' v w).isLE) : (compare' u w).isLE := by
  cases hu : parse u with
  | none =>
    cases hw : parse w with
    | none => simp only [compare', hu, hw, Ordering.isLE_eq]
    | some pw => simp only [compare', hu, hw, Ordering.isLE_lt]
  | some pu =>
    cases hv : parse v with
    | none =>
      simp only [compare', hu, hv] at h1
      exact absurd h1 (by decide)
    | some pv =>
      cases hw : parse w with
      | none =>
        simp only [compare', hv, hw] at h2
        exact absurd h2 (by decide)
      | some pw =>
        rw [compare'_eq_spec u v pu pv hu hv] at h1
        rw [compare'_eq_spec v w pv pw hv hw] at h2
        rw [compare'_eq_spec u w pu pw hu hw]
        exact TransCmp.isLE_trans h1 h2

theorem compare'_eq_iff (v w : Str) (pv pw : Parsed)
    (hv : parse v = some pv) (hw : parse w = some pw) :
    compare' v w = .eq ↔ structure' pv = structure' pw := by
  rw [compare'_eq_spec v w pv pw hv hw]
  exact LawfulEqCmp.compare_eq_iff_eq

end CueVerif.Semver
