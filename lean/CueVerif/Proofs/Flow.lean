/-
Proofs about the workflow-controller model (`Model/Flow.lean`) against `Spec/Flow.lean`:
the invariant `Inv` holds in every reachable state (`reachable_inv`), steps only move
forward (`step_forward`), failures stop the loop (`failure_stops`), stopped states are final
(`stopped_final`), executable schedules are runs (`runSchedule_reachable`) and the final
configuration is determined up to permutation by the set of filled results (`final_perm`).

The two facts about cycle detection (`CycleSpec`, `BlockedSpec`) are hypotheses here; they are
proved in `Proofs/FlowCycle.lean`.
Core Lean only.
-/
import CueVerif.Spec.Flow
namespace CueVerif.Flow

/-- `checkCycle` is correct (proved in Proofs/FlowCycle.lean) -/
def CycleSpec : Prop := ∀ (n : Nat) (deps : Nat → List Nat), WfDeps n deps → (checkCycle n deps = true ↔ Cyclic n deps)
/-- finite acyclic graphs have no set of mutually blocked tasks (proved in Proofs/FlowCycle.lean) -/
def BlockedSpec : Prop := ∀ (n : Nat) (deps : Nat → List Nat), WfDeps n deps → ¬ Cyclic n deps →
    ∀ (S : Nat → Prop), (∀ t, S t → t < n ∧ ∃ d, d ∈ deps t ∧ S d) → ∀ t, ¬ S t

/-! ### easy theorems -/

/-- a failed completion: the loop returns, an error is recorded, no other task is touched (nothing is dispatched) -/
theorem failure_stops (s : Ctl) (i : Nat) (fill : Bool) (g : Growth) :
    (onComplete s i false fill g).stopped = true ∧ (onComplete s i false fill g).errs = true ∧
    (onComplete s i false fill g).n = s.n ∧
    (∀ t, t ≠ i → (onComplete s i false fill g).tasks t = s.tasks t) ∧
    ((onComplete s i false fill g).tasks i).runs = (s.tasks i).runs ∧
    ((onComplete s i false fill g).tasks i).state = .terminated := by
  simp [onComplete, Ctl.setTask]
  intro t ht
  simp [ht]

/-- once the loop has returned (failure, cancellation, cycle, or normal end) nothing happens any more -/
theorem stopped_final (s s' : Ctl) (h : s.stopped = true) : ¬ Step s s' := by
  intro hs
  cases hs <;> simp_all

/-- executable schedules are runs -/
theorem runSchedule_reachable (g0 : Growth) (s : Ctl) (cs : List Completion) (h : Reachable g0 s) :
    Reachable g0 (runSchedule s cs) := by
  induction cs generalizing s with
  | nil => exact h
  | cons c cs ih =>
    unfold runSchedule
    split
    · rename_i hc
      exact ih _ (Reachable.step h (Step.complete s c.task c.ok c.fill c.grow hc.1 hc.2.1 hc.2.2))
    · exact ih _ h

/-- two configurations built from the same set of filled results are permutations of each other -/
theorem final_perm (s s' : Ctl) (h : FinalValue s) (h' : FinalValue s')
    (hsame : ∀ t, (t < s.n ∧ (s.tasks t).filled = true) ↔ (t < s'.n ∧ (s'.tasks t).filled = true)) :
    s.inst.Perm s'.inst := by
  obtain ⟨h1, _, h3, h4⟩ := h
  obtain ⟨h1', _, h3', h4'⟩ := h'
  rw [h1, h1']
  rw [List.perm_ext_iff_of_nodup h3 h3']
  intro a
  rw [h4, h4', hsame]

/-! ### states -/

theorem done_iff (st : TState) : st.done = true ↔ st = .terminated := by
  cases st <;> simp [TState.done, doneRank, TState.rank]

theorem rank_ge2 (st : TState) : 2 ≤ st.rank ↔ (st = .running ∨ st = .terminated) := by
  cases st <;> simp [TState.rank]

theorem state_cases (st : TState) : st = .waiting ∨ st = .ready ∨ st = .running ∨ st = .terminated := by
  cases st <;> simp

theorem anyState_iff (s : Ctl) (st : TState) :
    anyState s st = true ↔ ∃ i, i < s.n ∧ (s.tasks i).state = st := by
  simp [anyState, List.any_eq_true, List.mem_range]

theorem anyState_false (s : Ctl) (st : TState) :
    anyState s st = false ↔ ∀ i, i < s.n → (s.tasks i).state ≠ st := by
  rw [← Bool.not_eq_true, anyState_iff]
  simp

/-! ### the part of the invariant that holds at every intermediate point -/

/-- `Inv` without `acyclic`, `live`, `finished` -/
structure Core (s : Ctl) : Prop where
  wf : WfDeps s.n s.deps
  fresh : ∀ t, s.n ≤ t → (s.tasks t).state = .waiting ∧ (s.tasks t).deps = [] ∧
            (s.tasks t).runs = 0 ∧ (s.tasks t).filled = false ∧ (s.tasks t).startAt = none ∧
            (s.tasks t).conjSeq = 0
  once : Once s
  depsFirst : DepsFirst s
  clock_start : ∀ t k, (s.tasks t).startAt = some k → k < s.clock
  clock_end : ∀ t e, (s.tasks t).endAt = some e → e < s.clock
  term_end : ∀ t, t < s.n → ((s.tasks t).state = .terminated ↔ (s.tasks t).endAt.isSome)
  failed_errs : ∀ t, t < s.n → (s.tasks t).failed = true → s.errs = true
  failed_term : ∀ t, t < s.n → (s.tasks t).failed = true → (s.tasks t).state = .terminated
  filled_term : ∀ t, (s.tasks t).filled = true → t < s.n ∧ (s.tasks t).state = .terminated
  no_deadlock : s.deadlock = false
  value : FinalValue s
  vseq_none : ∀ t, (s.tasks t).runs = 0 → (s.tasks t).valueSeq = none

theorem Inv.core {s : Ctl} (h : Inv s) : Core s :=
  { wf := h.wf, fresh := h.fresh, once := h.once, depsFirst := h.depsFirst,
    clock_start := h.clock_start, clock_end := h.clock_end, term_end := h.term_end,
    failed_errs := h.failed_errs, failed_term := h.failed_term, filled_term := h.filled_term,
    no_deadlock := h.no_deadlock, value := h.value, vseq_none := h.vseq_none }

theorem Core.inv {s : Ctl} (h : Core s)
    (hac : s.errs = false → checkCycle s.n s.deps = false)
    (hlive : s.stopped = false → s.errs = false ∧ (∀ t, t < s.n → (s.tasks t).state ≠ .ready) ∧
            ∃ t, t < s.n ∧ (s.tasks t).state = .running)
    (hfin : s.stopped = true → s.errs = false → s.cancelled = false →
            ∀ t, t < s.n → (s.tasks t).state = .terminated) : Inv s :=
  { wf := h.wf, acyclic := hac, fresh := h.fresh, once := h.once, depsFirst := h.depsFirst,
    clock_start := h.clock_start, clock_end := h.clock_end, term_end := h.term_end,
    failed_errs := h.failed_errs, failed_term := h.failed_term, filled_term := h.filled_term,
    live := hlive, no_deadlock := h.no_deadlock, finished := hfin, value := h.value,
    vseq_none := h.vseq_none }

/-- what holds just before `markReady; loopHead`: -/
structure Pre (s : Ctl) : Prop where
  core : Core s
  acyclic : s.errs = false → checkCycle s.n s.deps = false
  noReady : ∀ t, t < s.n → (s.tasks t).state ≠ .ready
  running : s.stopped = false

/-- the monotonicity statement of `step_forward`, for one task -/
def Fwd (s s' : Ctl) : Prop :=
  ∀ t, (s.tasks t).state.rank ≤ (s'.tasks t).state.rank ∧
    (s.tasks t).runs ≤ (s'.tasks t).runs ∧
    (∀ k, (s.tasks t).startAt = some k → (s'.tasks t).startAt = some k ∧
      (s'.tasks t).startDeps = (s.tasks t).startDeps ∧ (s'.tasks t).startSeen = (s.tasks t).startSeen) ∧
    s.n ≤ s'.n ∧
    (∀ d, d ∈ (s.tasks t).deps → d ∈ (s'.tasks t).deps)

theorem Fwd.refl (s : Ctl) : Fwd s s := by
  intro t; simp

theorem Fwd.trans {a b c : Ctl} (h1 : Fwd a b) (h2 : Fwd b c) : Fwd a c := by
  intro t
  obtain ⟨a1, a2, a3, a4, a5⟩ := h1 t
  obtain ⟨b1, b2, b3, b4, b5⟩ := h2 t
  refine ⟨by omega, by omega, ?_, by omega, fun d hd => b5 d (a5 d hd)⟩
  intro k hk
  obtain ⟨x1, x2, x3⟩ := a3 k hk
  obtain ⟨y1, y2, y3⟩ := b3 k x1
  exact ⟨y1, by rw [y2, x2], by rw [y3, x3]⟩

/-! ### `updateValue`, `updateTaskValue` -/

theorem updateValue_synced (s : Ctl) (h : s.valueSeq = s.conjSeq) : updateValue s = (s, false) := by
  simp [updateValue, h]

/-- with an up-to-date configuration `updateTaskValue` only writes `seen`/`valueSeq` of task `i` -/
theorem updateTaskValue_synced (s : Ctl) (i : Nat) (h : s.valueSeq = s.conjSeq) :
    ∃ sn vs, updateTaskValue s i = s.setTask i { s.tasks i with seen := sn, valueSeq := some vs } ∧
      ((s.tasks i).valueSeq = none → sn = s.inst) := by
  unfold updateTaskValue
  simp only [updateValue_synced s h]
  split
  · rename_i hv
    refine ⟨(s.tasks i).seen, maxSeq s (s.tasks i).deps (s.tasks i).conjSeq, ?_, ?_⟩
    · rw [← hv]
      cases s
      simp only [Ctl.setTask, Ctl.mk.injEq, true_and, and_true]
      funext j
      split
      · subst j; rfl
      · rfl
    · intro h0; rw [h0] at hv; cases hv
  · refine ⟨s.inst, maxSeq s (s.tasks i).deps (s.tasks i).conjSeq, ?_, fun _ => rfl⟩
    simp

/-! ### dispatch -/

/-- what `dispatchOne` does to the task it starts -/
def dispTask (t : Task) (c : Nat) (sn : List Nat) (vs : Nat) : Task :=
  { t with state := .running, seen := sn, valueSeq := some vs, runs := t.runs + 1,
           startAt := some c, startDeps := t.deps, startSeen := sn }

def dispCtl (s : Ctl) (i : Nat) (sn : List Nat) (vs : Nat) : Ctl :=
  { s with clock := s.clock + 1,
           tasks := fun j => if j = i then dispTask (s.tasks i) s.clock sn vs else s.tasks j }

theorem dispatchOne_eq (s : Ctl) (i : Nat) (h : s.valueSeq = s.conjSeq) :
    ∃ sn vs, dispatchOne s i = dispCtl s i sn vs ∧
      ((s.tasks i).valueSeq = none → sn = s.inst) := by
  unfold dispatchOne
  obtain ⟨sn, vs, he, hs⟩ := updateTaskValue_synced
    (s.setTask i { s.tasks i with state := .running }) i (by simpa [Ctl.setTask] using h)
  refine ⟨sn, vs, ?_, ?_⟩
  · simp only [he]
    simp only [Ctl.setTask, dispTask, dispCtl, if_true]
    congr 1
    funext j
    split <;> rfl
  · intro h0
    apply hs
    simpa [Ctl.setTask] using h0

/-- pointwise description of the dispatch loop -/
theorem dispatchLoop_spec (k i : Nat) (s : Ctl) (h : s.valueSeq = s.conjSeq) :
    ∃ c' f, dispatchLoop k i s = { s with clock := c', tasks := f } ∧ s.clock ≤ c' ∧
      ∀ j, (¬ (i ≤ j ∧ j < i + k ∧ (s.tasks j).state = .ready) → f j = s.tasks j) ∧
        ((i ≤ j ∧ j < i + k ∧ (s.tasks j).state = .ready) → ∃ c sn vs,
          f j = dispTask (s.tasks j) c sn vs ∧ s.clock ≤ c ∧ c < c' ∧
          ((s.tasks j).valueSeq = none → sn = s.inst)) := by
  induction k generalizing i s with
  | zero =>
    refine ⟨s.clock, s.tasks, rfl, Nat.le_refl _, ?_⟩
    intro j
    refine ⟨fun _ => rfl, fun hj => ?_⟩
    omega
  | succ k ih =>
    unfold dispatchLoop
    split
    · rename_i hr
      obtain ⟨sn, vs, he, hs⟩ := dispatchOne_eq s i h
      rw [he]
      obtain ⟨c', f, e1, e2, e3⟩ := ih (i + 1) (dispCtl s i sn vs) h
      have e2' : s.clock + 1 ≤ c' := e2
      refine ⟨c', f, by rw [e1]; rfl, by omega, ?_⟩
      intro j
      obtain ⟨f1, f2⟩ := e3 j
      simp only [dispCtl] at f1 f2
      by_cases hji : j = i
      · subst hji
        refine ⟨fun hn => ?_, fun _ => ?_⟩
        · exact absurd ⟨Nat.le_refl _, by omega, hr⟩ hn
        · refine ⟨s.clock, sn, vs, ?_, Nat.le_refl _, by omega, hs⟩
          rw [f1 (by omega)]
          simp
      · simp only [hji, if_false] at f1 f2
        refine ⟨fun hn => ?_, fun hy => ?_⟩
        · apply f1
          intro hh; apply hn
          exact ⟨by omega, by omega, hh.2.2⟩
        · obtain ⟨c, sn', vs', g1, g2, g3, g4⟩ := f2 ⟨by omega, by omega, hy.2.2⟩
          exact ⟨c, sn', vs', g1, by omega, g3, g4⟩
    · rename_i hr
      obtain ⟨c', f, e1, e2, e3⟩ := ih (i + 1) s h
      refine ⟨c', f, e1, e2, ?_⟩
      intro j
      obtain ⟨f1, f2⟩ := e3 j
      refine ⟨fun hn => ?_, fun hy => ?_⟩
      · apply f1
        intro hh; apply hn
        exact ⟨by omega, by omega, hh.2.2⟩
      · have : j ≠ i := by intro hji; subst hji; exact hr hy.2.2
        exact f2 ⟨by omega, by omega, hy.2.2⟩

/-! ### `markReady` followed by the dispatch loop -/

/-- the tasks `markReady` marks -/
def Rdy (s : Ctl) (t : Nat) : Prop :=
  t < s.n ∧ (s.tasks t).state = .waiting ∧ isReady s t = true

/-- `f` is the task table after all the tasks that became ready have been dispatched -/
def DispAll (s : Ctl) (c' : Nat) (f : Nat → Task) : Prop :=
  s.clock ≤ c' ∧ ∀ t,
    (Rdy s t → ∃ c sn vs, f t = dispTask (s.tasks t) c sn vs ∧ s.clock ≤ c ∧ c < c' ∧
        ((s.tasks t).valueSeq = none → sn = s.inst)) ∧
    (¬ Rdy s t → f t = s.tasks t)

theorem tail_spec (s : Ctl) (hsync : s.valueSeq = s.conjSeq)
    (hnr : ∀ t, t < s.n → (s.tasks t).state ≠ .ready) :
    ∃ c' f, dispatchLoop s.n 0 (markReady s) = { s with clock := c', tasks := f } ∧ DispAll s c' f := by
  obtain ⟨c', f, e1, e2, e3⟩ := dispatchLoop_spec s.n 0 (markReady s) hsync
  refine ⟨c', f, e1, e2, ?_⟩
  intro t
  obtain ⟨f1, f2⟩ := e3 t
  refine ⟨fun hr => ?_, fun hn => ?_⟩
  · have hm : (markReady s).tasks t = { s.tasks t with state := .ready } := by
      simp only [markReady]
      exact if_pos hr
    rw [hm] at f2
    obtain ⟨c, sn, vs, g1, g2, g3, g4⟩ := f2 ⟨Nat.zero_le _, by have := hr.1; omega, rfl⟩
    exact ⟨c, sn, vs, g1, g2, g3, g4⟩
  · have hm : (markReady s).tasks t = s.tasks t := by
      simp only [markReady]
      exact if_neg hn
    rw [hm] at f1
    apply f1
    intro hh
    exact hnr t (by omega) hh.2.2

theorem rdy_facts {s : Ctl} (hc : Core s) {t : Nat} (h : Rdy s t) :
    (s.tasks t).runs = 0 ∧ (s.tasks t).startAt = none ∧ (s.tasks t).endAt = none ∧
    (s.tasks t).failed = false ∧ (s.tasks t).filled = false ∧ (s.tasks t).valueSeq = none := by
  obtain ⟨h1, h2, h3⟩ := h
  obtain ⟨o1, o2, o3⟩ := hc.once t h1
  have hr : (s.tasks t).runs = 0 := by
    rw [h2] at o2; simp [TState.rank] at o2; omega
  refine ⟨hr, ?_, ?_, ?_, ?_, hc.vseq_none t hr⟩
  · cases hs : (s.tasks t).startAt with
    | none => rfl
    | some k => rw [hs] at o3; simp at o3; omega
  · have := hc.term_end t h1
    rw [h2] at this
    cases he : (s.tasks t).endAt with
    | none => rfl
    | some k => rw [he] at this; simp at this
  · cases hf : (s.tasks t).failed with
    | false => rfl
    | true => have := hc.failed_term t h1 hf; rw [h2] at this; cases this
  · cases hf : (s.tasks t).filled with
    | false => rfl
    | true => have := (hc.filled_term t hf).2; rw [h2] at this; cases this

theorem rdy_dep {s : Ctl} (hc : Core s) (he : s.errs = false) {t : Nat} (h : Rdy s t) {d : Nat}
    (hd : d ∈ (s.tasks t).deps) :
    d < s.n ∧ d ≠ t ∧ (s.tasks d).state = .terminated ∧ ¬ Rdy s d ∧ (s.tasks d).failed = false ∧
    (∃ e, (s.tasks d).endAt = some e ∧ e < s.clock) ∧ ((s.tasks d).filled = true → d ∈ s.inst) := by
  obtain ⟨h1, h2, h3⟩ := h
  obtain ⟨w1, w2⟩ := hc.wf t h1 d hd
  have hterm : (s.tasks d).state = .terminated := by
    simp only [isReady, List.all_eq_true] at h3
    exact (done_iff _).1 (h3 d hd)
  refine ⟨w1, w2, hterm, ?_, ?_, ?_, ?_⟩
  · intro hr; rw [hr.2.1] at hterm; cases hterm
  · cases hf : (s.tasks d).failed with
    | false => rfl
    | true => have := hc.failed_errs d w1 hf; rw [he] at this; cases this
  · have := (hc.term_end d w1).1 hterm
    cases hx : (s.tasks d).endAt with
    | none => rw [hx] at this; cases this
    | some e => exact ⟨e, rfl, hc.clock_end d e hx⟩
  · intro hf
    obtain ⟨v1, _, _, v4⟩ := hc.value
    rw [v1, v4]
    exact ⟨w1, hf⟩

theorem core_dispatched {s : Ctl} (hc : Core s) (he : s.errs = false) {c' : Nat} {f : Nat → Task}
    (hf : DispAll s c' f) : Core { s with clock := c', tasks := f } := by
  obtain ⟨hcl, hf⟩ := hf
  have same : ∀ t, (f t).deps = (s.tasks t).deps ∧ (f t).filled = (s.tasks t).filled ∧
      (f t).failed = (s.tasks t).failed ∧ (f t).endAt = (s.tasks t).endAt ∧
      (f t).conjSeq = (s.tasks t).conjSeq := by
    intro t
    by_cases h : Rdy s t
    · obtain ⟨c, sn, vs, e, _⟩ := (hf t).1 h
      rw [e]; simp [dispTask]
    · rw [(hf t).2 h]; simp
  have hout : ∀ t, s.n ≤ t → f t = s.tasks t := by
    intro t ht
    apply (hf t).2
    intro hr; have := hr.1; omega
  constructor
  · intro t ht d hd
    simp only [Ctl.deps] at hd
    rw [(same t).1] at hd
    exact hc.wf t ht d hd
  · intro t ht
    simp only at ht ⊢
    rw [hout t ht]
    exact hc.fresh t ht
  · intro t ht
    simp only at ht ⊢
    by_cases h : Rdy s t
    · obtain ⟨c, sn, vs, e, _⟩ := (hf t).1 h
      obtain ⟨r1, r2, _⟩ := rdy_facts hc h
      rw [e]
      simp [dispTask, r1, TState.rank]
    · rw [(hf t).2 h]
      exact hc.once t ht
  · intro t ht k hk d hd
    simp only at ht hk hd ⊢
    by_cases h : Rdy s t
    · obtain ⟨c, sn, vs, e, e1, e2, e3⟩ := (hf t).1 h
      obtain ⟨r1, r2, r3, r4, r5, r6⟩ := rdy_facts hc h
      rw [e] at hk hd ⊢
      simp only [dispTask] at hk hd ⊢
      obtain ⟨d1, d2, d3, d4, d5, d6, d7⟩ := rdy_dep hc he h hd
      rw [(hf d).2 d4]
      refine ⟨d1, d2, d3, d5, ?_, ?_⟩
      · obtain ⟨e', x1, x2⟩ := d6
        refine ⟨e', x1, ?_⟩
        cases hk; omega
      · intro hfl
        rw [e3 r6]
        exact d7 hfl
    · rw [(hf t).2 h] at hk hd ⊢
      obtain ⟨d1, d2, d3, d4, d5, d6⟩ := hc.depsFirst t ht k hk d hd
      have hnd : ¬ Rdy s d := by
        intro hr; rw [hr.2.1] at d3; cases d3
      rw [(hf d).2 hnd]
      exact ⟨d1, d2, d3, d4, d5, d6⟩
  · intro t k hk
    simp only at hk ⊢
    by_cases h : Rdy s t
    · obtain ⟨c, sn, vs, e, e1, e2, e3⟩ := (hf t).1 h
      rw [e] at hk
      simp only [dispTask] at hk
      cases hk; exact e2
    · rw [(hf t).2 h] at hk
      have := hc.clock_start t k hk
      omega
  · intro t e hk
    simp only at hk ⊢
    rw [(same t).2.2.2.1] at hk
    have := hc.clock_end t e hk
    omega
  · intro t ht
    simp only at ht ⊢
    by_cases h : Rdy s t
    · obtain ⟨c, sn, vs, e, _⟩ := (hf t).1 h
      obtain ⟨r1, r2, r3, r4, r5, r6⟩ := rdy_facts hc h
      rw [e]
      simp [dispTask, r3]
    · rw [(hf t).2 h]
      exact hc.term_end t ht
  · intro t ht hfl
    simp only at ht hfl ⊢
    rw [(same t).2.2.1] at hfl
    exact hc.failed_errs t ht hfl
  · intro t ht hfl
    simp only at ht hfl ⊢
    by_cases h : Rdy s t
    · obtain ⟨r1, r2, r3, r4, r5, r6⟩ := rdy_facts hc h
      rw [(same t).2.2.1, r4] at hfl
      cases hfl
    · rw [(hf t).2 h] at hfl ⊢
      exact hc.failed_term t ht hfl
  · intro t hfl
    simp only at hfl ⊢
    by_cases h : Rdy s t
    · obtain ⟨r1, r2, r3, r4, r5, r6⟩ := rdy_facts hc h
      rw [(same t).2.1, r5] at hfl
      cases hfl
    · rw [(hf t).2 h] at hfl ⊢
      exact hc.filled_term t hfl
  · exact hc.no_deadlock
  · obtain ⟨v1, v2, v3, v4⟩ := hc.value
    refine ⟨v1, v2, v3, ?_⟩
    intro t
    simp only
    rw [(same t).2.1]
    exact v4 t
  · intro t hr
    simp only at hr ⊢
    by_cases h : Rdy s t
    · obtain ⟨c, sn, vs, e, _⟩ := (hf t).1 h
      rw [e] at hr
      simp [dispTask] at hr
    · rw [(hf t).2 h] at hr ⊢
      exact hc.vseq_none t hr

theorem Core.stop {s : Ctl} (h : Core s) : Core { s with stopped := true } :=
  ⟨h.wf, h.fresh, h.once, h.depsFirst, h.clock_start, h.clock_end, h.term_end, h.failed_errs,
   h.failed_term, h.filled_term, h.no_deadlock, h.value, h.vseq_none⟩

theorem Core.cancel {s : Ctl} (h : Core s) : Core { s with stopped := true, cancelled := true } :=
  ⟨h.wf, h.fresh, h.once, h.depsFirst, h.clock_start, h.clock_end, h.term_end, h.failed_errs,
   h.failed_term, h.filled_term, h.no_deadlock, h.value, h.vseq_none⟩

theorem Core.setErrs {s : Ctl} (h : Core s) : Core { s with errs := true } :=
  ⟨h.wf, h.fresh, h.once, h.depsFirst, h.clock_start, h.clock_end, h.term_end, fun _ _ _ => rfl,
   h.failed_term, h.filled_term, h.no_deadlock, h.value, h.vseq_none⟩

theorem markReady_task (s : Ctl) (t : Nat) :
    ((markReady s).tasks t = s.tasks t) ∨
    ((s.tasks t).state = .waiting ∧ (markReady s).tasks t = { s.tasks t with state := .ready }) := by
  simp only [markReady]
  split
  · rename_i h; exact Or.inr ⟨h.2.1, rfl⟩
  · exact Or.inl rfl

theorem core_markReady {s : Ctl} (hc : Core s) : Core (markReady s) := by
  have hn : (markReady s).n = s.n := rfl
  have same : ∀ t, ((markReady s).tasks t).deps = (s.tasks t).deps ∧
      ((markReady s).tasks t).filled = (s.tasks t).filled ∧
      ((markReady s).tasks t).failed = (s.tasks t).failed ∧
      ((markReady s).tasks t).endAt = (s.tasks t).endAt ∧
      ((markReady s).tasks t).conjSeq = (s.tasks t).conjSeq ∧
      ((markReady s).tasks t).runs = (s.tasks t).runs ∧
      ((markReady s).tasks t).startAt = (s.tasks t).startAt ∧
      ((markReady s).tasks t).startDeps = (s.tasks t).startDeps ∧
      ((markReady s).tasks t).startSeen = (s.tasks t).startSeen ∧
      ((markReady s).tasks t).valueSeq = (s.tasks t).valueSeq ∧
      (((markReady s).tasks t).state = .terminated ↔ (s.tasks t).state = .terminated) ∧
      (2 ≤ ((markReady s).tasks t).state.rank ↔ 2 ≤ (s.tasks t).state.rank) := by
    intro t
    rcases markReady_task s t with h | ⟨h1, h2⟩
    · rw [h]; simp
    · rw [h2, h1]; simp [TState.rank]
  have hout : ∀ t, s.n ≤ t → (markReady s).tasks t = s.tasks t := by
    intro t ht
    simp only [markReady]
    apply if_neg
    intro h; omega
  constructor
  · intro t ht d hd
    simp only [Ctl.deps] at hd
    rw [(same t).1] at hd
    exact hc.wf t ht d hd
  · intro t ht
    rw [hout t ht]
    exact hc.fresh t ht
  · intro t ht
    obtain ⟨_, _, _, _, _, s6, s7, _, _, _, _, s12⟩ := same t
    rw [s6, s7, s12]
    exact hc.once t ht
  · intro t ht k hk d hd
    obtain ⟨_, _, _, _, _, _, s7, s8, s9, _⟩ := same t
    rw [s7] at hk
    rw [s8] at hd
    obtain ⟨d1, d2, d3, d4, d5, d6⟩ := hc.depsFirst t ht k hk d hd
    obtain ⟨_, t2, t3, t4, _, _, _, _, _, _, t11, _⟩ := same d
    rw [t2, t3, t4, t11, s9]
    exact ⟨d1, d2, d3, d4, d5, d6⟩
  · intro t k hk
    rw [(same t).2.2.2.2.2.2.1] at hk
    exact hc.clock_start t k hk
  · intro t e hk
    rw [(same t).2.2.2.1] at hk
    exact hc.clock_end t e hk
  · intro t ht
    obtain ⟨_, _, _, s4, _, _, _, _, _, _, s11, _⟩ := same t
    rw [s4, s11]
    exact hc.term_end t ht
  · intro t ht hfl
    rw [(same t).2.2.1] at hfl
    exact hc.failed_errs t ht hfl
  · intro t ht hfl
    obtain ⟨_, _, s3, _, _, _, _, _, _, _, s11, _⟩ := same t
    rw [s3] at hfl
    rw [s11]
    exact hc.failed_term t ht hfl
  · intro t hfl
    obtain ⟨_, s2, _, _, _, _, _, _, _, _, s11, _⟩ := same t
    rw [s2] at hfl
    rw [s11]
    exact hc.filled_term t hfl
  · exact hc.no_deadlock
  · obtain ⟨v1, v2, v3, v4⟩ := hc.value
    refine ⟨v1, v2, v3, ?_⟩
    intro t
    rw [(same t).2.1]
    exact v4 t
  · intro t hr
    obtain ⟨_, _, _, _, _, s6, _, _, _, s10, _⟩ := same t
    rw [s6] at hr
    rw [s10]
    exact hc.vseq_none t hr

theorem fwd_markReady (s : Ctl) : Fwd s (markReady s) := by
  intro t
  have hn : (markReady s).n = s.n := rfl
  rcases markReady_task s t with h | ⟨h1, h2⟩
  · rw [h, hn]; simp
  · rw [h2, h1, hn]; simp [TState.rank]

theorem fwd_dispatched {s : Ctl} (hc : Core s) {c' : Nat} {f : Nat → Task}
    (hf : DispAll s c' f) : Fwd s { s with clock := c', tasks := f } := by
  intro t
  simp only
  by_cases h : Rdy s t
  · obtain ⟨c, sn, vs, e, _⟩ := (hf.2 t).1 h
    obtain ⟨r1, r2, _⟩ := rdy_facts hc h
    rw [e, h.2.1, r2]
    simp [dispTask, TState.rank]
  · rw [(hf.2 t).2 h]; simp

/-- the common tail of `start` and `onComplete`: `markReady`, then the loop head -/
theorem tail_inv (hcs : CycleSpec) (hbs : BlockedSpec) {s : Ctl} (hp : Pre s) :
    Inv (loopHead (markReady s)) ∧ Fwd s (loopHead (markReady s)) := by
  have hc := hp.core
  unfold loopHead
  by_cases he : s.errs = true
  · have he' : (markReady s).errs = true := he
    rw [if_pos he']
    refine ⟨?_, fwd_markReady s⟩
    apply (core_markReady hc).stop.inv
    · intro h; rw [he'] at h; cases h
    · intro h; cases h
    · intro _ h; rw [he'] at h; cases h
  · have he : s.errs = false := by simpa using he
    have he' : ¬ ((markReady s).errs = true) := by
      show ¬ (s.errs = true)
      rw [he]; simp
    rw [if_neg he']
    obtain ⟨c', f, e, hd⟩ := tail_spec s hc.value.2.1 hp.noReady
    simp only
    rw [show (markReady s).n = s.n from rfl, e]
    have hcore := core_dispatched hc he hd
    have hfwd := fwd_dispatched hc hd
    -- states after dispatch
    have hstate : ∀ t, (Rdy s t → (f t).state = .running) ∧
        (¬ Rdy s t → (f t).state = (s.tasks t).state) := by
      intro t
      refine ⟨fun h => ?_, fun h => ?_⟩
      · obtain ⟨c, sn, vs, e, _⟩ := (hd.2 t).1 h
        rw [e]; rfl
      · rw [(hd.2 t).2 h]
    have hdeps : ∀ t, (f t).deps = (s.tasks t).deps := by
      intro t
      by_cases h : Rdy s t
      · obtain ⟨c, sn, vs, e, _⟩ := (hd.2 t).1 h
        rw [e]; rfl
      · rw [(hd.2 t).2 h]
    have hnoready : ∀ t, t < s.n → (f t).state ≠ .ready := by
      intro t ht
      by_cases h : Rdy s t
      · rw [(hstate t).1 h]; simp
      · rw [(hstate t).2 h]; exact hp.noReady t ht
    have hdepsfun : Ctl.deps { s with clock := c', tasks := f } = s.deps := by
      funext t
      exact hdeps t
    have hacyc : checkCycle s.n (Ctl.deps { s with clock := c', tasks := f }) = false := by
      rw [hdepsfun]; exact hp.acyclic he
    split
    · rename_i hrun
      refine ⟨?_, hfwd⟩
      apply hcore.inv
      · intro _; exact hacyc
      · intro _
        refine ⟨he, hnoready, ?_⟩
        exact (anyState_iff _ _).1 hrun
      · intro h
        have : s.stopped = true := h
        rw [hp.running] at this; cases this
    · rename_i hrun
      have hrun : ∀ t, t < s.n → (f t).state ≠ .running := by
        have := (anyState_false { s with clock := c', tasks := f } .running).1 (by simpa using hrun)
        exact this
      split
      · rename_i hwait
        exfalso
        obtain ⟨t0, ht0, hw0⟩ := (anyState_iff _ _).1 hwait
        have hncyc : ¬ Cyclic s.n s.deps := by
          intro hcy
          have := (hcs s.n s.deps hc.wf).2 hcy
          rw [hp.acyclic he] at this; cases this
        refine hbs s.n s.deps hc.wf hncyc (fun t => t < s.n ∧ (f t).state = .waiting) ?_ t0 ⟨ht0, hw0⟩
        intro t ⟨ht, hw⟩
        refine ⟨ht, ?_⟩
        have hnr : ¬ Rdy s t := by
          intro h; rw [(hstate t).1 h] at hw; cases hw
        rw [(hstate t).2 hnr] at hw
        have hnotready : isReady s t = false := by
          cases hr : isReady s t with
          | false => rfl
          | true => exact absurd ⟨ht, hw, hr⟩ hnr
        simp only [isReady, List.all_eq_false] at hnotready
        obtain ⟨d, hd1, hd2⟩ := hnotready
        have hdn := (hc.wf t ht d hd1).1
        refine ⟨d, hd1, hdn, ?_⟩
        have hnd : ¬ Rdy s d := by
          intro h; exact hrun d hdn ((hstate d).1 h)
        have hsd := (hstate d).2 hnd
        rcases state_cases (s.tasks d).state with h | h | h | h
        · rw [hsd, h]
        · exact absurd h (hp.noReady d hdn)
        · exact absurd (hsd.trans h) (hrun d hdn)
        · rw [h] at hd2; simp [TState.done, doneRank, TState.rank] at hd2
      · rename_i hwait
        have hwait : ∀ t, t < s.n → (f t).state ≠ .waiting := by
          have := (anyState_false { s with clock := c', tasks := f } .waiting).1 (by simpa using hwait)
          exact this
        refine ⟨?_, hfwd⟩
        apply hcore.stop.inv
        · intro _; exact hacyc
        · intro h; cases h
        · intro _ _ _ t ht
          rcases state_cases (f t).state with h | h | h | h
          · exact absurd h (hwait t ht)
          · exact absurd h (hnoready t ht)
          · exact absurd h (hrun t ht)
          · exact h

/-! ### stages of `onComplete` -/

/-- `Pre` without `acyclic` -/
structure Mid (s : Ctl) : Prop where
  core : Core s
  noReady : ∀ t, t < s.n → (s.tasks t).state ≠ .ready
  running : s.stopped = false

/-- replacing task fields that the invariant does not constrain (`seen`, `valueSeq` of tasks
that ran) and extending dependency lists inside `wf` keeps `Core` -/
theorem core_congr {s : Ctl} (hc : Core s) {f : Nat → Task}
    (same : ∀ t, (f t).state = (s.tasks t).state ∧ (f t).conjSeq = (s.tasks t).conjSeq ∧
      (f t).filled = (s.tasks t).filled ∧ (f t).failed = (s.tasks t).failed ∧
      (f t).runs = (s.tasks t).runs ∧ (f t).startAt = (s.tasks t).startAt ∧
      (f t).endAt = (s.tasks t).endAt ∧ (f t).startDeps = (s.tasks t).startDeps ∧
      (f t).startSeen = (s.tasks t).startSeen)
    (hwf : WfDeps s.n (fun t => (f t).deps)) (hfr : ∀ t, s.n ≤ t → (f t).deps = [])
    (hv : ∀ t, (s.tasks t).runs = 0 → (f t).valueSeq = none) : Core { s with tasks := f } := by
  constructor
  · exact hwf
  · intro t ht
    obtain ⟨s1, s2, s3, s4, s5, s6, s7, s8, s9⟩ := same t
    simp only at ht ⊢
    rw [s1, s2, s3, s5, s6, hfr t ht]
    obtain ⟨f1, f2, f3, f4, f5, f6⟩ := hc.fresh t ht
    exact ⟨f1, rfl, f3, f4, f5, f6⟩
  · intro t ht
    obtain ⟨s1, s2, s3, s4, s5, s6, s7, s8, s9⟩ := same t
    simp only at ht ⊢
    rw [s1, s5, s6]
    exact hc.once t ht
  · intro t ht k hk d hd
    obtain ⟨s1, s2, s3, s4, s5, s6, s7, s8, s9⟩ := same t
    simp only at ht hk hd ⊢
    rw [s6] at hk
    rw [s8] at hd
    obtain ⟨t1, t2, t3, t4, t5, t6, t7, t8, t9⟩ := same d
    rw [t1, t3, t4, t7, s9]
    exact hc.depsFirst t ht k hk d hd
  · intro t k hk
    simp only at hk ⊢
    rw [(same t).2.2.2.2.2.1] at hk
    exact hc.clock_start t k hk
  · intro t e hk
    simp only at hk ⊢
    rw [(same t).2.2.2.2.2.2.1] at hk
    exact hc.clock_end t e hk
  · intro t ht
    obtain ⟨s1, s2, s3, s4, s5, s6, s7, s8, s9⟩ := same t
    simp only at ht ⊢
    rw [s1, s7]
    exact hc.term_end t ht
  · intro t ht hfl
    simp only at ht hfl ⊢
    rw [(same t).2.2.2.1] at hfl
    exact hc.failed_errs t ht hfl
  · intro t ht hfl
    obtain ⟨s1, s2, s3, s4, s5, s6, s7, s8, s9⟩ := same t
    simp only at ht hfl ⊢
    rw [s4] at hfl
    rw [s1]
    exact hc.failed_term t ht hfl
  · intro t hfl
    obtain ⟨s1, s2, s3, s4, s5, s6, s7, s8, s9⟩ := same t
    simp only at hfl ⊢
    rw [s3] at hfl
    rw [s1]
    exact hc.filled_term t hfl
  · exact hc.no_deadlock
  · obtain ⟨v1, v2, v3, v4⟩ := hc.value
    refine ⟨v1, v2, v3, ?_⟩
    intro t
    simp only
    rw [(same t).2.2.1]
    exact v4 t
  · intro t hr
    simp only at hr ⊢
    rw [(same t).2.2.2.2.1] at hr
    exact hv t hr

/-- same, for `Mid` and `Fwd` -/
theorem mid_congr {s : Ctl} (hm : Mid s) {f : Nat → Task}
    (same : ∀ t, (f t).state = (s.tasks t).state ∧ (f t).conjSeq = (s.tasks t).conjSeq ∧
      (f t).filled = (s.tasks t).filled ∧ (f t).failed = (s.tasks t).failed ∧
      (f t).runs = (s.tasks t).runs ∧ (f t).startAt = (s.tasks t).startAt ∧
      (f t).endAt = (s.tasks t).endAt ∧ (f t).startDeps = (s.tasks t).startDeps ∧
      (f t).startSeen = (s.tasks t).startSeen)
    (hwf : WfDeps s.n (fun t => (f t).deps)) (hfr : ∀ t, s.n ≤ t → (f t).deps = [])
    (hsub : ∀ t d, d ∈ (s.tasks t).deps → d ∈ (f t).deps)
    (hv : ∀ t, (s.tasks t).runs = 0 → (f t).valueSeq = none) :
    Mid { s with tasks := f } ∧ Fwd s { s with tasks := f } := by
  refine ⟨⟨core_congr hm.core same hwf hfr hv, ?_, hm.running⟩, ?_⟩
  · intro t ht
    simp only at ht ⊢
    rw [(same t).1]
    exact hm.noReady t ht
  · intro t
    obtain ⟨s1, s2, s3, s4, s5, s6, s7, s8, s9⟩ := same t
    simp only
    rw [s1, s5, s6, s8, s9]
    exact ⟨Nat.le_refl _, Nat.le_refl _, fun k hk => ⟨hk, rfl, rfl⟩, Nat.le_refl _, hsub t⟩

theorem mid_updateTaskValue {s : Ctl} (hm : Mid s) (i : Nat) (hr : (s.tasks i).runs ≠ 0) :
    Mid (updateTaskValue s i) ∧ Fwd s (updateTaskValue s i) ∧
    (updateTaskValue s i).errs = s.errs ∧ (updateTaskValue s i).n = s.n ∧
    (updateTaskValue s i).deps = s.deps := by
  obtain ⟨sn, vs, e, _⟩ := updateTaskValue_synced s i hm.core.value.2.1
  rw [e]
  have same : ∀ t, ((s.setTask i { s.tasks i with seen := sn, valueSeq := some vs }).tasks t).deps =
      (s.tasks t).deps := by
    intro t
    simp only [Ctl.setTask]
    split
    · rename_i h; subst h; rfl
    · rfl
  have := mid_congr hm (f := (s.setTask i { s.tasks i with seen := sn, valueSeq := some vs }).tasks)
    (by
      intro t
      simp only [Ctl.setTask]
      split
      · rename_i h; subst h; simp
      · simp)
    (by
      intro t ht d hd
      simp only [same] at hd
      exact hm.core.wf t ht d hd)
    (by
      intro t ht
      rw [same]
      exact (hm.core.fresh t ht).2.1)
    (by
      intro t d hd
      rw [same]; exact hd)
    (by
      intro t h0
      simp only [Ctl.setTask]
      split
      · rename_i h; subst h; exact absurd h0 hr
      · exact hm.core.vseq_none t h0)
  refine ⟨this.1, this.2, rfl, rfl, ?_⟩
  funext t
  exact same t

/-! ### `initTasks` -/

/-- the first step of `initTasks`: register `k` new tasks -/
def extend (s : Ctl) (k : Nat) : Ctl :=
  { s with n := s.n + k, tasks := fun i => if i < s.n then s.tasks i else {} }

theorem mid_extend {s : Ctl} (hm : Mid s) (k : Nat) : Mid (extend s k) ∧ Fwd s (extend s k) := by
  have hc := hm.core
  have hin : ∀ t, t < s.n → (extend s k).tasks t = s.tasks t := by
    intro t ht; simp only [extend]; exact if_pos ht
  have hout : ∀ t, s.n ≤ t → (extend s k).tasks t = {} := by
    intro t ht; simp only [extend]; exact if_neg (by omega)
  have hn : (extend s k).n = s.n + k := rfl
  refine ⟨⟨?_, ?_, hm.running⟩, ?_⟩
  · constructor
    · intro t ht d hd
      simp only [Ctl.deps] at hd
      by_cases h : t < s.n
      · rw [hin t h] at hd
        have := hc.wf t h d hd
        rw [hn]; exact ⟨by omega, this.2⟩
      · rw [hout t (by omega)] at hd
        cases hd
    · intro t ht
      rw [hn] at ht
      rw [hout t (by omega)]
      simp
    · intro t ht
      by_cases h : t < s.n
      · rw [hin t h]; exact hc.once t h
      · rw [hout t (by omega)]; simp [TState.rank]
    · intro t ht k' hk d hd
      by_cases h : t < s.n
      · rw [hin t h] at hk hd ⊢
        obtain ⟨d1, d2, d3, d4, d5, d6⟩ := hc.depsFirst t h k' hk d hd
        rw [hin d d1, hn]
        exact ⟨by omega, d2, d3, d4, d5, d6⟩
      · rw [hout t (by omega)] at hk
        cases hk
    · intro t k' hk
      by_cases h : t < s.n
      · rw [hin t h] at hk; exact hc.clock_start t k' hk
      · rw [hout t (by omega)] at hk; cases hk
    · intro t e hk
      by_cases h : t < s.n
      · rw [hin t h] at hk; exact hc.clock_end t e hk
      · rw [hout t (by omega)] at hk; cases hk
    · intro t ht
      by_cases h : t < s.n
      · rw [hin t h]; exact hc.term_end t h
      · rw [hout t (by omega)]; simp
    · intro t ht hfl
      by_cases h : t < s.n
      · rw [hin t h] at hfl; exact hc.failed_errs t h hfl
      · rw [hout t (by omega)] at hfl; cases hfl
    · intro t ht hfl
      by_cases h : t < s.n
      · rw [hin t h] at hfl ⊢; exact hc.failed_term t h hfl
      · rw [hout t (by omega)] at hfl; cases hfl
    · intro t hfl
      by_cases h : t < s.n
      · rw [hin t h] at hfl ⊢
        have := hc.filled_term t hfl
        rw [hn]; exact ⟨by omega, this.2⟩
      · rw [hout t (by omega)] at hfl; cases hfl
    · exact hc.no_deadlock
    · obtain ⟨v1, v2, v3, v4⟩ := hc.value
      refine ⟨v1, v2, v3, ?_⟩
      intro t
      show t ∈ s.conj ↔ _
      rw [v4 t, hn]
      by_cases h : t < s.n
      · rw [hin t h]
        constructor
        · intro ⟨a, b⟩; exact ⟨by omega, b⟩
        · intro ⟨a, b⟩; exact ⟨h, b⟩
      · rw [hout t (by omega)]
        constructor
        · intro ⟨a, b⟩; exact absurd a h
        · intro ⟨a, b⟩; cases b
    · intro t hr
      by_cases h : t < s.n
      · rw [hin t h] at hr ⊢; exact hc.vseq_none t hr
      · rw [hout t (by omega)]
  · intro t ht
    by_cases h : t < s.n
    · rw [hin t h]; exact hm.noReady t h
    · rw [hout t (by omega)]; simp
  · intro t
    by_cases h : t < s.n
    · rw [hin t h, hn]
      exact ⟨Nat.le_refl _, Nat.le_refl _, fun k hk => ⟨hk, rfl, rfl⟩, by omega, fun d hd => hd⟩
    · obtain ⟨f1, f2, f3, f4, f5, f6⟩ := hc.fresh t (by omega)
      rw [hout t (by omega), hn, f1, f2, f3, f5]
      simp [TState.rank]

theorem addDep_ctl (s : Ctl) (e : Nat × Nat) :
    (addDep s e).n = s.n ∧ (addDep s e).errs = s.errs := by
  obtain ⟨i, d⟩ := e
  simp only [addDep]
  split <;> exact ⟨rfl, rfl⟩

theorem mid_addDep {s : Ctl} (hm : Mid s) (e : Nat × Nat) :
    Mid (addDep s e) ∧ Fwd s (addDep s e) := by
  obtain ⟨i, d⟩ := e
  simp only [addDep]
  split
  · rename_i hcond
    obtain ⟨h1, h2, h3, h4⟩ := hcond
    have hdeps : ∀ t x, x ∈ ((s.setTask i { s.tasks i with deps := (s.tasks i).deps ++ [d] }).tasks t).deps ↔
        (x ∈ (s.tasks t).deps ∨ (t = i ∧ x = d)) := by
      intro t x
      simp only [Ctl.setTask]
      split
      · rename_i h; subst h; simp
      · rename_i h; simp [h]
    exact mid_congr hm (f := (s.setTask i { s.tasks i with deps := (s.tasks i).deps ++ [d] }).tasks)
      (by
        intro t
        simp only [Ctl.setTask]
        split
        · rename_i h; subst h; simp
        · simp)
      (by
        intro t ht x hx
        rw [hdeps] at hx
        rcases hx with hx | ⟨rfl, rfl⟩
        · exact hm.core.wf t ht x hx
        · exact ⟨h2, h3⟩)
      (by
        intro t ht
        have hti : t ≠ i := by omega
        simp only [Ctl.setTask, hti, if_false]
        exact (hm.core.fresh t ht).2.1)
      (by
        intro t x hx
        rw [hdeps]; exact Or.inl hx)
      (by
        intro t h0
        simp only [Ctl.setTask]
        split
        · rename_i h; subst h; exact hm.core.vseq_none t h0
        · exact hm.core.vseq_none t h0)
  · exact ⟨hm, Fwd.refl s⟩

theorem mid_addDeps {s : Ctl} (hm : Mid s) (l : List (Nat × Nat)) :
    Mid (l.foldl addDep s) ∧ Fwd s (l.foldl addDep s) ∧ (l.foldl addDep s).errs = s.errs ∧
    (l.foldl addDep s).n = s.n := by
  induction l generalizing s with
  | nil => exact ⟨hm, Fwd.refl s, rfl, rfl⟩
  | cons e l ih =>
    obtain ⟨m1, f1⟩ := mid_addDep hm e
    obtain ⟨m2, f2, e2, n2⟩ := ih m1
    obtain ⟨a1, a2⟩ := addDep_ctl s e
    exact ⟨m2, f1.trans f2, e2.trans a2, n2.trans a1⟩

theorem Mid.setErrs {s : Ctl} (h : Mid s) : Mid { s with errs := true } :=
  ⟨h.core.setErrs, h.noReady, h.running⟩

theorem initTasks_eq (s : Ctl) (g : Growth) : initTasks s g =
    if checkCycle (g.newDeps.foldl addDep (extend s g.newTasks)).n
        (g.newDeps.foldl addDep (extend s g.newTasks)).deps
    then { g.newDeps.foldl addDep (extend s g.newTasks) with errs := true }
    else g.newDeps.foldl addDep (extend s g.newTasks) := rfl

theorem pre_initTasks {s : Ctl} (hm : Mid s) (g : Growth) :
    Pre (initTasks s g) ∧ Fwd s (initTasks s g) := by
  obtain ⟨m1, f1⟩ := mid_extend hm g.newTasks
  obtain ⟨m2, f2, e2, n2⟩ := mid_addDeps m1 g.newDeps
  have hf := f1.trans f2
  rw [initTasks_eq]
  split
  · refine ⟨⟨m2.setErrs.core, ?_, m2.noReady, m2.running⟩, hf⟩
    intro h; cases h
  · rename_i hcyc
    refine ⟨⟨m2.core, ?_, m2.noReady, m2.running⟩, hf⟩
    intro _
    simpa using hcyc

/-! ### receiving a successful completion -/

/-- the completion of task `i` is received at the current clock value -/
def termCtl (s : Ctl) (i : Nat) (ok : Bool) : Ctl :=
  { s with clock := s.clock + 1, errs := !ok || s.errs }.setTask i
    { s.tasks i with state := .terminated, endAt := some s.clock, failed := !ok }

theorem mid_term {s : Ctl} (hc : Core s)
    (hnr : ∀ t, t < s.n → (s.tasks t).state ≠ .ready) (hs : s.stopped = false)
    {i : Nat} (hi : i < s.n) (hr : (s.tasks i).state = .running) (ok : Bool) :
    Mid (termCtl s i ok) ∧ Fwd s (termCtl s i ok) := by
  have hne : ∀ t, t ≠ i → (termCtl s i ok).tasks t = s.tasks t := by
    intro t ht; simp only [termCtl, Ctl.setTask]; exact if_neg ht
  have hi' : (termCtl s i ok).tasks i =
      { s.tasks i with state := .terminated, endAt := some s.clock, failed := !ok } := by
    simp [termCtl, Ctl.setTask]
  have hn : (termCtl s i ok).n = s.n := rfl
  have hclk : (termCtl s i ok).clock = s.clock + 1 := rfl
  have same : ∀ t, ((termCtl s i ok).tasks t).deps = (s.tasks t).deps ∧
      ((termCtl s i ok).tasks t).conjSeq = (s.tasks t).conjSeq ∧
      ((termCtl s i ok).tasks t).filled = (s.tasks t).filled ∧
      ((termCtl s i ok).tasks t).runs = (s.tasks t).runs ∧
      ((termCtl s i ok).tasks t).startAt = (s.tasks t).startAt ∧
      ((termCtl s i ok).tasks t).startDeps = (s.tasks t).startDeps ∧
      ((termCtl s i ok).tasks t).startSeen = (s.tasks t).startSeen ∧
      ((termCtl s i ok).tasks t).valueSeq = (s.tasks t).valueSeq := by
    intro t
    by_cases h : t = i
    · subst h; rw [hi']; simp
    · rw [hne t h]; simp
  have hruns : (s.tasks i).runs = 1 := by
    have := (hc.once i hi).2.1
    rw [hr] at this
    exact this.2 (by simp [TState.rank])
  refine ⟨⟨?_, ?_, hs⟩, ?_⟩
  · constructor
    · intro t ht d hd
      simp only [Ctl.deps] at hd
      rw [(same t).1] at hd
      exact hc.wf t ht d hd
    · intro t ht
      rw [hn] at ht
      rw [hne t (by omega)]
      exact hc.fresh t ht
    · intro t ht
      by_cases h : t = i
      · subst h
        obtain ⟨_, _, _, s4, s5, _⟩ := same t
        have o := hc.once t hi
        rw [s4, s5, hi']
        exact ⟨o.1, ⟨fun _ => by simp [TState.rank], fun _ => hruns⟩, o.2.2⟩
      · rw [hne t h]; exact hc.once t ht
    · intro t ht k hk d hd
      obtain ⟨_, _, _, _, s5, s6, s7, _⟩ := same t
      rw [s5] at hk
      rw [s6] at hd
      obtain ⟨d1, d2, d3, d4, d5, d6⟩ := hc.depsFirst t ht k hk d hd
      have hdi : d ≠ i := by
        intro h; subst h; rw [hr] at d3; cases d3
      rw [hne d hdi, s7]
      exact ⟨d1, d2, d3, d4, d5, d6⟩
    · intro t k hk
      rw [(same t).2.2.2.2.1] at hk
      have := hc.clock_start t k hk
      rw [hclk]; omega
    · intro t e hk
      rw [hclk]
      by_cases h : t = i
      · subst h
        rw [hi'] at hk
        simp only [Option.some.injEq] at hk
        omega
      · rw [hne t h] at hk
        have := hc.clock_end t e hk
        omega
    · intro t ht
      by_cases h : t = i
      · subst h; rw [hi']; simp
      · rw [hne t h]; exact hc.term_end t ht
    · intro t ht hfl
      show (!ok || s.errs) = true
      by_cases h : t = i
      · subst h; rw [hi'] at hfl
        have : (!ok) = true := hfl
        rw [this]; rfl
      · rw [hne t h] at hfl
        rw [hc.failed_errs t ht hfl]; simp
    · intro t ht hfl
      by_cases h : t = i
      · subst h; rw [hi']
      · rw [hne t h] at hfl ⊢; exact hc.failed_term t ht hfl
    · intro t hfl
      by_cases h : t = i
      · subst h; rw [hi']; exact ⟨hi, rfl⟩
      · rw [hne t h] at hfl ⊢; exact hc.filled_term t hfl
    · exact hc.no_deadlock
    · obtain ⟨v1, v2, v3, v4⟩ := hc.value
      refine ⟨v1, v2, v3, ?_⟩
      intro t
      rw [(same t).2.2.1]
      exact v4 t
    · intro t h0
      obtain ⟨_, _, _, s4, _, _, _, s8⟩ := same t
      rw [s4] at h0
      rw [s8]
      exact hc.vseq_none t h0
  · intro t ht
    by_cases h : t = i
    · subst h; rw [hi']; simp
    · rw [hne t h]; exact hnr t ht
  · intro t
    obtain ⟨s1, _, _, s4, s5, s6, s7, _⟩ := same t
    rw [s1, s4, s5, s6, s7, hn]
    refine ⟨?_, Nat.le_refl _, fun k hk => ⟨hk, rfl, rfl⟩, Nat.le_refl _, fun d hd => hd⟩
    by_cases h : t = i
    · subst h; rw [hi', hr]; simp [TState.rank]
    · rw [hne t h]; exact Nat.le_refl _

/-- the result of task `i` is unified into the configuration, which is re-evaluated -/
def fillCtl (a : Ctl) (i : Nat) : Ctl :=
  { a with conj := i :: a.conj, conjSeq := a.conjSeq + 1, inst := i :: a.conj,
           valueSeq := a.conjSeq + 1,
           tasks := fun j => if j = i then { a.tasks i with conjSeq := a.conjSeq + 1, filled := true }
                             else a.tasks j }

theorem fill_eq (a : Ctl) (i : Nat) (h : a.valueSeq = a.conjSeq) :
    updateValue (updateTaskResults a i true) = (fillCtl a i, true) := by
  simp [updateValue, updateTaskResults, Ctl.setTask, h, fillCtl]

theorem nofill_eq (a : Ctl) (i : Nat) (h : a.valueSeq = a.conjSeq) :
    updateValue (updateTaskResults a i false) = (a, false) := by
  simp [updateValue, updateTaskResults, h]

theorem mid_fill {a : Ctl} (hm : Mid a) {i : Nat} (hi : i < a.n)
    (ht : (a.tasks i).state = .terminated) (hfl : (a.tasks i).filled = false) {c : Nat}
    (hend : (a.tasks i).endAt = some c) (hclk : a.clock = c + 1) :
    Mid (fillCtl a i) ∧ Fwd a (fillCtl a i) := by
  have hc := hm.core
  have hne : ∀ t, t ≠ i → (fillCtl a i).tasks t = a.tasks t := by
    intro t ht; simp only [fillCtl]; exact if_neg ht
  have hi' : (fillCtl a i).tasks i = { a.tasks i with conjSeq := a.conjSeq + 1, filled := true } := by
    simp [fillCtl]
  have hn : (fillCtl a i).n = a.n := rfl
  have same : ∀ t, ((fillCtl a i).tasks t).deps = (a.tasks t).deps ∧
      ((fillCtl a i).tasks t).state = (a.tasks t).state ∧
      ((fillCtl a i).tasks t).failed = (a.tasks t).failed ∧
      ((fillCtl a i).tasks t).runs = (a.tasks t).runs ∧
      ((fillCtl a i).tasks t).startAt = (a.tasks t).startAt ∧
      ((fillCtl a i).tasks t).startDeps = (a.tasks t).startDeps ∧
      ((fillCtl a i).tasks t).startSeen = (a.tasks t).startSeen ∧
      ((fillCtl a i).tasks t).valueSeq = (a.tasks t).valueSeq ∧
      ((fillCtl a i).tasks t).endAt = (a.tasks t).endAt := by
    intro t
    by_cases h : t = i
    · subst h; rw [hi']; simp
    · rw [hne t h]; simp
  refine ⟨⟨?_, ?_, hm.running⟩, ?_⟩
  · constructor
    · intro t ht d hd
      simp only [Ctl.deps] at hd
      rw [(same t).1] at hd
      exact hc.wf t ht d hd
    · intro t ht
      rw [hn] at ht
      rw [hne t (by omega)]
      exact hc.fresh t ht
    · intro t ht
      obtain ⟨_, s2, _, s4, s5, _⟩ := same t
      rw [s2, s4, s5]
      exact hc.once t ht
    · intro t ht k hk d hd
      obtain ⟨_, _, _, _, s5, s6, s7, _⟩ := same t
      rw [s5] at hk
      rw [s6] at hd
      obtain ⟨d1, d2, d3, d4, d5, d6⟩ := hc.depsFirst t ht k hk d hd
      have hdi : d ≠ i := by
        intro h; subst h
        obtain ⟨e, x1, x2⟩ := d5
        rw [hend] at x1
        cases x1
        have := hc.clock_start t k hk
        omega
      rw [hne d hdi, s7]
      exact ⟨d1, d2, d3, d4, d5, d6⟩
    · intro t k hk
      rw [(same t).2.2.2.2.1] at hk
      exact hc.clock_start t k hk
    · intro t e hk
      rw [(same t).2.2.2.2.2.2.2.2] at hk
      exact hc.clock_end t e hk
    · intro t ht
      obtain ⟨_, s2, _, _, _, _, _, _, s9⟩ := same t
      rw [s2, s9]
      exact hc.term_end t ht
    · intro t ht hf
      rw [(same t).2.2.1] at hf
      exact hc.failed_errs t ht hf
    · intro t ht hf
      obtain ⟨_, s2, s3, _⟩ := same t
      rw [s3] at hf
      rw [s2]
      exact hc.failed_term t ht hf
    · intro t hf
      rw [(same t).2.1, hn]
      by_cases h : t = i
      · subst h; exact ⟨hi, ht⟩
      · rw [hne t h] at hf; exact hc.filled_term t hf
    · exact hc.no_deadlock
    · obtain ⟨v1, v2, v3, v4⟩ := hc.value
      have hni : i ∉ a.conj := by
        intro h
        have := ((v4 i).1 h).2
        rw [hfl] at this; cases this
      refine ⟨rfl, rfl, List.nodup_cons.2 ⟨hni, v3⟩, ?_⟩
      intro t
      show t ∈ i :: a.conj ↔ _
      rw [List.mem_cons, hn]
      by_cases h : t = i
      · subst h; rw [hi']; simp [hi]
      · rw [hne t h, v4 t]; simp [h]
    · intro t h0
      obtain ⟨_, _, _, s4, _, _, _, s8, _⟩ := same t
      rw [s4] at h0
      rw [s8]
      exact hc.vseq_none t h0
  · intro t ht
    rw [(same t).2.1]
    exact hm.noReady t ht
  · intro t
    obtain ⟨s1, s2, _, s4, s5, s6, s7, _⟩ := same t
    rw [s1, s2, s4, s5, s6, s7, hn]
    exact ⟨Nat.le_refl _, Nat.le_refl _, fun k hk => ⟨hk, rfl, rfl⟩, Nat.le_refl _, fun d hd => hd⟩

theorem termCtl_facts (s : Ctl) (i : Nat) (ok : Bool) :
    (termCtl s i ok).n = s.n ∧ (termCtl s i ok).deps = s.deps ∧
    (termCtl s i ok).clock = s.clock + 1 ∧ (termCtl s i ok).valueSeq = s.valueSeq ∧
    (termCtl s i ok).conjSeq = s.conjSeq ∧
    ((termCtl s i ok).tasks i).state = .terminated ∧
    ((termCtl s i ok).tasks i).filled = (s.tasks i).filled ∧
    ((termCtl s i ok).tasks i).endAt = some s.clock ∧
    ((termCtl s i ok).tasks i).runs = (s.tasks i).runs := by
  refine ⟨rfl, ?_, rfl, rfl, rfl, ?_, ?_, ?_, ?_⟩
  · funext t
    simp only [Ctl.deps, termCtl, Ctl.setTask]
    split
    · rename_i h; subst h; rfl
    · rfl
  all_goals simp [termCtl, Ctl.setTask]

theorem onComplete_ok (s : Ctl) (i : Nat) (fill : Bool) (g : Growth) :
    onComplete s i true fill g =
      loopHead (markReady (updateTaskValue
        (if (updateValue (updateTaskResults (termCtl s i true) i fill)).2
         then initTasks (updateValue (updateTaskResults (termCtl s i true) i fill)).1 g
         else (updateValue (updateTaskResults (termCtl s i true) i fill)).1) i)) := rfl

theorem onComplete_fail (s : Ctl) (i : Nat) (fill : Bool) (g : Growth) :
    onComplete s i false fill g = { termCtl s i false with stopped := true } := rfl

theorem tail_fwd {s : Ctl} (hp : Pre s) : Fwd s (loopHead (markReady s)) := by
  have hc := hp.core
  unfold loopHead
  split
  · exact fwd_markReady s
  · obtain ⟨c', f, e, hd⟩ := tail_spec s hc.value.2.1 hp.noReady
    simp only
    rw [show (markReady s).n = s.n from rfl, e]
    have hfwd := fwd_dispatched hc hd
    split
    · exact hfwd
    · split
      · exact hfwd
      · exact hfwd

theorem addDeps_errs (s : Ctl) (l : List (Nat × Nat)) : (l.foldl addDep s).errs = s.errs := by
  induction l generalizing s with
  | nil => rfl
  | cons e l ih => exact (ih (addDep s e)).trans (addDep_ctl s e).2

/-- `initTasks` records an error only for a cycle in the graph it has just built -/
theorem initTasks_cause (s : Ctl) (g : Growth) (he : s.errs = false)
    (h : (initTasks s g).errs = true) :
    checkCycle (initTasks s g).n (initTasks s g).deps = true := by
  rw [initTasks_eq] at h ⊢
  split
  · rename_i hcyc; exact hcyc
  · rename_i hcyc
    rw [if_neg hcyc] at h
    rw [addDeps_errs] at h
    have : s.errs = true := h
    rw [he] at this; cases this

theorem complete_ok_pre {s : Ctl} (hinv : Inv s)
    (hs : s.stopped = false) {i : Nat} (hi : i < s.n) (hr : (s.tasks i).state = .running)
    (fill : Bool) (g : Growth) :
    ∃ s5, onComplete s i true fill g = loopHead (markReady s5) ∧ Pre s5 ∧ Fwd s s5 ∧
      (s5.errs = true → checkCycle s5.n s5.deps = true) := by
  have hc := hinv.core
  obtain ⟨he, hnr, _⟩ := hinv.live hs
  obtain ⟨m1, f1⟩ := mid_term hc hnr hs hi hr true
  obtain ⟨t1, t2, t3, t4, t5, t6, t7, t8, t9⟩ := termCtl_facts s i true
  have hsync1 : (termCtl s i true).valueSeq = (termCtl s i true).conjSeq := by
    rw [t4, t5]; exact hc.value.2.1
  have hruns : (s.tasks i).runs = 1 := by
    have := (hc.once i hi).2.1
    rw [hr] at this
    exact this.2 (by simp [TState.rank])
  have hnf : (s.tasks i).filled = false := by
    cases hf : (s.tasks i).filled with
    | false => rfl
    | true => have := (hc.filled_term i hf).2; rw [hr] at this; cases this
  rw [onComplete_ok]
  cases fill
  · rw [nofill_eq _ _ hsync1]
    simp only [Bool.false_eq_true, if_false]
    obtain ⟨m5, f5, e5, n5, d5⟩ := mid_updateTaskValue m1 i (by rw [t9, hruns]; simp)
    refine ⟨_, rfl, ⟨m5.core, ?_, m5.noReady, m5.running⟩, f1.trans f5, ?_⟩
    · intro _
      rw [n5, d5, t1, t2]
      exact hinv.acyclic he
    · intro h
      rw [e5] at h
      have : s.errs = true := h
      rw [he] at this; cases this
  · rw [fill_eq _ _ hsync1]
    simp only [if_true]
    obtain ⟨m3, f3⟩ := mid_fill m1 (by rw [t1]; exact hi) t6 (by rw [t7]; exact hnf) t8 t3
    obtain ⟨p4, f4⟩ := pre_initTasks m3 g
    have f14 := (f1.trans f3).trans f4
    have hruns4 : ((initTasks (fillCtl (termCtl s i true) i) g).tasks i).runs ≠ 0 := by
      have := (f14 i).2.1
      omega
    obtain ⟨m5, f5, e5, n5, d5⟩ := mid_updateTaskValue ⟨p4.core, p4.noReady, p4.running⟩ i hruns4
    refine ⟨_, rfl, ⟨m5.core, ?_, m5.noReady, m5.running⟩, f14.trans f5, ?_⟩
    · intro h
      rw [n5, d5]
      apply p4.acyclic
      rw [← e5]; exact h
    · intro h
      rw [e5] at h
      rw [n5, d5]
      exact initTasks_cause _ g he h

theorem complete_ok_inv (hcs : CycleSpec) (hbs : BlockedSpec) {s : Ctl} (hinv : Inv s)
    (hs : s.stopped = false) {i : Nat} (hi : i < s.n) (hr : (s.tasks i).state = .running)
    (fill : Bool) (g : Growth) : Inv (onComplete s i true fill g) := by
  obtain ⟨s5, e, hp, _, _⟩ := complete_ok_pre hinv hs hi hr fill g
  rw [e]
  exact (tail_inv hcs hbs hp).1

theorem complete_ok_fwd {s : Ctl} (hinv : Inv s)
    (hs : s.stopped = false) {i : Nat} (hi : i < s.n) (hr : (s.tasks i).state = .running)
    (fill : Bool) (g : Growth) : Fwd s (onComplete s i true fill g) := by
  obtain ⟨s5, e, hp, hf, _⟩ := complete_ok_pre hinv hs hi hr fill g
  rw [e]
  exact hf.trans (tail_fwd hp)

theorem complete_fail_inv {s : Ctl} (hinv : Inv s)
    (hs : s.stopped = false) {i : Nat} (hi : i < s.n) (hr : (s.tasks i).state = .running)
    (fill : Bool) (g : Growth) :
    Inv (onComplete s i false fill g) ∧ Fwd s (onComplete s i false fill g) := by
  obtain ⟨_, hnr, _⟩ := hinv.live hs
  obtain ⟨m1, f1⟩ := mid_term hinv.core hnr hs hi hr false
  rw [onComplete_fail]
  refine ⟨?_, f1⟩
  apply m1.core.stop.inv
  · intro h; cases h
  · intro h; cases h
  · intro _ h; cases h

theorem core_empty : Core ({} : Ctl) := by
  constructor <;> simp [WfDeps, Ctl.deps, Once, DepsFirst, FinalValue, TState.rank]

/-! ### the delivered theorems -/

theorem step_inv (hc : CycleSpec) (hb : BlockedSpec) {s s' : Ctl} (hi : Inv s)
    (h : Step s s') : Inv s' := by
  cases h with
  | complete i ok fill g hs hi' hr =>
    cases ok
    · exact (complete_fail_inv hi hs hi' hr fill g).1
    · exact complete_ok_inv hc hb hi hs hi' hr fill g
  | cancel hs =>
    apply hi.core.cancel.inv
    · exact hi.acyclic
    · intro h; cases h
    · intro _ _ h; cases h

theorem step_fwd {s s' : Ctl} (hi : Inv s) (h : Step s s') : Fwd s s' := by
  cases h with
  | complete i ok fill g hs hi' hr =>
    cases ok
    · exact (complete_fail_inv hi hs hi' hr fill g).2
    · exact complete_ok_fwd hi hs hi' hr fill g
  | cancel hs => exact Fwd.refl s

/-- the invariant holds in every state of every run -/
theorem reachable_inv (hc : CycleSpec) (hb : BlockedSpec) (g0 : Growth) (s : Ctl)
    (h : Reachable g0 s) : Inv s := by
  induction h with
  | init =>
    have hm : Mid ({} : Ctl) := ⟨core_empty, (by intro t ht; cases ht), rfl⟩
    exact (tail_inv hc hb (pre_initTasks hm g0).1).1
  | step _ hstep ih => exact step_inv hc hb ih hstep

/-- task states, run counters, start times, the task set and dependency sets only move forward -/
theorem step_forward (s s' : Ctl) (hi : Inv s) (h : Step s s') (t : Nat) :
    (s.tasks t).state.rank ≤ (s'.tasks t).state.rank ∧
    (s.tasks t).runs ≤ (s'.tasks t).runs ∧
    (∀ k, (s.tasks t).startAt = some k → (s'.tasks t).startAt = some k ∧ (s'.tasks t).startDeps = (s.tasks t).startDeps ∧ (s'.tasks t).startSeen = (s.tasks t).startSeen) ∧
    s.n ≤ s'.n ∧
    (∀ d, d ∈ (s.tasks t).deps → d ∈ (s'.tasks t).deps) :=
  step_fwd hi h t

/-! ### where errors come from -/

theorem markReady_deps (s : Ctl) : (markReady s).deps = s.deps := by
  funext t
  simp only [Ctl.deps]
  rcases markReady_task s t with h | ⟨_, h⟩
  · rw [h]
  · rw [h]

/-- the tail records an error only if there was one before (the deadlock branch is excluded by
`Inv.no_deadlock`), and changes neither the task set nor the dependencies -/
theorem tail_cause {s : Ctl} (hp : Pre s) (hinv : Inv (loopHead (markReady s)))
    (hcause : s.errs = true → checkCycle s.n s.deps = true)
    (he : (loopHead (markReady s)).errs = true) :
    checkCycle (loopHead (markReady s)).n (loopHead (markReady s)).deps = true := by
  revert hinv he
  unfold loopHead
  by_cases hes : s.errs = true
  · have he' : (markReady s).errs = true := hes
    rw [if_pos he']
    intro _ _
    show checkCycle s.n (markReady s).deps = true
    rw [markReady_deps]
    exact hcause hes
  · have hes' : s.errs = false := by simpa using hes
    have he' : ¬ ((markReady s).errs = true) := hes
    rw [if_neg he']
    obtain ⟨c', f, e, hd⟩ := tail_spec s hp.core.value.2.1 hp.noReady
    simp only
    rw [show (markReady s).n = s.n from rfl, e]
    split
    · intro _ h
      have : s.errs = true := h
      rw [hes'] at this; cases this
    · split
      · intro hinv _
        have := hinv.no_deadlock
        cases this
      · intro _ h
        have : s.errs = true := h
        rw [hes'] at this; cases this

/-- an error is only ever recorded because a task failed or because the dependency graph (as it is in that state) has a cycle -/
theorem errs_cause (hc : CycleSpec) (hb : BlockedSpec) (g0 : Growth) (s : Ctl) (h : Reachable g0 s)
    (he : s.errs = true) :
    (∃ t, t < s.n ∧ (s.tasks t).failed = true) ∨ checkCycle s.n s.deps = true := by
  have hinv' := reachable_inv hc hb g0 s h
  cases h with
  | init =>
    have hm : Mid ({} : Ctl) := ⟨core_empty, (by intro t ht; cases ht), rfl⟩
    exact Or.inr (tail_cause (pre_initTasks hm g0).1 hinv' (initTasks_cause {} g0 rfl) he)
  | @step s0 _ hreach hstep =>
    have hinv := reachable_inv hc hb g0 s0 hreach
    cases hstep with
    | complete i ok fill g hs hi hr =>
      cases ok
      · left
        refine ⟨i, hi, ?_⟩
        rw [onComplete_fail]
        simp [termCtl, Ctl.setTask]
      · right
        obtain ⟨s5, e, hp, _, hcz⟩ := complete_ok_pre hinv hs hi hr fill g
        rw [e] at hinv' he ⊢
        exact tail_cause hp hinv' hcz he
    | cancel hs =>
      have := (hinv.live hs).1
      have he2 : s0.errs = true := he
      rw [this] at he2; cases he2

end CueVerif.Flow
