/-
C12: rooted keys as strings.  `rooted` (segments joined with '.') is injective and
`HasPrefix(rooted q, rooted p ++ ".")` is exactly "p is a strict path prefix of q", under the
contract `LabelQ.OK` of `quoteLabelIfNeeded`.

Route: a one-segment lexer `readSeg` recovers `(s.spell L, r)` from `s.spell L ++ r` whenever the
rest `r` is empty or starts with '.', and `Seg.spell L` is injective.

Core Lean only.
-/
import CueVerif.Model.Toml

namespace CueVerif.Toml

/-! ### the one-segment lexer -/

/-- scan a quoted body up to and including the first bare `"` (the automaton of `closedBody`) -/
def scanQ : List Nat → List Nat × List Nat
  | [] => ([], [])
  | [92] => ([92], [])
  | 92 :: b :: r => (92 :: b :: (scanQ r).1, (scanQ r).2)
  | 34 :: r => ([34], r)
  | b :: r => (b :: (scanQ r).1, (scanQ r).2)

/-- the maximal run of bytes other than '.' -/
def scanP : List Nat → List Nat × List Nat
  | [] => ([], [])
  | b :: r => if b = 46 then ([], b :: r) else (b :: (scanP r).1, (scanP r).2)

/-- read one spelled segment from the front: (token, rest) -/
def readSeg : List Nat → List Nat × List Nat
  | 34 :: r => (34 :: (scanQ r).1, (scanQ r).2)
  | l => scanP l

/-- what may follow a segment: end of string, or a '.' -/
def Sep (r : List Nat) : Prop := r = [] ∨ ∃ r', r = 46 :: r'

theorem scanQ_other (b : Nat) (x : List Nat) (h1 : b ≠ 92) (h2 : b ≠ 34) :
    scanQ (b :: x) = (b :: (scanQ x).1, (scanQ x).2) := by
  rw [scanQ.eq_5] <;> simp_all

theorem scanQ_closed (body r : List Nat) (h : closedBody body = true) :
    scanQ (body ++ 34 :: r) = (body ++ [34], r) := by
  fun_induction closedBody body with
  | case1 => simp [scanQ]
  | case2 => simp at h
  | case3 b t ih => simp [scanQ, ih h]
  | case4 t => simp at h
  | case5 b t h1 h2 h3 ih =>
    have hb : b ≠ 92 := by
      intro e; cases t with
      | nil => exact h1 e rfl
      | cons x t' => exact h2 x t' e rfl
    have hq : b ≠ 34 := fun e => h3 e
    rw [List.cons_append, scanQ_other _ _ hb hq, ih h]
    simp

theorem scanP_run (n r : List Nat) (hn : ∀ b ∈ n, b ≠ 46) (hr : Sep r) :
    scanP (n ++ r) = (n, r) := by
  induction n with
  | nil =>
    rcases hr with rfl | ⟨r', rfl⟩ <;> simp [scanP]
  | cons b t ih =>
    have hb : b ≠ 46 := hn b (by simp)
    have := ih (fun c hc => hn c (by simp [hc]))
    simp [scanP, hb, this]

/-- a non-empty run of bytes that are neither '.' nor '"' is read back as one token -/
theorem readSeg_run (n r : List Nat) (hne : n ≠ []) (hn : ∀ b ∈ n, b ≠ 46 ∧ b ≠ 34)
    (hr : Sep r) : readSeg (n ++ r) = (n, r) := by
  cases n with
  | nil => exact absurd rfl hne
  | cons b t =>
    have hb : b ≠ 34 := (hn b (by simp)).2
    rw [List.cons_append, readSeg.eq_2]
    · rw [← List.cons_append]; exact scanP_run _ _ (fun c hc => (hn c hc).1) hr
    · intro r' h; simp at h; exact hb h.1

theorem readSeg_quoted (body r : List Nat) (h : closedBody body = true) :
    readSeg (34 :: (body ++ [34]) ++ r) = (34 :: (body ++ [34]), r) := by
  have : 34 :: (body ++ [34]) ++ r = 34 :: (body ++ 34 :: r) := by simp
  rw [this, readSeg, scanQ_closed _ _ h]

/-! ### decimal digits -/

theorem isDigitByte_of_isDigit (c : Char) (h : c.isDigit = true) : isDigitByte c.toNat = true := by
  simp only [Char.isDigit, ge_iff_le, Bool.and_eq_true, decide_eq_true_eq, UInt32.le_iff_toNat_le] at h
  simp only [isDigitByte, Bool.and_eq_true, decide_eq_true_eq]
  exact h

theorem itoa_digits (i b : Nat) (h : b ∈ itoa i) : isDigitByte b = true := by
  simp only [itoa, List.mem_map] at h
  obtain ⟨c, hc, rfl⟩ := h
  exact isDigitByte_of_isDigit c (Nat.isDigit_of_mem_toDigits (by omega) (by omega) hc)

theorem itoa_ne_nil (i : Nat) : itoa i ≠ [] := by
  simp [itoa, Nat.toDigits_ne_nil]

theorem itoa_inj (i j : Nat) (h : itoa i = itoa j) : i = j := by
  have h' : Nat.toDigits 10 i = Nat.toDigits 10 j :=
    (List.map_inj_right (fun x y hxy => Char.toNat_inj.mp hxy)).mp h
  have := congrArg (fun l => Nat.ofDigitChars 10 l 0) h'
  simpa [Nat.ofDigitChars_toDigits] using this

/-! ### one segment -/

theorem readSeg_spell (L : LabelQ) (hL : L.OK) (s : Seg) (r : List Nat) (hr : Sep r) :
    readSeg (s.spell L ++ r) = (s.spell L, r) := by
  cases s with
  | key n =>
    simp only [Seg.spell, LabelQ.apply]
    cases hq : L.needsQuoting n with
    | false =>
      obtain ⟨h1, h2, _⟩ := hL.plain n hq
      simpa using readSeg_run n r h1 h2 hr
    | true =>
      obtain ⟨body, e, hc⟩ := hL.quoted n hq
      simp only [if_true, e]
      exact readSeg_quoted body r hc
  | idx i =>
    simp only [Seg.spell]
    refine readSeg_run _ r (itoa_ne_nil i) (fun b hb => ?_) hr
    have := itoa_digits i b hb
    simp only [isDigitByte, Bool.and_eq_true, decide_eq_true_eq] at this
    omega

theorem spell_ne_nil (L : LabelQ) (hL : L.OK) (s : Seg) : s.spell L ≠ [] := by
  cases s with
  | key n =>
    simp only [Seg.spell, LabelQ.apply]
    cases hq : L.needsQuoting n with
    | false => simpa using (hL.plain n hq).1
    | true =>
      obtain ⟨body, e, _⟩ := hL.quoted n hq
      simp [e]
  | idx i => exact itoa_ne_nil i

theorem spell_head_ne_dot (L : LabelQ) (hL : L.OK) (s : Seg) (r : List Nat) :
    s.spell L ≠ 46 :: r := by
  cases s with
  | key n =>
    simp only [Seg.spell, LabelQ.apply]
    cases hq : L.needsQuoting n with
    | false =>
      intro e
      have := (hL.plain n hq).2.1 46 (by simp at e; simp [e])
      simp at this
    | true =>
      obtain ⟨body, e, _⟩ := hL.quoted n hq
      simp [e]
  | idx i =>
    intro e
    have := itoa_digits i 46 (by simp only [Seg.spell] at e; simp [e])
    simp [isDigitByte] at this

theorem spell_inj (L : LabelQ) (hL : L.OK) (s t : Seg) (h : s.spell L = t.spell L) : s = t := by
  have key_idx : ∀ n i, (Seg.key n).spell L = (Seg.idx i).spell L → False := by
    intro n i h
    simp only [Seg.spell, LabelQ.apply] at h
    cases hq : L.needsQuoting n with
    | false =>
      simp only [hq, Bool.false_eq_true, if_false] at h
      obtain ⟨_, _, h3⟩ := hL.plain n hq
      have hne := itoa_ne_nil i
      cases hi : itoa i with
      | nil => exact hne hi
      | cons b r =>
        have hd := itoa_digits i b (by simp [hi])
        have := h3 b r (by rw [h, hi])
        simp [hd] at this
    | true =>
      obtain ⟨body, e, _⟩ := hL.quoted n hq
      simp only [hq, if_true, e] at h
      have := itoa_digits i 34 (by rw [← h]; simp)
      simp [isDigitByte] at this
  cases s with
  | key n =>
    cases t with
    | key m =>
      simp only [Seg.spell, LabelQ.apply] at h
      cases hn : L.needsQuoting n <;> cases hm : L.needsQuoting m <;>
        simp only [hn, hm, Bool.false_eq_true, if_false, if_true] at h
      · rw [h]
      · obtain ⟨body, e, _⟩ := hL.quoted m hm
        have := ((hL.plain n hn).2.1 34 (by rw [h, e]; simp)).2
        exact absurd rfl this
      · obtain ⟨body, e, _⟩ := hL.quoted n hn
        have := ((hL.plain m hm).2.1 34 (by rw [← h, e]; simp)).2
        exact absurd rfl this
      · rw [hL.inj n m hn hm h]
    | idx j => exact (key_idx n j h).elim
  | idx i =>
    cases t with
    | key m => exact (key_idx m i h.symm).elim
    | idx j =>
      simp only [Seg.spell] at h
      rw [itoa_inj i j h]

/-! ### paths -/

/-- what follows a segment in a rooted key: nothing, or '.' and the remaining segments -/
def tl (L : LabelQ) : Path → List Nat
  | [] => []
  | s :: rest => 46 :: (s.spell L ++ tl L rest)

theorem tl_sep (L : LabelQ) (p : Path) : Sep (tl L p) := by
  cases p with
  | nil => exact Or.inl rfl
  | cons s t => exact Or.inr ⟨_, rfl⟩

theorem rooted_cons (L : LabelQ) (s : Seg) (rest : Path) :
    rooted L (s :: rest) = s.spell L ++ tl L rest := by
  induction rest generalizing s with
  | nil => simp [rooted, tl]
  | cons t rest ih =>
    rw [rooted, ih t, tl]
    intro h; cases h

theorem tl_cons (L : LabelQ) (s : Seg) (rest : Path) :
    tl L (s :: rest) = 46 :: rooted L (s :: rest) := by
  rw [rooted_cons, tl]

/-- unique reading of the first segment -/
theorem spell_append_inj (L : LabelQ) (hL : L.OK) (s t : Seg) (r r' : List Nat)
    (hr : Sep r) (hr' : Sep r') (h : s.spell L ++ r = t.spell L ++ r') : s = t ∧ r = r' := by
  have h1 := readSeg_spell L hL s r hr
  have h2 := readSeg_spell L hL t r' hr'
  rw [h, h2] at h1
  have e1 : t.spell L = s.spell L := congrArg Prod.fst h1
  have e2 : r' = r := congrArg Prod.snd h1
  exact ⟨spell_inj L hL s t e1.symm, e2.symm⟩

theorem tl_inj (L : LabelQ) (hL : L.OK) (p q : Path) (h : tl L p = tl L q) : p = q := by
  induction p generalizing q with
  | nil =>
    cases q with
    | nil => rfl
    | cons t q' => simp [tl] at h
  | cons s p' ih =>
    cases q with
    | nil => simp [tl] at h
    | cons t q' =>
      simp only [tl, List.cons.injEq, true_and] at h
      obtain ⟨e1, e2⟩ := spell_append_inj L hL s t _ _ (tl_sep L p') (tl_sep L q') h
      rw [e1, ih q' e2]

theorem rooted_ne_nil (L : LabelQ) (hL : L.OK) (s : Seg) (rest : Path) :
    rooted L (s :: rest) ≠ [] := by
  rw [rooted_cons]
  intro h
  exact spell_ne_nil L hL s (List.append_eq_nil_iff.mp h).1

theorem rooted_injective (L : LabelQ) (hL : L.OK) (p q : Path)
    (h : rooted L p = rooted L q) : p = q := by
  cases p with
  | nil =>
    cases q with
    | nil => rfl
    | cons t q' => exact absurd h.symm (rooted_ne_nil L hL t q')
  | cons s p' =>
    cases q with
    | nil => exact absurd h (rooted_ne_nil L hL s p')
    | cons t q' =>
      apply tl_inj L hL
      rw [tl_cons, tl_cons, h]

theorem tl_prefix (L : LabelQ) (hL : L.OK) (p q : Path) :
    (tl L p ++ [46]) <+: tl L q ↔ strictPrefix p q = true := by
  induction p generalizing q with
  | nil =>
    cases q with
    | nil => simp [tl, strictPrefix]
    | cons t q' => simp [tl, strictPrefix]
  | cons s p' ih =>
    cases q with
    | nil => simp [tl, strictPrefix]
    | cons t q' =>
      have hs : strictPrefix (s :: p') (t :: q') = true ↔ s = t ∧ strictPrefix p' q' = true := by
        simp [strictPrefix, and_assoc]
      rw [hs, ← ih q']
      simp only [tl, List.cons_append, List.cons_prefix_cons, true_and, List.append_assoc]
      constructor
      · rintro ⟨z, hz⟩
        rw [List.append_assoc] at hz
        have hsep : Sep ((tl L p' ++ [46]) ++ z) := by
          cases p' with
          | nil => exact Or.inr ⟨_, rfl⟩
          | cons u p'' => exact Or.inr ⟨_, rfl⟩
        obtain ⟨e1, e2⟩ := spell_append_inj L hL s t _ _ hsep (tl_sep L q') hz
        exact ⟨e1, ⟨z, e2⟩⟩
      · rintro ⟨rfl, hp⟩
        exact (List.prefix_append_right_inj _).mpr hp

theorem rooted_prefix (L : LabelQ) (hL : L.OK) (p q : Path) (hp : p ≠ []) :
    (rooted L p ++ [46]).isPrefixOf (rooted L q) = strictPrefix p q := by
  rw [Bool.eq_iff_iff, List.isPrefixOf_iff_prefix, ← tl_prefix L hL]
  cases p with
  | nil => exact absurd rfl hp
  | cons s p' =>
    cases q with
    | nil =>
      simp only [rooted, tl, List.prefix_nil, List.cons_append]
      constructor
      · intro h
        exact absurd (List.append_eq_nil_iff.mp h).2 (by simp)
      · intro h; simp at h
    | cons t q' =>
      rw [tl_cons, tl_cons]
      simp [List.cons_prefix_cons]

end CueVerif.Toml
