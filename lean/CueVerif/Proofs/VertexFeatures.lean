/-
C02 — proofs about the graph construction of `toposort.VertexFeatures`
(Model/VertexFeatures.lean): whatever the struct literals are, the builder ends with distinct
node keys and with edges between nodes, so EVERY presentation `Build` can produce (any
permutation of the keys: Go map iteration) is a well-formed graph, any two of them are
presentations of the same graph, and `Graph.Sort` returns the same order for all of them.
-/
import CueVerif.Proofs.ToposortIndep
import CueVerif.Proofs.ToposortTarjan
import CueVerif.Model.VertexFeatures
namespace CueVerif.Toposort
open CueVerif.Sanitize (Bytes Pos)

/-- the representation invariant of the builder: `nodesByFeature` is a map (distinct keys);
every edge joins two nodes -/
structure B.WF (b : B) : Prop where
  nodup : b.keys.Nodup
  closed : ∀ e ∈ b.edges, e.1 ∈ b.keys ∧ e.2 ∈ b.keys

/-- `b'` is a later state of the builder: the invariant is kept, no node is lost -/
structure Step (b b' : B) : Prop where
  wf : b.WF → b'.WF
  mono : ∀ l ∈ b.keys, l ∈ b'.keys

theorem Step.refl (b : B) : Step b b := ⟨id, fun _ h => h⟩

theorem Step.trans {a b c : B} (h1 : Step a b) (h2 : Step b c) : Step a c :=
  ⟨fun h => h2.wf (h1.wf h), fun l h => h2.mono l (h1.mono l h)⟩

theorem empty_wf : ({} : B).WF := ⟨List.nodup_nil, by intro e he; cases he⟩

theorem ensureNode_keys (b : B) (l : Label) :
    (ensureNode b l).keys = if b.keys.contains l then b.keys else b.keys ++ [l] := by
  unfold ensureNode
  split <;> simp [B.keys]

theorem ensureNode_edges (b : B) (l : Label) : (ensureNode b l).edges = b.edges := by
  unfold ensureNode
  split <;> rfl

theorem ensureNode_mem (b : B) (l : Label) : l ∈ (ensureNode b l).keys := by
  rw [ensureNode_keys]
  split
  · rename_i h; simpa using h
  · simp

theorem ensureNode_step (b : B) (l : Label) : Step b (ensureNode b l) := by
  refine ⟨fun h => ⟨?_, ?_⟩, ?_⟩
  · rw [ensureNode_keys]
    split
    · exact h.nodup
    · rename_i hc
      have hc' : l ∉ b.keys := by simpa using hc
      exact List.nodup_append.mpr ⟨h.nodup, (by simp), by
        intro a ha c hcm
        have : c = l := by simpa using hcm
        subst this
        intro hac; subst hac; exact hc' ha⟩
  · intro e he
    rw [ensureNode_edges] at he
    have := h.closed e he
    rw [ensureNode_keys]
    split
    · exact this
    · exact ⟨List.mem_append_left _ this.1, List.mem_append_left _ this.2⟩
  · intro x hx
    rw [ensureNode_keys]
    split
    · exact hx
    · exact List.mem_append_left _ hx

theorem setMeta_keys (b : B) (l : Label) (m : Nat × Bytes) : (setMeta b l m).keys = b.keys := by
  unfold setMeta B.keys
  simp only [List.map_map]
  apply List.map_congr_left
  intro e _
  simp only [Function.comp]
  split <;> rfl

theorem setMeta_step (b : B) (l : Label) (m : Nat × Bytes) : Step b (setMeta b l m) := by
  refine ⟨fun h => ⟨?_, ?_⟩, ?_⟩
  · rw [setMeta_keys]; exact h.nodup
  · intro e he
    rw [setMeta_keys]
    exact h.closed e he
  · intro x hx; rw [setMeta_keys]; exact hx

theorem addEdge_step (b : B) (u v : Label) : Step b (addEdge b u v) := by
  unfold addEdge
  split
  · exact Step.refl b
  · -- the new edge is recorded first, then both end points are ensured
    let b1 : B := { b with edges := b.edges ++ [(u, v)] }
    have hk1 : b1.keys = b.keys := rfl
    refine ⟨fun h => ⟨?_, ?_⟩, ?_⟩
    · have hn1 : b1.keys.Nodup := h.nodup
      -- nodup through two ensureNode steps only needs nodup (edges are not looked at)
      have e1 : (ensureNode b1 u).keys.Nodup := by
        rw [ensureNode_keys]
        split
        · exact hn1
        · rename_i hc
          have hc' : u ∉ b1.keys := by simpa using hc
          exact List.nodup_append.mpr ⟨hn1, (by simp), by
            intro a ha c hcm
            have : c = u := by simpa using hcm
            subst this
            intro hac; subst hac; exact hc' ha⟩
      rw [ensureNode_keys]
      split
      · exact e1
      · rename_i hc
        have hc' : v ∉ (ensureNode b1 u).keys := by simpa using hc
        exact List.nodup_append.mpr ⟨e1, (by simp), by
          intro a ha c hcm
          have : c = v := by simpa using hcm
          subst this
          intro hac; subst hac; exact hc' ha⟩
    · intro e he
      rw [ensureNode_edges, ensureNode_edges] at he
      have hu : u ∈ (ensureNode (ensureNode b1 u) v).keys :=
        (ensureNode_step (ensureNode b1 u) v).mono u (ensureNode_mem b1 u)
      have hv : v ∈ (ensureNode (ensureNode b1 u) v).keys := ensureNode_mem _ v
      have hmono : ∀ x ∈ b.keys, x ∈ (ensureNode (ensureNode b1 u) v).keys := fun x hx =>
        (ensureNode_step (ensureNode b1 u) v).mono x ((ensureNode_step b1 u).mono x (hk1 ▸ hx))
      rcases List.mem_append.mp he with he | he
      · exact ⟨hmono _ (h.closed e he).1, hmono _ (h.closed e he).2⟩
      · have : e = (u, v) := by simpa using he
        subst this
        exact ⟨hu, hv⟩
    · intro x hx
      exact (ensureNode_step (ensureNode b1 u) v).mono x ((ensureNode_step b1 u).mono x (hk1 ▸ hx))

theorem foldl_step {α : Type} (f : B → α → B) (hf : ∀ b x, Step b (f b x)) :
    ∀ (l : List α) (b : B), Step b (l.foldl f b)
  | [], b => Step.refl b
  | x :: xs, b => (hf b x).trans (foldl_step f hf xs (f b x))

/-- folds whose state carries the builder in its first component -/
theorem foldl_step_fst {α σ : Type} (f : B × σ → α → B × σ) (hf : ∀ st x, Step st.1 (f st x).1) :
    ∀ (l : List α) (st : B × σ), Step st.1 (l.foldl f st).1
  | [], st => Step.refl st.1
  | x :: xs, st => (hf st x).trans (foldl_step_fst f hf xs (f st x))

theorem addDecl_step (r : Root) (explicit : Bool) (st : B × List Label) (l : Label) :
    Step st.1 (addDecl r explicit st l).1 := by
  obtain ⟨b, previous⟩ := st
  have hadd : Step b ((previous.foldl (fun b p => addEdge b p l)
      (setMeta (ensureNode b l) l (r.id, r.pos.filename)))) :=
    ((ensureNode_step b l).trans (setMeta_step _ l _)).trans
      (foldl_step (fun b p => addEdge b p l) (fun b p => addEdge_step b p l) previous _)
  unfold addDecl
  simp only
  split
  · split
    · exact Step.refl b
    · split
      · exact Step.refl b
      · exact hadd
  · exact hadd

theorem addEdges_step (b : B) (previous : List Label) (r : Root) (explicit : Bool) :
    Step b (addEdges b previous r explicit).1 :=
  foldl_step_fst (addDecl r explicit) (addDecl_step r explicit) r.labels (b, previous)

theorem runBatch_step (b : B) (previous : List Label) (explicit : Bool) (batch : List Root) :
    Step b (runBatch b previous explicit batch).1 :=
  foldl_step_fst (fun (acc : B × List Label) root =>
      ((addEdges acc.1 previous root explicit).1, acc.2 ++ (addEdges acc.1 previous root explicit).2))
    (fun acc root => addEdges_step acc.1 previous root explicit) batch (b, [])

theorem stepBatch_step (st : BS) (batch : List Root) : Step st.b (stepBatch st batch).b :=
  runBatch_step st.b _ _ batch

theorem runBatches_step (b : B) (batches : List (List Root)) : Step b (runBatches b batches) := by
  unfold runBatches
  suffices h : ∀ (l : List (List Root)) (st : BS), Step st.b (l.foldl stepBatch st).b from h batches { b := b }
  intro l
  induction l with
  | nil => intro st; exact Step.refl st.b
  | cons batch rest ih =>
    intro st
    rw [List.foldl_cons]
    exact (stepBatch_step st batch).trans (ih _)

/-- the builder `VertexFeatures` hands to `Build` satisfies the representation invariant -/
theorem buildVF_wf (S : SortFn) (arcs : List Label) (roots : List Root) : (buildVF S arcs roots).WF := by
  unfold buildVF
  exact (runBatches_step _ _).wf ((foldl_step ensureNode ensureNode_step arcs {}).wf empty_wf)

/-- every arc of the vertex is a node of the graph -/
theorem buildVF_arcs (S : SortFn) (arcs : List Label) (roots : List Root) :
    ∀ a ∈ arcs, a ∈ (buildVF S arcs roots).keys := by
  intro a ha
  unfold buildVF
  refine (runBatches_step _ _).mono a ?_
  -- after the fold of ensureNode over the arcs every arc is a key
  suffices h : ∀ (l : List Label) (b : B), (a ∈ l ∨ a ∈ b.keys) → a ∈ (l.foldl ensureNode b).keys from
    h arcs {} (Or.inl ha)
  intro l
  induction l with
  | nil => intro b h; rcases h with h | h; cases h; exact h
  | cons x xs ih =>
    intro b h
    rw [List.foldl_cons]
    apply ih
    rcases h with h | h
    · rcases List.mem_cons.mp h with h | h
      · right; subst h; exact ensureNode_mem b a
      · left; exact h
    · right; exact (ensureNode_step b x).mono a h

theorem out_mem_edges (b : B) (u v : Label) : v ∈ b.out u ↔ (u, v) ∈ b.edges := by
  unfold B.out
  simp only [List.mem_map, List.mem_filter, beq_iff_eq]
  constructor
  · rintro ⟨e, ⟨he, h1⟩, h2⟩
    obtain ⟨a, c⟩ := e
    simp only at h1 h2
    subst h1; subst h2; exact he
  · intro h; exact ⟨(u, v), ⟨h, rfl⟩, rfl⟩

/-- every presentation `Build` can produce is a well-formed graph -/
theorem graph_wf (b : B) (h : b.WF) (ns : List Label) (hp : ns.Perm b.keys) : (b.graph ns).WF := by
  refine ⟨hp.nodup_iff.mpr h.nodup, ?_⟩
  intro u _ v hv
  have := (out_mem_edges b u v).mp hv
  exact hp.symm.subset (h.closed _ this).2

/-- two presentations of the same builder are presentations of the same graph -/
theorem graph_same (b : B) (ns ns' : List Label) (hp : ns.Perm b.keys) (hp' : ns'.Perm b.keys) :
    (b.graph ns).Same (b.graph ns') :=
  ⟨hp.trans hp'.symm, fun _ _ => Iff.rfl⟩

/-- `VertexFeatures`: the order of the fields is the same for every presentation of the graph
that `Build` can produce (every order of Go's map iteration), every conforming sort, every
component list meeting the SCC contract. -/
theorem vertexFeatures_indep (S0 S S' : SortFn) (hS : S.Contract) (hS' : S'.Contract)
    (arcs : List Label) (roots : List Root) (ns ns' : List Label) (comps comps' : List Comp)
    (hp : ns.Perm (buildVF S0 arcs roots).keys) (hp' : ns'.Perm (buildVF S0 arcs roots).keys)
    (hc : IsSCC ((buildVF S0 arcs roots).graph ns) comps)
    (hc' : IsSCC ((buildVF S0 arcs roots).graph ns') comps') :
    sortWith true S ((buildVF S0 arcs roots).graph ns) comps
      = sortWith true S' ((buildVF S0 arcs roots).graph ns') comps' :=
  perm_fixed S S' hS hS' _ _ comps comps'
    (graph_wf _ (buildVF_wf S0 arcs roots) ns hp) (graph_wf _ (buildVF_wf S0 arcs roots) ns' hp')
    (graph_same _ ns ns' hp hp') hc hc'

/-- … and it is a permutation of the builder's node set (all arcs + all declared labels),
never the `sccReady[0]` panic -/
theorem vertexFeatures_ok (S0 S : SortFn) (hS : S.Contract)
    (arcs : List Label) (roots : List Root) (ns : List Label) (comps : List Comp)
    (hp : ns.Perm (buildVF S0 arcs roots).keys)
    (hc : IsSCC ((buildVF S0 arcs roots).graph ns) comps) :
    ∃ l, sortWith true S ((buildVF S0 arcs roots).graph ns) comps = .ok l ∧
      l.Perm (buildVF S0 arcs roots).keys := by
  obtain ⟨l, h1, h2⟩ := sortWith_ok true S hS _ comps (graph_wf _ (buildVF_wf S0 arcs roots) ns hp) hc
  exact ⟨l, h1, h2.trans hp⟩

/-! ### end to end: `Graph.Sort` with the components Tarjan's algorithm delivers -/

/-- `Graph.Sort` end to end (SCCs computed by the transcribed Tarjan): never the `sccReady[0]`
panic, fuel suffices, the result is a permutation of the nodes -/
theorem sortG_ok (S : SortFn) (hS : S.Contract) (g : Graph) (hg : g.WF) :
    ∃ l, sortG true S g = .ok l ∧ l.Perm g.nodes :=
  sortWith_ok true S hS g (tarjan g) hg (tarjan_isSCC g hg)

/-- `Graph.Sort` end to end is independent of the presentation -/
theorem sortG_indep (S S' : SortFn) (hS : S.Contract) (hS' : S'.Contract) (g g' : Graph)
    (hg : g.WF) (hg' : g'.WF) (hsame : g.Same g') : sortG true S g = sortG true S' g' :=
  perm_fixed S S' hS hS' g g' (tarjan g) (tarjan g') hg hg' hsame (tarjan_isSCC g hg) (tarjan_isSCC g' hg')

/-- `Graph.Sort` end to end respects every edge that is not on a cycle -/
theorem sortG_respects (S : SortFn) (hS : S.Contract) (g : Graph) (hg : g.WF) (l : List Label)
    (hl : sortG true S g = .ok l) (u v : Label) (hu : u ∈ g.nodes) (huv : v ∈ g.out u)
    (hacyc : ¬ Reach g v u) : Before l u v :=
  sortWith_respects true S hS g (tarjan g) hg (tarjan_isSCC g hg) l hl u v hu huv hacyc

/-- `VertexFeatures` end to end: the same field order for every order in which `Build` may
list the nodes (Go map iteration) and every conforming sort used by `Graph.Sort` -/
theorem vertexFeatures_sortG_indep (S0 S S' : SortFn) (hS : S.Contract) (hS' : S'.Contract)
    (arcs : List Label) (roots : List Root) (ns ns' : List Label)
    (hp : ns.Perm (buildVF S0 arcs roots).keys) (hp' : ns'.Perm (buildVF S0 arcs roots).keys) :
    sortG true S ((buildVF S0 arcs roots).graph ns) = sortG true S' ((buildVF S0 arcs roots).graph ns') :=
  sortG_indep S S' hS hS' _ _
    (graph_wf _ (buildVF_wf S0 arcs roots) ns hp) (graph_wf _ (buildVF_wf S0 arcs roots) ns' hp')
    (graph_same _ ns ns' hp hp')

/-- … and it is a permutation of the arcs' and the declared fields' labels: no panic -/
theorem vertexFeatures_sortG_ok (S0 S : SortFn) (hS : S.Contract)
    (arcs : List Label) (roots : List Root) (ns : List Label)
    (hp : ns.Perm (buildVF S0 arcs roots).keys) :
    ∃ l, sortG true S ((buildVF S0 arcs roots).graph ns) = .ok l ∧ l.Perm (buildVF S0 arcs roots).keys := by
  obtain ⟨l, h1, h2⟩ := sortG_ok S hS _ (graph_wf _ (buildVF_wf S0 arcs roots) ns hp)
  exact ⟨l, h1, h2.trans hp⟩

end CueVerif.Toposort
