/-
C10 helper lemmas, document level, part 1: the reference parser of Spec/JsonDoc.lean reads
back the tokens of the generative grammars — `pStrBody` on the spelling of a well-formed item
list, `pNumber` on the spelling of a well-formed `JNum` — whatever follows the token (for
numbers: anything that cannot continue a number).  Core Lean only.
-/
import CueVerif.Spec.JsonDoc
import CueVerif.Proofs.JsonString
import CueVerif.Proofs.JsonOut
namespace CueVerif.Json
open CueVerif CueVerif.Quote

/-! ## strings -/

theorem escOfLetter_letter (e : Esc) : escOfLetter e.letter = some e := by
  cases e <;> rfl

theorem pStrBody_close (fuel : Nat) (rest : Bytes) :
    pStrBody (fuel + 1) (0x22 :: rest) = some ([], rest) := by
  simp [pStrBody]

theorem pStrBody_esc (fuel : Nat) (e : Esc) (t : Bytes) :
    pStrBody (fuel + 1) (0x5C :: e.letter :: t) =
      consFst (JItem.esc e) (pStrBody fuel t) := by
  cases e <;> simp [pStrBody, Esc.letter, escOfLetter]

theorem pStrBody_u (fuel : Nat) (a b c d : Nat) (h : (JItem.u a b c d).wf = true) (t : Bytes) :
    pStrBody (fuel + 1) (0x5C :: 0x75 :: a :: b :: c :: d :: t) =
      consFst (JItem.u a b c d) (pStrBody fuel t) := by
  simp only [JItem.wf] at h
  simp [pStrBody, h]

theorem pStrBody_raw (fuel : Nat) (r : Nat) (h : (JItem.raw r).wf = true) (t : Bytes) :
    pStrBody (fuel + 1) (encodeRune r ++ t) =
      consFst (JItem.raw r) (pStrBody fuel t) := by
  have hw := raw_wf h
  by_cases h80 : r < 0x80
  · rw [encodeRune_ascii r h80]
    have e1 : (r == 0x22) = false := by simp; omega
    have e2 : (r == 0x5C) = false := by simp; omega
    have e3 : ¬ r < 0x20 := by omega
    show pStrBody (fuel + 1) (r :: t) = _
    simp [pStrBody, e1, e2, e3, h80]
  · have h1 : 0x80 ≤ r := by omega
    have hd := decodeRune_encodeRune r t h1 hw.1 hw.2.1
    have hb := encodeRune_bytes_high r h1
    have hl := encodeRune_length r h1
    match he : encodeRune r with
    | [] => rw [he] at hl; simp at hl
    | c :: cs =>
      rw [he] at hd hb hl
      have hc := (hb c (by simp)).1
      have hd' : decodeRune (c :: (cs ++ t)) = (r, cs.length + 1) := by simpa using hd
      have e1 : (c == 0x22) = false := by simp; omega
      have e2 : (c == 0x5C) = false := by simp; omega
      have e3 : ¬ c < 0x20 := by omega
      have e4 : ¬ c < 0x80 := by omega
      have e5 : (cs ++ t).drop (cs.length + 1 - 1) = t := by
        rw [Nat.add_sub_cancel, List.drop_left]
      have e6 : ¬ cs.length + 1 < 2 := by simp only [List.length_cons] at hl; omega
      show pStrBody (fuel + 1) (c :: (cs ++ t)) = _
      simp only [pStrBody, e1, e2, e3, e4, hd', e5, e6, Bool.false_eq_true, if_false]

/-- the string-body parser reads back every well-formed item list, whatever follows -/
theorem pStrBody_items (items : List JItem) (hwf : WfItems items) (rest : Bytes) :
    ∀ fuel, items.length < fuel → pStrBody fuel (bodyText items ++ 0x22 :: rest) = some (items, rest) := by
  induction items with
  | nil =>
    intro fuel hf
    obtain ⟨f, rfl⟩ : ∃ f, fuel = f + 1 := ⟨fuel - 1, by simp at hf; omega⟩
    exact pStrBody_close f rest
  | cons i t ih =>
    intro fuel hf
    obtain ⟨f, rfl⟩ : ∃ f, fuel = f + 1 := ⟨fuel - 1, by simp at hf; omega⟩
    have iht := ih hwf.tail f (by simp at hf; omega)
    have hi := hwf.head
    cases i with
    | raw r =>
      simp only [bodyText, JItem.text, List.append_assoc]
      rw [pStrBody_raw f r hi, iht]; rfl
    | esc e =>
      simp only [bodyText, JItem.text, List.cons_append, List.nil_append]
      rw [pStrBody_esc, iht]; rfl
    | u a b c d =>
      simp only [bodyText, JItem.text, List.cons_append, List.nil_append]
      rw [pStrBody_u f a b c d hi, iht]; rfl

theorem bodyText_length (items : List JItem) (hwf : WfItems items) :
    items.length ≤ (bodyText items).length := by
  induction items with
  | nil => simp
  | cons i t ih =>
    have := item_text_pos i hwf.head
    have := ih hwf.tail
    simp only [bodyText, List.length_cons, List.length_append]
    omega

/-- the string parser reads back what the encoder writes for a valid UTF-8 string (value or
member name): exactly the string, and the text after the closing quote is untouched -/
theorem pString_escape (s : Bytes) (hb : IsBytes s) (hv : validUTF8 s = true) (rest : Bytes) :
    pString (escapeLoop s ++ 0x22 :: rest) = some (s, rest) := by
  obtain ⟨items, hwf, htext, hden, -, -⟩ := string_out s hb hv
  have hbody : escapeLoop s = bodyText items := by
    simp only [jsonEscape, stringText, List.cons.injEq, true_and] at htext
    exact List.append_cancel_right htext
  rw [hbody, pString, pStrBody_items items hwf rest _ (by
    have := bodyText_length items hwf
    simp only [List.length_append, List.length_cons]; omega)]
  simp [hden]

/-! ## numbers -/

/-- the characters a number token can contain -/
def isNumChar (c : Nat) : Bool :=
  isDigit c || c == 0x2B || c == 0x2D || c == 0x2E || c == 0x45 || c == 0x65

/-- "`rest` cannot continue a number token": it is empty or begins with something that is not
a digit, sign, point or `e`/`E` (in particular: ws, `,`, `]`, `}`, `"`, `[`, `{`, a letter) -/
def numStop (rest : Bytes) : Bool :=
  match rest with
  | [] => true
  | c :: _ => !isNumChar c

theorem span_loop_stop (p : Nat → Bool) (rest : Bytes)
    (hr : ∀ c t, rest = c :: t → p c = false) :
    ∀ (s acc : Bytes), s.all p = true →
      List.span.loop p (s ++ rest) acc = (acc.reverse ++ s, rest) := by
  intro s
  induction s with
  | nil =>
    intro acc _
    cases rest with
    | nil => simp [List.span.loop]
    | cons d r => simp [List.span.loop, hr d r rfl]
  | cons a s ih =>
    intro acc hs
    simp only [List.all_cons, Bool.and_eq_true] at hs
    simp [List.span.loop, hs.1, ih (a :: acc) hs.2]

theorem span_digits_append (ds tail : Bytes) (h : allDigits ds = true)
    (ht : ∀ c t, tail = c :: t → isDigit c = false) : spanDigits (ds ++ tail) = (ds, tail) := by
  simpa [spanDigits, List.span] using span_loop_stop isDigit tail ht ds [] h

theorem numStop_cons {c : Nat} {t : Bytes} (h : numStop (c :: t) = true) :
    isDigit c = false ∧ c ≠ 0x2B ∧ c ≠ 0x2D ∧ c ≠ 0x2E ∧ c ≠ 0x45 ∧ c ≠ 0x65 := by
  simp only [numStop, isNumChar, Bool.not_eq_true', Bool.or_eq_false_iff, beq_eq_false_iff_ne] at h
  obtain ⟨⟨⟨⟨⟨h1, h2⟩, h3⟩, h4⟩, h5⟩, h6⟩ := h
  exact ⟨h1, h2, h3, h4, h5, h6⟩

theorem isDigit_iff (c : Nat) : isDigit c = true ↔ 48 ≤ c ∧ c ≤ 57 := by
  simp [isDigit]

theorem allDigits_head {d : Nat} {ds : Bytes} (h : allDigits (d :: ds) = true) : 48 ≤ d ∧ d ≤ 57 := by
  simp only [allDigits, List.all_cons, Bool.and_eq_true] at h
  exact (isDigit_iff d).mp h.1

theorem pExp_text (e : Option JExp) (hwf : expWf e = true) (rest : Bytes) (hs : numStop rest = true) :
    pExp (expText e ++ rest) = some (e, rest) := by
  cases e with
  | none =>
    simp only [expText, List.nil_append]
    cases rest with
    | nil => rfl
    | cons c t =>
      obtain ⟨-, -, -, -, h5, h6⟩ := numStop_cons hs
      simp [pExp, h5, h6]
  | some e =>
    obtain ⟨upper, sign, digits⟩ := e
    simp only [expWf, JExp.wf, Bool.and_eq_true, Bool.not_eq_true', List.isEmpty_eq_false_iff] at hwf
    obtain ⟨hne, hall⟩ := hwf
    have hrest : ∀ c t, rest = c :: t → isDigit c = false := by
      intro c t h; subst h; exact (numStop_cons hs).1
    have hspan := span_digits_append digits rest hall hrest
    obtain ⟨d, ds, rfl⟩ : ∃ d ds, digits = d :: ds := by
      cases digits with
      | nil => exact absurd rfl hne
      | cons d ds => exact ⟨d, ds, rfl⟩
    have hd := allDigits_head hall
    have hdig : pSign (d :: (ds ++ rest)) = (none, d :: (ds ++ rest)) := by
      simp only [pSign]
      split
      · next h => simp at h; omega
      · next h => simp at h; omega
      · rfl
    simp only [List.cons_append] at hspan
    cases sign with
    | none =>
      cases upper <;>
        simp only [expText, JExp.text, Bool.false_eq_true, if_false, if_true, List.cons_append, pExp,
          beq_self_eq_true, Bool.or_true, Bool.true_or, List.nil_append, hdig, hspan] <;> simp
    | some b =>
      cases b <;> cases upper <;>
        simp only [expText, JExp.text, Bool.false_eq_true, if_false, if_true, List.cons_append, pExp,
          beq_self_eq_true, Bool.or_true, Bool.true_or, List.nil_append, pSign, hspan] <;> simp

theorem pFrac_text (f : Option Bytes) (hwf : fracWf f = true) (tail : Bytes)
    (ht : ∀ c t, tail = c :: t → isDigit c = false ∧ c ≠ 0x2E) :
    pFrac (fracText f ++ tail) = some (f, tail) := by
  cases f with
  | none =>
    simp only [fracText, List.nil_append, pFrac]
    split
    · next r => exact absurd rfl (ht 46 r rfl).2
    · rfl
  | some f =>
    simp only [fracWf, Bool.and_eq_true, Bool.not_eq_true', List.isEmpty_eq_false_iff] at hwf
    obtain ⟨hne, hall⟩ := hwf
    have hspan := span_digits_append f tail hall (fun c t h => (ht c t h).1)
    obtain ⟨d, ds, rfl⟩ : ∃ d ds, f = d :: ds := by
      cases f with
      | nil => exact absurd rfl hne
      | cons d ds => exact ⟨d, ds, rfl⟩
    simp only [fracText, List.cons_append, pFrac] at hspan ⊢
    simp only [hspan]

theorem pInt_text (int : Bytes) (hne : int ≠ []) (hall : allDigits int = true)
    (hz : int = [48] ∨ int.head? ≠ some 48) (tail : Bytes)
    (ht : ∀ c t, tail = c :: t → isDigit c = false) :
    pInt (int ++ tail) = some (int, tail) := by
  have hspan := span_digits_append int tail hall ht
  simp only [pInt, hspan]
  rcases hz with rfl | hz
  · rfl
  · cases int with
    | nil => exact absurd rfl hne
    | cons d ds =>
      have : d ≠ 48 := by simpa using hz
      split
      · next h => simp at h
      · next h => simp only [Prod.mk.injEq, List.cons.injEq] at h; exact absurd h.1.1.symm (by omega)
      · next h => simp only [Prod.mk.injEq] at h; rw [← h.1, ← h.2]

/-- the number parser reads back the spelling of every well-formed number token, whatever
follows it that cannot continue a number -/
theorem pNumber_text (n : JNum) (hwf : n.wf = true) (rest : Bytes) (hs : numStop rest = true) :
    pNumber (n.text ++ rest) = some (n, rest) := by
  obtain ⟨hne, hall, hz, hf, he⟩ := (jnum_wf_iff n).mp hwf
  obtain ⟨neg, int, frac, exp⟩ := n
  simp only at hne hall hz hf he
  -- the tails and what they start with
  have hT1 : ∀ c t, expText exp ++ rest = c :: t → isDigit c = false ∧ c ≠ 0x2E := by
    intro c t h
    cases exp with
    | none =>
      simp only [expText, List.nil_append] at h; subst h
      exact ⟨(numStop_cons hs).1, (numStop_cons hs).2.2.2.1⟩
    | some e =>
      simp only [expText, JExp.text, List.cons_append, List.cons.injEq] at h
      rcases h with ⟨h, -⟩
      cases hu : e.upper <;> simp [hu] at h <;> subst h <;> decide
  have hT2 : ∀ c t, fracText frac ++ (expText exp ++ rest) = c :: t → isDigit c = false := by
    intro c t h
    cases frac with
    | none => simp only [fracText, List.nil_append] at h; exact (hT1 c t h).1
    | some f =>
      simp only [fracText, List.cons_append, List.cons.injEq] at h
      rw [← h.1]; decide
  obtain ⟨d, ds, rfl⟩ : ∃ d ds, int = d :: ds := by
    cases int with
    | nil => exact absurd rfl hne
    | cons d ds => exact ⟨d, ds, rfl⟩
  have hd := allDigits_head hall
  have hminus : pMinus ((if neg = true then [0x2D] else []) ++ ((d :: ds) ++ (fracText frac ++ expText exp)) ++ rest) =
      (neg, (d :: ds) ++ (fracText frac ++ (expText exp ++ rest))) := by
    cases neg
    · simp only [Bool.false_eq_true, if_false, List.nil_append, List.cons_append, pMinus, List.append_assoc]
      split
      · next h => simp at h; omega
      · rfl
    · simp [pMinus, List.append_assoc]
  simp only [pNumber, JNum.text, JNum.utext, hminus,
    pInt_text (d :: ds) hne hall hz _ hT2, pFrac_text frac hf _ hT1, pExp_text exp he rest hs]

end CueVerif.Json
