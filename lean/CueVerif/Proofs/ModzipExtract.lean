import CueVerif.Proofs.ModzipPath
import CueVerif.Proofs.ModzipSizes
import CueVerif.Proofs.ModzipColl
import CueVerif.Proofs.ModzipUnzip
/-!
Extraction of an intact archive into a fresh target (C15, the positive half): `unzip` succeeds
and the regular files strictly beneath the target are exactly the archive's file entries with
exactly their data.

Ingredients: `MkdirAll` succeeds when no file is in the way; an `Honest` entry is copied
completely; the names CheckZip accepts are pairwise incomparable as element lists (no duplicate,
none a directory of another: `checkZip_collisionFree`), so no destination is occupied when its
entry is reached.
-/
namespace CueVerif.Modzip

/-! ### the file-system map: keys that occur are bound -/

theorem FS.get_of_mem (fs : FS) : ∀ e ∈ fs, fs.get e.1 ≠ none := by
  induction fs with
  | nil => intro e he; cases he
  | cons x xs ih =>
    intro e he
    obtain ⟨q0, n⟩ := x
    rw [FS.get_cons]
    split
    · simp
    · next hne =>
      rcases List.mem_cons.mp he with rfl | he
      · exact absurd rfl hne
      · exact ih e he

theorem dirNonEmpty_fresh (fs : FS) (dir : Path) (hfresh : FreshTarget fs dir) :
    dirNonEmpty fs dir = false := by
  cases hd : dirNonEmpty fs dir with
  | false => rfl
  | true =>
    exfalso
    unfold dirNonEmpty at hd
    obtain ⟨e, he, hp⟩ := List.any_eq_true.mp hd
    simp only [Bool.and_eq_true, beq_iff_eq, List.isPrefixOf_iff_prefix] at hp
    obtain ⟨hlen, t, ht⟩ := hp
    have hsome := FS.get_of_mem fs e he
    cases hg : fs.get e.1 with
    | none => exact hsome hg
    | some n =>
      refine hfresh.1 e.1 n hg ⟨t, ?_, ht.symm⟩
      rintro rfl
      rw [← ht] at hlen
      simp at hlen

/-! ### MkdirAll succeeds when no file is in the way -/

theorem mkdirAllAux_ok (fs : FS) (pre : Path) (cs : List Str)
    (hfile : ∀ a b, cs = a ++ b → a ≠ [] → ∀ c, fs.get (pre ++ a) ≠ some (.file c)) :
    (mkdirAllAux fs pre cs).2 = true ∧
    ∀ a b, cs = a ++ b → a ≠ [] → (mkdirAllAux fs pre cs).1.get (pre ++ a) = some .dir := by
  induction cs generalizing fs pre with
  | nil =>
    refine ⟨rfl, ?_⟩
    intro a b h hne
    have := List.append_eq_nil_iff.mp h.symm
    exact absurd this.1 hne
  | cons c cs ih =>
    -- the tail of the walk, from any file system that has a directory at pre ++ [c]
    have tail : ∀ fs' : FS, fs'.get (pre ++ [c]) = some .dir →
        (∀ a b, cs = a ++ b → a ≠ [] → ∀ d, fs'.get ((pre ++ [c]) ++ a) ≠ some (.file d)) →
        (mkdirAllAux fs' (pre ++ [c]) cs).2 = true ∧
        ∀ a b, c :: cs = a ++ b → a ≠ [] →
          (mkdirAllAux fs' (pre ++ [c]) cs).1.get (pre ++ a) = some .dir := by
      intro fs' hdir hf
      obtain ⟨i1, i2⟩ := ih fs' (pre ++ [c]) hf
      refine ⟨i1, ?_⟩
      intro a b h hne
      cases a with
      | nil => exact absurd rfl hne
      | cons x a' =>
        simp only [List.cons_append, List.cons.injEq] at h
        obtain ⟨rfl, h⟩ := h
        by_cases ha' : a' = []
        · subst ha'
          exact mkdirAllAux_extends fs' (pre ++ [c]) cs _ _ hdir
        · have := i2 a' b h ha'
          simpa using this
    unfold mkdirAllAux
    simp only
    split
    · next hdir =>
      apply tail fs hdir
      intro a b h hne d
      have := hfile (c :: a) b (by rw [h]; rfl) (by simp) d
      simpa using this
    · next d hf =>
      exact absurd hf (hfile [c] cs rfl (by simp) d)
    · next hnone =>
      apply tail (fs.set (pre ++ [c]) .dir) (by rw [FS.get_set, if_pos rfl])
      intro a b h hne d
      rw [FS.get_set]
      split
      · simp
      · have := hfile (c :: a) b (by rw [h]; rfl) (by simp) d
        simpa using this

/-- the nodes MkdirAll creates are non-empty prefixes of its argument -/
theorem mkdirAllAux_new_prefix (fs : FS) (pre : Path) (cs : List Str) :
    ∀ q, fs.get q = none → (mkdirAllAux fs pre cs).1.get q ≠ none →
      ∃ a b, cs = a ++ b ∧ a ≠ [] ∧ q = pre ++ a := by
  induction cs generalizing fs pre with
  | nil => intro q h h'; simp only [mkdirAllAux] at h'; exact absurd h h'
  | cons c cs ih =>
    have lift : ∀ q, (∃ a b, cs = a ++ b ∧ a ≠ [] ∧ q = (pre ++ [c]) ++ a) →
        ∃ a b, c :: cs = a ++ b ∧ a ≠ [] ∧ q = pre ++ a := by
      rintro q ⟨a, b, h1, -, h3⟩
      exact ⟨c :: a, b, by rw [h1]; rfl, by simp, by simpa using h3⟩
    intro q h h'
    unfold mkdirAllAux at h'
    simp only at h'
    split at h'
    · exact lift q (ih fs _ q h h')
    · exact absurd h h'
    · by_cases hq : pre ++ [c] = q
      · exact ⟨[c], cs, rfl, by simp, hq.symm⟩
      · have hn : (fs.set (pre ++ [c]) .dir).get q = none := by rw [FS.get_set, if_neg hq]; exact h
        exact lift q (ih _ _ q hn h')

theorem mkdirAll_ok (fs : FS) (p : Path)
    (hfile : ∀ a b, p = a ++ b → a ≠ [] → ∀ c, fs.get a ≠ some (.file c)) :
    (mkdirAll fs p).2 = true ∧
    ∀ a b, p = a ++ b → a ≠ [] → (mkdirAll fs p).1.get a = some .dir := by
  have := mkdirAllAux_ok fs [] p (by simpa using hfile)
  simpa [mkdirAll] using this

theorem mkdirAll_new_prefix (fs : FS) (p : Path) :
    ∀ q, fs.get q = none → (mkdirAll fs p).1.get q ≠ none →
      ∃ a b, p = a ++ b ∧ a ≠ [] ∧ q = a := by
  have := mkdirAllAux_new_prefix fs [] p
  simpa [mkdirAll] using this

/-! ### the copy step of an intact entry -/

theorem copyEntry_honest (e : ZEnt) (hh : Honest e) (h0 : 0 ≤ toInt64 e.declared) :
    copyEntry e = (e.data, true) := by
  obtain ⟨h64, -, hs, hw, hlen⟩ := hh
  have h64' : e.declared < 18446744073709551616 := h64
  obtain ⟨-, hto⟩ := toInt64_of_nonneg h64' h0
  have htake : List.take (toInt64 e.declared + 1).toNat e.data = e.data := by
    apply List.take_of_length_le
    rw [hto, hlen]
    omega
  unfold copyEntry
  simp only [hw, htake, hs, Bool.and_false, Bool.not_false, Bool.true_and]
  rw [hto, hlen]
  simp only [Prod.mk.injEq, decide_eq_true_eq, true_and]
  omega

/-! ### names: element lists of accepted names are pairwise incomparable -/

/-- neither element list is a prefix of the other -/
def Incomp (a b : List Str) : Prop := ¬ a <+: b ∧ ¬ b <+: a

theorem Incomp.symm {a b : List Str} (h : Incomp a b) : Incomp b a := ⟨h.2, h.1⟩

theorem joinSlash_append (x y : List Str) (hx : x ≠ []) (hy : y ≠ []) :
    joinSlash (x ++ y) = joinSlash x ++ 47 :: joinSlash y := by
  induction x with
  | nil => exact absurd rfl hx
  | cons a as ih =>
    by_cases has : as = []
    · subst has
      simp only [List.cons_append, List.nil_append]
      rw [Coll.joinSlash_cons_of_ne_nil a y hy]
      rfl
    · rw [List.cons_append, Coll.joinSlash_cons_of_ne_nil a (as ++ y) (by simp [has]), ih has,
        Coll.joinSlash_cons_of_ne_nil a as has, List.append_assoc]
      rfl

/-- the elements of a name that CheckFilePath accepts -/
theorem checkFilePath_elems (U : Uni) (p : Str) (h : checkFilePath U p = none) :
    p ≠ [] ∧ GoodElems (splitOn 47 p) := by
  obtain ⟨es, hne, rfl, hg⟩ := Coll.checkFilePath_good U p h
  rw [Coll.splitOn_joinSlash es hne (fun e he => (hg e he).2.2.2)]
  exact ⟨Coll.joinSlash_ne_nil es hne hg, hg⟩

/-- if the elements of `a` are a proper prefix of the elements of `b`, then `a` is an ancestor
directory of `b` -/
theorem isAncestor_of_prefix (U : Uni) (a b : Str) (ha : checkFilePath U a = none)
    (hb : checkFilePath U b = none) (hp : splitOn 47 a <+: splitOn 47 b) (hne : a ≠ b) :
    IsAncestor a b := by
  obtain ⟨r, hr⟩ := hp
  obtain ⟨ha0, -⟩ := checkFilePath_elems U a ha
  obtain ⟨-, hgb⟩ := checkFilePath_elems U b hb
  have hr0 : r ≠ [] := by
    rintro rfl
    apply hne
    rw [← joinSlash_splitOn a, ← joinSlash_splitOn b, ← hr, List.append_nil]
  have hgr : GoodElems r := fun x hx => hgb x (by rw [← hr]; exact List.mem_append_right _ hx)
  refine ⟨ha0, joinSlash r, Coll.joinSlash_ne_nil r hr0 hgr, ?_⟩
  have := joinSlash_append (splitOn 47 a) r (splitOn_ne_nil a) hr0
  rw [hr, joinSlash_splitOn, joinSlash_splitOn] at this
  exact this

theorem incomp_of_collisionFree (U : Uni) (names : List Str) (hcf : CollisionFree U names)
    (hok : ∀ a ∈ names, checkFilePath U a = none) :
    (names.map (splitOn 47)).Pairwise Incomp := by
  rw [List.pairwise_map]
  refine List.Pairwise.imp_of_mem ?_ hcf.1
  intro a b ha hb hab
  have hne : a ≠ b := fun h => hab (by rw [h])
  constructor
  · intro hp
    exact hcf.2 a ha b hb a (isAncestor_of_prefix U a b (hok a ha) (hok b hb) hp hne) rfl
  · intro hp
    exact hcf.2 b hb a ha b (isAncestor_of_prefix U b a (hok b hb) (hok a ha) hp (Ne.symm hne)) rfl

/-! ### what CheckZip establishes for the entries the loop does not skip -/

/-- an entry that the extraction loop handles without any error -/
structure GoodEnt (dir : Path) (e : ZEnt) : Prop where
  join : fjoin dir e.name = dir ++ splitOn 47 e.name
  ne : splitOn 47 e.name ≠ []
  openOk : e.openErr = false
  copy : copyEntry e = (e.data, true)

/-- the element lists of the entries that are not skipped, in order -/
def relNames (z : List ZEnt) : List (List Str) :=
  (z.filter (fun e => !skipEntry e)).map (fun e => splitOn 47 e.name)

theorem skipEntry_false_isDir {e : ZEnt} (h : skipEntry e = false) : isDirName e.name = false := by
  unfold skipEntry at h
  simp only [Bool.or_eq_false_iff] at h
  exact h.2

theorem checkZip_goodEnt (U : Uni) (zipSize : Nat) (z : List ZEnt) (dir : Path)
    (hck : (checkZip U zipSize z).isErr = false)
    (hh : ∀ e ∈ z, skipEntry e = false → Honest e) :
    ∀ e ∈ z, skipEntry e = false → GoodEnt dir e := by
  intro e he hskip
  obtain ⟨h1, h2⟩ := checkZip_entries_safe U zipSize z hck dir e he hskip
  have hnn := ((checkZip_ok64 U zipSize z hck).2.1 e he).nonneg (skipEntry_false_isDir hskip)
  have hhe := hh e he hskip
  exact ⟨h1, h2, hhe.2.1, copyEntry_honest e hhe hnn⟩

theorem checkZip_relNames (U : Uni) (zipSize : Nat) (z : List ZEnt)
    (hck : (checkZip U zipSize z).isErr = false) : (relNames z).Pairwise Incomp := by
  obtain ⟨-, hall, -, -, -, -, -, hval⟩ := checkZip_ok64 U zipSize z hck
  have hcf := checkZip_collisionFree U zipSize z
  rw [hval] at hcf
  -- file entries pass CheckFilePath under their own name
  have hpath : ∀ e ∈ z, isDirName e.name = false → checkFilePath U e.name = none := by
    intro e he hd
    have := (hall e he).path
    unfold entName at this
    rw [hd] at this
    simpa using this
  -- the non-directory entries are exactly the ones the loop does not skip
  have hfilter : z.filter (fun e => !isDirName e.name) = z.filter (fun e => !skipEntry e) := by
    apply List.filter_congr
    intro e he
    cases hd : isDirName e.name with
    | true =>
      have : skipEntry e = true := by
        unfold skipEntry; unfold isDirName at hd; rw [hd]; simp
      rw [this]
    | false =>
      have hne := (checkFilePath_none (hpath e he hd)).1
      have : skipEntry e = false := by
        unfold skipEntry; unfold isDirName at hd; rw [hd]
        simpa using hne
      rw [this]
  have hok : ∀ a ∈ fileNames z, checkFilePath U a = none := by
    intro a ha
    unfold fileNames at ha
    obtain ⟨e, he, rfl⟩ := List.mem_map.mp ha
    obtain ⟨he1, he2⟩ := List.mem_filter.mp he
    exact hpath e he1 (by simpa using he2)
  have := incomp_of_collisionFree U (fileNames z) hcf hok
  unfold fileNames at this
  rw [hfilter, List.map_map] at this
  exact this

/-! ### the loop invariant -/

/-- State of the file system while the loop runs; `S` lists (relative elements, data) of the
entries extracted so far. -/
structure ExInv (dir : Path) (fs : FS) (S : List (List Str × List Nat)) : Prop where
  /-- the regular files strictly beneath `dir` are destinations of extracted entries -/
  files : ∀ r c, r ≠ [] → fs.get (dir ++ r) = some (.file c) → ∃ p ∈ S, r = p.1
  /-- every node strictly beneath `dir` lies on the way to such a destination -/
  nodes : ∀ r, r ≠ [] → fs.get (dir ++ r) ≠ none → ∃ p ∈ S, r <+: p.1
  /-- every extracted entry is there with its data -/
  have_ : ∀ p ∈ S, fs.get (dir ++ p.1) = some (.file p.2)
  /-- `dir` and its ancestors are directories -/
  above : ∀ a b, dir = a ++ b → a ≠ [] → fs.get a = some .dir

/-- a prefix of `dir ++ r` is a prefix of `dir`, or `dir` followed by a non-empty prefix of `r` -/
theorem prefix_cases (dir r a b : Path) (h : dir ++ r = a ++ b) :
    (∃ b', dir = a ++ b') ∨ ∃ c', c' ≠ [] ∧ a = dir ++ c' ∧ c' <+: r := by
  rcases List.append_eq_append_iff.mp h with ⟨a', h1, h2⟩ | ⟨c', h1, h2⟩
  · by_cases ha' : a' = []
    · subst ha'
      exact Or.inl ⟨[], by simpa using h1.symm⟩
    · exact Or.inr ⟨a', ha', h1, ⟨b, h2.symm⟩⟩
  · exact Or.inl ⟨c', h1⟩

theorem unzipOne_eq (fs fs1 : FS) (dir : Path) (e : ZEnt)
    (hm : mkdirAll fs (fjoin dir e.name).dropLast = (fs1, true))
    (hn : fs1.get (fjoin dir e.name) = none) (ho : e.openErr = false) :
    unzipOne fs dir e =
      (((fs1.set (fjoin dir e.name) (.file [])).set (fjoin dir e.name) (.file (copyEntry e).1)),
        (copyEntry e).2) := by
  unfold unzipOne
  simp only [hm, hn, ho, Bool.false_eq_true, if_false]

/-- one step of the loop: an entry whose elements are incomparable with everything extracted so
far is extracted completely -/
theorem unzipOne_step (dir : Path) (fs : FS) (S : List (List Str × List Nat)) (e : ZEnt)
    (hinv : ExInv dir fs S) (hg : GoodEnt dir e)
    (hinc : ∀ p ∈ S, Incomp p.1 (splitOn 47 e.name)) :
    (unzipOne fs dir e).2 = true ∧
    ExInv dir (unzipOne fs dir e).1 ((splitOn 47 e.name, e.data) :: S) := by
  generalize hes : splitOn 47 e.name = es at hinc ⊢
  have hes0 : es ≠ [] := by rw [← hes]; exact hg.ne
  have hdst : fjoin dir e.name = dir ++ es := by rw [hg.join, hes]
  have hparent : (fjoin dir e.name).dropLast = dir ++ es.dropLast := by
    rw [hdst, List.dropLast_append_of_ne_nil hes0]
  have hdl : es.dropLast <+: es := List.dropLast_prefix es
  -- MkdirAll of the parent succeeds
  have hfile : ∀ a b, dir ++ es.dropLast = a ++ b → a ≠ [] → ∀ c, fs.get a ≠ some (.file c) := by
    intro a b h ha c hc
    rcases prefix_cases dir es.dropLast a b h with ⟨b', hb'⟩ | ⟨c', hc0, rfl, hpre⟩
    · rw [hinv.above a b' hb' ha] at hc; cases hc
    · obtain ⟨p, hp, rfl⟩ := hinv.files c' c hc0 hc
      exact (hinc p hp).1 (hpre.trans hdl)
  obtain ⟨hmk, hdirs⟩ := mkdirAll_ok fs (dir ++ es.dropLast) hfile
  have hext := mkdirAll_extends fs (dir ++ es.dropLast)
  have hod := mkdirAll_only_dirs fs (dir ++ es.dropLast)
  have hnew := mkdirAll_new_prefix fs (dir ++ es.dropLast)
  generalize hfs1 : (mkdirAll fs (dir ++ es.dropLast)).1 = fs1 at hdirs hext hod hnew
  have hmeq : mkdirAll fs (fjoin dir e.name).dropLast = (fs1, true) := by
    rw [hparent, ← hfs1, ← hmk]
  -- nodes of fs1 strictly beneath dir
  have hnodes1 : ∀ r, r ≠ [] → fs1.get (dir ++ r) ≠ none →
      (∃ p ∈ S, r <+: p.1) ∨ (r <+: es.dropLast ∧ fs.get (dir ++ r) = none) := by
    intro r hr hsome
    cases hold : fs.get (dir ++ r) with
    | some n => exact Or.inl (hinv.nodes r hr (by rw [hold]; simp))
    | none =>
      right
      obtain ⟨a, b, h1, h2, h3⟩ := hnew _ hold hsome
      rcases prefix_cases dir es.dropLast a b h1 with ⟨b', hb'⟩ | ⟨c', -, hc1, hpre⟩
      · exfalso
        have hl := congrArg List.length hb'
        have hl3 := congrArg List.length h3
        simp only [List.length_append] at hl hl3
        have : r.length = 0 := by omega
        exact hr (List.eq_nil_of_length_eq_zero this)
      · rw [hc1] at h3
        have := List.append_cancel_left h3
        rw [this]
        exact ⟨hpre, rfl⟩
  -- the destination is free
  have hfree : fs1.get (fjoin dir e.name) = none := by
    rw [hdst]
    cases hget : fs1.get (dir ++ es) with
    | none => rfl
    | some n =>
      exfalso
      rcases hnodes1 es hes0 (by rw [hget]; simp) with ⟨p, hp, hpre⟩ | ⟨hpre, -⟩
      · exact (hinc p hp).2 hpre
      · have h1 := hpre.length_le
        have h2 : 0 < es.length := List.length_pos_iff.mpr hes0
        rw [List.length_dropLast] at h1
        omega
  rw [unzipOne_eq fs fs1 dir e hmeq hfree hg.openOk, hg.copy, hdst]
  refine ⟨rfl, ?_, ?_, ?_, ?_⟩
  · -- files
    intro r c hr hc
    rw [FS.get_set_set] at hc
    split at hc
    · next heq => exact ⟨_, List.mem_cons_self, (List.append_cancel_left heq).symm⟩
    · cases hold : fs.get (dir ++ r) with
      | none => have := hod _ _ hold hc; cases this
      | some n =>
        rw [hext _ _ hold] at hc
        cases hc
        obtain ⟨p, hp, h⟩ := hinv.files r c hr hold
        exact ⟨p, List.mem_cons_of_mem _ hp, h⟩
  · -- nodes
    intro r hr hsome
    rw [FS.get_set_set] at hsome
    split at hsome
    · next heq =>
      exact ⟨_, List.mem_cons_self, by rw [← List.append_cancel_left heq]; exact List.prefix_refl _⟩
    · rcases hnodes1 r hr hsome with ⟨p, hp, hpre⟩ | ⟨hpre, -⟩
      · exact ⟨p, List.mem_cons_of_mem _ hp, hpre⟩
      · exact ⟨_, List.mem_cons_self, hpre.trans hdl⟩
  · -- have_
    intro p hp
    rw [FS.get_set_set]
    rcases List.mem_cons.mp hp with rfl | hp
    · rw [if_pos rfl]
    · have hold := hext _ _ (hinv.have_ p hp)
      split
      · next heq =>
        exfalso
        rw [hdst, heq, hold] at hfree
        cases hfree
      · exact hold
  · -- above
    intro a b hab ha
    rw [FS.get_set_set]
    split
    · next heq =>
      exfalso
      have hl := congrArg List.length hab
      have hl2 := congrArg List.length heq
      have h2 : 0 < es.length := List.length_pos_iff.mpr hes0
      simp only [List.length_append] at hl hl2
      omega
    · exact hext _ _ (hinv.above a b hab ha)

/-! ### the loop -/

theorem relNames_cons_skip {e : ZEnt} (es : List ZEnt) (h : skipEntry e = true) :
    relNames (e :: es) = relNames es := by
  unfold relNames
  rw [List.filter_cons_of_neg (by simp [h])]

theorem relNames_cons_keep {e : ZEnt} (es : List ZEnt) (h : skipEntry e = false) :
    relNames (e :: es) = splitOn 47 e.name :: relNames es := by
  unfold relNames
  rw [List.filter_cons_of_pos (by simp [h]), List.map_cons]

theorem unzipEntries_honest (dir : Path) (rest : List ZEnt) :
    ∀ (fs : FS) (S : List (List Str × List Nat)), ExInv dir fs S →
      (∀ e ∈ rest, skipEntry e = false → GoodEnt dir e) →
      (∀ p ∈ S, ∀ r ∈ relNames rest, Incomp p.1 r) →
      (relNames rest).Pairwise Incomp →
      (unzipEntries fs dir rest).2 = true ∧
      (∀ p ∈ S, (unzipEntries fs dir rest).1.get (dir ++ p.1) = some (.file p.2)) ∧
      (∀ e ∈ rest, skipEntry e = false →
        (unzipEntries fs dir rest).1.get (dir ++ splitOn 47 e.name) = some (.file e.data)) := by
  induction rest with
  | nil =>
    intro fs S hinv _ _ _
    exact ⟨rfl, hinv.have_, fun e he => by cases he⟩
  | cons e es ih =>
    intro fs S hinv hgood hinc hpw
    have hgood' : ∀ e' ∈ es, skipEntry e' = false → GoodEnt dir e' :=
      fun e' he' => hgood e' (List.mem_cons_of_mem _ he')
    cases hskip : skipEntry e with
    | true =>
      rw [relNames_cons_skip es hskip] at hinc hpw
      obtain ⟨i1, i2, i3⟩ := ih fs S hinv hgood' hinc hpw
      have heq : unzipEntries fs dir (e :: es) = unzipEntries fs dir es := by
        rw [unzipEntries, if_pos hskip]
      rw [heq]
      refine ⟨i1, i2, ?_⟩
      intro e' he' hs'
      rcases List.mem_cons.mp he' with rfl | he'
      · rw [hskip] at hs'; cases hs'
      · exact i3 e' he' hs'
    | false =>
      rw [relNames_cons_keep es hskip] at hinc hpw
      obtain ⟨hhead, hpw'⟩ := List.pairwise_cons.mp hpw
      obtain ⟨hok, hinv'⟩ := unzipOne_step dir fs S e hinv (hgood e List.mem_cons_self hskip)
        (fun p hp => hinc p hp _ List.mem_cons_self)
      generalize hone : unzipOne fs dir e = res at hok hinv'
      obtain ⟨fs2, b⟩ := res
      simp only at hok hinv'
      subst hok
      have heq : unzipEntries fs dir (e :: es) = unzipEntries fs2 dir es := by
        rw [unzipEntries, if_neg (by simp [hskip]), hone]
      rw [heq]
      obtain ⟨i1, i2, i3⟩ := ih fs2 _ hinv' hgood' (by
        intro p hp r hr
        rcases List.mem_cons.mp hp with rfl | hp
        · exact hhead r hr
        · exact hinc p hp r (List.mem_cons_of_mem _ hr)) hpw'
      refine ⟨i1, fun p hp => i2 p (List.mem_cons_of_mem _ hp), ?_⟩
      intro e' he' hs'
      rcases List.mem_cons.mp he' with rfl | he'
      · exact i2 _ List.mem_cons_self
      · exact i3 e' he' hs'

/-! ### Unzip of an intact archive into a fresh target -/

theorem exInv_init (fs : FS) (dir : Path) (hfresh : FreshTarget fs dir) :
    (mkdirAll fs dir).2 = true ∧ ExInv dir (mkdirAll fs dir).1 [] := by
  have hfile : ∀ a b, dir = a ++ b → a ≠ [] → ∀ c, fs.get a ≠ some (.file c) :=
    fun a b h _ c => hfresh.2 a c ⟨b, h⟩
  obtain ⟨hok, hdirs⟩ := mkdirAll_ok fs dir hfile
  have hnone : ∀ r, r ≠ [] → (mkdirAll fs dir).1.get (dir ++ r) = none := by
    intro r hr
    have hold : fs.get (dir ++ r) = none := by
      cases h : fs.get (dir ++ r) with
      | none => rfl
      | some n => exact absurd ⟨r, hr, rfl⟩ (hfresh.1 _ n h)
    cases hget : (mkdirAll fs dir).1.get (dir ++ r) with
    | none => rfl
    | some n =>
      exfalso
      obtain ⟨a, b, h1, -, h3⟩ := mkdirAll_new_prefix fs dir _ hold (by rw [hget]; simp)
      have hl := congrArg List.length h1
      have hl3 := congrArg List.length h3
      simp only [List.length_append] at hl hl3
      have : r.length = 0 := by omega
      exact hr (List.eq_nil_of_length_eq_zero this)
  refine ⟨hok, ?_, ?_, ?_, hdirs⟩
  · intro r c hr hc; rw [hnone r hr] at hc; cases hc
  · intro r hr hs; exact absurd (hnone r hr) hs
  · intro p hp; cases hp

/-- Extraction of an archive that passes CheckZip and whose entries are intact (`Honest`) into a
fresh target succeeds, and afterwards the regular files strictly beneath the target are exactly
the archive's file entries with exactly their data. -/
theorem unzip_honest (U : Uni) (fs : FS) (dir : Path) (zipSize : Nat) (z : List ZEnt)
    (hck : (checkZip U zipSize z).isErr = false)
    (hh : ∀ e ∈ z, skipEntry e = false → Honest e)
    (hfresh : FreshTarget fs dir) :
    (unzip U fs dir zipSize z).2 = true ∧
    ∀ rel c, rel ≠ [] →
      ((unzip U fs dir zipSize z).1.get (dir ++ rel) = some (.file c) ↔
        ∃ e ∈ z, skipEntry e = false ∧ rel = splitOn 47 e.name ∧ c = e.data) := by
  obtain ⟨hmk, hinv⟩ := exInv_init fs dir hfresh
  generalize hm : mkdirAll fs dir = res at hmk hinv
  obtain ⟨fs0, b⟩ := res
  simp only at hmk hinv
  subst hmk
  obtain ⟨hok, -, hall⟩ := unzipEntries_honest dir z fs0 [] hinv
    (checkZip_goodEnt U zipSize z dir hck hh) (fun p hp => by cases hp)
    (checkZip_relNames U zipSize z hck)
  have heq : unzip U fs dir zipSize z = unzipEntries fs0 dir z := by
    unfold unzip
    rw [dirNonEmpty_fresh fs dir hfresh, hck, hm]
    simp
  have hsucc : (unzip U fs dir zipSize z).2 = true := by rw [heq]; exact hok
  refine ⟨hsucc, ?_⟩
  intro rel c hrel
  constructor
  · intro hc
    have hold : fs.get (dir ++ rel) = none := by
      cases h : fs.get (dir ++ rel) with
      | none => rfl
      | some n => exact absurd ⟨rel, hrel, rfl⟩ (hfresh.1 _ n h)
    obtain ⟨e, he, hskip, hq, -, -, hcf⟩ := unzip_files U fs dir zipSize z _ c hold hc
    exact ⟨e, he, hskip, List.append_cancel_left hq, (hcf.2.2 hsucc).1⟩
  · rintro ⟨e, he, hskip, rfl, rfl⟩
    rw [heq]
    exact hall e he hskip

end CueVerif.Modzip
