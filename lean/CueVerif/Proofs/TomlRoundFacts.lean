/-
C12 round trip, part 1: the facts the decoder appends for an emission (`kvFacts`, `subFacts`,
`entryFacts`, …, mirroring `emit`) have the same members as the facts of the tree.
-/
import CueVerif.Spec.Toml
open CueVerif.Toml CueVerif.Toml.Spec
namespace CueVerif.Toml.Round

/-- facts appended by the key-value pass -/
def kvFacts (P : Path) : List (Name × Tree) → List Fact
  | [] => []
  | f :: rest => (if f.2.entryIsTable then [] else f.2.facts (P ++ [.key f.1])) ++ kvFacts P rest

mutual
def subFacts (P : Path) : List (Name × Tree) → List Fact
  | [] => []
  | f :: rest => entryFacts (P ++ [.key f.1]) f.2 ++ subFacts P rest
def entryFacts (Q : Path) : Tree → List Fact
  | .tbl fs => (Q, .tbl) :: (kvFacts Q fs ++ subFacts Q fs)
  | .arr xs => if (Tree.arr xs).isAoT then (Q, .arr) :: elemsFacts Q 0 xs else []
  | .sc _ => []
def elemsFacts (Q : Path) (i : Nat) : List Tree → List Fact
  | [] => []
  | x :: xs => elemFacts (Q ++ [.idx i]) x ++ elemsFacts Q (i + 1) xs
def elemFacts (Q : Path) : Tree → List Fact
  | .tbl fs => (Q, .tbl) :: (kvFacts Q fs ++ subFacts Q fs)
  | _ => []
end

theorem mem_kvFacts (P : Path) (x : Fact) : ∀ fs : List (Name × Tree),
    x ∈ kvFacts P fs ↔ ∃ f ∈ fs, f.2.entryIsTable = false ∧ x ∈ f.2.facts (P ++ [.key f.1])
  | [] => by simp [kvFacts]
  | f :: rest => by
    simp only [kvFacts, List.mem_append, mem_kvFacts P x rest, List.mem_cons, exists_eq_or_imp]
    cases h : f.2.entryIsTable <;> simp

theorem mem_treeFactsFields (P : Path) (x : Fact) : ∀ fs : List (Name × Tree),
    x ∈ treeFactsFields P fs ↔ ∃ f ∈ fs, x ∈ f.2.facts (P ++ [.key f.1])
  | [] => by simp [treeFactsFields]
  | f :: rest => by
    simp only [treeFactsFields, List.mem_append, mem_treeFactsFields P x rest, List.mem_cons,
      exists_eq_or_imp]

theorem entryFacts_nil (Q : Path) : ∀ t : Tree, t.entryIsTable = false → entryFacts Q t = []
  | .sc _, _ => by simp [entryFacts]
  | .tbl _, h => by simp [Tree.entryIsTable, Tree.isTable] at h
  | .arr xs, h => by
    simp [Tree.entryIsTable, Tree.isTable] at h
    simp [entryFacts, h]

theorem elemFacts_eq (Q : Path) : ∀ t : Tree, t.isTable = true → elemFacts Q t = entryFacts Q t
  | .sc _, h => by simp [Tree.isTable] at h
  | .tbl fs, _ => by simp [entryFacts, elemFacts]
  | .arr xs, h => by simp [Tree.isTable] at h

mutual
theorem mem_subFacts (P : Path) (x : Fact) : ∀ fs : List (Name × Tree),
    x ∈ subFacts P fs ↔ ∃ f ∈ fs, f.2.entryIsTable = true ∧ x ∈ f.2.facts (P ++ [.key f.1])
  | [] => by simp [subFacts]
  | f :: rest => by
    simp only [subFacts, List.mem_append, mem_subFacts P x rest, List.mem_cons, exists_eq_or_imp]
    cases h : f.2.entryIsTable
    · simp [entryFacts_nil _ _ h]
    · simp [mem_entryFacts _ x f.2 h]
theorem mem_entryFacts (Q : Path) (x : Fact) : ∀ t : Tree, t.entryIsTable = true →
    (x ∈ entryFacts Q t ↔ x ∈ t.facts Q)
  | .sc _, h => by simp [Tree.entryIsTable, Tree.isTable, Tree.isAoT] at h
  | .tbl fs, _ => by
    simp only [entryFacts, Tree.facts, List.mem_cons, List.mem_append, mem_subFacts Q x fs,
      mem_kvFacts, mem_treeFactsFields]
    constructor
    · rintro (h | ⟨f, hf, _, hx⟩ | ⟨f, hf, _, hx⟩)
      · exact .inl h
      · exact .inr ⟨f, hf, hx⟩
      · exact .inr ⟨f, hf, hx⟩
    · rintro (h | ⟨f, hf, hx⟩)
      · exact .inl h
      · cases hb : f.2.entryIsTable
        · exact .inr (.inl ⟨f, hf, hb, hx⟩)
        · exact .inr (.inr ⟨f, hf, hb, hx⟩)
  | .arr xs, h => by
    have h' : (Tree.arr xs).isAoT = true := by
      simpa [Tree.entryIsTable, Tree.isTable] using h
    have hall : xs.all Tree.isTable = true := by
      simp only [Tree.isAoT, Bool.and_eq_true] at h'
      exact h'.2
    simp only [entryFacts, h', if_true, Tree.facts, List.mem_cons, mem_elemsFacts Q x 0 xs hall]
theorem mem_elemsFacts (Q : Path) (x : Fact) (i : Nat) : ∀ xs : List Tree,
    xs.all Tree.isTable = true → (x ∈ elemsFacts Q i xs ↔ x ∈ treeFactsElems Q i xs)
  | [], _ => by simp [elemsFacts, treeFactsElems]
  | t :: xs, h => by
    simp only [List.all_cons, Bool.and_eq_true] at h
    have ht : t.entryIsTable = true := by simp [Tree.entryIsTable, h.1]
    simp only [elemsFacts, treeFactsElems, List.mem_append, elemFacts_eq _ _ h.1,
      mem_entryFacts _ x t ht, mem_elemsFacts Q x (i + 1) xs h.2]
end

theorem sameData_of_mem {a b : List Fact} (h : ∀ x, x ∈ a ↔ x ∈ b) : SameData a b := by
  intro f
  simp only [closure, List.mem_append, List.mem_flatMap, h]

theorem bodyFacts_sameData (fs : List (Name × Tree)) :
    SameData (([], .tbl) :: (kvFacts [] fs ++ subFacts [] fs)) ((Tree.tbl fs).facts []) := by
  apply sameData_of_mem
  intro x
  have := mem_entryFacts [] x (.tbl fs) (by simp [Tree.entryIsTable, Tree.isTable])
  simpa only [entryFacts] using this

end CueVerif.Toml.Round
