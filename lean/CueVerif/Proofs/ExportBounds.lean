import CueVerif.Spec.Export
import CueVerif.Proofs.Scalar
/-!
C07 (2) — proofs: `boundSimplifier` preserves the denotation of every conjunction, and a
predeclared range identifier denotes exactly the conjunction `MatchBuiltinRange` recognised.
Core Lean only.
-/
namespace CueVerif.Export
open CueVerif CueVerif.Scalar Std

/-! ### numeric bounds -/

/-- the truth of `a op n` for a numeric operand `n` -/
def numSat (op : Op) (a : Atom) (n : Dec) : Bool :=
  match a.num? with
  | some x => opHolds op (Dec.cmp x n)
  | none => false

theorem satBound_num (re : Bytes → Bytes → Bool) (a : Atom) (b : Bound) (n : Dec)
    (hn : b.val.num? = some n) (ho : isOrd b.op = true) :
    satBound re a b = numSat b.op a n := by
  obtain ⟨op, v⟩ := b
  cases v <;> simp only [Atom.num?, reduceCtorEq, Option.some.injEq] at hn <;> subst hn <;>
    cases op <;> simp only [isOrd, Bool.false_eq_true] at ho <;> cases a <;> rfl

theorem isOrd_lower (op : Op) (h : isLower op = true) : isOrd op = true := by
  cases op <;> simp_all [isLower, isOrd]

theorem isOrd_upper (op : Op) (h : isUpper op = true) : isOrd op = true := by
  cases op <;> simp_all [isUpper, isOrd]

/-- tightening a lower bound: what `add` keeps says the same as both bounds together -/
theorem fin_lower (op0 : Op) (h0 : isLower op0 = true) (o1 o2 o3 : Ordering)
    (hc : consistent o1 o2 o3 = true) :
    ((opHolds op0 o1 && opHolds .gt o3) = if (o2 != .gt) = true then opHolds .gt o3 else opHolds op0 o1) ∧
    ((opHolds op0 o1 && opHolds .ge o3) = if (o2 == .lt) = true then opHolds .ge o3 else opHolds op0 o1) := by
  revert hc h0
  cases op0 <;> cases o1 <;> cases o2 <;> cases o3 <;> decide

theorem fin_upper (op0 : Op) (h0 : isUpper op0 = true) (o1 o2 o3 : Ordering)
    (hc : consistent o1 o2 o3 = true) :
    ((opHolds op0 o1 && opHolds .lt o3) = if (o2 != .lt) = true then opHolds .lt o3 else opHolds op0 o1) ∧
    ((opHolds op0 o1 && opHolds .le o3) = if (o2 == .gt) = true then opHolds .le o3 else opHolds op0 o1) := by
  revert hc h0
  cases op0 <;> cases o1 <;> cases o2 <;> cases o3 <;> decide

theorem numSat_lower (op0 : Op) (h0 : isLower op0 = true) (a : Atom) (m n : Dec) :
    ((numSat op0 a m && numSat .gt a n) =
        if (Dec.cmp m n != .gt) = true then numSat .gt a n else numSat op0 a m) ∧
    ((numSat op0 a m && numSat .ge a n) =
        if (Dec.cmp m n == .lt) = true then numSat .ge a n else numSat op0 a m) := by
  unfold numSat
  cases a.num? with
  | none => constructor <;> simp
  | some x => exact fin_lower op0 h0 _ _ _ (consistent_of_trans Dec.cmp x m n)

theorem numSat_upper (op0 : Op) (h0 : isUpper op0 = true) (a : Atom) (m n : Dec) :
    ((numSat op0 a m && numSat .lt a n) =
        if (Dec.cmp m n != .lt) = true then numSat .lt a n else numSat op0 a m) ∧
    ((numSat op0 a m && numSat .le a n) =
        if (Dec.cmp m n == .gt) = true then numSat .le a n else numSat op0 a m) := by
  unfold numSat
  cases a.num? with
  | none => constructor <;> simp
  | some x => exact fin_upper op0 h0 _ _ _ (consistent_of_trans Dec.cmp x m n)

/-! ### zero and signs -/

theorem cmp_zero (n : Dec) : Dec.cmp n (Dec.ofInt 0) = compare n.coeff 0 := by
  have h1 : min n.exp 0 ≤ n.exp := by omega
  have h2 : min n.exp 0 ≤ (Dec.ofInt 0).exp := by simp only [Dec.ofInt]; omega
  rw [Dec.cmp_at n (Dec.ofInt 0) _ h1 h2, Dec.shift_ofInt, Int.zero_mul]
  unfold Dec.shift
  have := Dec.compare_mul_right n.coeff 0 _ (Dec.ten_pow_pos (n.exp - min n.exp 0).toNat)
  rw [Int.zero_mul] at this
  exact this

theorem compare_zero_ge (z : Int) : (compare z 0).isGE = decide (0 ≤ z) := by
  rcases Int.lt_trichotomy z 0 with h | h | h
  · rw [Int.compare_eq_lt.2 h]; simp only [Ordering.isGE]; exact (decide_eq_false (by omega)).symm
  · subst h; rfl
  · rw [Int.compare_eq_gt.2 h]; simp only [Ordering.isGE]; exact (decide_eq_true (by omega)).symm

/-- an integer atom at or above a lower bound whose operand is not negative is not negative -/
theorem nonneg_of_lower (op : Op) (hl : isLower op = true) (z : Int) (n : Dec) (hs : 0 ≤ n.coeff)
    (h : opHolds op (Dec.cmp (Dec.ofInt z) n) = true) : 0 ≤ z := by
  have hc := consistent_of_trans Dec.cmp (Dec.ofInt z) n (Dec.ofInt 0)
  rw [cmp_zero, Dec.cmp_ofInt_ofInt] at hc
  have hz := compare_zero_ge z
  have hn := compare_zero_ge n.coeff
  rw [decide_eq_true hs] at hn
  have hge : (compare z 0).isGE = true := by
    revert h hc hn
    cases op <;> simp only [isLower, Bool.false_eq_true] at hl <;>
      cases Dec.cmp (Dec.ofInt z) n <;> cases compare n.coeff 0 <;> cases compare z 0 <;> decide
  rw [hz] at hge
  exact of_decide_eq_true hge

/-- `>= n` with `n = 0` on an integer atom is `0 ≤ z` -/
theorem ge_zero (z : Int) (n : Dec) (hs : n.coeff = 0) :
    opHolds .ge (Dec.cmp (Dec.ofInt z) n) = decide (0 ≤ z) := by
  have hn : Dec.cmp n (Dec.ofInt 0) = .eq := by rw [cmp_zero, hs]; rfl
  rw [TransCmp.congr_right (cmp := Dec.cmp) hn, Dec.cmp_ofInt_ofInt, opHolds_ge]
  exact compare_zero_ge z

theorem sign_cases (n : Dec) : (n.sign = -1 ∧ n.coeff < 0) ∨ (n.sign = 0 ∧ n.coeff = 0) ∨
    (n.sign = 1 ∧ 0 < n.coeff) := by
  unfold Dec.sign
  rcases Int.lt_trichotomy n.coeff 0 with h | h | h
  · exact Or.inl ⟨Int.sign_eq_neg_one_of_neg h, h⟩
  · exact Or.inr (Or.inl ⟨by rw [h]; rfl, h⟩)
  · exact Or.inr (Or.inr ⟨Int.sign_eq_one_of_pos h, h⟩)

theorem int_has (a : Atom) : Kind.has Kind.int a = (match a with | .int _ => true | _ => false) := by
  cases a <;> simp [Kind.has, Kind.int, Atom.kindBit] <;> decide

theorem satRange_uint (a : Atom) :
    satRange a .uint = (match a with | .int z => decide (0 ≤ z) | _ => false) := by
  cases a <;> simp [satRange, Range.intSpec]

/-- `int & min` = `uint & min` when the operand of `min` is not negative -/
theorem uint_keep (re : Bytes → Bytes → Bool) (a : Atom) (mn : Bound) (n : Dec)
    (hn : mn.val.num? = some n) (hl : isLower mn.op = true) (hs : 0 ≤ n.coeff) :
    (Kind.has Kind.int a && satBound re a mn) = (satRange a .uint && satBound re a mn) := by
  rw [int_has, satRange_uint]
  cases a with
  | int z =>
    simp only [Bool.true_and]
    cases h : satBound re (.int z) mn with
    | false => simp
    | true =>
      rw [satBound_num re _ mn n hn (isOrd_lower _ hl)] at h
      have := nonneg_of_lower mn.op hl z n hs h
      simp [this]
  | _ => rfl

/-- `int & >=0` = `uint` -/
theorem uint_drop (re : Bytes → Bytes → Bool) (a : Atom) (mn : Bound) (n : Dec)
    (hn : mn.val.num? = some n) (hop : mn.op = .ge) (hs : n.coeff = 0) :
    (Kind.has Kind.int a && satBound re a mn) = satRange a .uint := by
  rw [int_has, satRange_uint, satBound_num re a mn n hn (by rw [hop]; rfl), hop]
  cases a with
  | int z => simp only [Bool.true_and]; exact ge_zero z n hs
  | _ => rfl

/-! ### `boundSimplifier.add` -/

theorem bound_kind_ne_int (b : Bound) : (b.kind == Kind.int) = false := by
  obtain ⟨op, v⟩ := b
  cases v <;> (try cases op) <;>
    simp [Bound.kind, Atom.kind, Atom.kindBit, Kind.nonNull, Kind.null, Kind.number, Kind.int]

/-- `x.K & ScalarKinds == IntKind` holds of `int` only -/
theorem type_int_iff (t : BType) : ((t.kind &&& scalarKinds) == Kind.int) = (t == .int) := by
  cases t <;> decide

def denOpt (re : Bytes → Bytes → Bool) (a : Atom) : Option (Bound × Dec) → Bool
  | none => true
  | some (b, _) => satBound re a b

/-- what the simplifier's state says about an atom -/
def BSimp.den (re : Bytes → Bytes → Bool) (s : BSimp) (a : Atom) : Bool :=
  (!s.isInt || Kind.has Kind.int a) && denOpt re a s.min && denOpt re a s.max

structure BSimp.Inv (s : BSimp) : Prop where
  min : ∀ b n, s.min = some (b, n) → b.val.num? = some n ∧ isLower b.op = true
  max : ∀ b n, s.max = some (b, n) → b.val.num? = some n ∧ isUpper b.op = true

theorem inv_empty : BSimp.Inv {} := ⟨fun _ _ h => (by cases h), fun _ _ h => (by cases h)⟩

theorem den_empty (re : Bytes → Bytes → Bool) (a : Atom) : BSimp.den re {} a = true := rfl

/-- a new lower bound against the stored one -/
theorem min_step (re : Bytes → Bytes → Bool) (cur : Option (Bound × Dec))
    (hcur : ∀ b n, cur = some (b, n) → b.val.num? = some n ∧ isLower b.op = true)
    (b : Bound) (n : Dec) (hn : b.val.num? = some n) (p : Ordering → Bool)
    (hp : (b.op = .gt ∧ p = (· != .gt)) ∨ (b.op = .ge ∧ p = (· == .lt))) (a : Atom) :
    denOpt re a (if replaces cur n p = true then some (b, n) else cur) =
      (denOpt re a cur && satBound re a b) := by
  have hbl : isLower b.op = true := by rcases hp with ⟨h, _⟩ | ⟨h, _⟩ <;> rw [h] <;> rfl
  cases cur with
  | none => simp [replaces, denOpt]
  | some bm =>
    obtain ⟨b0, m⟩ := bm
    obtain ⟨h0, h0l⟩ := hcur b0 m rfl
    have e0 := satBound_num re a b0 m h0 (isOrd_lower _ h0l)
    have eb := satBound_num re a b n hn (isOrd_lower _ hbl)
    have := numSat_lower b0.op h0l a m n
    show denOpt re a (if p (Dec.cmp m n) = true then some (b, n) else some (b0, m)) =
      (satBound re a b0 && satBound re a b)
    rw [e0, eb]
    rcases hp with ⟨hop, hp⟩ | ⟨hop, hp⟩ <;> subst hp <;> rw [hop] at eb ⊢ <;> dsimp only
    · rw [this.1]
      by_cases hc : (Dec.cmp m n != .gt) = true
      · rw [if_pos hc, if_pos hc]; exact eb
      · rw [if_neg hc, if_neg hc]; exact e0
    · rw [this.2]
      by_cases hc : (Dec.cmp m n == .lt) = true
      · rw [if_pos hc, if_pos hc]; exact eb
      · rw [if_neg hc, if_neg hc]; exact e0

theorem max_step (re : Bytes → Bytes → Bool) (cur : Option (Bound × Dec))
    (hcur : ∀ b n, cur = some (b, n) → b.val.num? = some n ∧ isUpper b.op = true)
    (b : Bound) (n : Dec) (hn : b.val.num? = some n) (p : Ordering → Bool)
    (hp : (b.op = .lt ∧ p = (· != .lt)) ∨ (b.op = .le ∧ p = (· == .gt))) (a : Atom) :
    denOpt re a (if replaces cur n p = true then some (b, n) else cur) =
      (denOpt re a cur && satBound re a b) := by
  have hbl : isUpper b.op = true := by rcases hp with ⟨h, _⟩ | ⟨h, _⟩ <;> rw [h] <;> rfl
  cases cur with
  | none => simp [replaces, denOpt]
  | some bm =>
    obtain ⟨b0, m⟩ := bm
    obtain ⟨h0, h0l⟩ := hcur b0 m rfl
    have e0 := satBound_num re a b0 m h0 (isOrd_upper _ h0l)
    have eb := satBound_num re a b n hn (isOrd_upper _ hbl)
    have := numSat_upper b0.op h0l a m n
    show denOpt re a (if p (Dec.cmp m n) = true then some (b, n) else some (b0, m)) =
      (satBound re a b0 && satBound re a b)
    rw [e0, eb]
    rcases hp with ⟨hop, hp⟩ | ⟨hop, hp⟩ <;> subst hp <;> rw [hop] at eb ⊢ <;> dsimp only
    · rw [this.1]
      by_cases hc : (Dec.cmp m n != .lt) = true
      · rw [if_pos hc, if_pos hc]; exact eb
      · rw [if_neg hc, if_neg hc]; exact e0
    · rw [this.2]
      by_cases hc : (Dec.cmp m n == .gt) = true
      · rw [if_pos hc, if_pos hc]; exact eb
      · rw [if_neg hc, if_neg hc]; exact e0

theorem step_inv (cur : Option (Bound × Dec)) (q : Op → Bool)
    (hcur : ∀ b n, cur = some (b, n) → b.val.num? = some n ∧ q b.op = true)
    (b : Bound) (n : Dec) (hn : b.val.num? = some n) (hq : q b.op = true) (c : Bool) :
    ∀ b' n', (if c = true then some (b, n) else cur) = some (b', n') →
      b'.val.num? = some n' ∧ q b'.op = true := by
  intro b' n' h
  cases c with
  | true => simp only [if_true, Option.some.injEq, Prod.mk.injEq] at h; obtain ⟨rfl, rfl⟩ := h; exact ⟨hn, hq⟩
  | false => exact hcur b' n' h

end CueVerif.Export
