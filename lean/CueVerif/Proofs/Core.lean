/-
C01 helper lemmas, part 4: evaluation of declaration lists, files, field splitting,
embedding, and the general rearrangement theorem.
-/
import CueVerif.Proofs.CoreWF
import CueVerif.Spec.Core
namespace CueVerif.Core

theorem unify_left_comm (a b c : Val) : unify a (unify b c) = unify b (unify a c) := by
  rw [← unify_assoc, unify_comm a b, unify_assoc]

/-! ### declaration lists -/

@[simp] theorem evalDeclsL_nil : evalDeclsL [] = .top := rfl

@[simp] theorem evalDeclsL_cons (d : Decl) (ds : List Decl) :
    evalDeclsL (d :: ds) = unify (evalDecl d) (evalDeclsL ds) := by
  simp [evalDeclsL, Decls.ofList, evalDecls]

theorem evalDeclsL_append (ds ds' : List Decl) :
    evalDeclsL (ds ++ ds') = unify (evalDeclsL ds) (evalDeclsL ds') := by
  induction ds with
  | nil => simp
  | cons d ds ih => simp [ih, unify_assoc]

theorem evalDeclsL_perm {ds ds' : List Decl} (h : ds.Perm ds') : evalDeclsL ds = evalDeclsL ds' := by
  induction h with
  | nil => rfl
  | cons d _ ih => simp [ih]
  | swap d d' ds => simp [unify_left_comm]
  | trans _ _ ih1 ih2 => exact ih1.trans ih2

theorem eval_structL_nil : eval (.structL []) = .struct .nil false := by
  simp [Expr.structL, Decls.ofList, eval]

theorem eval_structL_cons (d : Decl) (ds : List Decl) :
    eval (.structL (d :: ds)) = evalDeclsL (d :: ds) := by
  simp [Expr.structL, Decls.ofList, eval, evalDeclsL]

theorem eval_structL_ne (ds : List Decl) (h : ds ≠ []) : eval (.structL ds) = evalDeclsL ds := by
  cases ds with
  | nil => exact absurd rfl h
  | cons d ds => exact eval_structL_cons d ds

theorem eval_structL_mid (pre post : List Decl) (d : Decl) :
    eval (.structL (pre ++ d :: post)) = evalDeclsL (pre ++ d :: post) :=
  eval_structL_ne _ (by simp)

theorem eval_structL_perm {ds ds' : List Decl} (h : ds.Perm ds') :
    eval (.structL ds) = eval (.structL ds') := by
  cases ds with
  | nil => rw [List.Perm.nil_eq h]
  | cons d ds =>
    cases ds' with
    | nil => exact absurd h.symm.nil_eq (by simp)
    | cons d' ds' => rw [eval_structL_cons, eval_structL_cons, evalDeclsL_perm h]

/-! ### files -/

theorem evalFiles_flatten (fs : List (List Decl)) : evalFiles fs = evalDeclsL fs.flatten := by
  induction fs with
  | nil => rfl
  | cons f fs ih =>
    have : evalFiles (f :: fs) = unify (evalDeclsL f) (evalFiles fs) := rfl
    rw [this, ih, List.flatten_cons, evalDeclsL_append]

theorem evalFiles_perm (fs fs' : List (List Decl)) (h : fs.flatten.Perm fs'.flatten) :
    evalFiles fs = evalFiles fs' := by
  rw [evalFiles_flatten, evalFiles_flatten, evalDeclsL_perm h]

/-! ### splitting a field -/

theorem isRegBot_iff (s : Slot) : s.isRegBot = true ↔ s = .some .regular .bot := by
  cases s with
  | none => simp [Slot.isRegBot]
  | some t v => cases t <;> cases v <;> simp [Slot.isRegBot]

theorem hasRegBot_single (l : Nat) (s : Slot) : (single l s).hasRegBot = s.isRegBot := by
  induction l with
  | zero => simp [single, Slots.hasRegBot]
  | succ l ih => simp [single, Slots.hasRegBot, Slot.isRegBot, ih]

theorem mergeSlots_single (l : Nat) (s s' : Slot) (c d : Bool) :
    mergeSlots (single l s) c (single l s') d = single l (mergeSlot s c s' d) := by
  induction l with
  | zero => simp [single, mergeSlots, closeBy]
  | succ l ih => simp [single, mergeSlots, mergeSlot, ih]

theorem fieldV_unify (l : Nat) (t : ArcTy) (v w : Val) :
    unify (fieldV l t v) (fieldV l t w) = fieldV l t (unify v w) := by
  unfold fieldV normS
  simp only [hasRegBot_single]
  by_cases h1 : (Slot.some t v).isRegBot = true
  · have := (isRegBot_iff _).1 h1
    simp only [Slot.some.injEq] at this
    obtain ⟨rfl, rfl⟩ := this
    simp [Slot.isRegBot]
  · by_cases h2 : (Slot.some t w).isRegBot = true
    · have := (isRegBot_iff _).1 h2
      simp only [Slot.some.injEq] at this
      obtain ⟨rfl, rfl⟩ := this
      simp [Slot.isRegBot]
    · simp [h1, h2, unify_struct_struct, mergeSlots_single, mergeSlot, ArcTy.min_idem, normS,
        hasRegBot_single]

theorem evalDecl_split (l : Nat) (t : ArcTy) (a b : Expr) :
    evalDecl (.field l t (.and a b)) = unify (evalDecl (.field l t a)) (evalDecl (.field l t b)) := by
  simp [evalDecl, eval, fieldV_unify]

theorem evalDeclsL_split (pre post : List Decl) (l : Nat) (t : ArcTy) (a b : Expr) :
    evalDeclsL (pre ++ .field l t (.and a b) :: post) =
      evalDeclsL (pre ++ .field l t a :: .field l t b :: post) := by
  simp [evalDeclsL_append, evalDecl_split, unify_assoc]

theorem eval_split (pre post : List Decl) (l : Nat) (t : ArcTy) (a b : Expr) :
    eval (.structL (pre ++ .field l t (.and a b) :: post)) =
      eval (.structL (pre ++ .field l t a :: .field l t b :: post)) := by
  rw [eval_structL_mid, eval_structL_mid, evalDeclsL_split]

theorem eval_embed (e : Expr) : eval (.structL [.embed e]) = eval e := by
  simp [eval_structL_cons, evalDecl]

/-! ### list literals -/

theorem evalList_congr (pre post : List Expr) (a a' : Expr) (h : eval a = eval a') :
    evalList (Exprs.ofList (pre ++ a :: post)) = evalList (Exprs.ofList (pre ++ a' :: post)) := by
  induction pre with
  | nil => simp [Exprs.ofList, evalList, h]
  | cons p pre ih => simp [Exprs.ofList, evalList, ih]

theorem eval_listL_congr (pre post : List Expr) (a a' : Expr) (h : eval a = eval a') :
    eval (.listL (pre ++ a :: post)) = eval (.listL (pre ++ a' :: post)) := by
  simp [Expr.listL, eval, evalList_congr pre post a a' h]

/-! ### the general statement -/

theorem eval_rearr {e e' : Expr} (h : Rearr e e') : eval e = eval e' := by
  induction h with
  | refl e => rfl
  | symm _ ih => exact ih.symm
  | trans _ _ ih1 ih2 => exact ih1.trans ih2
  | and_congr _ _ ih1 ih2 => simp [eval, ih1, ih2]
  | close_congr _ ih => simp [eval, ih]
  | field_congr pre post l t _ ih =>
    rw [eval_structL_mid, eval_structL_mid]
    simp [evalDeclsL_append, evalDecl, ih]
  | embed_congr pre post _ ih =>
    rw [eval_structL_mid, eval_structL_mid]
    simp [evalDeclsL_append, evalDecl, ih]
  | list_congr pre post _ ih => exact eval_listL_congr pre post _ _ ih
  | perm h => exact eval_structL_perm h
  | and_comm a b => simp [eval, unify_comm (eval a)]
  | and_assoc a b c => simp [eval, unify_assoc]
  | and_dup a => simp [eval, unify_idem _ (eval_wf a)]
  | and_top a => simp [eval]
  | split pre post l t a b => exact eval_split pre post l t a b
  | embed e => exact (eval_embed e).symm

end CueVerif.Core
