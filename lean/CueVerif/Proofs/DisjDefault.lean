import CueVerif.Spec.Disj
namespace CueVerif.Disj
variable {V : Type} [DecidableEq V]
set_option linter.unusedSectionVars false

/-! ### sets of values as predicates, and their pointwise meet -/

/-- pointwise meet of two sets of values (failed meets disappear) -/
def mt (S : Sl V) (A B : V → Prop) : V → Prop :=
  fun z => ∃ x y, A x ∧ B y ∧ S.meet x y = some z
def por (A B : V → Prop) : V → Prop := fun x => A x ∨ B x
def pnone : V → Prop := fun _ => False

theorem mt_comm {S : Sl V} (h : Laws S) (A B : V → Prop) : mt S A B = mt S B A := by
  funext z; apply propext
  constructor <;> rintro ⟨x, y, hx, hy, hm⟩ <;> exact ⟨y, x, hy, hx, by rw [h.comm]; exact hm⟩

theorem mt_assoc {S : Sl V} (h : Laws S) (A B C : V → Prop) :
    mt S (mt S A B) C = mt S A (mt S B C) := by
  funext z; apply propext
  constructor
  · rintro ⟨u, c, ⟨a, b, ha, hb, hab⟩, hc, huc⟩
    have := h.assoc a b c
    rw [hab] at this; simp only [Option.bind_some] at this
    rw [huc] at this
    cases hbc : S.meet b c with
    | none => rw [hbc] at this; simp at this
    | some w =>
      rw [hbc] at this; simp only [Option.bind_some] at this
      exact ⟨a, w, ha, ⟨b, c, hb, hc, hbc⟩, this.symm⟩
  · rintro ⟨a, w, ha, ⟨b, c, hb, hc, hbc⟩, haw⟩
    have := h.assoc a b c
    rw [hbc] at this; simp only [Option.bind_some] at this
    rw [haw] at this
    cases hab : S.meet a b with
    | none => rw [hab] at this; simp at this
    | some u =>
      rw [hab] at this; simp only [Option.bind_some] at this
      exact ⟨u, c, ⟨a, b, ha, hb, hab⟩, hc, this⟩

theorem mt_por_left (S : Sl V) (A B C : V → Prop) :
    mt S (por A B) C = por (mt S A C) (mt S B C) := by
  funext z; apply propext
  constructor
  · rintro ⟨x, y, hx | hx, hy, hm⟩
    · exact Or.inl ⟨x, y, hx, hy, hm⟩
    · exact Or.inr ⟨x, y, hx, hy, hm⟩
  · rintro (⟨x, y, hx, hy, hm⟩ | ⟨x, y, hx, hy, hm⟩)
    · exact ⟨x, y, Or.inl hx, hy, hm⟩
    · exact ⟨x, y, Or.inr hx, hy, hm⟩

theorem mt_por_right (S : Sl V) (A B C : V → Prop) :
    mt S A (por B C) = por (mt S A B) (mt S A C) := by
  funext z; apply propext
  constructor
  · rintro ⟨x, y, hx, hy | hy, hm⟩
    · exact Or.inl ⟨x, y, hx, hy, hm⟩
    · exact Or.inr ⟨x, y, hx, hy, hm⟩
  · rintro (⟨x, y, hx, hy, hm⟩ | ⟨x, y, hx, hy, hm⟩)
    · exact ⟨x, y, hx, Or.inl hy, hm⟩
    · exact ⟨x, y, hx, Or.inr hy, hm⟩

theorem mt_pnone_left (S : Sl V) (B : V → Prop) : mt S pnone B = pnone := by
  funext z; apply propext
  constructor
  · rintro ⟨x, y, hx, _, _⟩; exact hx
  · intro h; exact h.elim

theorem mt_pnone_right (S : Sl V) (A : V → Prop) : mt S A pnone = pnone := by
  funext z; apply propext
  constructor
  · rintro ⟨x, y, _, hy, _⟩; exact hy
  · intro h; exact h.elim

theorem por_pnone_left (A : V → Prop) : por pnone A = A := by
  funext z; apply propext; simp [por, pnone]
theorem por_pnone_right (A : V → Prop) : por A pnone = A := by
  funext z; apply propext; simp [por, pnone]

theorem eq_pnone {A : V → Prop} (h : ∀ x, ¬ A x) : A = pnone := by
  funext z; apply propext; simp [pnone, h]

/-- `{top}` is the unit of the pointwise meet -/
theorem mt_top_left {S : Sl V} (h : Laws S) (A : V → Prop) : mt S (fun x => x = S.top) A = A := by
  funext z; apply propext
  constructor
  · rintro ⟨x, y, hx, hy, hm⟩
    subst hx; rw [h.top] at hm; cases hm; exact hy
  · intro hz; exact ⟨S.top, z, rfl, hz, h.top z⟩

theorem mt_top_right {S : Sl V} (h : Laws S) (A : V → Prop) : mt S A (fun x => x = S.top) = A := by
  rw [mt_comm h, mt_top_left h]

/-! ### the spec's list operations, as sets -/

theorem mem_insertV (xs : List V) (x y : V) : y ∈ insertV xs x ↔ y ∈ xs ∨ y = x := by
  unfold insertV; split
  · constructor
    · intro h; exact Or.inl h
    · rintro (h | h)
      · exact h
      · subst h; assumption
  · simp

theorem nodup_insertV (xs : List V) (x : V) (h : xs.Nodup) : (insertV xs x).Nodup := by
  unfold insertV; split
  · exact h
  · rename_i hx
    rw [List.nodup_append]
    refine ⟨h, by simp, ?_⟩
    intro a ha b hb; simp at hb; subst hb; intro hab; subst hab; exact hx ha

theorem mem_foldl_insertV (l a : List V) (y : V) : y ∈ l.foldl insertV a ↔ y ∈ a ∨ y ∈ l := by
  induction l generalizing a with
  | nil => simp
  | cons x l ih => simp [ih, mem_insertV, or_assoc]

theorem nodup_foldl_insertV (l a : List V) (h : a.Nodup) : (l.foldl insertV a).Nodup := by
  induction l generalizing a with
  | nil => simpa
  | cons x l ih => exact ih _ (nodup_insertV _ _ h)

theorem mem_unionV (a b : List V) (y : V) : y ∈ unionV a b ↔ y ∈ a ∨ y ∈ b :=
  mem_foldl_insertV b a y

theorem nodup_unionV (a b : List V) (h : a.Nodup) : (unionV a b).Nodup :=
  nodup_foldl_insertV b a h

theorem mem_meetV (S : Sl V) (a b : List V) (z : V) :
    z ∈ meetV S a b ↔ ∃ x, x ∈ a ∧ ∃ y, y ∈ b ∧ S.meet x y = some z := by
  unfold meetV
  rw [mem_foldl_insertV]
  simp [List.mem_flatMap, List.mem_filterMap]

theorem nodup_meetV (S : Sl V) (a b : List V) : (meetV S a b).Nodup :=
  nodup_foldl_insertV _ _ List.nodup_nil

/-- membership predicate of a list -/
def memP (l : List V) : V → Prop := fun x => x ∈ l

theorem memP_meetV (S : Sl V) (a b : List V) : memP (meetV S a b) = mt S (memP a) (memP b) := by
  funext z; apply propext
  rw [show memP (meetV S a b) z = (z ∈ meetV S a b) from rfl, mem_meetV]
  constructor
  · rintro ⟨x, hx, y, hy, hm⟩; exact ⟨x, y, hx, hy, hm⟩
  · rintro ⟨x, y, hx, hy, hm⟩; exact ⟨x, hx, y, hy, hm⟩

theorem meetV_nil_left (S : Sl V) (b : List V) : meetV S [] b = [] := rfl
theorem meetV_nil_right (S : Sl V) (a : List V) : meetV S a [] = [] := by
  apply List.eq_nil_iff_forall_not_mem.2
  intro z hz; rw [mem_meetV] at hz
  obtain ⟨_, _, _, hy, _⟩ := hz; simp at hy

/-! ### `resolve` only depends on the two sets -/

def sing (l : List V) : Res V :=
  match l with
  | [x] => .value x
  | _ => .ambiguous

def resOf (vs ds : List V) : Res V :=
  match vs with
  | [] => .bottom
  | _ => sing (if ds.isEmpty then vs else ds)

omit [DecidableEq V] in
theorem Pair.resolve_eq (p : Pair V) : p.resolve = resOf p.v p.d := by
  unfold Pair.resolve resOf Pair.defaultSet sing
  rfl

omit [DecidableEq V] in
theorem perm_of_memP {l l' : List V} (hl : l.Nodup) (hl' : l'.Nodup) (h : memP l = memP l') :
    l.Perm l' := by
  rw [List.perm_ext_iff_of_nodup hl hl']
  intro a; exact Iff.of_eq (congrFun h a)

omit [DecidableEq V] in
theorem sing_perm {l l' : List V} (hp : l.Perm l') : sing l = sing l' := by
  match l, l', hp with
  | [], l', hp => rw [List.nil_perm.1 hp]
  | [x], l', hp => rw [List.singleton_perm.1 hp]
  | x :: y :: r, [], hp => exact absurd hp.length_eq (by simp)
  | x :: y :: r, [z], hp => exact absurd hp.length_eq (by simp)
  | x :: y :: r, z :: w :: r', hp => rfl

omit [DecidableEq V] in
theorem resOf_perm {vs vs' ds ds' : List V} (hv : vs.Perm vs') (hd : ds.Perm ds') :
    resOf vs ds = resOf vs' ds' := by
  have hE : ds.isEmpty = ds'.isEmpty := by
    cases ds <;> cases ds' <;> first | rfl | exact absurd hd.length_eq (by simp)
  unfold resOf
  match vs, vs', hv with
  | [], vs', hv => rw [List.nil_perm.1 hv]
  | x :: r, [], hv => exact absurd hv.length_eq (by simp)
  | x :: r, y :: r', hv =>
    simp only
    rw [hE]
    cases ds'.isEmpty
    · exact sing_perm hd
    · exact sing_perm hv

omit [DecidableEq V] in
theorem resOf_congr {vs vs' ds ds' : List V} (h1 : vs.Nodup) (h2 : vs'.Nodup) (h3 : ds.Nodup)
    (h4 : ds'.Nodup) (hv : memP vs = memP vs') (hd : memP ds = memP ds') :
    resOf vs ds = resOf vs' ds' :=
  resOf_perm (perm_of_memP h1 h2 hv) (perm_of_memP h3 h4 hd)


/-! ### scalars of the flat fragment -/

/-- the scalar value of an expression: all its atoms met into top -/
def sv (S : Sl V) (e : Expr V) : Option V := (sem S e).scalar (some S.top)

theorem scalarOnly_flatConj (e : Expr V) (h : e.scalarOnly = true) : e.flatConj = true := by
  induction e with
  | atom a => rfl
  | and l r ihl ihr =>
    simp only [Expr.scalarOnly, Bool.and_eq_true] at h
    simp only [Expr.flatConj, Bool.and_eq_true]; exact ⟨ihl h.1, ihr h.2⟩
  | paren e ih => simp only [Expr.scalarOnly] at h; simp only [Expr.flatConj]; exact ih h
  | or l r _ _ => simp [Expr.scalarOnly] at h
  | mark e _ => simp [Expr.scalarOnly] at h

theorem scalar_eq {S : Sl V} (h : Laws S) (e : Expr V) (hf : e.flatConj = true) (o : Option V) :
    (sem S e).scalar o = o.bind fun x => (sv S e).bind fun y => S.meet x y := by
  induction e generalizing o with
  | atom a =>
    simp only [sv, sem, Option.bind_some, h.top]
  | and l r ihl ihr =>
    simp only [Expr.flatConj, Bool.and_eq_true] at hf
    have e1 : (sem S (.and l r)).scalar o = (sem S r).scalar ((sem S l).scalar o) := rfl
    have e2 : sv S (.and l r) = (sem S r).scalar ((sem S l).scalar (some S.top)) := rfl
    rw [e1, e2, ihr hf.2, ihl hf.1, ihr hf.2, ihl hf.1]
    cases o with
    | none => rfl
    | some x =>
      cases hl : sv S l with
      | none => simp
      | some u =>
        cases hr : sv S r with
        | none => simp
        | some w =>
          simp only [Option.bind_some, h.top]
          have := h.assoc x u w
          rw [this]
  | paren e ih => exact ih hf o
  | or l r _ _ =>
    have e1 : (sem S (.or l r)).scalar o = o := rfl
    have e2 : sv S (.or l r) = some S.top := rfl
    rw [e1, e2]
    cases o with
    | none => rfl
    | some x => simp only [Option.bind_some]; rw [h.comm, h.top]
  | mark e _ => simp [Expr.flatConj] at hf

theorem conj_id (S : Sl V) (e : Expr V) (h : e.scalarOnly = true) : (sem S e).conj = id := by
  induction e with
  | atom a => rfl
  | and l r ihl ihr =>
    simp only [Expr.scalarOnly, Bool.and_eq_true] at h
    have : (sem S (.and l r)).conj = fun c => (sem S r).conj ((sem S l).conj c) := rfl
    rw [this, ihl h.1, ihr h.2]; rfl
  | paren e ih => simp only [Expr.scalarOnly] at h; exact ih h
  | or l r _ _ => simp [Expr.scalarOnly] at h
  | mark e _ => simp [Expr.scalarOnly] at h

/-! ### the terms of an or-chain -/

/-- the syntactic terms of an `or` chain with their (inherited) marks -/
def tms : Expr V → Bool → List (Bool × Expr V)
  | .or l r, mk => tms l mk ++ tms r mk
  | .mark e, _ => tms e true
  | .atom a, mk => [(mk, .atom a)]
  | .and l r, mk => [(mk, .and l r)]
  | .paren e, mk => [(mk, .paren e)]

def termR (S : Sl V) (hd : Bool) (p : Leaf V) (mt : Bool × Expr V) : List (R V) :=
  doDisj (sem S mt.2).scalar (sem S mt.2).conj p (mode hd mt.1)

theorem terms_eq (S : Sl V) (e : Expr V) (hd mk : Bool) (p : Leaf V) :
    (sem S e).terms hd mk p = (tms e mk).flatMap (termR S hd p) := by
  induction e generalizing mk with
  | atom a => simp [tms, termR, sem]
  | and l r _ _ => simp [tms, termR, sem]
  | paren e _ => simp [tms, termR, sem]
  | mark e ih =>
    have : (sem S (.mark e)).terms hd mk p = (sem S e).terms hd true p := rfl
    rw [this, ih]; rfl
  | or l r ihl ihr =>
    have : (sem S (.or l r)).terms hd mk p = (sem S l).terms hd mk p ++ (sem S r).terms hd mk p := rfl
    rw [this, ihl, ihr]; simp [tms]

theorem hasMark_eq (S : Sl V) (e : Expr V) : (sem S e).hasMark = e.chainMarked := by
  induction e with
  | atom a => rfl
  | and l r _ _ => rfl
  | paren e _ => rfl
  | mark e _ => rfl
  | or l r ihl ihr =>
    have : (sem S (.or l r)).hasMark = ((sem S l).hasMark || (sem S r).hasMark) := rfl
    rw [this, ihl, ihr]; rfl

theorem tms_any (e : Expr V) (mk : Bool) :
    (tms e mk).any (·.1) = (mk || e.chainMarked) := by
  induction e generalizing mk with
  | atom a => simp [tms, Expr.chainMarked]
  | and l r _ _ => simp [tms, Expr.chainMarked]
  | paren e _ => simp [tms, Expr.chainMarked]
  | mark e ih => simp [tms, Expr.chainMarked, ih]
  | or l r ihl ihr =>
    simp only [tms, List.any_append, ihl, ihr, Expr.chainMarked]
    cases mk <;> cases l.chainMarked <;> cases r.chainMarked <;> rfl

theorem tms_scalarOnly (e : Expr V) (mk : Bool) (h : e.flatChain = true) :
    ∀ mt ∈ tms e mk, mt.2.scalarOnly = true := by
  induction e generalizing mk with
  | atom a => intro mt hm; simp [tms] at hm; subst hm; rfl
  | and l r _ _ => intro mt hm; simp [tms] at hm; subst hm; exact h
  | paren e _ => intro mt hm; simp [tms] at hm; subst hm; exact h
  | mark e ih => exact ih true h
  | or l r ihl ihr =>
    simp only [Expr.flatChain, Bool.and_eq_true] at h
    intro mt hm; simp only [tms, List.mem_append] at hm
    rcases hm with hm | hm
    · exact ihl mk h.1 mt hm
    · exact ihr mk h.2 mt hm

/-- the surviving leaves of the terms `ts` for the partial disjunct `p` -/
def lvs (S : Sl V) (hd : Bool) (ts : List (Bool × Expr V)) (p : Leaf V) : List (Leaf V) :=
  ts.filterMap fun mt => ((sem S mt.2).scalar (some p.v)).map fun v => ⟨v, p.dm, mode hd mt.1⟩

theorem terms_leaf (S : Sl V) (hd : Bool) (p : Leaf V) (ts : List (Bool × Expr V))
    (h : ∀ mt ∈ ts, mt.2.scalarOnly = true) :
    ts.flatMap (termR S hd p) = (lvs S hd ts p).map R.leaf := by
  induction ts with
  | nil => rfl
  | cons t ts ih =>
    have h1 := h t (List.mem_cons_self ..)
    have h2 := ih (fun mt hm => h mt (List.mem_cons_of_mem _ hm))
    simp only [List.flatMap_cons, h2, lvs, List.filterMap_cons]
    unfold termR doDisj
    rw [conj_id S t.2 h1]
    cases (sem S t.2).scalar (some p.v) with
    | none => simp
    | some v => simp

/-! ### `crossProduct` when every term is a leaf -/

def upd (ld rd : Bool) (l : Leaf V) : Leaf V := { l with dm := combineDefault2 l.dm l.odm ld rd }

theorem foldl_place_leaf (ld rd : Bool) (xs : List (Leaf V)) (acc : List (Leaf V) × Bool) :
    (xs.map R.leaf).foldl (place ld rd) acc =
      ((xs.map (upd ld rd)).foldl appendDisjunct acc.1, acc.2) := by
  induction xs generalizing acc with
  | nil => rfl
  | cons x xs ih => simp only [List.map_cons, List.foldl_cons]; rw [ih]; rfl

def ldOf (c : List (Leaf V)) (f : Leaf V → List (Leaf V)) : Bool :=
  !(c.any fun p => !(f p).isEmpty && (p.dm == .isDef || p.odm == .isDef))
def rdOf (c : List (Leaf V)) (f : Leaf V → List (Leaf V)) : Bool :=
  !(c.any fun p => (f p).any fun l => l.odm == .isDef)

theorem crossProduct_leaf (c : List (Leaf V)) (terms : Leaf V → List (R V))
    (f : Leaf V → List (Leaf V)) (hterms : ∀ p, terms p = (f p).map R.leaf) :
    crossProduct c terms =
      ((c.flatMap f).map (upd (ldOf c f) (rdOf c f))).foldl appendDisjunct [] := by
  have : terms = fun p => (f p).map R.leaf := funext hterms
  subst this
  unfold crossProduct
  have e1 : ((c.map fun p => (p, (f p).map R.leaf)).flatMap fun pr => pr.2) =
      (c.flatMap f).map R.leaf := by
    rw [List.flatMap_map, List.map_flatMap]
  have e2 : (!((c.map fun p => (p, (f p).map R.leaf)).any fun pr =>
      !pr.2.isEmpty && (pr.1.dm == .isDef || pr.1.odm == .isDef))) = ldOf c f := by
    unfold ldOf; rw [List.any_map]; simp [Function.comp_def]
  have e3 : (!((c.map fun p => (p, (f p).map R.leaf)).any fun pr =>
      pr.2.any fun r => r.odm == .isDef)) = rdOf c f := by
    unfold rdOf; rw [List.any_map]; simp [Function.comp_def, List.any_map, R.odm]
  simp only [e1, e2, e3, foldl_place_leaf]
  simp

/-! ### `appendDisjunct` as a set operation -/

def valsP (c : List (Leaf V)) : V → Prop := fun x => ∃ q ∈ c, q.v = x
def defsP (c : List (Leaf V)) : V → Prop := fun x => ∃ q ∈ c, q.v = x ∧ q.dm = .isDef
/-- no leaf with a stale `origDefaultMode = isDefault` -/
def NoStale (c : List (Leaf V)) : Prop := ∀ q ∈ c, q.odm = .isDef → q.dm = .isDef

theorem vals_AD (acc : List (Leaf V)) (l : Leaf V) (x : V) :
    valsP (appendDisjunct acc l) x ↔ valsP acc x ∨ l.v = x := by
  induction acc with
  | nil => simp [valsP, appendDisjunct]
  | cons xn rest ih =>
    unfold appendDisjunct
    split
    · rename_i he
      simp only [valsP, List.mem_cons, exists_eq_or_imp] at *
      have : (if l.dm = Mode.isDef then { xn with dm := Mode.isDef } else xn).v = xn.v := by
        split <;> rfl
      rw [this]
      constructor
      · rintro (h | h)
        · exact Or.inl (Or.inl h)
        · exact Or.inl (Or.inr h)
      · rintro ((h | h) | h)
        · exact Or.inl h
        · exact Or.inr h
        · exact Or.inl (he.trans h)
    · simp only [valsP, List.mem_cons, exists_eq_or_imp] at *
      rw [ih, or_assoc]

theorem defs_AD (acc : List (Leaf V)) (l : Leaf V) (x : V) :
    defsP (appendDisjunct acc l) x ↔ defsP acc x ∨ (l.v = x ∧ l.dm = .isDef) := by
  induction acc with
  | nil => simp [defsP, appendDisjunct]
  | cons xn rest ih =>
    unfold appendDisjunct
    split
    · rename_i he
      simp only [defsP, List.mem_cons, exists_eq_or_imp] at *
      by_cases hl : l.dm = .isDef
      · simp only [hl, if_true, and_true]
        constructor
        · rintro (h | h)
          · exact Or.inr (he.symm.trans h)
          · exact Or.inl (Or.inr h)
        · rintro ((h | h) | h)
          · exact Or.inl h.1
          · exact Or.inr h
          · exact Or.inl (he.trans h)
      · simp only [hl, if_false, and_false, or_false]
    · simp only [defsP, List.mem_cons, exists_eq_or_imp] at *
      rw [ih, or_assoc]

theorem nostale_AD (acc : List (Leaf V)) (l : Leaf V) (h1 : NoStale acc)
    (h2 : l.odm = .isDef → l.dm = .isDef) : NoStale (appendDisjunct acc l) := by
  induction acc with
  | nil => intro q hq; simp [appendDisjunct] at hq; subst hq; exact h2
  | cons xn rest ih =>
    have hr : NoStale rest := fun q hq => h1 q (List.mem_cons_of_mem _ hq)
    unfold appendDisjunct
    split
    · intro q hq
      simp only [List.mem_cons] at hq
      rcases hq with hq | hq
      · subst hq
        split
        · intro _; rfl
        · exact h1 xn (List.mem_cons_self ..)
      · exact hr q hq
    · intro q hq
      simp only [List.mem_cons] at hq
      rcases hq with hq | hq
      · subst hq; exact h1 _ (List.mem_cons_self ..)
      · exact ih hr q hq

theorem nodup_AD (acc : List (Leaf V)) (l : Leaf V) (h : (acc.map (·.v)).Nodup) :
    ((appendDisjunct acc l).map (·.v)).Nodup := by
  induction acc with
  | nil => simp [appendDisjunct]
  | cons xn rest ih =>
    simp only [List.map_cons, List.nodup_cons] at h
    unfold appendDisjunct
    split
    · have : (if l.dm = Mode.isDef then { xn with dm := Mode.isDef } else xn).v = xn.v := by
        split <;> rfl
      simp only [List.map_cons, List.nodup_cons, this]; exact h
    · rename_i hne
      simp only [List.map_cons, List.nodup_cons]
      refine ⟨?_, ih h.2⟩
      intro hm
      rw [List.mem_map] at hm
      obtain ⟨q, hq, hqv⟩ := hm
      have := (vals_AD rest l xn.v).1 ⟨q, hq, hqv⟩
      rcases this with ⟨q', hq', hqv'⟩ | h'
      · exact h.1 (List.mem_map.2 ⟨q', hq', hqv'⟩)
      · exact hne h'.symm

theorem fold_AD (ls acc : List (Leaf V)) :
    (∀ x, valsP (ls.foldl appendDisjunct acc) x ↔ valsP acc x ∨ ∃ l ∈ ls, l.v = x) ∧
    (∀ x, defsP (ls.foldl appendDisjunct acc) x ↔
      defsP acc x ∨ ∃ l ∈ ls, l.v = x ∧ l.dm = .isDef) ∧
    (NoStale acc → (∀ l ∈ ls, l.odm = .isDef → l.dm = .isDef) →
      NoStale (ls.foldl appendDisjunct acc)) ∧
    ((acc.map (·.v)).Nodup → ((ls.foldl appendDisjunct acc).map (·.v)).Nodup) := by
  induction ls generalizing acc with
  | nil => simp
  | cons l ls ih =>
    obtain ⟨i1, i2, i3, i4⟩ := ih (appendDisjunct acc l)
    simp only [List.foldl_cons, List.mem_cons, exists_eq_or_imp, forall_eq_or_imp]
    refine ⟨?_, ?_, ?_, ?_⟩
    · intro x; rw [i1, vals_AD, or_assoc]
    · intro x; rw [i2, defs_AD, or_assoc]
    · intro h1 h2; exact i3 (nostale_AD acc l h1 h2.1) h2.2
    · intro h; exact i4 (nodup_AD acc l h)


/-! ### one `crossProduct` step over a flat chain -/

theorem mem_lvs (S : Sl V) (hd : Bool) (ts : List (Bool × Expr V)) (p n : Leaf V) :
    n ∈ lvs S hd ts p ↔ ∃ mt ∈ ts, ∃ v, (sem S mt.2).scalar (some p.v) = some v ∧
      n = ⟨v, p.dm, mode hd mt.1⟩ := by
  unfold lvs
  simp only [List.mem_filterMap, Option.map_eq_some_iff]
  constructor
  · rintro ⟨mt, hmt, v, hv, rfl⟩; exact ⟨mt, hmt, v, hv, rfl⟩
  · rintro ⟨mt, hmt, v, hv, rfl⟩; exact ⟨mt, hmt, v, hv, rfl⟩

theorem cd2_maybe (a : Mode) (ld rd : Bool) :
    combineDefault2 a .maybe ld rd = if ld then .maybe else a := by
  cases a <;> cases ld <;> cases rd <;> rfl
theorem cd2_ld (a m : Mode) (rd : Bool) :
    combineDefault2 a m true rd = if rd then .maybe else m := by
  cases a <;> cases m <;> cases rd <;> rfl

/-- survivor relation: term `mt` applied to partial disjunct value `y` yields `x` -/
def Surv (S : Sl V) (mt : Bool × Expr V) (y x : V) : Prop := (sem S mt.2).scalar (some y) = some x

theorem surv_iff {S : Sl V} (h : Laws S) (mt : Bool × Expr V) (hs : mt.2.scalarOnly = true) (y x : V) :
    Surv S mt y x ↔ ∃ w, sv S mt.2 = some w ∧ S.meet y w = some x := by
  unfold Surv
  rw [scalar_eq h _ (scalarOnly_flatConj _ hs)]
  cases sv S mt.2 with
  | none => simp
  | some w => simp

/-- the result of a `crossProduct` whose terms are all leaves -/
def cpRes (S : Sl V) (hd : Bool) (ts : List (Bool × Expr V)) (c : List (Leaf V)) : List (Leaf V) :=
  ((c.flatMap (lvs S hd ts)).map
    (upd (ldOf c (lvs S hd ts)) (rdOf c (lvs S hd ts)))).foldl appendDisjunct []

theorem mem_newcomers (S : Sl V) (hd : Bool) (ts : List (Bool × Expr V)) (c : List (Leaf V))
    (ld rd : Bool) (n : Leaf V) :
    n ∈ (c.flatMap (lvs S hd ts)).map (upd ld rd) ↔
      ∃ p ∈ c, ∃ mt ∈ ts, ∃ v, Surv S mt p.v v ∧
        n = ⟨v, combineDefault2 p.dm (mode hd mt.1) ld rd, mode hd mt.1⟩ := by
  simp only [List.mem_map, List.mem_flatMap, mem_lvs, Surv]
  constructor
  · rintro ⟨a, ⟨p, hp, mt, hmt, v, hv, rfl⟩, rfl⟩; exact ⟨p, hp, mt, hmt, v, hv, rfl⟩
  · rintro ⟨p, hp, mt, hmt, v, hv, rfl⟩; exact ⟨_, ⟨p, hp, mt, hmt, v, hv, rfl⟩, rfl⟩

theorem cp_sets (S : Sl V) (hd : Bool) (ts : List (Bool × Expr V)) (c : List (Leaf V)) :
    let ld := ldOf c (lvs S hd ts)
    let rd := rdOf c (lvs S hd ts)
    (∀ x, valsP (cpRes S hd ts c) x ↔ ∃ p ∈ c, ∃ mt ∈ ts, Surv S mt p.v x) ∧
    (∀ x, defsP (cpRes S hd ts c) x ↔ ∃ p ∈ c, ∃ mt ∈ ts, Surv S mt p.v x ∧
      combineDefault2 p.dm (mode hd mt.1) ld rd = .isDef) ∧
    ((∀ p ∈ c, ∀ mt ∈ ts, ∀ x, Surv S mt p.v x → mode hd mt.1 = .isDef →
      combineDefault2 p.dm (mode hd mt.1) ld rd = .isDef) → NoStale (cpRes S hd ts c)) ∧
    ((cpRes S hd ts c).map (·.v)).Nodup := by
  intro ld rd
  obtain ⟨f1, f2, f3, f4⟩ := fold_AD ((c.flatMap (lvs S hd ts)).map (upd ld rd)) []
  refine ⟨?_, ?_, ?_, ?_⟩
  · intro x
    show valsP (List.foldl appendDisjunct [] _) x ↔ _
    rw [f1]
    simp only [valsP, List.not_mem_nil, false_and, exists_false, false_or, mem_newcomers]
    constructor
    · rintro ⟨n, ⟨p, hp, mt, hmt, v, hv, rfl⟩, rfl⟩; exact ⟨p, hp, mt, hmt, hv⟩
    · rintro ⟨p, hp, mt, hmt, hv⟩; exact ⟨_, ⟨p, hp, mt, hmt, x, hv, rfl⟩, rfl⟩
  · intro x
    show defsP (List.foldl appendDisjunct [] _) x ↔ _
    rw [f2]
    simp only [defsP, List.not_mem_nil, false_and, exists_false, false_or, mem_newcomers]
    constructor
    · rintro ⟨n, ⟨p, hp, mt, hmt, v, hv, rfl⟩, rfl, hd'⟩; exact ⟨p, hp, mt, hmt, hv, hd'⟩
    · rintro ⟨p, hp, mt, hmt, hv, hd'⟩; exact ⟨_, ⟨p, hp, mt, hmt, x, hv, rfl⟩, rfl, hd'⟩
  · intro hyp
    apply f3
    · intro q hq; simp at hq
    · intro n hn
      rw [mem_newcomers] at hn
      obtain ⟨p, hp, mt, hmt, v, hv, rfl⟩ := hn
      exact hyp p hp mt hmt v hv
  · exact f4 (by simp)

theorem ld_true_elim (S : Sl V) (hd : Bool) (ts : List (Bool × Expr V)) (c : List (Leaf V))
    (h : ldOf c (lvs S hd ts) = true) (p : Leaf V) (hp : p ∈ c) (mt : Bool × Expr V) (hmt : mt ∈ ts)
    (x : V) (hs : Surv S mt p.v x) : p.dm ≠ .isDef := by
  intro hdm
  unfold ldOf at h
  rw [Bool.not_eq_true', List.any_eq_false] at h
  apply h p hp
  have hm : (⟨x, p.dm, mode hd mt.1⟩ : Leaf V) ∈ lvs S hd ts p :=
    (mem_lvs S hd ts p _).2 ⟨mt, hmt, x, hs, rfl⟩
  cases hl : lvs S hd ts p with
  | nil => rw [hl] at hm; simp at hm
  | cons a b => simp [hdm]

theorem ld_true_intro (S : Sl V) (hd : Bool) (ts : List (Bool × Expr V)) (c : List (Leaf V))
    (h1 : NoStale c) (h2 : ∀ x, ¬ defsP c x) : ldOf c (lvs S hd ts) = true := by
  unfold ldOf
  rw [Bool.not_eq_true', List.any_eq_false]
  intro p hp hpred
  simp only [Bool.and_eq_true, Bool.or_eq_true, beq_iff_eq] at hpred
  have : p.dm = .isDef := by
    rcases hpred.2 with h | h
    · exact h
    · exact h1 p hp h
  exact h2 p.v ⟨p, hp, rfl, this⟩

theorem rd_true_elim (S : Sl V) (hd : Bool) (ts : List (Bool × Expr V)) (c : List (Leaf V))
    (h : rdOf c (lvs S hd ts) = true) (p : Leaf V) (hp : p ∈ c) (mt : Bool × Expr V) (hmt : mt ∈ ts)
    (x : V) (hs : Surv S mt p.v x) : mode hd mt.1 ≠ .isDef := by
  intro hdm
  unfold rdOf at h
  rw [Bool.not_eq_true', List.any_eq_false] at h
  apply h p hp
  rw [List.any_eq_true]
  exact ⟨⟨x, p.dm, mode hd mt.1⟩, (mem_lvs S hd ts p _).2 ⟨mt, hmt, x, hs, rfl⟩, by simp [hdm]⟩


/-! ### the sets contributed by the chains of a flat conjunction -/

/-- value set contributed by the disjunctions of `e` (atoms contribute the unit `{top}`) -/
def CV (S : Sl V) : Expr V → V → Prop
  | .atom _ => fun x => x = S.top
  | .and l r => mt S (CV S l) (CV S r)
  | .paren e => CV S e
  | .or l r => fun x => ∃ mt ∈ tms (.or l r) false, sv S mt.2 = some x
  | .mark _ => pnone

/-- default set contributed by the (at most one) marked disjunction of `e` -/
def CD (S : Sl V) : Expr V → V → Prop
  | .atom _ => pnone
  | .and l r => por (mt S (CD S l) (CV S r)) (mt S (CV S l) (CD S r))
  | .paren e => CD S e
  | .or l r => fun x => ∃ mt ∈ tms (.or l r) false, mt.1 = true ∧ sv S mt.2 = some x
  | .mark _ => pnone

theorem CD_none (S : Sl V) (e : Expr V) (hm : e.markedChains = 0) : CD S e = pnone := by
  induction e with
  | atom a => rfl
  | and l r ihl ihr =>
    simp only [Expr.markedChains] at hm
    simp only [CD, ihl (by omega), ihr (by omega), mt_pnone_left, mt_pnone_right, por_pnone_left]
  | paren e ih => exact ih hm
  | mark e _ => rfl
  | or l r _ _ =>
    simp only [Expr.markedChains] at hm
    have hcm : (Expr.or l r).chainMarked = false := by
      cases h : (Expr.or l r).chainMarked
      · rfl
      · rw [h] at hm; simp at hm
    apply eq_pnone
    rintro x ⟨mt, hmt, h1, _⟩
    have := tms_any (.or l r) false
    rw [hcm] at this
    simp only [Bool.false_or, List.any_eq_false] at this
    exact this mt hmt h1

theorem conj_or_eq (S : Sl V) (l r : Expr V) (hf : (Expr.or l r).flatChain = true) (c : List (Leaf V)) :
    (sem S (.or l r)).conj c = cpRes S (Expr.or l r).chainMarked (tms (.or l r) false) c := by
  have e0 : (sem S (.or l r)).conj c = crossProduct c (fun p =>
      (sem S l).terms ((sem S l).hasMark || (sem S r).hasMark) false p ++
      (sem S r).terms ((sem S l).hasMark || (sem S r).hasMark) false p) := rfl
  rw [e0]
  unfold cpRes
  apply crossProduct_leaf
  intro p
  rw [terms_eq, terms_eq, hasMark_eq, hasMark_eq, ← List.flatMap_append]
  exact terms_leaf S _ p (tms (.or l r) false) (tms_scalarOnly _ false hf)

theorem step_or {S : Sl V} (h : Laws S) (l r : Expr V) (hf : (Expr.or l r).flatChain = true)
    (c : List (Leaf V)) :
    (((sem S (.or l r)).conj c).map (·.v)).Nodup ∧
    valsP ((sem S (.or l r)).conj c) = mt S (valsP c) (CV S (.or l r)) ∧
    ((Expr.or l r).chainMarked = false →
      NoStale ((sem S (.or l r)).conj c) ∧
      defsP ((sem S (.or l r)).conj c) = mt S (defsP c) (CV S (.or l r))) ∧
    ((Expr.or l r).chainMarked = true → NoStale c → (∀ x, ¬ defsP c x) →
      NoStale ((sem S (.or l r)).conj c) ∧
      defsP ((sem S (.or l r)).conj c) = mt S (valsP c) (CD S (.or l r))) := by
  rw [conj_or_eq S l r hf c]
  have hso := tms_scalarOnly (.or l r) false hf
  obtain ⟨g1, g2, g3, g4⟩ := cp_sets S (Expr.or l r).chainMarked (tms (.or l r) false) c
  refine ⟨g4, ?_, ?_, ?_⟩
  · funext x; apply propext; rw [g1]
    constructor
    · rintro ⟨p, hp, mt, hmt, hs⟩
      obtain ⟨w, hw, hm⟩ := (surv_iff h mt (hso mt hmt) _ _).1 hs
      exact ⟨p.v, w, ⟨p, hp, rfl⟩, ⟨mt, hmt, hw⟩, hm⟩
    · rintro ⟨y, w, ⟨p, hp, rfl⟩, ⟨mt, hmt, hw⟩, hm⟩
      exact ⟨p, hp, mt, hmt, (surv_iff h mt (hso mt hmt) _ _).2 ⟨w, hw, hm⟩⟩
  · intro hcm
    rw [hcm] at g2 g3 ⊢
    have hmode : ∀ b, mode false b = Mode.maybe := fun b => rfl
    constructor
    · apply g3
      intro p _ mt _ x _ hm; rw [hmode] at hm; cases hm
    · funext x; apply propext; rw [g2]
      constructor
      · rintro ⟨p, hp, mt, hmt, hs, hdm⟩
        rw [hmode, cd2_maybe] at hdm
        split at hdm
        · cases hdm
        · obtain ⟨w, hw, hm⟩ := (surv_iff h mt (hso mt hmt) _ _).1 hs
          exact ⟨p.v, w, ⟨p, hp, rfl, hdm⟩, ⟨mt, hmt, hw⟩, hm⟩
      · rintro ⟨y, w, ⟨p, hp, rfl, hdm⟩, ⟨mt, hmt, hw⟩, hm⟩
        have hs := (surv_iff h mt (hso mt hmt) _ _).2 ⟨w, hw, hm⟩
        refine ⟨p, hp, mt, hmt, hs, ?_⟩
        rw [hmode, cd2_maybe]
        split
        · rename_i hld
          exact absurd hdm (ld_true_elim S _ _ c hld p hp mt hmt x hs)
        · exact hdm
  · intro hcm hns hnd
    rw [hcm] at g2 g3 ⊢
    have hld := ld_true_intro S true (tms (.or l r) false) c hns hnd
    rw [hld] at g2 g3
    have hkey : ∀ p ∈ c, ∀ mt ∈ tms (.or l r) false, ∀ x, Surv S mt p.v x →
        (combineDefault2 p.dm (mode true mt.1) true (rdOf c (lvs S true (tms (.or l r) false))) = .isDef
          ↔ mt.1 = true) := by
      intro p hp mt hmt x hs
      rw [cd2_ld]
      constructor
      · intro hh
        split at hh
        · cases hh
        · cases hb : mt.1
          · rw [hb] at hh; cases hh
          · rfl
      · intro hb
        split
        · rename_i hrd
          exact absurd (by rw [hb]; rfl) (rd_true_elim S true _ c hrd p hp mt hmt x hs)
        · rw [hb]; rfl
    constructor
    · apply g3
      intro p hp mt hmt x hs hm
      apply (hkey p hp mt hmt x hs).2
      cases hb : mt.1
      · rw [hb] at hm; cases hm
      · rfl
    · funext x; apply propext; rw [g2]
      constructor
      · rintro ⟨p, hp, mt, hmt, hs, hdm⟩
        obtain ⟨w, hw, hm⟩ := (surv_iff h mt (hso mt hmt) _ _).1 hs
        exact ⟨p.v, w, ⟨p, hp, rfl⟩, ⟨mt, hmt, (hkey p hp mt hmt x hs).1 hdm, hw⟩, hm⟩
      · rintro ⟨y, w, ⟨p, hp, rfl⟩, ⟨mt, hmt, hb, hw⟩, hm⟩
        have hs := (surv_iff h mt (hso mt hmt) _ _).2 ⟨w, hw, hm⟩
        exact ⟨p, hp, mt, hmt, hs, (hkey p hp mt hmt x hs).2 hb⟩


/-! ### the whole `processDisjunctions` fold -/

theorem conj_vals {S : Sl V} (h : Laws S) (e : Expr V) (hf : e.flatConj = true) (c : List (Leaf V))
    (hnd : (c.map (·.v)).Nodup) :
    (((sem S e).conj c).map (·.v)).Nodup ∧
    valsP ((sem S e).conj c) = mt S (valsP c) (CV S e) := by
  induction e generalizing c with
  | atom a => exact ⟨hnd, (mt_top_right h _).symm⟩
  | paren e ih => exact ih hf c hnd
  | mark e _ => simp [Expr.flatConj] at hf
  | or l r _ _ =>
    have := step_or h l r hf c
    exact ⟨this.1, this.2.1⟩
  | and l r ihl ihr =>
    simp only [Expr.flatConj, Bool.and_eq_true] at hf
    obtain ⟨a1, a2⟩ := ihl hf.1 c hnd
    obtain ⟨b1, b2⟩ := ihr hf.2 _ a1
    refine ⟨b1, ?_⟩
    show valsP ((sem S r).conj ((sem S l).conj c)) = _
    rw [b2, a2, mt_assoc h]; rfl

theorem conj_defs {S : Sl V} (h : Laws S) (e : Expr V) (hf : e.flatConj = true) (c : List (Leaf V))
    (hnd : (c.map (·.v)).Nodup) (hns : NoStale c)
    (hc : e.markedChains = 0 ∨ (e.markedChains ≤ 1 ∧ ∀ x, ¬ defsP c x)) :
    NoStale ((sem S e).conj c) ∧
    defsP ((sem S e).conj c) = por (mt S (defsP c) (CV S e)) (mt S (valsP c) (CD S e)) := by
  induction e generalizing c with
  | atom a =>
    refine ⟨hns, ?_⟩
    show defsP c = _
    simp only [CV, CD, mt_pnone_right, por_pnone_right]
    exact (mt_top_right h _).symm
  | paren e ih => exact ih hf c hnd hns hc
  | mark e _ => simp [Expr.flatConj] at hf
  | or l r _ _ =>
    obtain ⟨_, _, s3, s4⟩ := step_or h l r hf c
    cases hcm : (Expr.or l r).chainMarked with
    | false =>
      obtain ⟨n1, n2⟩ := s3 hcm
      refine ⟨n1, ?_⟩
      have hm : (Expr.or l r).markedChains = 0 := by simp [Expr.markedChains, hcm]
      rw [n2, CD_none S _ hm, mt_pnone_right, por_pnone_right]
    | true =>
      have hm : (Expr.or l r).markedChains = 1 := by simp [Expr.markedChains, hcm]
      have hnd' : ∀ x, ¬ defsP c x := by
        rcases hc with hc | hc
        · omega
        · exact hc.2
      obtain ⟨n1, n2⟩ := s4 hcm hns hnd'
      refine ⟨n1, ?_⟩
      rw [n2, eq_pnone hnd', mt_pnone_left, por_pnone_left]
  | and l r ihl ihr =>
    simp only [Expr.flatConj, Bool.and_eq_true] at hf
    simp only [Expr.markedChains] at hc
    obtain ⟨a1, a2⟩ := conj_vals h l hf.1 c hnd
    have hcl : l.markedChains = 0 ∨ (l.markedChains ≤ 1 ∧ ∀ x, ¬ defsP c x) := by
      rcases hc with hc | hc
      · exact Or.inl (by omega)
      · exact Or.inr ⟨by omega, hc.2⟩
    obtain ⟨l1, l2⟩ := ihl hf.1 c hnd hns hcl
    have hcr : r.markedChains = 0 ∨
        (r.markedChains ≤ 1 ∧ ∀ x, ¬ defsP ((sem S l).conj c) x) := by
      by_cases hr0 : r.markedChains = 0
      · exact Or.inl hr0
      · right
        have hl0 : l.markedChains = 0 := by rcases hc with hc | hc <;> omega
        have hd0 : ∀ x, ¬ defsP c x := by
          rcases hc with hc | hc
          · omega
          · exact hc.2
        refine ⟨by rcases hc with hc | hc <;> omega, ?_⟩
        rw [l2, CD_none S l hl0, eq_pnone hd0, mt_pnone_left, mt_pnone_right, por_pnone_left]
        intro x hx; exact hx
    obtain ⟨r1, r2⟩ := ihr hf.2 _ a1 l1 hcr
    refine ⟨r1, ?_⟩
    show defsP ((sem S r).conj ((sem S l).conj c)) = _
    rw [r2, l2, a2]
    simp only [CV, CD, mt_por_left, mt_por_right, mt_assoc h]
    funext x; apply propext; simp only [por]
    constructor
    · rintro ((hh | hh) | hh)
      · exact Or.inl hh
      · exact Or.inr (Or.inl hh)
      · exact Or.inr (Or.inr hh)
    · rintro (hh | hh | hh)
      · exact Or.inl (Or.inl hh)
      · exact Or.inl (Or.inr hh)
      · exact Or.inr hh

/-! ### the root -/

/-- the scalar value of `e` as a set -/
def svP (S : Sl V) (e : Expr V) : V → Prop := fun x => sv S e = some x

theorem eval_resolve (S : Sl V) (e : Expr V) :
    (eval S e).resolve =
      match sv S e with
      | none => .bottom
      | some b =>
        resOf (((sem S e).conj [⟨b, .maybe, .maybe⟩]).map (·.v))
          ((((sem S e).conj [⟨b, .maybe, .maybe⟩]).filter (·.dm = .isDef)).map (·.v)) := by
  unfold eval doDisj sv
  simp only
  cases (sem S e).scalar (some S.top) with
  | none => rfl
  | some b =>
    simp only
    generalize (sem S e).conj [⟨b, .maybe, .maybe⟩] = L
    match L with
    | [] => rfl
    | [x] =>
      by_cases hx : x.dm = .isDef
      · simp [Out.resolve, Out.values, Out.defaultSet, Out.defaults, resOf, sing, hx]
      · simp [Out.resolve, Out.values, Out.defaultSet, Out.defaults, resOf, sing, hx]
    | x :: y :: r => rfl

theorem memP_vals (L : List (Leaf V)) : memP (L.map (·.v)) = valsP L := by
  funext x; apply propext; simp [memP, valsP]
theorem memP_defs (L : List (Leaf V)) :
    memP ((L.filter (·.dm = .isDef)).map (·.v)) = defsP L := by
  funext x; apply propext; simp [memP, defsP, and_comm, and_assoc]

/-- model side of the theorem: on the flat fragment with at most one marked disjunction the
evaluator's result resolves like the pair of sets ⟨scalars ⊓ chain values, scalars ⊓ chain defaults⟩ -/
theorem model_flat1 {S : Sl V} (h : Laws S) (e : Expr V) (hf : e.flatConj = true)
    (h1 : e.markedChains ≤ 1) :
    ∃ vs ds : List V, vs.Nodup ∧ ds.Nodup ∧ memP vs = mt S (svP S e) (CV S e) ∧
      memP ds = mt S (svP S e) (CD S e) ∧ (eval S e).resolve = resOf vs ds := by
  rw [eval_resolve]
  cases hb : sv S e with
  | none =>
    have : svP S e = pnone := eq_pnone (by intro x hx; unfold svP at hx; rw [hb] at hx; cases hx)
    refine ⟨[], [], List.nodup_nil, List.nodup_nil, ?_, ?_, rfl⟩
    · rw [this, mt_pnone_left]; exact eq_pnone (by intro x hx; cases hx)
    · rw [this, mt_pnone_left]; exact eq_pnone (by intro x hx; cases hx)
  | some b =>
    have hnd : (([⟨b, .maybe, .maybe⟩] : List (Leaf V)).map (·.v)).Nodup := by simp
    have hns : NoStale ([⟨b, .maybe, .maybe⟩] : List (Leaf V)) := by
      intro q hq; simp at hq; subst hq; intro hh; cases hh
    have hd0 : ∀ x, ¬ defsP ([⟨b, .maybe, .maybe⟩] : List (Leaf V)) x := by
      rintro x ⟨q, hq, _, hdm⟩; simp at hq; subst hq; cases hdm
    have hv0 : valsP ([⟨b, .maybe, .maybe⟩] : List (Leaf V)) = svP S e := by
      funext x; apply propext; simp [valsP, svP, hb]
    obtain ⟨a1, a2⟩ := conj_vals h e hf _ hnd
    obtain ⟨_, d2⟩ := conj_defs h e hf _ hnd hns (Or.inr ⟨h1, hd0⟩)
    refine ⟨_, _, a1, ?_, ?_, ?_, rfl⟩
    · exact (List.filter_sublist.map _).nodup a1
    · rw [memP_vals, a2, hv0]
    · rw [memP_defs, d2, eq_pnone hd0, mt_pnone_left, por_pnone_left, hv0]


/-! ### the n-ary unification rule `unifyD` with at most one conjunct carrying a default -/

def VV (S : Sl V) : List (List V) → V → Prop
  | [] => fun x => x = S.top
  | a :: r => mt S (memP a) (VV S r)

theorem memP_nil : memP ([] : List V) = pnone := by
  funext x; apply propext; simp [memP, pnone]

theorem memP_meetAll {S : Sl V} (h : Laws S) : ∀ ls : List (List V), memP (meetAll S ls) = VV S ls
  | [] => by funext x; apply propext; simp [meetAll, memP, VV]
  | [a] => by simp only [meetAll, VV]; exact (mt_top_right h _).symm
  | a :: b :: r => by
    have ih := memP_meetAll h (b :: r)
    rw [show meetAll S (a :: b :: r) = meetV S a (meetAll S (b :: r)) from rfl, memP_meetV, ih]; rfl

theorem VV_append {S : Sl V} (h : Laws S) (a b : List (List V)) :
    VV S (a ++ b) = mt S (VV S a) (VV S b) := by
  induction a with
  | nil => exact (mt_top_left h _).symm
  | cons x a ih => simp only [List.cons_append, VV, ih, mt_assoc h]

def AllU (ps : List (Pair V)) : Prop := ∀ q ∈ ps, q.d = []

def partF (S : Sl V) (pr : Pair V × List (Pair V)) : Bool × List V :=
  let alive := !(meetV S pr.1.d (meetAll S (pr.2.map Pair.v))).isEmpty
  (alive, if alive then pr.1.d else pr.1.v)

theorem unifyD_eq (S : Sl V) (ps : List (Pair V)) :
    unifyD S ps = if ((others [] ps).map (partF S)).any (·.1)
      then meetAll S (((others [] ps).map (partF S)).map (·.2)) else [] := rfl

theorem partF_unmarked (S : Sl V) (x : Pair V) (ctx : List (Pair V)) (hx : x.d = []) :
    partF S (x, ctx) = (false, x.v) := by
  simp [partF, hx, meetV_nil_left]

theorem others_allU (S : Sl V) (pre post : List (Pair V)) (hp : AllU post) :
    (others pre post).map (partF S) = post.map fun q => (false, q.v) := by
  induction post generalizing pre with
  | nil => rfl
  | cons x post ih =>
    simp only [others, List.map_cons]
    rw [partF_unmarked S x _ (hp x (List.mem_cons_self ..)),
      ih _ (fun q hq => hp q (List.mem_cons_of_mem _ hq))]

theorem others_oneM (S : Sl V) (pre A B : List (Pair V)) (p : Pair V) (hA : AllU A) (hB : AllU B) :
    (others pre (A ++ p :: B)).map (partF S) =
      (A.map fun q => (false, q.v)) ++ partF S (p, pre ++ A ++ B) :: (B.map fun q => (false, q.v)) := by
  induction A generalizing pre with
  | nil =>
    simp only [List.nil_append, others, List.map_cons, List.map_nil, List.append_nil]
    rw [others_allU S _ B hB]
  | cons a A ih =>
    simp only [List.cons_append, others, List.map_cons]
    rw [partF_unmarked S a _ (hA a (List.mem_cons_self ..)),
      ih _ (fun q hq => hA q (List.mem_cons_of_mem _ hq))]
    simp [List.append_assoc]

theorem unifyD_allU (S : Sl V) (ps : List (Pair V)) (hp : AllU ps) : unifyD S ps = [] := by
  rw [unifyD_eq, others_allU S [] ps hp]
  simp

theorem any_false_map (A : List (Pair V)) :
    (A.map fun q => ((false : Bool), q.v)).any (·.1) = false := by
  induction A with
  | nil => rfl
  | cons a A ih => simp only [List.map_cons, List.any_cons, ih]; rfl

theorem unifyD_oneM {S : Sl V} (h : Laws S) (A B : List (Pair V)) (p : Pair V)
    (hA : AllU A) (hB : AllU B) :
    memP (unifyD S (A ++ p :: B)) =
      mt S (VV S (A.map Pair.v)) (mt S (memP p.d) (VV S (B.map Pair.v))) := by
  rw [unifyD_eq, others_oneM S [] A B p hA hB]
  have hpf : partF S (p, [] ++ A ++ B) =
      (!(meetV S p.d (meetAll S ((A ++ B).map Pair.v))).isEmpty,
       if (!(meetV S p.d (meetAll S ((A ++ B).map Pair.v))).isEmpty) = true then p.d else p.v) := rfl
  rw [hpf, List.any_append, List.any_cons, any_false_map, any_false_map]
  have hctx : mt S (VV S (A.map Pair.v)) (mt S (memP p.d) (VV S (B.map Pair.v))) =
      memP (meetV S p.d (meetAll S ((A ++ B).map Pair.v))) := by
    rw [memP_meetV, memP_meetAll h, List.map_append, VV_append h,
      ← mt_assoc h, mt_comm h (VV S _) (memP p.d), mt_assoc h]
  cases hal : (meetV S p.d (meetAll S ((A ++ B).map Pair.v))).isEmpty with
  | true =>
    rw [hctx, List.isEmpty_iff.1 hal]
    rfl
  | false =>
    simp only [Bool.not_false, Bool.false_or, Bool.or_false, if_true, List.map_append,
      List.map_map, List.map_cons]
    rw [memP_meetAll h, VV_append h]
    simp only [Function.comp_def, VV]


/-! ### spec side -/

theorem svP_and {S : Sl V} (h : Laws S) (l r : Expr V) (hr : r.flatConj = true) :
    svP S (.and l r) = mt S (svP S l) (svP S r) := by
  funext x; apply propext
  have e2 : sv S (.and l r) = (sem S r).scalar (sv S l) := rfl
  unfold svP mt
  rw [e2, scalar_eq h r hr]
  cases sv S l with
  | none => simp
  | some y =>
    cases sv S r with
    | none => simp
    | some w => simp

theorem mt4 {S : Sl V} (h : Laws S) (a b c d : V → Prop) :
    mt S (mt S a b) (mt S c d) = mt S (mt S a c) (mt S b d) := by
  rw [mt_assoc h, ← mt_assoc h b c d, mt_comm h b c, mt_assoc h c b d, ← mt_assoc h a c]

theorem allU_append {A B : List (Pair V)} (hA : AllU A) (hB : AllU B) : AllU (A ++ B) := by
  intro q hq; rw [List.mem_append] at hq
  rcases hq with hq | hq
  · exact hA q hq
  · exact hB q hq

theorem spec_scalar {S : Sl V} (h : Laws S) (t : Expr V) (hs : t.scalarOnly = true) :
    memP (specPair S t).v = svP S t ∧ (specPair S t).d = [] ∧ AllU (specSem S t).conjs := by
  induction t with
  | atom a =>
    refine ⟨?_, rfl, ?_⟩
    · funext x; apply propext
      simp [memP, svP, sv, sem, specPair, specSem, h.top, eq_comm]
    · intro q hq; simp [specSem] at hq; subst hq; rfl
  | and l r ihl ihr =>
    simp only [Expr.scalarOnly, Bool.and_eq_true] at hs
    obtain ⟨l1, l2, l3⟩ := ihl hs.1
    obtain ⟨r1, r2, r3⟩ := ihr hs.2
    have hU := allU_append l3 r3
    refine ⟨?_, unifyD_allU S _ hU, hU⟩
    show memP (meetV S (specPair S l).v (specPair S r).v) = _
    rw [memP_meetV, l1, r1, svP_and h l r (scalarOnly_flatConj r hs.2)]
  | paren e ih => exact ih hs
  | or l r _ _ => simp [Expr.scalarOnly] at hs
  | mark e _ => simp [Expr.scalarOnly] at hs

theorem spec_terms_eq (S : Sl V) (e : Expr V) (mk : Bool) :
    (specSem S e).terms mk = (tms e mk).map fun mt => (mt.1, specPair S mt.2) := by
  induction e generalizing mk with
  | atom a => rfl
  | and l r _ _ => rfl
  | paren e _ => rfl
  | mark e ih => exact ih true
  | or l r ihl ihr =>
    show (specSem S l).terms mk ++ (specSem S r).terms mk = _
    rw [ihl, ihr]; simp [tms]

theorem fold_D (f : Bool × Pair V → Pair V) (ts : List (Bool × Pair V)) (a : Pair V) (x : V) :
    (x ∈ (ts.foldl (fun acc t => D acc (f t)) a).v ↔ x ∈ a.v ∨ ∃ t ∈ ts, x ∈ (f t).v) ∧
    (x ∈ (ts.foldl (fun acc t => D acc (f t)) a).d ↔ x ∈ a.d ∨ ∃ t ∈ ts, x ∈ (f t).d) := by
  induction ts generalizing a with
  | nil => simp
  | cons t ts ih =>
    obtain ⟨i1, i2⟩ := ih (D a (f t))
    simp only [List.foldl_cons, List.mem_cons, exists_eq_or_imp]
    rw [i1, i2]
    simp only [D, mem_unionV, or_assoc]
    first | exact ⟨trivial, trivial⟩ | exact ⟨Iff.rfl, Iff.rfl⟩

theorem chain_spec {S : Sl V} (h : Laws S) (l r : Expr V) (hf : (Expr.or l r).flatChain = true) :
    memP (specPair S (.or l r)).v = CV S (.or l r) ∧
    memP (specPair S (.or l r)).d = CD S (.or l r) := by
  have hso := tms_scalarOnly (.or l r) false hf
  have e0 : specPair S (.or l r) = disjPair ((specSem S (.or l r)).terms false) := rfl
  rw [e0, spec_terms_eq]
  unfold disjPair
  generalize hmk : ((tms (.or l r) false).map fun mt => (mt.1, specPair S mt.2)).any (·.1) = marked
  constructor
  · funext x; apply propext
    show x ∈ _ ↔ _
    rw [(fold_D _ _ _ x).1]
    simp only [List.not_mem_nil, false_or, List.mem_map, CV]
    constructor
    · rintro ⟨t, ⟨mt, hmt, rfl⟩, hx⟩
      obtain ⟨s1, s2, _⟩ := spec_scalar h mt.2 (hso mt hmt)
      refine ⟨mt, hmt, ?_⟩
      have hx' : x ∈ (specPair S mt.2).v := by
        cases marked <;> cases hb : mt.1 <;> simp [M, hb, s2] at hx <;> exact hx
      have : memP (specPair S mt.2).v x := hx'
      rw [s1] at this; exact this
    · rintro ⟨mt, hmt, hx⟩
      obtain ⟨s1, s2, _⟩ := spec_scalar h mt.2 (hso mt hmt)
      have hx' : x ∈ (specPair S mt.2).v := by
        have : svP S mt.2 x := hx
        rw [← s1] at this; exact this
      refine ⟨_, ⟨mt, hmt, rfl⟩, ?_⟩
      cases marked <;> cases hb : mt.1 <;> simp [M, s2] <;> exact hx'
  · funext x; apply propext
    show x ∈ _ ↔ _
    rw [(fold_D _ _ _ x).2]
    simp only [List.not_mem_nil, false_or, List.mem_map, CD]
    constructor
    · rintro ⟨t, ⟨mt, hmt, rfl⟩, hx⟩
      obtain ⟨s1, s2, _⟩ := spec_scalar h mt.2 (hso mt hmt)
      have hx' : mt.1 = true ∧ x ∈ (specPair S mt.2).v := by
        cases marked <;> cases hb : mt.1 <;> simp [M, hb, s2] at hx <;> simp [hx]
      have : memP (specPair S mt.2).v x := hx'.2
      rw [s1] at this; exact ⟨mt, hmt, hx'.1, this⟩
    · rintro ⟨mt, hmt, hb, hx⟩
      obtain ⟨s1, s2, _⟩ := spec_scalar h mt.2 (hso mt hmt)
      have hx' : x ∈ (specPair S mt.2).v := by
        have : svP S mt.2 x := hx
        rw [← s1] at this; exact this
      have hmarked : marked = true := by
        rw [← hmk, List.any_eq_true]
        exact ⟨_, List.mem_map.2 ⟨mt, hmt, rfl⟩, hb⟩
      refine ⟨_, ⟨mt, hmt, rfl⟩, ?_⟩
      simp [M, hb, s2, hmarked]; exact hx'


theorem spec_sets {S : Sl V} (h : Laws S) (e : Expr V) (hf : e.flatConj = true) :
    memP (specPair S e).v = mt S (svP S e) (CV S e) ∧
    VV S ((specSem S e).conjs.map Pair.v) = mt S (svP S e) (CV S e) ∧
    (e.markedChains = 0 → AllU (specSem S e).conjs) ∧
    (e.markedChains = 1 → ∃ A p B, (specSem S e).conjs = A ++ p :: B ∧ AllU A ∧ AllU B ∧
      mt S (VV S (A.map Pair.v)) (mt S (memP p.d) (VV S (B.map Pair.v))) = mt S (svP S e) (CD S e)) ∧
    (e.markedChains ≤ 1 → memP (specPair S e).d = mt S (svP S e) (CD S e)) := by
  induction e with
  | mark e _ => simp [Expr.flatConj] at hf
  | paren e ih => exact ih hf
  | atom a =>
    have hv : memP (specPair S (.atom a)).v = svP S (.atom a) := by
      funext x; apply propext
      simp [memP, svP, sv, sem, specPair, specSem, h.top, eq_comm]
    have hcv : mt S (svP S (.atom a)) (CV S (.atom a)) = svP S (.atom a) := mt_top_right h _
    refine ⟨by rw [hcv, hv], ?_, ?_, ?_, ?_⟩
    · rw [hcv, ← hv]; exact mt_top_right h _
    · intro _ q hq; simp [specSem] at hq; subst hq; rfl
    · intro hm; simp [Expr.markedChains] at hm
    · intro _
      show memP [] = _
      rw [memP_nil]; simp only [CD, mt_pnone_right]
  | or l r _ _ =>
    obtain ⟨c1, c2⟩ := chain_spec h l r hf
    have hs : svP S (.or l r) = fun x => x = S.top := by
      funext x; apply propext
      show (some S.top = some x) ↔ _
      simp [eq_comm]
    have hconj : (specSem S (.or l r)).conjs = [specPair S (.or l r)] := rfl
    rw [hs, mt_top_left h, mt_top_left h, hconj]
    refine ⟨c1, ?_, ?_, ?_, fun _ => c2⟩
    · simp only [List.map_cons, List.map_nil, VV]; rw [mt_top_right h, c1]
    · intro hm q hq
      simp at hq; subst hq
      have := CD_none S (.or l r) hm
      rw [← c2] at this
      apply List.eq_nil_iff_forall_not_mem.2
      intro x hx
      have hx' : memP (specPair S (.or l r)).d x := hx
      rw [this] at hx'; exact hx'
    · intro _
      refine ⟨[], _, [], rfl, by intro q hq; simp at hq, by intro q hq; simp at hq, ?_⟩
      simp only [List.map_nil, VV]
      rw [mt_top_left h, mt_top_right h, c2]
  | and l r ihl ihr =>
    simp only [Expr.flatConj, Bool.and_eq_true] at hf
    obtain ⟨l1, l2, l3, l4, _⟩ := ihl hf.1
    obtain ⟨r1, r2, r3, r4, _⟩ := ihr hf.2
    have hconj : (specSem S (.and l r)).conjs = (specSem S l).conjs ++ (specSem S r).conjs := rfl
    have hd : (specPair S (.and l r)).d = unifyD S ((specSem S l).conjs ++ (specSem S r).conjs) := rfl
    have hv : mt S (mt S (svP S l) (CV S l)) (mt S (svP S r) (CV S r)) =
        mt S (svP S (.and l r)) (CV S (.and l r)) := by
      rw [mt4 h, ← svP_and h l r hf.2]; rfl
    have h0 : (Expr.and l r).markedChains = 0 → AllU (specSem S (.and l r)).conjs := by
      intro hm; simp only [Expr.markedChains] at hm
      rw [hconj]; exact allU_append (l3 (by omega)) (r3 (by omega))
    have h1 : (Expr.and l r).markedChains = 1 → ∃ A p B, (specSem S (.and l r)).conjs = A ++ p :: B ∧
        AllU A ∧ AllU B ∧
        mt S (VV S (A.map Pair.v)) (mt S (memP p.d) (VV S (B.map Pair.v))) =
          mt S (svP S (.and l r)) (CD S (.and l r)) := by
      intro hm; simp only [Expr.markedChains] at hm
      by_cases hl : l.markedChains = 1
      · have hr0 : r.markedChains = 0 := by omega
        obtain ⟨A, p, B, e1, e2, e3, e4⟩ := l4 hl
        refine ⟨A, p, B ++ (specSem S r).conjs, ?_, e2, allU_append e3 (r3 hr0), ?_⟩
        · rw [hconj, e1]; simp
        · rw [List.map_append, VV_append h, ← mt_assoc h (memP p.d), ← mt_assoc h, e4, r2, mt4 h,
            ← svP_and h l r hf.2]
          simp only [CD, CD_none S r hr0, mt_pnone_right, por_pnone_right]
      · have hl0 : l.markedChains = 0 := by omega
        have hr1 : r.markedChains = 1 := by omega
        obtain ⟨A, p, B, e1, e2, e3, e4⟩ := r4 hr1
        refine ⟨(specSem S l).conjs ++ A, p, B, ?_, allU_append (l3 hl0) e2, e3, ?_⟩
        · rw [hconj, e1]; simp
        · rw [List.map_append, VV_append h, mt_assoc h, e4, l2, mt4 h, ← svP_and h l r hf.2]
          simp only [CD, CD_none S l hl0, mt_pnone_left, por_pnone_left]
    refine ⟨?_, ?_, h0, h1, ?_⟩
    · show memP (meetV S (specPair S l).v (specPair S r).v) = _
      rw [memP_meetV, l1, r1, hv]
    · rw [hconj, List.map_append, VV_append h, l2, r2, hv]
    · intro hm
      by_cases hm0 : (Expr.and l r).markedChains = 0
      · rw [hd, ← hconj, unifyD_allU S _ (h0 hm0), memP_nil, CD_none S _ hm0, mt_pnone_right]
      · obtain ⟨A, p, B, e1, e2, e3, e4⟩ := h1 (by omega)
        rw [hd, ← hconj, e1, unifyD_oneM h A B p e2 e3, e4]

theorem markedChains_le_chains (e : Expr V) : e.markedChains ≤ e.chains := by
  induction e with
  | atom a => simp [Expr.markedChains, Expr.chains]
  | and l r ihl ihr => simp only [Expr.markedChains, Expr.chains]; omega
  | paren e ih => exact ih
  | mark e _ => simp [Expr.markedChains, Expr.chains]
  | or l r _ _ => simp only [Expr.markedChains, Expr.chains]; split <;> omega

theorem meetAll_nodup (S : Sl V) : ∀ ls : List (List V), (∀ a ∈ ls, a.Nodup) → (meetAll S ls).Nodup
  | [], _ => by simp [meetAll]
  | [a], h => h a (List.mem_cons_self ..)
  | a :: b :: r, _ => nodup_meetV S _ _

theorem mem_others {α : Type} (pre post : List α) (pr : α × List α) (h : pr ∈ others pre post) :
    pr.1 ∈ post := by
  induction post generalizing pre with
  | nil => simp [others] at h
  | cons x post ih =>
    simp only [others, List.mem_cons] at h
    rcases h with h | h
    · subst h; exact List.mem_cons_self ..
    · exact List.mem_cons_of_mem _ (ih _ h)

theorem unifyD_nodup (S : Sl V) (ps : List (Pair V)) (h : ∀ q ∈ ps, q.v.Nodup ∧ q.d.Nodup) :
    (unifyD S ps).Nodup := by
  rw [unifyD_eq]
  split
  · apply meetAll_nodup
    intro a ha
    simp only [List.mem_map] at ha
    obtain ⟨b, ⟨pr, hpr, rfl⟩, rfl⟩ := ha
    have := h _ (mem_others _ _ pr hpr)
    unfold partF
    simp only
    split
    · exact this.2
    · exact this.1
  · exact List.nodup_nil

theorem fold_D_nodup (f : Bool × Pair V → Pair V) (ts : List (Bool × Pair V)) (a : Pair V)
    (h : a.v.Nodup ∧ a.d.Nodup) :
    (ts.foldl (fun acc t => D acc (f t)) a).v.Nodup ∧ (ts.foldl (fun acc t => D acc (f t)) a).d.Nodup := by
  induction ts generalizing a with
  | nil => exact h
  | cons t ts ih => exact ih _ ⟨nodup_unionV _ _ h.1, nodup_unionV _ _ h.2⟩

theorem specPair_nodup (S : Sl V) (e : Expr V) :
    ((specPair S e).v.Nodup ∧ (specPair S e).d.Nodup) ∧
    ∀ q ∈ (specSem S e).conjs, q.v.Nodup ∧ q.d.Nodup := by
  induction e with
  | atom a =>
    have : (specPair S (.atom a)).v.Nodup ∧ (specPair S (.atom a)).d.Nodup := by
      simp [specPair, specSem]
    refine ⟨this, ?_⟩
    intro q hq
    have hq' : q = specPair S (.atom a) := by simpa [specSem, specPair] using hq
    rw [hq']; exact this
  | paren e ih => exact ih
  | mark e _ =>
    have : (specPair S (.mark e)).v.Nodup ∧ (specPair S (.mark e)).d.Nodup := by
      simp [specPair, specSem]
    refine ⟨this, ?_⟩
    intro q hq
    have hq' : q = specPair S (.mark e) := by simpa [specSem, specPair] using hq
    rw [hq']; exact this
  | or l r _ _ =>
    have : (specPair S (.or l r)).v.Nodup ∧ (specPair S (.or l r)).d.Nodup :=
      fold_D_nodup _ _ _ ⟨List.nodup_nil, List.nodup_nil⟩
    refine ⟨this, ?_⟩
    intro q hq
    have hq' : q = specPair S (.or l r) := by simpa [specSem, specPair] using hq
    rw [hq']; exact this
  | and l r ihl ihr =>
    have hc : ∀ q ∈ (specSem S (.and l r)).conjs, q.v.Nodup ∧ q.d.Nodup := by
      intro q hq
      have : q ∈ (specSem S l).conjs ++ (specSem S r).conjs := hq
      rw [List.mem_append] at this
      rcases this with hq | hq
      · exact ihl.2 q hq
      · exact ihr.2 q hq
    exact ⟨⟨nodup_meetV S _ _, unifyD_nodup S _ hc⟩, hc⟩

/-- The flat fragment with at most ONE marked disjunction (any number of unmarked ones, any
number of atoms, any nesting of `&` and parentheses): the evaluator model resolves exactly
like the spec's value-default pair. -/
theorem default_flat1 (S : Sl V) (h : Laws S) (e : Expr V) (hf : e.flatConj = true)
    (h1 : e.markedChains ≤ 1) :
    (eval S e).resolve = (specPair S e).resolve := by
  obtain ⟨vs, ds, n1, n2, m1, m2, hr⟩ := model_flat1 h e hf h1
  obtain ⟨s1, _, _, _, s5⟩ := spec_sets h e hf
  obtain ⟨⟨k1, k2⟩, _⟩ := specPair_nodup S e
  rw [hr, Pair.resolve_eq]
  exact resOf_congr n1 k1 n2 k2 (by rw [m1, s1]) (by rw [m2, s5 h1])

/-- STAGE 1: one flat disjunction (any width, any marks, duplicates, failing terms) unified
with any number of atoms. -/
theorem default_single (S : Sl V) (h : Laws S) (e : Expr V)
    (hf : e.flatConj = true) (h1 : e.chains ≤ 1) :
    (eval S e).resolve = (specPair S e).resolve :=
  default_flat1 S h e hf (Nat.le_trans (markedChains_le_chains e) h1)


/-- the whole flat fragment (`Expr.Flat`: flat conjunction, at most one marked disjunction) -/
theorem default_flat (S : Sl V) (h : Laws S) (e : Expr V) (hf : e.Flat = true) :
    (eval S e).resolve = (specPair S e).resolve := by
  simp only [Expr.Flat, Bool.and_eq_true, decide_eq_true_eq] at hf
  exact default_flat1 S h e hf.1 hf.2

/-! ### with TWO marked disjunctions the model is order dependent (machine-checked on `bits`) -/

namespace Cex
def A : Expr Nat := .or (.or (.mark (.atom 1)) (.atom 2)) (.atom 4)   -- *1 | 2 | 4
def B : Expr Nat := .or (.or (.atom 1) (.mark (.atom 2))) (.atom 4)   -- 1 | *2 | 4
def C : Expr Nat := .or (.atom 2) (.atom 4)                           -- 2 | 4

/-- `(*1|2|4) & ((1|*2|4) & (2|4))` is ambiguous in the model … -/
theorem model_ABC : (eval bits (.and A (.and B C))).resolve = .ambiguous := by decide
/-- … but `((2|4) & (*1|2|4)) & (1|*2|4)` resolves to 2: the model is not invariant under
reordering the conjuncts of a node once two of the disjunctions are marked. -/
theorem model_CAB : (eval bits (.and (.and C A) B)).resolve = .value 2 := by decide
theorem model_order_dependent :
    (eval bits (.and A (.and B C))).resolve ≠ (eval bits (.and (.and C A) B)).resolve := by
  rw [model_ABC, model_CAB]; decide
/-- the spec (n-ary unification) says 2 for both orders, so `default_flat1` does not extend
to two marked disjunctions -/
theorem spec_ABC : (specPair bits (.and A (.and B C))).resolve = .value 2 := by decide
theorem spec_CAB : (specPair bits (.and (.and C A) B)).resolve = .value 2 := by decide
theorem flat2_fails : (Expr.and A (.and B C)).flatConj = true ∧
    (Expr.and A (.and B C)).markedChains = 2 ∧
    (eval bits (.and A (.and B C))).resolve ≠ (specPair bits (.and A (.and B C))).resolve := by
  refine ⟨by decide, by decide, ?_⟩
  rw [model_ABC, spec_ABC]; decide
end Cex

end CueVerif.Disj
