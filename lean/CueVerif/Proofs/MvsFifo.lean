import CueVerif.Proofs.MvsOps
import CueVerif.Proofs.MvsReq
/-!
The executable schedule the driver uses (`runFifo`, `buildListUp`, `buildList`) computes the
selection `IsSel`: so the driver's answers for `mvs`, `build`, `upgrade`, `upgradeall` (and
the build lists inside `req`) are the specified build lists, not just "some run".
-/
namespace CueVerif.Mvs

structure FifoInv (g : Graph) (roots : List Node) (s : St) : Prop where
  added_iff : ∀ n, n ∈ s.added ↔ n ∈ s.todo ∨ n ∈ s.required
  added_reach : ∀ n ∈ s.added, Reach g roots n
  closed : ∀ m ∈ s.required, ∀ n ∈ g m, n ∈ s.added
  roots_added : ∀ n ∈ roots, n ∈ s.added
  sel_ub : ∀ p v, Marked g roots s (p, v) → v ≤ s.sel p
  sel_att : ∀ p, s.sel p = 0 ∨ Marked g roots s (p, s.sel p)

theorem fifoInv_init (g : Graph) (roots : List Node) : FifoInv g roots (init roots) where
  added_iff := by intro n; simp [init]
  added_reach := by
    intro n hn
    simp only [init, List.mem_eraseDups] at hn
    exact Reach.root hn
  closed := by intro m hm; simp [init] at hm
  roots_added := by intro n hn; simp only [init, List.mem_eraseDups]; exact hn
  sel_ub := (inv_init g roots).sel_ub
  sel_att := (inv_init g roots).sel_att

theorem fifoInv_step (g : Graph) (roots : List Node) (s : St) (m : Node) (rest : List Node)
    (ht : s.todo = m :: rest) (hi : FifoInv g roots s) :
    FifoInv g roots
      { s with todo := rest ++ ((g m).eraseDups.filter fun r => !(s.added.contains r)),
               added := s.added ++ ((g m).eraseDups.filter fun r => !(s.added.contains r)),
               required := m :: s.required, sel := bumpAll s.sel (g m) } := by
  have hnew : ∀ n, n ∈ ((g m).eraseDups.filter fun r => !(s.added.contains r)) ↔
      n ∈ g m ∧ n ∉ s.added := by
    intro n
    simp [List.mem_filter, List.mem_eraseDups]
  have hm_added : m ∈ s.added := (hi.added_iff m).mpr (Or.inl (by rw [ht]; exact List.mem_cons_self))
  have hmark : ∀ n, Marked g roots s n →
      Marked g roots { s with required := m :: s.required } n := by
    intro n hn
    exact Marked.mono (fun x hx => List.mem_cons_of_mem _ hx) hn
  refine ⟨?_, ?_, ?_, ?_, ?_, ?_⟩
  · intro n
    have h1 := hi.added_iff n
    rw [ht] at h1
    show n ∈ s.added ++ _ ↔ n ∈ rest ++ _ ∨ n ∈ m :: s.required
    constructor
    · intro h
      rcases List.mem_append.mp h with h | h
      · rcases h1.mp h with h | h
        · rcases List.mem_cons.mp h with h | h
          · exact Or.inr (by rw [h]; exact List.mem_cons_self)
          · exact Or.inl (List.mem_append_left _ h)
        · exact Or.inr (List.mem_cons_of_mem _ h)
      · exact Or.inl (List.mem_append_right _ h)
    · intro h
      rcases h with h | h
      · rcases List.mem_append.mp h with h | h
        · exact List.mem_append_left _ (h1.mpr (Or.inl (List.mem_cons_of_mem _ h)))
        · exact List.mem_append_right _ h
      · rcases List.mem_cons.mp h with h | h
        · rw [h]; exact List.mem_append_left _ hm_added
        · exact List.mem_append_left _ (h1.mpr (Or.inr h))
  · intro n hn
    rcases List.mem_append.mp hn with hn | hn
    · exact hi.added_reach n hn
    · exact Reach.dep (hi.added_reach m hm_added) ((hnew n).mp hn).1
  · intro m' hm' n hn
    show n ∈ s.added ++ _
    rcases List.mem_cons.mp hm' with h | h
    · subst h
      by_cases hin : n ∈ s.added
      · exact List.mem_append_left _ hin
      · exact List.mem_append_right _ ((hnew n).mpr ⟨hn, hin⟩)
    · exact List.mem_append_left _ (hi.closed m' h n hn)
  · intro n hn
    exact List.mem_append_left _ (hi.roots_added n hn)
  · intro p v hmk
    show v ≤ bumpAll s.sel (g m) p
    rcases hmk with hr | ⟨m', hm', hn⟩
    · exact Nat.le_trans (hi.sel_ub p v (Or.inl hr)) (le_bumpAll _ _ _)
    · rcases List.mem_cons.mp hm' with h | h
      · subst h
        exact mem_le_bumpAll _ _ p v hn
      · exact Nat.le_trans (hi.sel_ub p v (Or.inr ⟨m', h, hn⟩)) (le_bumpAll _ _ _)
  · intro p
    show bumpAll s.sel (g m) p = 0 ∨ Marked g roots _ (p, bumpAll s.sel (g m) p)
    rcases bumpAll_cases s.sel (g m) p with h | h
    · rw [h]
      rcases hi.sel_att p with h0 | h0
      · exact Or.inl h0
      · exact Or.inr (hmark _ h0)
    · exact Or.inr (Or.inr ⟨m, List.mem_cons_self, h⟩)

theorem fifoInv_run (g : Graph) (roots : List Node) :
    ∀ (fuel : Nat) (s : St), FifoInv g roots s → FifoInv g roots (runFifo g fuel s) := by
  intro fuel
  induction fuel with
  | zero => intro s hi; exact hi
  | succ fuel ih =>
    intro s hi
    unfold runFifo
    split
    · exact hi
    · rename_i m rest ht
      exact ih _ (fifoInv_step g roots s m rest ht hi)

/-- a finished FIFO run has visited exactly the reachable nodes and selected the maxima -/
theorem fifo_done (g : Graph) (roots : List Node) (s : St) (hi : FifoInv g roots s)
    (ht : s.todo = []) : (∀ n, n ∈ s.added ↔ Reach g roots n) ∧ IsSel g roots s.sel := by
  have hadd : ∀ n, n ∈ s.added ↔ n ∈ s.required := by
    intro n; rw [hi.added_iff, ht]; simp
  have hall : ∀ n, Reach g roots n → n ∈ s.added := by
    intro n hn
    induction hn with
    | root h => exact hi.roots_added _ h
    | dep _ hmn ih => exact hi.closed _ ((hadd _).mp ih) _ hmn
  have hmr : ∀ n, Marked g roots s n ↔ Reach g roots n := by
    intro n
    constructor
    · rintro (h | ⟨m, hm, hn⟩)
      · exact Reach.root h
      · exact Reach.dep (hi.added_reach m ((hadd m).mpr hm)) hn
    · intro h
      cases h with
      | root h => exact Or.inl h
      | dep hm hn => exact Or.inr ⟨_, (hadd _).mp (hall _ hm), hn⟩
  refine ⟨fun n => ⟨hi.added_reach n, hall n⟩, ?_⟩
  intro p
  refine ⟨fun v hv => hi.sel_ub p v ((hmr _).mpr hv), ?_⟩
  rcases hi.sel_att p with h | h
  · exact Or.inl h
  · exact Or.inr ((hmr _).mp h)

/-- `buildListUp` returns the build list of the graph it is given: there is a selection
`sel` (the unique one) of which the result is the build list, target first -/
theorem buildListUp_spec (g : Graph) (fuel : Nat) (target : Node) (list : List Node)
    (ht0 : target.2 ≠ 0) (h : buildListUp g fuel target = some list) :
    ∃ sel, IsSel g [target] sel ∧ IsBuildList sel list ∧ list.head? = some (target.1, sel target.1) := by
  unfold buildListUp at h
  simp only at h
  split at h
  · rename_i hte
    have hte' : (runFifo g fuel (init [target])).todo = [] := by simpa using hte
    have hi := fifoInv_run g [target] fuel _ (fifoInv_init g [target])
    obtain ⟨hadd, hsel⟩ := fifo_done g [target] _ hi hte'
    simp only [Option.some.injEq] at h
    subst h
    have hroot : target.2 ≤ (runFifo g fuel (init [target])).sel target.1 :=
      (hsel target.1).1 target.2 (Reach.root List.mem_cons_self)
    have hselt : (runFifo g fuel (init [target])).sel target.1 ≠ 0 := by omega
    have hrp : rootPart (runFifo g fuel (init [target])).sel [target] [] =
        [(target.1, (runFifo g fuel (init [target])).sel target.1)] := by
      simp [rootPart, hselt]
    refine ⟨_, hsel, ?_, ?_⟩
    · intro n
      unfold graphBuildList
      rw [hrp]
      simp only [List.mem_append, List.mem_singleton, mem_sortByPath, List.mem_filter,
        List.mem_map, List.mem_eraseDups]
      constructor
      · rintro (h | ⟨⟨p, ⟨_, hp⟩, hn⟩, _⟩)
        · subst h
          exact ⟨hselt, rfl⟩
        · subst hn
          simp only [bne_iff_ne, ne_eq] at hp
          exact ⟨hp, rfl⟩
      · rintro ⟨h0, heq⟩
        by_cases hp : n.1 = target.1
        · left
          rw [← hp, ← heq]
        · right
          refine ⟨⟨n.1, ⟨?_, ?_⟩, ?_⟩, ?_⟩
          · rcases (hsel n.1).2 with hz | hr
            · exact absurd (heq.trans hz) h0
            · exact ⟨_, (hadd _).mpr hr, rfl⟩
          · simp only [bne_iff_ne, ne_eq]
            rw [← heq]; exact h0
          · rw [← heq]
          · simp [Ne.symm hp]
    · unfold graphBuildList
      rw [hrp]
      rfl
  · cases h

theorem upGraph_id (g : Graph) (hnone : ∀ p, g (p, 0) = []) : upGraph g (fun m => m) = g := by
  funext m
  unfold upGraph
  simp only [ne_eq, not_true_eq_false, if_false]
  split
  · rename_i h
    have : m = (m.1, 0) := by rw [← h]
    rw [this, hnone]
  · rfl

end CueVerif.Mvs

namespace CueVerif.Mvs

theorem isSel_congr (g g' : Graph) (roots : List Node) (sel : Nat → Nat)
    (h : ∀ m n, n ∈ g m ↔ n ∈ g' m) : IsSel g roots sel ↔ IsSel g' roots sel := by
  have hr := reach_congr g g' roots roots h (fun _ => Iff.rfl)
  unfold IsSel
  constructor
  · intro hs p
    refine ⟨fun v hv => (hs p).1 v ((hr _).mpr hv), ?_⟩
    rcases (hs p).2 with h0 | h0
    · exact Or.inl h0
    · exact Or.inr ((hr _).mp h0)
  · intro hs p
    refine ⟨fun v hv => (hs p).1 v ((hr _).mp hv), ?_⟩
    rcases (hs p).2 with h0 | h0
    · exact Or.inl h0
    · exact Or.inr ((hr _).mpr h0)

theorem override_congr (g : Graph) (main : Node) (l l' : List Node) (h : ∀ n, n ∈ l ↔ n ∈ l') :
    ∀ m n, n ∈ override g main l m ↔ n ∈ override g main l' m := by
  intro m n
  unfold override
  split
  · exact h n
  · exact Iff.rfl

/-- **`Req`, end to end** (BuildList, Algorithm R, final sort): the result `out` lists the
selected version of every path of `base`; the graph in which the main module requires exactly
`out` has the same build list; and dropping any element whose path is not in `base` changes
the build list. -/
theorem req_spec (g : Graph) (fuel : Nat) (main : Node) (base : List Nat) (out : List Node)
    (hm0 : main.2 ≠ 0) (hnone : ∀ p, g (p, 0) = [])
    (h : req g fuel main base = some out) :
    ∃ sel, IsSel g [main] sel ∧
      (∀ p ∈ base, (p, sel p) ∈ out) ∧
      ((∀ p ∈ base, sel p ≠ 0) → IsSel (override g main out) [main] sel) ∧
      (∀ r ∈ out, r.1 ∉ base →
        ¬ IsSel (override g main (out.filter fun x => x != r)) [main] sel) := by
  unfold req at h
  cases hb : buildList g fuel main with
  | none => rw [hb] at h; cases h
  | some list =>
    rw [hb] at h
    simp only at h
    cases hc : reqCore g fuel main base list with
    | none => rw [hc] at h; cases h
    | some min =>
      rw [hc] at h
      simp only [Option.map_some, Option.some.injEq] at h
      subst h
      unfold buildList at hb
      rw [upGraph_id g hnone] at hb
      obtain ⟨sel, hsel, hbl, _⟩ := buildListUp_spec g fuel main list hm0 hb
      refine ⟨sel, hsel, ?_, ?_, ?_⟩
      · intro p hp
        exact (mem_sortByPath _ _).mpr ((req_base g fuel main base sel list min hbl hc).1 p hp)
      · intro hbase
        have := req_sufficient g fuel main base sel list min hsel hbl hbase hc
        exact (isSel_congr _ _ [main] sel
          (override_congr g main min (sortByPath min) fun n => (mem_sortByPath n min).symm)).mp this
      · intro r hr hbr
        have hr' : r ∈ min := (mem_sortByPath r min).mp hr
        have := req_minimal g fuel main base sel list min hbl hc r hr' hbr
        intro his
        apply this
        refine (isSel_congr _ _ [main] sel (override_congr g main _ _ ?_)).mp his
        intro n
        simp only [List.mem_filter, mem_sortByPath]

end CueVerif.Mvs
