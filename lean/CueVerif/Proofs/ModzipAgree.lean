import CueVerif.Proofs.ModzipCreate
/-!
C15, "the three ways of checking agree", the converse direction: an archive that CheckZip
accepts (no directory entries, vendored files or `.hg_archival.txt`) is accepted by the
file-list check (checkFiles: core of CheckFiles, CheckDir and Create) with the same valid
names, nothing omitted.

The proof is a simulation of the two loops: as long as CheckZip has reported no error the two
states agree on the collision map, the remaining size budget, the valid list and the
"module file found" flag.
-/
namespace CueVerif.Modzip

/-! ### `splitCUEMod` finds a `cue.mod` element when there is one -/

theorem splitAux_rest_ne (U : Uni) (es : List Str) (hg : GoodElems es) (fuel : Nat) :
    ∀ (as bs : List Str), as ≠ [] → es = as ++ bs → as.length ≤ fuel →
    (∃ a ∈ as, equalFold U a sCueMod = true) →
    (splitCUEModAux U (joinSlash es) fuel (joinSlash as)).2 ≠ [] := by
  induction fuel with
  | zero =>
    intro as bs hne _ hlen
    cases as with
    | nil => exact absurd rfl hne
    | cons a as => simp at hlen
  | succ fuel ih =>
    intro as bs hne hes hlen hex
    rcases List.eq_nil_or_concat as with h0 | ⟨as0, a, h0⟩
    · exact absurd h0 hne
    rw [List.concat_eq_append] at h0
    subst h0
    have ha : GoodElem a := hg a (by rw [hes]; simp)
    have hesne : es ≠ [] := by rw [hes]; simp
    rw [splitCUEModAux_succ]
    by_cases has0 : as0 = []
    · subst has0
      simp only [List.nil_append, joinSlash]
      rw [pathSplit_single a ha.2.2.2]
      dsimp only
      have hf : equalFold U a sCueMod = true := by
        obtain ⟨x, hx, hxf⟩ := hex
        simp only [List.nil_append, List.mem_singleton] at hx
        subst hx; exact hxf
      rw [if_pos hf]
      simpa using Coll.joinSlash_ne_nil es hesne hg
    · have hg0 : GoodElems as0 := fun x hx => hg x (by rw [hes]; simp [hx])
      rw [Coll.joinSlash_concat as0 a has0, pathSplit_concat2 _ _ ha.2.2.2]
      dsimp only
      have hes' : es = as0 ++ a :: bs := by rw [hes]; simp
      by_cases hf : equalFold U a sCueMod = true
      · rw [if_pos hf]
        have hj : joinSlash es = (joinSlash as0 ++ [47]) ++ joinSlash (a :: bs) := by
          rw [hes', joinSlash_append as0 (a :: bs) has0 (by simp)]; simp
        rw [hj, List.drop_left' rfl]
        exact Coll.joinSlash_ne_nil (a :: bs) (by simp)
          (fun x hx => hg x (by rw [hes']; exact List.mem_append_right _ hx))
      · rw [if_neg hf, trimRightSlash_snoc _ (Coll.joinSlash_getLast as0 has0 hg0)]
        have hne0 : (joinSlash as0).isEmpty = false := by
          simpa using Coll.joinSlash_ne_nil as0 has0 hg0
        rw [hne0]
        simp only [Bool.false_eq_true, if_false]
        apply ih as0 (a :: bs) has0 hes'
        · simp only [List.length_append, List.length_cons, List.length_nil] at hlen
          omega
        · obtain ⟨x, hx, hxf⟩ := hex
          rcases List.mem_append.mp hx with hx | hx
          · exact ⟨x, hx, hxf⟩
          · simp only [List.mem_singleton] at hx
            subst hx
            exact absurd hxf hf

theorem splitCUEMod_rest_ne (U : Uni) (a : Str) (t : List Str) (hg : GoodElems (a :: t))
    (hf : equalFold U a sCueMod = true) : (splitCUEMod U (joinSlash (a :: t))).2 ≠ [] := by
  have hlen := Coll.length_le_joinSlash (a :: t) (fun e he => (hg e he).1)
  exact splitAux_rest_ne U (a :: t) hg _ (a :: t) [] (by simp) (by simp) (by omega)
    ⟨a, List.mem_cons_self, hf⟩

/-- "cue.mod/" ++ r folds to "cue.mod/module.cue" when r folds to "module.cue" -/
theorem equalFold_cueModSlash_conv (U : Uni) (r : Str)
    (h : equalFold U r sModuleCue = true) :
    equalFold U (sCueMod ++ 47 :: r) sCueModModule = true := by
  rw [equalFold_iff] at h ⊢
  have e : sCueModModule = sCueMod ++ 47 :: sModuleCue := by decide
  rw [e]
  simp only [sCueMod, List.cons_append, List.nil_append]
  repeat rw [foldKey_cons_ascii U _ _ (by decide)]
  rw [h]

theorem cueModSlash_prefix (a r : Str) (ha : 47 ∉ a)
    (h : sCueModSlash.isPrefixOf (a ++ 47 :: r) = true) : a = sCueMod := by
  obtain ⟨t, ht⟩ := List.isPrefixOf_iff_prefix.mp h
  have e : sCueModSlash ++ t = sCueMod ++ 47 :: t := by simp [sCueModSlash]
  rw [e] at ht
  have h1 := cutAt_concat sCueMod t (by decide)
  have h2 := cutAt_concat a r ha
  rw [ht, h2] at h1
  exact (Prod.mk.inj h1).1

/-! ### the cue.mod placement rules: zip ⇒ list -/

theorem cueModTopRule_nofold (U : Uni) (a : Str) (t : List Str) (hg : GoodElems (a :: t))
    (hf : ¬ equalFold U a sCueMod = true) : cueModTopRule U (joinSlash (a :: t)) = none := by
  have ha : GoodElem a := hg a List.mem_cons_self
  cases t with
  | nil =>
    have hj : joinSlash [a] = a := rfl
    rw [hj]
    unfold cueModTopRule
    rw [cutAt_single a ha.2.2.2]
    dsimp only
    rw [if_neg hf]
  | cons b t =>
    rw [Coll.joinSlash_cons_of_ne_nil a (b :: t) (by simp)]
    unfold cueModTopRule
    rw [cutAt_concat a _ ha.2.2.2]
    dsimp only
    rw [if_neg hf]

/-- A name that passes the cue.mod placement rules of CheckZip passes those of checkFiles; the
zip rule flags the module file exactly for "cue.mod/module.cue"; and `splitCUEMod` never
reports a nested module directory for it. -/
theorem cueModTopRule_of_zip (U : Uni) (p : Str) (b : Bool)
    (hp : checkFilePath U p = none) (hr : cueModZipRule U p = (none, b)) :
    cueModTopRule U p = none ∧ (b = true ↔ p = sCueModModule) ∧
    (∀ d r, splitCUEMod U p = (d, r) → r ≠ [] → d = []) := by
  have hmod : p = sCueModModule → b = true := by
    intro h; subst h
    rw [cueModZipRule_module] at hr
    exact ((Prod.mk.inj hr).2).symm
  obtain ⟨es, hnil, rfl, hg⟩ := Coll.checkFilePath_good U p hp
  obtain ⟨a, t, rfl⟩ : ∃ a t, es = a :: t := by
    cases es with
    | nil => exact absurd rfl hnil
    | cons a t => exact ⟨a, t, rfl⟩
  have ha : GoodElem a := hg a List.mem_cons_self
  rcases splitCUEMod_char U (a :: t) hnil hg with h1 | ⟨h2, a', t', hes, hfold⟩ |
      ⟨xs, ys, hx, hy, hes, h3⟩
  · -- no cue.mod element
    have hnf : ¬ equalFold U a sCueMod = true := by
      intro hf
      have := splitCUEMod_rest_ne U a t hg hf
      rw [h1] at this
      exact this rfl
    have hb : b = false := by
      unfold cueModZipRule at hr
      rw [h1] at hr
      simp at hr
      exact hr
    refine ⟨cueModTopRule_nofold U a t hg hnf, ⟨fun h => ?_, hmod⟩, ?_⟩
    · rw [hb] at h; cases h
    · intro d r hs hr'
      rw [h1] at hs
      exact absurd ((Prod.mk.inj hs).2).symm hr'
  · -- the first element is the last one that folds to cue.mod
    obtain ⟨rfl, rfl⟩ := List.cons.inj hes
    have hsplit : ∀ d r, splitCUEMod U (joinSlash (a :: t)) = (d, r) → r ≠ [] → d = [] := by
      intro d r hs _
      rw [h2] at hs
      exact ((Prod.mk.inj hs).1).symm
    unfold cueModZipRule at hr
    rw [h2] at hr
    dsimp only at hr
    have e1 : (joinSlash (a :: t)).isEmpty = false := by
      simpa using Coll.joinSlash_ne_nil (a :: t) hnil hg
    rw [e1] at hr
    simp only [Bool.false_eq_true, if_false, List.isEmpty_nil, Bool.not_true] at hr
    cases t with
    | nil =>
      exfalso
      have hj : joinSlash [a] = a := rfl
      rw [hj] at hr
      simp [ha.2.2.2] at hr
    | cons c t =>
      rw [Coll.joinSlash_cons_of_ne_nil a (c :: t) (by simp)] at hr hsplit hmod ⊢
      have hc : (a ++ 47 :: joinSlash (c :: t)).contains 47 = true := by simp
      rw [hc] at hr
      simp only [Bool.not_true, Bool.false_eq_true, if_false] at hr
      by_cases hpre : sCueModSlash.isPrefixOf (a ++ 47 :: joinSlash (c :: t)) = true
      · have hacm := cueModSlash_prefix a _ ha.2.2.2 hpre
        subst hacm
        rw [hpre] at hr
        simp only [Bool.not_true, Bool.false_eq_true, if_false] at hr
        by_cases hfm : equalFold U (sCueMod ++ 47 :: joinSlash (c :: t)) sCueModModule = true
        · rw [if_pos hfm] at hr
          by_cases heq : sCueMod ++ 47 :: joinSlash (c :: t) = sCueModModule
          · refine ⟨?_, ⟨fun _ => heq, hmod⟩, hsplit⟩
            rw [heq]; rfl
          · rw [if_pos heq] at hr
            cases hr
        · rw [if_neg hfm] at hr
          have hb : b = false := ((Prod.mk.inj hr).2).symm
          refine ⟨?_, ⟨fun h => (by rw [hb] at h; cases h), hmod⟩, hsplit⟩
          unfold cueModTopRule
          rw [cutAt_concat sCueMod _ (by decide)]
          dsimp only
          rw [if_pos hfold, if_neg (fun h => h rfl)]
          have : equalFold U (joinSlash (c :: t)) sModuleCue = false := by
            cases hq : equalFold U (joinSlash (c :: t)) sModuleCue with
            | false => rfl
            | true => exact absurd (equalFold_cueModSlash_conv U _ hq) hfm
          rw [this]
          simp
      · exfalso
        have : sCueModSlash.isPrefixOf (a ++ 47 :: joinSlash (c :: t)) = false :=
          Bool.eq_false_iff.mpr hpre
        simp [this] at hr
  · -- a later element folds to cue.mod: CheckZip rejects
    exfalso
    have hgy : GoodElems ys := fun e he => hg e (by rw [hes]; exact List.mem_append_right _ he)
    unfold cueModZipRule at hr
    rw [h3] at hr
    dsimp only at hr
    have e1 : (joinSlash ys).isEmpty = false := by
      simpa using Coll.joinSlash_ne_nil ys hy hgy
    rw [e1] at hr
    simp at hr

/-! ### `inSubmodule` with no nested module directory -/

theorem inSubmoduleAux_false (hv : List Str) (hhv : ∀ d ∈ hv, d = []) (fuel : Nat) (p : Str) :
    inSubmoduleAux hv fuel p = false := by
  induction fuel generalizing p with
  | zero => rfl
  | succ fuel ih =>
    rw [inSubmoduleAux_succ]
    by_cases h1 : (pathSplit p).1.isEmpty = true
    · rw [if_pos h1]
    · rw [if_neg h1]
      have : hv.contains (pathSplit p).1 = false := by
        cases hc : hv.contains (pathSplit p).1 with
        | false => rfl
        | true =>
          exfalso
          have hm : (pathSplit p).1 ∈ hv := by simpa using hc
          rw [hhv _ hm] at h1
          exact h1 rfl
      rw [this]
      simp only [Bool.false_eq_true, if_false]
      exact ih _

theorem inSubmodule_false (hv : List Str) (hhv : ∀ d ∈ hv, d = []) (p : Str) :
    inSubmodule hv p = false := inSubmoduleAux_false hv hhv _ p

/-! ### frames of `czTail`, the good case of `cfTail` -/

theorem czSize_frame2 (st : CZState) (sz : Int) :
    (czSize st sz).modFile = st.modFile ∧ (czSize st sz).cc = st.cc := by
  unfold czSize; split <;> exact ⟨rfl, rfl⟩

theorem czTail_frame2 (st : CZState) (e : ZEnt) :
    (czTail st e).modFile = st.modFile ∧ (czTail st e).cc = st.cc := by
  obtain ⟨a, b⟩ := czSize_frame2 st (toInt64 e.declared)
  unfold czTail
  dsimp only
  split
  · exact ⟨rfl, rfl⟩
  · split
    · exact ⟨a, b⟩
    · split
      · exact ⟨a, b⟩
      · exact ⟨a, b⟩

theorem cfTail_good (st : CFState) (f : FEnt) (h0 : 0 ≤ f.size) (hfit : f.size ≤ st.maxSize)
    (hm : f.path = sCueModModule → f.size ≤ (maxCUEMod : Int))
    (hl : f.path = sLICENSE → f.size ≤ (maxLICENSE : Int)) :
    (cfTail st f).cf.invalid = st.cf.invalid ∧ (cfTail st f).cf.omitted = st.cf.omitted ∧
    (cfTail st f).cf.sizeError = st.cf.sizeError ∧ (cfTail st f).cc = st.cc ∧
    (cfTail st f).maxSize = st.maxSize - f.size ∧
    (cfTail st f).cf.valid = st.cf.valid ++ [f.path] ∧
    (cfTail st f).validEnts = st.validEnts ++ [f] ∧
    (cfTail st f).found = (st.found || decide (f.path = sCueModModule)) := by
  unfold cfTail
  dsimp only
  have n1 : ¬ (f.path = sCueModModule ∧ f.size > (maxCUEMod : Int)) := by
    rintro ⟨a, b⟩; have := hm a; omega
  have n2 : ¬ (f.path = sLICENSE ∧ f.size > (maxLICENSE : Int)) := by
    rintro ⟨a, b⟩; have := hl a; omega
  rw [if_neg n1, if_neg n2]
  unfold cfFound cfSize
  have hc : 0 ≤ f.size ∧ f.size ≤ st.maxSize := ⟨h0, hfit⟩
  by_cases hp : f.path = sCueModModule
  · simp [hp, hc]
  · simp [hp, hc]

/-! ### the simulation -/

/-- the list entry CheckFiles sees for a (file) entry of an archive -/
def zipFEnt (e : ZEnt) : FEnt := ⟨e.name, .regular, (e.declared : Int)⟩

/-- the hypotheses on an entry: not a directory entry, a size that is non-negative as an
int64, not vendored, not `.hg_archival.txt` -/
def PlainEnt (e : ZEnt) : Prop :=
  isDirName e.name = false ∧ e.declared < 2 ^ 63 ∧
  isVendoredPackage e.name = false ∧ e.name ≠ sHgArchival

structure Rel2 (cf : CFState) (cz : CZState) : Prop where
  ok : cz.ok
  inv : cf.cf.invalid = []
  om : cf.cf.omitted = []
  se : cf.cf.sizeError = false
  cc : cf.cc = cz.cc
  ms : cf.maxSize = (maxZipFile : Int) - cz.size
  valid : cf.cf.valid = cz.cf.valid
  found : cf.found = cz.modFile

theorem Rel2.init : Rel2 {} {} :=
  ⟨⟨rfl, rfl⟩, rfl, rfl, rfl, rfl, by simp, rfl, rfl⟩

/-- what a CheckZip step without error has established about the name (beyond `CZStepOk`) -/
theorem czStep_ok_rule (U : Uni) (st : CZState) (e : ZEnt) (h : (czStep U st e).ok) :
    pathClean (entName e) = entName e ∧ checkFilePath U (entName e) = none ∧
    entName e ≠ sLocalModule ∧
    ∃ cc' b, ccCheckTop U st.cc (entName e) (isDirName e.name) = (cc', none) ∧
      cueModZipRule U (entName e) = (none, b) ∧
      czStep U st e = czTail (czMod { st with cc := cc' } b) e := by
  rw [czStep_eq] at h ⊢
  by_cases h1 : pathClean (entName e) ≠ entName e
  · rw [if_pos h1] at h; exact absurd h (CZState.addError_not_ok _ _ _)
  rw [if_neg h1] at h ⊢
  cases h2 : checkFilePath U (entName e) with
  | some err => rw [h2] at h; exact absurd h (CZState.addError_not_ok _ _ _)
  | none =>
  rw [h2] at h
  dsimp only at h ⊢
  by_cases h3 : entName e = sLocalModule
  · rw [if_pos h3] at h; exact absurd h (CZState.addError_not_ok _ _ _)
  rw [if_neg h3] at h ⊢
  rcases h4 : ccCheckTop U st.cc (entName e) (isDirName e.name) with ⟨cc', _ | w⟩
  · rw [h4] at h
    dsimp only at h ⊢
    rcases h5 : cueModZipRule U (entName e) with ⟨_ | w, b⟩
    · rw [h5] at h
      dsimp only at h ⊢
      exact ⟨Decidable.not_not.mp h1, rfl, h3, cc', b, rfl, rfl, rfl⟩
    · rw [h5] at h; exact absurd h (CZState.addError_not_ok _ _ _)
  · rw [h4] at h; exact absurd h (CZState.addError_not_ok _ _ _)

theorem step_rel2 (U : Uni) (hv : List Str) (hhv : ∀ d ∈ hv, d = []) (cf : CFState)
    (cz : CZState) (e : ZEnt) (hpl : PlainEnt e) (hrel : Rel2 cf cz)
    (hok : (czStep U cz e).ok) :
    Rel2 (cfStep U hv cf (zipFEnt e)) (czStep U cz e) := by
  obtain ⟨hd, h63, hven, hhg⟩ := hpl
  have hent : entName e = e.name := by unfold entName; rw [hd]; rfl
  obtain ⟨hclean, hpath, hloc, cc', b, hcc, hrule, hstep⟩ := czStep_ok_rule U cz e hok
  rw [hent] at hclean hpath hloc hcc hrule
  rw [hd] at hcc
  obtain ⟨htop, hbmod, hsp⟩ := cueModTopRule_of_zip U e.name b hpath hrule
  have habs := (checkFilePath_clean U e.name hpath).2.1
  -- the list side reaches cfTail
  have hcf : cfStep U hv cf (zipFEnt e) = cfTail { cf with cc := cc' } (zipFEnt e) := by
    rw [cfStep_eq]
    have k1 : ¬ ((zipFEnt e).kind = FKind.lstatErr) := by simp [zipFEnt]
    have k2 : ¬ ((zipFEnt e).kind = FKind.dir) := by simp [zipFEnt]
    have k3 : ¬ ((zipFEnt e).kind = FKind.symlink) := by simp [zipFEnt]
    have k4 : ¬ ((zipFEnt e).kind ≠ FKind.regular) := by simp [zipFEnt]
    have hpth : (zipFEnt e).path = e.name := rfl
    rw [if_neg k1, if_neg k2, hpth, if_neg (fun h => h hclean.symm)]
    rw [habs, hven, inSubmodule_false hv hhv]
    simp only [Bool.false_eq_true, if_false]
    rw [if_neg hhg, if_neg hloc, hpath]
    dsimp only
    rw [htop]
    dsimp only
    rw [hrel.cc, hcc]
    dsimp only
    rw [if_neg k3, if_neg k4]
  rw [hcf, hstep]
  rw [hstep] at hok
  have t := czTail_ok _ e hok
  obtain ⟨m1, m2⟩ := czMod_frame { cz with cc := cc' } b
  obtain ⟨f1, f2⟩ := czTail_frame2 (czMod { cz with cc := cc' } b) e
  obtain ⟨g0, g1, g2, g3, g4, g5⟩ := t.fileCase hd
  have h64 : toInt64 e.declared = (e.declared : Int) := toInt64_of_lt (by
    have : (2:Nat) ^ 63 = 9223372036854775808 := by decide
    omega)
  rw [h64] at g0 g1 g2 g4 g5
  rw [m2] at g1 g2
  rw [m1] at g3
  have hsz : (zipFEnt e).size = (e.declared : Int) := rfl
  have hpth : (zipFEnt e).path = e.name := rfl
  have hfit : (zipFEnt e).size ≤ ({ cf with cc := cc' } : CFState).maxSize := by
    show (e.declared : Int) ≤ cf.maxSize
    rw [hrel.ms]
    have : ({ cz with cc := cc' } : CZState).size = cz.size := rfl
    rw [this] at g2
    omega
  obtain ⟨c1, c2, c3, c4, c5, c6, -, c8⟩ := cfTail_good { cf with cc := cc' } (zipFEnt e)
    (by rw [hsz]; exact g0) hfit (by rw [hpth, hsz]; exact g4) (by rw [hpth, hsz]; exact g5)
  refine ⟨hok, ?_, ?_, ?_, ?_, ?_, ?_, ?_⟩
  · rw [c1]; exact hrel.inv
  · rw [c2]; exact hrel.om
  · rw [c3]; exact hrel.se
  · rw [c4, f2]; unfold czMod; split <;> rfl
  · rw [c5, g1, hsz]
    show cf.maxSize - _ = _
    rw [hrel.ms]
    have : ({ cz with cc := cc' } : CZState).size = cz.size := rfl
    rw [this]
    omega
  · rw [c6, g3, hpth]
    show cf.cf.valid ++ _ = cz.cf.valid ++ _
    rw [hrel.valid]
  · rw [c8, f1, hpth]
    show (cf.found || _) = _
    rw [hrel.found]
    unfold czMod
    by_cases hb : b = true
    · have := hbmod.mp hb
      subst hb
      simp [this]
    · have hb' : b = false := by simpa using hb
      have hne : e.name ≠ sCueModModule := fun h => hb (hbmod.mpr h)
      subst hb'
      simp [hne]

theorem fold_rel2 (U : Uni) (hv : List Str) (hhv : ∀ d ∈ hv, d = []) (z : List ZEnt) :
    ∀ (cf : CFState) (cz : CZState), (∀ e ∈ z, PlainEnt e) → Rel2 cf cz →
    (z.foldl (czStep U) cz).ok →
    Rel2 ((z.map zipFEnt).foldl (cfStep U hv) cf) (z.foldl (czStep U) cz) := by
  induction z with
  | nil => intro cf cz _ hrel _; exact hrel
  | cons e es ih =>
    intro cf cz hpl hrel hok
    rw [List.foldl_cons] at hok
    rw [List.map_cons, List.foldl_cons, List.foldl_cons]
    have hok1 := (czFold_ok U es _ hok).1
    exact ih _ _ (fun x hx => hpl x (List.mem_cons_of_mem _ hx))
      (step_rel2 U hv hhv cf cz e (hpl e List.mem_cons_self) hrel hok1) hok

/-- per-entry: the name rules every entry of an accepted archive satisfies -/
theorem czFold_rule (U : Uni) (z : List ZEnt) (st : CZState)
    (h : (z.foldl (czStep U) st).ok) :
    ∀ e ∈ z, checkFilePath U (entName e) = none ∧ ∃ b, cueModZipRule U (entName e) = (none, b) := by
  induction z generalizing st with
  | nil => intro e he; cases he
  | cons x xs ih =>
    rw [List.foldl_cons] at h
    intro e he
    rcases List.mem_cons.mp he with rfl | he
    · obtain ⟨_, hp, _, _, b, _, hr, _⟩ := czStep_ok_rule U st e (czFold_ok U xs _ h).1
      exact ⟨hp, b, hr⟩
    · exact ih _ h e he

theorem haveCUEMod_zip (U : Uni) (z : List ZEnt) (hpl : ∀ e ∈ z, PlainEnt e)
    (h : (checkZipState U z).ok) : ∀ d ∈ haveCUEMod U (z.map zipFEnt), d = [] := by
  intro d hd
  unfold haveCUEMod at hd
  obtain ⟨f, hf, hfd⟩ := List.mem_filterMap.mp hd
  obtain ⟨e, he, rfl⟩ := List.mem_map.mp hf
  have hent : entName e = e.name := by unfold entName; rw [(hpl e he).1]; rfl
  obtain ⟨hp, b, hr⟩ := czFold_rule U z {} h e he
  rw [hent] at hp hr
  obtain ⟨-, -, hsp⟩ := cueModTopRule_of_zip U e.name b hp hr
  have hpth : (zipFEnt e).path = e.name := rfl
  rw [hpth] at hfd
  rcases hs : splitCUEMod U e.name with ⟨dir, rest⟩
  rw [hs] at hfd
  dsimp only at hfd
  by_cases hre : rest.isEmpty = true
  · rw [if_pos hre] at hfd; cases hfd
  · rw [if_neg hre] at hfd
    cases hfd
    exact hsp _ _ hs (by simpa using hre)

/-- **zip-accepted ⇒ list-accepted.**  An archive that CheckZip accepts and that has no
directory entries, vendored names or `.hg_archival.txt` is accepted by the file-list check as
a list of regular files of the declared sizes: no error, the same valid names in the same
order, nothing omitted and nothing invalid. -/
theorem checkZip_to_checkFiles (U : Uni) (zipSize : Nat) (z : List ZEnt)
    (h : (checkZip U zipSize z).isErr = false) (hpl : ∀ e ∈ z, PlainEnt e) :
    (checkFiles U (z.map zipFEnt)).1.isErr = false ∧
    (checkFiles U (z.map zipFEnt)).1.valid = (checkZip U zipSize z).valid ∧
    (checkFiles U (z.map zipFEnt)).1.valid = z.map (·.name) ∧
    (checkFiles U (z.map zipFEnt)).1.omitted = [] ∧
    (checkFiles U (z.map zipFEnt)).1.invalid = [] := by
  obtain ⟨_, hok, hmod, hvalid⟩ := checkZip_noErr U zipSize z h
  have hhv := haveCUEMod_zip U z hpl hok
  have hrel := fold_rel2 U _ hhv z {} {} hpl Rel2.init hok
  have hnames : (checkZipState U z).cf.valid = z.map (·.name) := by
    have := (czFold_ok U z {} hok).2.2.2.2
    rw [show checkZipState U z = z.foldl (czStep U) {} from rfl, this]
    simp only [fileNames, List.nil_append]
    show ([] : List Str) ++ _ = _
    rw [List.nil_append]
    congr 1
    apply List.filter_eq_self.mpr
    intro e he
    simp [(hpl e he).1]
  have hfv : (checkFiles U (z.map zipFEnt)).1.valid = (checkZipState U z).cf.valid := by
    show (checkFilesState U (z.map zipFEnt)).cf.valid = _
    exact hrel.valid
  refine ⟨?_, ?_, ?_, ?_, ?_⟩
  · show Checked.isErr { (checkFilesState U (z.map zipFEnt)).cf with
        noMod := !(checkFilesState U (z.map zipFEnt)).found } = false
    have hf : (checkFilesState U (z.map zipFEnt)).found = true := by
      have := hrel.found
      rw [show (z.foldl (czStep U) {}) = checkZipState U z from rfl, hmod] at this
      exact this
    have hi : (checkFilesState U (z.map zipFEnt)).cf.invalid = [] := hrel.inv
    have hs : (checkFilesState U (z.map zipFEnt)).cf.sizeError = false := hrel.se
    simp [Checked.isErr, hf, hi, hs]
  · rw [hfv, hvalid]
  · rw [hfv, hnames]
  · exact hrel.om
  · exact hrel.inv

end CueVerif.Modzip
