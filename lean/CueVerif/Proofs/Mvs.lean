import CueVerif.Spec.Mvs
/-!
Proofs about the concurrent MVS traversal model: `Inv` holds in every state of every run,
and at terminal states `added` is exactly the reachable set and `sel` is the per-path
maximum of the reachable versions — independently of the schedule.
-/
namespace CueVerif.Mvs

/-! ### bump / bumpAll -/

theorem le_bump (sel : Nat → Nat) (d : Node) (p : Nat) : sel p ≤ bump sel d p := by
  unfold bump
  split
  · split <;> omega
  · omega

theorem bump_self_ge (sel : Nat → Nat) (p v : Nat) : v ≤ bump sel (p, v) p := by
  unfold bump
  simp only [if_true]
  split <;> omega

theorem bump_cases (sel : Nat → Nat) (d : Node) (p : Nat) :
    bump sel d p = sel p ∨ (p, bump sel d p) = d := by
  unfold bump
  split
  · rename_i h
    split
    · right; subst h; rfl
    · left; rfl
  · left; rfl

theorem bumpAll_cons (sel : Nat → Nat) (d : Node) (ds : List Node) :
    bumpAll sel (d :: ds) = bumpAll (bump sel d) ds := rfl

theorem le_bumpAll (sel : Nat → Nat) (ds : List Node) (p : Nat) : sel p ≤ bumpAll sel ds p := by
  induction ds generalizing sel with
  | nil => exact Nat.le_refl _
  | cons d ds ih =>
    rw [bumpAll_cons]
    exact Nat.le_trans (le_bump sel d p) (ih (bump sel d))

theorem mem_le_bumpAll (sel : Nat → Nat) (ds : List Node) (p v : Nat) (h : (p, v) ∈ ds) :
    v ≤ bumpAll sel ds p := by
  induction ds generalizing sel with
  | nil => cases h
  | cons d ds ih =>
    rw [bumpAll_cons]
    rcases List.mem_cons.mp h with h | h
    · subst h
      exact Nat.le_trans (bump_self_ge sel p v) (le_bumpAll _ ds p)
    · exact ih _ h

theorem bumpAll_cases (sel : Nat → Nat) (ds : List Node) (p : Nat) :
    bumpAll sel ds p = sel p ∨ (p, bumpAll sel ds p) ∈ ds := by
  induction ds generalizing sel with
  | nil => left; rfl
  | cons d ds ih =>
    rw [bumpAll_cons]
    rcases ih (bump sel d) with h | h
    · rcases bump_cases sel d p with h' | h'
      · left; rw [h, h']
      · right; rw [h, h']; exact List.mem_cons_self
    · right; exact List.mem_cons_of_mem _ h

/-! ### eraseDups -/

theorem nodup_eraseDups_aux : ∀ (n : Nat) (l : List Node), l.length ≤ n → l.eraseDups.Nodup
  | _, [], _ => by simp
  | 0, _ :: _, h => by simp at h
  | n + 1, a :: as, h => by
    rw [List.eraseDups_cons, List.nodup_cons]
    refine ⟨?_, nodup_eraseDups_aux n _ ?_⟩
    · simp [List.mem_eraseDups, List.mem_filter]
    · have := List.length_filter_le (fun b => !b == a) as
      simp only [List.length_cons] at h
      omega

theorem nodup_eraseDups (l : List Node) : l.eraseDups.Nodup :=
  nodup_eraseDups_aux l.length l (Nat.le_refl _)

/-! ### Marked -/

theorem Marked.mono {g : Graph} {roots : List Node} {s t : St}
    (h : ∀ m, m ∈ s.required → m ∈ t.required) {n : Node} (hm : Marked g roots s n) :
    Marked g roots t n := by
  rcases hm with hm | ⟨m, hm, hn⟩
  · exact Or.inl hm
  · exact Or.inr ⟨m, h m hm, hn⟩

/-! ### the invariant holds initially -/

theorem inv_init (g : Graph) (roots : List Node) : Inv g roots (init roots) where
  nodup_required := List.nodup_nil
  nodup_work := by
    simp only [init, List.append_nil]
    exact nodup_eraseDups roots
  added_cases := by
    intro n
    simp [init]
  added_reach := by
    intro n hn
    simp only [init, List.mem_eraseDups] at hn
    exact Reach.root hn
  added_marked := by
    intro n hn
    simp only [init, List.mem_eraseDups] at hn
    exact Or.inl hn
  roots_added := by
    intro n hn
    simp only [init, List.mem_eraseDups]
    exact hn
  adding_ok := by
    intro e he
    simp [init] at he
  closed := by
    intro m hm
    simp [init] at hm
  sel_ub := by
    intro p v hm
    rcases hm with hm | ⟨m, hm, _⟩
    · exact mem_le_bumpAll _ roots p v hm
    · simp [init] at hm
  sel_att := by
    intro p
    rcases bumpAll_cases (fun _ => 0) roots p with h | h
    · left; exact h
    · right; exact Or.inl h

/-! ### preservation, one lemma per constructor -/

theorem inv_take (g : Graph) (roots : List Node) (s : St) (m : Node) (h : m ∈ s.todo)
    (hi : Inv g roots s) :
    Inv g roots { s with todo := s.todo.erase m, fetched := m :: s.fetched } := by
  obtain ⟨h1, h2, h3, h4, h5, h6, h7, h8, h9, h10⟩ := hi
  have hnd : s.todo.Nodup ∧ s.fetched.Nodup ∧ s.required.Nodup ∧
      (∀ a ∈ s.todo, a ∉ s.fetched ∧ a ∉ s.required) ∧ (∀ a ∈ s.fetched, a ∉ s.required) := by
    simp only [List.nodup_append, List.mem_append] at h2
    grind
  obtain ⟨n1, n2, n3, n4, n5⟩ := hnd
  have hme : ∀ a, a ∈ s.todo.erase m ↔ a ≠ m ∧ a ∈ s.todo := fun a => n1.mem_erase_iff
  refine ⟨h1, ?_, ?_, h4, ?_, h6, h7, h8, ?_, ?_⟩
  · show (s.todo.erase m ++ m :: s.fetched ++ s.required).Nodup
    have := n1.erase m
    simp only [List.nodup_append, List.mem_append, List.nodup_cons, List.mem_cons]
    grind
  · intro n
    show n ∈ s.added ↔ n ∈ s.todo.erase m ∨ n ∈ m :: s.fetched ∨ n ∈ s.required
    rw [h3 n, hme, List.mem_cons]
    grind
  · intro n hn
    exact Marked.mono (s := s) (fun _ h => h) (h5 n hn)
  · intro p v hm
    exact h9 p v (Marked.mono (t := s) (fun _ h => h) hm)
  · intro p
    rcases h10 p with h | h
    · exact Or.inl h
    · exact Or.inr (Marked.mono (s := s) (fun _ h => h) h)

theorem inv_require (g : Graph) (roots : List Node) (s : St) (m : Node) (h : m ∈ s.fetched)
    (hi : Inv g roots s) :
    Inv g roots { s with fetched := s.fetched.erase m, required := m :: s.required,
                         sel := bumpAll s.sel (g m), adding := (m, g m) :: s.adding } := by
  obtain ⟨h1, h2, h3, h4, h5, h6, h7, h8, h9, h10⟩ := hi
  have hnd : s.todo.Nodup ∧ s.fetched.Nodup ∧ s.required.Nodup ∧
      (∀ a ∈ s.todo, a ∉ s.fetched ∧ a ∉ s.required) ∧ (∀ a ∈ s.fetched, a ∉ s.required) := by
    simp only [List.nodup_append, List.mem_append] at h2
    grind
  obtain ⟨n1, n2, n3, n4, n5⟩ := hnd
  have hme : ∀ a, a ∈ s.fetched.erase m ↔ a ≠ m ∧ a ∈ s.fetched := fun a => n2.mem_erase_iff
  have hmono : ∀ n, Marked g roots s n → Marked g roots
      { s with fetched := s.fetched.erase m, required := m :: s.required,
               sel := bumpAll s.sel (g m), adding := (m, g m) :: s.adding } n :=
    fun n hn => Marked.mono (s := s) (fun _ h => List.mem_cons_of_mem _ h) hn
  refine ⟨?_, ?_, ?_, h4, ?_, h6, ?_, ?_, ?_, ?_⟩
  · show (m :: s.required).Nodup
    exact List.nodup_cons.mpr ⟨n5 m h, n3⟩
  · show (s.todo ++ s.fetched.erase m ++ m :: s.required).Nodup
    have := n2.erase m
    simp only [List.nodup_append, List.mem_append, List.nodup_cons, List.mem_cons]
    grind
  · intro n
    show n ∈ s.added ↔ n ∈ s.todo ∨ n ∈ s.fetched.erase m ∨ n ∈ m :: s.required
    rw [h3 n, hme, List.mem_cons]
    grind
  · intro n hn
    exact hmono n (h5 n hn)
  · intro e he
    show e.1 ∈ m :: s.required ∧ ∃ pre, g e.1 = pre ++ e.2
    rcases List.mem_cons.mp he with he | he
    · subst he
      exact ⟨List.mem_cons_self, [], rfl⟩
    · exact ⟨List.mem_cons_of_mem _ (h7 e he).1, (h7 e he).2⟩
  · intro m' hm' n hn
    show n ∈ s.added ∨ ∃ e ∈ (m, g m) :: s.adding, n ∈ e.2
    rcases List.mem_cons.mp hm' with hm' | hm'
    · subst hm'
      exact Or.inr ⟨(m', g m'), List.mem_cons_self, hn⟩
    · rcases h8 m' hm' n hn with h | ⟨e, he, hne⟩
      · exact Or.inl h
      · exact Or.inr ⟨e, List.mem_cons_of_mem _ he, hne⟩
  · intro p v hm
    show v ≤ bumpAll s.sel (g m) p
    rcases hm with hm | ⟨m', hm', hn⟩
    · exact Nat.le_trans (h9 p v (Or.inl hm)) (le_bumpAll _ _ _)
    · rcases List.mem_cons.mp hm' with hm' | hm'
      · subst hm'
        exact mem_le_bumpAll _ _ _ _ hn
      · exact Nat.le_trans (h9 p v (Or.inr ⟨m', hm', hn⟩)) (le_bumpAll _ _ _)
  · intro p
    show bumpAll s.sel (g m) p = 0 ∨ Marked g roots _ (p, bumpAll s.sel (g m) p)
    rcases bumpAll_cases s.sel (g m) p with hb | hb
    · rw [hb]
      rcases h10 p with h | h
      · exact Or.inl h
      · exact Or.inr (hmono _ h)
    · exact Or.inr (Or.inr ⟨m, List.mem_cons_self, hb⟩)

/-- facts about the entry a runner is working on -/
theorem entry_facts {g : Graph} {roots : List Node} {s : St} (hi : Inv g roots s)
    {m r : Node} {rs : List Node} (h : (m, r :: rs) ∈ s.adding) :
    m ∈ s.required ∧ r ∈ g m ∧ Reach g roots r ∧ Marked g roots s r ∧
      ∃ pre, g m = pre ++ rs := by
  obtain ⟨hm, pre, hpre⟩ := hi.adding_ok _ h
  have hm : m ∈ s.required := hm
  have hpre : g m = pre ++ r :: rs := hpre
  have hr : r ∈ g m := by rw [hpre]; simp
  have hma : m ∈ s.added := (hi.added_cases m).mpr (Or.inr (Or.inr hm))
  refine ⟨hm, hr, Reach.dep (hi.added_reach m hma) hr, Or.inr ⟨m, hm, hr⟩, pre ++ [r], ?_⟩
  rw [hpre]; simp

theorem adding_ok_advance {g : Graph} {roots : List Node} {s : St} (hi : Inv g roots s)
    {m r : Node} {rs : List Node} (h : (m, r :: rs) ∈ s.adding) :
    ∀ e ∈ (m, rs) :: s.adding.erase (m, r :: rs), e.1 ∈ s.required ∧ ∃ pre, g e.1 = pre ++ e.2 := by
  intro e he
  rcases List.mem_cons.mp he with he | he
  · subst he
    obtain ⟨hm, _, _, _, hpre⟩ := entry_facts hi h
    exact ⟨hm, hpre⟩
  · exact hi.adding_ok e (List.mem_of_mem_erase he)

theorem closed_advance {g : Graph} {roots : List Node} {s : St} (hi : Inv g roots s)
    {m r : Node} {rs : List Node} (added' : List Node)
    (hsub : ∀ n, n ∈ s.added → n ∈ added') (hr : r ∈ added') :
    ∀ m' ∈ s.required, ∀ n ∈ g m',
      n ∈ added' ∨ ∃ e ∈ (m, rs) :: s.adding.erase (m, r :: rs), n ∈ e.2 := by
  intro m' hm' n hn
  rcases hi.closed m' hm' n hn with h | ⟨e, he, hne⟩
  · exact Or.inl (hsub n h)
  · by_cases hee : e = (m, r :: rs)
    · subst hee
      rcases List.mem_cons.mp hne with hne | hne
      · subst hne
        exact Or.inl hr
      · exact Or.inr ⟨(m, rs), List.mem_cons_self, hne⟩
    · exact Or.inr ⟨e, List.mem_cons_of_mem _ ((List.mem_erase_of_ne hee).mpr he), hne⟩

theorem inv_addNew (g : Graph) (roots : List Node) (s : St) (m r : Node) (rs : List Node)
    (h : (m, r :: rs) ∈ s.adding) (hn : r ∉ s.added) (hi : Inv g roots s) :
    Inv g roots { s with adding := (m, rs) :: s.adding.erase (m, r :: rs),
                         added := r :: s.added, todo := r :: s.todo } := by
  obtain ⟨hm, hrg, hreach, hmark, _⟩ := entry_facts hi h
  have hao := adding_ok_advance hi h
  have hcl := closed_advance (m := m) (r := r) (rs := rs) hi (r :: s.added)
    (fun n hn => List.mem_cons_of_mem _ hn) List.mem_cons_self
  obtain ⟨h1, h2, h3, h4, h5, h6, h7, h8, h9, h10⟩ := hi
  have hr3 : r ∉ s.todo ∧ r ∉ s.fetched ∧ r ∉ s.required := by
    have := h3 r
    grind
  refine ⟨h1, ?_, ?_, ?_, ?_, ?_, hao, hcl, ?_, ?_⟩
  · show (r :: s.todo ++ s.fetched ++ s.required).Nodup
    simp only [List.cons_append, List.nodup_cons, List.mem_append]
    exact ⟨by grind, h2⟩
  · intro n
    show n ∈ r :: s.added ↔ n ∈ r :: s.todo ∨ n ∈ s.fetched ∨ n ∈ s.required
    rw [List.mem_cons, List.mem_cons, h3 n]
    grind
  · intro n hn'
    rcases List.mem_cons.mp hn' with hn' | hn'
    · subst hn'; exact hreach
    · exact h4 n hn'
  · intro n hn'
    rcases List.mem_cons.mp hn' with hn' | hn'
    · subst hn'; exact Marked.mono (s := s) (fun _ h => h) hmark
    · exact Marked.mono (s := s) (fun _ h => h) (h5 n hn')
  · intro n hn'
    exact List.mem_cons_of_mem _ (h6 n hn')
  · intro p v hm
    exact h9 p v (Marked.mono (t := s) (fun _ h => h) hm)
  · intro p
    rcases h10 p with h | h
    · exact Or.inl h
    · exact Or.inr (Marked.mono (s := s) (fun _ h => h) h)

theorem inv_addOld (g : Graph) (roots : List Node) (s : St) (m r : Node) (rs : List Node)
    (h : (m, r :: rs) ∈ s.adding) (hn : r ∈ s.added) (hi : Inv g roots s) :
    Inv g roots { s with adding := (m, rs) :: s.adding.erase (m, r :: rs) } := by
  have hao := adding_ok_advance hi h
  have hcl := closed_advance (m := m) (r := r) (rs := rs) hi s.added (fun n hn => hn) hn
  obtain ⟨h1, h2, h3, h4, h5, h6, h7, h8, h9, h10⟩ := hi
  refine ⟨h1, h2, h3, h4, ?_, h6, hao, hcl, ?_, ?_⟩
  · intro n hn'
    exact Marked.mono (s := s) (fun _ h => h) (h5 n hn')
  · intro p v hm
    exact h9 p v (Marked.mono (t := s) (fun _ h => h) hm)
  · intro p
    rcases h10 p with h | h
    · exact Or.inl h
    · exact Or.inr (Marked.mono (s := s) (fun _ h => h) h)

theorem inv_finish (g : Graph) (roots : List Node) (s : St) (m : Node)
    (_h : (m, []) ∈ s.adding) (hi : Inv g roots s) :
    Inv g roots { s with adding := s.adding.erase (m, []) } := by
  obtain ⟨h1, h2, h3, h4, h5, h6, h7, h8, h9, h10⟩ := hi
  refine ⟨h1, h2, h3, h4, ?_, h6, ?_, ?_, ?_, ?_⟩
  · intro n hn'
    exact Marked.mono (s := s) (fun _ h => h) (h5 n hn')
  · intro e he
    exact h7 e (List.mem_of_mem_erase he)
  · intro m' hm' n hn
    show n ∈ s.added ∨ ∃ e ∈ s.adding.erase (m, []), n ∈ e.2
    rcases h8 m' hm' n hn with h | ⟨e, he, hne⟩
    · exact Or.inl h
    · have hee : e ≠ (m, []) := by
        intro hee
        subst hee
        cases hne
      exact Or.inr ⟨e, (List.mem_erase_of_ne hee).mpr he, hne⟩
  · intro p v hm
    exact h9 p v (Marked.mono (t := s) (fun _ h => h) hm)
  · intro p
    rcases h10 p with h | h
    · exact Or.inl h
    · exact Or.inr (Marked.mono (s := s) (fun _ h => h) h)

theorem inv_step (g : Graph) (roots : List Node) (s t : St) (hs : Step g s t)
    (hi : Inv g roots s) : Inv g roots t := by
  cases hs with
  | take m h => exact inv_take g roots s m h hi
  | require m h => exact inv_require g roots s m h hi
  | addNew m r rs h hn => exact inv_addNew g roots s m r rs h hn hi
  | addOld m r rs h hn => exact inv_addOld g roots s m r rs h hn hi
  | finish m h => exact inv_finish g roots s m h hi

/-! ### main theorems -/

theorem run_inv (g : Graph) (roots : List Node) (s : St) (h : Run g roots s) : Inv g roots s := by
  induction h with
  | init => exact inv_init g roots
  | step _ hstep ih => exact inv_step g roots _ _ hstep ih

theorem terminal_added (g : Graph) (roots : List Node) (s : St) (h : Run g roots s)
    (ht : Terminal s) : ∀ n, n ∈ s.added ↔ Reach g roots n := by
  have hi := run_inv g roots s h
  obtain ⟨ht1, ht2, ht3⟩ := ht
  intro n
  constructor
  · exact hi.added_reach n
  · intro hr
    induction hr with
    | root hn => exact hi.roots_added _ hn
    | @dep m n _ hn ih =>
      have hm : m ∈ s.required := by
        have := (hi.added_cases m).mp ih
        rw [ht1, ht2] at this
        simpa using this
      rcases hi.closed m hm n hn with h | ⟨e, he, _⟩
      · exact h
      · rw [ht3] at he
        cases he

theorem terminal_marked (g : Graph) (roots : List Node) (s : St) (h : Run g roots s)
    (ht : Terminal s) (n : Node) : Marked g roots s n ↔ Reach g roots n := by
  have hi := run_inv g roots s h
  constructor
  · intro hm
    rcases hm with hm | ⟨m, hm, hn⟩
    · exact Reach.root hm
    · have hma : m ∈ s.added := (hi.added_cases m).mpr (Or.inr (Or.inr hm))
      exact Reach.dep (hi.added_reach m hma) hn
  · intro hr
    exact hi.added_marked n ((terminal_added g roots s h ht n).mpr hr)

theorem terminal_sel (g : Graph) (roots : List Node) (s : St) (h : Run g roots s)
    (ht : Terminal s) (p : Nat) :
    (∀ v, Reach g roots (p, v) → v ≤ s.sel p) ∧ (s.sel p = 0 ∨ Reach g roots (p, s.sel p)) := by
  have hi := run_inv g roots s h
  constructor
  · intro v hr
    exact hi.sel_ub p v ((terminal_marked g roots s h ht (p, v)).mpr hr)
  · rcases hi.sel_att p with h0 | hm
    · exact Or.inl h0
    · exact Or.inr ((terminal_marked g roots s h ht _).mp hm)

theorem schedule_indep (g : Graph) (roots : List Node) (s t : St) (hs : Run g roots s)
    (ht : Run g roots t) (hs' : Terminal s) (ht' : Terminal t) : ∀ p, s.sel p = t.sel p := by
  intro p
  obtain ⟨su, sa⟩ := terminal_sel g roots s hs hs' p
  obtain ⟨tu, ta⟩ := terminal_sel g roots t ht ht' p
  apply Nat.le_antisymm
  · rcases sa with h0 | hr
    · omega
    · exact tu _ hr
  · rcases ta with h0 | hr
    · omega
    · exact su _ hr

theorem reach_congr (g g' : Graph) (roots roots' : List Node)
    (hg : ∀ m n, n ∈ g m ↔ n ∈ g' m) (hr : ∀ n, n ∈ roots ↔ n ∈ roots') :
    ∀ n, Reach g roots n ↔ Reach g' roots' n := by
  intro n
  constructor
  · intro h
    induction h with
    | root hn => exact Reach.root ((hr _).mp hn)
    | dep _ hn ih => exact Reach.dep ih ((hg _ _).mp hn)
  · intro h
    induction h with
    | root hn => exact Reach.root ((hr _).mpr hn)
    | dep _ hn ih => exact Reach.dep ih ((hg _ _).mpr hn)

end CueVerif.Mvs
