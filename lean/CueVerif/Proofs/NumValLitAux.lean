/-
C06 helper lemmas for `Proofs/NumValLit.lean`: digits and Horner, `takeDigits`, rounding of a
coefficient that fits, rational arithmetic of mantissa and exponent, `decValue`.  Core Lean only.
-/
import CueVerif.Model.NumVal
import CueVerif.Spec.Arith
import CueVerif.Proofs.NumLit
namespace CueVerif.Proofs.NumValLitAux
open CueVerif CueVerif.Arith CueVerif.NumVal CueVerif.Spec.Arith

/-- a byte that is `_` or a digit of the base -/
def OkByte (base c : Nat) : Prop := c = 95 ∨ digitOf c < base

theorem digitVal_eq_digitOf (c : Nat) (h : digitOf c < 16) : NumLit.digitVal c = digitOf c := by
  unfold digitOf at h
  unfold NumLit.digitVal digitOf
  by_cases h1 : 48 ≤ c ∧ c ≤ 57
  · simp [h1]
  · by_cases h2 : 97 ≤ c ∧ c ≤ 102
    · have : c ≠ 95 := by omega
      simp [h1, h2, this]; omega
    · by_cases h3 : 65 ≤ c ∧ c ≤ 70
      · have : c ≠ 95 := by omega
        simp [h1, h2, h3, this]; omega
      · simp [h1, h2, h3] at h

theorem digitOf_lt10_iff (c : Nat) : digitOf c < 10 ↔ NumLit.isDec c = true := by
  unfold digitOf NumLit.isDec
  simp only [Bool.and_eq_true, decide_eq_true_eq]
  split
  · omega
  · split
    · omega
    · split <;> omega

theorem digitOf_95 : digitOf 95 = 16 := by decide

theorem wfTail_ok (base : Nat) : ∀ (ds : List Nat) (pu : Bool), wfTail base pu ds = true → ∀ c ∈ ds, OkByte base c := by
  intro ds
  induction ds with
  | nil => intro pu _ c hc; cases hc
  | cons a as ih =>
    intro pu h c hc
    unfold wfTail at h
    split at h
    · rename_i ha
      simp only [Bool.and_eq_true] at h
      rcases List.mem_cons.1 hc with rfl | hc
      · left; simpa using ha
      · exact ih _ h.2 c hc
    · simp only [Bool.and_eq_true, isDigit, decide_eq_true_eq] at h
      rcases List.mem_cons.1 hc with rfl | hc
      · right; exact h.1
      · exact ih _ h.2 c hc

theorem wfDigits_ok (base : Nat) (ds : List Nat) (h : wfDigits base ds = true) : ∀ c ∈ ds, OkByte base c := by
  unfold wfDigits at h
  split at h
  · cases h
  · rename_i c cs
    simp only [Bool.and_eq_true, isDigit, decide_eq_true_eq] at h
    intro x hx
    rcases List.mem_cons.1 hx with rfl | hx
    · right; exact h.1
    · exact wfTail_ok base cs false h.2 x hx

theorem foldl_horner (base : Nat) (hb : base ≤ 16) : ∀ (ds : List Nat) (acc : Nat), (∀ c ∈ ds, OkByte base c) →
    (ds.filter (· != 95)).foldl (fun acc c => acc * base + NumLit.digitVal c) acc
      = acc * base ^ nDigits ds + digitsVal base ds := by
  intro ds
  induction ds with
  | nil => intro acc _; simp [nDigits, digitsVal]
  | cons a as ih =>
    intro acc h
    have has : ∀ c ∈ as, OkByte base c := fun c hc => h c (List.mem_cons_of_mem _ hc)
    by_cases ha : a = 95
    · subst ha
      simp [nDigits, digitsVal] at *
      simpa [nDigits] using ih acc has
    · have hd : digitOf a < base := by
        rcases h a (List.mem_cons_self) with h | h
        · exact absurd h ha
        · exact h
      have hf : (a :: as).filter (· != 95) = a :: as.filter (· != 95) := by
        simp [ha]
      have hn : nDigits (a :: as) = nDigits as + 1 := by
        simp [nDigits, hf]
      rw [hf, List.foldl_cons, ih _ has, hn, digitVal_eq_digitOf a (by omega)]
      have : digitsVal base (a :: as) = digitOf a * base ^ nDigits as + digitsVal base as := by
        simp [digitsVal, ha]
      rw [this, Nat.pow_succ]
      rw [Nat.add_mul, Nat.mul_assoc, Nat.mul_comm (base ^ nDigits as) base]
      omega

theorem horner_ok (base : Nat) (hb : base ≤ 16) (ds : List Nat) (h : ∀ c ∈ ds, OkByte base c) :
    horner base (ds.filter (· != 95)) = digitsVal base ds := by
  unfold horner
  rw [foldl_horner base hb ds 0 h]; simp

/-- the rest of the input stops a run of digits and separators -/
def Stop (r : List Nat) : Prop :=
  match r with
  | [] => True
  | c :: _ => NumLit.isDec c = false ∧ c ≠ 95

theorem takeDigits_stop (r : List Nat) (h : Stop r) : takeDigits r = ([], r) := by
  cases r with
  | nil => rfl
  | cons c t =>
    obtain ⟨h1, h2⟩ := h
    simp [takeDigits, h1, h2]

theorem takeDigits_append : ∀ (ds r : List Nat), (∀ c ∈ ds, OkByte 10 c) → Stop r →
    takeDigits (ds ++ r) = (ds.filter (· != 95), r) := by
  intro ds
  induction ds with
  | nil => intro r _ hr; simpa using takeDigits_stop r hr
  | cons a as ih =>
    intro r h hr
    have has : ∀ c ∈ as, OkByte 10 c := fun c hc => h c (List.mem_cons_of_mem _ hc)
    have := ih r has hr
    rcases h a (List.mem_cons_self) with ha | ha
    · subst ha
      simp [takeDigits, this, NumLit.isDec]
    · have hd := (digitOf_lt10_iff a).1 ha
      have h95 : a ≠ 95 := by
        intro h; subst h; simp [NumLit.isDec] at hd
      simp [takeDigits, this, hd, h95]

theorem takeDigits_all (ds : List Nat) (h : ∀ c ∈ ds, OkByte 10 c) :
    takeDigits ds = (ds.filter (· != 95), []) := by
  simpa using takeDigits_append ds [] h trivial


theorem numDigitsAux_pos (fuel n : Nat) : 1 ≤ Dec.numDigitsAux fuel n := by
  cases fuel with
  | zero => simp [Dec.numDigitsAux]
  | succ f => unfold Dec.numDigitsAux; split <;> omega

theorem numDigitsAux_lb : ∀ (fuel n : Nat), n ≤ fuel → 0 < n → 10 ^ (Dec.numDigitsAux fuel n - 1) ≤ n := by
  intro fuel
  induction fuel with
  | zero => intro n h1 h2; omega
  | succ f ih =>
    intro n h1 h2
    unfold Dec.numDigitsAux
    split
    · simp; omega
    · have h3 : n / 10 ≤ f := by omega
      have h4 : 0 < n / 10 := by omega
      have := ih (n / 10) h3 h4
      have hp := numDigitsAux_pos f (n / 10)
      have e : 1 + Dec.numDigitsAux f (n / 10) - 1 = (Dec.numDigitsAux f (n / 10) - 1) + 1 := by omega
      rw [e, Nat.pow_succ]
      omega

theorem numDigits_lb (n : Nat) (h : 0 < n) : 10 ^ (Dec.numDigits n - 1) ≤ n :=
  numDigitsAux_lb n n (Nat.le_refl _) h

theorem sgnMul_natAbs (c : Int) : sgnMul (decide (c < 0)) c.natAbs = c := by
  unfold sgnMul
  by_cases h : c < 0 <;> simp [h] <;> omega

theorem sgnMul_mul (b : Bool) (a k : Nat) : sgnMul b a * (k : Int) = sgnMul b (a * k) := by
  unfold sgnMul; cases b <;> simp [Int.neg_mul]

/-- rounding a coefficient that fits only moves trailing zeros into the exponent -/
theorem round_fits (p : Nat) (d : Dec) (h : Fits p d) :
    ∃ (q : Int) (k : Nat), (round p d).1 = ⟨q, d.exp + (k : Int)⟩ ∧ q * 10 ^ k = d.coeff := by
  by_cases hnd : Dec.numDigits d.coeff.natAbs ≤ p
  · refine ⟨d.coeff, 0, ?_, by simp⟩
    simp [round, hnd]
  · obtain ⟨c, j, hc, hcj⟩ := h
    have hm : d.coeff.natAbs = c.natAbs * 10 ^ j := by
      rw [hcj, Int.natAbs_mul, Int.natAbs_pow]; rfl
    have hdvd : 10 ^ (Dec.numDigits d.coeff.natAbs - p) ∣ d.coeff.natAbs := by
      by_cases h0 : d.coeff.natAbs = 0
      · rw [h0]; exact Nat.dvd_zero _
      · have hlb := numDigits_lb d.coeff.natAbs (by omega)
        have hub : d.coeff.natAbs < 10 ^ (p + j) := by
          rw [hm, Nat.pow_add]
          exact Nat.mul_lt_mul_of_pos_right hc (Nat.pow_pos (by decide))
        have hlt : 10 ^ (Dec.numDigits d.coeff.natAbs - 1) < 10 ^ (p + j) := Nat.lt_of_le_of_lt hlb hub
        have := (Nat.pow_lt_pow_iff_right (by decide : 1 < 10)).1 hlt
        have hkj : Dec.numDigits d.coeff.natAbs - p ≤ j := by omega
        have hj : 10 ^ j ∣ d.coeff.natAbs := ⟨c.natAbs, by rw [hm, Nat.mul_comm]⟩
        exact Nat.dvd_trans (Nat.pow_dvd_pow 10 hkj) hj
    have hr : d.coeff.natAbs % 10 ^ (Dec.numDigits d.coeff.natAbs - p) = 0 := Nat.mod_eq_zero_of_dvd hdvd
    have hpos : 0 < 10 ^ (Dec.numDigits d.coeff.natAbs - p) := Nat.pow_pos (by decide)
    refine ⟨sgnMul (decide (d.coeff < 0)) (d.coeff.natAbs / 10 ^ (Dec.numDigits d.coeff.natAbs - p)),
      Dec.numDigits d.coeff.natAbs - p, ?_, ?_⟩
    · simp only [round, hnd, hr, if_false]
      have : ¬ (10 ^ (Dec.numDigits d.coeff.natAbs - p) ≤ 2 * 0) := by omega
      simp [this]
    · have e : ((10 : Int) ^ (Dec.numDigits d.coeff.natAbs - p)) = ((10 ^ (Dec.numDigits d.coeff.natAbs - p) : Nat) : Int) := by
        simp
      rw [e, sgnMul_mul, Nat.div_mul_cancel hdvd, sgnMul_natAbs]


theorem ten_ne : (10 : Rat) ≠ 0 := by decide
theorem tenpow_ne (n : Nat) : (10 : Rat) ^ n ≠ 0 := by
  have := Rat.pow_pos (a := 10) (n := n) (by decide)
  grind

theorem toRat_int (z : Int) : toRat ⟨z, 0⟩ = (z : Rat) := by
  simp [toRat]

theorem toRat_mant (A B n : Nat) (E : Int) :
    toRat ⟨((A * 10 ^ n + B : Nat) : Int), E - (n : Int)⟩
      = ((A : Rat) + (B : Rat) / (10 : Rat) ^ n) * (10 : Rat) ^ E := by
  have h1 : (10 : Rat) ^ (E - (n : Int)) = (10 : Rat) ^ E * ((10 : Rat) ^ n)⁻¹ := by
    rw [Int.sub_eq_add_neg, Rat.zpow_add ten_ne, Rat.zpow_neg, Rat.zpow_natCast]
  have h2 := tenpow_ne n
  simp only [toRat, h1]
  rw [Rat.intCast_natCast]
  simp only [Rat.natCast_add, Rat.natCast_mul, Rat.natCast_pow, Rat.natCast_ofNat]
  grind

theorem si_int (A B n M : Nat) (z : Int)
    (h : ((A : Rat) + (B : Rat) / (10 : Rat) ^ n) * (M : Rat) = (z : Rat)) :
    ((A * 10 ^ n + B : Nat) : Int) * (M : Int) = z * 10 ^ n := by
  have h2 := tenpow_ne n
  apply Rat.intCast_inj.1
  simp only [Rat.intCast_mul, Rat.intCast_natCast, Rat.natCast_add, Rat.natCast_mul, Rat.natCast_pow,
    Rat.natCast_ofNat, Rat.intCast_pow, Rat.intCast_ofNat]
  grind

theorem toIntegralExact_of (q z : Int) (k n : Nat) (h : q * 10 ^ k = z * 10 ^ n) :
    toIntegralExact ⟨q, -(n : Int) + (k : Int)⟩ = some z := by
  unfold toIntegralExact
  by_cases hk : n ≤ k
  · have : (0 : Int) ≤ -(n : Int) + (k : Int) := by omega
    simp only [this, if_true]
    have e : (-(n : Int) + (k : Int)).toNat = k - n := by omega
    rw [e]
    have hk' : k = (k - n) + n := by omega
    rw [hk', Int.pow_add, ← Int.mul_assoc] at h
    have hp : (10 : Int) ^ n ≠ 0 := Int.pow_ne_zero (by decide)
    have := Int.eq_of_mul_eq_mul_right hp h
    rw [this]
  · have : ¬ (0 : Int) ≤ -(n : Int) + (k : Int) := by omega
    simp only [this, if_false]
    have e : (-(-(n : Int) + (k : Int))).toNat = n - k := by omega
    rw [e]
    have hn' : n = (n - k) + k := by omega
    rw [hn', Int.pow_add, ← Int.mul_assoc] at h
    have hp : (10 : Int) ^ k ≠ 0 := Int.pow_ne_zero (by decide)
    have hq := Int.eq_of_mul_eq_mul_right hp h
    have hp2 : (10 : Int) ^ (n - k) ≠ 0 := Int.pow_ne_zero (by decide)
    rw [hq]
    simp [Int.mul_emod_left, Int.mul_ediv_cancel _ hp2]

theorem floor_int (q : Rat) (z : Int) (h : q = (z : Rat)) : ((truncNonneg q : Int) : Rat) = q := by
  subst h; simp [truncNonneg, Rat.floor_intCast]


theorem nDigits_append (xs ys : List Nat) : nDigits (xs ++ ys) = nDigits xs + nDigits ys := by
  simp [nDigits]

theorem digitsVal_append (b : Nat) (xs ys : List Nat) :
    digitsVal b (xs ++ ys) = digitsVal b xs * b ^ nDigits ys + digitsVal b ys := by
  induction xs with
  | nil => simp [digitsVal]
  | cons a as ih =>
    by_cases ha : a = 95
    · subst ha; simpa [digitsVal] using ih
    · simp only [List.cons_append, digitsVal, ha, beq_iff_eq, if_false, ih, nDigits_append,
        Nat.pow_add, Nat.add_mul, Nat.mul_assoc, Nat.add_assoc]

theorem litExp_in (coeff : Nat) (hasExp : Bool) (e : Int) (n : Nat) (E : Int)
    (hE : E = if hasExp then e else 0)
    (h1 : (-100000 : Int) ≤ E) (h2 : E ≤ 100000) (h3 : (n : Int) ≤ 100000)
    (h4 : (-100000 : Int) ≤ E - (n : Int) + (Dec.numDigits coeff : Int) - 1)
    (h5 : E - (n : Int) + (Dec.numDigits coeff : Int) - 1 ≤ 100000) :
    litExp coeff hasExp e n = some (E - (n : Int)) := by
  unfold litExp maxExp
  cases hasExp
  · simp only [Bool.false_eq_true, if_false] at hE
    subst hE
    have a1 : ¬ ((100000 : Int) < 0) := by omega
    have a2 : ¬ ((0 : Int) < -100000) := by omega
    have a3 : ¬ (-(n : Int) < -100000) := by omega
    have a4 : ¬ ((100000 : Int) < 0 + -(n : Int) + (Dec.numDigits coeff : Int) - 1) := by omega
    have a5 : ¬ (0 + -(n : Int) + (Dec.numDigits coeff : Int) - 1 < -100000) := by omega
    simp [a1, a3]
    omega
  · simp only [if_true] at hE
    subst hE
    have b1 : ¬ (E < -2147483648) := by omega
    have b2 : ¬ (2147483647 < E) := by omega
    have a1 : ¬ ((100000 : Int) < E) := by omega
    have a2 : ¬ (E < -100000) := by omega
    have a3 : ¬ (-(n : Int) < -100000) := by omega
    have a4 : ¬ ((100000 : Int) < E + -(n : Int) + (Dec.numDigits coeff : Int) - 1) := by omega
    have a5 : ¬ (E + -(n : Int) + (Dec.numDigits coeff : Int) - 1 < -100000) := by omega
    simp [b1, b2, a1, a2, a3, a4, a5]
    omega

/-- converse of `litExp_in`: outside the window `setString` fails -/
theorem litExp_out (coeff : Nat) (hasExp : Bool) (e : Int) (n : Nat) (E : Int)
    (hE : E = if hasExp then e else 0)
    (h : ¬ ((-100000 : Int) ≤ E ∧ E ≤ 100000 ∧ (n : Int) ≤ 100000 ∧
      (-100000 : Int) ≤ E - (n : Int) + (Dec.numDigits coeff : Int) - 1 ∧
      E - (n : Int) + (Dec.numDigits coeff : Int) - 1 ≤ 100000)) :
    litExp coeff hasExp e n = none := by
  unfold litExp maxExp
  cases hasExp
  · simp only [Bool.false_eq_true, if_false] at hE
    subst hE
    simp only [Bool.false_and, Bool.false_eq_true, if_false]
    split
    · rfl
    · split
      · rfl
      · rename_i h2 h3
        exfalso
        simp only [Bool.or_eq_true, decide_eq_true_eq, not_or, Int.not_lt] at h2 h3
        omega
  · simp only [if_true] at hE
    subst hE
    simp only [Bool.true_and, if_true]
    split
    · rfl
    · split
      · rfl
      · split
        · rfl
        · rename_i h1 h2 h3
          exfalso
          simp only [Bool.or_eq_true, decide_eq_true_eq, not_or, Int.not_lt] at h1 h2 h3
          omega

theorem ok_append {b : Nat} {xs ys : List Nat} (hx : ∀ c ∈ xs, OkByte b c) (hy : ∀ c ∈ ys, OkByte b c) :
    ∀ c ∈ xs ++ ys, OkByte b c := by
  intro c hc
  rcases List.mem_append.1 hc with h | h
  · exact hx c h
  · exact hy c h

theorem horner_cat (ip fp : List Nat) (hip : ∀ c ∈ ip, OkByte 10 c) (hfp : ∀ c ∈ fp, OkByte 10 c) :
    horner 10 (ip.filter (· != 95) ++ fp.filter (· != 95)) = digitsVal 10 (ip ++ fp) := by
  rw [← List.filter_append]
  exact horner_ok 10 (by decide) _ (ok_append hip hfp)

/-- the exponent `decValue` reads from the parts -/
def partsExp (p : Parts) : Int :=
  if p.hasExp then (if p.expNeg then -(horner 10 p.expDs : Int) else (horner 10 p.expDs : Int)) else 0

theorem decValue_plain (k : NumLit.Kind) (p : Parts) (ip fp : List Nat)
    (hip : ∀ c ∈ ip, OkByte 10 c) (hfp : ∀ c ∈ fp, OkByte 10 c)
    (h1 : p.intDs = ip.filter (· != 95)) (h2 : p.fracDs = fp.filter (· != 95)) (hm : p.mul = none)
    (w1 : (-100000 : Int) ≤ partsExp p) (w2 : partsExp p ≤ 100000) (w3 : (nDigits fp : Int) ≤ 100000)
    (w4 : (-100000 : Int) ≤ partsExp p - (nDigits fp : Int) + (Dec.numDigits (digitsVal 10 (ip ++ fp)) : Int) - 1)
    (w5 : partsExp p - (nDigits fp : Int) + (Dec.numDigits (digitsVal 10 (ip ++ fp)) : Int) - 1 ≤ 100000) :
    ∃ n, decValue k p = .ok n ∧ n.k = k ∧ toRat n.d = mantissa ip fp * (10 : Rat) ^ partsExp p := by
  have hc : horner 10 (p.intDs ++ p.fracDs) = digitsVal 10 (ip ++ fp) := by
    rw [h1, h2]; exact horner_cat ip fp hip hfp
  have hl : p.fracDs.length = nDigits fp := by rw [h2]; rfl
  have hle := litExp_in (digitsVal 10 (ip ++ fp)) p.hasExp
    (if p.expNeg then -(horner 10 p.expDs : Int) else (horner 10 p.expDs : Int)) (nDigits fp) (partsExp p)
    rfl w1 w2 w3 w4 w5
  refine ⟨⟨k, ⟨(digitsVal 10 (ip ++ fp) : Nat), partsExp p - (nDigits fp : Int)⟩⟩, ?_, rfl, ?_⟩
  · unfold decValue
    simp only [hc, hl, hle, hm]
  · show toRat ⟨_, _⟩ = _
    rw [digitsVal_append, toRat_mant]; rfl

/-- outside the window the base-10 reader fails, with or without a multiplier -/
theorem decValue_out (k : NumLit.Kind) (p : Parts) (ip fp : List Nat)
    (hip : ∀ c ∈ ip, OkByte 10 c) (hfp : ∀ c ∈ fp, OkByte 10 c)
    (h1 : p.intDs = ip.filter (· != 95)) (h2 : p.fracDs = fp.filter (· != 95))
    (hw : ¬ ((-100000 : Int) ≤ partsExp p ∧ partsExp p ≤ 100000 ∧ (nDigits fp : Int) ≤ 100000 ∧
      (-100000 : Int) ≤ partsExp p - (nDigits fp : Int) + (Dec.numDigits (digitsVal 10 (ip ++ fp)) : Int) - 1 ∧
      partsExp p - (nDigits fp : Int) + (Dec.numDigits (digitsVal 10 (ip ++ fp)) : Int) - 1 ≤ 100000)) :
    decValue k p = .err := by
  have hc : horner 10 (p.intDs ++ p.fracDs) = digitsVal 10 (ip ++ fp) := by
    rw [h1, h2]; exact horner_cat ip fp hip hfp
  have hl : p.fracDs.length = nDigits fp := by rw [h2]; rfl
  have hle := litExp_out (digitsVal 10 (ip ++ fp)) p.hasExp
    (if p.expNeg then -(horner 10 p.expDs : Int) else (horner 10 p.expDs : Int)) (nDigits fp) (partsExp p)
    rfl hw
  unfold decValue
  simp only [hc, hl, hle]

theorem prod_exp (n : Nat) : (0 : Int) - (n : Int) + 0 = -(n : Int) + ((0 : Nat) : Int) := by omega

theorem decValue_si (k : NumLit.Kind) (p : Parts) (ip fp : List Nat)
    (hip : ∀ c ∈ ip, OkByte 10 c) (hfp : ∀ c ∈ fp, OkByte 10 c)
    (h1 : p.intDs = ip.filter (· != 95)) (h2 : p.fracDs = fp.filter (· != 95))
    (i : Nat) (bin : Bool) (hm : p.mul = some (i, bin)) (he : p.hasExp = false)
    (w3 : (nDigits fp : Int) ≤ 100000)
    (w4 : (-100000 : Int) ≤ 0 - (nDigits fp : Int) + (Dec.numDigits (digitsVal 10 (ip ++ fp)) : Int) - 1)
    (w5 : 0 - (nDigits fp : Int) + (Dec.numDigits (digitsVal 10 (ip ++ fp)) : Int) - 1 ≤ 100000)
    (hi : ∃ z : Int, mantissa ip fp * ((mulValue i bin : Nat) : Rat) = (z : Rat)) :
    ∃ n, decValue k p = .ok n ∧ n.k = .int ∧
      toRat n.d = ((truncNonneg (mantissa ip fp * ((mulValue i bin : Nat) : Rat)) : Int) : Rat) := by
  have hc : horner 10 (p.intDs ++ p.fracDs) = digitsVal 10 (ip ++ fp) := by
    rw [h1, h2]; exact horner_cat ip fp hip hfp
  have hl : p.fracDs.length = nDigits fp := by rw [h2]; rfl
  have hle := litExp_in (digitsVal 10 (ip ++ fp)) p.hasExp
    (if p.expNeg then -(horner 10 p.expDs : Int) else (horner 10 p.expDs : Int)) (nDigits fp) 0
    (by simp [he]) (by omega) (by omega) w3 w4 w5
  obtain ⟨z, hz⟩ := hi
  -- the exact product
  have hq' : (((digitsVal 10 (ip ++ fp) : Nat) : Int) * ((mulValue i bin : Nat) : Int)) * 10 ^ 0
      = z * 10 ^ nDigits fp := by
    rw [Int.pow_zero, Int.mul_one, digitsVal_append]
    exact si_int _ _ _ _ z hz
  have hti := toIntegralExact_of _ z 0 (nDigits fp) hq'
  refine ⟨⟨.int, ⟨z, 0⟩⟩, ?_, rfl, ?_⟩
  · unfold decValue
    simp only [hc, hl, hle, hm, Dec.mul, prod_exp, hti]
  · show toRat ⟨z, 0⟩ = _
    rw [toRat_int, floor_int _ z hz, hz]


/-- what `readParts` does once the mantissa has been consumed -/
def tailParts (ip fp r2 : List Nat) : Parts :=
  match r2 with
  | [] => { intDs := ip, fracDs := fp }
  | c :: t =>
    if c == 101 || c == 69 then
      let (neg, t') :=
        match t with
        | 45 :: u => (true, u)
        | 43 :: u => (false, u)
        | _ => (false, t)
      { intDs := ip, fracDs := fp, hasExp := true, expNeg := neg, expDs := (takeDigits t').1 }
    else if NumLit.isMul c then
      { intDs := ip, fracDs := fp, mul := some (mulIndex c, t == [105]) }
    else { intDs := ip, fracDs := fp }

theorem stop_dot (t : List Nat) : Stop (46 :: t) := by
  refine ⟨by decide, by decide⟩

theorem readParts_frac (ip fp r2 : List Nat) (hip : ∀ c ∈ ip, OkByte 10 c)
    (hfp : ∀ c ∈ fp, OkByte 10 c) (hs : Stop r2) :
    readParts (ip ++ 46 :: (fp ++ r2)) = tailParts (ip.filter (· != 95)) (fp.filter (· != 95)) r2 := by
  unfold readParts tailParts
  rw [takeDigits_append ip _ hip (stop_dot _)]
  simp only [takeDigits_append fp r2 hfp hs]
  cases r2 <;> rfl

theorem readParts_int (ip r2 : List Nat) (hip : ∀ c ∈ ip, OkByte 10 c) (hs : Stop r2)
    (hnd : ∀ t, r2 ≠ 46 :: t) :
    readParts (ip ++ r2) = tailParts (ip.filter (· != 95)) [] r2 := by
  unfold readParts tailParts
  rw [takeDigits_append ip _ hip hs]
  cases r2 with
  | nil => rfl
  | cons c t =>
    have : c ≠ 46 := fun h => hnd t (by rw [h])
    simp
    rfl

theorem tailParts_nil (ip fp : List Nat) : tailParts ip fp [] = { intDs := ip, fracDs := fp } := rfl

theorem tailParts_mul (ip fp : List Nat) (m : Multiplier) :
    tailParts ip fp m.spell = { intDs := ip, fracDs := fp, mul := some (m.letter.rank, m.iec) } := by
  obtain ⟨l, b⟩ := m
  cases l <;> cases b <;> rfl

theorem mulValue_eq (m : Multiplier) : mulValue m.letter.rank m.iec = m.value := by
  obtain ⟨l, b⟩ := m
  cases b <;> rfl

theorem stop_mul (m : Multiplier) : Stop m.spell := by
  obtain ⟨l, b⟩ := m
  cases l <;> cases b <;> exact ⟨by decide, by decide⟩

theorem mul_not_dot (m : Multiplier) : ∀ t, m.spell ≠ 46 :: t := by
  obtain ⟨l, b⟩ := m
  intro t h
  cases l <;> cases b <;> simp [Multiplier.spell, MulLetter.char] at h

def Exponent.neg (x : Exponent) : Bool := match x.sign with | .minus => true | _ => false

theorem wf_head {ds : List Nat} (h : wfDigits 10 ds = true) :
    ∃ c cs, ds = c :: cs ∧ NumLit.isDec c = true := by
  cases ds with
  | nil => simp [wfDigits] at h
  | cons c cs =>
    simp only [wfDigits, Bool.and_eq_true, isDigit, decide_eq_true_eq] at h
    exact ⟨c, cs, rfl, (digitOf_lt10_iff c).1 h.1⟩

theorem tailParts_exp (ip fp : List Nat) (x : Exponent) (h : wfDigits 10 x.ds = true) :
    tailParts ip fp x.spell =
      { intDs := ip, fracDs := fp, hasExp := true, expNeg := Exponent.neg x,
        expDs := x.ds.filter (· != 95) } := by
  obtain ⟨u, s, ds⟩ := x
  have htd := takeDigits_all ds (wfDigits_ok 10 ds h)
  obtain ⟨c, cs, rfl, hc⟩ := wf_head h
  have hc' := NumLit.isDec_iff.1 hc
  have h45 : c ≠ 45 := by omega
  have h43 : c ≠ 43 := by omega
  cases u <;> cases s <;> simp [tailParts, Exponent.spell, Exponent.neg, htd, h45, h43]

theorem stop_exp (x : Exponent) : Stop x.spell := by
  obtain ⟨u, s, ds⟩ := x
  cases u <;> simp [Exponent.spell, Stop, NumLit.isDec]

theorem exp_not_dot (x : Exponent) : ∀ t, x.spell ≠ 46 :: t := by
  obtain ⟨u, s, ds⟩ := x
  intro t h
  cases u <;> simp [Exponent.spell] at h

theorem partsExp_exp (x : Exponent) (h : wfDigits 10 x.ds = true) :
    (if Exponent.neg x then -(horner 10 (x.ds.filter (· != 95)) : Int) else (horner 10 (x.ds.filter (· != 95)) : Int))
      = x.value := by
  rw [horner_ok 10 (by decide) _ (wfDigits_ok 10 _ h)]
  obtain ⟨u, s, ds⟩ := x
  cases s <;> rfl


def SafeByte (c : Nat) : Prop := c ≠ 120 ∧ c ≠ 88 ∧ c ≠ 98 ∧ c ≠ 111

/-- the second byte (if the first is `0`) is not a base prefix letter -/
def NoPrefix (s : List Nat) : Prop := ∀ c t, s = 48 :: c :: t → SafeByte c

def HeadSafe (r : List Nat) : Prop := ∀ c t, r = c :: t → SafeByte c

theorem readValue_dec (k : NumLit.Kind) (s : List Nat) (h : NoPrefix s) :
    readValue k s = decValue k (readParts s) := by
  unfold readValue
  split
  · have := h _ _ rfl; simp [SafeByte] at this
  · have := h _ _ rfl; simp [SafeByte] at this
  · have := h _ _ rfl; simp [SafeByte] at this
  · have := h _ _ rfl; simp [SafeByte] at this
  · rfl

theorem safe_of_ok {c : Nat} (h : OkByte 10 c) : SafeByte c := by
  rcases h with h | h
  · subst h; simp [SafeByte]
  · have := NumLit.isDec_iff.1 ((digitOf_lt10_iff c).1 h)
    simp only [SafeByte]; omega

theorem noPrefix_cat (ip r : List Nat) (hip : ∀ c ∈ ip, OkByte 10 c) (hne : ip ≠ [])
    (hr : HeadSafe r) : NoPrefix (ip ++ r) := by
  intro c t h
  cases ip with
  | nil => exact absurd rfl hne
  | cons a as =>
    cases as with
    | nil =>
      simp at h
      exact hr c t h.2
    | cons b bs =>
      simp at h
      exact safe_of_ok (hip c (by simp [h.2.1]))

theorem noPrefix_dot (r : List Nat) : NoPrefix (46 :: r) := by
  intro c t h; simp at h

theorem headSafe_nil : HeadSafe [] := by intro c t h; cases h
theorem headSafe_dot (t : List Nat) : HeadSafe (46 :: t) := by
  intro c t' h; simp at h; rw [← h.1]; simp [SafeByte]
theorem headSafe_mul (m : Multiplier) : HeadSafe m.spell := by
  obtain ⟨l, b⟩ := m
  intro c t h
  cases l <;> cases b <;> simp [Multiplier.spell, MulLetter.char] at h <;> rw [← h.1] <;> simp [SafeByte]
theorem headSafe_exp (x : Exponent) : HeadSafe x.spell := by
  obtain ⟨u, s, ds⟩ := x
  intro c t h
  cases u <;> simp [Exponent.spell] at h <;> rw [← h.1] <;> simp [SafeByte]

theorem wf_ne_nil {b : Nat} {ds : List Nat} (h : wfDigits b ds = true) : ds ≠ [] := by
  intro e; subst e; simp [wfDigits] at h

theorem litExp_zero (coeff : Nat) (e : Int) (h : (Dec.numDigits coeff : Int) - 1 ≤ maxExp) :
    litExp coeff false e 0 = some 0 := by
  have := litExp_in coeff false e 0 0 rfl (by omega) (by omega) (by omega) (by omega)
    (by unfold maxExp at h; omega)
  simpa using this

theorem decValue_int (k : NumLit.Kind) (ds : List Nat) (h : ∀ c ∈ ds, OkByte 10 c)
    (hw : (Dec.numDigits (digitsVal 10 ds) : Int) - 1 ≤ maxExp) :
    decValue k { intDs := ds.filter (· != 95), fracDs := [] } = .ok ⟨k, ⟨(digitsVal 10 ds : Nat), 0⟩⟩ := by
  unfold decValue
  simp only [List.append_nil, List.length_nil, horner_ok 10 (by decide) ds h, litExp_zero _ _ hw]

theorem nil_ok (b : Nat) : ∀ c ∈ ([] : List Nat), OkByte b c := by intro c hc; cases hc

theorem dec_ok (ds : List Nat) (hwf : (Lit.dec ds).wf = true) :
    (∀ c ∈ ds, OkByte 10 c) ∧ NoPrefix ds ∧ ds ≠ [] := by
  simp only [Lit.wf, Bool.or_eq_true, beq_iff_eq] at hwf
  rcases hwf with h | h
  · subst h
    refine ⟨?_, ?_, by simp⟩
    · intro c hc; simp at hc; subst hc; right; decide
    · intro c t h; simp at h
  · cases ds with
    | nil => simp at h
    | cons a as =>
      simp only [Bool.and_eq_true, decide_eq_true_eq] at h
      refine ⟨?_, ?_, by simp⟩
      · intro c hc
        rcases List.mem_cons.1 hc with rfl | hc
        · right; apply (digitOf_lt10_iff _).2; simp [NumLit.isDec]; omega
        · exact wfTail_ok 10 as false h.2 c hc
      · intro c t e; simp at e; omega

/-- a `decimal_lit` is read by the base-10 reader from its digits -/
theorem parts_dec (k : NumLit.Kind) (ds : List Nat) (hwf : (Lit.dec ds).wf = true) :
    readValue k ds = decValue k { intDs := ds.filter (· != 95), fracDs := [] } := by
  obtain ⟨hok, hnp, -⟩ := dec_ok ds hwf
  rw [readValue_dec _ _ hnp]
  have := readParts_int ds [] hok trivial (by intro t h; cases h)
  rw [List.append_nil] at this
  rw [this, tailParts_nil]

theorem lit_dec (ds : List Nat) (hwf : (Lit.dec ds).wf = true) (hw : (Lit.dec ds).inWindow) :
    ∃ n, readValue (Lit.dec ds).kind (Lit.dec ds).spell = .ok n ∧ n.k = (Lit.dec ds).kind ∧
      toRat n.d = (Lit.dec ds).denote := by
  obtain ⟨hok, -, -⟩ := dec_ok ds hwf
  obtain ⟨_, _, _, _, w5⟩ := hw
  have w5' : (0 : Int) - ((0 : Nat) : Int) + (Dec.numDigits (digitsVal 10 ds) : Int) - 1 ≤ 100000 := w5
  refine ⟨⟨.int, ⟨(digitsVal 10 ds : Nat), 0⟩⟩, ?_, rfl, ?_⟩
  · show readValue .int ds = _
    rw [parts_dec _ ds hwf, decValue_int _ _ hok (by unfold maxExp; omega)]
  · show toRat ⟨_, 0⟩ = ((digitsVal 10 ds : Nat) : Rat)
    rw [toRat_int, Rat.intCast_natCast]

theorem lit_dec_out (ds : List Nat) (hwf : (Lit.dec ds).wf = true) (hw : ¬ (Lit.dec ds).inWindow) :
    readValue (Lit.dec ds).kind (Lit.dec ds).spell = .err := by
  obtain ⟨hok, -, -⟩ := dec_ok ds hwf
  show readValue .int ds = _
  rw [parts_dec _ ds hwf]
  refine decValue_out .int _ ds [] hok (nil_ok 10) rfl rfl ?_
  rw [List.append_nil]
  exact hw

theorem lit_bin (ds : List Nat) (hwf : (Lit.bin ds).wf = true) :
    ∃ n, readValue (Lit.bin ds).kind (Lit.bin ds).spell = .ok n ∧ n.k = (Lit.bin ds).kind ∧
      toRat n.d = (Lit.bin ds).denote := by
  refine ⟨⟨.int, ⟨(digitsVal 2 ds : Nat), 0⟩⟩, ?_, rfl, ?_⟩
  · show readValue .int (48 :: 98 :: ds) = _
    simp only [readValue]
    rw [horner_ok 2 (by decide) ds (wfDigits_ok 2 ds hwf)]
  · show toRat ⟨_, 0⟩ = ((digitsVal 2 ds : Nat) : Rat)
    rw [toRat_int, Rat.intCast_natCast]

theorem lit_oct (ds : List Nat) (hwf : (Lit.oct ds).wf = true) :
    ∃ n, readValue (Lit.oct ds).kind (Lit.oct ds).spell = .ok n ∧ n.k = (Lit.oct ds).kind ∧
      toRat n.d = (Lit.oct ds).denote := by
  refine ⟨⟨.int, ⟨(digitsVal 8 ds : Nat), 0⟩⟩, ?_, rfl, ?_⟩
  · show readValue .int (48 :: 111 :: ds) = _
    simp only [readValue]
    rw [horner_ok 8 (by decide) ds (wfDigits_ok 8 ds hwf)]
  · show toRat ⟨_, 0⟩ = ((digitsVal 8 ds : Nat) : Rat)
    rw [toRat_int, Rat.intCast_natCast]

theorem lit_hex (u : Bool) (ds : List Nat) (hwf : (Lit.hex u ds).wf = true) :
    ∃ n, readValue (Lit.hex u ds).kind (Lit.hex u ds).spell = .ok n ∧ n.k = (Lit.hex u ds).kind ∧
      toRat n.d = (Lit.hex u ds).denote := by
  refine ⟨⟨.int, ⟨(digitsVal 16 ds : Nat), 0⟩⟩, ?_, rfl, ?_⟩
  · cases u
    · show readValue .int (48 :: 120 :: ds) = _
      simp only [readValue]
      rw [horner_ok 16 (by decide) ds (wfDigits_ok 16 ds hwf)]
    · show readValue .int (48 :: 88 :: ds) = _
      simp only [readValue]
      rw [horner_ok 16 (by decide) ds (wfDigits_ok 16 ds hwf)]
  · show toRat ⟨_, 0⟩ = ((digitsVal 16 ds : Nat) : Rat)
    rw [toRat_int, Rat.intCast_natCast]


theorem optWf_ok (fp : Option (List Nat)) (h : optWf fp = true) : ∀ c ∈ optSpell fp, OkByte 10 c := by
  cases fp with
  | none => intro c hc; cases hc
  | some f => exact wfDigits_ok 10 f h

theorem float_core (k : NumLit.Kind) (ip fp : List Nat) (ex : Option Exponent)
    (hip : ∀ c ∈ ip, OkByte 10 c) (hfp : ∀ c ∈ fp, OkByte 10 c) (hex : exWf ex = true)
    (s : List Nat)
    (hs : readValue k s = decValue k (tailParts (ip.filter (· != 95)) (fp.filter (· != 95)) (exSpell ex)))
    (w1 : (-100000 : Int) ≤ exVal ex) (w2 : exVal ex ≤ 100000) (w3 : (nDigits fp : Int) ≤ 100000)
    (w4 : (-100000 : Int) ≤ exVal ex - (nDigits fp : Int) + (Dec.numDigits (digitsVal 10 (ip ++ fp)) : Int) - 1)
    (w5 : exVal ex - (nDigits fp : Int) + (Dec.numDigits (digitsVal 10 (ip ++ fp)) : Int) - 1 ≤ 100000) :
    ∃ n, readValue k s = .ok n ∧ n.k = k ∧ toRat n.d = mantissa ip fp * (10 : Rat) ^ exVal ex := by
  rw [hs]
  cases ex with
  | none =>
    rw [show exSpell none = [] from rfl, tailParts_nil]
    exact decValue_plain k _ ip fp hip hfp rfl rfl rfl w1 w2 w3 w4 w5
  | some x =>
    have hx : wfDigits 10 x.ds = true := hex
    rw [show exSpell (some x) = x.spell from rfl, tailParts_exp _ _ x hx]
    have hE : partsExp
        { intDs := ip.filter (· != 95), fracDs := fp.filter (· != 95), hasExp := true,
          expNeg := Exponent.neg x, expDs := x.ds.filter (· != 95) } = exVal (some x) := by
      show (if true = true then _ else _) = x.value
      rw [if_pos rfl, partsExp_exp x hx]
    have := decValue_plain k
      { intDs := ip.filter (· != 95), fracDs := fp.filter (· != 95), hasExp := true,
        expNeg := Exponent.neg x, expDs := x.ds.filter (· != 95) } ip fp hip hfp rfl rfl rfl
      (by rw [hE]; exact w1) (by rw [hE]; exact w2) w3 (by rw [hE]; exact w4) (by rw [hE]; exact w5)
    rw [hE] at this
    exact this

/-- outside the window a float spelling is an error -/
theorem float_out (k : NumLit.Kind) (ip fp : List Nat) (ex : Option Exponent)
    (hip : ∀ c ∈ ip, OkByte 10 c) (hfp : ∀ c ∈ fp, OkByte 10 c) (hex : exWf ex = true)
    (s : List Nat)
    (hs : readValue k s = decValue k (tailParts (ip.filter (· != 95)) (fp.filter (· != 95)) (exSpell ex)))
    (hw : ¬ ((-100000 : Int) ≤ exVal ex ∧ exVal ex ≤ 100000 ∧ (nDigits fp : Int) ≤ 100000 ∧
      (-100000 : Int) ≤ exVal ex - (nDigits fp : Int) + (Dec.numDigits (digitsVal 10 (ip ++ fp)) : Int) - 1 ∧
      exVal ex - (nDigits fp : Int) + (Dec.numDigits (digitsVal 10 (ip ++ fp)) : Int) - 1 ≤ 100000)) :
    readValue k s = .err := by
  rw [hs]
  cases ex with
  | none =>
    rw [show exSpell none = [] from rfl, tailParts_nil]
    exact decValue_out k _ ip fp hip hfp rfl rfl hw
  | some x =>
    have hx : wfDigits 10 x.ds = true := hex
    rw [show exSpell (some x) = x.spell from rfl, tailParts_exp _ _ x hx]
    have hE : partsExp
        { intDs := ip.filter (· != 95), fracDs := fp.filter (· != 95), hasExp := true,
          expNeg := Exponent.neg x, expDs := x.ds.filter (· != 95) } = exVal (some x) := by
      show (if true = true then _ else _) = x.value
      rw [if_pos rfl, partsExp_exp x hx]
    exact decValue_out k
      { intDs := ip.filter (· != 95), fracDs := fp.filter (· != 95), hasExp := true,
        expNeg := Exponent.neg x, expDs := x.ds.filter (· != 95) } ip fp hip hfp rfl rfl
      (by rw [hE]; exact hw)

theorem stop_exSpell (ex : Option Exponent) : Stop (exSpell ex) := by
  cases ex with
  | none => trivial
  | some x => exact stop_exp x

theorem parts_fPoint (ip : List Nat) (fp : Option (List Nat)) (ex : Option Exponent)
    (hwf : (Lit.fPoint ip fp ex).wf = true) :
    readValue .float (Lit.fPoint ip fp ex).spell = decValue .float
      (tailParts (ip.filter (· != 95)) ((optSpell fp).filter (· != 95)) (exSpell ex)) := by
  simp only [Lit.wf, Bool.and_eq_true] at hwf
  have hip := wfDigits_ok 10 ip hwf.1.1
  have hfp := optWf_ok fp hwf.1.2
  have e : (Lit.fPoint ip fp ex).spell = ip ++ 46 :: (optSpell fp ++ exSpell ex) := by simp [Lit.spell]
  rw [e, readValue_dec _ _ (noPrefix_cat ip _ hip (wf_ne_nil hwf.1.1) (headSafe_dot _)),
    readParts_frac ip _ _ hip hfp (stop_exSpell ex)]

theorem parts_fExp (ip : List Nat) (x : Exponent) (hwf : (Lit.fExp ip x).wf = true) :
    readValue .float (Lit.fExp ip x).spell = decValue .float
      (tailParts (ip.filter (· != 95)) (([] : List Nat).filter (· != 95)) (exSpell (some x))) := by
  simp only [Lit.wf, Bool.and_eq_true] at hwf
  have hip := wfDigits_ok 10 ip hwf.1
  show readValue _ (ip ++ x.spell) = _
  rw [readValue_dec _ _ (noPrefix_cat ip _ hip (wf_ne_nil hwf.1) (headSafe_exp x)),
    readParts_int ip _ hip (stop_exp x) (exp_not_dot x)]
  rfl

theorem parts_fDot (fp : List Nat) (ex : Option Exponent) (hwf : (Lit.fDot fp ex).wf = true) :
    readValue .float (Lit.fDot fp ex).spell = decValue .float
      (tailParts (([] : List Nat).filter (· != 95)) (fp.filter (· != 95)) (exSpell ex)) := by
  simp only [Lit.wf, Bool.and_eq_true] at hwf
  have hfp := wfDigits_ok 10 fp hwf.1
  have e : (Lit.fDot fp ex).spell = [] ++ 46 :: (fp ++ exSpell ex) := by simp [Lit.spell]
  rw [e, readValue_dec _ _ (show NoPrefix ([] ++ 46 :: (fp ++ exSpell ex)) from noPrefix_dot _),
    readParts_frac [] fp _ (nil_ok 10) hfp (stop_exSpell ex)]

theorem lit_fPoint (ip : List Nat) (fp : Option (List Nat)) (ex : Option Exponent)
    (hwf : (Lit.fPoint ip fp ex).wf = true) (hw : (Lit.fPoint ip fp ex).inWindow) :
    ∃ n, readValue (Lit.fPoint ip fp ex).kind (Lit.fPoint ip fp ex).spell = .ok n ∧
      n.k = (Lit.fPoint ip fp ex).kind ∧ toRat n.d = (Lit.fPoint ip fp ex).denote := by
  have hp := parts_fPoint ip fp ex hwf
  simp only [Lit.wf, Bool.and_eq_true] at hwf
  have hip := wfDigits_ok 10 ip hwf.1.1
  have hfp := optWf_ok fp hwf.1.2
  obtain ⟨w1, w2, w3, w4, w5⟩ := hw
  exact float_core .float ip (optSpell fp) ex hip hfp hwf.2 _ hp w1 w2 w3 w4 w5

theorem lit_fPoint_out (ip : List Nat) (fp : Option (List Nat)) (ex : Option Exponent)
    (hwf : (Lit.fPoint ip fp ex).wf = true) (hw : ¬ (Lit.fPoint ip fp ex).inWindow) :
    readValue (Lit.fPoint ip fp ex).kind (Lit.fPoint ip fp ex).spell = .err := by
  have hp := parts_fPoint ip fp ex hwf
  simp only [Lit.wf, Bool.and_eq_true] at hwf
  have hip := wfDigits_ok 10 ip hwf.1.1
  have hfp := optWf_ok fp hwf.1.2
  exact float_out .float ip (optSpell fp) ex hip hfp hwf.2 _ hp hw

theorem lit_fExp (ip : List Nat) (x : Exponent)
    (hwf : (Lit.fExp ip x).wf = true) (hw : (Lit.fExp ip x).inWindow) :
    ∃ n, readValue (Lit.fExp ip x).kind (Lit.fExp ip x).spell = .ok n ∧
      n.k = (Lit.fExp ip x).kind ∧ toRat n.d = (Lit.fExp ip x).denote := by
  have hp := parts_fExp ip x hwf
  simp only [Lit.wf, Bool.and_eq_true] at hwf
  have hip := wfDigits_ok 10 ip hwf.1
  obtain ⟨w1, w2, w3, w4, w5⟩ := hw
  have hm : (Lit.fExp ip x).mantDigits = (ip ++ [], nDigits []) := by simp [Lit.mantDigits, nDigits]
  rw [hm] at w3 w4 w5
  exact float_core .float ip [] (some x) hip (nil_ok 10) hwf.2 _ hp w1 w2 w3 w4 w5

theorem lit_fExp_out (ip : List Nat) (x : Exponent)
    (hwf : (Lit.fExp ip x).wf = true) (hw : ¬ (Lit.fExp ip x).inWindow) :
    readValue (Lit.fExp ip x).kind (Lit.fExp ip x).spell = .err := by
  have hp := parts_fExp ip x hwf
  simp only [Lit.wf, Bool.and_eq_true] at hwf
  have hip := wfDigits_ok 10 ip hwf.1
  refine float_out .float ip [] (some x) hip (nil_ok 10) hwf.2 _ hp ?_
  rw [List.append_nil]
  exact hw

theorem lit_fDot (fp : List Nat) (ex : Option Exponent)
    (hwf : (Lit.fDot fp ex).wf = true) (hw : (Lit.fDot fp ex).inWindow) :
    ∃ n, readValue (Lit.fDot fp ex).kind (Lit.fDot fp ex).spell = .ok n ∧
      n.k = (Lit.fDot fp ex).kind ∧ toRat n.d = (Lit.fDot fp ex).denote := by
  have hp := parts_fDot fp ex hwf
  simp only [Lit.wf, Bool.and_eq_true] at hwf
  have hfp := wfDigits_ok 10 fp hwf.1
  obtain ⟨w1, w2, w3, w4, w5⟩ := hw
  exact float_core .float [] fp ex (nil_ok 10) hfp hwf.2 _ hp w1 w2 w3 w4 w5

theorem lit_fDot_out (fp : List Nat) (ex : Option Exponent)
    (hwf : (Lit.fDot fp ex).wf = true) (hw : ¬ (Lit.fDot fp ex).inWindow) :
    readValue (Lit.fDot fp ex).kind (Lit.fDot fp ex).spell = .err := by
  have hp := parts_fDot fp ex hwf
  simp only [Lit.wf, Bool.and_eq_true] at hwf
  have hfp := wfDigits_ok 10 fp hwf.1
  exact float_out .float [] fp ex (nil_ok 10) hfp hwf.2 _ hp hw

/-- `inWindow` of a `0b`/`0o`/`0x` literal (no decimal mantissa): trivially true -/
theorem window_prefixed :
    (-100000 : Int) ≤ 0 ∧ (0 : Int) ≤ 100000 ∧ ((0 : Nat) : Int) ≤ 100000 ∧
      (-100000 : Int) ≤ 0 - ((0 : Nat) : Int) + (Dec.numDigits (digitsVal 10 []) : Int) - 1 ∧
      0 - ((0 : Nat) : Int) + (Dec.numDigits (digitsVal 10 []) : Int) - 1 ≤ 100000 := by
  decide

theorem parts_si (k : NumLit.Kind) (ip : List Nat) (fp : Option (List Nat)) (m : Multiplier)
    (hwf : (Lit.si ip fp m).wf = true) :
    readValue k (Lit.si ip fp m).spell = decValue k
      { intDs := ip.filter (· != 95), fracDs := (optSpell fp).filter (· != 95),
        mul := some (m.letter.rank, m.iec) } := by
  simp only [Lit.wf, Bool.and_eq_true] at hwf
  have hip := wfDigits_ok 10 ip hwf.1
  have hfp := optWf_ok fp hwf.2
  cases fp with
  | none =>
    have e : (Lit.si ip none m).spell = ip ++ m.spell := by simp [Lit.spell]
    rw [e, readValue_dec _ _ (noPrefix_cat ip _ hip (wf_ne_nil hwf.1) (headSafe_mul m)),
      readParts_int ip _ hip (stop_mul m) (mul_not_dot m), tailParts_mul]
    rfl
  | some f =>
    have e : (Lit.si ip (some f) m).spell = ip ++ 46 :: (f ++ m.spell) := by simp [Lit.spell]
    rw [e, readValue_dec _ _ (noPrefix_cat ip _ hip (wf_ne_nil hwf.1) (headSafe_dot _)),
      readParts_frac ip f _ hip hfp (stop_mul m), tailParts_mul]
    rfl

theorem parts_siDot (fp : List Nat) (m : Multiplier) (hwf : (Lit.siDot fp m).wf = true) :
    readValue .int (Lit.siDot fp m).spell = decValue .int
      { intDs := ([] : List Nat).filter (· != 95), fracDs := fp.filter (· != 95),
        mul := some (m.letter.rank, m.iec) } := by
  simp only [Lit.wf] at hwf
  have hfp := wfDigits_ok 10 fp hwf
  have e : (Lit.siDot fp m).spell = [] ++ 46 :: (fp ++ m.spell) := by simp [Lit.spell]
  rw [e, readValue_dec _ _ (show NoPrefix ([] ++ 46 :: (fp ++ m.spell)) from noPrefix_dot _),
    readParts_frac [] fp _ (nil_ok 10) hfp (stop_mul m), tailParts_mul]

theorem lit_si (ip : List Nat) (fp : Option (List Nat)) (m : Multiplier)
    (hwf : (Lit.si ip fp m).wf = true) (hw : (Lit.si ip fp m).inWindow)
    (hi : (Lit.si ip fp m).siIntegral) :
    ∃ n, readValue (Lit.si ip fp m).kind (Lit.si ip fp m).spell = .ok n ∧ n.k = (Lit.si ip fp m).kind ∧
      toRat n.d = (Lit.si ip fp m).denote := by
  have hparts := parts_si .int ip fp m hwf
  simp only [Lit.wf, Bool.and_eq_true] at hwf
  have hip := wfDigits_ok 10 ip hwf.1
  have hfp := optWf_ok fp hwf.2
  obtain ⟨_, _, w3, w4, w5⟩ := hw
  have := decValue_si .int
    { intDs := ip.filter (· != 95), fracDs := (optSpell fp).filter (· != 95),
      mul := some (m.letter.rank, m.iec) } ip (optSpell fp) hip hfp rfl rfl m.letter.rank m.iec rfl rfl w3 w4 w5
    (by rw [mulValue_eq]; exact hi)
  rw [mulValue_eq] at this
  obtain ⟨n, h1, h2, h3⟩ := this
  exact ⟨n, hparts.trans h1, h2, h3⟩

theorem lit_si_out (ip : List Nat) (fp : Option (List Nat)) (m : Multiplier)
    (hwf : (Lit.si ip fp m).wf = true) (hw : ¬ (Lit.si ip fp m).inWindow) :
    readValue (Lit.si ip fp m).kind (Lit.si ip fp m).spell = .err := by
  have hparts := parts_si .int ip fp m hwf
  simp only [Lit.wf, Bool.and_eq_true] at hwf
  have hip := wfDigits_ok 10 ip hwf.1
  have hfp := optWf_ok fp hwf.2
  exact hparts.trans (decValue_out .int _ ip (optSpell fp) hip hfp rfl rfl hw)

theorem lit_siDot (fp : List Nat) (m : Multiplier)
    (hwf : (Lit.siDot fp m).wf = true) (hw : (Lit.siDot fp m).inWindow)
    (hi : (Lit.siDot fp m).siIntegral) :
    ∃ n, readValue (Lit.siDot fp m).kind (Lit.siDot fp m).spell = .ok n ∧ n.k = (Lit.siDot fp m).kind ∧
      toRat n.d = (Lit.siDot fp m).denote := by
  have hparts := parts_siDot fp m hwf
  simp only [Lit.wf] at hwf
  have hfp := wfDigits_ok 10 fp hwf
  obtain ⟨_, _, w3, w4, w5⟩ := hw
  have := decValue_si .int
    { intDs := ([] : List Nat).filter (· != 95), fracDs := fp.filter (· != 95),
      mul := some (m.letter.rank, m.iec) } [] fp (nil_ok 10) hfp rfl rfl m.letter.rank m.iec rfl rfl w3 w4 w5
    (by rw [mulValue_eq]; exact hi)
  rw [mulValue_eq] at this
  obtain ⟨n, h1, h2, h3⟩ := this
  exact ⟨n, hparts.trans h1, h2, h3⟩

theorem lit_siDot_out (fp : List Nat) (m : Multiplier)
    (hwf : (Lit.siDot fp m).wf = true) (hw : ¬ (Lit.siDot fp m).inWindow) :
    readValue (Lit.siDot fp m).kind (Lit.siDot fp m).spell = .err := by
  have hparts := parts_siDot fp m hwf
  simp only [Lit.wf] at hwf
  have hfp := wfDigits_ok 10 fp hwf
  exact hparts.trans (decValue_out .int _ [] fp (nil_ok 10) hfp rfl rfl hw)


/-! ### converse direction: an accepted multiplied spelling is integral -/

/-- converse of `toIntegralExact_of` -/
theorem toIntegralExact_some (q z : Int) (k n : Nat)
    (h : toIntegralExact ⟨q, -(n : Int) + (k : Int)⟩ = some z) : q * 10 ^ k = z * 10 ^ n := by
  unfold toIntegralExact at h
  by_cases hk : n ≤ k
  · obtain ⟨j, rfl⟩ : ∃ j, k = j + n := ⟨k - n, by omega⟩
    have h0 : (0 : Int) ≤ -(n : Int) + ((j + n : Nat) : Int) := by omega
    simp only [h0, if_true] at h
    have e : (-(n : Int) + ((j + n : Nat) : Int)).toNat = j := by omega
    rw [e] at h
    injection h with h
    rw [← h, Int.pow_add, Int.mul_assoc]
  · obtain ⟨j, rfl⟩ : ∃ j, n = j + k := ⟨n - k, by omega⟩
    have h0 : ¬ (0 : Int) ≤ -((j + k : Nat) : Int) + (k : Int) := by omega
    simp only [h0, if_false] at h
    have e : (-(-((j + k : Nat) : Int) + (k : Int))).toNat = j := by omega
    rw [e] at h
    split at h
    · rename_i hd
      injection h with h
      have hd' : q % 10 ^ j = 0 := by simpa using hd
      have hq : q = z * 10 ^ j := by
        rw [← h]
        exact (Int.ediv_mul_cancel (Int.dvd_of_emod_eq_zero hd')).symm
      rw [Int.pow_add, ← Int.mul_assoc, ← hq]
    · cases h

/-- converse of `si_int` -/
theorem si_rat (A B n M : Nat) (z : Int)
    (h : ((A * 10 ^ n + B : Nat) : Int) * (M : Int) = z * 10 ^ n) :
    ((A : Rat) + (B : Rat) / (10 : Rat) ^ n) * (M : Rat) = (z : Rat) := by
  have h2 := tenpow_ne n
  have h' : (((A * 10 ^ n + B : Nat) : Int) * (M : Int) : Int) = ((z * 10 ^ n : Int) : Rat) := by
    rw [h]
  simp only [Rat.intCast_mul, Rat.intCast_natCast, Rat.natCast_add, Rat.natCast_mul, Rat.natCast_pow,
    Rat.natCast_ofNat, Rat.intCast_pow, Rat.intCast_ofNat] at h'
  grind

/-- an accepted multiplied spelling has an integral value -/
theorem decValue_si_integral (k : NumLit.Kind) (p : Parts) (ip fp : List Nat)
    (hip : ∀ c ∈ ip, OkByte 10 c) (hfp : ∀ c ∈ fp, OkByte 10 c)
    (h1 : p.intDs = ip.filter (· != 95)) (h2 : p.fracDs = fp.filter (· != 95))
    (i : Nat) (bin : Bool) (hm : p.mul = some (i, bin)) (he : p.hasExp = false)
    (w3 : (nDigits fp : Int) ≤ 100000)
    (w4 : (-100000 : Int) ≤ 0 - (nDigits fp : Int) + (Dec.numDigits (digitsVal 10 (ip ++ fp)) : Int) - 1)
    (w5 : 0 - (nDigits fp : Int) + (Dec.numDigits (digitsVal 10 (ip ++ fp)) : Int) - 1 ≤ 100000)
    (n : Num) (h : decValue k p = .ok n) :
    ∃ z : Int, mantissa ip fp * ((mulValue i bin : Nat) : Rat) = (z : Rat) := by
  have hc : horner 10 (p.intDs ++ p.fracDs) = digitsVal 10 (ip ++ fp) := by
    rw [h1, h2]; exact horner_cat ip fp hip hfp
  have hl : p.fracDs.length = nDigits fp := by rw [h2]; rfl
  have hle := litExp_in (digitsVal 10 (ip ++ fp)) p.hasExp
    (if p.expNeg then -(horner 10 p.expDs : Int) else (horner 10 p.expDs : Int)) (nDigits fp) 0
    (by simp [he]) (by omega) (by omega) w3 w4 w5
  unfold decValue at h
  simp only [hc, hl, hle, hm, Dec.mul, prod_exp] at h
  cases hti : toIntegralExact
      ⟨((digitsVal 10 (ip ++ fp) : Nat) : Int) * ((mulValue i bin : Nat) : Int),
        -(nDigits fp : Int) + ((0 : Nat) : Int)⟩ with
  | none => rw [hti] at h; cases h
  | some z =>
    refine ⟨z, ?_⟩
    have hz := toIntegralExact_some _ z 0 (nDigits fp) hti
    rw [Int.pow_zero, Int.mul_one, digitsVal_append] at hz
    exact si_rat _ _ _ _ z hz

theorem lit_si_integral (ip : List Nat) (fp : Option (List Nat)) (m : Multiplier)
    (hwf : (Lit.si ip fp m).wf = true)
    (hw : (Lit.si ip fp m).inWindow)
    (n : Num) (h : readValue .int (Lit.si ip fp m).spell = .ok n) : (Lit.si ip fp m).siIntegral := by
  rw [parts_si .int ip fp m hwf] at h
  simp only [Lit.wf, Bool.and_eq_true] at hwf
  have hip := wfDigits_ok 10 ip hwf.1
  have hfp := optWf_ok fp hwf.2
  obtain ⟨_, _, w3, w4, w5⟩ := hw
  have := decValue_si_integral .int _ ip (optSpell fp) hip hfp rfl rfl m.letter.rank m.iec rfl rfl w3 w4 w5 n h
  rw [mulValue_eq] at this
  exact this

theorem lit_siDot_integral (fp : List Nat) (m : Multiplier)
    (hwf : (Lit.siDot fp m).wf = true)
    (hw : (Lit.siDot fp m).inWindow)
    (n : Num) (h : readValue .int (Lit.siDot fp m).spell = .ok n) : (Lit.siDot fp m).siIntegral := by
  rw [parts_siDot fp m hwf] at h
  simp only [Lit.wf] at hwf
  have hfp := wfDigits_ok 10 fp hwf
  obtain ⟨_, _, w3, w4, w5⟩ := hw
  have := decValue_si_integral .int _ [] fp (nil_ok 10) hfp rfl rfl m.letter.rank m.iec rfl rfl w3 w4 w5 n h
  rw [mulValue_eq] at this
  exact this

/-- the kind passed to the reader does not matter for a multiplied spelling -/
theorem readValue_si_kind (k : NumLit.Kind) (ip : List Nat) (fp : Option (List Nat)) (m : Multiplier)
    (hwf : (Lit.si ip fp m).wf = true) :
    readValue k (Lit.si ip fp m).spell = readValue .int (Lit.si ip fp m).spell := by
  rw [parts_si k ip fp m hwf, parts_si .int ip fp m hwf]
  rfl

theorem floor_eq (q : Rat) (z : Int) (h1 : (z : Rat) ≤ q) (h2 : q < ((z + 1 : Int) : Rat)) : q.floor = z := by
  have a := Rat.le_floor_iff.2 h1
  have b := Rat.floor_lt_iff.2 h2
  omega


/-! ### acceptance of the grammar's spellings by the gate `NumLit.parseNumUnsigned` -/

open CueVerif.NumLit (lMant nulErr digitVal chL lNext lExit lSign lExpDigits lExponent lFraction lPrefixed lZeroTail lScanNumber parseNum parseNumUnsigned accL kindOf isMul)

/-- the rest of the input ends a run of the literal parser's mantissa loop without a NUL -/
def RStop (base : Nat) (r : List Nat) : Prop :=
  match r with
  | [] => True
  | c :: _ => ¬ digitVal c < base ∧ c ≠ 0

theorem digitOf_pos {c : Nat} (h : digitOf c < 16) : c ≠ 0 := by
  intro e; subst e; simp [digitOf] at h

theorem nulErr_run (base : Nat) (hb : base ≤ 16) (pu : Bool) (as r : List Nat)
    (h : wfTail base pu as = true) (hr : RStop base r) : nulErr (as ++ r) = false := by
  cases as with
  | nil =>
    cases r with
    | nil => rfl
    | cons c t => exact NumLit.nulErr_cons_ne hr.2
  | cons a t =>
    unfold wfTail at h
    split at h
    · rename_i ha
      have : a = 95 := by simpa using ha
      exact NumLit.nulErr_cons_ne (by omega)
    · simp only [Bool.and_eq_true, isDigit, decide_eq_true_eq] at h
      exact NumLit.nulErr_cons_ne (digitOf_pos (by omega))

theorem lMant_run (base : Nat) (hb : base ≤ 16) (hb0 : 0 < base) (r : List Nat) (hr : RStop base r) :
    ∀ (ds : List Nat) (last : Nat), wfTail base (last == 95) ds = true →
      lMant base last (ds ++ r) = (r, ds.any (· != 95), false) := by
  intro ds
  induction ds with
  | nil =>
    intro last h
    have hl : (last == 95) = false := by simpa [wfTail] using h
    cases r with
    | nil => simp [lMant, hl]
    | cons c t => simp [lMant, hr.1, hl]
  | cons a as ih =>
    intro last h
    unfold wfTail at h
    split at h
    · rename_i ha
      have ha' : a = 95 := by simpa using ha
      subst ha'
      simp only [Bool.and_eq_true, Bool.not_eq_true'] at h
      have hd : digitVal 95 < base := by simp [digitVal]; exact hb0
      have hn := nulErr_run base hb true as r h.2 hr
      rw [List.cons_append, lMant, if_pos hd, ih 95 (by simpa using h.2)]
      simp [h.1, hn]
    · rename_i ha
      simp only [Bool.and_eq_true, isDigit, decide_eq_true_eq] at h
      have hd : digitVal a < base := by rw [digitVal_eq_digitOf a (by omega)]; exact h.1
      have ha' : (a == 95) = false := by simpa using ha
      have hn := nulErr_run base hb false as r h.2 hr
      rw [List.cons_append, lMant, if_pos hd, ih a (by rw [ha']; exact h.2)]
      have ha2 : (a != 95) = true := by simpa using ha
      simp [ha', ha2, hn]

theorem wfDigits_tail {base : Nat} (hb : base ≤ 16) {ds : List Nat} (h : wfDigits base ds = true) :
    wfTail base false ds = true ∧ ds.any (· != 95) = true := by
  cases ds with
  | nil => simp [wfDigits] at h
  | cons c cs =>
    simp only [wfDigits, Bool.and_eq_true, isDigit, decide_eq_true_eq] at h
    have hc : c ≠ 95 := by intro e; subst e; simp [digitOf] at h; omega
    have hc' : (c == 95) = false := by simpa using hc
    refine ⟨?_, by simp [hc]⟩
    unfold wfTail
    simp [hc', isDigit, h.1, h.2]

theorem lMant_wf (base : Nat) (hb : base ≤ 16) (hb0 : 0 < base) (ds r : List Nat)
    (h : wfDigits base ds = true) (hr : RStop base r) :
    lMant base 0 (ds ++ r) = (r, true, false) := by
  have := wfDigits_tail hb h
  rw [lMant_run base hb hb0 r hr ds 0 this.1, this.2]

theorem lMant_none (base : Nat) (r : List Nat) (hr : RStop base r) :
    lMant base 0 r = (r, false, false) := by
  cases r with
  | nil => rfl
  | cons c t => simp [lMant, hr.1]

theorem rstop_nil (b : Nat) : RStop b [] := trivial

theorem rstop_mul (m : Multiplier) : RStop 10 m.spell := by
  obtain ⟨l, b⟩ := m
  cases l <;> cases b <;> exact ⟨by decide, by decide⟩

theorem rstop_exp (x : Exponent) : RStop 10 x.spell := by
  obtain ⟨u, s, ds⟩ := x
  cases u <;> simp [Exponent.spell, RStop, digitVal]

theorem rstop_dot (t : List Nat) : RStop 10 (46 :: t) := ⟨by decide, by decide⟩

theorem lExponent_nil (f : Bool) : lExponent f [] false = some (f, [], false) := by
  cases f <;> rfl

theorem lExponent_mul (f : Bool) (m : Multiplier) : lExponent f m.spell false = some (false, [], false) := by
  obtain ⟨l, b⟩ := m
  cases l <;> cases b <;> cases f <;> rfl

theorem lExponent_exp (f : Bool) (x : Exponent) (hx : wfDigits 10 x.ds = true) :
    lExponent f x.spell false = some (true, [], false) := by
  obtain ⟨u, s, ds⟩ := x
  have hm := lMant_wf 10 (by decide) (by decide) ds [] hx trivial
  rw [List.append_nil] at hm
  obtain ⟨c, cs, rfl, hc⟩ := wf_head hx
  have hc' := NumLit.isDec_iff.1 hc
  have n1 : nulErr (c :: cs) = false := NumLit.nulErr_cons_ne (by omega)
  have h45 : (c == 45) = false := by simp; omega
  have h43 : (c == 43) = false := by simp; omega
  have n2 : ∀ t, nulErr (43 :: t) = false := fun t => NumLit.nulErr_cons_ne (by decide)
  have n3 : ∀ t, nulErr (45 :: t) = false := fun t => NumLit.nulErr_cons_ne (by decide)
  cases u <;> cases s <;>
    simp [Exponent.spell, lExponent, isMul, lSign, lExpDigits, hm, lExit, n1, n2, n3, h45, h43]

theorem lExponent_ex (f : Bool) (ex : Option Exponent) (h : exWf ex = true) :
    lExponent f (exSpell ex) false = some (f || ex.isSome, [], false) := by
  cases ex with
  | none => simpa [exSpell] using lExponent_nil f
  | some x => simpa [exSpell] using lExponent_exp f x h


theorem nulErr_rstop {b : Nat} {r : List Nat} (h : RStop b r) : nulErr r = false := by
  cases r with
  | nil => rfl
  | cons c t => exact NumLit.nulErr_cons_ne h.2

theorem lFraction_dot (f : Bool) (fp : Option (List Nat)) (tail : List Nat) (hfp : optWf fp = true)
    (hr : RStop 10 tail) :
    lFraction f (46 :: (optSpell fp ++ tail)) false = lExponent true tail false := by
  cases fp with
  | none =>
    simp [lFraction, optSpell, lMant_none 10 tail hr, nulErr_rstop hr]
  | some d =>
    have hd : wfDigits 10 d = true := hfp
    have hn := nulErr_run 10 (by decide) false d tail (wfDigits_tail (by decide) hd).1 hr
    simp [lFraction, optSpell, lMant_wf 10 (by decide) (by decide) d tail hd hr, hn]

theorem lFraction_nodot (f : Bool) (tail : List Nat) (h : chL tail ≠ 46) :
    lFraction f tail false = lExponent f tail false := by
  simp [lFraction, h]

theorem lScan_int (ip rest : List Nat) (hip : wfDigits 10 ip = true) (hr : RStop 10 rest)
    (hs : HeadSafe rest)
    (hz : (chL rest = 46 ∨ chL rest = 101 ∨ chL rest = 69) ∨
      ((∀ a t, ip ≠ 48 :: a :: t) ∧ (rest = [] ∨ isMul (chL rest) = true))) :
    lScanNumber false (ip ++ rest) false = lFraction false rest false := by
  have hm := lMant_wf 10 (by decide) (by decide) ip rest hip hr
  cases ip with
  | nil => simp [wfDigits] at hip
  | cons c cs =>
    by_cases hc : c = 48
    · subst hc
      have ht : wfTail 10 false cs = true := by
        simp only [wfDigits, Bool.and_eq_true] at hip; exact hip.2
      have hn := nulErr_run 10 (by decide) false cs rest ht hr
      have hm2 := lMant_run 10 (by decide) (by decide) rest hr cs 0 ht
      have hsafe : SafeByte (chL (cs ++ rest)) ∨ chL (cs ++ rest) = 0 := by
        cases cs with
        | nil =>
          cases rest with
          | nil => right; rfl
          | cons a t => left; exact hs a t rfl
        | cons a t => left; exact safe_of_ok (wfTail_ok 10 _ false ht a (by simp))
      have h120 : (chL (cs ++ rest) == 120) = false := by
        rcases hsafe with h | h
        · simpa using h.1
        · rw [h]; rfl
      have h88 : (chL (cs ++ rest) == 88) = false := by
        rcases hsafe with h | h
        · simpa using h.2.1
        · rw [h]; rfl
      have h98 : (chL (cs ++ rest) == 98) = false := by
        rcases hsafe with h | h
        · simpa using h.2.2.1
        · rw [h]; rfl
      have h111 : (chL (cs ++ rest) == 111) = false := by
        rcases hsafe with h | h
        · simpa using h.2.2.2
        · rw [h]; rfl
      have e : lScanNumber false (48 :: cs ++ rest) false = lZeroTail rest (cs.any (· != 95)) false := by
        simp [lScanNumber, hn, h120, h88, h98, h111, hm2]
      rw [e]
      rcases hz with hz | ⟨hz1, hz2⟩
      · have : (chL rest == 101 || chL rest == 69 || chL rest == 46) = true := by
          rcases hz with h | h | h <;> simp [h]
        simp [lZeroTail, this]
      · have hcs : cs = [] := by
          cases cs with
          | nil => rfl
          | cons a t => exact absurd rfl (hz1 a t)
        subst hcs
        rcases hz2 with h | h
        · subst h; rfl
        · cases rest with
          | nil => rfl
          | cons a t =>
            have ha : isMul a = true := h
            have ha' : (((a = 75 ∨ a = 77) ∨ a = 71) ∨ a = 84) ∨ a = 80 := by
              simpa [isMul] using ha
            rcases ha' with (((h | h) | h) | h) | h <;> subst h <;> simp [lZeroTail, lFraction, isMul]
    · have hc' : (c == 48) = false := by simpa using hc
      rw [List.cons_append] at hm
      simp [lScanNumber, hc', hm]

theorem accept_int (ip rest : List Nat) (hip : wfDigits 10 ip = true) (hr : RStop 10 rest)
    (hs : HeadSafe rest)
    (hz : (chL rest = 46 ∨ chL rest = 101 ∨ chL rest = 69) ∨
      ((∀ a t, ip ≠ 48 :: a :: t) ∧ (rest = [] ∨ isMul (chL rest) = true))) :
    parseNumUnsigned (ip ++ rest) = accL (lFraction false rest false) := by
  rw [← lScan_int ip rest hip hr hs hz]
  obtain ⟨c, cs, rfl, hc⟩ := wf_head hip
  have hc' := NumLit.isDec_iff.1 hc
  have h45 : (c == 45) = false := by simp; omega
  have h43 : (c == 43) = false := by simp; omega
  rw [List.cons_append, ← NumLit.parseNum_dec c _ hc]
  simp [parseNumUnsigned, h45, h43]

theorem accept_dot (fp rest : List Nat) (hfp : wfDigits 10 fp = true) (hr : RStop 10 rest) :
    parseNumUnsigned (46 :: (fp ++ rest)) = accL (lExponent true rest false) := by
  have hm := lMant_wf 10 (by decide) (by decide) fp rest hfp hr
  obtain ⟨c, cs, rfl, hc⟩ := wf_head hfp
  rw [List.cons_append] at hm ⊢
  have : parseNumUnsigned (46 :: c :: (cs ++ rest)) = parseNum (46 :: c :: (cs ++ rest)) := by
    simp [parseNumUnsigned]
  rw [this, NumLit.parseNum_dot c _ hc]
  simp [lScanNumber, hm]

theorem accept_prefixed (x base : Nat) (ds : List Nat) (hb : base ≤ 16) (hb0 : 0 < base)
    (hds : wfDigits base ds = true)
    (hx : (x = 120 ∧ base = 16) ∨ (x = 88 ∧ base = 16) ∨ (x = 98 ∧ base = 2) ∨ (x = 111 ∧ base = 8)) :
    parseNumUnsigned (48 :: x :: ds) = some .int := by
  have hm := lMant_wf base hb hb0 ds [] hds trivial
  rw [List.append_nil] at hm
  have hn : nulErr ds = false := by
    have := nulErr_run base hb false ds [] (wfDigits_tail hb hds).1 trivial
    rwa [List.append_nil] at this
  have : parseNumUnsigned (48 :: x :: ds) = parseNum (48 :: x :: ds) := by
    simp [parseNumUnsigned]
  rw [this, NumLit.parseNum_dec 48 _ (by decide)]
  have n120 : nulErr (120 :: ds) = false := NumLit.nulErr_cons_ne (by decide)
  have n88 : nulErr (88 :: ds) = false := NumLit.nulErr_cons_ne (by decide)
  have n98 : nulErr (98 :: ds) = false := NumLit.nulErr_cons_ne (by decide)
  have n111 : nulErr (111 :: ds) = false := NumLit.nulErr_cons_ne (by decide)
  rcases hx with ⟨rfl, rfl⟩ | ⟨rfl, rfl⟩ | ⟨rfl, rfl⟩ | ⟨rfl, rfl⟩ <;>
    simp [lScanNumber, lPrefixed, hm, hn, lExit, accL, kindOf, n120, n88, n98, n111]

theorem rstop_exSpell (ex : Option Exponent) : RStop 10 (exSpell ex) := by
  cases ex with
  | none => trivial
  | some x => exact rstop_exp x

theorem chL_mul (m : Multiplier) : isMul (chL m.spell) = true ∧ chL m.spell ≠ 46 := by
  obtain ⟨l, b⟩ := m
  cases l <;> cases b <;> exact ⟨by decide, by decide⟩

theorem chL_exp (x : Exponent) : (chL x.spell = 101 ∨ chL x.spell = 69) ∧ chL x.spell ≠ 46 := by
  obtain ⟨u, s, ds⟩ := x
  cases u <;> simp [Exponent.spell, chL]

theorem dec_wf (ds : List Nat) (h : (Lit.dec ds).wf = true) :
    wfDigits 10 ds = true ∧ ∀ a t, ds ≠ 48 :: a :: t := by
  simp only [Lit.wf, Bool.or_eq_true, beq_iff_eq] at h
  rcases h with h | h
  · subst h; exact ⟨by decide, by intro a t e; simp at e⟩
  · cases ds with
    | nil => simp at h
    | cons c cs =>
      simp only [Bool.and_eq_true, decide_eq_true_eq] at h
      refine ⟨?_, ?_⟩
      · simp only [wfDigits, Bool.and_eq_true, isDigit, decide_eq_true_eq]
        exact ⟨(digitOf_lt10_iff c).2 (NumLit.isDec_iff.2 ⟨by omega, by omega⟩), h.2⟩
      · intro a t e; simp at e; omega

theorem si_noLeadingZero (ip : List Nat) (fp : Option (List Nat)) (m : Multiplier)
    (h : (Lit.si ip fp m).siLeadingZero = false) : ∀ a t, ip ≠ 48 :: a :: t := by
  intro a t e; subst e; simp [Lit.siLeadingZero] at h

theorem literal_accepted_aux (l : Lit) (hwf : l.wf = true) (hz : l.siLeadingZero = false) :
    parseNumUnsigned l.spell = some l.kind := by
  cases l with
  | dec ds =>
    obtain ⟨h1, h2⟩ := dec_wf ds hwf
    have := accept_int ds [] h1 trivial headSafe_nil (Or.inr ⟨h2, Or.inl rfl⟩)
    rw [List.append_nil] at this
    exact this
  | bin ds => exact accept_prefixed 98 2 ds (by decide) (by decide) hwf (by simp)
  | oct ds => exact accept_prefixed 111 8 ds (by decide) (by decide) hwf (by simp)
  | hex u ds =>
    cases u
    · exact accept_prefixed 120 16 ds (by decide) (by decide) hwf (by simp)
    · exact accept_prefixed 88 16 ds (by decide) (by decide) hwf (by simp)
  | si ip fp m =>
    have hlz := si_noLeadingZero ip fp m hz
    simp only [Lit.wf, Bool.and_eq_true] at hwf
    cases fp with
    | none =>
      have e : (Lit.si ip none m).spell = ip ++ m.spell := by simp [Lit.spell]
      rw [e, accept_int ip _ hwf.1 (rstop_mul m) (headSafe_mul m) (Or.inr ⟨hlz, Or.inr (chL_mul m).1⟩),
        lFraction_nodot _ _ (chL_mul m).2, lExponent_mul]
      rfl
    | some f =>
      have e : (Lit.si ip (some f) m).spell = ip ++ 46 :: (optSpell (some f) ++ m.spell) := by
        simp [Lit.spell, optSpell]
      rw [e, accept_int ip _ hwf.1 (rstop_dot _) (headSafe_dot _) (Or.inl (Or.inl rfl)),
        lFraction_dot _ _ _ hwf.2 (rstop_mul m), lExponent_mul]
      rfl
  | siDot fp m =>
    simp only [Lit.wf] at hwf
    have e : (Lit.siDot fp m).spell = 46 :: (fp ++ m.spell) := by simp [Lit.spell]
    rw [e, accept_dot fp _ hwf (rstop_mul m), lExponent_mul]
    rfl
  | fPoint ip fp ex =>
    simp only [Lit.wf, Bool.and_eq_true] at hwf
    have e : (Lit.fPoint ip fp ex).spell = ip ++ 46 :: (optSpell fp ++ exSpell ex) := by simp [Lit.spell]
    rw [e, accept_int ip _ hwf.1.1 (rstop_dot _) (headSafe_dot _) (Or.inl (Or.inl rfl)),
      lFraction_dot _ _ _ hwf.1.2 (rstop_exSpell ex), lExponent_ex _ _ hwf.2]
    rfl
  | fExp ip x =>
    simp only [Lit.wf, Bool.and_eq_true] at hwf
    have e : (Lit.fExp ip x).spell = ip ++ x.spell := by simp [Lit.spell]
    rw [e, accept_int ip _ hwf.1 (rstop_exp x) (headSafe_exp x)
      (Or.inl (Or.inr (chL_exp x).1)), lFraction_nodot _ _ (chL_exp x).2, lExponent_exp _ _ hwf.2]
    rfl
  | fDot fp ex =>
    simp only [Lit.wf, Bool.and_eq_true] at hwf
    have e : (Lit.fDot fp ex).spell = 46 :: (fp ++ exSpell ex) := by simp [Lit.spell]
    rw [e, accept_dot fp _ hwf.1 (rstop_exSpell ex), lExponent_ex _ _ hwf.2]
    rfl


end CueVerif.Proofs.NumValLitAux
