import CueVerif.Spec.MvsOps
import CueVerif.Proofs.MvsOps
/-!
The two depth-first closures of `Req` (`walk`: postorder with `reqCache`; `mark`: the `have`
set), specified for every run that does not run out of fuel.
-/
namespace CueVerif.Mvs

/-- reachability from one node of a requirement list of `m` is reachability from `m` -/
theorem reach_of_child (g : Graph) (m r n : Node) (hr : r ∈ g m) (h : Reach g [r] n) :
    Reach g [m] n := by
  refine reach_trans g [m] [r] ?_ n h
  intro x hx
  rw [List.mem_singleton] at hx
  subst hx
  exact Reach.dep (Reach.root List.mem_cons_self) hr

/-- what one (possibly nested) run of `walk` over the roots `roots` did: `new` is what it
appended to `postorder` -/
structure WalkOut (g : Graph) (roots : List Node) (s s' : DfsSt) (new : List Node) : Prop where
  post_eq : s'.post = s.post ++ new
  cache_iff : ∀ n, n ∈ s'.cache ↔ n ∈ s.cache ∨ n ∈ new
  fresh : ∀ n ∈ new, n ∉ s.cache
  nodup : new.Nodup
  reach : ∀ n ∈ new, ∃ r ∈ roots, Reach g [r] n
  closed : ∀ n ∈ new, ∀ k ∈ g n, k ∈ s'.cache
  roots_in : ∀ r ∈ roots, r ∈ s'.cache

theorem WalkOut.nil (g : Graph) (s : DfsSt) : WalkOut g [] s s [] where
  post_eq := by simp
  cache_iff := by simp
  fresh := by simp
  nodup := List.nodup_nil
  reach := by simp
  closed := by simp
  roots_in := by simp

theorem WalkOut.comp {g : Graph} {m : Node} {ms : List Node} {s s1 s2 : DfsSt}
    {n1 n2 : List Node} (h1 : WalkOut g [m] s s1 n1) (h2 : WalkOut g ms s1 s2 n2) :
    WalkOut g (m :: ms) s s2 (n1 ++ n2) where
  post_eq := by rw [h2.post_eq, h1.post_eq, List.append_assoc]
  cache_iff := by
    intro n
    rw [h2.cache_iff, h1.cache_iff, List.mem_append, or_assoc]
  fresh := by
    intro n hn
    rcases List.mem_append.mp hn with hn | hn
    · exact h1.fresh n hn
    · intro hc
      exact h2.fresh n hn ((h1.cache_iff n).mpr (Or.inl hc))
  nodup := by
    rw [List.nodup_append]
    refine ⟨h1.nodup, h2.nodup, ?_⟩
    intro a ha b hb hab
    subst hab
    exact h2.fresh a hb ((h1.cache_iff a).mpr (Or.inr ha))
  reach := by
    intro n hn
    rcases List.mem_append.mp hn with hn | hn
    · obtain ⟨r, hr, hre⟩ := h1.reach n hn
      rw [List.mem_singleton] at hr
      subst hr
      exact ⟨r, List.mem_cons_self, hre⟩
    · obtain ⟨r, hr, hre⟩ := h2.reach n hn
      exact ⟨r, List.mem_cons_of_mem _ hr, hre⟩
  closed := by
    intro n hn k hk
    rcases List.mem_append.mp hn with hn | hn
    · exact (h2.cache_iff k).mpr (Or.inl (h1.closed n hn k hk))
    · exact h2.closed n hn k hk
  roots_in := by
    intro r hr
    rcases List.mem_cons.mp hr with hr | hr
    · subst hr
      exact (h2.cache_iff r).mpr (Or.inl (h1.roots_in r List.mem_cons_self))
    · exact h2.roots_in r hr

/-- the specification of one call of `walk` -/
def WalkSpec (g : Graph) (f : Nat) : Prop :=
  ∀ m s s', walk g f m s = some s' →
    ∃ new, WalkOut g [m] s s' new ∧ (m ∈ s.cache → s' = s) ∧
      (m ∉ s.cache → ∃ t, new = t ++ [m])

theorem walkList_spec (g : Graph) (f : Nat) (ih : WalkSpec g f) :
    ∀ (ms : List Node) (s s' : DfsSt),
      foldOpt (fun s m1 => walk g f m1 s) s ms = some s' → ∃ new, WalkOut g ms s s' new := by
  intro ms
  induction ms with
  | nil =>
    intro s s' h
    simp only [foldOpt, Option.some.injEq] at h
    subst h
    exact ⟨[], WalkOut.nil g s⟩
  | cons m ms ihl =>
    intro s s' h
    simp only [foldOpt] at h
    cases hw : walk g f m s with
    | none => rw [hw] at h; cases h
    | some s1 =>
      rw [hw] at h
      obtain ⟨n1, h1, _, _⟩ := ih m s s1 hw
      obtain ⟨n2, h2⟩ := ihl s1 s' h
      exact ⟨n1 ++ n2, WalkOut.comp h1 h2⟩

theorem walk_spec (g : Graph) : ∀ f, WalkSpec g f := by
  intro f
  induction f with
  | zero =>
    intro m s s' h
    simp [walk] at h
  | succ f ih =>
    intro m s s' h
    unfold walk at h
    by_cases hc : s.cache.contains m = true
    · rw [if_pos hc] at h
      have hm : m ∈ s.cache := by simpa using hc
      simp only [Option.some.injEq] at h
      subst h
      refine ⟨[], ?_, fun _ => rfl, fun hn => absurd hm hn⟩
      exact { WalkOut.nil g s with
              reach := by simp
              roots_in := by
                intro r hr
                rw [List.mem_singleton] at hr
                subst hr
                exact hm }
    · rw [if_neg hc] at h
      have hm : m ∉ s.cache := by simpa using hc
      cases hl : foldOpt (fun s m1 => walk g f m1 s) { s with cache := m :: s.cache } (g m) with
      | none => rw [hl] at h; cases h
      | some s2 =>
        rw [hl] at h
        simp only [Option.some.injEq] at h
        subst h
        obtain ⟨n1, h1⟩ := walkList_spec g f ih (g m) _ s2 hl
        refine ⟨n1 ++ [m], ?_, fun hin => absurd hin hm, fun _ => ⟨n1, rfl⟩⟩
        have hmn1 : m ∉ n1 := fun hin => h1.fresh m hin List.mem_cons_self
        refine ⟨?_, ?_, ?_, ?_, ?_, ?_, ?_⟩
        · show s2.post ++ [m] = s.post ++ (n1 ++ [m])
          rw [h1.post_eq, List.append_assoc]
        · intro n
          show n ∈ s2.cache ↔ _
          rw [h1.cache_iff n]
          simp only [List.mem_cons, List.mem_append, List.not_mem_nil, or_false]
          constructor
          · rintro ((h | h) | h)
            · exact Or.inr (Or.inr h)
            · exact Or.inl h
            · exact Or.inr (Or.inl h)
          · rintro (h | h | h)
            · exact Or.inl (Or.inr h)
            · exact Or.inr h
            · exact Or.inl (Or.inl h)
        · intro n hn
          rcases List.mem_append.mp hn with hn | hn
          · intro hcn
            exact h1.fresh n hn (List.mem_cons_of_mem _ hcn)
          · rw [List.mem_singleton] at hn
            subst hn
            exact hm
        · rw [List.nodup_append]
          refine ⟨h1.nodup, by simp, ?_⟩
          intro a ha b hb hab
          rw [List.mem_singleton] at hb
          subst hb
          subst hab
          exact hmn1 ha
        · intro n hn
          refine ⟨m, List.mem_cons_self, ?_⟩
          rcases List.mem_append.mp hn with hn | hn
          · obtain ⟨r, hr, hre⟩ := h1.reach n hn
            exact reach_of_child g m r n hr hre
          · rw [List.mem_singleton] at hn
            subst hn
            exact Reach.root List.mem_cons_self
        · intro n hn k hk
          show k ∈ s2.cache
          rcases List.mem_append.mp hn with hn | hn
          · exact h1.closed n hn k hk
          · rw [List.mem_singleton] at hn
            subst hn
            exact h1.roots_in k hk
        · intro r hr
          rw [List.mem_singleton] at hr
          subst hr
          show r ∈ s2.cache
          exact (h1.cache_iff r).mpr (Or.inl List.mem_cons_self)

/-! ### `mark` -/

/-- what a run of `mark` over the roots did to the `have` set -/
structure MarkOut (g : Graph) (roots : List Node) (hv hv' : List Node) : Prop where
  mono : ∀ n ∈ hv, n ∈ hv'
  roots_in : ∀ r ∈ roots, r ∈ hv'
  reach : ∀ n ∈ hv', n ∈ hv ∨ ∃ r ∈ roots, Reach g [r] n
  closed : ∀ n ∈ hv', n ∉ hv → ∀ k ∈ g n, k ∈ hv'

theorem MarkOut.comp {g : Graph} {m : Node} {ms : List Node} {a b c : List Node}
    (h1 : MarkOut g [m] a b) (h2 : MarkOut g ms b c) : MarkOut g (m :: ms) a c where
  mono := fun n hn => h2.mono n (h1.mono n hn)
  roots_in := by
    intro r hr
    rcases List.mem_cons.mp hr with hr | hr
    · subst hr
      exact h2.mono r (h1.roots_in r List.mem_cons_self)
    · exact h2.roots_in r hr
  reach := by
    intro n hn
    rcases h2.reach n hn with h | ⟨r, hr, hre⟩
    · rcases h1.reach n h with h | ⟨r, hr, hre⟩
      · exact Or.inl h
      · rw [List.mem_singleton] at hr
        subst hr
        exact Or.inr ⟨r, List.mem_cons_self, hre⟩
    · exact Or.inr ⟨r, List.mem_cons_of_mem _ hr, hre⟩
  closed := by
    intro n hn hna k hk
    by_cases hb : n ∈ b
    · exact h2.mono k (h1.closed n hb hna k hk)
    · exact h2.closed n hn hb k hk

def MarkSpec (g : Graph) (f : Nat) : Prop :=
  ∀ m hv hv', mark g f m hv = some hv' → MarkOut g [m] hv hv'

theorem markList_spec (g : Graph) (f : Nat) (ih : MarkSpec g f) :
    ∀ (ms : List Node) (hv hv' : List Node),
      foldOpt (fun hv m1 => mark g f m1 hv) hv ms = some hv' → MarkOut g ms hv hv' := by
  intro ms
  induction ms with
  | nil =>
    intro hv hv' h
    simp only [foldOpt, Option.some.injEq] at h
    subst h
    exact ⟨fun _ h => h, by simp, fun _ h => Or.inl h, fun n hn hnn => absurd hn hnn⟩
  | cons m ms ihl =>
    intro hv hv' h
    simp only [foldOpt] at h
    cases hw : mark g f m hv with
    | none => rw [hw] at h; cases h
    | some h1 =>
      rw [hw] at h
      exact MarkOut.comp (ih m hv h1 hw) (ihl h1 hv' h)

theorem mark_spec (g : Graph) : ∀ f, MarkSpec g f := by
  intro f
  induction f with
  | zero =>
    intro m hv hv' h
    simp [mark] at h
  | succ f ih =>
    intro m hv hv' h
    unfold mark at h
    by_cases hc : hv.contains m = true
    · rw [if_pos hc] at h
      have hm : m ∈ hv := by simpa using hc
      simp only [Option.some.injEq] at h
      subst h
      refine ⟨fun _ h => h, ?_, fun _ h => Or.inl h, fun n hn hnn => absurd hn hnn⟩
      intro r hr
      rw [List.mem_singleton] at hr
      subst hr
      exact hm
    · rw [if_neg hc] at h
      have h1 := markList_spec g f ih (g m) (m :: hv) hv' h
      refine ⟨?_, ?_, ?_, ?_⟩
      · intro n hn
        exact h1.mono n (List.mem_cons_of_mem _ hn)
      · intro r hr
        rw [List.mem_singleton] at hr
        subst hr
        exact h1.mono r List.mem_cons_self
      · intro n hn
        rcases h1.reach n hn with h | ⟨r, hr, hre⟩
        · rcases List.mem_cons.mp h with h | h
          · subst h
            exact Or.inr ⟨n, List.mem_cons_self, Reach.root List.mem_cons_self⟩
          · exact Or.inl h
        · exact Or.inr ⟨m, List.mem_cons_self, reach_of_child g m r n hr hre⟩
      · intro n hn hnn k hk
        by_cases hnm : n = m
        · subst hnm
          exact h1.roots_in k hk
        · refine h1.closed n hn ?_ k hk
          intro hin
          rcases List.mem_cons.mp hin with hin | hin
          · exact hnm hin
          · exact hnn hin

/-- a closed `have` set stays closed, and contains everything reachable from its members -/
theorem MarkOut.closed_all {g : Graph} {roots hv hv' : List Node} (h : MarkOut g roots hv hv')
    (hcl : ∀ n ∈ hv, ∀ k ∈ g n, k ∈ hv) : ∀ n ∈ hv', ∀ k ∈ g n, k ∈ hv' := by
  intro n hn k hk
  by_cases hin : n ∈ hv
  · exact h.mono k (hcl n hin k hk)
  · exact h.closed n hn hin k hk

theorem closed_reach (g : Graph) (hv : List Node) (hcl : ∀ n ∈ hv, ∀ k ∈ g n, k ∈ hv)
    (r : Node) (hr : r ∈ hv) : ∀ n, Reach g [r] n → n ∈ hv := by
  intro n hn
  induction hn with
  | root h =>
    rw [List.mem_singleton] at h
    subst h
    exact hr
  | dep _ hmn ih => exact hcl _ ih _ hmn

end CueVerif.Mvs
