import CueVerif.Model.Modzip
/-! module.escapeString: the escaped form has no upper-case letter and escaping is injective
(distinct module versions get distinct cache directory names also on case-insensitive file
systems). -/
namespace CueVerif.Modzip

def escRune (r : Nat) : List Nat := if 65 ≤ r ∧ r ≤ 90 then [33, r + 32] else [r]

theorem escapeString_eq (s e : Str) (h : escapeString s = some e) :
    (∀ r ∈ s, r ≠ 33 ∧ r < 128) ∧ e = s.flatMap escRune := by
  unfold escapeString at h
  split at h
  · cases h
  · next hn =>
    cases h
    refine ⟨?_, rfl⟩
    intro r hr
    have : ¬ (r == 33 || decide (r ≥ 128)) = true := by
      intro hc; exact hn (List.any_eq_true.mpr ⟨r, hr, hc⟩)
    simp only [Bool.or_eq_true, beq_iff_eq, decide_eq_true_eq, not_or] at this
    omega

theorem escape_no_upper (s e : Str) (h : escapeString s = some e) :
    ∀ b ∈ e, ¬ (65 ≤ b ∧ b ≤ 90) := by
  obtain ⟨_, rfl⟩ := escapeString_eq s e h
  intro b hb
  rw [List.mem_flatMap] at hb
  obtain ⟨r, _, hbr⟩ := hb
  unfold escRune at hbr
  split at hbr
  · simp only [List.mem_cons, List.not_mem_nil, or_false] at hbr; omega
  · simp only [List.mem_cons, List.not_mem_nil, or_false] at hbr; omega

theorem flatMap_escRune_inj (s t : Str) (hs : ∀ r ∈ s, r ≠ 33) (ht : ∀ r ∈ t, r ≠ 33)
    (h : s.flatMap escRune = t.flatMap escRune) : s = t := by
  induction s generalizing t with
  | nil =>
    cases t with
    | nil => rfl
    | cons b t =>
      simp only [List.flatMap_nil, List.flatMap_cons, escRune] at h
      split at h <;> cases h
  | cons a s ih =>
    cases t with
    | nil =>
      simp only [List.flatMap_nil, List.flatMap_cons, escRune] at h
      split at h <;> cases h
    | cons b t =>
      have ha := hs a (List.mem_cons_self)
      have hb := ht b (List.mem_cons_self)
      simp only [List.flatMap_cons, escRune] at h
      have hs' : ∀ r ∈ s, r ≠ 33 := fun r hr => hs r (List.mem_cons_of_mem _ hr)
      have ht' : ∀ r ∈ t, r ≠ 33 := fun r hr => ht r (List.mem_cons_of_mem _ hr)
      split at h <;> split at h
      · simp only [List.cons_append, List.nil_append, List.cons.injEq, true_and] at h
        have : a = b := by omega
        rw [this, ih t hs' ht' h.2]
      · simp only [List.cons_append, List.nil_append, List.cons.injEq] at h
        exact absurd h.1.symm hb
      · simp only [List.cons_append, List.nil_append, List.cons.injEq] at h
        exact absurd h.1 ha
      · simp only [List.cons_append, List.nil_append, List.cons.injEq] at h
        rw [h.1, ih t hs' ht' h.2]

theorem escape_injective (s t e : Str) (hs : escapeString s = some e)
    (ht : escapeString t = some e) : s = t := by
  obtain ⟨h1, rfl⟩ := escapeString_eq s e hs
  obtain ⟨h2, h3⟩ := escapeString_eq t _ ht
  exact flatMap_escRune_inj s t (fun r hr => (h1 r hr).1) (fun r hr => (h2 r hr).1) h3

end CueVerif.Modzip
