/-
C12 round trip, part 3: invariants of the open table arrays, the lookup of `findArrayPrefix`,
and what `step` does on the three kinds of headers the encoder emits.
-/
import CueVerif.Proofs.TomlRoundInl
open CueVerif.Toml CueVerif.Toml.Spec
namespace CueVerif.Toml.Round

/-- the record of the open array `[[K]]` whose list sits at `base` and has `n` elements -/
def mkArr (K : List Name) (base : Path) (n : Nat) : OpenArr :=
  { rkey := keyPath K, level := K.length, list := base, len := n, last := base ++ [.idx (n - 1)] }

def WF (arrays : List OpenArr) : Prop := ∀ a ∈ arrays, a.level = a.rkey.length ∧ 0 < a.level

/-- an earlier open array never sits at or below a later one -/
def ArrOrd (arrays : List OpenArr) : Prop := arrays.Pairwise (fun b a => ¬ a.rkey <+: b.rkey)

theorem ArrOrd.uniq : ∀ {l : List OpenArr}, ArrOrd l → ∀ {a b : OpenArr}, a ∈ l → b ∈ l →
    a.rkey = b.rkey → a = b
  | [], _, _, _, ha, _, _ => by cases ha
  | c :: l, h, a, b, ha, hb, he => by
    have h' := List.pairwise_cons.mp h
    rcases List.mem_cons.mp ha with ea | ha' <;> rcases List.mem_cons.mp hb with eb | hb'
    · rw [ea, eb]
    · subst ea
      exact absurd (he ▸ List.prefix_refl _) (h'.1 b hb')
    · subst eb
      exact absurd (he ▸ List.prefix_refl _) (h'.1 a ha')
    · exact ArrOrd.uniq h'.2 ha' hb' he

/-- `P` is the position the decoder computes for the header `K` from the open arrays -/
def Encl (arrays : List OpenArr) (K : List Name) (P : Path) : Prop :=
  (∃ a ∈ arrays, a.rkey <+: keyPath K ∧ (∀ b ∈ arrays, b.rkey <+: keyPath K → b.level ≤ a.level) ∧
     P = a.last ++ keyPath (K.drop a.level)) ∨
  ((∀ b ∈ arrays, ¬ b.rkey <+: keyPath K) ∧ P = keyPath K)

theorem prefix_ne_sext {A k : Path} (h : A <+: k) (hne : A ≠ k) : SExt A k := by
  obtain ⟨t, rfl⟩ := h
  cases t with
  | nil => simp at hne
  | cons x t => exact ⟨x, t, rfl⟩

theorem mpl_skip (key : Path) : ∀ (l : List OpenArr) (i m : Nat) (best : Option Nat),
    (∀ b ∈ l, strictPrefix b.rkey key = true → b.level ≤ m) →
    maxPrefixLoop key l i m best = best
  | [], _, _, _, _ => rfl
  | b :: l, i, m, best, h => by
    have hb := h b (List.mem_cons_self ..)
    have : (strictPrefix b.rkey key && decide (m < b.level)) = false := by
      cases hs : strictPrefix b.rkey key
      · rfl
      · have := hb hs
        simp; omega
    rw [maxPrefixLoop, this]
    exact mpl_skip key l (i + 1) m best (fun c hc => h c (List.mem_cons_of_mem _ hc))

theorem mpl_find (key : Path) (a : OpenArr) (ha : strictPrefix a.rkey key = true) :
    ∀ (l : List OpenArr) (i m : Nat) (best : Option Nat), a ∈ l → m < a.level →
    (∀ b ∈ l, strictPrefix b.rkey key = true → b.level ≤ a.level ∧ (b.level = a.level → b = a)) →
    ∃ j, maxPrefixLoop key l i m best = some (i + j) ∧ l[j]? = some a
  | [], _, _, _, hm, _, _ => by cases hm
  | b :: l, i, m, best, hm, hlt, h => by
    have hl : ∀ c ∈ l, strictPrefix c.rkey key = true →
        c.level ≤ a.level ∧ (c.level = a.level → c = a) :=
      fun c hc => h c (List.mem_cons_of_mem _ hc)
    rw [maxPrefixLoop]
    by_cases hc : (strictPrefix b.rkey key && decide (m < b.level)) = true
    · rw [if_pos hc]
      simp only [Bool.and_eq_true, decide_eq_true_eq] at hc
      have hb := h b (List.mem_cons_self ..) hc.1
      by_cases hlev : b.level = a.level
      · have hba := hb.2 hlev
        subst hba
        refine ⟨0, ?_, by simp⟩
        rw [mpl_skip key l (i + 1) b.level (some i) (fun c hc hs => (hl c hc hs).1)]
        simp
      · have hne : a ≠ b := fun e => hlev (e ▸ rfl)
        have hal : a ∈ l := by
          rcases List.mem_cons.mp hm with e | e
          · exact absurd e hne
          · exact e
        obtain ⟨j, hj, hg⟩ := mpl_find key a ha l (i + 1) b.level (some i) hal (by omega) hl
        exact ⟨j + 1, by rw [hj]; congr 1; omega, by simpa using hg⟩
    · rw [if_neg hc]
      have hne : a ≠ b := by
        intro e
        subst e
        apply hc
        simp [ha, hlt]
      have hal : a ∈ l := by
        rcases List.mem_cons.mp hm with e | e
        · exact absurd e hne
        · exact e
      obtain ⟨j, hj, hg⟩ := mpl_find key a ha l (i + 1) m best hal hlt hl
      exact ⟨j + 1, by rw [hj]; congr 1; omega, by simpa using hg⟩

/-- the lookup of a header that is not itself an open array: the innermost enclosing array -/
theorem lookup_encl {arrays : List OpenArr} {K : List Name} {P : Path}
    (hw : WF arrays) (ho : ArrOrd arrays) (he : Encl arrays K P)
    (hne : ∀ a ∈ arrays, a.rkey ≠ keyPath K) :
    (maxPrefixLoop (keyPath K) arrays 0 0 none = none ∧ P = keyPath K) ∨
    (∃ i a, maxPrefixLoop (keyPath K) arrays 0 0 none = some i ∧ arrays[i]? = some a ∧
      a.level < K.length ∧ a.rkey ≠ keyPath K ∧ a.last ++ keyPath (K.drop a.level) = P) := by
  rcases he with ⟨a, ha, hp, hmax, rfl⟩ | ⟨hno, rfl⟩
  · right
    have hs : strictPrefix a.rkey (keyPath K) = true :=
      strictPrefix_iff.mpr (prefix_ne_sext hp (hne a ha))
    have hlen : a.level < K.length := by
      obtain ⟨x, t, e⟩ := strictPrefix_iff.mp hs
      have := congrArg List.length e
      rw [keyPath_length] at this
      simp at this
      have := (hw a ha).1
      omega
    obtain ⟨j, hj, hg⟩ := mpl_find (keyPath K) a hs arrays 0 0 none ha (hw a ha).2
      (fun b hb hsb => by
        have hpb : b.rkey <+: keyPath K := (strictPrefix_iff.mp hsb).isPrefix
        refine ⟨hmax b hb hpb, fun hl => ?_⟩
        have hll : b.rkey.length = a.rkey.length := by
          have := (hw a ha).1
          have := (hw b hb).1
          omega
        have hpre := List.prefix_of_prefix_length_le hpb hp (Nat.le_of_eq hll)
        exact (ho.uniq ha hb (hpre.eq_of_length hll).symm).symm)
    exact ⟨j, a, by simpa using hj, hg, hlen, hne a ha, rfl⟩
  · left
    refine ⟨mpl_skip _ _ _ _ _ (fun b hb hs => ?_), rfl⟩
    exact absurd (strictPrefix_iff.mp hs).isPrefix (hno b hb)

theorem Encl_self {arrays : List OpenArr} {K : List Name} {base : Path} {n : Nat}
    (hw : WF arrays) (hm : mkArr K base (n + 1) ∈ arrays) : Encl arrays K (base ++ [.idx n]) := by
  left
  refine ⟨_, hm, List.prefix_refl _, fun b hb hp => ?_, ?_⟩
  · have := (hw b hb).1
    have := hp.length_le
    rw [keyPath_length] at this
    simp only [mkArr]
    omega
  · simp [mkArr, keyPath]

theorem keyPath_append (A B : List Name) : keyPath (A ++ B) = keyPath A ++ keyPath B := by
  simp [keyPath]

theorem Encl_extend {arrays : List OpenArr} {K : List Name} {k : Name} {P : Path}
    (hw : WF arrays) (he : Encl arrays K P) (hne : ∀ a ∈ arrays, a.rkey ≠ keyPath (K ++ [k])) :
    Encl arrays (K ++ [k]) (P ++ [.key k]) := by
  have hdown : ∀ b ∈ arrays, b.rkey <+: keyPath (K ++ [k]) → b.rkey <+: keyPath K := by
    intro b hb hp
    rw [keyPath_snoc] at hp
    rcases List.prefix_concat_iff.mp hp with h | h
    · exact absurd (by rw [keyPath_snoc]; exact h) (hne b hb)
    · exact h
  rcases he with ⟨a, ha, hp, hmax, rfl⟩ | ⟨hno, rfl⟩
  · left
    refine ⟨a, ha, ?_, fun b hb hpb => hmax b hb (hdown b hb hpb), ?_⟩
    · rw [keyPath_snoc]; exact hp.trans (List.prefix_append _ _)
    · have hl : a.level ≤ K.length := by
        have := (hw a ha).1
        have := hp.length_le
        rw [keyPath_length] at this
        omega
      rw [List.drop_append_of_le_length hl, keyPath_append]
      simp [keyPath]
  · right
    exact ⟨fun b hb hpb => hno b hb (hdown b hb hpb), by rw [keyPath_snoc]⟩

/-- nothing seen and no open array at or below the header `K'` -/
def FreshAt (K' : List Name) (s : St) : Prop :=
  (∀ key ∈ s.seen, ¬ keyPath K' <+: key) ∧ (∀ a ∈ s.arrays, ¬ keyPath K' <+: a.rkey)

theorem FreshAt.noArray {K' : List Name} {s : St} (hf : FreshAt K' s) :
    findArray s.arrays (keyPath K') = none :=
  findArray_none (fun a ha he => hf.2 a ha (he ▸ List.prefix_refl _))

theorem step_table {s : St} {K' : List Name} {Q : Path} (hw : WF s.arrays) (ho : ArrOrd s.arrays)
    (he : Encl s.arrays K' Q) (hf : FreshAt K' s) :
    step s (.table K') = .ok { s with seen := keyPath K' :: s.seen, out := s.out ++ [(Q, .tbl)],
                                      cur := Q, curKey := keyPath K' } := by
  have hsn : s.seen.contains (keyPath K') = false :=
    contains_false (fun hm => hf.1 _ hm (List.prefix_refl _))
  have hne : ∀ a ∈ s.arrays, a.rkey ≠ keyPath K' :=
    fun a ha e => hf.2 a ha (e ▸ List.prefix_refl _)
  simp only [step, hsn, findArrayPrefix, hf.noArray]
  rcases lookup_encl hw ho he hne with ⟨h, rfl⟩ | ⟨i, a, h, hi, hl, hna, rfl⟩
  · simp [h]
  · have h1 : (a.rkey == keyPath K') = false := by simpa using hna
    have h2 : ¬ K'.length ≤ a.level := by omega
    simp [h, hi, h1, h2]

theorem step_arrayTable_fresh {s : St} {K' : List Name} {base : Path} (hw : WF s.arrays)
    (ho : ArrOrd s.arrays) (he : Encl s.arrays K' base) (hf : FreshAt K' s) :
    step s (.arrayTable K') = .ok { s with
      out := s.out ++ [(base, .arr), (base ++ [.idx 0], .tbl)], cur := base ++ [.idx 0],
      curKey := keyPath K' ++ [.idx 0], arrays := s.arrays ++ [mkArr K' base 1] } := by
  have hsn : s.seen.contains (keyPath K') = false :=
    contains_false (fun hm => hf.1 _ hm (List.prefix_refl _))
  have hne : ∀ a ∈ s.arrays, a.rkey ≠ keyPath K' :=
    fun a ha e => hf.2 a ha (e ▸ List.prefix_refl _)
  simp only [step, hsn, findArrayPrefix, hf.noArray]
  rcases lookup_encl hw ho he hne with ⟨h, rfl⟩ | ⟨i, a, h, hi, hl, hna, rfl⟩
  · simp [h, mkArr]
  · have h1 : (a.level == K'.length) = false := by simp; omega
    have h2 : ¬ K'.length ≤ a.level := by omega
    simp [h, hi, h1, h2, mkArr]

theorem findIdx_append_cons {α : Type} (p : α → Bool) (a : α) (post : List α) :
    ∀ (pre : List α), (∀ b ∈ pre, p b = false) → p a = true →
    List.findIdx? p (pre ++ a :: post) = some pre.length
  | [], _, ha => by simp [List.findIdx?_cons, ha]
  | b :: pre, h, ha => by
    have hb := h b (List.mem_cons_self ..)
    have := findIdx_append_cons p a post pre (fun c hc => h c (List.mem_cons_of_mem _ hc)) ha
    simp [List.findIdx?_cons, hb, this]

theorem step_arrayTable_next {s : St} {K' : List Name} {base : Path} {i : Nat}
    {pre post : List OpenArr} (harr : s.arrays = pre ++ mkArr K' base i :: post)
    (ho : ArrOrd s.arrays) (hseen : keyPath K' ∉ s.seen) :
    step s (.arrayTable K') = .ok { s with
      seen := s.seen.filter (fun k => !strictPrefix (keyPath K') k),
      arrays := pre ++ mkArr K' base (i + 1) ::
        post.filter (fun a => !strictPrefix (keyPath K') a.rkey),
      out := s.out ++ [(base ++ [.idx i], .tbl)], cur := base ++ [.idx i],
      curKey := keyPath K' ++ [.idx i] } := by
  have hsn : s.seen.contains (keyPath K') = false := contains_false hseen
  rw [ArrOrd, harr, List.pairwise_append] at ho
  have hpre : ∀ b ∈ pre, ¬ keyPath K' <+: b.rkey :=
    fun b hb => ho.2.2 b hb (mkArr K' base i) (List.mem_cons_self ..)
  have hfa : findArray s.arrays (keyPath K') = some pre.length := by
    rw [findArray, harr]
    apply findIdx_append_cons
    · intro b hb
      have := hpre b hb
      simp only [beq_eq_false_iff_ne, ne_eq]
      exact fun e => this (e ▸ List.prefix_refl _)
    · simp [mkArr]
  have hfilt : (pre ++ mkArr K' base i :: post).filter (fun a => !strictPrefix (keyPath K') a.rkey)
      = pre ++ mkArr K' base i :: post.filter (fun a => !strictPrefix (keyPath K') a.rkey) := by
    rw [List.filter_append, List.filter_cons]
    have h1 : pre.filter (fun a => !strictPrefix (keyPath K') a.rkey) = pre := by
      rw [List.filter_eq_self]
      intro b hb
      have := hpre b hb
      simp only [Bool.not_eq_true', strictPrefix_false_iff]
      exact fun h => this h.isPrefix
    have h2 : (!strictPrefix (keyPath K') (mkArr K' base i).rkey) = true := by
      simp only [Bool.not_eq_true', strictPrefix_false_iff, mkArr]
      exact SExt_irrefl _
    rw [h1, if_pos h2]
  have hfa2 : findArray (pre ++ mkArr K' base i ::
      post.filter (fun a => !strictPrefix (keyPath K') a.rkey)) (keyPath K') = some pre.length := by
    rw [findArray]
    apply findIdx_append_cons
    · intro b hb
      have := hpre b hb
      simp only [beq_eq_false_iff_ne, ne_eq]
      exact fun e => this (e ▸ List.prefix_refl _)
    · simp [mkArr]
  simp only [step, hsn, findArrayPrefix, hfa]
  simp only [harr, hfilt, hfa2]
  simp [mkArr]

end CueVerif.Toml.Round
