/-
`Scan` is total and makes progress (C09): with fuel above the measure `mu` every call returns
a token, offsets are ordered, and `mu` strictly decreases unless EOF is returned.
Core Lean only.
-/
import CueVerif.Proofs.ScanStep
namespace CueVerif.Scan

theorem mu_bounds (st : St) : 2 * st.cur.length ≤ mu st ∧ mu st ≤ 2 * st.cur.length + 1 := by
  unfold mu; split <;> omega

theorem mu_false (st : St) (h : st.insertEOL = false) : mu st = 2 * st.cur.length := by
  unfold mu; simp [h]

theorem mu_true (st : St) (h : st.insertEOL = true) : mu st = 2 * st.cur.length + 1 := by
  unfold mu; simp [h]

/-- a scan function that is total and good below the measure bound `F` -/
def ScanOK (n F : Nat) (scan : St → Option (Tok × St)) : Prop :=
  ∀ st, mu st < F → ∃ t st', scan st = some (t, st') ∧ GoodStep n st t st'

theorem mu_mk_le (c : Str) (i : Bool) (s : List QI) : mu ⟨c, i, s⟩ ≤ 2 * c.length + 1 := (mu_bounds ⟨c, i, s⟩).2
theorem mu_mk_ge (c : Str) (i : Bool) (s : List QI) : 2 * c.length ≤ mu ⟨c, i, s⟩ := (mu_bounds ⟨c, i, s⟩).1

theorem attrTokens_ok (n F : Nat) (scan : St → Option (Tok × St)) (hs : ScanOK n F scan) :
    ∀ f close st e, mu st < f → f ≤ F →
      ∃ st' e', attrTokens scan f close st e = some (st', e') ∧ mu st' ≤ mu st := by
  intro f
  induction f with
  | zero => intro close st e h; omega
  | succ f ih =>
    intro close st e hmu hF
    obtain ⟨t, st1, hscan, hg⟩ := hs st (by omega)
    obtain ⟨_, _, _, _, hle, hprog⟩ := hg
    unfold attrTokens
    simp only [hscan]
    by_cases h1 : (t.kind == close) = true
    · rw [if_pos h1]; exact ⟨_, _, rfl, hle⟩
    · rw [if_neg h1]
      by_cases h2 : (t.kind == Kind.EOF) = true
      · rw [if_pos h2]; exact ⟨_, _, rfl, hle⟩
      · rw [if_neg h2]
        have hlt : mu st1 < mu st := by
          rcases hprog with h | h
          · rw [h] at h2; exact absurd rfl h2
          · exact h
        by_cases h3 : (t.kind == Kind.INTERPOLATION) = true
        · rw [if_pos h3]
          have hrp := recoverParen_len st1.cur 1
          have b1 := mu_bounds st1
          have hm : mu ⟨recoverParen 1 st1.cur, st1.insertEOL, st1.stack.dropLast⟩ ≤ mu st1 := by
            unfold mu; dsimp only; split <;> omega
          obtain ⟨st', e', h1', h2'⟩ := ih close ⟨recoverParen 1 st1.cur, st1.insertEOL, st1.stack.dropLast⟩ true
            (by omega) (by omega)
          exact ⟨st', e', h1', by omega⟩
        · rw [if_neg h3]
          split
          · rename_i c _
            obtain ⟨st2, e2, h1', h2'⟩ := ih c st1 (e || t.err) (by omega) (by omega)
            simp only [h1']
            obtain ⟨st', e', h3', h4'⟩ := ih close st2 e2 (by omega) (by omega)
            exact ⟨st', e', h3', by omega⟩
          · obtain ⟨st', e', h1', h2'⟩ := ih close st1 (e || t.err || isCloser t.kind) (by omega) (by omega)
            exact ⟨st', e', h1', by omega⟩

theorem scanTok_ok (M : Mode) (U : Uni) (n : Nat) : ∀ fuel, ScanOK n fuel (scanTok M U n fuel) := by
  intro fuel
  induction fuel with
  | zero => intro st h; omega
  | succ fuel ih =>
    intro st hmu
    have hws := skipWs_len st.insertEOL st.cur
    have hc := classify_ok M U st.insertEOL (skipWs st.insertEOL st.cur)
    have bst := mu_bounds st
    unfold scanTok
    dsimp only
    generalize classify M U st.insertEOL (skipWs st.insertEOL st.cur) = act at hc
    cases act with
    | done k l rest ins e push =>
      dsimp only
      refine ⟨_, _, rfl, ?_⟩
      unfold GoodStep
      dsimp only
      rcases hc with ⟨hk, hcur, hrest, hins⟩ | hlt
      · have h0 : (skipWs st.insertEOL st.cur).length = 0 := by rw [hcur]; rfl
        subst hk hrest hins
        simp only [List.length_nil]
        refine ⟨by omega, by omega, by omega, by first | rfl | trivial, ?_, Or.inl (by first | rfl | trivial)⟩
        unfold mu; dsimp only
        cases M.dontInsertCommas <;> cases st.insertEOL <;> simp
      · refine ⟨by omega, by omega, by omega, rfl, Nat.le_trans (mu_mk_le _ _ _) (by omega),
          Or.inr (Nat.lt_of_le_of_lt (mu_mk_le _ _ _) (by omega))⟩
    | autoComma rest =>
      dsimp only
      refine ⟨_, _, rfl, ?_⟩
      unfold GoodStep
      dsimp only
      have hm : mu { st with cur := rest, insertEOL := false } = 2 * rest.length := mu_false _ rfl
      rcases hc with hlt | ⟨heq, hins⟩
      · refine ⟨by omega, by omega, by omega, rfl, by omega, Or.inr (by omega)⟩
      · subst heq
        have := mu_true st hins
        refine ⟨by omega, by omega, by omega, rfl, by omega, Or.inr (by omega)⟩
    | again start =>
      dsimp only
      have hc' : start.length < (skipWs st.insertEOL st.cur).length := hc
      have hm : mu { st with cur := start, insertEOL := false } = 2 * start.length := mu_false _ rfl
      obtain ⟨t, s', hscan, hg⟩ := ih { st with cur := start, insertEOL := false } (by omega)
      simp only [hscan]
      refine ⟨_, _, rfl, ?_⟩
      obtain ⟨g1, g2, g3, g4, g5, g6⟩ := hg
      dsimp only at g1 g2
      refine ⟨by omega, by dsimp only; omega, g3, g4, by omega, Or.inr (by omega)⟩
    | attr c1 =>
      dsimp only
      have hc' : c1.length < (skipWs st.insertEOL st.cur).length := hc
      have b1 := mu_bounds { st with cur := c1 }
      dsimp only at b1
      obtain ⟨t, st1, hscan, hg⟩ := ih { st with cur := c1 } (by omega)
      simp only [hscan]
      obtain ⟨g1, g2, g3, g4, g5, g6⟩ := hg
      dsimp only at g1 g2
      have bs1 := mu_bounds st1
      split
      · obtain ⟨st2, e2, hat, hle⟩ := attrTokens_ok n fuel (scanTok M U n fuel) ih fuel .RPAREN st1 t.err
          (by omega) (Nat.le_refl _)
        simp only [hat]
        refine ⟨_, _, rfl, ?_⟩
        have bs2 := mu_bounds st2
        unfold GoodStep
        dsimp only
        refine ⟨by omega, by omega, by omega, rfl, Nat.le_trans (mu_mk_le _ _ _) (by omega),
          Or.inr (Nat.lt_of_le_of_lt (mu_mk_le _ _ _) (by omega))⟩
      · refine ⟨_, _, rfl, ?_⟩
        unfold GoodStep
        dsimp only
        refine ⟨by omega, by omega, by omega, rfl, Nat.le_trans (mu_mk_le _ _ _) (by omega),
          Or.inr (Nat.lt_of_le_of_lt (mu_mk_le _ _ _) (by omega))⟩

end CueVerif.Scan
