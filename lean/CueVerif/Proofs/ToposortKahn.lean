/-
C02 — the Kahn loop of toposort.Graph.Sort: it never indexes an empty ready list, the fuel
suffices, the output is a permutation of the nodes and respects every edge between different
strongly connected components.
-/
import CueVerif.Proofs.Toposort
namespace CueVerif.Toposort
open CueVerif.Sanitize (TotalPreorder SortedBy)

/-! ### two list facts (core Lean has no Subperm) -/

theorem length_le_of_nodup_subset {α : Type} [DecidableEq α] :
    ∀ (l1 l2 : List α), l1.Nodup → (∀ x ∈ l1, x ∈ l2) → l1.length ≤ l2.length
  | [], _, _, _ => Nat.zero_le _
  | a :: t, l2, hn, hs => by
    have ha : a ∈ l2 := hs a (by simp)
    have hn' := List.nodup_cons.1 hn
    have hsub : ∀ x ∈ t, x ∈ l2.erase a := by
      intro x hx
      have hne : x ≠ a := fun h => hn'.1 (h ▸ hx)
      exact (List.mem_erase_of_ne hne).2 (hs x (List.mem_cons_of_mem _ hx))
    have ih := length_le_of_nodup_subset t (l2.erase a) hn'.2 hsub
    rw [List.length_erase_of_mem ha] at ih
    have : 0 < l2.length := List.length_pos_of_mem ha
    simp only [List.length_cons]; omega

theorem perm_of_nodup_subset_length {α : Type} [DecidableEq α] :
    ∀ (l1 l2 : List α), l1.Nodup → l2.Nodup → (∀ x ∈ l1, x ∈ l2) → l2.length ≤ l1.length → l1.Perm l2
  | [], l2, _, _, _, hl => by
    have : l2 = [] := List.eq_nil_of_length_eq_zero (by simpa using hl)
    rw [this]
  | a :: t, l2, hn, hn2, hs, hl => by
    have ha : a ∈ l2 := hs a (by simp)
    have hn' := List.nodup_cons.1 hn
    have hsub : ∀ x ∈ t, x ∈ l2.erase a := by
      intro x hx
      have hne : x ≠ a := fun h => hn'.1 (h ▸ hx)
      exact (List.mem_erase_of_ne hne).2 (hs x (List.mem_cons_of_mem _ hx))
    have hl' : (l2.erase a).length ≤ t.length := by
      rw [List.length_erase_of_mem ha]
      simp only [List.length_cons] at hl; omega
    have ih := perm_of_nodup_subset_length t (l2.erase a) hn'.2
      (List.Nodup.sublist (List.erase_sublist) hn2) hsub hl'
    exact (ih.cons a).trans (List.perm_cons_erase ha).symm

/-! ### reachability and components -/

theorem Reach.trans {g : Graph} {u v w : Label} (h1 : Reach g u v) (h2 : Reach g v w) : Reach g u w := by
  induction h1 with
  | refl => exact h2
  | step hw _ ih => exact .step hw (ih h2)

theorem Reach.edge {g : Graph} {u v : Label} (h : v ∈ g.out u) : Reach g u v := .step h (.refl v)

theorem IsSCC.unique {g : Graph} {comps : List Comp} (h : IsSCC g comps) {c d : Comp} {u : Label}
    (hc : c ∈ comps) (hd : d ∈ comps) (huc : u ∈ c) (hud : u ∈ d) : c = d :=
  (h.scc c hc d hd u huc u hud).2 ⟨.refl u, .refl u⟩

theorem IsSCC.intra {g : Graph} {comps : List Comp} (h : IsSCC g comps) {c : Comp} {u v : Label}
    (hc : c ∈ comps) (hu : u ∈ c) (hv : v ∈ c) : Reach g u v :=
  ((h.scc c hc c hc u hu v hv).1 rfl).1

theorem nodup_of_flatten_nodup : ∀ (l : List Comp), l.flatten.Nodup → (∀ c ∈ l, c ≠ []) → l.Nodup
  | [], _, _ => List.nodup_nil
  | c :: rest, hn, hne => by
    rw [List.flatten_cons, List.nodup_append] at hn
    rw [List.nodup_cons]
    refine ⟨?_, nodup_of_flatten_nodup rest hn.2.1 (fun d hd => hne d (List.mem_cons_of_mem _ hd))⟩
    intro hcr
    have hcne : c ≠ [] := hne c (by simp)
    cases c with
    | nil => exact hcne rfl
    | cons a t =>
      have h1 : a ∈ rest.flatten := List.mem_flatten.2 ⟨a :: t, hcr, by simp⟩
      exact hn.2.2 a (by simp) a h1 rfl

theorem IsSCC.comps_nodup {g : Graph} {comps : List Comp} (h : IsSCC g comps) : comps.Nodup :=
  nodup_of_flatten_nodup comps h.nodup h.nonempty

theorem flatten_map_perm (f : Comp → Comp) (hf : ∀ c, (f c).Perm c) :
    ∀ l : List Comp, (l.map f).flatten.Perm l.flatten
  | [] => List.Perm.refl _
  | c :: rest => by
    simp only [List.map_cons, List.flatten_cons]
    exact List.Perm.append (hf c) (flatten_map_perm f hf rest)

/-- sorting every component's node list keeps the SCC contract -/
theorem IsSCC.map {g : Graph} {comps : List Comp} (h : IsSCC g comps) (f : Comp → Comp)
    (hf : ∀ c, (f c).Perm c) : IsSCC g (comps.map f) := by
  refine ⟨?_, ?_, ?_, ?_⟩
  · exact (flatten_map_perm f hf comps).nodup_iff.2 h.nodup
  · intro c' hc'
    rcases List.mem_map.1 hc' with ⟨c, hc, rfl⟩
    intro hnil
    have := hf c
    rw [hnil] at this
    exact h.nonempty c hc (List.Perm.eq_nil this.symm)
  · intro v
    rw [h.cover v]
    constructor
    · rintro ⟨c, hc, hv⟩
      exact ⟨f c, List.mem_map.2 ⟨c, hc, rfl⟩, (hf c).mem_iff.2 hv⟩
    · rintro ⟨c', hc', hv⟩
      rcases List.mem_map.1 hc' with ⟨c, hc, rfl⟩
      exact ⟨c, hc, (hf c).mem_iff.1 hv⟩
  · intro c' hc' d' hd' u hu v hv
    rcases List.mem_map.1 hc' with ⟨c, hc, rfl⟩
    rcases List.mem_map.1 hd' with ⟨d, hd, rfl⟩
    have hu' := (hf c).mem_iff.1 hu
    have hv' := (hf d).mem_iff.1 hv
    constructor
    · intro hEq
      have hud : u ∈ d := (hf d).mem_iff.1 (hEq ▸ hu)
      have hcd : c = d := h.unique hc hd hu' hud
      exact (h.scc c hc d hd u hu' v hv').1 hcd
    · intro hr
      rw [(h.scc c hc d hd u hu' v hv').2 hr]

/-! ### component-level edges -/

theorem cedge_iff (g : Graph) (c d : Comp) :
    cedge g c d = true ↔ c ≠ d ∧ ∃ u ∈ c, ∃ v ∈ g.out u, v ∈ d := by
  simp [cedge, List.any_eq_true]

theorem mem_incoming (g : Graph) (cs : List Comp) (c d : Comp) :
    d ∈ incoming g cs c ↔ d ∈ cs ∧ cedge g d c = true := by
  simp [incoming, List.mem_filter]

theorem mem_outgoing (g : Graph) (cs : List Comp) (c d : Comp) :
    d ∈ outgoing g cs c ↔ d ∈ cs ∧ cedge g c d = true := by
  simp [outgoing, List.mem_filter]

/-- component-level reachability -/
def CReach (g : Graph) (c d : Comp) : Prop := ∃ u ∈ c, ∃ v ∈ d, Reach g u v

theorem CReach.trans {g : Graph} {comps : List Comp} (h : IsSCC g comps) {c d e : Comp}
    (hd : d ∈ comps) (h1 : CReach g c d) (h2 : CReach g d e) : CReach g c e := by
  rcases h1 with ⟨u, hu, v, hv, r1⟩
  rcases h2 with ⟨v', hv', w, hw, r2⟩
  exact ⟨u, hu, w, hw, r1.trans ((h.intra hd hv hv').trans r2)⟩

theorem CReach.antisymm {g : Graph} {comps : List Comp} (h : IsSCC g comps) {c d : Comp}
    (hc : c ∈ comps) (hd : d ∈ comps) (h1 : CReach g c d) (h2 : CReach g d c) : c = d := by
  rcases h1 with ⟨u, hu, v, hv, r1⟩
  rcases h2 with ⟨v', hv', u', hu', r2⟩
  exact (h.scc c hc d hd u hu v hv).2 ⟨r1, (h.intra hd hv hv').trans (r2.trans (h.intra hc hu' hu))⟩

theorem cedge_creach {g : Graph} {c d : Comp} (h : cedge g c d = true) : CReach g c d ∧ c ≠ d := by
  rcases (cedge_iff g c d).1 h with ⟨hne, u, hu, v, hv, hvd⟩
  exact ⟨⟨u, hu, v, hvd, Reach.edge hv⟩, hne⟩

/-- a non-empty set of components has one without a predecessor inside the set: the
condensation is acyclic -/
theorem exists_source {g : Graph} {comps : List Comp} (h : IsSCC g comps) :
    ∀ U : List Comp, U ≠ [] → (∀ c ∈ U, c ∈ comps) →
      ∃ m ∈ U, ∀ d ∈ U, ¬ (CReach g d m ∧ d ≠ m)
  | [], hne, _ => absurd rfl hne
  | [a], _, _ => ⟨a, by simp, by
      intro d hd
      have : d = a := by simpa using hd
      subst this; intro h'; exact h'.2 rfl⟩
  | a :: b :: U, _, hsub => by
    have ih := exists_source h (b :: U) (by simp) (fun c hc => hsub c (List.mem_cons_of_mem _ hc))
    rcases ih with ⟨m, hm, hmin⟩
    have ha : a ∈ comps := hsub a (by simp)
    have hmc : m ∈ comps := hsub m (List.mem_cons_of_mem _ hm)
    by_cases ham : CReach g a m ∧ a ≠ m
    · refine ⟨a, by simp, ?_⟩
      intro d hd hda
      rcases List.mem_cons.1 hd with rfl | hd'
      · exact hda.2 rfl
      · -- d < a < m, so d < m
        have hdc : d ∈ comps := hsub d (List.mem_cons_of_mem _ hd')
        have hdm : CReach g d m := CReach.trans h ha hda.1 ham.1
        refine hmin d hd' ⟨hdm, ?_⟩
        intro hEq
        subst hEq
        exact hda.2 (CReach.antisymm h hdc ha hda.1 ham.1)
    · refine ⟨m, List.mem_cons_of_mem _ hm, ?_⟩
      intro d hd
      rcases List.mem_cons.1 hd with rfl | hd'
      · exact ham
      · exact hmin d hd'

/-! ### the invariant of the loop -/

/-- `visited` (newest first): every component was visited after all its predecessors -/
def Good (g : Graph) (cs : List Comp) : List Comp → Prop
  | [] => True
  | c :: older => (∀ d ∈ incoming g cs c, d ∈ older) ∧ Good g cs older

theorem Good.closed {g : Graph} {cs : List Comp} : ∀ {vis : List Comp}, Good g cs vis →
    ∀ c ∈ vis, ∀ d ∈ incoming g cs c, d ∈ vis
  | [], _, c, hc, _, _ => by cases hc
  | a :: older, hg, c, hc, d, hd => by
    rcases List.mem_cons.1 hc with rfl | hc'
    · exact List.mem_cons_of_mem _ (hg.1 d hd)
    · exact List.mem_cons_of_mem _ (Good.closed hg.2 c hc' d hd)

structure Inv (g : Graph) (cs : List Comp) (st : St) : Prop where
  vis_nodup : st.visited.Nodup
  vis_sub : ∀ c ∈ st.visited, c ∈ cs
  good : Good g cs st.visited
  rdy_nodup : st.ready.Nodup
  rdy_sound : ∀ c ∈ st.ready, c ∈ cs ∧ c ∉ st.visited ∧ ∀ d ∈ incoming g cs c, d ∈ st.visited
  rdy_complete : ∀ c ∈ cs, c ∉ st.visited → (∀ d ∈ incoming g cs c, d ∈ st.visited) → c ∈ st.ready
  sorted_eq : st.sorted = st.visited.reverse.flatten

theorem kahn_done (fixed : Bool) (S : SortFn) (g : Graph) (cs : List Comp) (fuel : Nat) (st : St)
    (h : st.visited.length = cs.length) : kahn fixed S g cs fuel st = .ok st.sorted := by
  cases fuel <;> simp [kahn, h]

/-- the state after visiting `cur` -/
def next (fixed : Bool) (S : SortFn) (g : Graph) (cs : List Comp) (st : St) (cur : Comp) (rest : List Comp) : St :=
  let visited := cur :: st.visited
  let newly := (outgoing g cs cur).filter (fun nx => (incoming g cs nx).all (fun rq => visited.contains rq))
  { ready := if newly.isEmpty then rest else S.sort (cmpComp fixed) (rest ++ newly),
    visited := visited, sorted := st.sorted ++ cur }

theorem kahn_step (fixed : Bool) (S : SortFn) (g : Graph) (cs : List Comp) (fuel : Nat) (st : St)
    (cur : Comp) (rest : List Comp) (h : st.visited.length ≠ cs.length) (hr : st.ready = cur :: rest)
    (hv : st.visited.contains cur = false) :
    kahn fixed S g cs (fuel + 1) st = kahn fixed S g cs fuel (next fixed S g cs st cur rest) := by
  rw [kahn]
  simp only [h, if_false, hr, hv, next]
  rfl

theorem mem_newly (g : Graph) (cs : List Comp) (visited : List Comp) (cur c : Comp) :
    c ∈ (outgoing g cs cur).filter (fun nx => (incoming g cs nx).all (fun rq => visited.contains rq)) ↔
      c ∈ cs ∧ cedge g cur c = true ∧ ∀ d ∈ incoming g cs c, d ∈ visited := by
  simp [List.mem_filter, mem_outgoing, List.all_eq_true, and_assoc]

theorem inv_next (fixed : Bool) (S : SortFn) (hS : S.Contract) (g : Graph) (cs : List Comp) (hcs : cs.Nodup)
    (st : St) (cur : Comp) (rest : List Comp) (hinv : Inv g cs st) (hr : st.ready = cur :: rest) :
    Inv g cs (next fixed S g cs st cur rest) := by
  have hcur := hinv.rdy_sound cur (by rw [hr]; simp)
  have hrn : (cur :: rest).Nodup := hr ▸ hinv.rdy_nodup
  have hcur_rest : cur ∉ rest := (List.nodup_cons.1 hrn).1
  have hrest_nodup : rest.Nodup := (List.nodup_cons.1 hrn).2
  have hrest : ∀ c ∈ rest, c ∈ cs ∧ c ∉ st.visited ∧ ∀ d ∈ incoming g cs c, d ∈ st.visited :=
    fun c hc => hinv.rdy_sound c (by rw [hr]; exact List.mem_cons_of_mem _ hc)
  -- the new ready list as a set
  let newly := (outgoing g cs cur).filter (fun nx => (incoming g cs nx).all (fun rq => (cur :: st.visited).contains rq))
  have hnewly : ∀ c, c ∈ newly ↔ c ∈ cs ∧ cedge g cur c = true ∧ ∀ d ∈ incoming g cs c, d ∈ cur :: st.visited :=
    fun c => mem_newly g cs (cur :: st.visited) cur c
  have hnewly_nodup : newly.Nodup := (hcs.filter _).filter _
  have hdisj : ∀ c, c ∈ rest → c ∉ newly := by
    intro c hc hn
    have h1 := hrest c hc
    have h2 := (hnewly c).1 hn
    have : cur ∈ incoming g cs c := (mem_incoming g cs c cur).2 ⟨hcur.1, h2.2.1⟩
    exact hcur.2.1 (h1.2.2 cur this)
  have hready_mem : ∀ c, c ∈ (next fixed S g cs st cur rest).ready ↔ c ∈ rest ∨ c ∈ newly := by
    intro c
    show c ∈ (if newly.isEmpty then rest else S.sort (cmpComp fixed) (rest ++ newly)) ↔ _
    by_cases he : newly.isEmpty = true
    · rw [if_pos he]
      have : newly = [] := List.isEmpty_iff.1 he
      rw [this]; simp
    · rw [if_neg he, (hS.perm _ _).mem_iff, List.mem_append]
  have hready_nodup : (next fixed S g cs st cur rest).ready.Nodup := by
    show (if newly.isEmpty then rest else S.sort (cmpComp fixed) (rest ++ newly)).Nodup
    by_cases he : newly.isEmpty = true
    · rw [if_pos he]; exact hrest_nodup
    · rw [if_neg he, (hS.perm _ _).nodup_iff, List.nodup_append]
      exact ⟨hrest_nodup, hnewly_nodup, fun a ha b hb hab => hdisj a ha (hab ▸ hb)⟩
  refine ⟨?_, ?_, ?_, hready_nodup, ?_, ?_, ?_⟩
  · exact List.nodup_cons.2 ⟨hcur.2.1, hinv.vis_nodup⟩
  · intro c hc
    rcases List.mem_cons.1 hc with rfl | h
    · exact hcur.1
    · exact hinv.vis_sub c h
  · exact ⟨hcur.2.2, hinv.good⟩
  · intro c hc
    rcases (hready_mem c).1 hc with h | h
    · have h1 := hrest c h
      refine ⟨h1.1, ?_, fun d hd => List.mem_cons_of_mem _ (h1.2.2 d hd)⟩
      intro hcv
      rcases List.mem_cons.1 hcv with rfl | h'
      · exact hcur_rest h
      · exact h1.2.1 h'
    · have h2 := (hnewly c).1 h
      refine ⟨h2.1, ?_, h2.2.2⟩
      intro hcv
      have hne : cur ≠ c := ((cedge_iff g cur c).1 h2.2.1).1
      rcases List.mem_cons.1 hcv with rfl | h'
      · exact hne rfl
      · -- c was visited before its predecessor cur: impossible
        have : cur ∈ incoming g cs c := (mem_incoming g cs c cur).2 ⟨hcur.1, h2.2.1⟩
        exact hcur.2.1 (Good.closed hinv.good c h' cur this)
  · intro c hc hcv hin
    have hcv' : c ∉ st.visited := fun h => hcv (List.mem_cons_of_mem _ h)
    have hne : c ≠ cur := fun h => hcv (h ▸ List.mem_cons_self)
    refine (hready_mem c).2 ?_
    by_cases hall : ∀ d ∈ incoming g cs c, d ∈ st.visited
    · have := hinv.rdy_complete c hc hcv' hall
      rw [hr] at this
      rcases List.mem_cons.1 this with h | h
      · exact absurd h hne
      · exact Or.inl h
    · right
      refine (hnewly c).2 ⟨hc, ?_, hin⟩
      -- some predecessor is not in the old visited set: it must be cur
      apply Classical.byContradiction
      intro hnot
      apply hall
      intro d hd
      rcases List.mem_cons.1 (hin d hd) with rfl | h
      · exact absurd ((mem_incoming g cs c d).1 hd).2 hnot
      · exact h
  · show st.sorted ++ cur = (cur :: st.visited).reverse.flatten
    rw [hinv.sorted_eq]; simp

theorem kahn_ok (fixed : Bool) (S : SortFn) (hS : S.Contract) (g : Graph) (cs : List Comp) (hc : IsSCC g cs) :
    ∀ (fuel : Nat) (st : St), Inv g cs st → fuel + st.visited.length = cs.length →
      ∃ st', kahn fixed S g cs fuel st = .ok st'.sorted ∧ Inv g cs st' ∧ st'.visited.length = cs.length := by
  intro fuel
  induction fuel with
  | zero =>
    intro st hinv hf
    exact ⟨st, kahn_done fixed S g cs 0 st (by omega), hinv, by omega⟩
  | succ fuel ih =>
    intro st hinv hf
    have hlen : st.visited.length ≠ cs.length := by omega
    -- some component is still unvisited, so one of them has all predecessors visited
    let U := cs.filter (fun c => !st.visited.contains c)
    have hU : U ≠ [] := by
      intro hnil
      have hall : ∀ c ∈ cs, c ∈ st.visited := by
        intro c hcc
        apply Classical.byContradiction
        intro hn
        have : c ∈ U := List.mem_filter.2 ⟨hcc, by simpa using hn⟩
        rw [hnil] at this; cases this
      have h1 := length_le_of_nodup_subset cs st.visited hc.comps_nodup hall
      have h2 := length_le_of_nodup_subset st.visited cs hinv.vis_nodup hinv.vis_sub
      exact hlen (Nat.le_antisymm h2 h1)
    rcases exists_source hc U hU (fun c h => (List.mem_filter.1 h).1) with ⟨m, hmU, hmin⟩
    have hmcs : m ∈ cs := (List.mem_filter.1 hmU).1
    have hmv : m ∉ st.visited := by simpa using (List.mem_filter.1 hmU).2
    have hmready : m ∈ st.ready := by
      refine hinv.rdy_complete m hmcs hmv ?_
      intro d hd
      have hd' := (mem_incoming g cs m d).1 hd
      apply Classical.byContradiction
      intro hdv
      have hdU : d ∈ U := List.mem_filter.2 ⟨hd'.1, by simpa using hdv⟩
      have := cedge_creach hd'.2
      exact hmin d hdU this
    cases hr : st.ready with
    | nil => rw [hr] at hmready; cases hmready
    | cons cur rest =>
      have hcur := hinv.rdy_sound cur (by rw [hr]; simp)
      have hcont : st.visited.contains cur = false := by
        simpa using hcur.2.1
      rw [kahn_step fixed S g cs fuel st cur rest hlen hr hcont]
      have hinv' := inv_next fixed S hS g cs hc.comps_nodup st cur rest hinv hr
      refine ih _ hinv' ?_
      show fuel + (cur :: st.visited).length = cs.length
      simp only [List.length_cons]; omega

/-! ### Graph.Sort as a whole -/

theorem flatten_perm_nodes {g : Graph} {cs : List Comp} (hg : g.WF) (hc : IsSCC g cs) :
    cs.flatten.Perm g.nodes := by
  refine (List.perm_ext_iff_of_nodup hc.nodup hg.nodup).2 ?_
  intro v
  rw [List.mem_flatten, hc.cover v]

theorem inv_init (fixed : Bool) (S : SortFn) (hS : S.Contract) (g : Graph) (cs : List Comp) (hcs : cs.Nodup) :
    Inv g cs { ready := S.sort (cmpComp fixed) (cs.filter (fun c => (incoming g cs c).isEmpty)),
               visited := [], sorted := [] } := by
  refine ⟨List.nodup_nil, by simp, trivial, ?_, ?_, ?_, by simp⟩
  · exact (hS.perm _ _).nodup_iff.2 (hcs.filter _)
  · intro c hc
    have := (hS.perm _ _).mem_iff.1 hc
    rcases List.mem_filter.1 this with ⟨h1, h2⟩
    refine ⟨h1, by simp, ?_⟩
    intro d hd
    have : incoming g cs c = [] := List.isEmpty_iff.1 h2
    rw [this] at hd; cases hd
  · intro c hc _ hall
    refine (hS.perm _ _).mem_iff.2 (List.mem_filter.2 ⟨hc, ?_⟩)
    rw [List.isEmpty_iff]
    cases hin : incoming g cs c with
    | nil => rfl
    | cons d t =>
      have : d ∈ ([] : List Comp) := hall d (by rw [hin]; simp)
      cases this

/-- the run of `sortWith`: it ends with `.ok`, in a state satisfying the invariant with every
component visited -/
theorem sortWith_run (fixed : Bool) (S : SortFn) (hS : S.Contract) (g : Graph) (comps : List Comp)
    (hc : IsSCC g comps) :
    let cs := comps.map (fun c => S.sort (cmpLabel fixed) c)
    IsSCC g cs ∧ ∃ st', sortWith fixed S g comps = .ok st'.sorted ∧ Inv g cs st' ∧ st'.visited.length = cs.length := by
  intro cs
  have hcs : IsSCC g cs := hc.map _ (fun c => hS.perm _ c)
  refine ⟨hcs, ?_⟩
  have := kahn_ok fixed S hS g cs hcs cs.length _ (inv_init fixed S hS g cs hcs.comps_nodup) (by simp)
  exact this

theorem sortWith_ok (fixed : Bool) (S : SortFn) (hS : S.Contract) (g : Graph) (comps : List Comp)
    (hg : g.WF) (hc : IsSCC g comps) :
    ∃ l, sortWith fixed S g comps = .ok l ∧ l.Perm g.nodes := by
  rcases sortWith_run fixed S hS g comps hc with ⟨hcs, st', hrun, hinv, hlen⟩
  refine ⟨st'.sorted, hrun, ?_⟩
  rw [hinv.sorted_eq]
  have h2 : st'.visited.Perm (comps.map fun c => S.sort (cmpLabel fixed) c) :=
    perm_of_nodup_subset_length _ _ hinv.vis_nodup hcs.comps_nodup hinv.vis_sub (by omega)
  exact ((List.reverse_perm _).flatten.trans h2.flatten).trans (flatten_perm_nodes hg hcs)

theorem Good.split {g : Graph} {cs : List Comp} : ∀ {vis : List Comp}, Good g cs vis →
    ∀ d ∈ vis, ∀ c ∈ incoming g cs d, ∃ q older, vis = q ++ d :: older ∧ c ∈ older
  | [], _, d, hd, _, _ => by cases hd
  | a :: rest, hg, d, hd, c, hc => by
    by_cases had : d = a
    · subst had
      exact ⟨[], rest, rfl, hg.1 c hc⟩
    · have hd' : d ∈ rest := by
        rcases List.mem_cons.1 hd with h | h
        · exact absurd h had
        · exact h
      rcases Good.split hg.2 d hd' c hc with ⟨q, older, he, hco⟩
      exact ⟨a :: q, older, by rw [he]; rfl, hco⟩

theorem sortWith_respects (fixed : Bool) (S : SortFn) (hS : S.Contract) (g : Graph) (comps : List Comp)
    (hg : g.WF) (hc : IsSCC g comps) (l : List Label) (hl : sortWith fixed S g comps = .ok l)
    (u v : Label) (hu : u ∈ g.nodes) (huv : v ∈ g.out u) (hacyc : ¬ Reach g v u) :
    Before l u v := by
  rcases sortWith_run fixed S hS g comps hc with ⟨hcs, st', hrun, hinv, hlen⟩
  have hl' : l = st'.sorted := by
    rw [hrun] at hl; exact (Res.ok.inj hl).symm
  have hperm : st'.visited.Perm (comps.map fun c => S.sort (cmpLabel fixed) c) :=
    perm_of_nodup_subset_length _ _ hinv.vis_nodup hcs.comps_nodup hinv.vis_sub (by omega)
  rcases (hcs.cover u).1 hu with ⟨c, hcc, huc⟩
  rcases (hcs.cover v).1 (hg.closed u hu v huv) with ⟨d, hdc, hvd⟩
  have hne : c ≠ d := by
    intro h; subst h
    exact hacyc (hcs.intra hcc hvd huc)
  have hedge : cedge g c d = true := (cedge_iff g c d).2 ⟨hne, u, huc, v, huv, hvd⟩
  have hin : c ∈ incoming g _ d := (mem_incoming g _ d c).2 ⟨hcc, hedge⟩
  have hdv : d ∈ st'.visited := hperm.mem_iff.2 hdc
  rcases Good.split hinv.good d hdv c hin with ⟨q, older, hvis, hco⟩
  rcases List.append_of_mem (List.mem_reverse.2 hco) with ⟨o1, o2, ho⟩
  rcases List.append_of_mem huc with ⟨c1, c2, hcsplit⟩
  rcases List.append_of_mem hvd with ⟨d1, d2, hdsplit⟩
  refine ⟨o1.flatten ++ c1, c2 ++ o2.flatten ++ d1, d2 ++ q.reverse.flatten, ?_⟩
  rw [hl', hinv.sorted_eq, hvis, List.reverse_append, List.reverse_cons, ho]
  conv => lhs; rw [hcsplit, hdsplit]
  simp [List.flatten_append, List.append_assoc]

end CueVerif.Toposort
