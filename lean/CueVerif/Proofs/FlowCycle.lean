/-
C18, cycle detection: the depth-first search of tools/flow/cycle.go (`checkCycle`,
`isCyclic` in Model/Flow) reports an error exactly when the dependency graph has a cycle
in the sense of Spec/Flow (`Cyclic`), and an acyclic finite graph has no "blocked set".
Core Lean only.
-/
import CueVerif.Spec.Flow
namespace CueVerif.Flow

/-! ### facts about `Reaches` -/

theorem Reaches.append {deps : Nat → List Nat} {a b c : Nat}
    (h1 : Reaches deps a b) (h2 : Reaches deps b c) : Reaches deps a c := by
  induction h1 with
  | edge h => exact Reaches.trans h h2
  | trans h _ ih => exact Reaches.trans h (ih h2)

theorem Reaches.first {deps : Nat → List Nat} {t u : Nat}
    (h : Reaches deps t u) : ∃ d, d ∈ deps t ∧ (d = u ∨ Reaches deps d u) := by
  cases h with
  | edge h => exact ⟨_, h, Or.inl rfl⟩
  | trans h h' => exact ⟨_, h, Or.inr h'⟩

theorem Reaches.lt {n : Nat} {deps : Nat → List Nat} (hwf : WfDeps n deps) {t u : Nat}
    (h : Reaches deps t u) (ht : t < n) : u < n := by
  induction h with
  | edge h => exact (hwf _ ht _ h).1
  | trans h _ ih => exact ih (hwf _ ht _ h).1

/-! ### pigeonhole -/

theorem nodup_length_le (n : Nat) (l : List Nat) (hnd : l.Nodup) (hlt : ∀ x ∈ l, x < n) :
    l.length ≤ n := by
  induction n generalizing l with
  | zero =>
    cases l with
    | nil => simp
    | cons a _ => exact absurd (hlt a List.mem_cons_self) (Nat.not_lt_zero a)
  | succ n ih =>
    have h1 : (l.erase n).length ≤ n := by
      refine ih (l.erase n) (hnd.erase n) ?_
      intro x hx
      have hx' := (List.Nodup.mem_erase_iff hnd).mp hx
      have := hlt x hx'.2
      have := hx'.1
      omega
    have h2 : l.length ≤ (l.erase n).length + 1 := by
      rw [List.length_erase]
      split <;> omega
    omega

/-! ### one unfolding of the search -/

theorem isCyclic_succ_false {deps : Nat → List Nat} {fuel : Nat} {stack : List Nat} {t : Nat}
    (h : isCyclic deps (fuel + 1) stack t = false) :
    ∀ d ∈ deps t, d ∉ t :: stack ∧ isCyclic deps fuel (t :: stack) d = false := by
  intro d hd
  simp only [isCyclic, List.any_eq_false] at h
  have := h d hd
  by_cases hm : d ∈ t :: stack
  · simp [hm] at this
  · simp only [hm, if_false] at this
    exact ⟨hm, by simpa using this⟩

theorem isCyclic_succ_true {deps : Nat → List Nat} {fuel : Nat} {stack : List Nat} {t : Nat}
    (h : isCyclic deps (fuel + 1) stack t = true) :
    ∃ d, d ∈ deps t ∧ (d ∈ t :: stack ∨ isCyclic deps fuel (t :: stack) d = true) := by
  simp only [isCyclic, List.any_eq_true] at h
  obtain ⟨d, hd, h⟩ := h
  by_cases hm : d ∈ t :: stack
  · exact ⟨d, hd, Or.inl hm⟩
  · simp only [hm, if_false] at h
    exact ⟨d, hd, Or.inr h⟩

/-! ### soundness: a reported cycle is a cycle -/

theorem isCyclic_sound {n : Nat} {deps : Nat → List Nat} (hwf : WfDeps n deps) :
    ∀ (fuel : Nat) (stack : List Nat) (t : Nat), isCyclic deps fuel stack t = true →
      t < n → (∀ s ∈ stack, s < n ∧ Reaches deps s t) → ∃ u, u < n ∧ Reaches deps u u := by
  intro fuel
  induction fuel with
  | zero => intro stack t h; simp [isCyclic] at h
  | succ fuel ih =>
    intro stack t h ht hst
    obtain ⟨d, hd, h⟩ := isCyclic_succ_true h
    rcases h with hm | hrec
    · rcases List.mem_cons.mp hm with rfl | hm
      · exact ⟨d, ht, Reaches.edge hd⟩
      · exact ⟨d, (hst d hm).1, (hst d hm).2.append (Reaches.edge hd)⟩
    · refine ih (t :: stack) d hrec (hwf t ht d hd).1 ?_
      intro s hs
      rcases List.mem_cons.mp hs with rfl | hs
      · exact ⟨ht, Reaches.edge hd⟩
      · exact ⟨(hst s hs).1, (hst s hs).2.append (Reaches.edge hd)⟩

/-! ### completeness: with enough fuel, no report means no cycle below `t` -/

theorem fuel_pos_of_path {n fuel : Nat} {stack : List Nat} {t : Nat}
    (hnd : stack.Nodup) (hts : t ∉ stack) (hlt : ∀ s ∈ t :: stack, s < n)
    (hfuel : n + 1 ≤ fuel + stack.length) : fuel ≠ 0 := by
  intro h0
  have := nodup_length_le n (t :: stack) (List.nodup_cons.mpr ⟨hts, hnd⟩) hlt
  simp only [List.length_cons] at this
  omega

theorem isCyclic_complete {n : Nat} {deps : Nat → List Nat} (hwf : WfDeps n deps) :
    ∀ (fuel : Nat) (stack : List Nat) (t : Nat), isCyclic deps fuel stack t = false →
      stack.Nodup → t ∉ stack → (∀ s ∈ t :: stack, s < n) → n + 1 ≤ fuel + stack.length →
      ∀ u, (u = t ∨ Reaches deps t u) → ¬ Reaches deps u u := by
  intro fuel
  induction fuel with
  | zero =>
    intro stack t _ hnd hts hlt hfuel
    exact absurd rfl (fuel_pos_of_path hnd hts hlt hfuel)
  | succ fuel ih =>
    intro stack t h hnd hts hlt hfuel
    have ht : t < n := hlt t (List.mem_cons_self)
    have hstep := isCyclic_succ_false h
    -- everything at or below a dependency of `t` is cycle-free
    have below : ∀ d ∈ deps t, ∀ u, (u = d ∨ Reaches deps d u) → ¬ Reaches deps u u := by
      intro d hd
      obtain ⟨hm, hrec⟩ := hstep d hd
      refine ih (t :: stack) d hrec (List.nodup_cons.mpr ⟨hts, hnd⟩) hm ?_ ?_
      · intro s hs
        rcases List.mem_cons.mp hs with rfl | hs
        · exact (hwf t ht s hd).1
        · exact hlt s hs
      · simp only [List.length_cons]; omega
    intro u hu huu
    rcases hu with rfl | hu
    · obtain ⟨d, hd, h'⟩ := huu.first
      rcases h' with rfl | h'
      · exact (hstep d hd).1 (List.mem_cons_self)
      · exact below d hd u (Or.inr h') huu
    · obtain ⟨d, hd, h'⟩ := hu.first
      rcases h' with rfl | h'
      · exact below d hd d (Or.inl rfl) huu
      · exact below d hd u (Or.inr h') huu

/-- `checkCycle` (DFS with on-path marks, as in tools/flow/cycle.go) reports an error iff some registered task reaches itself -/
theorem checkCycle_iff (n : Nat) (deps : Nat → List Nat) (h : WfDeps n deps) :
    checkCycle n deps = true ↔ Cyclic n deps := by
  constructor
  · intro hc
    simp only [checkCycle, List.any_eq_true, List.mem_range] at hc
    obtain ⟨t, ht, hc⟩ := hc
    exact isCyclic_sound h (n + 1) [] t hc ht (by intro s hs; cases hs)
  · rintro ⟨u, hu, huu⟩
    cases hc : checkCycle n deps with
    | true => rfl
    | false =>
      exfalso
      simp only [checkCycle, List.any_eq_false, List.mem_range] at hc
      have hf : isCyclic deps (n + 1) [] u = false := by simpa using hc u hu
      refine isCyclic_complete h (n + 1) [] u hf List.nodup_nil (by simp) ?_ (by simp) u
        (Or.inl rfl) huu
      intro s hs
      rcases List.mem_cons.mp hs with rfl | hs
      · exact hu
      · cases hs

/-! ### no blocked set -/

theorem blocked_search {n : Nat} {deps : Nat → List Nat} (S : Nat → Prop)
    (hS : ∀ t, S t → t < n ∧ ∃ d, d ∈ deps t ∧ S d) :
    ∀ (fuel : Nat) (stack : List Nat) (t : Nat), isCyclic deps fuel stack t = false →
      stack.Nodup → t ∉ stack → (∀ s ∈ stack, s < n) → n + 1 ≤ fuel + stack.length →
      ¬ S t := by
  intro fuel
  induction fuel with
  | zero =>
    intro stack t _ hnd hts hlt hfuel hSt
    refine absurd rfl (fuel_pos_of_path (n := n) hnd hts ?_ hfuel)
    intro s hs
    rcases List.mem_cons.mp hs with rfl | hs
    · exact (hS s hSt).1
    · exact hlt s hs
  | succ fuel ih =>
    intro stack t h hnd hts hlt hfuel hSt
    obtain ⟨ht, d, hd, hSd⟩ := hS t hSt
    obtain ⟨hm, hrec⟩ := isCyclic_succ_false h d hd
    refine ih (t :: stack) d hrec (List.nodup_cons.mpr ⟨hts, hnd⟩) hm ?_ ?_ hSd
    · intro s hs
      rcases List.mem_cons.mp hs with rfl | hs
      · exact ht
      · exact hlt s hs
    · simp only [List.length_cons]; omega

/-- in a finite acyclic dependency graph there is no non-empty set of tasks each of which has a dependency inside the set (no "everybody waits for somebody" situation) -/
theorem no_blocked_set (n : Nat) (deps : Nat → List Nat) (hwf : WfDeps n deps)
    (hac : ¬ Cyclic n deps) (S : Nat → Prop)
    (hS : ∀ t, S t → t < n ∧ ∃ d, d ∈ deps t ∧ S d) : ∀ t, ¬ S t := by
  intro t hSt
  have hc : checkCycle n deps = false := by
    cases hc : checkCycle n deps with
    | false => rfl
    | true => exact absurd ((checkCycle_iff n deps hwf).mp hc) hac
  simp only [checkCycle, List.any_eq_false, List.mem_range] at hc
  have hf : isCyclic deps (n + 1) [] t = false := by simpa using hc t (hS t hSt).1
  exact blocked_search S hS (n + 1) [] t hf List.nodup_nil (by simp) (by intro s hs; cases hs)
    (by simp) hSt

end CueVerif.Flow
