/-
C02 — proofs about the model of toposort.Graph.Sort (Model/Toposort.lean) against
Spec/Toposort.lean.
-/
import CueVerif.Proofs.SanitizeOrder
import CueVerif.Spec.Toposort
namespace CueVerif.Toposort
open CueVerif.Sanitize (TotalPreorder SortedBy cmpBytes cmpNat insertionSort lexList Bytes)

/-! ### the comparisons -/

theorem stableSort_contract : stableSort.Contract :=
  ⟨fun cmp l => Sanitize.insertionSort_perm cmp l, fun _ l h => Sanitize.insertionSort_sorted h l⟩

/-- rank of a label for `compareNodeByName`: integers first -/
def isNamed : Label → Bool
  | .int _ => false
  | .named _ _ => true

def cKind (a b : Label) : Ordering := Sanitize.cmpBool (isNamed a) (isNamed b)
def idx : Label → Nat | .int i => i | .named _ _ => 0
def str : Label → Bytes | .int _ => [] | .named _ s => s
def typ : Label → Nat | .int _ => 0 | .named t _ => t
def cIdx (a b : Label) : Ordering := cmpNat (idx a) (idx b)
def cStr (a b : Label) : Ordering := cmpBytes (str a) (str b)
def cTyp (fixed : Bool) (a b : Label) : Ordering := if fixed then cmpNat (typ a) (typ b) else .eq

theorem cmpLabel_eq_lex (fixed : Bool) :
    cmpLabel fixed = Sanitize.lex cKind (Sanitize.lex cIdx (Sanitize.lex cStr (cTyp fixed))) := by
  funext a b
  cases a with
  | int i =>
    cases b with
    | int j =>
      have e1 : cTyp fixed (.int i) (.int j) = .eq := by
        unfold cTyp typ; cases fixed <;> simp [Sanitize.cmpNat_tp.refl]
      simp only [cmpLabel, Sanitize.lex, cKind, cIdx, cStr, isNamed, idx, str, Sanitize.cmpBool, Sanitize.cmpBytes, e1]
      cases cmpNat i j <;> rfl
    | named u r => simp [cmpLabel, Sanitize.lex, cKind, isNamed, Sanitize.cmpBool]
  | named t s =>
    cases b with
    | int j => simp [cmpLabel, Sanitize.lex, cKind, isNamed, Sanitize.cmpBool]
    | named u r =>
      simp only [cmpLabel, Sanitize.lex, cKind, cIdx, cStr, cTyp, isNamed, idx, str, typ, Sanitize.cmpBool,
        Sanitize.cmpNat_tp.refl]
      cases cmpBytes s r <;> rfl

theorem cTyp_tp (fixed : Bool) : TotalPreorder (cTyp fixed) := by
  cases fixed
  · exact ⟨fun _ => rfl, fun _ _ => rfl, fun _ _ _ _ _ => by simp [cTyp]⟩
  · have h : cTyp true = fun x y => cmpNat (typ x) (typ y) := by funext x y; simp [cTyp]
    rw [h]; exact Sanitize.cmpNat_tp.on typ

theorem cmpLabel_tp (fixed : Bool) : TotalPreorder (cmpLabel fixed) := by
  rw [cmpLabel_eq_lex]
  exact Sanitize.lex_tp (Sanitize.cmpBool_tp.on isNamed)
    (Sanitize.lex_tp (Sanitize.cmpNat_tp.on idx) (Sanitize.lex_tp (Sanitize.cmpBytes_tp.on str) (cTyp_tp fixed)))

/-- with the tie-break the comparison tells all labels apart -/
theorem cmpLabel_fixed_eq (a b : Label) : cmpLabel true a b = .eq → a = b := by
  cases a <;> cases b <;> simp [cmpLabel]
  · exact (Sanitize.cmpNat_eq_iff _ _).1
  · rename_i t s u r
    cases h : cmpBytes s r <;> simp
    intro h2
    exact ⟨(Sanitize.cmpNat_eq_iff _ _).1 h2, (Sanitize.cmpBytes_eq_iff _ _).1 h⟩

theorem cmpComp_eq_lexList (fixed : Bool) : ∀ a b : Comp, cmpComp fixed a b = lexList (cmpLabel fixed) a b
  | [], [] => rfl
  | [], _ :: _ => rfl
  | _ :: _, [] => rfl
  | a :: as, b :: bs => by
    simp only [cmpComp, lexList]
    cases cmpLabel fixed a b <;> simp [cmpComp_eq_lexList fixed as bs]

theorem cmpComp_tp (fixed : Bool) : TotalPreorder (cmpComp fixed) := by
  have : cmpComp fixed = lexList (cmpLabel fixed) := by funext a b; exact cmpComp_eq_lexList fixed a b
  rw [this]; exact Sanitize.lexList_tp (cmpLabel_tp fixed)

/-! ### the full independence statement is false of the code as it is -/

def wS : Label := .named 1 [35, 97]   -- the regular field "#a"
def wD : Label := .named 3 [35, 97]   -- the definition #a
def wG : Graph := ⟨[wS, wD], fun _ => []⟩
def wG' : Graph := ⟨[wD, wS], fun _ => []⟩

theorem reach_edgeless {g : Graph} (h : ∀ u, g.out u = []) {u v : Label} (r : Reach g u v) : u = v := by
  induction r with
  | refl => rfl
  | step hw _ _ => rw [h] at hw; cases hw

theorem wG_wf : wG.WF := ⟨by decide, by intro u _ v hv; cases hv⟩
theorem wG'_wf : wG'.WF := ⟨by decide, by intro u _ v hv; cases hv⟩

theorem wG_same : wG.Same wG' := ⟨List.Perm.swap _ _ _, fun _ _ => Iff.rfl⟩

theorem isSCC_singletons (g : Graph) (h : ∀ u, g.out u = []) (hn : g.nodes.Nodup) :
    IsSCC g (g.nodes.map fun v => [v]) := by
  refine ⟨?_, ?_, ?_, ?_⟩
  · have : (g.nodes.map fun v => [v]).flatten = g.nodes := by
      induction g.nodes with
      | nil => rfl
      | cons a l ih => simp [ih]
    rw [this]; exact hn
  · intro c hc; rcases List.mem_map.1 hc with ⟨v, _, rfl⟩; simp
  · intro v
    constructor
    · intro hv; exact ⟨[v], List.mem_map.2 ⟨v, hv, rfl⟩, by simp⟩
    · rintro ⟨c, hc, hvc⟩
      rcases List.mem_map.1 hc with ⟨w, hw, rfl⟩
      have : v = w := by simpa using hvc
      rw [this]; exact hw
  · intro c hc d hd u hu v hv
    rcases List.mem_map.1 hc with ⟨a, _, rfl⟩
    rcases List.mem_map.1 hd with ⟨b, _, rfl⟩
    have hu' : u = a := by simpa using hu
    have hv' : v = b := by simpa using hv
    subst hu'; subst hv'
    constructor
    · intro hEq
      have : u = v := by simpa using hEq
      subst this; exact ⟨.refl _, .refl _⟩
    · intro hr
      rw [reach_edgeless h hr.1]

theorem perm_false : ¬ (∀ (S S' : SortFn), S.Contract → S'.Contract →
    ∀ (g g' : Graph) (comps comps' : List Comp), g.WF → g'.WF → g.Same g' →
      IsSCC g comps → IsSCC g' comps' →
      sortWith false S g comps = sortWith false S' g' comps') := by
  intro h
  have := h stableSort stableSort stableSort_contract stableSort_contract wG wG' _ _ wG_wf wG'_wf wG_same
    (isSCC_singletons wG (fun _ => rfl) wG_wf.nodup) (isSCC_singletons wG' (fun _ => rfl) wG'_wf.nodup)
  revert this; decide

end CueVerif.Toposort
