import CueVerif.Model.ScanLoops
import Mathlib.Tactic.SplitIfs
/-
C02 — totality / progress of the scanner loop model (Model/ScanLoops.lean).

P1  every fuelled loop, given fuel ≥ (length − position) + 1, does not answer `fuel`, and ends at a
    position between its start and the length            (`*_total`, `*_bnd` for counted loops)
P2  `scan_progress`: measure `μ = 2·(length − pos) + (insertEOL ? 1 : 0)` never increases over a
    Scan call and strictly decreases for every token other than EOF
P3  `scanAll_total`: with fuel `2·length + 4` the client loop never answers `fuel`
All statements are for every rune list and every oracle (`uniLetter`, `uniDigit`, `numEnd`).
-/
namespace CueVerif.ScanLoops

/-! ## positions -/

theorem Env.ch_eof (e : Env) {p : Nat} (h : e.len ≤ p) : e.ch p = -1 := by
  unfold Env.ch Env.len at *
  rw [List.getElem?_eq_none h]

theorem Env.ch_nonneg (e : Env) {p : Nat} (h : p < e.len) : 0 ≤ e.ch p := by
  unfold Env.ch Env.len at *
  rw [List.getElem?_eq_getElem h]
  exact Int.natCast_nonneg _

theorem Env.lt_of_ch (e : Env) {p : Nat} (h : e.ch p ≠ -1) : p < e.len := by
  apply Decidable.byContradiction
  intro hn
  exact h (e.ch_eof (Nat.le_of_not_lt hn))

theorem Env.next_of_lt (e : Env) {p : Nat} (h : p < e.len) : e.next p = p + 1 := by
  simp [Env.next, h]

theorem Env.le_next (e : Env) (p : Nat) : p ≤ e.next p := by
  unfold Env.next; split <;> omega

theorem Env.next_le (e : Env) {p : Nat} (h : p ≤ e.len) : e.next p ≤ e.len := by
  unfold Env.next; split <;> omega

/-- `r = ok q` with `p ≤ q ≤ length` -/
def Bnd (e : Env) (p : Nat) (r : Res Nat) : Prop := ∃ q, r = .ok q ∧ p ≤ q ∧ q ≤ e.len

/-! ## P1: the loops -/

theorem whileCh_total (e : Env) (pred : Int → Bool) (hp : pred (-1) = false) :
    ∀ (f p : Nat), p ≤ e.len → e.len - p + 1 ≤ f → Bnd e p (whileCh e pred f p) := by
  intro f
  induction f with
  | zero => intro p _ h; omega
  | succ f ih =>
    intro p hle hf
    unfold whileCh
    by_cases hc : pred (e.ch p) = true
    · have hlt : p < e.len := by
        apply e.lt_of_ch; intro h; rw [h, hp] at hc; cases hc
      rw [if_pos hc, e.next_of_lt hlt]
      obtain ⟨q, hq, h1, h2⟩ := ih (p + 1) (by omega) (by omega)
      exact ⟨q, hq, by omega, h2⟩
    · rw [if_neg hc]; exact ⟨p, rfl, Nat.le_refl _, hle⟩

theorem identPart_eof (e : Env) : identPart e (-1) = false := by
  simp [identPart, isLetter, isDigit]

theorem commentBody_eof : commentBody (-1) = false := by decide

theorem wsPred_eof (b : Bool) : wsPred b (-1) = false := by cases b <;> decide

theorem scanIdentifier_total (e : Env) (f p : Nat) (h : p ≤ e.len) (hf : e.len - p + 1 ≤ f) :
    Bnd e p (scanIdentifier e f p) :=
  whileCh_total e _ (identPart_eof e) f p h hf

theorem scanFieldIdentifier_total (e : Env) (f p : Nat) (h : p ≤ e.len) (hf : e.len - p + 1 ≤ f) :
    Bnd e p (scanFieldIdentifier e f p) := by
  unfold scanFieldIdentifier
  have h1 := e.le_next p
  have h2 := e.next_le h
  split
  · simp only []
    split
    · exact ⟨_, rfl, h1, h2⟩
    · obtain ⟨q, hq, h3, h4⟩ := whileCh_total e _ (identPart_eof e) f (e.next p) h2 (by omega)
      exact ⟨q, hq, by omega, h4⟩
  · exact whileCh_total e _ (identPart_eof e) f p h hf

/-- when the first rune is a letter, '$' or '#', scanFieldIdentifier consumes it -/
theorem scanFieldIdentifier_adv (e : Env) (f p : Nat) (h : p ≤ e.len) (hf : e.len - p + 1 ≤ f)
    (hc : isLetter e (e.ch p) = true ∨ e.ch p = 36 ∨ e.ch p = 35) :
    Bnd e (p + 1) (scanFieldIdentifier e f p) := by
  have hlt : p < e.len := by
    apply e.lt_of_ch
    intro h1
    rw [h1] at hc
    simp [isLetter] at hc
  unfold scanFieldIdentifier
  split
  · simp only []
    rw [e.next_of_lt hlt]
    split
    · exact ⟨_, rfl, Nat.le_refl _, by omega⟩
    · exact whileCh_total e _ (identPart_eof e) f (p + 1) (by omega) (by omega)
  · rename_i hne
    have hip : identPart e (e.ch p) = true := by
      rcases hc with h | h | h
      · simp [identPart, h]
      · simp [identPart, h]
      · exact absurd h hne
    cases f with
    | zero => omega
    | succ f' =>
      rw [whileCh, if_pos hip, e.next_of_lt hlt]
      exact whileCh_total e _ (identPart_eof e) f' (p + 1) (by omega) (by omega)

theorem scanComment_total (e : Env) (f p : Nat) (h : p ≤ e.len) (hf : e.len - p + 1 ≤ f) :
    Bnd e p (scanComment e f p) := by
  unfold scanComment
  have h1 := e.le_next p
  have h2 := e.next_le h
  split
  · obtain ⟨q, hq, h3, h4⟩ := whileCh_total e _ commentBody_eof f (e.next p) h2 (by omega)
    exact ⟨q, hq, by omega, h4⟩
  · exact ⟨p, rfl, Nat.le_refl _, h⟩

theorem skipWhitespace_total (e : Env) (eol : Bool) (f p : Nat) (h : p ≤ e.len)
    (hf : e.len - p + 1 ≤ f) : Bnd e p (skipWhitespace e eol f p) :=
  whileCh_total e _ (wsPred_eof eol) f p h hf

theorem recoverParen_total (e : Env) :
    ∀ (f : Nat) (opn : Int) (p : Nat), p ≤ e.len → e.len - p + 1 ≤ f →
      Bnd e p (recoverParen e f opn p) := by
  intro f
  induction f with
  | zero => intro _ p _ h; omega
  | succ f ih =>
    intro opn p hle hf
    unfold recoverParen
    simp only []
    by_cases hc : e.ch p = 10 ∨ e.ch p = -1
    · rw [if_pos hc]; exact ⟨p, rfl, Nat.le_refl _, hle⟩
    · rw [if_neg hc]
      have hlt : p < e.len := e.lt_of_ch (fun h => hc (Or.inr h))
      rw [e.next_of_lt hlt]
      have step : ∀ o, Bnd e p (recoverParen e f o (p + 1)) := by
        intro o
        obtain ⟨q, hq, h1, h2⟩ := ih o (p + 1) (by omega) (by omega)
        exact ⟨q, hq, by omega, h2⟩
      split
      · exact step _
      · split
        · split
          · exact ⟨p, rfl, Nat.le_refl _, hle⟩
          · exact step _
        · exact step _

/-! counted loops: bounds only (they recurse on the counter, there is no fuel) -/

theorem consumeQuotes_bnd (e : Env) (q : Int) :
    ∀ (m p n : Nat), p ≤ e.len →
      p ≤ (consumeQuotes e q m p n).1 ∧ (consumeQuotes e q m p n).1 ≤ e.len := by
  intro m
  induction m with
  | zero => intro p n h; exact ⟨Nat.le_refl _, h⟩
  | succ m ih =>
    intro p n h
    unfold consumeQuotes
    split
    · exact ⟨Nat.le_refl _, h⟩
    · have := ih (e.next p) (n + 1) (e.next_le h)
      have := e.le_next p
      omega

theorem scanHashes_bnd (e : Env) :
    ∀ (m p n : Nat), p ≤ e.len →
      p ≤ (scanHashes e m p n).1 ∧ (scanHashes e m p n).1 ≤ e.len := by
  intro m
  induction m with
  | zero => intro p n h; exact ⟨Nat.le_refl _, h⟩
  | succ m ih =>
    intro p n h
    unfold scanHashes
    split
    · exact ⟨Nat.le_refl _, h⟩
    · have := ih (e.next p) (n + 1) (e.next_le h)
      have := e.le_next p
      omega

theorem closeLoop_bnd (e : Env) (nc : Nat) :
    ∀ (k i : Nat) (w : Int) (p : Nat), p ≤ e.len →
      p ≤ (closeLoop e nc k i w p).1 ∧ (closeLoop e nc k i w p).1 ≤ e.len := by
  intro k
  induction k with
  | zero => intro i w p h; exact ⟨Nat.le_refl _, h⟩
  | succ k ih =>
    intro i w p h
    unfold closeLoop
    simp only []
    generalize (if i = nc then (35 : Int) else w) = w'
    split
    · exact ⟨Nat.le_refl _, h⟩
    · have := ih (i + 1) w' (e.next p) (e.next_le h)
      have := e.le_next p
      omega

theorem consumeStringClose_bnd (e : Env) (c : Int) (q : Quote) (p : Nat) (h : p ≤ e.len) :
    p ≤ (consumeStringClose e c q p).1 ∧ (consumeStringClose e c q p).1 ≤ e.len := by
  unfold consumeStringClose
  split
  · exact ⟨Nat.le_refl _, h⟩
  · exact closeLoop_bnd e _ _ _ _ p h

theorem escHashes_bnd (e : Env) :
    ∀ (k p : Nat), p ≤ e.len → p ≤ (escHashes e k p).1 ∧ (escHashes e k p).1 ≤ e.len := by
  intro k
  induction k with
  | zero => intro p h; exact ⟨Nat.le_refl _, h⟩
  | succ k ih =>
    intro p h
    unfold escHashes
    split
    · exact ⟨Nat.le_refl _, h⟩
    · have := ih (e.next p) (e.next_le h)
      have := e.le_next p
      omega

theorem escDigits_bnd (e : Env) (base : Int) :
    ∀ (n p : Nat), p ≤ e.len → p ≤ escDigits e base n p ∧ escDigits e base n p ≤ e.len := by
  intro n
  induction n with
  | zero => intro p h; exact ⟨Nat.le_refl _, h⟩
  | succ n ih =>
    intro p h
    unfold escDigits
    simp only []
    split
    · exact ⟨Nat.le_refl _, h⟩
    · have := ih (e.next p) (e.next_le h)
      have := e.le_next p
      omega

theorem scanEscape_bnd (e : Env) (q : Quote) (p : Nat) (h : p ≤ e.len) :
    p ≤ (scanEscape e q p).1 ∧ (scanEscape e q p).1 ≤ e.len := by
  unfold scanEscape
  have hh := escHashes_bnd e q.numHash p h
  generalize escHashes e q.numHash p = r at hh
  obtain ⟨p', b⟩ := r
  simp only [] at hh
  have hn := e.le_next p'
  have hn2 := e.next_le hh.2
  have d := fun base n => escDigits_bnd e base n p' hh.2
  have d2 := fun base n => escDigits_bnd e base n (e.next p') hn2
  cases b
  · exact hh
  · simp only []
    repeat' split
    all_goals first
      | exact hh
      | exact ⟨by omega, hn2⟩
      | exact ⟨by have := d 8 3; omega, (d 8 3).2⟩
      | exact ⟨by have := d2 16 2; omega, (d2 16 2).2⟩
      | exact ⟨by have := d2 16 4; omega, (d2 16 4).2⟩
      | exact ⟨by have := d2 16 8; omega, (d2 16 8).2⟩

theorem scanStringLoop_total (e : Env) (q : Quote) :
    ∀ (f : Nat) (ca : Bool) (p : Nat), p ≤ e.len → e.len - p + 1 ≤ f →
      ∃ r, scanStringLoop e q f ca p = .ok r ∧ p ≤ r.1 ∧ r.1 ≤ e.len := by
  intro f
  induction f with
  | zero => intro _ p _ h; omega
  | succ f ih =>
    intro ca p hle hf
    unfold scanStringLoop
    simp only []
    by_cases hc : (q.numChar ≠ 3 ∧ e.ch p = 10) ∨ e.ch p < 0
    · rw [if_pos hc]; exact ⟨_, rfl, Nat.le_refl _, hle⟩
    · rw [if_neg hc]
      have hlt : p < e.len := e.lt_of_ch (fun h => hc (Or.inr (by omega)))
      rw [e.next_of_lt hlt]
      have hcl := consumeStringClose_bnd e (e.ch p) q (p + 1) (by omega)
      generalize hr : (if q.numChar ≠ 3 ∨ ca = true then consumeStringClose e (e.ch p) q (p + 1)
        else (p + 1, false)) = r
      have hr1 : p + 1 ≤ r.1 ∧ r.1 ≤ e.len := by
        rw [← hr]; split
        · exact hcl
        · exact ⟨Nat.le_refl _, by omega⟩
      have step : ∀ (ca' : Bool) (p' : Nat), p + 1 ≤ p' → p' ≤ e.len →
          ∃ r, scanStringLoop e q f ca' p' = .ok r ∧ p ≤ r.1 ∧ r.1 ≤ e.len := by
        intro ca' p' h1 h2
        obtain ⟨r', hr', h3, h4⟩ := ih ca' p' h2 (by omega)
        exact ⟨r', hr', by omega, h4⟩
      have hesc := scanEscape_bnd e q r.1 hr1.2
      split
      · exact ⟨_, rfl, by simp only []; omega, hr1.2⟩
      · split
        · exact step _ _ hr1.1 hr1.2
        · split
          · split
            · exact ⟨_, rfl, by simp only []; omega, hesc.2⟩
            · exact step _ _ (by omega) hesc.2
          · exact step _ _ hr1.1 hr1.2

theorem scanString_total (e : Env) (q : Quote) (cont : Bool) (f p : Nat) (h : p ≤ e.len)
    (hf : e.len - p + 1 ≤ f) :
    ∃ r, scanString e q cont f p = .ok r ∧ p ≤ r.1 ∧ r.1 ≤ e.len :=
  scanStringLoop_total e q f _ p h hf

/-! ## P2: one pass through the body of Scan -/

/-- the progress measure: `2·(length − s.offset) + (s.insertEOL ? 1 : 0)` -/
def μ (e : Env) (st : St) : Nat := 2 * (e.len - st.pos) + st.eol.toNat

/-- holds of `ok a` when `P a`; `fuel` is excluded; `badOracle` / `panic` are allowed -/
def ResPost {α : Type} (P : α → Prop) : Res α → Prop
  | .ok a => P a
  | .fuel => False
  | _ => True

def StepPost (e : Env) (st : St) : Step → Prop
  | .done st' cls => st'.pos ≤ e.len ∧ μ e st' ≤ μ e st ∧ (cls ≠ .EOF → μ e st' < μ e st)
  | .again st' => st'.pos ≤ e.len ∧ μ e st' < μ e st
  | .attr st' => st'.pos ≤ e.len ∧ st'.eol = st.eol ∧ st.pos < st'.pos

theorem ResPost_bind {α β : Type} {P : β → Prop} {x : Res α} {g : α → Res β} (Q : α → Prop)
    (hx : ∃ a, x = .ok a ∧ Q a) (hg : ∀ a, Q a → ResPost P (g a)) : ResPost P (x.bind g) := by
  obtain ⟨a, ha, hq⟩ := hx
  subst ha
  exact hg a hq

theorem ResPost_bind_bnd {β : Type} {P : β → Prop} {e : Env} {p : Nat} {x : Res Nat}
    {g : Nat → Res β} (hx : Bnd e p x) (hg : ∀ q, p ≤ q → q ≤ e.len → ResPost P (g q)) :
    ResPost P (x.bind g) :=
  ResPost_bind (fun q => p ≤ q ∧ q ≤ e.len) hx (fun q h => hg q h.1 h.2)

theorem ite_post {α : Type} {P : α → Prop} {c : Prop} [Decidable c] {t e : α}
    (ht : c → P t) (he : ¬ c → P e) : P (ite c t e) := by
  split
  · exact ht ‹_›
  · exact he ‹_›

theorem toNat_le_one (b : Bool) : b.toNat ≤ 1 := by cases b <;> decide

/-- a token that ends strictly after the position where the Scan call started -/
theorem post_adv (e : Env) (st : St) (pos : Nat) (b : Bool) (stk : List Quote) (cls : Cls)
    (h0 : st.pos ≤ e.len) (h1 : st.pos < pos) (h2 : pos ≤ e.len) :
    StepPost e st (.done ⟨pos, b, stk⟩ cls) := by
  have := toNat_le_one b
  have := toNat_le_one st.eol
  simp only [StepPost, μ]
  omega

theorem tk_adv (e : Env) (st : St) (pos : Nat) (b : Bool) (cls : Cls)
    (h0 : st.pos ≤ e.len) (h1 : st.pos < pos) (h2 : pos ≤ e.len) :
    ResPost (StepPost e st) (tk st pos b cls) :=
  post_adv e st pos b _ cls h0 h1 h2

theorem scanNumber_spec (e : Env) (st : St) (start : Nat) (h0 : st.pos ≤ e.len)
    (h1 : st.pos ≤ start) : ResPost (StepPost e st) (scanNumber e st start) := by
  unfold scanNumber
  split
  · split
    · exact post_adv e st _ _ _ _ h0 (by omega) (by omega)
    · trivial
  · trivial

theorem strTok_post (e : Env) (st : St) (q : Quote) (r : Nat × Bool) (h0 : st.pos ≤ e.len)
    (h1 : st.pos < r.1) (h2 : r.1 ≤ e.len) : StepPost e st (strTok st q r) := by
  unfold strTok
  split <;> exact post_adv e st _ _ _ _ h0 h1 h2

theorem strBind_spec (e : Env) (st : St) (q : Quote) (f p : Nat) (h0 : st.pos ≤ e.len)
    (h1 : st.pos < p) (h2 : p ≤ e.len) (hf : e.len - st.pos + 1 ≤ f) :
    ResPost (StepPost e st)
      ((scanString e q false f p).bind fun r => .ok (strTok st q r)) := by
  refine ResPost_bind (fun r => p ≤ r.1 ∧ r.1 ≤ e.len)
    (scanString_total e q false f p h2 (by omega)) ?_
  intro r hr
  exact strTok_post e st q r h0 (by omega) hr.2

theorem stringStart_spec (e : Env) (f : Nat) (st : St) (nh : Nat) (c : Int) (p : Nat)
    (h0 : st.pos ≤ e.len) (h1 : st.pos < p) (h2 : p ≤ e.len) (hf : e.len - st.pos + 1 ≤ f) :
    ResPost (StepPost e st) (stringStart e f st nh c p) := by
  unfold stringStart
  simp only []
  have hq := consumeQuotes_bnd e c 2 p 0 h2
  generalize consumeQuotes e c 2 p 0 = cq at hq
  have hh := scanHashes_bnd e nh cq.1 0 hq.2
  generalize scanHashes e nh cq.1 0 = hs at hh
  split
  · exact strBind_spec e st _ f _ h0 (by omega) hq.2 hf
  · split
    · split
      · exact post_adv e st _ _ _ _ h0 (by omega) hh.2
      · exact strBind_spec e st _ f _ h0 (by omega) hh.2 hf
    · generalize hg : (if nh > 0 then hs else (cq.1, 0)) = h
      have hb : cq.1 ≤ h.1 ∧ h.1 ≤ e.len := by
        rw [← hg]; split
        · exact hh
        · exact ⟨Nat.le_refl _, hq.2⟩
      have n1 := e.le_next h.1
      have n2 := e.next_le hb.2
      have n3 := e.le_next (e.next h.1)
      have n4 := e.next_le n2
      split
      · exact post_adv e st _ _ _ _ h0 (by omega) hb.2
      · split
        · exact strBind_spec e st _ f _ h0 (by omega) n2 hf
        · split
          · split
            · exact strBind_spec e st _ f _ h0 (by omega) n4 hf
            · exact post_adv e st _ _ _ _ h0 (by omega) n2
          · exact post_adv e st _ _ _ _ h0 (by omega) hb.2

theorem switch2_post (e : Env) (st : St) (p : Nat) (t0 t1 : Cls) (h0 : st.pos ≤ e.len)
    (h1 : st.pos < p) (h2 : p ≤ e.len) : StepPost e st (switch2 e st p t0 t1) := by
  unfold switch2
  have := e.le_next p
  have := e.next_le h2
  split <;> exact post_adv e st _ _ _ _ h0 (by omega) (by omega)

theorem scanUnderscore_spec (e : Env) (f : Nat) (st : St) (p1 : Nat) (h0 : st.pos ≤ e.len)
    (h1 : st.pos < p1) (h2 : p1 ≤ e.len) (hf : e.len - st.pos + 1 ≤ f) :
    ResPost (StepPost e st) (scanUnderscore e f st p1) := by
  unfold scanUnderscore
  have := e.le_next p1
  have := e.next_le h2
  have := e.le_next (e.next p1)
  have := e.next_le (e.next_le h2)
  split
  · exact tk_adv e st _ _ _ h0 (by omega) (by omega)
  · refine ResPost_bind_bnd (scanFieldIdentifier_total e f p1 h2 (by omega)) ?_
    intro p2 h3 h4
    have := e.le_next p2
    have := e.next_le h4
    split
    · refine ResPost_bind_bnd (scanIdentifier_total e f (e.next p2) (by omega) (by omega)) ?_
      intro p3 h5 h6
      exact tk_adv e st _ _ _ h0 (by omega) h6
    · exact tk_adv e st _ _ _ h0 (by omega) h4

theorem scanNewline_spec (e : Env) (f : Nat) (st : St) (p1 : Nat) (h0 : st.pos ≤ e.len)
    (h1 : st.pos < p1) (h2 : p1 ≤ e.len) (hf : e.len - st.pos + 1 ≤ f) :
    ResPost (StepPost e st) (scanNewline e f st p1) := by
  unfold scanNewline
  refine ResPost_bind_bnd (skipWhitespace_total e false f p1 h2 (by omega)) ?_
  intro p2 h3 h4
  split
  · have := toNat_le_one st.eol
    simp only [ResPost, StepPost, μ, Bool.toNat_false]
    omega
  · exact tk_adv e st _ _ _ h0 (by omega) h4

theorem scanHashStr_spec (e : Env) (f : Nat) (st : St) (nh : Nat) (p1 : Nat) (h0 : st.pos ≤ e.len)
    (h1 : st.pos < p1) (h2 : p1 ≤ e.len) (hf : e.len - st.pos + 1 ≤ f) :
    ResPost (StepPost e st) (scanHashStr e f st nh p1) := by
  unfold scanHashStr
  refine ResPost_bind_bnd (whileCh_total e _ (by decide) f p1 h2 (by omega)) ?_
  intro p2 h3 h4
  have := e.le_next p2
  have := e.next_le h4
  simp only []
  split
  · exact tk_adv e st _ _ _ h0 (by omega) h4
  · exact stringStart_spec e f st _ _ _ h0 (by omega) (by omega) hf

theorem scanAt_spec (e : Env) (f : Nat) (st : St) (p1 : Nat) (h0 : st.pos ≤ e.len)
    (h1 : st.pos < p1) (h2 : p1 ≤ e.len) (hf : e.len - st.pos + 1 ≤ f) :
    ResPost (StepPost e st) (scanAt e f st p1) := by
  unfold scanAt
  refine ResPost_bind_bnd (scanIdentifier_total e f p1 h2 (by omega)) ?_
  intro p2 h3 h4
  exact ⟨h4, rfl, by simp only []; omega⟩

theorem scanDot_spec (e : Env) (st : St) (offset p1 : Nat) (h0 : st.pos ≤ e.len)
    (ho : st.pos ≤ offset) (h1 : st.pos < p1) (h2 : p1 ≤ e.len) :
    ResPost (StepPost e st) (scanDot e st offset p1) := by
  unfold scanDot
  have := e.le_next p1
  have := e.next_le h2
  have := e.le_next (e.next p1)
  have := e.next_le (e.next_le h2)
  split
  · exact scanNumber_spec e st offset h0 ho
  · split
    · simp only []
      split <;> exact tk_adv e st _ _ _ h0 (by omega) (by omega)
    · exact tk_adv e st _ _ _ h0 (by omega) (by omega)

theorem scanSlash_spec (e : Env) (f : Nat) (st : St) (offset p1 : Nat) (h0 : st.pos ≤ e.len)
    (ho : st.pos ≤ offset) (ho2 : offset ≤ e.len) (h1 : st.pos < p1) (h2 : p1 ≤ e.len)
    (hf : e.len - st.pos + 1 ≤ f) :
    ResPost (StepPost e st) (scanSlash e f st offset p1) := by
  unfold scanSlash
  split
  · split
    · -- the comment-with-insertEOL reset: the position goes back to the '/', insertEOL is cleared
      rename_i heol
      simp only [tk, ResPost, StepPost, μ, heol, Bool.toNat_false, Bool.toNat_true]
      omega
    · refine ResPost_bind_bnd (scanComment_total e f p1 h2 (by omega)) ?_
      intro p2 h3 h4
      exact tk_adv e st _ _ _ h0 (by omega) h4
  · exact tk_adv e st _ _ _ h0 (by omega) (by omega)

theorem scanDefault_spec (e : Env) (f : Nat) (st : St) (offset nh : Nat) (c : Int) (p : Nat)
    (hc : c = e.ch p) (h0 : st.pos ≤ e.len) (ho : st.pos ≤ offset) (hop : offset ≤ p)
    (h2 : p ≤ e.len) (hf : e.len - st.pos + 1 ≤ f) :
    ResPost (StepPost e st) (scanDefault e f st offset nh c p) := by
  unfold scanDefault
  simp only []
  by_cases hc1 : c = -1
  · rw [if_pos hc1]
    have hge : e.len ≤ p := by
      apply Decidable.byContradiction
      intro hn
      have := e.ch_nonneg (Nat.lt_of_not_le hn)
      omega
    have hnx : e.next p = p := by unfold Env.next; rw [if_neg (by omega)]
    rw [hnx]
    split
    · rename_i heol
      simp only [tk, ResPost, StepPost, μ, heol, Bool.toNat_false, Bool.toNat_true]
      omega
    · have := toNat_le_one st.eol
      simp only [tk, ResPost, StepPost, μ, Bool.toNat_false]
      refine ⟨h2, by omega, fun h => absurd rfl h⟩
  · rw [if_neg hc1]
    have hlt : p < e.len := e.lt_of_ch (hc ▸ hc1)
    rw [e.next_of_lt hlt]
    have := e.le_next (p + 1)
    have := e.next_le (show p + 1 ≤ e.len by omega)
    have hs : st.pos < p + 1 := by omega
    have hl : p + 1 ≤ e.len := by omega
    repeat' (with_reducible refine ite_post (P := ResPost (StepPost e st)) (fun _ => ?_) (fun _ => ?_))
    all_goals first
      | exact tk_adv e st _ _ _ h0 (by omega) (by omega)
      | exact switch2_post e st _ _ _ h0 hs hl
      | exact scanUnderscore_spec e f st _ h0 hs hl hf
      | exact scanNewline_spec e f st _ h0 hs hl hf
      | exact scanHashStr_spec e f st _ _ h0 hs hl hf
      | exact stringStart_spec e f st _ _ _ h0 hs hl hf
      | exact scanAt_spec e f st _ h0 hs hl hf
      | exact scanDot_spec e st _ _ h0 ho hs hl
      | exact scanSlash_spec e f st _ _ h0 ho (by omega) hs hl hf

theorem scanStep_spec (e : Env) (f : Nat) (st : St) (offset : Nat) (h0 : st.pos ≤ e.len)
    (ho : st.pos ≤ offset) (h2 : offset ≤ e.len) (hf : e.len - st.pos + 1 ≤ f) :
    ResPost (StepPost e st) (scanStep e f st offset) := by
  unfold scanStep
  simp only []
  split
  · exact scanNumber_spec e st offset h0 ho
  · split
    · rename_i hnd hid
      -- the first rune is a letter, '$' or '#': it is not EOF, and the identifier consumes it
      refine ResPost_bind_bnd (scanFieldIdentifier_adv e f offset h2 (by omega) hid) ?_
      intro p1 h3 h4
      split
      · exact post_adv e st _ _ _ _ h0 (by omega) h4
      · split
        · exact post_adv e st _ _ _ _ h0 (by omega) h4
        · exact scanDefault_spec e f st offset 1 _ p1 rfl h0 ho (by omega) h4 hf
    · exact scanDefault_spec e f st offset 0 _ offset rfl h0 ho (Nat.le_refl _) h2 hf

/-! ## P2 for Scan (with scanAttribute / scanAttributeTokens), P3 for the client -/

theorem ResPost_bind' {α β : Type} {P : β → Prop} {x : Res α} {g : α → Res β} (Q : α → Prop)
    (hx : ResPost Q x) (hg : ∀ a, Q a → ResPost P (g a)) : ResPost P (x.bind g) := by
  cases x with
  | ok a => exact hg a hx
  | fuel => exact hx
  | badOracle => trivial
  | panic => trivial

theorem ResPost_mono {α : Type} {P Q : α → Prop} {x : Res α} (h : ∀ a, P a → Q a)
    (hx : ResPost P x) : ResPost Q x := by
  cases x with
  | ok a => exact h a hx
  | fuel => exact hx
  | badOracle => trivial
  | panic => trivial

/-- what a Scan call started in `st` guarantees about its result `(st', start, class)` -/
def ScanPost (e : Env) (st : St) (r : St × Nat × Cls) : Prop :=
  r.1.pos ≤ e.len ∧ μ e r.1 ≤ μ e st ∧ (r.2.2 ≠ .EOF → μ e r.1 < μ e st)

def AttrPost (e : Env) (st : St) (st' : St) : Prop := st'.pos ≤ e.len ∧ μ e st' ≤ μ e st

theorem popQuote_spec (st : St) :
    ResPost (fun qs : Quote × St => qs.2.pos = st.pos ∧ qs.2.eol = st.eol) (popQuote st) := by
  unfold popQuote
  split
  · exact ⟨rfl, rfl⟩
  · trivial

theorem mu_ge (e : Env) (st : St) : e.len - st.pos ≤ μ e st := by unfold μ; omega

theorem scan_attr_spec (e : Env) : ∀ F : Nat,
    (∀ st : St, st.pos ≤ e.len → μ e st + 2 ≤ F → ResPost (ScanPost e st) (scan e F st)) ∧
    (∀ (close : Close) (st : St), st.pos ≤ e.len → μ e st + 3 ≤ F →
      ResPost (AttrPost e st) (scanAttrTokens e F close st)) := by
  intro F
  induction F with
  | zero => exact ⟨fun _ _ h => by omega, fun _ _ _ h => by omega⟩
  | succ F ih =>
    obtain ⟨ihS, ihA⟩ := ih
    constructor
    · intro st h0 hF
      have hm := mu_ge e st
      rw [scan]
      refine ResPost_bind_bnd (skipWhitespace_total e st.eol F st.pos h0 (by omega)) ?_
      intro offset h1 h2
      refine ResPost_bind' _ (scanStep_spec e F st offset h0 h1 h2 (by omega)) ?_
      intro step hstep
      cases step with
      | done st' cls => exact hstep
      | again st' =>
        obtain ⟨hp, hlt⟩ := hstep
        refine ResPost_mono ?_ (ihS st' hp (by omega))
        intro r hr
        exact ⟨hr.1, by have := hr.2.1; omega, fun _ => by have := hr.2.1; omega⟩
      | attr st1 =>
        obtain ⟨hp, heol, hlt⟩ := hstep
        have hm1 : μ e st1 + 2 ≤ μ e st := by unfold μ; rw [heol]; omega
        simp only []
        refine ResPost_bind' _ (ihS st1 hp (by omega)) ?_
        intro r hr
        have hattr : ∀ st3 : St, st3.pos ≤ e.len → μ e st3 ≤ μ e r.1 →
            ScanPost e st ({ st3 with eol := true }, offset, Cls.ATTR) := by
          intro st3 h3 h4
          have := hr.2.1
          have : μ e { st3 with eol := true } ≤ μ e st3 + 1 := by unfold μ; simp only [Bool.toNat_true]; omega
          exact ⟨h3, show μ e { st3 with eol := true } ≤ μ e st by omega,
            fun _ => show μ e { st3 with eol := true } < μ e st by omega⟩
        split
        · refine ResPost_bind' _ (ihA .paren r.1 hr.1 (by have := hr.2.1; omega)) ?_
          intro st3 h3
          exact hattr st3 h3.1 h3.2
        · exact hattr r.1 hr.1 (Nat.le_refl _)
    · intro close st h0 hF
      have hm := mu_ge e st
      rw [scanAttrTokens]
      refine ResPost_bind' _ (ihS st h0 (by omega)) ?_
      intro r hr
      obtain ⟨hp, hle, hlt⟩ := hr
      simp only []
      have loop : ∀ (cl : Close) (st2 : St), st2.pos ≤ e.len → μ e st2 < μ e st →
          ResPost (AttrPost e st) (scanAttrTokens e F cl st2) := by
        intro cl st2 h2 h3
        refine ResPost_mono ?_ (ihA cl st2 h2 (by omega))
        intro a ha
        exact ⟨ha.1, by have := ha.2; omega⟩
      have nested : ∀ (c1 cl : Close), r.2.2 ≠ .EOF →
          ResPost (AttrPost e st)
            ((scanAttrTokens e F c1 r.1).bind fun st2 => scanAttrTokens e F cl st2) := by
        intro c1 cl hne
        have := hlt hne
        refine ResPost_bind' _ (ihA c1 r.1 hp (by omega)) ?_
        intro st2 h2
        exact loop cl st2 h2.1 (by have := h2.2; omega)
      split
      · exact ⟨hp, hle⟩
      · split
        · exact ⟨hp, hle⟩
        · rename_i hne
          split
          · refine ResPost_bind' _ (popQuote_spec r.1) ?_
            intro qs hqs
            refine ResPost_bind_bnd (recoverParen_total e F 1 qs.2.pos (by rw [hqs.1]; exact hp)
              (by rw [hqs.1]; have := mu_ge e r.1; have := hlt hne; omega)) ?_
            intro p h3 h4
            refine loop close _ h4 ?_
            show μ e ⟨p, qs.2.eol, qs.2.stack⟩ < μ e st
            have := hlt hne
            have : μ e ⟨p, qs.2.eol, qs.2.stack⟩ ≤ μ e r.1 := by
              unfold μ; simp only []; rw [hqs.2]; rw [hqs.1] at h3; omega
            omega
          · split
            · exact nested _ _ hne
            · split
              · exact nested _ _ hne
              · split
                · exact nested _ _ hne
                · exact loop close r.1 hp (hlt hne)

/-- P1 for Scan: enough fuel ⇒ the answer is not `fuel` -/
theorem scan_total (e : Env) (F : Nat) (st : St) (h0 : st.pos ≤ e.len) (hF : μ e st + 2 ≤ F) :
    scan e F st ≠ .fuel := by
  intro h
  have := (scan_attr_spec e F).1 st h0 hF
  rw [h] at this
  exact this

/-- P2: the measure never increases over a Scan call, and strictly decreases for every token
other than EOF (so: the call ends at a strictly larger position, or at the same position with
insertEOL cleared — this covers the comment-with-insertEOL reset, where the position goes back
to the '/' after `s.next()`) -/
theorem scan_progress (e : Env) (F : Nat) (st st' : St) (start : Nat) (cls : Cls)
    (h0 : st.pos ≤ e.len) (hF : μ e st + 2 ≤ F) (h : scan e F st = .ok (st', start, cls)) :
    st'.pos ≤ e.len ∧ μ e st' ≤ μ e st ∧ (cls ≠ .EOF → μ e st' < μ e st) := by
  have := (scan_attr_spec e F).1 st h0 hF
  rw [h] at this
  exact this

/-- the position form of P2 -/
theorem scan_progress_pos (e : Env) (F : Nat) (st st' : St) (start : Nat) (cls : Cls)
    (h0 : st.pos ≤ e.len) (hF : μ e st + 2 ≤ F) (h : scan e F st = .ok (st', start, cls))
    (hne : cls ≠ .EOF) :
    st.pos < st'.pos ∨ (st'.pos = st.pos ∧ st.eol = true ∧ st'.eol = false) := by
  obtain ⟨h1, _, h3⟩ := scan_progress e F st st' start cls h0 hF h
  have h4 := h3 hne
  unfold μ at h4
  by_cases hlt : st.pos < st'.pos
  · exact Or.inl hlt
  · right
    rcases Bool.eq_false_or_eq_true st.eol with hb | hb <;>
      rcases Bool.eq_false_or_eq_true st'.eol with hb' | hb' <;>
      simp only [hb, hb', Bool.toNat_true, Bool.toNat_false] at h4 <;>
      first
        | omega
        | exact ⟨by omega, hb, hb'⟩

theorem scanAttrTokens_total (e : Env) (F : Nat) (close : Close) (st : St) (h0 : st.pos ≤ e.len)
    (hF : μ e st + 3 ≤ F) : scanAttrTokens e F close st ≠ .fuel := by
  intro h
  have := (scan_attr_spec e F).2 close st h0 hF
  rw [h] at this
  exact this

theorem resume_spec (e : Env) (f : Nat) (st : St) (h0 : st.pos ≤ e.len)
    (hf : e.len - st.pos + 1 ≤ f) :
    ResPost (fun r : St × Nat × Cls => r.1.pos ≤ e.len ∧ μ e r.1 ≤ μ e st) (resume e f st) := by
  unfold resume
  refine ResPost_bind' _ (popQuote_spec st) ?_
  intro qs hqs
  refine ResPost_bind (fun r => qs.2.pos ≤ r.1 ∧ r.1 ≤ e.len)
    (scanString_total e qs.1 true f qs.2.pos (by rw [hqs.1]; exact h0) (by rw [hqs.1]; exact hf)) ?_
  intro r hr
  rw [hqs.1] at hr
  split
  · exact ⟨hr.2, by unfold μ; simp only []; rw [hqs.2]; omega⟩
  · exact ⟨hr.2, by unfold μ; simp only []; rw [hqs.2]; omega⟩

theorem scanAllLoop_spec (e : Env) : ∀ (F : Nat) (st : St) (depth : List Nat) (acc : Trace),
    st.pos ≤ e.len → μ e st + 3 ≤ F →
      ResPost (fun _ => True) (scanAllLoop e F st depth acc) := by
  intro F
  induction F with
  | zero => intro _ _ _ _ h; omega
  | succ F ih =>
    intro st depth acc h0 hF
    have hm := mu_ge e st
    rw [scanAllLoop]
    refine ResPost_bind' _ ((scan_attr_spec e F).1 st h0 (by omega)) ?_
    intro r hr
    obtain ⟨hp, hle, hlt⟩ := hr
    simp only []
    split
    · trivial
    · rename_i hne
      have hl := hlt hne
      have next : ∀ (d : List Nat) (a : Trace), ResPost (fun _ => True) (scanAllLoop e F r.1 d a) :=
        fun d a => ih r.1 d a hp (by omega)
      split
      · exact next _ _
      · split
        · exact next _ _
        · split
          · exact next _ _
          · split
            · split
              · have hm1 := mu_ge e r.1
                refine ResPost_bind' _ (resume_spec e F r.1 hp (by omega)) ?_
                intro r2 hr2
                split
                · exact ih r2.1 _ _ hr2.1 (by have := hr2.2; omega)
                · exact ih r2.1 _ _ hr2.1 (by have := hr2.2; omega)
              · exact next _ _
            · exact next _ _

theorem initPos_le (e : Env) : initPos e ≤ e.len := by
  unfold initPos
  split
  · exact e.next_le (Nat.zero_le _)
  · exact Nat.zero_le _

/-- P3: with fuel `2·length + 4` the client loop (Scan until EOF, ResumeInterpolation after the
closing parenthesis of every interpolation) never runs out of fuel — for every rune list and
every oracle.  (`badOracle` for a number-extent oracle that breaks `start < end ≤ length`, and
`panic` for ResumeInterpolation on an empty quote stack, are the other possible answers.) -/
theorem scanAll_total (e : Env) : scanAll e ≠ .fuel := by
  intro h
  have h1 := initPos_le e
  have := scanAllLoop_spec e (scanAllFuel e) (initSt e) [] [] h1 (by
    unfold μ scanAllFuel initSt
    simp only [Bool.toNat_false]
    omega)
  unfold scanAll at h
  rw [h] at this
  exact this

/-! ## non-vacuity (tests on samples, not the property) -/

/-- environment for an ASCII-only sample with a number-extent table -/
def sampleEnv (s : String) (tbl : List (Nat × Nat)) : Env :=
  { src := s.toList.map Char.toNat
    uniLetter := fun _ => false
    uniDigit := fun _ => false
    numEnd := fun p => (tbl.find? fun x => x.1 == p).map (·.2) }

-- `@x("\(` : the attribute swallows the interpolation (recoverParen runs to EOF)
example : scanAll (sampleEnv "@x(\"\\(" []) =
    .ok [(0, 6, .ATTR), (6, 6, .COMMA_ELIDED), (6, 6, .EOF)] := by decide

-- `a: "x\(b)y" // c` : interpolation, ResumeInterpolation, and the comment-with-insertEOL reset
example : scanAll (sampleEnv "a: \"x\\(b)y\" // c" []) =
    .ok [(0, 1, .IDENT), (1, 2, .COLON), (3, 6, .INTERP), (6, 7, .LPAREN), (7, 8, .IDENT),
      (8, 9, .RPAREN), (9, 11, .RESUME), (12, 12, .COMMA_ELIDED), (12, 16, .COMMENT),
      (16, 16, .EOF)] := by decide

-- a bad number oracle is reported, not looped on
example : scanAll (sampleEnv "1" [(0, 0)]) = .badOracle := by decide
example : scanAll (sampleEnv "12 " [(0, 2)]) = .ok [(0, 2, .NUM), (3, 3, .COMMA_ELIDED), (3, 3, .EOF)] := by
  decide

end CueVerif.ScanLoops
