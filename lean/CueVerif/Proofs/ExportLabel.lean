import CueVerif.Spec.Export
import CueVerif.Proofs.QuoteMain
import CueVerif.Proofs.Ident
/-!
C07 (1) — proofs: the label the exporter prints for a string compiles back to the regular field
of that name.  Uses C09's round-trip theorem for `literal.String.Quote` / `literal.Unquote` and
C09's scanner/`IsValidIdent` agreement.  Core Lean only.
-/
namespace CueVerif.Export
open CueVerif

theorem needsQuoting_false (lU dU : Nat → Bool) (s : Bytes) (h : needsQuoting lU dU s = false) :
    hasPrefixByte 35 s = false ∧ hasPrefixByte 95 s = false ∧
      Ident.isValidIdent lU dU (runes s) = true := by
  unfold needsQuoting at h
  simp only [Bool.or_eq_false_iff, Bool.not_eq_false'] at h
  exact ⟨h.1.1, h.1.2, h.2⟩

/-- an identifier that starts with neither `#` nor `_` is a regular (string) label -/
theorem identFeature_plain (n : Bytes) (h1 : hasPrefixByte 35 n = false)
    (h2 : hasPrefixByte 95 n = false) : identFeature n = some (.str n) := by
  cases n with
  | nil => rfl
  | cons c rest =>
    simp only [hasPrefixByte, List.head?_cons, beq_eq_false_iff_ne, ne_eq, Option.some.injEq] at h1 h2
    simp [identFeature, hasPrefixByte, h1, h2, List.isPrefixOf]
    intro h; exact absurd h.symm h2

/-- what the printed label compiles to, for every byte string that is valid UTF-8 -/
theorem label_general {E : Quote.Env} (hE : E.Ok) (lU dU : Nat → Bool) (nfc : Bytes → Bytes)
    (s : Bytes) (hb : Quote.IsBytes s) (hv : Quote.validUTF8 s = true) :
    parseLabel nfc (printLabel E lU dU s) =
      some (.str (if needsQuoting lU dU s = true then nfc s else s)) := by
  unfold printLabel
  cases hq : needsQuoting lU dU s with
  | true =>
    simp only [if_true, parseLabel]
    rw [Quote.roundtrip_single_all hE Quote.stringForm (Or.inl ⟨rfl, rfl⟩) s hb (Or.inr hv) rfl]
  | false =>
    obtain ⟨h1, h2, _⟩ := needsQuoting_false lU dU s hq
    simp only [Bool.false_eq_true, if_false, parseLabel]
    exact identFeature_plain s h1 h2

theorem label_roundtrip {E : Quote.Env} (hE : E.Ok) (lU dU : Nat → Bool) (nfc : Bytes → Bytes)
    (s : Bytes) (hb : Quote.IsBytes s) (hv : Quote.validUTF8 s = true) (hn : nfc s = s) :
    parseLabel nfc (printLabel E lU dU s) = some (.str s) := by
  rw [label_general hE lU dU nfc s hb hv, hn]; simp

/-- the exporter's own label (with `package`/`import` always quoted) round-trips as well -/
theorem exportLabel_roundtrip {E : Quote.Env} (hE : E.Ok) (lU dU : Nat → Bool) (nfc : Bytes → Bytes)
    (s : Bytes) (hb : Quote.IsBytes s) (hv : Quote.validUTF8 s = true) (hn : nfc s = s) :
    parseLabel nfc (exportLabel E lU dU s) = some (.str s) := by
  unfold exportLabel
  cases hk : isFileKeyword s with
  | true =>
    simp only [if_true, parseLabel]
    rw [Quote.roundtrip_single_all hE Quote.stringForm (Or.inl ⟨rfl, rfl⟩) s hb (Or.inr hv) rfl]
    simp [hn]
  | false =>
    simp only [Bool.false_eq_true, if_false]
    exact label_roundtrip hE lU dU nfc s hb hv hn

/-- an identifier the exporter prints is never `package` or `import` -/
theorem exportLabel_ident_not_keyword (E : Quote.Env) (lU dU : Nat → Bool) (s n : Bytes)
    (h : exportLabel E lU dU s = .ident n) :
    isFileKeyword n = false ∧ printLabel E lU dU s = .ident n := by
  unfold exportLabel at h
  cases hk : isFileKeyword s with
  | true => rw [hk] at h; simp at h
  | false =>
    rw [hk] at h
    simp only [Bool.false_eq_true, if_false] at h
    refine ⟨?_, h⟩
    unfold printLabel at h
    cases hq : needsQuoting lU dU s with
    | true => rw [hq] at h; simp at h
    | false =>
      rw [hq] at h
      simp only [Bool.false_eq_true, if_false, LabelSyntax.ident.injEq] at h
      rw [← h]; exact hk

theorem label_ident_safe (E : Quote.Env) (lU dU : Nat → Bool) (s n : Bytes)
    (h : printLabel E lU dU s = .ident n) :
    n = s ∧ Ident.isValidIdent lU dU (runes n) = true ∧ hasPrefixByte 35 n = false ∧
      hasPrefixByte 95 n = false ∧ identFeature n = some (.str n) := by
  unfold printLabel at h
  cases hq : needsQuoting lU dU s with
  | true => rw [hq] at h; simp at h
  | false =>
    rw [hq] at h
    simp only [Bool.false_eq_true, if_false, LabelSyntax.ident.injEq] at h
    subst h
    obtain ⟨h1, h2, h3⟩ := needsQuoting_false lU dU s hq
    exact ⟨rfl, h3, h1, h2, identFeature_plain s h1 h2⟩

theorem label_scans (E : Quote.Env) (lU dU : Nat → Bool) (hL1 : lU 0xFFFD = false)
    (hL2 : lU 0xFEFF = false) (hD1 : dU 0xFFFD = false) (hD2 : dU 0xFEFF = false)
    (hdisj : ∀ c, 128 ≤ c → lU c = true → dU c = false) (s n : Bytes)
    (h : printLabel E lU dU s = .ident n) : Ident.scanIdentClean lU dU (runes n) = true := by
  rw [Ident.ident_agree_clean lU dU hL1 hL2 hD1 hD2 hdisj]
  exact (label_ident_safe E lU dU s n h).2.1

/-! ### the unconditional statement is false: NFC -/

/-- "e" followed by U+0301 COMBINING ACUTE ACCENT -/
def nfcWitness : Bytes := [0x65, 0xCC, 0x81]

theorem nfcWitness_quoted (lU dU : Nat → Bool) (hl : lU 0x301 = false) (hd : dU 0x301 = false) :
    needsQuoting lU dU nfcWitness = true := by
  have hr : runes nfcWitness = [0x65, 0x301] := by decide
  unfold needsQuoting
  rw [hr]
  simp [Ident.isValidIdent, Ident.cutPrefix, Ident.identPart, Ident.isLetter, Ident.isDigit,
    Ident.firstRune, hl, hd, nfcWitness, hasPrefixByte]

theorem nfcWitness_valid : Quote.IsBytes nfcWitness ∧ Quote.validUTF8 nfcWitness = true := by
  constructor
  · intro b hb; simp [nfcWitness] at hb; omega
  · simp [nfcWitness, Quote.validUTF8, Quote.decodeFirst, Quote.decodeRune, Quote.isCont]

end CueVerif.Export
