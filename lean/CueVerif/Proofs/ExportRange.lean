import CueVerif.Proofs.ExportSimplify
/-!
C07 (2) — proofs: `adt.MatchBuiltinRange` and the `*adt.Conjunction` arm.  Core Lean only.
-/
namespace CueVerif.Export
open CueVerif CueVerif.Scalar Std

/-! ### the tables of builtinrange.go against the predeclared ranges of C03 -/

/-- a row of `intBuiltinRanges` is the predeclared range of that name -/
def intRowOK (row : BuiltinRange) : Bool :=
  match Range.ofName? row.name with
  | some r => r.intSpec == some (row.lo.coeff, some row.hi.coeff) && row.lo.exp == 0 && row.hi.exp == 0
  | none => false

/-- a row of `floatBuiltinRanges` is the predeclared range of that name -/
def floatRowOK (row : BuiltinRange) : Bool :=
  match Range.ofName? row.name with
  | some r => r.intSpec == none && row.hi == r.floatMax && row.lo == r.floatMax.neg
  | none => false

theorem int_table_ok : intBuiltinRanges.all intRowOK = true := by decide
theorem float_table_ok : floatBuiltinRanges.all floatRowOK = true := by decide
theorem no_rune_row : (intBuiltinRanges ++ floatBuiltinRanges).all (fun r => r.name != "rune") = true := by decide
theorem uint_name : Range.ofName? "uint" = some .uint := by decide

theorem ofName_name (n : String) (r : Range) (h : Range.ofName? n = some r) : Range.name r = n := by
  unfold Range.ofName? at h
  have := List.find?_some h
  simpa using this

/-! ### numeric comparison up to equal value -/

theorem numSat_congr (op : Op) (a : Atom) (m n : Dec) (h : Dec.cmp m n = .eq) :
    numSat op a m = numSat op a n := by
  unfold numSat
  cases a.num? with
  | none => rfl
  | some x => simp only []; rw [TransCmp.congr_right (cmp := Dec.cmp) h]

theorem numSat_int (op : Op) (z lo : Int) :
    numSat op (.int z) (Dec.ofInt lo) = opHolds op (compare z lo) := by
  simp only [numSat, Atom.num?, Dec.cmp_ofInt_ofInt]

theorem compare_le (z h : Int) : (compare z h).isLE = decide (z ≤ h) := by
  rcases Int.lt_trichotomy z h with h' | h' | h'
  · rw [Int.compare_eq_lt.2 h']; exact (decide_eq_true (by omega)).symm
  · subst h'; rw [Int.compare_eq_eq.2 rfl]; exact (decide_eq_true (by omega)).symm
  · rw [Int.compare_eq_gt.2 h']; exact (decide_eq_false (by omega)).symm

theorem compare_ge (z l : Int) : (compare z l).isGE = decide (l ≤ z) := by
  rcases Int.lt_trichotomy z l with h' | h' | h'
  · rw [Int.compare_eq_lt.2 h']; exact (decide_eq_false (by omega)).symm
  · subst h'; rw [Int.compare_eq_eq.2 rfl]; exact (decide_eq_true (by omega)).symm
  · rw [Int.compare_eq_gt.2 h']; exact (decide_eq_true (by omega)).symm

/-- the denotation of a sized integer range -/
theorem satRange_int (a : Atom) (r : Range) (lo hi : Int) (h : r.intSpec = some (lo, some hi)) :
    satRange a r =
      (Kind.has Kind.int a && numSat .ge a (Dec.ofInt lo) && numSat .le a (Dec.ofInt hi)) := by
  rw [int_has]
  unfold satRange
  rw [h]
  cases a with
  | int z =>
    simp only [numSat_int, opHolds_ge, opHolds_le, compare_le, compare_ge, Bool.true_and]
  | _ => rfl

/-- the denotation of a float range -/
theorem satRange_float (a : Atom) (r : Range) (h : r.intSpec = none) :
    satRange a r = (numSat .ge a r.floatMax.neg && numSat .le a r.floatMax) := by
  unfold satRange numSat
  rw [h]
  cases a.num? with
  | none => rfl
  | some x =>
    simp only [opHolds_ge, opHolds_le]
    rw [OrientedCmp.eq_swap (cmp := Dec.cmp) (a := x) (b := r.floatMax.neg)]
    cases Dec.cmp r.floatMax.neg x <;> rfl

/-! ### the scan loop -/

def optSat (op : Op) (a : Atom) : Option Dec → Bool
  | none => true
  | some n => numSat op a n

theorem optSat_some (op : Op) (a : Atom) (n : Dec) : optSat op a (some n) = numSat op a n := rfl
theorem optSat_none (op : Op) (a : Atom) : optSat op a none = true := rfl

def MState.den (s : MState) (a : Atom) : Bool :=
  (!s.hasInt || Kind.has Kind.int a) && optSat .ge a s.lo && optSat .le a s.hi

theorem type_ne_int (t : BType) (h : (t.kind != Kind.int) = false) : t = .int := by
  revert h; cases t <;> decide

theorem matchScan_sound (re : Bytes → Bytes → Bool) (cs : List Constraint) :
    ∀ s s' : MState, matchScan s cs = some s' →
      ∀ a, s'.den a = (s.den a && satAll re cs a) := by
  induction cs with
  | nil =>
    intro s s' h a
    simp only [matchScan, Option.some.injEq] at h
    subst h; simp [satAll]
  | cons c cs ih =>
    intro s s' h a
    rw [satAll_cons]
    cases c with
    | atom x => simp [matchScan] at h
    | range r => simp [matchScan] at h
    | type t =>
      simp only [matchScan] at h
      split at h
      · cases h
      · rename_i hc
        simp only [Bool.or_eq_true, not_or, Bool.not_eq_true] at hc
        have ht := type_ne_int t hc.1
        subst ht
        rw [ih _ _ h a]
        simp only [MState.den, hc.2, sat, BType.kind]
        cases Kind.has Kind.int a <;> cases optSat .ge a s.lo <;> cases optSat .le a s.hi <;>
          cases satAll re cs a <;> rfl
    | bound b =>
      simp only [matchScan] at h
      cases hn : b.val.num? with
      | none => rw [hn] at h; cases h
      | some n =>
        rw [hn] at h
        simp only at h
        cases hop : b.op <;> rw [hop] at h <;> simp only [reduceCtorEq] at h
        · -- le
          split at h
          · cases h
          · rename_i hc
            have hhi : s.hi = none := by
              cases hh : s.hi with
              | none => rfl
              | some x => rw [hh] at hc; simp at hc
            rw [ih _ _ h a]
            have := satBound_num re a b n hn (by rw [hop]; rfl)
            simp only [MState.den, hhi, optSat_some, optSat_none, sat, this, hop]
            cases (!s.hasInt || Kind.has Kind.int a) <;> cases optSat .ge a s.lo <;>
              cases numSat .le a n <;> cases satAll re cs a <;> rfl
        · -- ge
          split at h
          · cases h
          · rename_i hc
            have hlo : s.lo = none := by
              cases hh : s.lo with
              | none => rfl
              | some x => rw [hh] at hc; simp at hc
            rw [ih _ _ h a]
            have := satBound_num re a b n hn (by rw [hop]; rfl)
            simp only [MState.den, hlo, optSat_some, optSat_none, sat, this, hop]
            cases (!s.hasInt || Kind.has Kind.int a) <;> cases optSat .le a s.hi <;>
              cases numSat .ge a n <;> cases satAll re cs a <;> rfl

/-! ### the result of `MatchBuiltinRange` -/

/-- what a non-empty answer of `MatchBuiltinRange` means about the scanned state -/
theorem matchBuiltinName_cases (cs : List Constraint) :
    matchBuiltinName cs = "" ∨
    (∃ s lo, matchScan {} cs = some s ∧ s.lo = some lo ∧ s.hi = none ∧ s.hasInt = true ∧
      lo.coeff = 0 ∧ matchBuiltinName cs = "uint") ∨
    (∃ s lo hi row, matchScan {} cs = some s ∧ s.lo = some lo ∧ s.hi = some hi ∧
      row ∈ (if s.hasInt = true then intBuiltinRanges else floatBuiltinRanges) ∧
      rowMatches lo hi row = true ∧ matchBuiltinName cs = row.name) := by
  unfold matchBuiltinName
  cases hm : matchScan {} cs with
  | none => exact Or.inl rfl
  | some s =>
    simp only
    cases hlo : s.lo with
    | none => exact Or.inl rfl
    | some lo =>
      cases hhi : s.hi with
      | none =>
        simp only
        split
        · rename_i hc
          simp only [Bool.and_eq_true, beq_iff_eq] at hc
          exact Or.inr (Or.inl ⟨s, lo, rfl, hlo, hhi, hc.1, hc.2, rfl⟩)
        · exact Or.inl rfl
      | some hi =>
        simp only
        cases hf : (if s.hasInt = true then intBuiltinRanges else floatBuiltinRanges).find?
            (rowMatches lo hi) with
        | none => exact Or.inl rfl
        | some row =>
          exact Or.inr (Or.inr ⟨s, lo, hi, row, rfl, hlo, hhi, List.mem_of_find?_eq_some hf,
            List.find?_some hf, rfl⟩)

theorem den_init (a : Atom) : MState.den {} a = true := rfl

/-- the denotation of a matched row -/
theorem row_den (s : MState) (lo hi : Dec) (row : BuiltinRange) (hlo : s.lo = some lo)
    (hhi : s.hi = some hi) (hm : rowMatches lo hi row = true) (a : Atom) :
    s.den a = ((!s.hasInt || Kind.has Kind.int a) && numSat .ge a row.lo && numSat .le a row.hi) := by
  simp only [rowMatches, Bool.and_eq_true, beq_iff_eq] at hm
  simp only [MState.den, hlo, hhi, optSat, numSat_congr _ a _ _ hm.1, numSat_congr _ a _ _ hm.2]

theorem dec_eta (d : Dec) (h : d.exp = 0) : d = Dec.ofInt d.coeff := by
  cases d; simp only [Dec.ofInt] at *; subst h; rfl

/-- the identifier `MatchBuiltinRange` answers is a predeclared range, and that range denotes
exactly the conjunction -/
theorem matchName_sound (re : Bytes → Bytes → Bool) (cs : List Constraint)
    (hne : matchBuiltinName cs ≠ "") :
    ∃ r, Range.ofName? (matchBuiltinName cs) = some r ∧ ∀ a, satAll re cs a = sat re a (.range r) := by
  rcases matchBuiltinName_cases cs with h | ⟨s, lo, hm, hlo, hhi, hI, hc, hn⟩ |
      ⟨s, lo, hi, row, hm, hlo, hhi, hmem, hrm, hn⟩
  · exact absurd h hne
  · refine ⟨.uint, by rw [hn]; exact uint_name, fun a => ?_⟩
    have := matchScan_sound re cs {} s hm a
    rw [den_init, Bool.true_and] at this
    rw [← this]
    simp only [MState.den, hlo, hhi, hI, optSat, Bool.not_true, Bool.false_or, Bool.and_true, sat]
    rw [int_has, satRange_uint]
    cases a with
    | int z => simp only [Bool.true_and, numSat, Atom.num?]; exact ge_zero z lo hc
    | _ => rfl
  · have hsound := fun a => matchScan_sound re cs {} s hm a
    cases hI : s.hasInt with
    | true =>
      rw [hI] at hmem
      simp only [if_true] at hmem
      have hrow := List.all_eq_true.1 int_table_ok row hmem
      unfold intRowOK at hrow
      cases hof : Range.ofName? row.name with
      | none => rw [hof] at hrow; cases hrow
      | some r =>
        rw [hof] at hrow
        simp only [Bool.and_eq_true, beq_iff_eq] at hrow
        refine ⟨r, by rw [hn]; exact hof, fun a => ?_⟩
        have := hsound a
        rw [den_init, Bool.true_and] at this
        rw [← this, row_den s lo hi row hlo hhi hrm a, hI]
        simp only [sat]
        rw [satRange_int a r _ _ hrow.1.1, ← dec_eta _ hrow.1.2, ← dec_eta _ hrow.2]
        rfl
    | false =>
      rw [hI] at hmem
      simp only [Bool.false_eq_true, if_false] at hmem
      have hrow := List.all_eq_true.1 float_table_ok row hmem
      unfold floatRowOK at hrow
      cases hof : Range.ofName? row.name with
      | none => rw [hof] at hrow; cases hrow
      | some r =>
        rw [hof] at hrow
        simp only [Bool.and_eq_true, beq_iff_eq] at hrow
        refine ⟨r, by rw [hn]; exact hof, fun a => ?_⟩
        have := hsound a
        rw [den_init, Bool.true_and] at this
        rw [← this, row_den s lo hi row hlo hhi hrm a, hI]
        simp only [sat]
        rw [satRange_float a r hrow.1.1, hrow.1.2, hrow.2]
        rfl

theorem range_exact (re : Bytes → Bytes → Bool) (cs : List Constraint) (r : Range)
    (h : matchBuiltinRange cs = some r) (a : Atom) : satAll re cs a = sat re a (.range r) := by
  unfold matchBuiltinRange at h
  simp only at h
  split at h
  · cases h
  · rename_i hne
    obtain ⟨r', hr', hs⟩ := matchName_sound re cs (by simpa using hne)
    rw [hr'] at h
    cases h
    exact hs a

theorem range_named (cs : List Constraint) (hne : matchBuiltinName cs ≠ "") :
    ∃ r, matchBuiltinRange cs = some r ∧ Range.name r = matchBuiltinName cs := by
  obtain ⟨r, hr, _⟩ := matchName_sound (fun _ _ => false) cs hne
  refine ⟨r, ?_, ofName_name _ _ hr⟩
  unfold matchBuiltinRange
  simp only
  rw [if_neg (by simpa using hne)]
  exact hr

/-- `rune` is never printed -/
theorem range_not_rune (cs : List Constraint) : matchBuiltinRange cs ≠ some .rune := by
  intro h
  have hname : matchBuiltinName cs = "rune" := by
    unfold matchBuiltinRange at h
    simp only at h
    split at h
    · cases h
    · exact (ofName_name _ _ h).symm
  rcases matchBuiltinName_cases cs with h0 | ⟨_, _, _, _, _, _, _, hn⟩ | ⟨s, _, _, row, _, _, _, hmem, _, hn⟩
  · rw [hname] at h0; revert h0; decide
  · rw [hname] at hn; revert hn; decide
  · have hall := List.all_eq_true.1 no_rune_row row (by
      rw [List.mem_append]
      cases hI : s.hasInt <;> rw [hI] at hmem
      · exact Or.inr hmem
      · exact Or.inl hmem)
    rw [← hn, hname] at hall
    revert hall; decide

/-- fewer than two values: `MatchBuiltinRange` is not even called, and would answer "" -/
theorem matchName_short (cs : List Constraint) (h : cs.length < 2) : matchBuiltinName cs = "" := by
  match cs, h with
  | [], _ => rfl
  | [c], _ =>
    cases c with
    | atom x => rfl
    | range r => rfl
    | type t =>
      unfold matchBuiltinName
      simp only [matchScan]
      cases (t.kind != Kind.int || false) <;> rfl
    | bound b =>
      obtain ⟨op, v⟩ := b
      unfold matchBuiltinName
      simp only [matchScan]
      cases hn : v.num? with
      | none => rfl
      | some n => cases op <;> rfl

/-- the `*adt.Conjunction` arm preserves the denotation -/
theorem exportConj_sound (re : Bytes → Bytes → Bool) (cs : List Constraint) :
    ∃ out, exportConj cs = some out ∧ ∀ a, satAll re out a = satAll re cs a := by
  unfold exportConj
  split
  · exact ⟨cs, rfl, fun _ => rfl⟩
  · split
    · exact ⟨_, rfl, simplify_sound re cs⟩
    · rename_i hne
      obtain ⟨r, hr, hs⟩ := matchName_sound re cs (by simpa using hne)
      refine ⟨[.range r], by rw [hr]; rfl, fun a => ?_⟩
      rw [hs a]; simp [satAll]

end CueVerif.Export
