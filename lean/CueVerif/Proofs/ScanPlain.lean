/-
Scanner and `literal.Unquote` agree on PLAIN single-line string literals (C09): a quote
character, a body of printable ASCII bytes without that quote character and without
backslash, the closing quote character.  Core Lean only.
-/
import CueVerif.Proofs.QuoteMain
import CueVerif.Proofs.ScanStream
namespace CueVerif.Scan
open CueVerif.Quote

/-- printable ASCII without the quote character and without backslash -/
def Plain (q : Nat) (body : Str) : Prop :=
  ∀ b ∈ body, 0x20 ≤ b ∧ b < 0x7F ∧ b ≠ q ∧ b ≠ 0x5C

theorem Plain.tail {q b : Nat} {rest : Str} (h : Plain q (b :: rest)) : Plain q rest :=
  fun x hx => h x (List.mem_cons_of_mem _ hx)

/-! ### the literal side -/

theorem decodeFirst_ascii (b : Nat) (rest : Bytes) (h : b < 0x80) : decodeFirst b rest = (b, 1) := by
  unfold decodeFirst; simp [h]

theorem validUTF8_plain (q : Nat) : ∀ body, Plain q body → validUTF8 body = true := by
  intro body
  induction body with
  | nil => intro _; simp [validUTF8]
  | cons b rest ih =>
    intro h
    have hb := h b (by simp)
    have hd := decodeFirst_ascii b rest (by omega)
    unfold validUTF8
    simp only [hd]
    have : decide (0x80 ≤ b) = false := by simp; omega
    simp only [this, Bool.false_and, Bool.false_eq_true, if_false]
    simpa using ih h.tail

theorem escapeLoop_plain (f : Form) (hf : f.asciiOnly = false) :
    ∀ body, Plain f.quote body → escapeLoop asciiEnv f false 0 body = body := by
  intro body
  induction body with
  | nil => intro _; simp [escapeLoop]
  | cons b rest ih =>
    intro h
    have hb := h b (by simp)
    have hd := decodeFirst_ascii b rest (by omega)
    have h1 : (b == 0xFFFD) = false := by simp; omega
    rw [escapeLoop_cons_good asciiEnv f 0 b rest (by simp [hd, h1])]
    simp only [hd]
    have h2 : (b == f.quote) = false := by simp; exact hb.2.2.1
    have h3 : (b == 0x5C) = false := by simp; exact hb.2.2.2
    have h4 : f.isPrint asciiEnv b = true := by
      unfold Form.isPrint asciiEnv
      simp [hf]
      omega
    simp only [appendEscapedRune, Bool.not_false, Bool.true_and, h2, h3, Bool.or_self,
      Bool.false_eq_true, if_false, h4, if_true]
    rw [encodeRune_ascii b (by omega)]
    simpa using ih h.tail

theorem quote_plain (f : Form) (hf : f = stringForm ∨ f = bytesForm) (body : Bytes)
    (h : Plain f.quote body) : quote asciiEnv f body = f.quote :: (body ++ [f.quote]) := by
  have hfields : f.multiline = false ∧ f.auto = false ∧ f.autoHash = false ∧ f.asciiOnly = false := by
    rcases hf with h | h <;> subst h <;> exact ⟨rfl, rfl, rfl, rfl⟩
  obtain ⟨h1, h2, h3, h4⟩ := hfields
  unfold quote quoteWith
  have hml : f.effMultiline body = false := by unfold Form.effMultiline; simp [h1, h2]
  simp only [hml, hashCountWith, h3, Bool.false_eq_true, if_false, appendEscaped, Bool.not_false,
    Bool.true_and, decide_false, gt_iff_lt, Nat.lt_irrefl]
  rw [escapeLoop_plain f h4 body h]
  simp [hashes]

/-- `literal.Unquote` accepts a plain literal and returns its body -/
theorem unquote_plain (f : Form) (hf : f = stringForm ∨ f = bytesForm) (body : Bytes)
    (h : Plain f.quote body) : unquote (f.quote :: (body ++ [f.quote])) = .ok body := by
  rw [← quote_plain f hf body h]
  have hwf : f.WF := by
    rcases hf with h | h <;> subst h
    · exact Or.inl ⟨rfl, rfl⟩
    · exact Or.inr ⟨rfl, rfl⟩
  have hb : IsBytes body := fun b hb => by have := h b hb; omega
  have hml : f.effMultiline body = false := by
    rcases hf with h | h <;> subst h <;> simp [Form.effMultiline, stringForm, bytesForm]
  exact roundtrip_single_all asciiEnv_ok f hwf body hb (Or.inr (validUTF8_plain _ body h)) hml

/-! ### the scanner side -/

theorem width_ascii (b : Nat) (t : Str) (h : b < 0x80) : width (b :: t) = 1 := by
  unfold width; rw [decodeRune_ascii b t h]

theorem strLoop_plain (q : Nat) (hq : q = 34 ∨ q = 39) : ∀ (body lp : Str), Plain q body →
    strLoop ⟨q, 1, 0, none⟩ false lp false false 0 (body ++ [q]) =
      ⟨.STRING, [], false, false, 0, ⟨q, 1, 0, none⟩⟩ := by
  have hq80 : q < 0x80 := by rcases hq with h | h <;> omega
  have hq10 : (q == 10) = false := by rcases hq with h | h <;> subst h <;> rfl
  intro body
  induction body with
  | nil =>
    intro lp _
    simp only [List.nil_append]
    unfold strLoop
    simp only [hq10, Bool.and_false, Bool.false_eq_true, if_false, width_ascii q [] hq80]
    simp [strStep, consumeStringClose, closeLoop]
  | cons b rest ih =>
    intro lp h
    have hb := h b (by simp)
    have hb10 : (b == 10) = false := by simp; omega
    have hb13 : (b == 13) = false := by simp; omega
    have hb92 : (b == 92) = false := by simp; exact hb.2.2.2
    have hbq : (q != b) = true := by simp; exact fun e => hb.2.2.1 e.symm
    simp only [List.cons_append]
    unfold strLoop
    simp only [hb10, Bool.and_false, Bool.false_eq_true, if_false, width_ascii b _ (show b < 0x80 by omega)]
    simp only [strStep, consumeStringClose, hbq, if_true, List.drop_one, List.tail_cons,
      Bool.false_eq_true, if_false, hb13, Bool.false_and, hb10, hb92, Bool.and_false, Bool.and_true,
      bne_self_eq_false, Bool.or_false, Bool.true_or, Bool.not_true, bne_iff_ne, ne_eq,
      Nat.sub_self, Nat.add_zero, Nat.sub_self]
    simpa using ih (b :: lp) h.tail

theorem scanQuoted_plain (q : Nat) (hq : q = 34 ∨ q = 39) (body : Str) (h : Plain q body) :
    scanQuoted 0 q (body ++ [q]) = ⟨.STRING, [], false, false, 0, none⟩ := by
  cases body with
  | nil => simp [scanQuoted, consumeN]
  | cons b rest =>
    have hb := h b (by simp)
    have hbq : (b == q) = false := by simp; exact hb.2.2.1
    unfold scanQuoted
    simp only [List.cons_append, consumeN, hbq, Bool.false_eq_true, if_false]
    have := strLoop_plain q hq (b :: rest) [] h
    simp only [List.cons_append] at this
    simp [this, ofStr]

theorem nextErrs_ascii : ∀ (l : Str), (∀ b ∈ l, 0 < b ∧ b < 0x80) → ∀ first, nextErrs 0 0 first l = false := by
  intro l
  induction l with
  | nil => intro _ first; simp [nextErrs]
  | cons b rest ih =>
    intro h first
    have hb := h b (by simp)
    unfold nextErrs
    have hr : runeErr (b :: rest) = false := by
      unfold runeErr
      have : (b == 0) = false := by simp; omega
      simp [this, hb.2]
    simp only [Nat.not_lt_zero, if_false, hr, Bool.and_false, Bool.false_or, width_ascii b rest hb.2,
      Nat.sub_self]
    exact ih (fun x hx => h x (List.mem_cons_of_mem _ hx)) false

/-- `Scan` reads a plain literal as ONE error-free STRING token that is the whole input -/
theorem scanTok_plain (M : Mode) (U : Uni) (q : Nat) (hq : q = 34 ∨ q = 39) (body : Str)
    (h : Plain q body) (fuel : Nat) :
    scanTok M U (q :: (body ++ [q])).length (fuel + 1) ⟨q :: (body ++ [q]), false, []⟩ =
      some (⟨.STRING, 0, (q :: (body ++ [q])).length, q :: (body ++ [q]), false⟩,
            ⟨[], if M.dontInsertCommas then false else true, []⟩) := by
  have hws : skipWs false (q :: (body ++ [q])) = q :: (body ++ [q]) := by
    unfold skipWs
    rcases hq with h | h <;> subst h <;> simp
  have hcl : classify M U false (q :: (body ++ [q])) =
      .done .STRING (q :: (body ++ [q])) [] true false none := by
    unfold classify
    have hsq := scanQuoted_plain q hq body h
    rcases hq with hq' | hq' <;> subst hq' <;>
      simp [isLetterAt, quotedAct, hsq, between] <;>
      exact List.take_of_length_le (by simp)
  have hne : nextErrs 0 0 true (q :: (body ++ [q])) = false := by
    apply nextErrs_ascii
    intro b hb
    simp only [List.mem_cons, List.mem_append, List.mem_singleton, List.not_mem_nil, or_false] at hb
    rcases hb with e | hb | e
    · subst e; rcases hq with h | h <;> omega
    · have := h b hb; omega
    · subst e; rcases hq with h | h <;> omega
  unfold scanTok
  simp only [hws, hcl, List.length_nil, Nat.sub_self, Nat.sub_zero, hne, Bool.or_false]

/-! ### unterminated plain literals are rejected by both -/

theorem strLoop_plain_open (q : Nat) : ∀ (body lp : Str), Plain q body →
    strLoop ⟨q, 1, 0, none⟩ false lp false false 0 body = ⟨.STRING, [], true, false, 0, ⟨q, 1, 0, none⟩⟩ := by
  intro body
  induction body with
  | nil => intro lp _; simp [strLoop]
  | cons b rest ih =>
    intro lp h
    have hb := h b (by simp)
    have hb10 : (b == 10) = false := by simp; omega
    have hb13 : (b == 13) = false := by simp; omega
    have hb92 : (b == 92) = false := by simp; exact hb.2.2.2
    have hbq : (q != b) = true := by simp; exact fun e => hb.2.2.1 e.symm
    unfold strLoop
    simp only [hb10, Bool.and_false, Bool.false_eq_true, if_false, width_ascii b _ (show b < 0x80 by omega)]
    simp only [strStep, consumeStringClose, hbq, if_true, List.drop_one, List.tail_cons,
      Bool.false_eq_true, if_false, hb13, Bool.false_and, hb10, hb92, Bool.and_false, Bool.and_true,
      bne_self_eq_false, Bool.or_false, Bool.true_or, Bool.not_true, bne_iff_ne, ne_eq,
      Nat.sub_self, Nat.add_zero, Nat.sub_self]
    simpa using ih (b :: lp) h.tail

/-- `Scan` on an unterminated plain literal: a STRING token WITH an error -/
theorem scanTok_plain_open (M : Mode) (U : Uni) (q : Nat) (hq : q = 34 ∨ q = 39) (b : Nat) (rest : Str)
    (h : Plain q (b :: rest)) (fuel : Nat) :
    ∃ t st', scanTok M U (q :: b :: rest).length (fuel + 1) ⟨q :: b :: rest, false, []⟩ = some (t, st') ∧
      t.kind = .STRING ∧ t.err = true := by
  have hb := h b (by simp)
  have hbq : (b == q) = false := by simp; exact hb.2.2.1
  have hws : skipWs false (q :: b :: rest) = q :: b :: rest := by
    unfold skipWs
    rcases hq with h | h <;> subst h <;> simp
  have hsq : scanQuoted 0 q (b :: rest) = ⟨.STRING, [], true, false, 0, none⟩ := by
    unfold scanQuoted
    simp only [consumeN, hbq, Bool.false_eq_true, if_false]
    simp [strLoop_plain_open q (b :: rest) [] h, ofStr]
  have hcl : ∃ l, classify M U false (q :: b :: rest) = .done .STRING l [] true true none := by
    unfold classify
    rcases hq with hq' | hq' <;> subst hq' <;> simp [isLetterAt, quotedAct, hsq]
  obtain ⟨l, hcl⟩ := hcl
  unfold scanTok
  simp only [hws, hcl]
  exact ⟨_, _, rfl, rfl, by simp⟩

/-- `literal.Unquote` on an unterminated plain literal: "unmatched quote" -/
theorem unquote_plain_open (q : Nat) (hq : q = 34 ∨ q = 39) (body : Bytes) (hne : body ≠ [])
    (h : Plain q body) : unquote (q :: body) = .error .unmatchedQuote := by
  obtain ⟨init, last, rfl⟩ : ∃ init last, body = init ++ [last] :=
    ⟨body.dropLast, body.getLast hne, (List.dropLast_concat_getLast hne).symm⟩
  have hl := h last (by simp)
  have hlq : (q == last) = false := by simp; exact fun e => hl.2.2.1 e.symm
  have hfirst : (init ++ [last])[0]? ≠ some q := by
    cases init with
    | nil => simp; exact hl.2.2.1
    | cons a t => have := h a (by simp); simp; exact this.2.2.1
  have hhr : hashRun (q :: (init ++ [last])) = 0 := by
    unfold hashRun
    rcases hq with h | h <;> subst h <;> rfl
  unfold unquote parseQuotes
  simp only [hhr, List.drop_zero]
  have hc : (q != 0x22 && q != 0x27) = false := by rcases hq with h | h <;> subst h <;> rfl
  have hm : ((q :: (init ++ [last]))[1]? == some q) = false := by
    simp only [List.getElem?_cons_succ]
    simpa using hfirst
  have hmulti : (decide ((q :: (init ++ [last])).length > 3) && (q :: (init ++ [last]))[1]? == some q &&
      (q :: (init ++ [last]))[2]? == some q && (q :: (init ++ [last]))[3]? != some 0x23) = false := by
    simp only [hm, Bool.and_false, Bool.false_and]
  simp only [hc, Bool.false_eq_true, if_false, hmulti]
  simp [hlq, List.isPrefixOf]

/-! ### the known divergence: a lone surrogate escape -/

/-- `"\ud800"`: `literal.Unquote` rejects it … -/
theorem unquote_lone_surrogate : ∀ v, unquote [34, 92, 117, 100, 56, 48, 48, 34] ≠ .ok v := by
  intro v
  simp [unquote, parseQuotes, hashRun, QuoteInfo.unquote, isSimple, decodeRune, unquoteLoop,
    unquoteCharSur, unquoteChar, unquoteEscape, hexVal, unhexByte, hasClosingDelimPrefix,
    QuoteInfo.closing, QuoteInfo.numChar, hashes, List.isPrefixOf]

/-- … while the scanner reads it as one error-free STRING token -/
theorem scanTok_lone_surrogate :
    scanTok ⟨false, false⟩ ⟨fun _ => false, fun _ => false⟩ 8 20 ⟨[34, 92, 117, 100, 56, 48, 48, 34], false, []⟩ =
      some (⟨.STRING, 0, 8, [34, 92, 117, 100, 56, 48, 48, 34], false⟩, ⟨[], true, []⟩) := by rfl

end CueVerif.Scan
