/-
C13 — SEMANTIC PRESERVATION through `translate`, by induction over nested schemas, for the
fragment checked by `fragOK` (leaf keywords, `type`, `not`, `anyOf`, `oneOf` nested to any depth,
with the guards evaluated along the real translation).  Core Lean only.
-/
import CueVerif.Proofs.JsonSchemaCCComb
namespace CueVerif.CCm
open CueVerif.JS CueVerif.Skel

variable (re : String → String → Bool)

/-- the guard of ONE keyword, evaluated on the state the builder sees (`ok` = the guard of members) -/
def kwOk (tr : KSet → Schema → TSub) (ok : KSet → Schema → Bool) (st : TSt) : Kw → Bool
  | .type ts => typeOk ts
  | .minContains _ => true
  | .maxContains _ => true
  | .uniqueItems b => !b
  | .not s => ok KSet.full s
  | .anyOf ss => ss.all (ok st.allowed)
  | .oneOf ss => ss.all (ok st.allowed) &&
      (oneOfNeeds KSet.empty (keptSubs tr st.allowed ss) || (keptSubs tr st.allowed ss).isEmpty)
  | kw => (leafOf kw).isSome

def stepChk (tr : KSet → Schema → TSub) (ok : KSet → Schema → Bool) (p : TSt × Bool) (kw : Kw) :
    TSt × Bool :=
  (stepKw tr p.1 kw, p.2 && kwOk tr ok p.1 kw)

/-- the keywords in the order the importer applies them -/
def ordered (kws : List Kw) : List Kw :=
  kws.filter (phaseOf · == 0) ++ (kws.filter (phaseOf · == 1) ++ (kws.filter (phaseOf · == 2) ++
    (kws.filter (phaseOf · == 3) ++ kws.filter (phaseOf · == 4))))

/-- the fragment + guards for which semantic preservation is proved: evaluated along `translate` -/
def fragOK : Nat → KSet → Schema → Bool
  | 0, _, _ => false
  | _ + 1, _, .bool _ => true
  | n + 1, T, .obj kws =>
    ((ordered kws).foldl (stepChk (translate n) (fragOK n)) (TSt.init T, true)).2

/-! ## fold machinery -/

theorem runPhase_eq (tr) (p : Nat) (kws : List Kw) (st : TSt) :
    runPhase tr p kws st = (kws.filter (phaseOf · == p)).foldl (stepKw tr) st := by
  unfold runPhase
  induction kws generalizing st with
  | nil => rfl
  | cons a r ih =>
    rw [List.foldl_cons, List.filter_cons]
    split
    · rw [List.foldl_cons]; exact ih _
    · exact ih _

theorem runPhases_eq (tr) (kws : List Kw) (st : TSt) :
    runPhases tr kws st = (ordered kws).foldl (stepKw tr) st := by
  simp only [runPhases, ordered, List.foldl_cons, List.foldl_nil, runPhase_eq, List.foldl_append]

theorem foldChk_fst (tr ok) (l : List Kw) (st : TSt) (b : Bool) :
    (l.foldl (stepChk tr ok) (st, b)).1 = l.foldl (stepKw tr) st := by
  induction l generalizing st b with
  | nil => rfl
  | cons a r ih => rw [List.foldl_cons, List.foldl_cons]; exact ih _ _

theorem foldChk_snd_true (tr ok) (l : List Kw) (st : TSt) (b : Bool)
    (h : (l.foldl (stepChk tr ok) (st, b)).2 = true) : b = true := by
  induction l generalizing st b with
  | nil => exact h
  | cons a r ih =>
    rw [List.foldl_cons] at h
    have := ih _ _ h
    simp only [stepChk, Bool.and_eq_true] at this
    exact this.1

theorem phase_cases (kw : Kw) : phaseOf kw = 1 ∨ phaseOf kw = 2 ∨ phaseOf kw = 3 ∨ phaseOf kw = 4 := by
  cases kw <;> simp [phaseOf]

theorem mem_ordered (kws : List Kw) (kw : Kw) (h : kw ∈ kws) : kw ∈ ordered kws := by
  unfold ordered
  simp only [List.mem_append, List.mem_filter, beq_iff_eq]
  rcases phase_cases kw with hp | hp | hp | hp <;> simp [h, hp]

theorem filt_all (v : Kw → Bool) (p : Nat) (a : Kw) (r : List Kw) :
    (List.filter (fun x => phaseOf x == p) (a :: r)).all v =
      ((phaseOf a != p || v a) && (List.filter (fun x => phaseOf x == p) r).all v) := by
  rw [List.filter_cons]
  cases h : (phaseOf a == p) <;> simp [bne, h]

theorem all_ordered (v : Kw → Bool) (kws : List Kw) : (ordered kws).all v = kws.all v := by
  unfold ordered
  simp only [List.all_append]
  induction kws with
  | nil => rfl
  | cons a r ih =>
    simp only [filt_all]
    rw [List.all_cons, ← ih]
    generalize (List.filter (fun x => phaseOf x == 0) r).all v = A0
    generalize (List.filter (fun x => phaseOf x == 1) r).all v = A1
    generalize (List.filter (fun x => phaseOf x == 2) r).all v = A2
    generalize (List.filter (fun x => phaseOf x == 3) r).all v = A3
    generalize (List.filter (fun x => phaseOf x == 4) r).all v = A4
    rcases phase_cases a with hp | hp | hp | hp <;> rw [hp] <;>
      cases v a <;> cases A0 <;> cases A1 <;> cases A2 <;> cases A3 <;> cases A4 <;> rfl

theorem all3_of_isSome {α} (f : α → Option Bool) (l : List α) (h : ∀ x ∈ l, (f x).isSome = true) :
    all3 (l.map f) = some (l.all (fun x => (f x).getD false)) := by
  induction l with
  | nil => rfl
  | cons a r ih =>
    have ha := h a (List.mem_cons_self ..)
    have ihr := ih (fun x hx => h x (List.mem_cons_of_mem _ hx))
    cases hf : f a with
    | none => rw [hf] at ha; cases ha
    | some b => simp [hf, ihr]

/-! ## builders keep `ifS = none` and `addC` bookkeeping -/

theorem addC_allowed (st : TSt) (t c) : (addC st t c).allowed = st.allowed := by
  unfold addC; split <;> rfl
theorem addC_known (st : TSt) (t c) : (addC st t c).known = st.known := by
  unfold addC; split <;> rfl
theorem addC_all (st : TSt) (t c) : (addC st t c).all = st.all := by
  unfold addC; split <;> rfl
theorem addC_ifS (st : TSt) (t c) : (addC st t c).ifS = st.ifS := by
  unfold addC; split <;> rfl
theorem addAll_ifS (st : TSt) (c) : (addAll st c).ifS = st.ifS := by
  unfold addAll; split <;> rfl

theorem SInv_addC (st : TSt) (j : Json) (t c) (hI : SInv re st j)
    (hc : ∀ j, acc re c j = true → coreOf j = t) : SInv re (addC st t c) j := by
  refine ⟨?_, ?_, Own_addC re st t c hI.own hc, ?_, ?_⟩
  · rw [addC_allowed]; exact hI.closed
  · rw [addC_known]; exact hI.closedK
  · intro k hk; rw [addC_allowed] at hk; rw [addC_known]; exact hI.sub k hk
  · intro h; rw [addC_all] at h; rw [addC_known]; exact hI.knownJ h

theorem intFold_facts (ts : List TypeName) (st : TSt) :
    let f := ts.foldl (fun st t => if t == TypeName.integer then addC st .num .int else st) st
    f.allowed = st.allowed ∧ f.known = st.known ∧ f.all = st.all ∧ f.ifS = st.ifS ∧
      (Own re st → Own re f) := by
  induction ts generalizing st with
  | nil => exact ⟨rfl, rfl, rfl, rfl, id⟩
  | cons t r ih =>
    simp only [List.foldl_cons]
    split
    · have h := ih (addC st .num .int)
      simp only [addC_allowed, addC_known, addC_all, addC_ifS] at h
      refine ⟨h.1, h.2.1, h.2.2.1, h.2.2.2.1, fun hO => h.2.2.2.2 ?_⟩
      exact Own_addC re st .num .int hO (by intro j ha; cases j <;> first | rfl | (simp [acc] at ha))
    · exact ih st

theorem bAnyOf_ifS (tr ss) (st : TSt) : (bAnyOf tr ss st).ifS = st.ifS := by
  unfold bAnyOf
  simp only []
  split
  · rfl
  · exact addAll_ifS _ _
  · exact addAll_ifS _ _

theorem bOneOf_ifS (tr ss) (st : TSt) : (bOneOf tr ss st).ifS = st.ifS := by
  unfold bOneOf
  simp only []
  split
  · split
    · exact addAll_ifS _ _
    · exact addAll_ifS _ _
  · rfl

/-! ## one keyword -/

theorem kw_step (tr) (ok : KSet → Schema → Bool) (vf : Schema → Option Bool) (rec res kws)
    (j : Json) (hj : intForm j = true)
    (hrec : ∀ s, rec s j = vf s)
    (hgood : ∀ T s, IntClosed T → ok T s = true → GoodA re tr vf j T s)
    (st : TSt) (kw : Kw) (hI : SInv re st j) (hif : st.ifS = none) (hok : kwOk tr ok st kw = true) :
    SInv re (stepKw tr st kw) j ∧ (stepKw tr st kw).ifS = none ∧
    (kwHolds re rec res kws kw j).isSome = true ∧
    stAcc re (stepKw tr st kw) j = (stAcc re st j && (kwHolds re rec res kws kw j).getD false) := by
  cases hl : leafOf kw with
  | some tc =>
    obtain ⟨t, c⟩ := tc
    have he := leaf_exact re rec res kws kw t c hl j
    refine ⟨?_, ?_, by rw [he]; rfl, ?_⟩
    · rw [stepKw_leaf tr st kw t c hl]; exact SInv_addC re st j t c hI (leaf_own re kw t c hl)
    · rw [stepKw_leaf tr st kw t c hl, addC_ifS]; exact hif
    · rw [leaf_step re tr rec res kws st kw t c hl j _ he, he]; rfl
  | none =>
    cases kw <;> simp only [leafOf, reduceCtorEq] at hl <;>
      (try (simp [kwOk, leafOf] at hok; done))
    case type ts =>
      have hts : typeOk ts = true := by simpa [kwOk] using hok
      have hf := intFold_facts re ts st
      simp only [] at hf
      refine ⟨?_, ?_, rfl, ?_⟩
      · refine ⟨?_, ?_, ?_, ?_, ?_⟩
        · exact IntClosed_inter _ _ (by rw [hf.1]; exact hI.closed) (IntClosed_typeKinds ts)
        · show IntClosed (ts.foldl _ st).known
          rw [hf.2.1]; exact hI.closedK
        · intro t c hm j' ha
          exact hf.2.2.2.2 hI.own t c hm j' ha
        · intro k hk
          show (ts.foldl _ st).known k = true
          rw [hf.2.1]
          have := inter_sub_left
            (ts.foldl (fun st t => if t == TypeName.integer then addC st .num .int else st) st).allowed
            (fun k => ts.any fun t => kindsOfTypeName t k) k hk
          rw [hf.1] at this
          exact hI.sub k this
        · intro h
          show hasCore (ts.foldl _ st).known (coreOf j) = true
          rw [hf.2.1]
          apply hI.knownJ
          have : (ts.foldl (fun st t => if t == TypeName.integer then addC st .num .int else st) st).all
              = st.all := hf.2.2.1
          rw [← this]; exact h
      · show (ts.foldl _ st).ifS = none
        rw [hf.2.2.2.1]; exact hif
      · exact type_step re ts st j hI.closed hts hj
    case uniqueItems b =>
      have hb : b = false := by simpa [kwOk] using hok
      subst hb
      exact ⟨hI, hif, by cases j <;> rfl, by cases j <;> simp [stepKw, bUniqueItems, kwHolds]⟩
    case minContains m =>
      exact ⟨⟨hI.closed, hI.closedK, hI.own, hI.sub, hI.knownJ⟩, hif, by cases j <;> rfl,
        by cases j <;> simp [stepKw, bMinContains, kwHolds, stAcc]⟩
    case maxContains m =>
      exact ⟨⟨hI.closed, hI.closedK, hI.own, hI.sub, hI.knownJ⟩, hif, by cases j <;> rfl,
        by cases j <;> simp [stepKw, bMaxContains, kwHolds, stAcc]⟩
    case not s =>
      have hs : ok KSet.full s = true := by simpa [kwOk] using hok
      have h := not_step re tr vf st s j hI (hgood _ s IntClosed_full hs)
      have hk : kwHolds re rec res kws (.not s) j = not3 (vf s) := by
        simp only [kwHolds, hrec]
      rw [hk]
      exact ⟨h.1, by show (bNot tr s st).ifS = none; unfold bNot; rw [addAll_ifS]; exact hif, h.2.1, h.2.2⟩
    case anyOf ss =>
      have hs : ∀ s ∈ ss, ok st.allowed s = true := by simpa [kwOk] using hok
      have h := anyOf_step re tr vf st ss j hI (fun s hm => hgood _ s hI.closed (hs s hm))
      have hk : kwHolds re rec res kws (.anyOf ss) j = any3 (ss.map vf) := by
        simp only [kwHolds, hrec]
      rw [hk]
      exact ⟨h.1, by show (bAnyOf tr ss st).ifS = none; rw [bAnyOf_ifS]; exact hif, h.2.1, h.2.2⟩
    case oneOf ss =>
      simp only [kwOk, Bool.and_eq_true, List.all_eq_true] at hok
      have h := oneOf_step re tr vf st ss j hI (fun s hm => hgood _ s hI.closed (hok.1 s hm)) hok.2
      have hk : kwHolds re rec res kws (.oneOf ss) j = one3 (ss.map vf) := by
        simp only [kwHolds, hrec]
      rw [hk]
      exact ⟨h.1, by show (bOneOf tr ss st).ifS = none; rw [bOneOf_ifS]; exact hif, h.2.1, h.2.2⟩

/-! ## all keywords of one schema object, then the induction over nesting -/

theorem fold_spec (tr) (ok : KSet → Schema → Bool) (vf : Schema → Option Bool) (rec res kws)
    (j : Json) (hj : intForm j = true) (hrec : ∀ s, rec s j = vf s)
    (hgood : ∀ T s, IntClosed T → ok T s = true → GoodA re tr vf j T s) :
    ∀ (l : List Kw) (st : TSt) (b : Bool), SInv re st j → st.ifS = none →
      (l.foldl (stepChk tr ok) (st, b)).2 = true →
      SInv re (l.foldl (stepKw tr) st) j ∧ (l.foldl (stepKw tr) st).ifS = none ∧
      (∀ kw ∈ l, (kwHolds re rec res kws kw j).isSome = true) ∧
      stAcc re (l.foldl (stepKw tr) st) j =
        (stAcc re st j && l.all (fun kw => (kwHolds re rec res kws kw j).getD false))
  | [], st, b, hI, hif, _ => ⟨hI, hif, (fun kw h => by cases h), by simp⟩
  | kw :: r, st, b, hI, hif, h => by
    rw [List.foldl_cons] at h
    have hb := foldChk_snd_true tr ok r _ _ h
    simp only [stepChk, Bool.and_eq_true] at hb
    have hs := kw_step re tr ok vf rec res kws j hj hrec hgood st kw hI hif hb.2
    have ih := fold_spec tr ok vf rec res kws j hj hrec hgood r (stepKw tr st kw)
      (b && kwOk tr ok st kw) hs.1 hs.2.1 h
    rw [List.foldl_cons]
    refine ⟨ih.1, ih.2.1, ?_, ?_⟩
    · intro kw' hm
      rcases List.mem_cons.1 hm with rfl | hm
      · exact hs.2.2.1
      · exact ih.2.2.1 kw' hm
    · rw [ih.2.2.2, hs.2.2.2, List.all_cons, Bool.and_assoc]

theorem bIfThenElse_none (tr) (st : TSt) (h : st.ifS = none) : bIfThenElse tr st = st := by
  unfold bIfThenElse
  rw [h]

/-- SEMANTIC PRESERVATION, the inductive statement: for every fuel `n`, allowed types `T` handed
down, schema `s` inside the guarded fragment and instance `j` in int-literal form, the
translation of `s` under `T` is "good": in particular `valid s j = some (acc (translate s) j)`
whenever the kind of `j` is among `T` -/
theorem translate_good (root : Schema) (j : Json) (hj : intForm j = true) :
    ∀ (n : Nat) (T : KSet) (s : Schema), IntClosed T → fragOK n T s = true →
      GoodA re (translate n) (fun s => valid re root n s j) j T s
  | 0, T, s, _, h => by simp [fragOK] at h
  | n + 1, T, .bool b, hT, _ => by
    refine ⟨hT, IntClosed_full, fun _ _ => rfl, fun _ => Skel.hasCore_full _, rfl, ?_, ?_, ?_⟩
    · intro _; cases b <;> simp [translate, valid, acc]
    · intro h ha
      cases b
      · simp [translate, acc] at ha
      · exact h
    · intro h _ hnf
      cases b
      · simp [isFalseS] at hnf
      · simp only [translate, acc]; exact h.symm
  | n + 1, T, .obj kws, hT, h => by
    have ih := translate_good root j hj n
    have hinit : SInv re (TSt.init T) j :=
      ⟨hT, IntClosed_full, Own_init re T, fun _ _ => rfl, fun _ => Skel.hasCore_full _⟩
    have h' : ((ordered kws).foldl (stepChk (translate n) (fragOK n)) (TSt.init T, true)).2 = true := by
      simpa only [fragOK] using h
    have fs := fold_spec re (translate n) (fragOK n) (fun s => valid re root n s j)
      (valid re root n) (resolve root) kws j hj (fun _ => rfl) (fun T s hT hok => ih T s hT hok)
      (ordered kws) (TSt.init T) true hinit rfl h'
    generalize hst' : (ordered kws).foldl (stepKw (translate n)) (TSt.init T) = st' at fs
    obtain ⟨hI', hif', hsome, hacc⟩ := fs
    have hst : bIfThenElse (translate n) (runPhases (translate n) kws (TSt.init T)) = st' := by
      rw [runPhases_eq, hst', bIfThenElse_none _ _ hif']
    have htr : translate (n + 1) T (.obj kws) =
        ⟨finalize st', st'.allowed, st'.allowed, hasConstraints st'⟩ := by
      simp only [translate, hst]
    have hfin : acc re (finalize st') j = stAcc re st' j :=
      finalize_acc re st' j hI'.own hI'.knownJ (fun t ht => hasCore_sub _ _ hI'.sub t ht)
    have hinitAcc : stAcc re (TSt.init T) j = hasCore T (coreOf j) := by simp [stAcc, TSt.init]
    have hsem : stAcc re st' j = (hasCore T (coreOf j) &&
        kws.all (fun kw => (kwHolds re (valid re root n) (resolve root) kws kw j).getD false)) := by
      rw [hacc, hinitAcc, all_ordered]
    have hval : valid re root (n + 1) (.obj kws) j = some
        (kws.all (fun kw => (kwHolds re (valid re root n) (resolve root) kws kw j).getD false)) := by
      simp only [valid]
      exact all3_of_isSome _ kws (fun kw hm => hsome kw (mem_ordered kws kw hm))
    have hsound : acc re (finalize st') j = true → hasCore st'.allowed (coreOf j) = true := by
      intro ha
      rw [hfin] at ha
      exact stAcc_hT re st' j ha
    refine ⟨?_, ?_, ?_, ?_, ?_, ?_, ?_, ?_⟩
    · rw [htr]; exact hI'.closed
    · rw [htr]; exact hI'.closed
    · rw [htr]; exact fun _ hk => hk
    · rw [htr]; exact hsound
    · show (valid re root (n + 1) (.obj kws) j).isSome = true
      rw [hval]; rfl
    · intro hTj
      show valid re root (n + 1) (.obj kws) j = _
      rw [htr, hval, hfin, hsem, hTj]; rfl
    · intro _
      rw [htr]; exact hsound
    · intro _ hc _
      rw [htr] at hc ⊢
      simp only [hasConstraints, Bool.or_eq_false_iff, Bool.not_eq_false', List.isEmpty_iff] at hc
      have h1 : st'.all = [] := hc.1
      have h2 : st'.types (coreOf j) = [] := by
        have := (List.any_eq_false.1 hc.2) (coreOf j) (Skel.mem_CoreType_all _)
        simpa using this
      show acc re (finalize st') j = hasCore st'.allowed (coreOf j)
      rw [hfin, stAcc_def, h1, h2]
      simp

/-- … at the root: all types allowed, references resolved against the schema itself -/
theorem translate_exact_partial (n : Nat) (s : Schema) (j : Json)
    (hs : fragOK n KSet.full s = true) (hj : intForm j = true) :
    valid re s n s j = some (acc re (translate n KSet.full s).expr j) :=
  (translate_good re s j hj n KSet.full s IntClosed_full hs).exact (Skel.hasCore_full _)

end CueVerif.CCm

