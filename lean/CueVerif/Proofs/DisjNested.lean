/-
C04, beyond the flat fragment: ARBITRARY NESTING of unmarked disjunctions.

`default_unmarked`: for every expression tree WITHOUT marks — any nesting of `|`, `&` and
parentheses, i.e. every path through the nested-disjunction (unroll) arm of `crossProduct`,
the `DerefDisjunct` collapse of `doDisjunct` and the `hasNonMaybe` demotion — the
transcribed algorithm never produces a default (all modes stay `maybeDefault`, the
`hasNonMaybe` demotion never fires) and resolves exactly as the spec's pair ⟨v⟩.

The invariant (`allMaybe_all`) is also the first half of the one-marked nested case: up to
the marked disjunction of a node every leaf is `maybeDefault`.
-/
import CueVerif.Proofs.DisjValues
import CueVerif.Proofs.DisjDefault
namespace CueVerif.Disj
variable {V : Type} [DecidableEq V]
set_option linter.unusedSectionVars false

/-- every leaf is `maybeDefault` -/
def AllMaybe (c : List (Leaf V)) : Prop := ∀ q ∈ c, q.dm = .maybe

/-- a `doDisjunct` result all of whose modes are `maybeDefault` -/
def RMaybe : R V → Prop
  | .leaf l => l.dm = .maybe ∧ l.odm = .maybe
  | .multi dm odm ds => dm = .maybe ∧ odm = .maybe ∧ AllMaybe ds

theorem allMaybe_appendDisjunct (acc : List (Leaf V)) (x : Leaf V) (ha : AllMaybe acc)
    (hx : x.dm = .maybe) : AllMaybe (appendDisjunct acc x) := by
  induction acc with
  | nil => intro q hq; simp only [appendDisjunct, List.mem_singleton] at hq; rw [hq]; exact hx
  | cons xn rest ih =>
    have hr : AllMaybe rest := fun q hq => ha q (List.mem_cons_of_mem _ hq)
    have hxn : xn.dm = .maybe := ha xn (List.mem_cons_self ..)
    unfold appendDisjunct
    by_cases hv : xn.v = x.v
    · rw [if_pos hv]
      have hne : ¬ x.dm = Mode.isDef := by rw [hx]; decide
      rw [if_neg hne]
      exact ha
    · rw [if_neg hv]
      intro q hq
      rcases List.mem_cons.1 hq with h | h
      · rw [h]; exact hxn
      · exact ih hr q h

theorem cd2_maybe3 (ld rd : Bool) :
    combineDefault2 .maybe (combineDefault .maybe .maybe) ld rd = .maybe := by
  cases ld <;> cases rd <;> rfl

theorem cd2_maybe2 (ld rd : Bool) : combineDefault2 .maybe .maybe ld rd = .maybe := by
  cases ld <;> cases rd <;> rfl

theorem allMaybe_unroll (ld : Bool) (xs : List (Leaf V)) (acc : List (Leaf V) × Bool)
    (hx : AllMaybe xs) (ha : AllMaybe acc.1) (hb : acc.2 = false) :
    AllMaybe (unroll .maybe .maybe ld xs acc).1 ∧ (unroll .maybe .maybe ld xs acc).2 = false := by
  induction xs generalizing acc with
  | nil => exact ⟨ha, hb⟩
  | cons x xs ih =>
    obtain ⟨dst, hnm⟩ := acc
    simp only at ha hb
    subst hb
    have hxm : x.dm = .maybe := hx x (List.mem_cons_self ..)
    unfold unroll
    simp only [hxm, cd2_maybe3]
    apply ih
    · exact fun q hq => hx q (List.mem_cons_of_mem _ hq)
    · exact allMaybe_appendDisjunct dst _ ha rfl
    · rfl

theorem allMaybe_place (ld rd : Bool) (acc : List (Leaf V) × Bool) (r : R V)
    (hr : RMaybe r) (ha : AllMaybe acc.1) (hb : acc.2 = false) :
    AllMaybe (place ld rd acc r).1 ∧ (place ld rd acc r).2 = false := by
  cases r with
  | leaf l =>
    obtain ⟨h1, h2⟩ := hr
    refine ⟨?_, hb⟩
    show AllMaybe (appendDisjunct acc.1 _)
    apply allMaybe_appendDisjunct _ _ ha
    show combineDefault2 l.dm l.odm ld rd = .maybe
    rw [h1, h2, cd2_maybe2]
  | multi dm odm ds =>
    obtain ⟨h1, h2, h3⟩ := hr
    subst h1; subst h2
    exact allMaybe_unroll ld ds acc h3 ha hb

theorem allMaybe_foldl_place (ld rd : Bool) (rs : List (R V)) (acc : List (Leaf V) × Bool)
    (hr : ∀ r ∈ rs, RMaybe r) (ha : AllMaybe acc.1) (hb : acc.2 = false) :
    AllMaybe (rs.foldl (place ld rd) acc).1 ∧ (rs.foldl (place ld rd) acc).2 = false := by
  induction rs generalizing acc with
  | nil => exact ⟨ha, hb⟩
  | cons r rs ih =>
    obtain ⟨a1, a2⟩ := allMaybe_place ld rd acc r (hr r (List.mem_cons_self ..)) ha hb
    exact ih _ (fun q hq => hr q (List.mem_cons_of_mem _ hq)) a1 a2

/-- `crossProduct` over terms whose results are all `maybeDefault`: the result is all
`maybeDefault` and the `hasNonMaybe` demotion does not fire -/
theorem allMaybe_crossProduct (cross : List (Leaf V)) (terms : Leaf V → List (R V))
    (h : ∀ p ∈ cross, ∀ r ∈ terms p, RMaybe r) : AllMaybe (crossProduct cross terms) := by
  unfold crossProduct
  simp only
  have hr : ∀ r ∈ (cross.map fun p => (p, terms p)).flatMap (fun pr => pr.2), RMaybe r := by
    intro r hr
    rw [List.mem_flatMap] at hr
    obtain ⟨pr, hpr, hr⟩ := hr
    rw [List.mem_map] at hpr
    obtain ⟨p, hp, rfl⟩ := hpr
    exact h p hp r hr
  obtain ⟨a1, a2⟩ := allMaybe_foldl_place _ _ _ ([], false) hr (by intro q hq; cases hq) rfl
  rw [a2]
  exact a1

theorem rmaybe_doDisj (sc : Option V → Option V) (cj : List (Leaf V) → List (Leaf V))
    (hcj : ∀ c, AllMaybe c → AllMaybe (cj c)) (p : Leaf V) (hp : p.dm = .maybe) :
    ∀ r ∈ doDisj sc cj p .maybe, RMaybe r := by
  unfold doDisj
  cases sc (some p.v) with
  | none => intro r hr; cases hr
  | some v =>
    simp only
    have hc := hcj [{ v := v, dm := p.dm, odm := .maybe }]
      (by intro q hq; rw [List.mem_singleton] at hq; rw [hq]; exact hp)
    generalize cj [{ v := v, dm := p.dm, odm := .maybe }] = L at hc
    match L, hc with
    | [], _ => intro r hr; cases hr
    | [x], hc =>
      intro r hr
      rw [List.mem_singleton] at hr; subst hr
      exact ⟨hc x (List.mem_cons_self ..), rfl⟩
    | x :: y :: t, hc =>
      intro r hr
      rw [List.mem_singleton] at hr; subst hr
      exact ⟨hp, rfl, hc⟩

theorem mode_false (mk : Bool) : mode false mk = .maybe := rfl

theorem rmaybe_doDisj' (sc : Option V → Option V) (cj : List (Leaf V) → List (Leaf V))
    (hcj : ∀ c, AllMaybe c → AllMaybe (cj c)) (p : Leaf V) (hp : p.dm = .maybe) (mk : Bool) :
    ∀ r ∈ doDisj sc cj p (mode false mk), RMaybe r := by
  rw [mode_false]; exact rmaybe_doDisj sc cj hcj p hp

/-- invariant of a mark-free expression: `processDisjunctions` keeps "all maybeDefault",
its terms (as disjuncts of an unmarked disjunction) are all-maybe results -/
structure MInv (S : Sl V) (e : Expr V) : Prop where
  conj : ∀ c, AllMaybe c → AllMaybe ((sem S e).conj c)
  terms : ∀ (mk : Bool) (p : Leaf V), p.dm = .maybe → ∀ r ∈ (sem S e).terms false mk p, RMaybe r
  hasMark : (sem S e).hasMark = false

theorem allMaybe_all (S : Sl V) (e : Expr V) (hm : e.hasAnyMark = false) : MInv S e := by
  induction e with
  | atom a =>
    refine ⟨fun c hc => hc, fun mk p hp => ?_, rfl⟩
    show ∀ r ∈ doDisj (sem S (.atom a)).scalar (sem S (.atom a)).conj p (mode false mk), RMaybe r
    exact rmaybe_doDisj' _ _ (fun c hc => hc) p hp mk
  | and l r ihl ihr =>
    simp only [Expr.hasAnyMark, Bool.or_eq_false_iff] at hm
    have il := ihl hm.1
    have ir := ihr hm.2
    have hc : ∀ c, AllMaybe c → AllMaybe ((sem S (.and l r)).conj c) :=
      fun c hc => ir.conj _ (il.conj c hc)
    refine ⟨hc, fun mk p hp => ?_, rfl⟩
    show ∀ x ∈ doDisj (sem S (.and l r)).scalar (sem S (.and l r)).conj p (mode false mk), RMaybe x
    exact rmaybe_doDisj' _ _ hc p hp mk
  | paren e ih =>
    have ie := ih hm
    refine ⟨ie.conj, fun mk p hp => ?_, rfl⟩
    show ∀ x ∈ doDisj (sem S e).scalar (sem S e).conj p (mode false mk), RMaybe x
    exact rmaybe_doDisj' _ _ ie.conj p hp mk
  | mark e _ => simp [Expr.hasAnyMark] at hm
  | or l r ihl ihr =>
    simp only [Expr.hasAnyMark, Bool.or_eq_false_iff] at hm
    have il := ihl hm.1
    have ir := ihr hm.2
    have hhm : (sem S (.or l r)).hasMark = false := by
      show ((sem S l).hasMark || (sem S r).hasMark) = false
      rw [il.hasMark, ir.hasMark]; rfl
    refine ⟨?_, ?_, hhm⟩
    · intro c hc
      show AllMaybe (crossProduct c (fun p =>
        (sem S l).terms ((sem S l).hasMark || (sem S r).hasMark) false p ++
        (sem S r).terms ((sem S l).hasMark || (sem S r).hasMark) false p))
      rw [il.hasMark, ir.hasMark]
      apply allMaybe_crossProduct
      intro p hp x hx
      rcases List.mem_append.1 hx with h | h
      · exact il.terms false p (hc p hp) x h
      · exact ir.terms false p (hc p hp) x h
    · intro mk p hp x hx
      have hx' : x ∈ (sem S l).terms false mk p ++ (sem S r).terms false mk p := hx
      rcases List.mem_append.1 hx' with h | h
      · exact il.terms mk p hp x h
      · exact ir.terms mk p hp x h

/-- a mark-free expression never has a default in the transcribed algorithm -/
theorem defaults_unmarked (S : Sl V) (e : Expr V) (hm : e.hasAnyMark = false) :
    (eval S e).defaults = [] := by
  have inv := allMaybe_all S e hm
  have hr := rmaybe_doDisj (sem S e).scalar (sem S e).conj inv.conj
    { v := S.top, dm := .maybe, odm := .maybe } rfl
  unfold eval
  simp only
  generalize doDisj (sem S e).scalar (sem S e).conj { v := S.top, dm := .maybe, odm := .maybe } .maybe = L at hr
  match L, hr with
  | [], _ => rfl
  | .leaf l :: _, _ => rfl
  | .multi dm odm ds :: t, hr =>
    obtain ⟨_, _, h3⟩ := hr _ (List.mem_cons_self ..)
    show (ds.filter (·.dm = .isDef)).map (·.v) = []
    rw [List.map_eq_nil_iff, List.filter_eq_nil_iff]
    intro q hq
    rw [h3 q hq]; decide

/-! ### spec side: a mark-free expression has the pair ⟨v⟩ -/

structure SInv (S : Sl V) (e : Expr V) : Prop where
  d : (specPair S e).d = []
  conjs : AllU (specSem S e).conjs
  terms : ∀ mk, ∀ t ∈ (specSem S e).terms mk, t.1 = mk ∧ t.2.d = []

theorem foldl_D_unmarked (ts : List (Bool × Pair V)) (acc : Pair V) (ha : acc.d = [])
    (ht : ∀ t ∈ ts, t.2.d = []) :
    (ts.foldl (fun acc t => D acc t.2) acc).d = [] := by
  induction ts generalizing acc with
  | nil => exact ha
  | cons t ts ih =>
    apply ih
    · show unionV acc.d t.2.d = []
      rw [ha, ht t (List.mem_cons_self ..)]; rfl
    · exact fun q hq => ht q (List.mem_cons_of_mem _ hq)

theorem disjPair_unmarked (ts : List (Bool × Pair V)) (h : ∀ t ∈ ts, t.1 = false ∧ t.2.d = []) :
    (disjPair ts).d = [] := by
  have hany : ts.any (·.1) = false := by
    rw [List.any_eq_false]; intro t ht; rw [(h t ht).1]; simp
  unfold disjPair
  simp only [hany]
  exact foldl_D_unmarked ts _ rfl (fun t ht => (h t ht).2)

theorem spec_unmarked (S : Sl V) (e : Expr V) (hm : e.hasAnyMark = false) : SInv S e := by
  induction e with
  | atom a =>
    refine ⟨rfl, ?_, ?_⟩
    · intro q hq; simp only [specSem, List.mem_singleton] at hq; rw [hq]
    · intro mk t ht; simp only [specSem, List.mem_singleton] at ht; rw [ht]; exact ⟨rfl, rfl⟩
  | and l r ihl ihr =>
    simp only [Expr.hasAnyMark, Bool.or_eq_false_iff] at hm
    have il := ihl hm.1
    have ir := ihr hm.2
    have hc : AllU (specSem S (.and l r)).conjs := by
      intro q hq
      have hq' : q ∈ (specSem S l).conjs ++ (specSem S r).conjs := hq
      rcases List.mem_append.1 hq' with h | h
      · exact il.conjs q h
      · exact ir.conjs q h
    have hd : (specPair S (.and l r)).d = [] := unifyD_allU S _ hc
    refine ⟨hd, hc, ?_⟩
    intro mk t ht
    have : t = (mk, specPair S (.and l r)) := by
      simpa [specSem, specPair] using ht
    rw [this]; exact ⟨rfl, hd⟩
  | paren e ih =>
    have ie := ih hm
    refine ⟨ie.d, ie.conjs, ?_⟩
    intro mk t ht
    have : t = (mk, specPair S e) := by simpa [specSem, specPair] using ht
    rw [this]; exact ⟨rfl, ie.d⟩
  | mark e _ => simp [Expr.hasAnyMark] at hm
  | or l r ihl ihr =>
    simp only [Expr.hasAnyMark, Bool.or_eq_false_iff] at hm
    have il := ihl hm.1
    have ir := ihr hm.2
    have ht : ∀ mk, ∀ t ∈ (specSem S (.or l r)).terms mk, t.1 = mk ∧ t.2.d = [] := by
      intro mk t ht
      have ht' : t ∈ (specSem S l).terms mk ++ (specSem S r).terms mk := ht
      rcases List.mem_append.1 ht' with h | h
      · exact il.terms mk t h
      · exact ir.terms mk t h
    have hd : (specPair S (.or l r)).d = [] := disjPair_unmarked _ (ht false)
    refine ⟨hd, ?_, ht⟩
    intro q hq
    have : q = specPair S (.or l r) := by simpa [specSem, specPair] using hq
    rw [this]; exact hd

omit [DecidableEq V] in
theorem Out.resolve_eq (o : Out V) : o.resolve = resOf o.values o.defaults := by
  unfold Out.resolve resOf Out.defaultSet sing
  rfl

/-- ARBITRARY NESTING of unmarked disjunctions: every mark-free expression tree resolves in
the transcribed algorithm exactly as in the spec (no default; the unique disjunct or
ambiguous). -/
theorem default_unmarked (S : Sl V) (h : Laws S) (e : Expr V) (hm : e.hasAnyMark = false) :
    (eval S e).resolve = (specPair S e).resolve := by
  rw [Out.resolve_eq, Pair.resolve_eq, defaults_unmarked S e hm, (spec_unmarked S e hm).d]
  obtain ⟨⟨k1, _⟩, _⟩ := specPair_nodup S e
  refine resOf_congr (values_nodup S e) k1 List.nodup_nil List.nodup_nil ?_ rfl
  funext x; apply propext
  exact values_iff S h e x

end CueVerif.Disj
