/-
C08 helper lemmas: token separation under maximal munch.
-/
import CueVerif.Spec.Fmt
namespace CueVerif.Fmt

theorem loop_stop (p : Char → Bool) (rest : List Char)
    (hr : rest = [] ∨ ∃ d r, rest = d :: r ∧ p d = false) :
    ∀ (s acc : List Char), s.all p = true →
      List.span.loop p (s ++ rest) acc = (acc.reverse ++ s, rest) := by
  intro s
  induction s with
  | nil =>
    intro acc _
    rcases hr with rfl | ⟨d, r, rfl, hd⟩
    · simp [List.span.loop]
    · simp [List.span.loop, hd]
  | cons a s ih =>
    intro acc hs
    simp only [List.all_cons, Bool.and_eq_true] at hs
    simp [List.span.loop, hs.1, ih (a :: acc) hs.2]

theorem loop_any (p : Char → Bool) :
    ∀ (l acc : List Char), ∃ ls tl, List.span.loop p l acc = (acc.reverse ++ ls, tl) := by
  intro l
  induction l with
  | nil => intro acc; exact ⟨[], [], by simp [List.span.loop]⟩
  | cons a l ih =>
    intro acc
    cases ha : p a
    · exact ⟨[], a :: l, by simp [List.span.loop, ha]⟩
    · obtain ⟨ls, tl, h⟩ := ih (a :: acc)
      exact ⟨a :: ls, tl, by simp [List.span.loop, ha, h]⟩

theorem loop_ext (p : Char → Bool) (d : Char) (rest : List Char) (hd : p d = true) :
    ∀ (s acc : List Char), s.all p = true →
      ∃ ls tl, List.span.loop p (s ++ d :: rest) acc = (acc.reverse ++ s ++ d :: ls, tl) := by
  intro s
  induction s with
  | nil =>
    intro acc _
    obtain ⟨ls, tl, h⟩ := loop_any p rest (d :: acc)
    exact ⟨ls, tl, by simp [List.span.loop, hd, h]⟩
  | cons a s ih =>
    intro acc hs
    simp only [List.all_cons, Bool.and_eq_true] at hs
    obtain ⟨ls, tl, h⟩ := ih (a :: acc) hs.2
    exact ⟨ls, tl, by simp [List.span.loop, hs.1, h]⟩

theorem span_stop (p : Char → Bool) (s rest : List Char) (hs : s.all p = true)
    (hr : rest = [] ∨ ∃ d r, rest = d :: r ∧ p d = false) :
    (s ++ rest).span p = (s, rest) := by
  simpa [List.span] using loop_stop p rest hr s [] hs

theorem span_ext (p : Char → Bool) (s : List Char) (d : Char) (rest : List Char)
    (hs : s.all p = true) (hd : p d = true) :
    ∃ ls tl, (s ++ d :: rest).span p = (s ++ d :: ls, tl) := by
  simpa [List.span] using loop_ext p d rest hd s [] hs

theorem letter_not_digit (c : Char) (h : isLetter c = true) : isDigit c = false := by
  simp [isLetter, isDigit, Char.le_def, UInt32.le_iff_toNat_le] at *
  omega

theorem scanOne_int (c : Char) (s rest : List Char) (hc : isDigit c = true)
    (hs : s.all isDigit = true)
    (hr : rest = [] ∨ ∃ d r, rest = d :: r ∧ isDigit d = false ∧ isLetter d = false ∧ d ≠ '.' ∧ d ≠ '_') :
    scanOne (c :: s ++ rest) = some (.atom (.int (c :: s)), rest) := by
  have hcs : (c :: s).all isDigit = true := by simp [hc, hs]
  rcases hr with rfl | ⟨d, r, rfl, h1, h2, h3, h4⟩
  · have hspan := span_stop isDigit (c :: s) [] hcs (Or.inl rfl)
    simp only [List.cons_append] at hspan
    simp only [List.cons_append, scanOne, hc, if_true, hspan]
  · have hspan := span_stop isDigit (c :: s) (d :: r) hcs (Or.inr ⟨d, r, rfl, h1⟩)
    simp only [List.cons_append] at hspan
    simp only [List.cons_append, scanOne, hc, if_true, hspan]
    simp [h2, h3, h4]

theorem scanOne_ident (c : Char) (s rest : List Char) (hc : isLetter c = true)
    (hs : s.all isIdentChar = true)
    (hr : rest = [] ∨ ∃ d r, rest = d :: r ∧ isIdentChar d = false ∧ d ≠ '_' ∧ d ≠ '$' ∧ d ≠ '#') :
    scanOne (c :: s ++ rest) = some (.atom (.ident (c :: s)), rest) := by
  have hcs : (c :: s).all isIdentChar = true := by simp [isIdentChar, hc, hs]
  have hd := letter_not_digit c hc
  rcases hr with rfl | ⟨d, r, rfl, h1, h2, h3, h4⟩
  · have hspan := span_stop isIdentChar (c :: s) [] hcs (Or.inl rfl)
    simp only [List.cons_append] at hspan
    simp only [List.cons_append, scanOne, hc, hd, if_true, hspan]
    simp
  · have hspan := span_stop isIdentChar (c :: s) (d :: r) hcs (Or.inr ⟨d, r, rfl, h1⟩)
    simp only [List.cons_append] at hspan
    simp only [List.cons_append, scanOne, hc, hd, if_true, hspan]
    simp [h2, h3, h4]


def okNext (t : Tok) (rest : List Char) : Prop :=
  rest = [] ∨ ∃ c r, rest = c :: r ∧ (c = ' ' ∨ hazardChar t c = false)

theorem scanOne_op (o : OpTok) (rest : List Char) (h : okNext (.op o) rest) :
    scanOne (o.spell ++ rest) = some (.op o, rest) := by
  cases o <;> rcases h with rfl | ⟨c, r, rfl, rfl | hc⟩ <;>
    simp [scanOne, OpTok.spell, isDigit, isLetter, hazardChar] at * <;>
    (try split) <;> simp_all


theorem letter_ne_blank (c : Char) (h : isLetter c = true) : c ≠ ' ' := by
  intro e; subst e; revert h; decide

theorem digit_ne_blank (c : Char) (h : isDigit c = true) : c ≠ ' ' := by
  intro e; subst e; revert h; decide

theorem spell_cons (t : Tok) (hwf : t.wf = true) : ∃ c s, t.spell = c :: s ∧ c ≠ ' ' := by
  cases t with
  | op o => cases o <;> exact ⟨_, _, rfl, by decide⟩
  | atom a =>
    cases a with
    | ident s =>
      cases s with
      | nil => simp [Tok.wf, Atom.wf] at hwf
      | cons c s =>
        simp only [Tok.wf, Atom.wf, Bool.and_eq_true] at hwf
        exact ⟨c, s, rfl, letter_ne_blank c hwf.1⟩
    | int s =>
      cases s with
      | nil => simp [Tok.wf, Atom.wf] at hwf
      | cons c s =>
        simp only [Tok.wf, Atom.wf, Bool.and_eq_true] at hwf
        exact ⟨c, s, rfl, digit_ne_blank c hwf.1⟩

theorem skipBlanks_cons (c : Char) (s : List Char) (hc : c ≠ ' ') : skipBlanks (c :: s) = c :: s := by
  unfold skipBlanks
  split
  · simp_all
  · rfl

theorem scanOne_spell (t : Tok) (hwf : t.wf = true) (rest : List Char) (h : okNext t rest) :
    scanOne (t.spell ++ rest) = some (t, rest) := by
  cases t with
  | op o => exact scanOne_op o rest h
  | atom a =>
    cases a with
    | ident s =>
      cases s with
      | nil => simp [Tok.wf, Atom.wf] at hwf
      | cons c s =>
        simp only [Tok.wf, Atom.wf, Bool.and_eq_true] at hwf
        apply scanOne_ident c s rest hwf.1 hwf.2
        rcases h with rfl | ⟨d, r, rfl, rfl | hd⟩
        · left; rfl
        · right; exact ⟨_, _, rfl, by decide, by decide, by decide, by decide⟩
        · right
          simp [hazardChar] at hd
          exact ⟨_, _, rfl, by simp [isIdentChar, hd], hd.1.1.2, hd.1.2, hd.2⟩
    | int s =>
      cases s with
      | nil => simp [Tok.wf, Atom.wf] at hwf
      | cons c s =>
        simp only [Tok.wf, Atom.wf, Bool.and_eq_true] at hwf
        apply scanOne_int c s rest hwf.1 hwf.2
        rcases h with rfl | ⟨d, r, rfl, rfl | hd⟩
        · left; rfl
        · right; exact ⟨_, _, rfl, by decide, by decide, by decide, by decide⟩
        · right
          simp [hazardChar] at hd
          exact ⟨_, _, rfl, hd.1.1.1, hd.1.1.2, hd.1.2, hd.2⟩

theorem scanFuel_step (m : Nat) (cs : List Char) (c : Char) (cs' : List Char) (t : Tok)
    (rest : List Char) (ts : List Tok) (h1 : skipBlanks cs = c :: cs')
    (h2 : scanOne (c :: cs') = some (t, rest)) (h3 : scanFuel m rest = some ts) :
    scanFuel (m + 1) cs = some (t :: ts) := by
  simp [scanFuel, h1, h2, h3]

theorem okNext_render (t : Tok) (b2 : Bool) (t2 : Tok) (r : Items) (hwf2 : t2.wf = true)
    (h : (b2 || !hazard t t2) = true) : okNext t (render ((b2, t2) :: r)) := by
  obtain ⟨c, s, hs, _⟩ := spell_cons t2 hwf2
  right
  cases b2 with
  | true => exact ⟨' ', t2.spell ++ render r, by simp [render], Or.inl rfl⟩
  | false =>
    refine ⟨c, s ++ render r, by simp [render, hs], Or.inr ?_⟩
    simpa [hazard, hs] using h

theorem scanFuel_render : ∀ (l : Items) (n : Nat), (∀ x ∈ l, x.2.wf = true) → sepOK l = true →
    (render l).length < n → scanFuel n (render l) = some (toks l) := by
  intro l
  induction l with
  | nil =>
    intro n _ _ hn
    cases n with
    | zero => simp at hn
    | succ m => simp [render, scanFuel, skipBlanks, toks]
  | cons x r ih =>
    intro n hwf hsep hn
    obtain ⟨b, t⟩ := x
    have hwft : t.wf = true := hwf (b, t) (by simp)
    have hwfr : ∀ x ∈ r, x.2.wf = true := fun x hx => hwf x (by simp [hx])
    obtain ⟨c, s, hs, hc⟩ := spell_cons t hwft
    have hok : okNext t (render r) ∧ sepOK r = true := by
      cases r with
      | nil => exact ⟨Or.inl rfl, rfl⟩
      | cons y r' =>
        obtain ⟨b2, t2⟩ := y
        simp only [sepOK, Bool.and_eq_true] at hsep
        exact ⟨okNext_render t b2 t2 r' (hwfr (b2, t2) (by simp)) hsep.1, hsep.2⟩
    cases n with
    | zero => simp at hn
    | succ m =>
      have hlen : (render r).length < m := by
        cases b <;> simp [render, hs] at hn <;> omega
      have hskip : skipBlanks (render ((b, t) :: r)) = c :: (s ++ render r) := by
        cases b
        · simp [render, hs, skipBlanks_cons c _ hc]
        · simp [render, hs, skipBlanks, skipBlanks_cons c _ hc]
      have hone : scanOne (c :: (s ++ render r)) = some (t, render r) := by
        have := scanOne_spell t hwft (render r) hok.1
        simpa [hs] using this
      exact scanFuel_step m _ c _ t _ _ hskip hone (ih m hwfr hok.2 hlen)

/-- if a blank is present wherever two adjacent tokens are a hazard, scanning the rendered
line gives back exactly the tokens -/
theorem scan_render (l : Items) (hwf : ∀ x ∈ l, x.2.wf = true) (h : sepOK l = true) :
    scan (render l) = some (toks l) := by
  exact scanFuel_render l _ hwf h (Nat.lt_succ_self _)


theorem scanOne_op_hazard (o : OpTok) (c : Char) (r : List Char)
    (h : hazardChar (.op o) c = true) :
    scanOne (o.spell ++ c :: r) ≠ some (.op o, c :: r) := by
  cases o <;> simp [hazardChar] at h <;>
    simp [scanOne, OpTok.spell, isDigit, isLetter] <;>
    (try split) <;> first | (simp_all; done) | (simp_all [isDigit]; done)

theorem ident_ne_of_ext (s : List Char) (c : Char) (ls : List Char) :
    Tok.atom (.ident (s ++ c :: ls)) ≠ Tok.atom (.ident s) := by
  intro h
  have : (s ++ c :: ls).length = s.length := by
    injection h with h; injection h with h; rw [h]
  simp at this

theorem int_ne_of_ext (s : List Char) (c : Char) (ls : List Char) :
    Tok.atom (.int (s ++ c :: ls)) ≠ Tok.atom (.int s) := by
  intro h
  have : (s ++ c :: ls).length = s.length := by
    injection h with h; injection h with h; rw [h]
  simp at this

theorem scanOne_ident_hazard (c0 : Char) (s : List Char) (c : Char) (r : List Char)
    (hc0 : isLetter c0 = true) (hs : s.all isIdentChar = true)
    (h : hazardChar (.atom (.ident (c0 :: s))) c = true) :
    scanOne (c0 :: s ++ c :: r) ≠ some (.atom (.ident (c0 :: s)), c :: r) := by
  have hcs : (c0 :: s).all isIdentChar = true := by simp [isIdentChar, hc0, hs]
  have hd0 := letter_not_digit c0 hc0
  cases hic : isIdentChar c with
  | true =>
    obtain ⟨ls, tl, hspan⟩ := span_ext isIdentChar (c0 :: s) c r hcs hic
    simp only [List.cons_append] at hspan
    simp only [List.cons_append, scanOne, hc0, hd0, if_true, hspan]
    have hne := ident_ne_of_ext (c0 :: s) c ls
    simp only [List.cons_append] at hne
    cases tl with
    | nil => simp [hne]
    | cons d tl =>
      simp only [Bool.false_eq_true, if_false]
      split <;> simp [hne]
  | false =>
    have hspan := span_stop isIdentChar (c0 :: s) (c :: r) hcs (Or.inr ⟨c, r, rfl, hic⟩)
    simp only [List.cons_append] at hspan
    simp only [List.cons_append, scanOne, hc0, hd0, if_true, hspan]
    simp [hazardChar, isIdentChar] at h hic
    simp_all

theorem scanOne_int_hazard (c0 : Char) (s : List Char) (c : Char) (r : List Char)
    (hc0 : isDigit c0 = true) (hs : s.all isDigit = true)
    (h : hazardChar (.atom (.int (c0 :: s))) c = true) :
    scanOne (c0 :: s ++ c :: r) ≠ some (.atom (.int (c0 :: s)), c :: r) := by
  have hcs : (c0 :: s).all isDigit = true := by simp [hc0, hs]
  cases hic : isDigit c with
  | true =>
    obtain ⟨ls, tl, hspan⟩ := span_ext isDigit (c0 :: s) c r hcs hic
    simp only [List.cons_append] at hspan
    simp only [List.cons_append, scanOne, hc0, if_true, hspan]
    have hne := int_ne_of_ext (c0 :: s) c ls
    simp only [List.cons_append] at hne
    cases tl with
    | nil => simp [hne]
    | cons d tl =>
      simp only []
      split <;> simp [hne]
  | false =>
    have hspan := span_stop isDigit (c0 :: s) (c :: r) hcs (Or.inr ⟨c, r, rfl, hic⟩)
    simp only [List.cons_append] at hspan
    simp only [List.cons_append, scanOne, hc0, if_true, hspan]
    simp [hazardChar, hic] at h
    rcases h with (h | h) | h <;> simp [h]

theorem scanOne_hazard (a : Tok) (ha : a.wf = true) (c : Char) (r : List Char)
    (h : hazardChar a c = true) : scanOne (a.spell ++ c :: r) ≠ some (a, c :: r) := by
  cases a with
  | op o => exact scanOne_op_hazard o c r h
  | atom a =>
    cases a with
    | ident s =>
      cases s with
      | nil => simp [Tok.wf, Atom.wf] at ha
      | cons c0 s =>
        simp only [Tok.wf, Atom.wf, Bool.and_eq_true] at ha
        exact scanOne_ident_hazard c0 s c r ha.1 ha.2 h
    | int s =>
      cases s with
      | nil => simp [Tok.wf, Atom.wf] at ha
      | cons c0 s =>
        simp only [Tok.wf, Atom.wf, Bool.and_eq_true] at ha
        exact scanOne_int_hazard c0 s c r ha.1 ha.2 h

/-- the hazard table is tight: a hazardous pair written without a blank is NOT scanned as the
two tokens -/
theorem hazard_tight (a b : Tok) (ha : a.wf = true) (hb : b.wf = true) (h : hazard a b = true)
    (rest : List Char) : scanOne (a.spell ++ b.spell ++ rest) ≠ some (a, b.spell ++ rest) := by
  obtain ⟨c, s, hs, _⟩ := spell_cons b hb
  have hc : hazardChar a c = true := by simpa [hazard, hs] using h
  have := scanOne_hazard a ha c (s ++ rest) hc
  simpa [hs, List.append_assoc] using this

end CueVerif.Fmt
