/-
C08 helper lemmas: precedence-climbing parsing inverts operator-precedence printing.
-/
import CueVerif.Spec.Fmt
namespace CueVerif.Fmt

theorem paren_cases (x : Expr) : (∃ x', x = .paren x') ∨ (∀ x', x ≠ .paren x') := by
  cases x <;> simp

theorem printP_paren_np (p : Nat) (x : Expr) (h : ∀ x', x ≠ .paren x') :
    printP p (.paren x) = parens (printP lowestPrec x) := by
  cases x <;> simp_all [printP]

theorem normP_paren_np (p : Nat) (x : Expr) (h : ∀ x', x ≠ .paren x') :
    normP p (.paren x) = .paren (normP lowestPrec x) := by
  cases x <;> simp_all [normP]

theorem prec_le_seven (o : OpTok) : o.prec ≤ 7 := by cases o <;> simp [OpTok.prec]

/-! ### fuel monotonicity -/

theorem parse_mono1 : ∀ n,
    (∀ ts r, parseUnary n ts = some r → parseUnary (n+1) ts = some r) ∧
    (∀ p ts r, parseBinary n p ts = some r → parseBinary (n+1) p ts = some r) ∧
    (∀ p x ts r, parseTail n p x ts = some r → parseTail (n+1) p x ts = some r) := by
  intro n
  induction n with
  | zero => simp [parseUnary, parseBinary, parseTail]
  | succ n ih =>
    obtain ⟨ihU, ihB, ihT⟩ := ih
    refine ⟨?_, ?_, ?_⟩
    · intro ts r h
      match ts with
      | [] => simp [parseUnary] at h
      | .atom a :: ts => simpa [parseUnary] using h
      | .op o :: ts =>
        simp only [parseUnary] at h ⊢
        by_cases hu : o.isUnary = true
        · simp only [hu, if_true] at h ⊢
          cases hx : parseUnary n ts with
          | none => simp [hx] at h
          | some xr =>
            rw [ihU _ _ hx]; simpa [hx] using h
        · simp only [hu] at h ⊢
          by_cases hl : o = .lparen
          · simp only [hl, if_true] at h ⊢
            cases hx : parseBinary n 1 ts with
            | none => simp [hx] at h
            | some xr =>
              rw [ihB _ _ _ hx]; simpa [hx] using h
          · simp [hl] at h
    · intro p ts r h
      simp only [parseBinary] at h ⊢
      cases hx : parseUnary n ts with
      | none => simp [hx] at h
      | some xr =>
        rw [ihU _ _ hx]
        simp only [hx] at h
        exact ihT _ _ _ _ h
    · intro p x ts r h
      match ts with
      | [] => simpa [parseTail] using h
      | t :: ts =>
        simp only [parseTail] at h ⊢
        by_cases hp : tokPrec t < p
        · simpa [hp] using h
        · simp only [hp, if_false] at h ⊢
          match t with
          | .atom a => simp at h
          | .op o =>
            simp only at h ⊢
            cases hy : parseBinary n (o.prec + 1) ts with
            | none => simp [hy] at h
            | some yr =>
              rw [ihB _ _ _ hy]
              simp only [hy] at h
              exact ihT _ _ _ _ h

theorem parseUnary_mono {n m : Nat} {ts r} (h : parseUnary n ts = some r) (hle : n ≤ m) :
    parseUnary m ts = some r := by
  induction hle with
  | refl => exact h
  | step _ ih => exact (parse_mono1 _).1 _ _ ih

theorem parseBinary_mono {n m : Nat} {p ts r} (h : parseBinary n p ts = some r) (hle : n ≤ m) :
    parseBinary m p ts = some r := by
  induction hle with
  | refl => exact h
  | step _ ih => exact (parse_mono1 _).2.1 _ _ _ ih

theorem parseTail_mono {n m : Nat} {p x ts r} (h : parseTail n p x ts = some r) (hle : n ≤ m) :
    parseTail m p x ts = some r := by
  induction hle with
  | refl => exact h
  | step _ ih => exact (parse_mono1 _).2.2 _ _ _ _ ih

/-! ### the loop stops at a low-precedence token -/

def stops (k : Nat) : List Tok → Prop
  | [] => True
  | t :: _ => tokPrec t < k

theorem stops_mono {k k' : Nat} {rest : List Tok} (h : stops k rest) (hk : k ≤ k') : stops k' rest := by
  cases rest with
  | nil => trivial
  | cons t ts => exact Nat.lt_of_lt_of_le h hk

theorem parseTail_stop {k : Nat} {rest : List Tok} (x : Expr) (n : Nat) (h : stops k rest) :
    parseTail (n + 1) k x rest = some (x, rest) := by
  cases rest with
  | nil => simp [parseTail]
  | cons t ts =>
    have : tokPrec t < k := h
    simp [parseTail, this]

theorem stops_rparen (k : Nat) (rest : List Tok) : stops (k + 1) (.op .rparen :: rest) := by
  simp [stops, tokPrec, OpTok.prec]

/-! ### assembling -/

theorem parseBinary_of_unary {m n m' q : Nat} {ts rest : List Tok} {x : Expr} {r}
    (hu : parseUnary m ts = some (x, rest)) (ht : parseTail n q x rest = some r)
    (hm : m + 1 ≤ m') (hn : n + 1 ≤ m') : parseBinary m' q ts = some r := by
  obtain ⟨k, rfl⟩ : ∃ k, m' = k + 1 := ⟨m' - 1, by omega⟩
  simp only [parseBinary]
  rw [parseUnary_mono hu (by omega)]
  exact parseTail_mono ht (by omega)

theorem parseUnary_parens {m : Nat} {body rest : List Tok} {x : Expr}
    (h : parseBinary m 1 (body ++ .op .rparen :: rest) = some (x, .op .rparen :: rest)) :
    parseUnary (m + 1) (parens body ++ rest) = some (.paren x, rest) := by
  simp [parens, parseUnary, OpTok.isUnary, h]

def ulevel (p : Nat) : Expr → Prop
  | .bin o _ _ => o.prec < p
  | _ => True

def PU (e : Expr) : Prop :=
  ∀ p rest m, ulevel p e → 3 * (printP p e).length ≤ m →
    parseUnary m (printP p e ++ rest) = some (normP p e, rest)

def PB (e : Expr) : Prop :=
  ∀ p q rest n m r, (q ≤ p ∨ q ≤ 1) → stops (p + 1) rest →
    parseTail n q (normP p e) rest = some r → n + 3 * (printP p e).length + 1 ≤ m →
    parseBinary m q (printP p e ++ rest) = some r

theorem PB_of_PU {e : Expr} (hU : PU e) :
    ∀ p q rest n m r, ulevel p e →
    parseTail n q (normP p e) rest = some r → n + 3 * (printP p e).length + 1 ≤ m →
    parseBinary m q (printP p e ++ rest) = some r := by
  intro p q rest n m r hl ht hm
  exact parseBinary_of_unary (hU p rest _ hl (Nat.le_refl _)) ht (by omega) (by omega)

theorem bin_core {o : OpTok} {x y : Expr} (hx : PB x) (hy : PB y) :
    ∀ q rest n m r, q ≤ o.prec → stops (o.prec + 1) rest →
    parseTail n q (.bin o (normP o.prec x) (normP (o.prec + 1) y)) rest = some r →
    n + 3 * ((printP o.prec x).length + 1 + (printP (o.prec + 1) y).length) + 1 ≤ m →
    parseBinary m q (printP o.prec x ++ .op o :: (printP (o.prec + 1) y ++ rest)) = some r := by
  intro q rest n m r hq hs ht hm
  refine hx o.prec q _ (n + 3 * (printP (o.prec + 1) y).length + 2 + 1) m r (Or.inl hq)
    (by simp [stops, tokPrec]) ?_ (by omega)
  have hy' := hy (o.prec + 1) (o.prec + 1) rest 1 (n + 3 * (printP (o.prec + 1) y).length + 2)
    (normP (o.prec + 1) y, rest) (Or.inl (Nat.le_refl _)) (stops_mono hs (by omega))
    (parseTail_stop _ 0 hs) (by omega)
  have hnq : ¬ tokPrec (.op o) < q := by simp [tokPrec]; omega
  simp only [parseTail, hnq, if_false, hy']
  exact parseTail_mono ht (by omega)

theorem parse_main (e : Expr) : e.wf = true → PU e ∧ PB e := by
  induction e with
  | atom a =>
    intro _
    have hU : PU (.atom a) := by
      intro p rest m _ hm
      obtain ⟨k, rfl⟩ : ∃ k, m = k + 1 := ⟨m - 1, by simp [printP] at hm; omega⟩
      simp [printP, normP, parseUnary]
    exact ⟨hU, fun p q rest n m r _ _ ht hm => PB_of_PU hU p q rest n m r trivial ht hm⟩
  | un o x ih =>
    intro hwf
    simp only [Expr.wf, Bool.and_eq_true] at hwf
    obtain ⟨ihU, -⟩ := ih hwf.2
    have hlx : ulevel unaryPrec x := by
      cases x <;> simp [ulevel]
      next o' _ _ => have := prec_le_seven o'; simp [unaryPrec]; omega
    have inner : ∀ rest k, 3 * (printP unaryPrec x).length ≤ k →
        parseUnary (k + 1) (.op o :: (printP unaryPrec x ++ rest)) = some (.un o (normP unaryPrec x), rest) := by
      intro rest k hk
      simp [parseUnary, hwf.1, ihU unaryPrec rest k hlx hk]
    have hU : PU (.un o x) := by
      intro p rest m _ hm
      by_cases hp : unaryPrec < p
      · simp only [printP, normP, hp, if_true] at hm ⊢
        obtain ⟨k, rfl⟩ : ∃ k, m = k + 1 := ⟨m - 1, by simp [parens] at hm; omega⟩
        apply parseUnary_parens
        simp [parens] at hm
        refine parseBinary_of_unary (m := 3 * (printP unaryPrec x).length + 1) (n := 1) ?_
          (parseTail_stop _ 0 (stops_rparen 0 rest)) (by omega) (by omega)
        simpa using inner (.op .rparen :: rest) _ (Nat.le_refl _)
      · simp only [printP, normP, hp, if_false] at hm ⊢
        obtain ⟨k, rfl⟩ : ∃ k, m = k + 1 := ⟨m - 1, by simp at hm; omega⟩
        simp at hm
        simpa using inner rest k (by omega)
    exact ⟨hU, fun p q rest n m r _ _ ht hm => PB_of_PU hU p q rest n m r trivial ht hm⟩
  | bin o x y ihx ihy =>
    intro hwf
    simp only [Expr.wf, Bool.and_eq_true, decide_eq_true_eq] at hwf
    obtain ⟨-, ihBx⟩ := ihx hwf.1.2
    obtain ⟨-, ihBy⟩ := ihy hwf.2
    have core := bin_core (o := o) ihBx ihBy
    have hU : PU (.bin o x y) := by
      intro p rest m hl hm
      have hp : o.prec < p := hl
      simp only [printP, normP, hp, if_true] at hm ⊢
      obtain ⟨k, rfl⟩ : ∃ k, m = k + 1 := ⟨m - 1, by simp [parens] at hm; omega⟩
      apply parseUnary_parens
      simp [parens] at hm
      have := core 1 (.op .rparen :: rest) 1 k _ hwf.1.1 (stops_rparen _ rest)
        (parseTail_stop _ 0 (stops_rparen 0 rest)) (by omega)
      simpa using this
    refine ⟨hU, ?_⟩
    intro p q rest n m r hq hs ht hm
    by_cases hp : o.prec < p
    · exact PB_of_PU hU p q rest n m r hp ht hm
    · simp only [printP, normP, hp, if_false] at hm ht ⊢
      have hq' : q ≤ o.prec := by omega
      have := core q rest n m r hq' (stops_mono hs (by omega)) ht (by simp at hm; omega)
      simpa using this
  | paren x ih =>
    intro hwf
    simp only [Expr.wf] at hwf
    obtain ⟨ihU, ihB⟩ := ih hwf
    have hU : PU (.paren x) := by
      intro p rest m _ hm
      rcases paren_cases x with ⟨x', rfl⟩ | hnp
      · simp only [printP, normP] at hm ⊢
        exact ihU lowestPrec rest m trivial hm
      · rw [printP_paren_np _ _ hnp] at hm ⊢
        rw [normP_paren_np _ _ hnp]
        obtain ⟨k, rfl⟩ : ∃ k, m = k + 1 := ⟨m - 1, by simp [parens] at hm; omega⟩
        apply parseUnary_parens
        simp [parens] at hm
        exact ihB lowestPrec 1 (.op .rparen :: rest) 1 k _ (Or.inr (Nat.le_refl _))
          (stops_rparen _ rest) (parseTail_stop _ 0 (stops_rparen 0 rest)) (by omega)
    exact ⟨hU, fun p q rest n m r _ _ ht hm => PB_of_PU hU p q rest n m r trivial ht hm⟩

/-- printing then parsing yields the normalised tree, for every well-formed tree -/
theorem parse_print (e : Expr) (h : e.wf = true) : parseE (printE e) = some (norm e) := by
  have hB := (parse_main e h).2 lowestPrec 1 [] 1 (parseFuel (printE e)) (norm e, [])
    (Or.inr (Nat.le_refl _)) trivial (parseTail_stop _ 0 trivial)
    (by simp [parseFuel, printE]; omega)
  simp only [List.append_nil, printE] at hB
  simp [parseE, printE, hB]

/-! ### normal forms -/

theorem printP_paren_indep (p p' : Nat) (x : Expr) : printP p (.paren x) = printP p' (.paren x) := by
  cases x <;> simp [printP]

theorem normP_paren_indep (p p' : Nat) (x : Expr) : normP p (.paren x) = normP p' (.paren x) := by
  cases x <;> simp [normP]

/-- at precedence 0 a non-paren stays a non-paren -/
theorem normP_zero_np (x : Expr) (h : ∀ x', x ≠ .paren x') : ∀ z, normP lowestPrec x ≠ .paren z := by
  cases x <;> simp_all [normP, lowestPrec]

theorem normP_paren_isParen (p : Nat) (x : Expr) : ∃ z, normP p (.paren x) = .paren z ∧ ∀ z', z ≠ .paren z' := by
  induction x generalizing p with
  | paren x ih => simpa [normP] using ih lowestPrec
  | _ => simp [normP, lowestPrec]

/-- normalisation only adds / collapses parentheses -/
theorem erase_normP (p : Nat) (e : Expr) : erase (normP p e) = erase e := by
  fun_induction normP p e <;> simp_all +zetaDelta [erase]


/-- printing does not see the difference between a tree and its normal form -/
theorem printP_normP (p : Nat) (e : Expr) : printP p (normP p e) = printP p e := by
  fun_induction normP p e
  case case1 => simp [printP]
  case case2 p o x y b h ihx ihy =>
    rw [printP_paren_np _ _ (by simp [b])]
    simp [b, printP, lowestPrec, ihx, ihy, h]
  case case3 p o x y b h ihx ihy =>
    have : ¬ o.prec < p := by omega
    simp [b, printP, ihx, ihy, this]
  case case4 p o x b h ih =>
    rw [printP_paren_np _ _ (by simp [b])]
    simp [b, printP, lowestPrec, ih, h]
  case case5 p o x b h ih =>
    have : ¬ unaryPrec < p := by omega
    simp [b, printP, ih, this]
  case case6 p x ih =>
    obtain ⟨z, hz, _⟩ := normP_paren_isParen lowestPrec x
    rw [hz] at ih ⊢
    rw [printP_paren_indep p lowestPrec, ih]; simp [printP]
  case case7 p x hx ih =>
    have hx' : ∀ x', x ≠ .paren x' := fun x' h => hx x' h
    rw [printP_paren_np _ _ (normP_zero_np x hx'), printP_paren_np _ _ hx', ih]

theorem normP_idem (p : Nat) (e : Expr) : normP p (normP p e) = normP p e := by
  fun_induction normP p e
  case case1 => simp [normP]
  case case2 p o x y b h ihx ihy =>
    rw [normP_paren_np _ _ (by simp [b])]
    simp [b, normP, lowestPrec, ihx, ihy]
  case case3 p o x y b h ihx ihy =>
    have : ¬ o.prec < p := by omega
    simp [b, normP, ihx, ihy, this]
  case case4 p o x b h ih =>
    rw [normP_paren_np _ _ (by simp [b])]
    simp [b, normP, lowestPrec, ih]
  case case5 p o x b h ih =>
    have : ¬ unaryPrec < p := by omega
    simp [b, normP, ih, this]
  case case6 p x ih =>
    obtain ⟨z, hz, _⟩ := normP_paren_isParen lowestPrec x
    rw [hz] at ih ⊢
    rw [normP_paren_indep p lowestPrec, ih]
  case case7 p x hx ih =>
    have hx' : ∀ x', x ≠ .paren x' := fun x' h => hx x' h
    rw [normP_paren_np _ _ (normP_zero_np x hx'), ih]

/-- on a tree that obeys the grammar (what the parser returns) the only change is `((x))` → `(x)` -/
theorem normP_shaped (p : Nat) (e : Expr) (h : Shaped p e = true) : normP p e = collapse e := by
  fun_induction normP p e
  case case1 => simp [collapse]
  case case2 p o x y b h' ihx ihy =>
    simp [Shaped] at h; omega
  case case3 p o x y b h' ihx ihy =>
    simp [Shaped] at h
    simp [b, collapse, ihx h.1.2, ihy h.2]
  case case4 p o x b h' ih =>
    simp [Shaped] at h; omega
  case case5 p o x b h' ih =>
    simp [Shaped] at h
    simp [b, collapse, ih h.2]
  case case6 p x ih =>
    simp [Shaped] at h
    simp [collapse]; exact ih (by simpa [Shaped] using h)
  case case7 p x hx ih =>
    simp [Shaped] at h
    have hx' : ∀ x', x ≠ .paren x' := fun x' h => hx x' h
    have : collapse (.paren x) = .paren (collapse x) := by
      cases x <;> simp_all [collapse]
    rw [this, ih h]

/-- the normal form obeys the grammar -/
theorem shaped_normP (p : Nat) (e : Expr) (hp : p ≤ unaryPrec) (h : e.wf = true) : Shaped p (normP p e) = true := by
  fun_induction normP p e
  case case1 => simp [Shaped]
  case case2 p o x y b h' ihx ihy =>
    simp [Expr.wf] at h
    have := prec_le_seven o
    simp [b, Shaped, ihx (by simp [unaryPrec]; omega) h.1.2, ihy (by simp [unaryPrec]; omega) h.2]
  case case3 p o x y b h' ihx ihy =>
    simp [Expr.wf] at h
    have := prec_le_seven o
    simp [b, Shaped, ihx (by simp [unaryPrec]; omega) h.1.2, ihy (by simp [unaryPrec]; omega) h.2]
    omega
  case case4 p o x b h' ih => omega
  case case5 p o x b h' ih =>
    simp [Expr.wf] at h
    simp [b, Shaped, ih (Nat.le_refl _) h.2, hp]
  case case6 p x ih =>
    exact ih (by simp [lowestPrec]) (by simpa [Expr.wf] using h) |> fun h => by
      obtain ⟨z, hz, _⟩ := normP_paren_isParen lowestPrec x
      rw [hz] at h ⊢; simpa [Shaped] using h
  case case7 p x hx ih =>
    simp [Expr.wf] at h
    simpa [Shaped, lowestPrec] using ih (by simp [lowestPrec]) h

end CueVerif.Fmt
