/-
C10 helper lemmas, reading direction: the data literal `json.Extract` produces for a JSON
text (Model/JsonExtract.lean) denotes the data of the text.  Uses C09's quoting round trip
(`roundtrip_single_all`, `roundtrip_multi` = Props `C09_roundtrip`) for every re-quoted literal,
`string_embed`/`string_scan` for string tokens and `number_value` for number tokens.
-/
import CueVerif.Model.JsonExtract
import CueVerif.Proofs.JsonDenote
import CueVerif.Proofs.JsonNumber
import CueVerif.Proofs.JsonTree
import CueVerif.Proofs.QuoteMain
import CueVerif.Proofs.QuoteMulti
namespace CueVerif.Json
open CueVerif CueVerif.Quote

/-- a string token the decoder reads: well-formed, surrogate escapes paired (Unicode text), no
raw U+FEFF (known finding string-raw-bom) -/
def StrOk (items : List JItem) : Prop :=
  WfItems items ∧ wellPaired items = true ∧ noRawBOM items = true

mutual
/-- the region of JSON texts the theorem covers: every token well-formed (always the case for
a parsed text), strings `StrOk`, numbers within apd's exponent limits (known finding
number-exponent-out-of-apd-range-rejected), member names of every object pairwise distinct
(known finding duplicate-key-differing-values) -/
def JTree.Readable : JTree → Prop
  | .null => True
  | .bool _ => True
  | .num n => n.wf = true ∧ n.inApdRange
  | .str items => StrOk items
  | .arr es => JTree.ReadableList es
  | .obj ms => JTree.ReadableMembers ms ∧ distinctKeys (JTree.denMembers ms) = true
def JTree.ReadableList : List JTree → Prop
  | [] => True
  | e :: es => e.Readable ∧ JTree.ReadableList es
def JTree.ReadableMembers : List (List JItem × JTree) → Prop
  | [] => True
  | (k, v) :: ms => StrOk k ∧ v.Readable ∧ JTree.ReadableMembers ms
end

theorem requote_form_wf (depth : Nat) :
    ((stringForm.withOptionalTabIndent depth).withOptionalHashes).WF := Or.inl ⟨rfl, rfl⟩

/-- C09: the re-quoting form reads back exactly -/
theorem requote_roundtrip {E : Env} (hE : E.Ok) (depth : Nat) (s : Bytes) (hs : GoodStr s) :
    unquote (quote E ((stringForm.withOptionalTabIndent depth).withOptionalHashes) s) = .ok s := by
  cases hml : ((stringForm.withOptionalTabIndent depth).withOptionalHashes).effMultiline s with
  | true => exact roundtrip_multi hE _ (requote_form_wf depth) s hs.1 (Or.inr hs.2) hml
  | false => exact roundtrip_single_all hE _ (requote_form_wf depth) s hs.1 (Or.inr hs.2) hml

/-- a string literal after PatchExpr still unquotes to the string the JSON token denotes -/
theorem patchString_ok {E : Env} (hE : E.Ok) (depth : Nat) (items : List JItem) (h : StrOk items) :
    unquote (patchString E depth (stringText items)) = .ok (denote items) := by
  have hemb := string_embed items h.1 h.2.1
  unfold patchString
  split
  · rw [hemb]
    exact requote_roundtrip hE depth _ (denote_good _ items (Nat.le_refl _) h.1 h.2.1)
  · exact hemb

theorem patchLabel_ok {E : Env} (hE : E.Ok) (nq : Bytes → Bool) (depth : Nat) (k : List JItem)
    (h : StrOk k) : labelName (patchLabel E nq depth (.str (stringText k))) = some (denote k) := by
  have hemb := string_embed k h.1 h.2.1
  simp only [patchLabel, hemb]
  split
  · simp only [labelName, patchString_ok hE depth k h]
  · simp only [labelName]

theorem any_key_norm (k : Bytes) (ms : List (Bytes × JVal)) :
    (JVal.normZeroMembers ms).any (fun m => m.1 == k) = ms.any (fun m => m.1 == k) := by
  induction ms with
  | nil => rfl
  | cons p t ih => obtain ⟨k', v⟩ := p; simp only [JVal.normZeroMembers, List.any_cons, ih]

theorem distinctKeys_norm (ms : List (Bytes × JVal)) :
    distinctKeys (JVal.normZeroMembers ms) = distinctKeys ms := by
  induction ms with
  | nil => rfl
  | cons p t ih => obtain ⟨k, v⟩ := p; simp only [JVal.normZeroMembers, distinctKeys, any_key_norm, ih]

mutual
theorem extract_value {E : Env} (hE : E.Ok) (nq : Bytes → Bool) : ∀ (t : JTree), t.Readable → ∀ depth : Nat,
    ∃ c, astOf t = some c ∧ evalData (patch E nq depth c) = some t.den.normZero
  | .null, _, _ => ⟨.null, rfl, by simp [patch, evalData, JTree.den, JVal.normZero]⟩
  | .bool b, _, _ => ⟨.bool b, rfl, by simp [patch, evalData, JTree.den, JVal.normZero]⟩
  | .num n, h, _ => by
    simp only [JTree.Readable] at h
    refine ⟨.num n.neg n.utext, rfl, ?_⟩
    have hv := number_value n h.1 h.2
    simp only [JNum.text] at hv
    simp only [patch, evalData, hv, JTree.den, JVal.normZero]
  | .str items, h, depth => by
    simp only [JTree.Readable] at h
    refine ⟨.str (stringText items), by simp [astOf, string_scan items h.1, h.2.2], ?_⟩
    simp only [patch, evalData, patchString_ok hE depth items h, JTree.den, JVal.normZero]
  | .arr es, h, depth => by
    simp only [JTree.Readable] at h
    obtain ⟨cs, h1, h2⟩ := extract_list hE nq es h (depth + 1)
    exact ⟨.list cs, by simp [astOf, h1], by simp [patch, evalData, h2, JTree.den, JVal.normZero]⟩
  | .obj ms, h, depth => by
    simp only [JTree.Readable] at h
    obtain ⟨fs, h1, h2⟩ := extract_members hE nq ms h.1 (depth + 1)
    refine ⟨.struct fs, by simp [astOf, h1], ?_⟩
    simp only [patch, evalData, h2, distinctKeys_norm, h.2, if_true, JTree.den, JVal.normZero]
theorem extract_list {E : Env} (hE : E.Ok) (nq : Bytes → Bool) : ∀ (es : List JTree), JTree.ReadableList es →
    ∀ depth : Nat, ∃ cs, astOfList es = some cs ∧
      evalList (patchList E nq depth cs) = some (JVal.normZeroList (JTree.denList es))
  | [], _, _ => ⟨[], rfl, by simp [patchList, evalList, JTree.denList, JVal.normZeroList]⟩
  | e :: es, h, depth => by
    simp only [JTree.ReadableList] at h
    obtain ⟨c, h1, h2⟩ := extract_value hE nq e h.1 depth
    obtain ⟨cs, h3, h4⟩ := extract_list hE nq es h.2 depth
    exact ⟨c :: cs, by simp [astOfList, h1, h3],
      by simp [patchList, evalList, h2, h4, JTree.denList, JVal.normZeroList]⟩
theorem extract_members {E : Env} (hE : E.Ok) (nq : Bytes → Bool) : ∀ (ms : List (List JItem × JTree)),
    JTree.ReadableMembers ms → ∀ depth : Nat, ∃ fs, astOfMembers ms = some fs ∧
      evalFields (patchFields E nq depth fs) = some (JVal.normZeroMembers (JTree.denMembers ms))
  | [], _, _ => ⟨[], rfl, by simp [patchFields, evalFields, JTree.denMembers, JVal.normZeroMembers]⟩
  | (k, v) :: ms, h, depth => by
    simp only [JTree.ReadableMembers] at h
    obtain ⟨c, h1, h2⟩ := extract_value hE nq v h.2.1 depth
    obtain ⟨fs, h3, h4⟩ := extract_members hE nq ms h.2.2 depth
    refine ⟨(.str (stringText k), c) :: fs, by simp [astOfMembers, string_scan k h.1.1, h.1.2.2, h1, h3], ?_⟩
    simp only [patchFields, evalFields, patchLabel_ok hE nq depth k h.1, h2, h4, JTree.denMembers,
      JVal.normZeroMembers]
end

/-- text level: for every JSON text whose parse tree is in the covered region, `json.Extract`
succeeds and the data literal it returns evaluates to the data the text denotes (`-0` → `0`) -/
theorem extract_text {E : Env} (hE : E.Ok) (nq : Bytes → Bool) (text : Bytes) (t : JTree)
    (ht : parseTree text = some t) (hr : t.Readable) :
    ∃ c, extractModel E nq text = some c ∧ evalData c = (parseJSON text).map JVal.normZero := by
  obtain ⟨c, h1, h2⟩ := extract_value hE nq t hr 1
  refine ⟨patch E nq 1 c, by simp [extractModel, ht, h1], ?_⟩
  rw [parseJSON_eq, ht, h2]; rfl

/-- duplicate member names: the model makes no data claim (`none`) — the evaluator unifies the
repeated fields (conflict error when the values differ: known finding) -/
theorem extract_duplicate {E : Env} (hE : E.Ok) (nq : Bytes → Bool) (ms : List (List JItem × JTree))
    (hm : JTree.ReadableMembers ms) (hd : distinctKeys (JTree.denMembers ms) = false) (depth : Nat) :
    ∃ c, astOf (.obj ms) = some c ∧ evalData (patch E nq depth c) = none := by
  obtain ⟨fs, h1, h2⟩ := extract_members hE nq ms hm (depth + 1)
  refine ⟨.struct fs, by simp [astOf, h1], ?_⟩
  simp [patch, evalData, h2, distinctKeys_norm, hd]

/-- a raw U+FEFF in a string token: `extract` answers "invalid JSON" -/
theorem extract_bom (items : List JItem) (hwf : WfItems items) (hb : noRawBOM items = false) :
    astOf (.str items) = none := by
  simp [astOf, string_scan items hwf, hb]

end CueVerif.Json
