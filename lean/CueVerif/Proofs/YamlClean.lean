/-
C11 (extension) — what the conjunct `!yamlUnprintable(s)` of `blockLiteralSafe` gives the
reader of a block scalar: every byte is TAB, LF, printable ASCII or part of a multi-byte
sequence — in particular no CR (which a YAML reader would normalise to LF, §5.4), no other C0
control, no DEL — so line break normalisation is the identity on the text.
-/
import CueVerif.Model.YamlPrint
import CueVerif.Proofs.Utf8
import CueVerif.Proofs.Yaml
namespace CueVerif.Yaml
open CueVerif.Quote (Bytes decodeRune)

/-- the bytes a decoded rune spans after its first byte are all ≥ 0x80 -/
theorem decodeRune_cont_high (c : Nat) (t : Bytes) :
    ∀ x ∈ t.take ((decodeRune (c :: t)).2 - 1), 0x80 ≤ x := by
  generalize hp : decodeRune (c :: t) = p
  simp only [decodeRune] at hp
  repeat' split at hp
  all_goals subst hp
  all_goals simp only [Bool.and_eq_true, decide_eq_true_eq, Quote.isCont] at *
  all_goals first | (intro x hx; simp at hx; done) | (intro x hx; simp at hx; omega)

theorem unprintable_clean (P : IsPrint) : ∀ (fuel : Nat) (s : Bytes), s.length ≤ fuel →
    yamlUnprintableLoop P fuel s = false → ∀ c ∈ s, cleanByte c = true := by
  intro fuel
  induction fuel with
  | zero => intro s hl _ c hc; cases s with
    | nil => simp at hc
    | cons _ _ => simp at hl
  | succ fuel ih =>
    intro s hl h c hc
    cases s with
    | nil => simp at hc
    | cons c0 t =>
      have hw := (Quote.decodeRune_width_pos c0 t).1
      have hmax : max (decodeRune (c0 :: t)).2 1 = (decodeRune (c0 :: t)).2 := by omega
      simp only [yamlUnprintableLoop, hmax] at h
      -- the rest of the string after this rune is clean, and the loop went on there
      have hrest : yamlUnprintableLoop P fuel ((c0 :: t).drop (decodeRune (c0 :: t)).2) = false := by
        split at h
        · exact h
        · split at h
          · simp at h
          · split at h
            · simp at h
            · split at h
              · simp at h
              · exact h
      have hc0 : cleanByte c0 = true := by
        by_cases h80 : c0 < 0x80
        · rw [Quote.decodeRune_ascii c0 t h80] at h
          simp only [] at h
          by_cases h9 : (c0 == 9 || c0 == 10) = true
          · simp only [Bool.or_eq_true, beq_iff_eq] at h9
            simp only [cleanByte, Bool.or_eq_true, beq_iff_eq, Bool.and_eq_true, decide_eq_true_eq]
            omega
          · simp only [h9, Bool.false_eq_true, if_false] at h
            by_cases hu : unprintableRune c0 = true
            · simp [hu] at h
            · simp only [unprintableRune, Bool.or_eq_true, decide_eq_true_eq, beq_iff_eq, not_or] at hu
              simp only [cleanByte, Bool.or_eq_true, beq_iff_eq, Bool.and_eq_true, decide_eq_true_eq]
              omega
        · simp only [cleanByte, Bool.or_eq_true, beq_iff_eq, Bool.and_eq_true, decide_eq_true_eq]
          omega
      simp only [List.mem_cons] at hc
      rcases hc with rfl | hc
      · exact hc0
      · have hsplit : t = t.take ((decodeRune (c0 :: t)).2 - 1) ++ t.drop ((decodeRune (c0 :: t)).2 - 1) :=
          (List.take_append_drop _ _).symm
        rw [hsplit] at hc
        rcases List.mem_append.mp hc with h1 | h2
        · have := decodeRune_cont_high c0 t c h1
          simp only [cleanByte, Bool.or_eq_true, beq_iff_eq, Bool.and_eq_true, decide_eq_true_eq]
          omega
        · have hd : (c0 :: t).drop (decodeRune (c0 :: t)).2 = t.drop ((decodeRune (c0 :: t)).2 - 1) := by
            obtain ⟨k, hk⟩ : ∃ k, (decodeRune (c0 :: t)).2 = k + 1 := ⟨(decodeRune (c0 :: t)).2 - 1, by omega⟩
            rw [hk]; simp
          rw [hd] at hrest
          refine ih _ ?_ hrest c h2
          simp only [List.length_drop, List.length_cons] at hl ⊢
          omega

/-- every byte of a string `blockLiteralSafe` admits is clean -/
theorem blockLiteralSafe_clean (P : IsPrint) (s : Bytes) (h : blockLiteralSafe P s = true) :
    ∀ c ∈ s, cleanByte c = true :=
  unprintable_clean P s.length s (Nat.le_refl _) (blockLiteralSafe_printable P s h)

/-- line break normalisation does nothing to a text without CR -/
theorem normalizeBreaks_id (t : Bytes) (h : 13 ∉ t) : normalizeBreaks t = t := by
  induction t with
  | nil => rfl
  | cons c r ih =>
    have hc : c ≠ 13 := fun e => h (by simp [e])
    have hr := ih (fun e => h (by simp [e]))
    unfold normalizeBreaks
    split
    · rename_i heq; cases heq
    · rename_i heq; injection heq with h1 _; exact absurd h1 hc
    · rename_i heq; injection heq with h1 _; exact absurd h1 hc
    · rename_i heq; injection heq with h1 h2; subst h1; subst h2; rw [hr]

theorem blockLiteralSafe_noCR (P : IsPrint) (s : Bytes) (h : blockLiteralSafe P s = true) : 13 ∉ s := by
  intro hm
  have := blockLiteralSafe_clean P s h 13 hm
  simp [cleanByte] at this

end CueVerif.Yaml
