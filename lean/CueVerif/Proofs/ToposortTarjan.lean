/-
C02 — Tarjan's algorithm as transcribed in Model/Toposort.lean (`findSCC`/`visitOut`/`tarjan`,
scc.go) computes the strongly connected components of every well-formed graph, in reverse
completion order (= topological order of the condensation).

  T1 `tarjan_partition`            the components partition the node set
  T2 `tarjan_strongly_connected`   every component is strongly connected
  T3 `tarjan_reverse_topological`  no edge from a later component of the list to an earlier one
  T4 `tarjan_isSCC`                `IsSCC g (tarjan g)` (T1 + T2 + maximality, from T3)

Proof: a state invariant `Inv`, a postcondition `FP` of `findSCC`, a loop invariant `VIm` of
`visitOut`, one lemma per step of the algorithm (`VI_push`, `VI_on`, `VI_off`, `VI_call`,
`VI_finish`), and `main`: induction on the fuel, which is never exhausted because it starts
above the measure `mu` (1 + out-degree per unvisited node).  Core Lean only.  Everything but
T1–T4 lives in the namespace `CueVerif.Toposort.Tarjan`.
-/
import CueVerif.Proofs.Toposort
namespace CueVerif.Toposort
namespace Tarjan

/-! ### association lists -/

theorem look_cons (a : Label) (n : Nat) (m : List (Label × Nat)) (v : Label) :
    look ((a, n) :: m) v = if a = v then some n else look m v := by
  simp [look, List.find?_cons]
  split <;> simp_all

/-- index of a node (0 when not visited) -/
def idxOf (s : TS) (v : Label) : Nat := (look s.index v).getD 0
/-- low link of a node (0 when not set) -/
def lowOf (s : TS) (v : Label) : Nat := (look s.low v).getD 0

theorem popUntil_append (cur : Label) (X st : List Label) (h : cur ∉ X) :
    popUntil cur (X ++ cur :: st) = (X ++ [cur], st) := by
  induction X with
  | nil => simp [popUntil]
  | cons x X ih =>
    have hx : x ≠ cur := by intro e; apply h; simp [e]
    have h' : cur ∉ X := fun hm => h (List.mem_cons_of_mem _ hm)
    simp [popUntil, hx, ih h']

/-! ### the steps of the algorithm as state transformers -/

def push (s : TS) (cur : Label) : TS :=
  { counter := s.counter + 1, index := (cur, s.counter) :: s.index, low := (cur, s.counter) :: s.low,
    stack := cur :: s.stack, onStack := cur :: s.onStack, comps := s.comps }

def popSt (s : TS) (cur : Label) : TS :=
  { s with stack := (popUntil cur s.stack).2,
           onStack := s.onStack.filter (fun v => !(popUntil cur s.stack).1.contains v),
           comps := s.comps ++ [(popUntil cur s.stack).1] }

def finish (s : TS) (cur : Label) (num : Nat) : TS :=
  if (look s.low cur).getD num = num then popSt s cur else s

theorem findSCC_succ (g : Graph) (fuel : Nat) (cur : Label) (s : TS) :
    findSCC g (fuel + 1) cur s = finish (visitOut g fuel cur (g.out cur) (push s cur)) cur s.counter := by
  rfl

theorem visitOut_nil (g : Graph) (fuel : Nat) (cur : Label) (s : TS) :
    visitOut g fuel cur [] s = s := by
  cases fuel <;> rfl

theorem visitOut_cons_none (g : Graph) (fuel : Nat) (cur nx : Label) (rest : List Label) (s : TS)
    (h : look s.index nx = none) :
    visitOut g (fuel + 1) cur (nx :: rest) s =
      visitOut g fuel cur rest
        (setLow (findSCC g fuel nx s) cur
          (min (lowOf (findSCC g fuel nx s) cur) (lowOf (findSCC g fuel nx s) nx))) := by
  simp only [visitOut, h, lowOf]

theorem visitOut_cons_on (g : Graph) (fuel : Nat) (cur nx : Label) (rest : List Label) (s : TS) (i : Nat)
    (h : look s.index nx = some i) (ho : nx ∈ s.onStack) :
    visitOut g (fuel + 1) cur (nx :: rest) s =
      visitOut g fuel cur rest (setLow s cur (min (lowOf s cur) i)) := by
  simp [visitOut, h, lowOf, ho]

theorem visitOut_cons_off (g : Graph) (fuel : Nat) (cur nx : Label) (rest : List Label) (s : TS) (i : Nat)
    (h : look s.index nx = some i) (ho : nx ∉ s.onStack) :
    visitOut g (fuel + 1) cur (nx :: rest) s = visitOut g fuel cur rest s := by
  simp [visitOut, h, ho]

theorem reach_trans {g : Graph} {u v w : Label} (h1 : Reach g u v) (h2 : Reach g v w) : Reach g u w := by
  induction h1 with
  | refl => exact h2
  | step e _ ih => exact .step e (ih h2)

theorem reach_edge {g : Graph} {u v : Label} (h : v ∈ g.out u) : Reach g u v := .step h (.refl _)

/-- reverse topological order of a list of components, newest first: every edge out of a
component ends in the component or in an older one -/
def TopoRev (g : Graph) : List Comp → Prop
  | [] => True
  | c :: older => (∀ u ∈ c, ∀ v ∈ g.out u, v ∈ c ∨ v ∈ older.flatten) ∧ TopoRev g older

/-- the state invariant -/
structure Inv (g : Graph) (s : TS) : Prop where
  nodupAll : (s.comps.flatten ++ s.stack).Nodup
  vis_iff : ∀ v, look s.index v ≠ none ↔ (v ∈ s.comps.flatten ∨ v ∈ s.stack)
  in_nodes : ∀ v, look s.index v ≠ none → v ∈ g.nodes
  nonempty : ∀ c ∈ s.comps, c ≠ []
  onStack_iff : ∀ v, v ∈ s.onStack ↔ v ∈ s.stack
  idx_lt : ∀ v ∈ s.stack, idxOf s v < s.counter
  sorted : s.stack.Pairwise (fun a b => idxOf s b < idxOf s a)
  lowlink : ∀ v ∈ s.stack, ∃ w ∈ s.stack, look s.low v = some (idxOf s w) ∧ idxOf s w ≤ idxOf s v ∧ Reach g v w
  sc : ∀ c ∈ s.comps, ∀ u ∈ c, ∀ v ∈ c, Reach g u v
  topo : TopoRev g s.comps.reverse

/-- what a call leaves alone -/
structure Ext (s out : TS) : Prop where
  index : ∀ v, look s.index v ≠ none → look out.index v = look s.index v
  comps : ∃ n, out.comps = s.comps ++ n
  counter : s.counter ≤ out.counter

theorem Ext.refl (s : TS) : Ext s s := ⟨fun _ _ => rfl, ⟨[], by simp⟩, Nat.le_refl _⟩

theorem Ext.trans {a b c : TS} (h1 : Ext a b) (h2 : Ext b c) : Ext a c := by
  refine ⟨?_, ?_, Nat.le_trans h1.counter h2.counter⟩
  · intro v hv
    have e1 := h1.index v hv
    have : look b.index v ≠ none := by rw [e1]; exact hv
    rw [h2.index v this, e1]
  · obtain ⟨n1, e1⟩ := h1.comps
    obtain ⟨n2, e2⟩ := h2.comps
    exact ⟨n1 ++ n2, by rw [e2, e1, List.append_assoc]⟩

theorem Ext.vis {a b : TS} (h : Ext a b) {v : Label} (hv : look a.index v ≠ none) : look b.index v ≠ none := by
  rw [h.index v hv]; exact hv

theorem Ext.idx {a b : TS} (h : Ext a b) {v : Label} (hv : look a.index v ≠ none) : idxOf b v = idxOf a v := by
  unfold idxOf; rw [h.index v hv]

theorem Ext.mem_comps {a b : TS} (h : Ext a b) {v : Label} (hv : v ∈ a.comps.flatten) : v ∈ b.comps.flatten := by
  obtain ⟨n, e⟩ := h.comps
  rw [e]; simp only [List.flatten_append, List.mem_append]; exact Or.inl hv

/-- a finished node on the stack -/
def FinA (g : Graph) (s : TS) (v : Label) : Prop :=
  lowOf s v < idxOf s v ∧ ∀ u ∈ g.out v, u ∈ s.comps.flatten ∨ (u ∈ s.stack ∧ lowOf s v ≤ idxOf s u)

def FinB (g : Graph) (s : TS) (m : Nat) (root v : Label) : Prop := m ≤ lowOf s v ∧ Reach g root v

/-- postcondition of `findSCC g fuel cur s` -/
structure FP (g : Graph) (s : TS) (cur : Label) (out : TS) : Prop where
  inv : Inv g out
  ext : Ext s out
  lowframe : ∀ v, look s.index v ≠ none → look out.low v = look s.low v
  viscur : look out.index cur ≠ none
  cases : (out.stack = s.stack ∧ s.counter ≤ lowOf out cur) ∨
     (∃ X, out.stack = X ++ cur :: s.stack ∧ ∀ v ∈ X ++ [cur], FinA g out v ∧ FinB g out (lowOf out cur) cur v)

/-- invariant of the loop over the successors of `cur` (`s0`: the state `findSCC` was entered
in; `m`: a bound that the low link of `cur` is about to be lowered to) -/
structure VIm (g : Graph) (s0 : TS) (cur : Label) (rest : List Label) (m : Nat) (s : TS) : Prop where
  inv : Inv g s
  ext : Ext s0 s
  lowframe : ∀ v, look s0.index v ≠ none → look s.low v = look s0.low v
  new : look s0.index cur = none
  idxcur : look s.index cur = some s0.counter
  stk : ∃ X, s.stack = X ++ cur :: s0.stack ∧ ∀ v ∈ X, FinA g s v ∧ FinB g s m cur v
  succ : ∀ u ∈ g.out cur, u ∈ rest ∨ u ∈ s.comps.flatten ∨ (u ∈ s.stack ∧ m ≤ idxOf s u)
  sub : ∀ u ∈ rest, u ∈ g.out cur
  mle : m ≤ lowOf s cur

abbrev VI (g : Graph) (s0 : TS) (cur : Label) (rest : List Label) (s : TS) : Prop :=
  VIm g s0 cur rest (lowOf s cur) s

theorem Inv.low {g : Graph} {s : TS} (h : Inv g s) {v : Label} (hv : v ∈ s.stack) :
    ∃ w ∈ s.stack, lowOf s v = idxOf s w ∧ look s.low v = some (lowOf s v) ∧ idxOf s w ≤ idxOf s v ∧ Reach g v w := by
  obtain ⟨w, hw, e, le, r⟩ := h.lowlink v hv
  refine ⟨w, hw, ?_, ?_, le, r⟩ <;> simp [lowOf, e]

theorem Inv.low_le {g : Graph} {s : TS} (h : Inv g s) {v : Label} (hv : v ∈ s.stack) : lowOf s v ≤ idxOf s v := by
  obtain ⟨w, _, e, _, le, _⟩ := h.low hv
  omega

theorem Inv.vis_stack {g : Graph} {s : TS} (h : Inv g s) {v : Label} (hv : v ∈ s.stack) : look s.index v ≠ none :=
  (h.vis_iff v).2 (Or.inr hv)

/-- position in a sorted stack -/
theorem sorted_split {s : TS} {X st : List Label} {cur : Label}
    (h : (X ++ cur :: st).Pairwise (fun a b => idxOf s b < idxOf s a)) :
    (∀ v ∈ X, idxOf s cur < idxOf s v) ∧ (∀ v ∈ st, idxOf s v < idxOf s cur) ∧
    (∀ v ∈ X, ∀ w ∈ st, idxOf s w < idxOf s v) := by
  rw [List.pairwise_append] at h
  obtain ⟨_, h2, h3⟩ := h
  rw [List.pairwise_cons] at h2
  refine ⟨fun v hv => h3 v hv cur (by simp), fun v hv => h2.1 v hv, fun v hv w hw => h3 v hv w (by simp [hw])⟩

theorem idxOf_push (s : TS) (cur v : Label) : idxOf (push s cur) v = if cur = v then s.counter else idxOf s v := by
  simp only [idxOf, push, look_cons]; split <;> simp

theorem lowOf_push (s : TS) (cur v : Label) : lowOf (push s cur) v = if cur = v then s.counter else lowOf s v := by
  simp only [lowOf, push, look_cons]; split <;> simp

theorem lowOf_setLow (s : TS) (cur v : Label) (m : Nat) : lowOf (setLow s cur m) v = if cur = v then m else lowOf s v := by
  simp only [lowOf, setLow, look_cons]; split <;> simp

theorem idxOf_setLow (s : TS) (cur v : Label) (m : Nat) : idxOf (setLow s cur m) v = idxOf s v := rfl

theorem Inv_push {g : Graph} {s : TS} {cur : Label} (h : Inv g s) (hn : look s.index cur = none)
    (hc : cur ∈ g.nodes) : Inv g (push s cur) := by
  have hnot : cur ∉ s.comps.flatten ∧ cur ∉ s.stack := by
    constructor <;> intro hm
    · exact (h.vis_iff cur).2 (Or.inl hm) hn
    · exact (h.vis_iff cur).2 (Or.inr hm) hn
  have hidx : ∀ v ∈ s.stack, idxOf (push s cur) v = idxOf s v := by
    intro v hv; rw [idxOf_push]; split
    · subst_vars; exact absurd hv hnot.2
    · rfl
  have hidc : idxOf (push s cur) cur = s.counter := by rw [idxOf_push]; simp
  refine ⟨?_, ?_, ?_, h.nonempty, ?_, ?_, ?_, ?_, h.sc, h.topo⟩
  · show (s.comps.flatten ++ cur :: s.stack).Nodup
    rw [List.perm_middle.nodup_iff, List.nodup_cons]
    exact ⟨by simp [hnot.1, hnot.2], h.nodupAll⟩
  · intro v
    show look ((cur, s.counter) :: s.index) v ≠ none ↔ (v ∈ s.comps.flatten ∨ v ∈ cur :: s.stack)
    rw [look_cons]
    have := h.vis_iff v
    by_cases e : cur = v
    · simp [e]
    · simp only [e, if_false, List.mem_cons]; rw [this]
      constructor
      · rintro (a | a); exact Or.inl a; exact Or.inr (Or.inr a)
      · rintro (a | a | a); exact Or.inl a; exact absurd a.symm e; exact Or.inr a
  · intro v
    show look ((cur, s.counter) :: s.index) v ≠ none → _
    rw [look_cons]
    by_cases e : cur = v
    · subst e; intro _; exact hc
    · simp only [e, if_false]; exact h.in_nodes v
  · intro v
    show v ∈ cur :: s.onStack ↔ v ∈ cur :: s.stack
    simp only [List.mem_cons, h.onStack_iff]
  · intro v hv
    show idxOf (push s cur) v < s.counter + 1
    rcases List.mem_cons.1 hv with e | hv
    · rw [e, hidc]; omega
    · rw [hidx v hv]; have := h.idx_lt v hv; omega
  · show (cur :: s.stack).Pairwise _
    rw [List.pairwise_cons]
    refine ⟨fun v hv => ?_, h.sorted.imp_of_mem ?_⟩
    · rw [hidc, hidx v hv]; exact h.idx_lt v hv
    · intro a b ha hb hab; rw [hidx a ha, hidx b hb]; exact hab
  · intro v hv
    rcases List.mem_cons.1 hv with e | hv
    · subst e
      refine ⟨v, List.mem_cons_self, ?_, Nat.le_refl _, .refl _⟩
      show look ((v, s.counter) :: s.low) v = _
      rw [look_cons, hidc]; simp
    · obtain ⟨w, hw, e, le, r⟩ := h.lowlink v hv
      refine ⟨w, List.mem_cons_of_mem _ hw, ?_, ?_, r⟩
      · show look ((cur, s.counter) :: s.low) v = _
        rw [look_cons, hidx w hw]
        have : cur ≠ v := by intro e; subst e; exact hnot.2 hv
        simp [this, e]
      · rw [hidx w hw, hidx v hv]; exact le

theorem Ext_push (s : TS) (cur : Label) (hn : look s.index cur = none) : Ext s (push s cur) := by
  refine ⟨?_, ⟨[], by simp [push]⟩, by simp [push]⟩
  intro v hv
  show look ((cur, s.counter) :: s.index) v = _
  rw [look_cons]
  have : cur ≠ v := by intro e; subst e; exact hv hn
  simp [this]

theorem VI_push {g : Graph} {s : TS} {cur : Label} (h : Inv g s) (hn : look s.index cur = none)
    (hc : cur ∈ g.nodes) : VI g s cur (g.out cur) (push s cur) := by
  refine ⟨Inv_push h hn hc, Ext_push s cur hn, ?_, hn, ?_, ⟨[], rfl, by simp⟩, fun u hu => Or.inl hu, fun u hu => hu, Nat.le_refl _⟩
  · intro v hv
    show look ((cur, s.counter) :: s.low) v = _
    rw [look_cons]
    have : cur ≠ v := by intro e; subst e; exact hv hn
    simp [this]
  · show look ((cur, s.counter) :: s.index) cur = _
    rw [look_cons]; simp

/-- lowering the low link of a stack node to the index of a reachable stack node -/
theorem Inv_setLow {g : Graph} {s : TS} {cur : Label} {m : Nat} (h : Inv g s)
    (hm : ∃ w ∈ s.stack, m = idxOf s w ∧ idxOf s w ≤ idxOf s cur ∧ Reach g cur w) : Inv g (setLow s cur m) := by
  refine ⟨h.nodupAll, h.vis_iff, h.in_nodes, h.nonempty, h.onStack_iff, h.idx_lt, h.sorted, ?_, h.sc, h.topo⟩
  intro v hv
  by_cases e : cur = v
  · subst e
    obtain ⟨w, hw, e, le, r⟩ := hm
    refine ⟨w, hw, ?_, le, r⟩
    show look ((cur, m) :: s.low) cur = _
    rw [look_cons, e]; simp; rfl
  · obtain ⟨w, hw, e', le, r⟩ := h.lowlink v hv
    refine ⟨w, hw, ?_, le, r⟩
    show look ((cur, m) :: s.low) v = _
    rw [look_cons]; simp [e, e']; rfl

theorem nodup_split {X st : List Label} {c : Label} (h : (X ++ c :: st).Nodup) :
    c ∉ X ∧ c ∉ st ∧ ∀ v ∈ X, v ∉ st := by
  rw [List.perm_middle.nodup_iff, List.nodup_cons, List.nodup_append] at h
  refine ⟨fun hc => h.1 (List.mem_append_left _ hc), fun hc => h.1 (List.mem_append_right _ hc), ?_⟩
  intro v hv hv'
  exact h.2.2.2 v hv v hv' rfl

theorem Inv.stack_nodup {g : Graph} {s : TS} (h : Inv g s) : s.stack.Nodup :=
  (List.nodup_append.1 h.nodupAll).2.1

theorem VIm.cur_mem {g : Graph} {s0 s : TS} {cur : Label} {rest : List Label} {m : Nat}
    (h : VIm g s0 cur rest m s) : cur ∈ s.stack := by
  obtain ⟨X, e, _⟩ := h.stk; rw [e]; simp

theorem VIm.idxOf_cur {g : Graph} {s0 s : TS} {cur : Label} {rest : List Label} {m : Nat}
    (h : VIm g s0 cur rest m s) : idxOf s cur = s0.counter := by simp [idxOf, h.idxcur]

theorem VIm.weaken {g : Graph} {s0 s : TS} {cur : Label} {pend rest : List Label} {m m' : Nat}
    (h : VIm g s0 cur pend m s) (hm : m' ≤ m)
    (hs : ∀ u ∈ pend, u ∈ rest ∨ u ∈ s.comps.flatten ∨ (u ∈ s.stack ∧ m' ≤ idxOf s u))
    (hr : ∀ u ∈ rest, u ∈ g.out cur) : VIm g s0 cur rest m' s := by
  refine ⟨h.inv, h.ext, h.lowframe, h.new, h.idxcur, ?_, ?_, hr, Nat.le_trans hm h.mle⟩
  · obtain ⟨X, e, hX⟩ := h.stk
    exact ⟨X, e, fun v hv => ⟨(hX v hv).1, Nat.le_trans hm (hX v hv).2.1, (hX v hv).2.2⟩⟩
  · intro u hu
    rcases h.succ u hu with a | a | ⟨a, b⟩
    · exact hs u a
    · exact Or.inr (Or.inl a)
    · exact Or.inr (Or.inr ⟨a, Nat.le_trans hm b⟩)

theorem FinA_setLow {g : Graph} {s : TS} {cur v : Label} {m : Nat} (h : cur ≠ v) :
    FinA g (setLow s cur m) v ↔ FinA g s v := by
  simp only [FinA, lowOf_setLow, idxOf_setLow, if_neg h]
  exact Iff.rfl

theorem VIm.lower {g : Graph} {s0 s : TS} {cur : Label} {rest : List Label} {m : Nat}
    (h : VIm g s0 cur rest m s)
    (hm : ∃ w ∈ s.stack, m = idxOf s w ∧ idxOf s w ≤ idxOf s cur ∧ Reach g cur w) :
    VI g s0 cur rest (setLow s cur m) := by
  have hlc : lowOf (setLow s cur m) cur = m := by rw [lowOf_setLow]; simp
  obtain ⟨X, e, hX⟩ := h.stk
  have hne : ∀ v ∈ X, cur ≠ v := by
    intro v hv e'; subst e'
    have := h.inv.stack_nodup; rw [e] at this
    exact (nodup_split this).1 hv
  show VIm g s0 cur rest (lowOf (setLow s cur m) cur) (setLow s cur m)
  rw [hlc]
  refine ⟨Inv_setLow h.inv hm, ⟨h.ext.index, h.ext.comps, h.ext.counter⟩, ?_, h.new, h.idxcur, ⟨X, e, ?_⟩, ?_, h.sub,
    by rw [hlc]; exact Nat.le_refl _⟩
  · intro v hv
    show look ((cur, m) :: s.low) v = _
    rw [look_cons]
    have : cur ≠ v := by intro e; subst e; exact hv h.new
    simp only [this, if_false]; exact h.lowframe v hv
  · intro v hv
    refine ⟨(FinA_setLow (hne v hv)).2 (hX v hv).1, ?_, (hX v hv).2.2⟩
    rw [lowOf_setLow, if_neg (hne v hv)]; exact (hX v hv).2.1
  · exact h.succ

theorem min_cases (a b : Nat) : min a b = a ∨ (min a b = b ∧ b < a) := by omega

theorem VI_off {g : Graph} {s0 s : TS} {cur nx : Label} {rest : List Label}
    (h : VI g s0 cur (nx :: rest) s) (hv : look s.index nx ≠ none) (ho : nx ∉ s.onStack) :
    VI g s0 cur rest s := by
  refine VIm.weaken h (Nat.le_refl _) ?_ (fun u hu => h.sub u (List.mem_cons_of_mem _ hu))
  intro u hu
  rcases List.mem_cons.1 hu with e | hu
  · subst e
    rcases (h.inv.vis_iff u).1 hv with a | a
    · exact Or.inr (Or.inl a)
    · exact absurd ((h.inv.onStack_iff u).2 a) ho
  · exact Or.inl hu

theorem VI_on {g : Graph} {s0 s : TS} {cur nx : Label} {rest : List Label} {i : Nat}
    (h : VI g s0 cur (nx :: rest) s) (hv : look s.index nx = some i) (ho : nx ∈ s.onStack) :
    VI g s0 cur rest (setLow s cur (min (lowOf s cur) i)) := by
  have hi : idxOf s nx = i := by simp [idxOf, hv]
  have hst : nx ∈ s.stack := (h.inv.onStack_iff nx).1 ho
  have hedge : nx ∈ g.out cur := h.sub nx List.mem_cons_self
  have hw : VIm g s0 cur rest (min (lowOf s cur) i) s := by
    refine VIm.weaken h (Nat.min_le_left _ _) ?_ (fun u hu => h.sub u (List.mem_cons_of_mem _ hu))
    intro u hu
    rcases List.mem_cons.1 hu with e | hu
    · subst e; exact Or.inr (Or.inr ⟨hst, by rw [hi]; exact Nat.min_le_right _ _⟩)
    · exact Or.inl hu
  refine hw.lower ?_
  rcases min_cases (lowOf s cur) i with e | ⟨e, lt⟩
  · obtain ⟨w, hw, e1, _, le, r⟩ := h.inv.low h.cur_mem
    exact ⟨w, hw, by rw [e, e1], le, r⟩
  · refine ⟨nx, hst, by rw [e, hi], ?_, reach_edge hedge⟩
    have := h.inv.low_le h.cur_mem
    omega

theorem lowOf_frame {s out : TS} (hl : ∀ v, look s.index v ≠ none → look out.low v = look s.low v)
    {v : Label} (hv : look s.index v ≠ none) : lowOf out v = lowOf s v := by
  unfold lowOf; rw [hl v hv]

theorem FinA_mono {g : Graph} {s out : TS} {v : Label} (hi : Inv g s) (he : Ext s out)
    (hl : ∀ v, look s.index v ≠ none → look out.low v = look s.low v)
    (hst : ∀ u ∈ s.stack, u ∈ out.stack) (hv : look s.index v ≠ none) (h : FinA g s v) : FinA g out v := by
  unfold FinA
  rw [lowOf_frame hl hv, he.idx hv]
  refine ⟨h.1, fun u hu => ?_⟩
  rcases h.2 u hu with a | ⟨a, b⟩
  · exact Or.inl (he.mem_comps a)
  · exact Or.inr ⟨hst u a, by rw [he.idx (hi.vis_stack a)]; exact b⟩

theorem VI_call {g : Graph} {s0 s out : TS} {cur nx : Label} {rest : List Label}
    (h : VI g s0 cur (nx :: rest) s) (hn : look s.index nx = none) (hp : FP g s nx out) :
    VIm g s0 cur rest (min (lowOf out cur) (lowOf out nx)) out ∧
      ∃ w ∈ out.stack, min (lowOf out cur) (lowOf out nx) = idxOf out w ∧ idxOf out w ≤ idxOf out cur ∧ Reach g cur w := by
  have hcs : cur ∈ s.stack := h.cur_mem
  have hvc : look s.index cur ≠ none := h.inv.vis_stack hcs
  have hlc : lowOf out cur = lowOf s cur := lowOf_frame hp.lowframe hvc
  have hic : idxOf out cur = idxOf s cur := hp.ext.idx hvc
  have hedge : nx ∈ g.out cur := h.sub nx List.mem_cons_self
  have hnst : nx ∉ s.stack := fun hm => h.inv.vis_stack hm hn
  obtain ⟨X, e, hX⟩ := h.stk
  have hlow_le : lowOf s cur ≤ idxOf s cur := h.inv.low_le hcs
  have hidx_lt : idxOf s cur < s.counter := h.inv.idx_lt cur hcs
  generalize hm : min (lowOf out cur) (lowOf out nx) = m
  have hm1 : m ≤ lowOf out cur := by omega
  have hm2 : m ≤ lowOf out nx := by omega
  -- the common shape of the two outcomes
  have key : ∃ Y, out.stack = Y ++ s.stack ∧
      (∀ v ∈ Y, FinA g out v ∧ lowOf out nx ≤ lowOf out v ∧ Reach g nx v) ∧
      (nx ∈ out.comps.flatten ∨ (nx ∈ out.stack ∧ m ≤ idxOf out nx)) ∧
      (m = lowOf out cur ∨ (nx ∈ out.stack ∧ m = lowOf out nx ∧ m < lowOf out cur)) := by
    rcases hp.cases with ⟨est, hle⟩ | ⟨Xn, est, hXn⟩
    · refine ⟨[], by simp [est], by simp, Or.inl ?_, Or.inl (by omega)⟩
      rcases (hp.inv.vis_iff nx).1 hp.viscur with a | a
      · exact a
      · rw [est] at a; exact absurd a hnst
    · have hnx : nx ∈ out.stack := by rw [est]; simp
      refine ⟨Xn ++ [nx], by simp [est], ?_, Or.inr ⟨hnx, ?_⟩, ?_⟩
      · intro v hv; exact ⟨(hXn v hv).1, (hXn v hv).2.1, (hXn v hv).2.2⟩
      · have := (hXn nx (by simp)).1.1; omega
      · rcases min_cases (lowOf out cur) (lowOf out nx) with e | ⟨e, lt⟩
        · exact Or.inl (by omega)
        · exact Or.inr ⟨hnx, by omega, by omega⟩
  obtain ⟨Y, est, hY, hnxok, hmc⟩ := key
  have hsub : ∀ u ∈ s.stack, u ∈ out.stack := fun u hu => by rw [est]; exact List.mem_append_right _ hu
  constructor
  · refine ⟨hp.inv, h.ext.trans hp.ext, ?_, h.new, ?_, ⟨Y ++ X, by rw [est, e]; simp, ?_⟩, ?_,
      fun u hu => h.sub u (List.mem_cons_of_mem _ hu), hm1⟩
    · intro v hv
      rw [hp.lowframe v (h.ext.vis hv)]; exact h.lowframe v hv
    · rw [hp.ext.index cur hvc]; exact h.idxcur
    · intro v hv
      rcases List.mem_append.1 hv with hv | hv
      · obtain ⟨a, b, c⟩ := hY v hv
        exact ⟨a, Nat.le_trans hm2 b, reach_trans (reach_edge hedge) c⟩
      · have hvs : v ∈ s.stack := by rw [e]; exact List.mem_append_left _ hv
        have hvv := h.inv.vis_stack hvs
        obtain ⟨a, b, c⟩ := hX v hv
        refine ⟨FinA_mono h.inv hp.ext hp.lowframe hsub hvv a, ?_, c⟩
        show m ≤ lowOf out v
        rw [lowOf_frame hp.lowframe hvv]; omega
    · intro u hu
      rcases h.succ u hu with a | a | ⟨a, b⟩
      · rcases List.mem_cons.1 a with e | a
        · subst e; exact Or.inr hnxok
        · exact Or.inl a
      · exact Or.inr (Or.inl (hp.ext.mem_comps a))
      · refine Or.inr (Or.inr ⟨hsub u a, ?_⟩)
        rw [hp.ext.idx (h.inv.vis_stack a)]; omega
  · rcases hmc with e1 | ⟨hnx, e1, lt⟩
    · obtain ⟨w, hw, e2, _, le, r⟩ := hp.inv.low (hsub cur hcs)
      exact ⟨w, hw, by omega, le, r⟩
    · obtain ⟨w, hw, e2, _, le, r⟩ := hp.inv.low hnx
      refine ⟨w, hw, by omega, by omega, reach_trans (reach_edge hedge) r⟩

/-- a stack node whose index is at least that of `cur` sits in the part above `cur` -/
theorem mem_top_of_le {s : TS} {X st : List Label} {cur w : Label}
    (hs : (X ++ cur :: st).Pairwise (fun a b => idxOf s b < idxOf s a))
    (hw : w ∈ X ++ cur :: st) (hle : idxOf s cur ≤ idxOf s w) : w ∈ X ++ [cur] := by
  obtain ⟨_, h2, _⟩ := sorted_split hs
  rcases List.mem_append.1 hw with a | a
  · exact List.mem_append_left _ a
  · rcases List.mem_cons.1 a with a | a
    · simp [a]
    · have := h2 w a; omega

theorem reach_root {g : Graph} {s : TS} {X st : List Label} {cur : Label} (hinv : Inv g s)
    (e : s.stack = X ++ cur :: st) (hl : lowOf s cur = idxOf s cur)
    (hX : ∀ v ∈ X, FinA g s v ∧ FinB g s (lowOf s cur) cur v) :
    ∀ n, ∀ u ∈ X ++ [cur], idxOf s u ≤ n → Reach g u cur := by
  have hs := hinv.sorted; rw [e] at hs
  intro n
  induction n with
  | zero =>
    intro u hu hn
    rcases List.mem_append.1 hu with a | a
    · have := (hX u a).1.1; omega
    · have : u = cur := by simpa using a
      rw [this]; exact .refl _
  | succ n ih =>
    intro u hu hn
    rcases List.mem_append.1 hu with a | a
    · have h1 := (hX u a).1.1
      have h2 := (hX u a).2.1
      have hus : u ∈ s.stack := by rw [e]; exact List.mem_append_left _ a
      obtain ⟨w, hw, e1, _, _, r⟩ := hinv.low hus
      rw [e] at hw
      have hwP := mem_top_of_le hs hw (by omega)
      exact reach_trans r (ih w hwP (by omega))
    · have : u = cur := by simpa using a
      rw [this]; exact .refl _

theorem mem_flatten_reverse {l : List Comp} {v : Label} : v ∈ l.reverse.flatten ↔ v ∈ l.flatten := by
  simp [List.mem_flatten]

theorem VI_finish {g : Graph} {s0 s : TS} {cur : Label} (h : VI g s0 cur [] s) :
    FP g s0 cur (finish s cur s0.counter) := by
  obtain ⟨X, e, hX⟩ := h.stk
  have hcs : cur ∈ s.stack := h.cur_mem
  have hic : idxOf s cur = s0.counter := h.idxOf_cur
  have hvis : look s.index cur ≠ none := by rw [h.idxcur]; simp
  obtain ⟨_, _, _, hls, hle, _⟩ := h.inv.low hcs
  have hle : lowOf s cur ≤ idxOf s cur := h.inv.low_le hcs
  have hsucc : ∀ u ∈ g.out cur, u ∈ s.comps.flatten ∨ (u ∈ s.stack ∧ lowOf s cur ≤ idxOf s u) := by
    intro u hu
    rcases h.succ u hu with a | a
    · cases a
    · exact a
  unfold finish
  rw [hls, Option.getD_some]
  by_cases ht : lowOf s cur = s0.counter
  · rw [if_pos ht]
    have hnd := h.inv.stack_nodup; rw [e] at hnd
    obtain ⟨hn1, hn2, hn3⟩ := nodup_split hnd
    have hs := h.inv.sorted; rw [e] at hs
    obtain ⟨hs1, hs2, hs3⟩ := sorted_split hs
    have hout : popSt s cur = { s with stack := s0.stack, onStack := s.onStack.filter (fun v => !List.contains (X ++ [cur]) v), comps := s.comps ++ [X ++ [cur]] } := by
      simp only [popSt, e, popUntil_append cur X s0.stack hn1]
    rw [hout]
    have hsub : ∀ v ∈ s0.stack, v ∈ s.stack := fun v hv => by rw [e]; simp [hv]
    have hlc : lowOf s cur = idxOf s cur := by omega
    -- successors of a popped node are in a component or popped
    have hclosed : ∀ u ∈ X ++ [cur], ∀ v ∈ g.out u, v ∈ X ++ [cur] ∨ v ∈ s.comps.flatten := by
      intro u hu v hv
      have : v ∈ s.comps.flatten ∨ (v ∈ s.stack ∧ idxOf s cur ≤ idxOf s v) := by
        rcases List.mem_append.1 hu with a | a
        · have h2 := (hX u a).2.1
          rcases (hX u a).1.2 v hv with b | ⟨b, c⟩
          · exact Or.inl b
          · exact Or.inr ⟨b, by omega⟩
        · have : u = cur := by simpa using a
          subst this
          rcases hsucc v hv with b | ⟨b, c⟩
          · exact Or.inl b
          · exact Or.inr ⟨b, by omega⟩
      rcases this with b | ⟨b, c⟩
      · exact Or.inr b
      · rw [e] at b; exact Or.inl (mem_top_of_le hs b c)
    refine ⟨⟨?_, ?_, h.inv.in_nodes, ?_, ?_, fun v hv => h.inv.idx_lt v (hsub v hv), ?_, ?_, ?_, ?_⟩,
      ⟨h.ext.index, ?_, h.ext.counter⟩, h.lowframe, hvis, Or.inl ⟨rfl, ?_⟩⟩
    · have : (s.comps ++ [X ++ [cur]]).flatten ++ s0.stack = s.comps.flatten ++ (X ++ cur :: s0.stack) := by simp
      show ((s.comps ++ [X ++ [cur]]).flatten ++ s0.stack).Nodup
      rw [this, ← e]; exact h.inv.nodupAll
    · intro v
      show look s.index v ≠ none ↔ (v ∈ (s.comps ++ [X ++ [cur]]).flatten ∨ v ∈ s0.stack)
      rw [h.inv.vis_iff v, e]
      simp only [List.flatten_append, List.mem_append, List.flatten_cons, List.flatten_nil, List.append_nil,
        List.mem_cons, List.not_mem_nil, or_false]
      constructor
      · rintro (a | a | a | a) <;> simp [a]
      · rintro ((a | a | a) | a) <;> simp [a]
    · intro c hc
      rcases List.mem_append.1 hc with a | a
      · exact h.inv.nonempty c a
      · have : c = X ++ [cur] := by simpa using a
        rw [this]; simp
    · intro v
      show v ∈ s.onStack.filter (fun v => !List.contains (X ++ [cur]) v) ↔ v ∈ s0.stack
      rw [List.mem_filter, h.inv.onStack_iff, e]
      constructor
      · rintro ⟨a, b⟩
        rcases List.mem_append.1 a with a | a
        · simp [a] at b
        · rcases List.mem_cons.1 a with a | a
          · simp [a] at b
          · exact a
      · intro a
        refine ⟨by simp [a], ?_⟩
        have h1 : v ∉ X := fun hv => hn3 v hv a
        have h2 : v ≠ cur := fun hv => hn2 (hv ▸ a)
        simp [h1, h2]
    · exact (List.pairwise_cons.1 (List.pairwise_append.1 hs).2.1).2
    · intro v hv
      obtain ⟨w, hw, e1, le, r⟩ := h.inv.lowlink v (hsub v hv)
      refine ⟨w, ?_, e1, le, r⟩
      have hv2 := hs2 v hv
      rw [e] at hw
      rcases List.mem_append.1 hw with a | a
      · have := hs1 w a; omega
      · rcases List.mem_cons.1 a with a | a
        · rw [a] at le; omega
        · exact a
    · intro c hc u hu v hv
      rcases List.mem_append.1 hc with a | a
      · exact h.inv.sc c a u hu v hv
      · have : c = X ++ [cur] := by simpa using a
        subst this
        refine reach_trans (reach_root h.inv e hlc hX _ u hu (Nat.le_refl _)) ?_
        rcases List.mem_append.1 hv with b | b
        · exact (hX v b).2.2
        · have : v = cur := by simpa using b
          rw [this]; exact .refl _
    · show TopoRev g (s.comps ++ [X ++ [cur]]).reverse
      have : (s.comps ++ [X ++ [cur]]).reverse = (X ++ [cur]) :: s.comps.reverse := by simp
      rw [this]
      refine ⟨fun u hu v hv => ?_, h.inv.topo⟩
      rcases hclosed u hu v hv with a | a
      · exact Or.inl a
      · exact Or.inr (mem_flatten_reverse.2 a)
    · obtain ⟨n, en⟩ := h.ext.comps
      exact ⟨n ++ [X ++ [cur]], by show s.comps ++ _ = _; rw [en, List.append_assoc]⟩
    · show s0.counter ≤ lowOf s cur
      omega
  · rw [if_neg ht]
    refine ⟨h.inv, h.ext, h.lowframe, hvis, Or.inr ⟨X, e, ?_⟩⟩
    intro v hv
    rcases List.mem_append.1 hv with a | a
    · exact hX v a
    · have : v = cur := by simpa using a
      subst this
      exact ⟨⟨by omega, hsucc⟩, Nat.le_refl _, .refl _⟩

/-! ### fuel -/

/-- the work that is left: one unit per unvisited node plus one per edge out of it -/
def mu (g : Graph) (s : TS) : Nat :=
  ((g.nodes.filter (fun v => (look s.index v).isNone)).map (fun v => 1 + (g.out v).length)).sum

theorem sum_filter_le (w : Label → Nat) (p q : Label → Bool) (l : List Label)
    (hpq : ∀ v, q v = true → p v = true) :
    ((l.filter q).map w).sum ≤ ((l.filter p).map w).sum := by
  induction l with
  | nil => simp
  | cons a l ih =>
    simp only [List.filter_cons]
    cases hq : q a
    · cases hp : p a <;> simp <;> omega
    · rw [hpq a hq]; simp; omega

theorem sum_filter_lt (w : Label → Nat) (p q : Label → Bool) (l : List Label)
    (hpq : ∀ v, q v = true → p v = true) (c : Label) (hc : c ∈ l) (hp : p c = true) (hq : q c = false) :
    ((l.filter q).map w).sum + w c ≤ ((l.filter p).map w).sum := by
  induction l with
  | nil => cases hc
  | cons a l ih =>
    simp only [List.filter_cons]
    by_cases e : a = c
    · subst e
      have := sum_filter_le w p q l hpq
      rw [hp, hq]; simp; omega
    · have hc' : c ∈ l := by
        rcases List.mem_cons.1 hc with h | h
        · exact absurd h.symm e
        · exact h
      have := ih hc'
      cases hq' : q a
      · cases hp' : p a <;> simp <;> omega
      · rw [hpq a hq']; simp; omega

theorem mu_mono {g : Graph} {s out : TS} (h : Ext s out) : mu g out ≤ mu g s := by
  unfold mu
  apply sum_filter_le
  intro v hv
  cases e : look s.index v
  · rfl
  · have := h.vis (v := v) (by rw [e]; simp)
    cases e' : look out.index v
    · exact absurd e' this
    · rw [e'] at hv; cases hv

theorem mu_push {g : Graph} {s : TS} {cur : Label} (hn : look s.index cur = none) (hc : cur ∈ g.nodes) :
    mu g (push s cur) + (1 + (g.out cur).length) ≤ mu g s := by
  unfold mu
  apply sum_filter_lt (fun v => 1 + (g.out v).length) _ _ g.nodes _ cur hc
  · simp [hn]
  · show (look ((cur, s.counter) :: s.index) cur).isNone = false
    rw [look_cons]; simp
  · intro v hv
    cases e : look s.index v
    · rfl
    · have := (Ext_push s cur hn).vis (v := v) (by rw [e]; simp)
      cases e' : look (push s cur).index v
      · exact absurd e' this
      · rw [e'] at hv; cases hv

theorem mu_setLow (g : Graph) (s : TS) (c : Label) (m : Nat) : mu g (setLow s c m) = mu g s := rfl

/-! ### the two functions meet their specifications -/

theorem main (g : Graph) (hg : g.WF) : ∀ fuel,
    (∀ cur s, Inv g s → look s.index cur = none → cur ∈ g.nodes → mu g s ≤ fuel →
      FP g s cur (findSCC g fuel cur s)) ∧
    (∀ cur rest s0 s, VI g s0 cur rest s → mu g s + rest.length ≤ fuel →
      VI g s0 cur [] (visitOut g fuel cur rest s)) := by
  intro fuel
  induction fuel with
  | zero =>
    constructor
    · intro cur s _ hn hc hf
      have := mu_push (g := g) hn hc
      omega
    · intro cur rest s0 s h hf
      have : rest = [] := List.eq_nil_of_length_eq_zero (by omega)
      subst this
      rw [visitOut_nil]; exact h
  | succ fuel ih =>
    constructor
    · intro cur s hi hn hc hf
      rw [findSCC_succ]
      have hm := mu_push (g := g) hn hc
      exact VI_finish (ih.2 cur (g.out cur) s (push s cur) (VI_push hi hn hc) (by omega))
    · intro cur rest s0 s h hf
      cases rest with
      | nil => rw [visitOut_nil]; exact h
      | cons nx rest =>
        have hlen : (nx :: rest).length = rest.length + 1 := rfl
        cases hnx : look s.index nx with
        | none =>
          rw [visitOut_cons_none _ _ _ _ _ _ hnx]
          have hcn : cur ∈ g.nodes := h.inv.in_nodes cur (h.inv.vis_stack h.cur_mem)
          have hnn : nx ∈ g.nodes := hg.closed cur hcn nx (h.sub nx List.mem_cons_self)
          have hp := ih.1 nx s h.inv hnx hnn (by omega)
          obtain ⟨hv, hw⟩ := VI_call h hnx hp
          have hmu := mu_mono (g := g) hp.ext
          exact ih.2 cur rest s0 _ (hv.lower hw) (by rw [mu_setLow]; omega)
        | some i =>
          by_cases ho : nx ∈ s.onStack
          · rw [visitOut_cons_on _ _ _ _ _ _ i hnx ho]
            exact ih.2 cur rest s0 _ (VI_on h hnx ho) (by rw [mu_setLow]; omega)
          · rw [visitOut_cons_off _ _ _ _ _ _ i hnx ho]
            exact ih.2 cur rest s0 s (VI_off h (by rw [hnx]; simp) ho) (by omega)

/-! ### the driver -/

theorem sum_map_succ (f : Label → Nat) (l : List Label) :
    (l.map (fun v => 1 + f v)).sum = l.length + (l.map f).sum := by
  induction l with
  | nil => rfl
  | cons a l ih => simp [ih]; omega

theorem mu_le_fuel (g : Graph) (s : TS) : mu g s ≤ tarjanFuel g := by
  have h1 := sum_filter_le (fun v => 1 + (g.out v).length) (fun _ => true)
    (fun v => (look s.index v).isNone) g.nodes (fun _ _ => rfl)
  have h2 := sum_map_succ (fun v => (g.out v).length) g.nodes
  have h3 : g.nodes.filter (fun _ => true) = g.nodes := by simp
  rw [h3] at h1
  unfold mu tarjanFuel
  omega

/-- one iteration of the loop in `StronglyConnectedComponents` -/
def topStep (g : Graph) (s : TS) (v : Label) : TS :=
  if (look s.index v).isNone then findSCC g (tarjanFuel g) v s else s

theorem tarjan_eq (g : Graph) : tarjan g = (g.nodes.foldl (topStep g) ({} : TS)).comps.reverse := rfl

theorem Inv_init (g : Graph) : Inv g ({} : TS) := by
  refine ⟨by simp, ?_, ?_, by simp, by simp, by simp, by simp, by simp, by simp, trivial⟩
  · intro v; simp [look]
  · intro v; simp [look]

theorem top_step {g : Graph} (hg : g.WF) {s : TS} {v : Label} (hi : Inv g s) (hs : s.stack = [])
    (hv : v ∈ g.nodes) :
    Inv g (topStep g s v) ∧ (topStep g s v).stack = [] ∧ Ext s (topStep g s v) ∧
      look (topStep g s v).index v ≠ none := by
  unfold topStep
  cases e : look s.index v with
  | some i => simp only [Option.isNone_some, Bool.false_eq_true, ↓reduceIte]; exact ⟨hi, hs, Ext.refl s, by rw [e]; simp⟩
  | none =>
    simp only [Option.isNone_none, ↓reduceIte]
    have hp := (main g hg (tarjanFuel g)).1 v s hi e hv (mu_le_fuel g s)
    refine ⟨hp.inv, ?_, hp.ext, hp.viscur⟩
    rcases hp.cases with ⟨est, _⟩ | ⟨X, est, hX⟩
    · rw [est, hs]
    · exfalso
      have hvs : v ∈ (findSCC g (tarjanFuel g) v s).stack := by rw [est]; simp
      obtain ⟨w, hw, e1, _, _, _⟩ := hp.inv.low hvs
      have hlt := (hX v (by simp)).1.1
      have hsrt := hp.inv.sorted
      rw [est] at hsrt hw
      obtain ⟨h1, _, _⟩ := sorted_split hsrt
      rw [hs] at hw
      rcases List.mem_append.1 hw with a | a
      · have := h1 w a; omega
      · have : w = v := by simpa using a
        rw [this] at e1; omega

theorem top_fold {g : Graph} (hg : g.WF) : ∀ (l : List Label) (s : TS), (∀ v ∈ l, v ∈ g.nodes) →
    Inv g s → s.stack = [] →
    Inv g (l.foldl (topStep g) s) ∧ (l.foldl (topStep g) s).stack = [] ∧ Ext s (l.foldl (topStep g) s) ∧
      ∀ v ∈ l, look (l.foldl (topStep g) s).index v ≠ none := by
  intro l
  induction l with
  | nil => intro s _ hi hs; exact ⟨hi, hs, Ext.refl s, by simp⟩
  | cons a l ih =>
    intro s hl hi hs
    obtain ⟨h1, h2, h3, h4⟩ := top_step hg hi hs (hl a List.mem_cons_self)
    obtain ⟨k1, k2, k3, k4⟩ := ih (topStep g s a) (fun v hv => hl v (List.mem_cons_of_mem _ hv)) h1 h2
    refine ⟨k1, k2, h3.trans k3, ?_⟩
    intro v hv
    rcases List.mem_cons.1 hv with e | hv
    · rw [e]; exact k3.vis h4
    · exact k4 v hv

/-- the final state -/
theorem final_state {g : Graph} (hg : g.WF) :
    ∃ s : TS, tarjan g = s.comps.reverse ∧ Inv g s ∧ s.stack = [] ∧ ∀ v ∈ g.nodes, look s.index v ≠ none := by
  obtain ⟨h1, h2, _, h4⟩ := top_fold hg g.nodes ({} : TS) (fun _ h => h) (Inv_init g) rfl
  exact ⟨_, tarjan_eq g, h1, h2, h4⟩

/-! ### reverse topological order of the components -/

theorem TopoRev.drop {g : Graph} : ∀ (l1 l : List Comp), TopoRev g (l1 ++ l) → TopoRev g l
  | [], _, h => h
  | _ :: l1, l, h => TopoRev.drop l1 l h.2

theorem tarjan_topoRev (g : Graph) (hg : g.WF) : TopoRev g (tarjan g) := by
  obtain ⟨s, e, hi, _, _⟩ := final_state hg
  rw [e]; exact hi.topo

theorem TopoRev.closed {g : Graph} : ∀ (l : List Comp), TopoRev g l →
    ∀ u ∈ l.flatten, ∀ v ∈ g.out u, v ∈ l.flatten
  | [], _, u, hu, _, _ => by cases hu
  | c :: l, h, u, hu, v, hv => by
    rw [List.flatten_cons, List.mem_append] at hu ⊢
    rcases hu with a | a
    · exact h.1 u a v hv
    · exact Or.inr (TopoRev.closed l h.2 u a v hv)

theorem TopoRev.reach {g : Graph} {l : List Comp} (h : TopoRev g l) {u v : Label} (r : Reach g u v) :
    u ∈ l.flatten → v ∈ l.flatten := by
  induction r with
  | refl => exact id
  | step e _ ih => intro hu; exact ih (TopoRev.closed l h _ hu _ e)

/-- no path leads from a later part of the returned list back to an earlier part -/
theorem no_back {g : Graph} {p q : List Comp} (ht : TopoRev g (p ++ q)) (hnd : (p ++ q).flatten.Nodup)
    {x y : Label} (hx : x ∈ q.flatten) (hy : y ∈ p.flatten) (r : Reach g x y) : False := by
  have := (TopoRev.drop p q ht).reach r hx
  rw [List.flatten_append, List.nodup_append] at hnd
  exact hnd.2.2 y hy y this rfl

end Tarjan
open Tarjan

/-! ### T1: the components partition the node set -/

theorem tarjan_partition (g : Graph) (hg : g.WF) :
    (tarjan g).flatten.Nodup ∧ (∀ c ∈ tarjan g, c ≠ []) ∧ (∀ v, v ∈ g.nodes ↔ ∃ c ∈ tarjan g, v ∈ c) := by
  obtain ⟨s, e, hi, hs, hv⟩ := final_state hg
  rw [e]
  have hnd : s.comps.flatten.Nodup := by
    have := hi.nodupAll; rw [hs, List.append_nil] at this; exact this
  refine ⟨((List.reverse_perm s.comps).flatten.nodup_iff).2 hnd, ?_, ?_⟩
  · intro c hc; exact hi.nonempty c (List.mem_reverse.1 hc)
  · intro v
    constructor
    · intro hm
      rcases (hi.vis_iff v).1 (hv v hm) with a | a
      · obtain ⟨c, hc, hvc⟩ := List.mem_flatten.1 a
        exact ⟨c, List.mem_reverse.2 hc, hvc⟩
      · rw [hs] at a; cases a
    · rintro ⟨c, hc, hvc⟩
      exact hi.in_nodes v ((hi.vis_iff v).2 (Or.inl (List.mem_flatten.2 ⟨c, List.mem_reverse.1 hc, hvc⟩)))

/-! ### T2: every component is strongly connected -/

theorem tarjan_strongly_connected (g : Graph) (hg : g.WF) :
    ∀ c ∈ tarjan g, ∀ u ∈ c, ∀ v ∈ c, Reach g u v ∧ Reach g v u := by
  obtain ⟨s, e, hi, _, _⟩ := final_state hg
  rw [e]
  intro c hc u hu v hv
  have hc' := List.mem_reverse.1 hc
  exact ⟨hi.sc c hc' u hu v hv, hi.sc c hc' v hv u hu⟩

/-! ### T3: the returned list is topologically sorted -/

theorem tarjan_reverse_topological (g : Graph) (hg : g.WF) :
    ∀ l1 c l2 d l3, tarjan g = l1 ++ c :: l2 ++ d :: l3 → ∀ u ∈ d, ∀ v ∈ g.out u, v ∉ c := by
  intro l1 c l2 d l3 e u hu v hv hvc
  have ht := tarjan_topoRev g hg
  have hnd := (tarjan_partition g hg).1
  rw [e] at ht hnd
  have h1 := (TopoRev.drop _ _ ht).1 u hu v hv
  rw [List.flatten_append, List.nodup_append] at hnd
  have hpre : v ∈ (l1 ++ c :: l2).flatten := List.mem_flatten.2 ⟨c, by simp, hvc⟩
  have hsuf : v ∈ (d :: l3).flatten := by
    rw [List.flatten_cons, List.mem_append]; exact h1
  exact hnd.2.2 v hpre v hsuf rfl

/-! ### T4: the components are the strongly connected components -/

theorem tarjan_isSCC (g : Graph) (hg : g.WF) : IsSCC g (tarjan g) := by
  obtain ⟨h1, h2, h3⟩ := tarjan_partition g hg
  refine ⟨h1, h2, h3, ?_⟩
  intro c hc d hd u hu v hv
  constructor
  · intro e; subst e; exact tarjan_strongly_connected g hg c hc u hu v hv
  · rintro ⟨ruv, rvu⟩
    have ht := tarjan_topoRev g hg
    obtain ⟨l1, l2, e⟩ := List.append_of_mem hc
    rw [e] at hd ht h1
    rcases List.mem_append.1 hd with a | a
    · -- `d` strictly before `c`: the path from `u` to `v` goes back
      exfalso
      exact no_back ht h1 (List.mem_flatten.2 ⟨c, by simp, hu⟩) (List.mem_flatten.2 ⟨d, a, hv⟩) ruv
    · rcases List.mem_cons.1 a with a | a
      · exact a.symm
      · -- `d` strictly after `c`: the path from `v` to `u` goes back
        exfalso
        obtain ⟨m1, m2, e2⟩ := List.append_of_mem a
        have e3 : l1 ++ c :: l2 = (l1 ++ c :: m1) ++ d :: m2 := by rw [e2]; simp
        rw [e3] at ht h1
        exact no_back ht h1 (List.mem_flatten.2 ⟨d, by simp, hv⟩) (List.mem_flatten.2 ⟨c, by simp, hu⟩) rvu

namespace Tarjan

/-! ### non-vacuity: a cycle 0 → 1 → 2 → 0 with a tail 2 → 3, and an isolated node 4 -/

def exG : Graph :=
  ⟨[.int 0, .int 1, .int 2, .int 3, .int 4], fun
    | .int 0 => [.int 1]
    | .int 1 => [.int 2]
    | .int 2 => [.int 0, .int 3]
    | _ => []⟩

theorem exG_wf : exG.WF := ⟨by decide, by decide⟩

example : tarjan exG = [[.int 4], [.int 2, .int 1, .int 0], [.int 3]] := by decide

example : (tarjan exG).flatten.Nodup ∧ (∀ c ∈ tarjan exG, c ≠ []) ∧
    (∀ v, v ∈ exG.nodes ↔ ∃ c ∈ tarjan exG, v ∈ c) := tarjan_partition exG exG_wf
example : ∀ c ∈ tarjan exG, ∀ u ∈ c, ∀ v ∈ c, Reach exG u v ∧ Reach exG v u :=
  tarjan_strongly_connected exG exG_wf
/-- the instance `c = {2,1,0}`, `d = {3}` of T3: no edge from `3` into the cycle -/
example : ∀ u ∈ [Label.int 3], ∀ v ∈ exG.out u, v ∉ [Label.int 2, .int 1, .int 0] :=
  tarjan_reverse_topological exG exG_wf [[.int 4]] [.int 2, .int 1, .int 0] [] [.int 3] [] (by decide)
example : IsSCC exG (tarjan exG) := tarjan_isSCC exG exG_wf

end Tarjan
end CueVerif.Toposort
