import CueVerif.Proofs.MvsOps
/-!
`Graph.BuildList`'s result does not depend on the iteration order of the `selected` map:
sorting by path two lists that hold the same entries, with pairwise distinct paths, gives the
same list.
-/
namespace CueVerif.Mvs

/-- strictly increasing paths -/
abbrev StrictByPath (l : List Node) : Prop := l.Pairwise fun a b => a.1 < b.1

theorem strict_unique : ∀ (l1 l2 : List Node), StrictByPath l1 → StrictByPath l2 →
    (∀ n, n ∈ l1 ↔ n ∈ l2) → l1 = l2
  | [], [], _, _, _ => rfl
  | [], b :: bs, _, _, h => by
    have := (h b).mpr List.mem_cons_self
    cases this
  | a :: as, [], _, _, h => by
    have := (h a).mp List.mem_cons_self
    cases this
  | a :: as, b :: bs, h1, h2, h => by
    have h1' := List.pairwise_cons.mp h1
    have h2' := List.pairwise_cons.mp h2
    have hab : a = b := by
      rcases List.mem_cons.mp ((h a).mp List.mem_cons_self) with e | e
      · exact e
      · rcases List.mem_cons.mp ((h b).mpr List.mem_cons_self) with e' | e'
        · exact e'.symm
        · have x1 := h1'.1 b e'
          have x2 := h2'.1 a e
          omega
    subst hab
    have : as = bs := by
      refine strict_unique as bs h1'.2 h2'.2 ?_
      intro n
      constructor
      · intro hn
        rcases List.mem_cons.mp ((h n).mp (List.mem_cons_of_mem _ hn)) with e | e
        · subst e
          have := h1'.1 n hn
          omega
        · exact e
      · intro hn
        rcases List.mem_cons.mp ((h n).mpr (List.mem_cons_of_mem _ hn)) with e | e
        · subst e
          have := h2'.1 n hn
          omega
        · exact e
    rw [this]

theorem insertByPath_strict (x : Node) (l : List Node) (hl : StrictByPath l)
    (hx : ∀ y ∈ l, y.1 ≠ x.1) : StrictByPath (insertByPath x l) := by
  induction l with
  | nil => simp [insertByPath, StrictByPath]
  | cons y ys ih =>
    have hl' := List.pairwise_cons.mp hl
    unfold insertByPath
    split
    · rename_i hle
      have hne := hx y List.mem_cons_self
      have hlt : x.1 < y.1 := by omega
      refine List.pairwise_cons.mpr ⟨?_, hl⟩
      intro z hz
      rcases List.mem_cons.mp hz with e | e
      · subst e; exact hlt
      · have := hl'.1 z e
        omega
    · rename_i hle
      refine List.pairwise_cons.mpr ⟨?_, ih hl'.2 fun z hz => hx z (List.mem_cons_of_mem _ hz)⟩
      intro z hz
      rcases (mem_insertByPath x z ys).mp hz with e | e
      · subst e; omega
      · exact hl'.1 z e

theorem sortByPath_strict (l : List Node) (hp : l.Pairwise fun a b => a.1 ≠ b.1) :
    StrictByPath (sortByPath l) := by
  induction l with
  | nil => simp [sortByPath, StrictByPath]
  | cons x xs ih =>
    have hp' := List.pairwise_cons.mp hp
    show StrictByPath (insertByPath x (sortByPath xs))
    refine insertByPath_strict x _ (ih hp'.2) ?_
    intro y hy
    have := hp'.1 y ((mem_sortByPath y xs).mp hy)
    exact fun e => this e.symm

/-- sorting by path is insensitive to the order of the input -/
theorem sortByPath_order_indep (l1 l2 : List Node)
    (h1 : l1.Pairwise fun a b => a.1 ≠ b.1) (h2 : l2.Pairwise fun a b => a.1 ≠ b.1)
    (h : ∀ n, n ∈ l1 ↔ n ∈ l2) : sortByPath l1 = sortByPath l2 := by
  refine strict_unique _ _ (sortByPath_strict l1 h1) (sortByPath_strict l2 h2) ?_
  intro n
  rw [mem_sortByPath, mem_sortByPath, h]

/-- **`Graph.BuildList` is a function of the graph alone**: two iteration orders of the
`selected` map (same entries, one per path) give the same list. -/
theorem graphBuildList_order_indep (roots : List Node) (sel : Nat → Nat) (e1 e2 : List Node)
    (h1 : e1.Pairwise fun a b => a.1 ≠ b.1) (h2 : e2.Pairwise fun a b => a.1 ≠ b.1)
    (h : ∀ n, n ∈ e1 ↔ n ∈ e2) :
    graphBuildList roots sel e1 = graphBuildList roots sel e2 := by
  unfold graphBuildList
  congr 1
  refine sortByPath_order_indep _ _ (h1.filter _) (h2.filter _) ?_
  intro n
  simp only [List.mem_filter, h]

/-- and the part after the roots is strictly sorted by path -/
theorem graphBuildList_sorted (roots : List Node) (e : List Node)
    (h : e.Pairwise fun a b => a.1 ≠ b.1) :
    StrictByPath (sortByPath (e.filter fun x => !(roots.any fun r => r.1 == x.1))) :=
  sortByPath_strict _ (h.filter _)

end CueVerif.Mvs
