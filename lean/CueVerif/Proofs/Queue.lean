import CueVerif.Model.Queue
/-!
Invariant of the par.Queue model: at most `maxActive` items run, a non-empty backlog means all
slots are busy, every added item is in exactly one of backlog / running / done, the idle
channel is closed only while nothing is active or queued, and it is never closed twice.
-/
namespace CueVerif.Queue

structure Inv (max : Nat) (s : St) : Prop where
  running_len : s.running.length = s.active
  bounded : s.active ≤ max
  backlog_full : s.backlog ≠ [] → s.active = max
  idle_closed : s.idle = some true → s.active = 0
  once : ∀ i, s.added.count i = s.backlog.count i + s.running.count i + s.done.count i
  no_panic : s.panic = false

theorem inv_init (max : Nat) : Inv max init where
  running_len := rfl
  bounded := Nat.zero_le _
  backlog_full := by intro h; exact absurd rfl h
  idle_closed := by intro h; cases h
  once := by intro i; simp [init]
  no_panic := rfl

theorem count_cons' (b a : Nat) (l : List Nat) :
    (b :: l).count a = l.count a + (if b = a then 1 else 0) := by
  rw [List.count_cons]
  by_cases e : b = a
  · simp [e]
  · have : (b == a) = false := by simpa using e
    simp [this, e]

theorem count_erase_mem' (i a : Nat) (l : List Nat) (h : i ∈ l) :
    l.count a = (l.erase i).count a + (if i = a then 1 else 0) := by
  rw [List.count_erase]
  by_cases e : i = a
  · subst e
    have : 0 < l.count i := List.count_pos_iff.mpr h
    simp
    omega
  · have : (i == a) = false := by simpa using e
    simp [this, e]

theorem inv_step (max : Nat) (s t : St) (hi : Inv max s) (hs : Step max s t) : Inv max t := by
  obtain ⟨h1, h2, h3, h4, h5, h6⟩ := hi
  cases hs with
  | addQueue i h =>
    refine ⟨h1, h2, fun _ => h, h4, ?_, h6⟩
    intro a
    simp only [List.count_append]
    have := h5 a
    omega
  | addStart i h =>
    have hlt : s.active < max := by omega
    refine ⟨by simp [h1], by simp only; omega, ?_, ?_, ?_, h6⟩
    · intro hb
      exact absurd (h3 hb) h
    · intro hc
      simp only at hc
      split at hc
      · cases hc
      · rename_i hne
        exact absurd (h4 hc) hne
    · intro a
      simp only [List.count_append, List.count_cons]
      have := h5 a
      simp only [List.count_nil]
      omega
  | finishLast i h hb =>
    have hpos : 0 < s.running.length := List.length_pos_of_mem h
    have hact : 0 < s.active := by omega
    refine ⟨?_, by simp only; omega, ?_, ?_, ?_, ?_⟩
    · simp only [List.length_erase_of_mem h]
      omega
    · intro hne
      exact absurd hb hne
    · intro hc
      simp only at hc
      split at hc
      · rename_i hz; exact hz.1
      · exact absurd (h4 hc) (by omega)
    · intro a
      show s.added.count a =
        s.backlog.count a + (s.running.erase i).count a + (i :: s.done).count a
      rw [count_cons' i a s.done, h5 a, count_erase_mem' i a s.running h]
      omega
    · simp only [h6, Bool.false_or, Bool.and_eq_false_iff]
      right
      cases hidle : s.idle with
      | none => rfl
      | some b =>
        cases b with
        | false => rfl
        | true => exact absurd (h4 hidle) (by omega)
  | finishNext i j rest h hb =>
    have hpos : 0 < s.running.length := List.length_pos_of_mem h
    refine ⟨?_, h2, ?_, h4, ?_, h6⟩
    · simp only [List.length_cons, List.length_erase_of_mem h]
      omega
    · intro _
      exact h3 (by rw [hb]; exact List.cons_ne_nil _ _)
    · intro a
      have h5a := h5 a
      rw [hb, count_cons' j a rest, count_erase_mem' i a s.running h] at h5a
      show s.added.count a =
        rest.count a + (j :: s.running.erase i).count a + (i :: s.done).count a
      rw [count_cons' j a _, count_cons' i a s.done, h5a]
      omega
  | idleCall =>
    refine ⟨h1, h2, h3, ?_, h5, h6⟩
    intro hc
    simp only at hc
    split at hc
    · simpa using hc
    · exact h4 hc

theorem run_inv (max : Nat) (s : St) (h : Run max s) : Inv max s := by
  induction h with
  | init => exact inv_init max
  | step _ hs ih => exact inv_step max _ _ ih hs

/-- `apply` is a step of the model (so a replayed log is a run) -/
theorem apply_step (max : Nat) (s t : St) (e : Ev) (h : apply max s e = some t) :
    Step max s t := by
  cases e with
  | add i =>
    simp only [apply] at h
    split at h
    · rename_i hm
      simp only [Option.some.injEq] at h; subst h
      exact Step.addQueue s i hm
    · rename_i hm
      simp only [Option.some.injEq] at h; subst h
      exact Step.addStart s i hm
  | fin i =>
    simp only [apply] at h
    split at h
    · cases h
    · rename_i hc
      have hin : i ∈ s.running := by simpa using hc
      split at h
      · rename_i hb
        simp only [Option.some.injEq] at h; subst h
        exact Step.finishLast s i hin hb
      · rename_i j rest hb
        simp only [Option.some.injEq] at h; subst h
        exact Step.finishNext s i j rest hin hb
  | idle =>
    simp only [apply, Option.some.injEq] at h; subst h
    exact Step.idleCall s

end CueVerif.Queue
