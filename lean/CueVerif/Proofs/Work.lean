/-
Proofs about the runner protocol model of `CueVerif/Model/Work.lean`
(/repo/internal/par/work.go): when some runner has returned the work list is empty and
every other runner has returned or is about to (`return_safe`); the only states without
an enabled step are the ones where every runner has returned (`no_deadlock`).
Core Lean only.
-/
import CueVerif.Model.Work

namespace CueVerif.Work

/-- phases that are counted in `w.waiting` -/
def isW : Phase → Bool
  | .sleeping => true
  | .woken => true
  | .done => true
  | _ => false

/-! ### list helpers -/

theorem countP_set_of {p : Phase → Bool} {l : List Phase} {i : Nat} {q : Phase} (a : Phase)
    (h : l[i]? = some q) :
    List.countP p (l.set i a) + (if p q then 1 else 0)
      = List.countP p l + (if p a then 1 else 0) := by
  induction l generalizing i with
  | nil => simp at h
  | cons x xs ih =>
    cases i with
    | zero =>
      simp at h
      subst h
      simp [List.countP_cons]
      omega
    | succ j =>
      simp at h
      have := ih h
      simp [List.countP_cons]
      omega

theorem lt_length_of_getElem? {l : List Phase} {i : Nat} {q : Phase} (h : l[i]? = some q) :
    i < l.length := by
  have := List.getElem?_eq_some_iff.mp h
  exact this.1

theorem mem_of_getElem?' {l : List Phase} {i : Nat} {q : Phase} (h : l[i]? = some q) :
    q ∈ l := List.mem_iff_getElem?.mpr ⟨i, h⟩

/-! ### broadcast -/

theorem length_broadcast (l : List Phase) : (broadcast l).length = l.length := by
  simp [broadcast]

theorem countP_broadcast (l : List Phase) : List.countP isW (broadcast l) = List.countP isW l := by
  induction l with
  | nil => rfl
  | cons x xs ih =>
    have ih' : List.countP isW (List.map (fun p => if p = Phase.sleeping then Phase.woken else p) xs)
        = List.countP isW xs := ih
    cases x <;> simp [broadcast, List.countP_cons, isW, ih']

theorem getElem?_broadcast {l : List Phase} {i : Nat} {q : Phase} (h : l[i]? = some q)
    (hq : q ≠ .sleeping) : (broadcast l)[i]? = some q := by
  simp [broadcast, h, hq]

theorem ne_sleeping_of_mem_broadcast {l : List Phase} {p : Phase} (h : p ∈ broadcast l) :
    p ≠ .sleeping := by
  simp only [broadcast, List.mem_map] at h
  obtain ⟨a, _, ha⟩ := h
  by_cases hs : a = .sleeping
  · simp [hs] at ha; subst ha; simp
  · simp [hs] at ha; subst ha; exact hs

/-! ### signal -/

theorem length_signal (l : List Phase) : (signal l).length = l.length := by
  induction l with
  | nil => rfl
  | cons x xs ih =>
    by_cases hx : x = .sleeping <;> simp [signal, hx, ih]

theorem countP_signal (l : List Phase) : List.countP isW (signal l) = List.countP isW l := by
  induction l with
  | nil => rfl
  | cons x xs ih =>
    by_cases hx : x = .sleeping
    · subst hx; simp [signal, List.countP_cons, isW]
    · simp [signal, hx, List.countP_cons, ih]

theorem getElem?_signal {l : List Phase} {i : Nat} {q : Phase} (h : l[i]? = some q)
    (hq : q ≠ .sleeping) : (signal l)[i]? = some q := by
  induction l generalizing i with
  | nil => simp at h
  | cons x xs ih =>
    by_cases hx : x = .sleeping
    · cases i with
      | zero => simp at h; subst h; exact absurd hx hq
      | succ j => simpa [signal, hx] using h
    · cases i with
      | zero => simpa [signal, hx] using h
      | succ j =>
        simp at h
        simpa [signal, hx] using ih h

theorem mem_signal {l : List Phase} {p : Phase} (h : p ∈ signal l) : p ∈ l ∨ p = .woken := by
  induction l with
  | nil => simp [signal] at h
  | cons x xs ih =>
    by_cases hx : x = .sleeping
    · simp [signal, hx] at h
      rcases h with h | h
      · exact .inr h
      · exact .inl (List.mem_cons_of_mem _ h)
    · simp [signal, hx] at h
      rcases h with h | h
      · subst h; exact .inl (List.mem_cons_self ..)
      · rcases ih h with h | h
        · exact .inl (List.mem_cons_of_mem _ h)
        · exact .inr h

/-! ### the invariant -/

structure Inv (s : St) : Prop where
  /-- `waiting` counts the runners between `waiting++` and the matching `waiting--`
  (or that returned after `waiting++`) -/
  cnt : s.waiting = List.countP isW s.phases
  /-- while nobody has returned, not every runner is waiting -/
  lt : Phase.done ∉ s.phases → 0 < s.phases.length → s.waiting < s.phases.length
  /-- once somebody has returned there is nothing left to do and nobody works or sleeps -/
  fin : Phase.done ∈ s.phases → s.todo = 0 ∧ ∀ p ∈ s.phases, p = .done ∨ p = .woken

theorem inv_init (n m : Nat) : Inv (init n m) := by
  refine ⟨?_, ?_, ?_⟩
  · simp [init, List.countP_replicate, isW]
  · intro _ h; simpa [init] using h
  · intro h
    simp [init, List.mem_replicate] at h

/-- the part of the loop from the test `len(w.todo) == 0` on, entered by a runner whose
own `waiting` contribution is not counted -/
theorem inv_enter {s : St} {i : Nat} {q : Phase} (hi : s.phases[i]? = some q)
    (hq : q = .idle ∨ q = .woken) (h0 : s.todo = 0)
    (hW : s.waiting + (if isW q then 1 else 0) = List.countP isW s.phases)
    (hB : Phase.done ∈ s.phases → ∀ p ∈ s.phases, p = .done ∨ p = .woken) :
    Inv (enter s i) := by
  have hil : i < s.phases.length := lt_length_of_getElem? hi
  have hqs : q ≠ .sleeping := by rcases hq with h | h <;> simp [h]
  unfold enter
  simp only [h0, if_true]
  by_cases hw : s.waiting + 1 = s.phases.length
  · simp only [hw, if_true]
    have hc := countP_set_of (p := isW) .done (getElem?_broadcast hi hqs)
    rw [countP_broadcast] at hc
    have hcnt : s.phases.length = List.countP isW ((broadcast s.phases).set i .done) := by
      simp only [show isW Phase.done = true from rfl, if_true] at hc
      omega
    refine ⟨hcnt, ?_, ?_⟩
    · intro hnd
      exact absurd (List.mem_set (by rw [length_broadcast]; exact hil) _) hnd
    · intro _
      refine ⟨rfl, ?_⟩
      intro p hp
      have hall := List.countP_eq_length.mp
        (by rw [← hcnt, List.length_set, length_broadcast] :
          List.countP isW ((broadcast s.phases).set i .done)
            = ((broadcast s.phases).set i .done).length)
      have hpW := hall p hp
      have hps : p = .done ∨ p ≠ .sleeping := by
        rcases List.mem_or_eq_of_mem_set hp with h | h
        · exact .inr (ne_sleeping_of_mem_broadcast h)
        · exact .inl h
      cases p <;> simp_all [isW]
  · simp only [hw, if_false]
    have hc := countP_set_of (p := isW) .sleeping hi
    have hcnt : s.waiting + 1 = List.countP isW (s.phases.set i .sleeping) := by
      simp only [show isW Phase.sleeping = true from rfl, if_true] at hc
      omega
    have hnd : Phase.done ∉ s.phases := by
      intro hd
      have hall := hB hd
      have hlen : List.countP isW s.phases = s.phases.length :=
        List.countP_eq_length.mpr (by
          intro a ha
          rcases hall a ha with h | h <;> simp [h, isW])
      rcases hq with h | h
      · have := hall q (mem_of_getElem?' hi)
        simp [h] at this
      · subst h
        simp [isW] at hW
        omega
    have hnd' : Phase.done ∉ s.phases.set i .sleeping := by
      intro hd
      rcases List.mem_or_eq_of_mem_set hd with h | h
      · exact hnd h
      · cases h
    refine ⟨hcnt, ?_, ?_⟩
    · intro _ _
      have := List.countP_le_length (p := isW) (l := s.phases.set i .sleeping)
      simp only [List.length_set] at this ⊢
      show s.waiting + 1 < s.phases.length
      omega
    · intro hd
      exact absurd hd hnd'

/-- a step that rewrites slot `i` of a list `X` (the phases, possibly after a `Signal`)
with a phase that is not `done`, while nobody has returned -/
theorem inv_set {s : St} {X : List Phase} {i : Nat} {q a : Phase} {t w : Nat}
    (hX : X[i]? = some q) (ha : a ≠ .done)
    (hlen : X.length = s.phases.length)
    (hXd : Phase.done ∉ X)
    (hcnt : w + (if isW q then 1 else 0) = s.waiting + (if isW a then 1 else 0))
    (hXc : List.countP isW X = List.countP isW s.phases)
    (hnd : Phase.done ∉ s.phases)
    (hs : Inv s) (hw : w ≤ s.waiting) :
    Inv { todo := t, waiting := w, phases := X.set i a } := by
  have hc := countP_set_of (p := isW) a hX
  have hil : i < X.length := lt_length_of_getElem? hX
  have hnd' : Phase.done ∉ X.set i a := by
    intro hd
    rcases List.mem_or_eq_of_mem_set hd with h | h
    · exact hXd h
    · exact ha h.symm
  refine ⟨?_, ?_, ?_⟩
  · show w = List.countP isW (X.set i a)
    have := hs.cnt
    omega
  · intro _ _
    have := hs.lt hnd (by omega)
    show w < (X.set i a).length
    rw [List.length_set]
    omega
  · intro hd
    exact absurd hd hnd'

theorem inv_step {s t : St} (hs : Inv s) (h : Step s t) : Inv t := by
  cases h with
  | idleEmpty i h h0 =>
    refine inv_enter h (.inl rfl) h0 ?_ (fun hd => (hs.fin hd).2)
    simpa [isW] using hs.cnt
  | wokenEmpty i h h0 =>
    have hc := countP_set_of (p := isW) .idle h
    have := hs.cnt
    refine inv_enter (s := { s with waiting := s.waiting - 1 }) h (.inr rfl) h0 ?_
      (fun hd => (hs.fin hd).2)
    simp [isW] at hc ⊢
    omega
  | idleTake i k h h0 =>
    have hnd : Phase.done ∉ s.phases := fun hd => h0 (hs.fin hd).1
    exact inv_set h (by simp) rfl hnd (by simp [isW]) rfl hnd hs (Nat.le_refl _)
  | wokenTake i k h h0 =>
    have hnd : Phase.done ∉ s.phases := fun hd => h0 (hs.fin hd).1
    have hc := countP_set_of (p := isW) .idle h
    have := hs.cnt
    refine inv_set h (by simp) rfl hnd ?_ rfl hnd hs (Nat.sub_le _ _)
    simp [isW] at hc ⊢
    omega
  | add i k h =>
    have hnd : Phase.done ∉ s.phases := by
      intro hd
      have := (hs.fin hd).2 _ (mem_of_getElem?' h)
      simp at this
    by_cases hw : s.waiting > 0
    · simp only [hw, if_true]
      refine inv_set (getElem?_signal h (by simp)) (by simp) (length_signal _) ?_
        (by simp [isW]) (countP_signal _) hnd hs (Nat.le_refl _)
      intro hd
      rcases mem_signal hd with h' | h'
      · exact hnd h'
      · cases h'
    · simp only [hw, if_false]
      exact inv_set h (by simp) rfl hnd (by simp [isW]) rfl hnd hs (Nat.le_refl _)
  | finish i h =>
    have hnd : Phase.done ∉ s.phases := by
      intro hd
      have := (hs.fin hd).2 _ (mem_of_getElem?' h)
      simp at this
    exact inv_set h (by simp) rfl hnd (by simp [isW]) rfl hnd hs (Nat.le_refl _)

theorem length_step {s t : St} (h : Step s t) : t.phases.length = s.phases.length := by
  cases h with
  | idleEmpty i h h0 =>
    unfold enter
    simp only [h0, if_true]
    split <;> simp [length_broadcast]
  | wokenEmpty i h h0 =>
    unfold enter
    simp only [h0, if_true]
    split <;> simp [length_broadcast]
  | idleTake i k h h0 => simp
  | wokenTake i k h h0 => simp
  | add i k h =>
    simp only [List.length_set]
    split
    · exact length_signal _
    · rfl
  | finish i h => simp

theorem run_inv {n m : Nat} {s : St} (h : Run n m s) : Inv s ∧ s.phases.length = n := by
  induction h with
  | init => exact ⟨inv_init n m, by simp [init]⟩
  | step _ hst ih => exact ⟨inv_step ih.1 hst, by rw [length_step hst]; exact ih.2⟩

/-! ### the two theorems -/

/-- When some runner has returned from `runner`, the work list is empty and every other
runner has returned or has been woken by the final Broadcast (and will return, see
`no_deadlock`): nobody is still running `f`, nobody is parked. -/
theorem return_safe (n m : Nat) (s : St) (h : Run n m s) (hd : Phase.done ∈ s.phases) :
    s.todo = 0 ∧ ∀ p ∈ s.phases, p = .done ∨ p = .woken :=
  (run_inv h).1.fin hd

/-- every runner that is not parked and has not returned has an enabled step -/
theorem stuck_phases {s : St} (hs : Stuck s) : ∀ p ∈ s.phases, p = .sleeping ∨ p = .done := by
  intro p hp
  obtain ⟨i, hi⟩ := List.mem_iff_getElem?.mp hp
  cases p with
  | sleeping => exact .inl rfl
  | done => exact .inr rfl
  | idle =>
    by_cases h0 : s.todo = 0
    · exact absurd (Step.idleEmpty s i hi h0) (hs _)
    · exact absurd (Step.idleTake s i 0 hi h0) (hs _)
  | woken =>
    by_cases h0 : s.todo = 0
    · exact absurd (Step.wokenEmpty s i hi h0) (hs _)
    · exact absurd (Step.wokenTake s i 0 hi h0) (hs _)
  | working k =>
    cases k with
    | zero => exact absurd (Step.finish s i hi) (hs _)
    | succ k => exact absurd (Step.add s i k hi) (hs _)

/-- The protocol cannot deadlock: a reachable state (with at least one runner) in which no
step is enabled is one where every runner has returned, with an empty work list. -/
theorem no_deadlock (n m : Nat) (s : St) (h : Run n m s) (hn : 0 < n) (hs : Stuck s) :
    (∀ p ∈ s.phases, p = .done) ∧ s.todo = 0 := by
  obtain ⟨hinv, hlen⟩ := run_inv h
  have hsd := stuck_phases hs
  by_cases hd : Phase.done ∈ s.phases
  · obtain ⟨h0, hall⟩ := hinv.fin hd
    refine ⟨?_, h0⟩
    intro p hp
    rcases hsd p hp with h1 | h1
    · rcases hall p hp with h2 | h2
      · exact h2
      · rw [h1] at h2; cases h2
    · exact h1
  · exfalso
    have hcl : List.countP isW s.phases = s.phases.length :=
      List.countP_eq_length.mpr (by
        intro a ha
        rcases hsd a ha with h1 | h1 <;> simp [h1, isW])
    have := hinv.lt hd (by omega)
    have := hinv.cnt
    omega

end CueVerif.Work
