/-
C13 — semantic exactness of the transcribed LEAF builders (numbers, strings, array sizes) and of
`constraintType` w.r.t. the oracle `JS.kwHolds`, one keyword at a time.  Core Lean only.
-/
import CueVerif.Proofs.JsonSchemaCC
namespace CueVerif.CCm
open CueVerif.JS CueVerif.Skel

variable (re : String → String → Bool)

/-- the per-type constraint a leaf keyword contributes (what the builder passes to `state.add`) -/
def leafOf : Kw → Option (CoreType × CC)
  | .minimum n => some (.num, .bound .ge n)
  | .maximum n => some (.num, .bound .le n)
  | .exclusiveMinimum n => some (.num, .bound .gt n)
  | .exclusiveMaximum n => some (.num, .bound .lt n)
  | .multipleOf n => some (.num, .multipleOf n)
  | .minLength n => some (.string, .minRunes n)
  | .maxLength n => some (.string, .maxRunes n)
  | .pattern p => some (.string, .matches p)
  | .minItems n => some (.array, .listOpen (List.replicate n .top) .top)
  | .maxItems n => some (.array, .maxItems n)
  | _ => none

/-- the builder of a leaf keyword is `state.add` of that constraint -/
theorem stepKw_leaf (tr) (st : TSt) (kw : Kw) (t c) (h : leafOf kw = some (t, c)) :
    stepKw tr st kw = addC st t c := by
  cases kw <;> simp [leafOf] at h <;> obtain ⟨rfl, rfl⟩ := h <;> rfl

theorem leaf_not_top (kw : Kw) (t c) (h : leafOf kw = some (t, c)) : c.isTop = false := by
  cases kw <;> simp [leafOf] at h <;> obtain ⟨rfl, rfl⟩ := h <;> rfl

/-- a leaf constraint accepts only instances of its own core type -/
theorem leaf_own (kw : Kw) (t c) (h : leafOf kw = some (t, c)) (j : Json)
    (ha : acc re c j = true) : coreOf j = t := by
  cases kw <;> simp [leafOf] at h <;> obtain ⟨rfl, rfl⟩ := h <;> cases j <;>
    first | rfl | (simp [acc] at ha)

/-- EXACTNESS of the leaf builders: on instances of the keyword's kind the emitted CUE constraint
holds iff the JSON Schema keyword does; on other kinds the keyword asserts nothing -/
theorem leaf_exact (rec res kws) (kw : Kw) (t c) (h : leafOf kw = some (t, c)) (j : Json) :
    kwHolds re rec res kws kw j = some (coreOf j != t || acc re c j) := by
  cases kw <;> simp [leafOf] at h <;> obtain ⟨rfl, rfl⟩ := h <;> cases j <;>
    simp [kwHolds, acc, coreOf, Cmp.holds, accPrefix_tops, lenCC_eq]

/-- state level: the builder conjoins exactly the keyword's verdict -/
theorem leaf_step (tr rec res kws) (st : TSt) (kw : Kw) (t c) (h : leafOf kw = some (t, c))
    (j : Json) (b : Bool) (hb : kwHolds re rec res kws kw j = some b) :
    stAcc re (stepKw tr st kw) j = (stAcc re st j && b) := by
  rw [stepKw_leaf tr st kw t c h, stAcc_addC re st t c j (leaf_not_top kw t c h)]
  rw [leaf_exact re rec res kws kw t c h j] at hb
  cases hb
  rfl

/-! ## `type` -/

/-- an integral number is written as an int literal (the instance-side guard that excludes the
known deviation `number-literal-form`: CUE `int` rejects `1.0`) -/
def intForm : Json → Bool
  | .num x => !x.isInt || isIntLit x
  | _ => true

/-- `type` lists naming both "integer" and "number" are the known deviation
`type-integer-and-number` -/
def typeOk (ts : List TypeName) : Bool := !(ts.contains .integer && ts.contains .number)

/-- int literals are integers (`den = 1`) -/
theorem isInt_of_isIntLit (x : Num) (h : isIntLit x = true) : x.isInt = true := by
  simp only [isIntLit, beq_iff_eq] at h
  simp [Num.isInt, h, Int.emod_one]

theorem stAcc_intFold (ts : List TypeName) (st : TSt) (j : Json) :
    stAcc re (ts.foldl (fun st t => if t == .integer then addC st .num .int else st) st) j =
      (stAcc re st j && (coreOf j != .num || !ts.contains .integer || acc re .int j)) := by
  induction ts generalizing st with
  | nil => simp
  | cons t r ih =>
    rw [List.foldl_cons, ih, List.contains_cons]
    cases t
    case integer =>
      have hb : (TypeName.integer == TypeName.integer) = true := by decide
      rw [hb, if_pos rfl, stAcc_addC re st .num .int j rfl]
      generalize stAcc re st j = S
      generalize (coreOf j != CoreType.num) = N
      generalize acc re CC.int j = I
      generalize r.contains TypeName.integer = R
      cases S <;> cases N <;> cases I <;> cases R <;> rfl
    all_goals
      rw [if_neg (by decide)]
      generalize r.contains TypeName.integer = R
      cases R <;> rfl

theorem typeMatches_num (ts : List TypeName) (x : Num) :
    ts.any (typeMatches · (.num x)) =
      (ts.contains .number || (ts.contains .integer && x.isInt)) := by
  induction ts with
  | nil => rfl
  | cons t r ih =>
    rw [List.any_cons, ih, List.contains_cons, List.contains_cons]
    generalize r.contains TypeName.number = A
    generalize r.contains TypeName.integer = B
    cases t <;> cases A <;> cases B <;> cases h : x.isInt <;> simp [typeMatches, h]

/-- the kinds named by a `type` value -/
def typeKinds (ts : List TypeName) : KSet := fun k => ts.any fun t => kindsOfTypeName t k

theorem hasCore_typeKinds (ts : List TypeName) (j : Json) :
    hasCore (typeKinds ts) (coreOf j) =
      match j with
      | .num _ => (ts.contains .number || ts.contains .integer)
      | j => ts.any (typeMatches · j) := by
  induction ts with
  | nil => cases j <;> rfl
  | cons t r ih =>
    have hor : typeKinds (t :: r) = fun k => kindsOfTypeName t k || typeKinds r k := by
      funext k; simp [typeKinds]
    rw [hor, Skel.hasCore_or, ih]
    cases j with
    | num x =>
      simp only []
      rw [List.contains_cons, List.contains_cons]
      generalize r.contains TypeName.number = A
      generalize r.contains TypeName.integer = B
      cases t <;> cases A <;> cases B <;> rfl
    | null | bool _ | str _ | arr _ | obj _ =>
      simp only [List.any_cons]
      congr 1
      cases t <;> rfl

/-- `float ∈ s → int ∈ s`: holds of every `allowedTypes` reachable without enum/const -/
def IntClosed (s : KSet) : Prop := s .float = true → s .int = true

theorem IntClosed_typeKinds (ts : List TypeName) : IntClosed (typeKinds ts) := by
  intro h
  simp only [typeKinds, List.any_eq_true] at h ⊢
  obtain ⟨t, ht, hk⟩ := h
  refine ⟨t, ht, ?_⟩
  cases t <;> simp [kindsOfTypeName, Skel.kindsOfTypeName] at hk ⊢

theorem IntClosed_inter (a b : KSet) (ha : IntClosed a) (hb : IntClosed b) :
    IntClosed (a.inter b) := by
  intro h
  simp only [KSet.inter, Bool.and_eq_true] at h ⊢
  exact ⟨ha h.1, hb h.2⟩

theorem hasCore_inter (a b : KSet) (ha : IntClosed a) (hb : IntClosed b) (t : CoreType) :
    hasCore (a.inter b) t = (hasCore a t && hasCore b t) := by
  unfold IntClosed at ha hb
  cases t <;> simp only [hasCore, coreToCUE, KSet.inter, List.any_cons, List.any_nil, Bool.or_false]
  revert ha hb
  cases a .int <;> cases a .float <;> cases b .int <;> cases b .float <;> simp

/-- EXACTNESS of `constraintType`, under the two guards that exclude the known deviations -/
theorem type_step (ts : List TypeName) (st : TSt) (j : Json)
    (hcl : IntClosed st.allowed) (hts : typeOk ts = true) (hj : intForm j = true) :
    stAcc re (bType ts st) j = (stAcc re st j && ts.any (typeMatches · j)) := by
  have hfold := stAcc_intFold re ts st j
  -- the fold changes neither `allowed` nor `all`
  have hal : ∀ (l : List TypeName) (s : TSt),
      (l.foldl (fun st t => if t == .integer then addC st .num .int else st) s).allowed = s.allowed ∧
      (l.foldl (fun st t => if t == .integer then addC st .num .int else st) s).all = s.all := by
    intro l
    induction l with
    | nil => intro s; exact ⟨rfl, rfl⟩
    | cons t r ih =>
      intro s
      rw [List.foldl_cons]
      split
      · have := ih (addC s .num .int)
        simpa [addC, CC.isTop] using this
      · exact ih s
  unfold bType
  simp only []
  generalize hst1 : ts.foldl (fun st t => if t == .integer then addC st .num .int else st) st = st1
    at hfold
  have hal1 := hal ts st
  rw [hst1] at hal1
  have hK : (fun k => ts.any fun t => kindsOfTypeName t k) = typeKinds ts := rfl
  unfold stAcc at hfold ⊢
  simp only [hK]
  rw [hasCore_inter _ _ (by rw [hal1.1]; exact hcl) (IntClosed_typeKinds ts), hasCore_typeKinds]
  have hrw : (hasCore st1.allowed (coreOf j) && st1.all.all (acc re · j) &&
      (st1.types (coreOf j)).all (acc re · j)) = _ := hfold
  cases j with
  | num x =>
    simp only [typeMatches_num]
    simp only [coreOf, bne_self_eq_false, Bool.false_or, acc] at hrw ⊢
    simp only [typeOk, Bool.not_eq_true', Bool.and_eq_false_iff] at hts
    simp only [intForm, Bool.or_eq_true, Bool.not_eq_true'] at hj
    have hlit : isIntLit x = x.isInt := by
      cases hi : x.isInt
      · cases hl : isIntLit x
        · rfl
        · rw [isInt_of_isIntLit x hl] at hi; cases hi
      · rcases hj with hj | hj
        · rw [hi] at hj; cases hj
        · exact hj
    rw [hlit] at hrw
    generalize hasCore st1.allowed CoreType.num = A at hrw ⊢
    generalize st1.all.all (acc re · (Json.num x)) = B at hrw ⊢
    generalize (st1.types CoreType.num).all (acc re · (Json.num x)) = C at hrw ⊢
    generalize stAcc_old : (hasCore st.allowed CoreType.num && st.all.all (acc re · (Json.num x)) &&
      (st.types CoreType.num).all (acc re · (Json.num x))) = S at hrw ⊢
    revert hrw hts
    cases ts.contains TypeName.integer <;> cases ts.contains TypeName.number <;> cases x.isInt <;>
      cases A <;> cases B <;> cases C <;> cases S <;> simp
  | null | bool _ | str _ | arr _ | obj _ =>
    simp only [coreOf] at hrw ⊢
    simp only [bne, Bool.not_eq_true', Bool.true_or, Bool.and_true,
      show (CoreType.null == CoreType.num) = false from rfl,
      show (CoreType.bool == CoreType.num) = false from rfl,
      show (CoreType.string == CoreType.num) = false from rfl,
      show (CoreType.array == CoreType.num) = false from rfl,
      show (CoreType.object == CoreType.num) = false from rfl, Bool.not_false] at hrw
    rw [← hrw]
    simp only [Bool.and_assoc, Bool.and_left_comm, Bool.and_comm]

end CueVerif.CCm
