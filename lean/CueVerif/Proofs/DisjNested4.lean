/-
C04: a node whose EARLIER conjuncts are arbitrary mark-free expressions (atoms, unmarked
disjunctions flat or nested, any number) and whose LAST conjunct is a (marked) disjunction with
arbitrarily nested mark-free terms (`Expr.PreNested`).
-/
import CueVerif.Proofs.DisjNested3
namespace CueVerif.Disj
variable {V : Type} [DecidableEq V]
set_option linter.unusedSectionVars false

/-! ### `origDefaultMode` stays maybeDefault through mark-free expressions -/

def ROdm : R V → Prop
  | .leaf l => l.odm = .maybe
  | .multi _ _ ds => OdmMaybe ds

theorem odm_appendDisjunct (acc : List (Leaf V)) (x : Leaf V) (ha : OdmMaybe acc)
    (hx : x.odm = .maybe) : OdmMaybe (appendDisjunct acc x) := by
  induction acc with
  | nil => intro q hq; simp only [appendDisjunct, List.mem_singleton] at hq; rw [hq]; exact hx
  | cons xn rest ih =>
    have hr : OdmMaybe rest := fun q hq => ha q (List.mem_cons_of_mem _ hq)
    have hxn : xn.odm = .maybe := ha xn (List.mem_cons_self ..)
    unfold appendDisjunct
    by_cases hv : xn.v = x.v
    · rw [if_pos hv]
      intro q hq
      rcases List.mem_cons.1 hq with h | h
      · rw [h]; split <;> exact hxn
      · exact hr q h
    · rw [if_neg hv]
      intro q hq
      rcases List.mem_cons.1 hq with h | h
      · rw [h]; exact hxn
      · exact ih hr q h

theorem odm_foldl_append (ls acc : List (Leaf V)) (ha : OdmMaybe acc) (hl : OdmMaybe ls) :
    OdmMaybe (ls.foldl appendDisjunct acc) := by
  induction ls generalizing acc with
  | nil => exact ha
  | cons l ls ih =>
    exact ih _ (odm_appendDisjunct acc l ha (hl l (List.mem_cons_self ..)))
      (fun q hq => hl q (List.mem_cons_of_mem _ hq))

theorem odm_flatR (ld rd : Bool) (r : R V) (h : ROdm r) : OdmMaybe (flatR ld rd r) := by
  cases r with
  | leaf l => intro q hq; simp only [flatR, List.mem_singleton] at hq; rw [hq]; exact h
  | multi dm odm ds =>
    intro q hq
    simp only [flatR, List.mem_map] at hq
    obtain ⟨x, hx, rfl⟩ := hq
    exact h x hx

theorem odm_crossProduct (cross : List (Leaf V)) (terms : Leaf V → List (R V))
    (h : ∀ p ∈ cross, ∀ r ∈ terms p, ROdm r) : OdmMaybe (crossProduct cross terms) := by
  unfold crossProduct
  simp only
  have hr : ∀ r ∈ (cross.map fun p => (p, terms p)).flatMap (fun pr => pr.2), ROdm r := by
    intro r hr
    rw [List.mem_flatMap] at hr
    obtain ⟨pr, hpr, hr⟩ := hr
    rw [List.mem_map] at hpr
    obtain ⟨p, hp, rfl⟩ := hpr
    exact h p hp r hr
  have hfold : ∀ ld rd, OdmMaybe
      (((cross.map fun p => (p, terms p)).flatMap (fun pr => pr.2)).foldl (place ld rd) ([], false)).1 := by
    intro ld rd
    rw [place_flat]
    apply odm_foldl_append _ _ (by intro q hq; cases hq)
    intro q hq
    obtain ⟨r, hrm, hq⟩ := List.mem_flatMap.1 hq
    exact odm_flatR ld rd r (hr r hrm) q hq
  split
  · intro q hq
    obtain ⟨x, hx, rfl⟩ := List.mem_map.1 hq
    have := hfold _ _ x hx
    split <;> exact this
  · exact hfold _ _

theorem rodm_doDisj (sc : Option V → Option V) (cj : List (Leaf V) → List (Leaf V))
    (hcj : ∀ c, OdmMaybe c → OdmMaybe (cj c)) (p : Leaf V) :
    ∀ r ∈ doDisj sc cj p .maybe, ROdm r := by
  unfold doDisj
  cases sc (some p.v) with
  | none => intro r hr; cases hr
  | some v =>
    simp only
    have hc := hcj [{ v := v, dm := p.dm, odm := .maybe }]
      (by intro q hq; rw [List.mem_singleton] at hq; rw [hq])
    generalize cj [{ v := v, dm := p.dm, odm := .maybe }] = L at hc
    match L, hc with
    | [], _ => intro r hr; cases hr
    | [x], _ =>
      intro r hr
      rw [List.mem_singleton] at hr; subst hr
      rfl
    | x :: y :: t, hc =>
      intro r hr
      rw [List.mem_singleton] at hr; subst hr
      exact hc

structure OInv (S : Sl V) (e : Expr V) : Prop where
  conj : ∀ c, OdmMaybe c → OdmMaybe ((sem S e).conj c)
  terms : ∀ (mk : Bool) (p : Leaf V), ∀ r ∈ (sem S e).terms false mk p, ROdm r
  hasMark : (sem S e).hasMark = false

theorem odmMaybe_all (S : Sl V) (e : Expr V) (hm : e.hasAnyMark = false) : OInv S e := by
  induction e with
  | atom a =>
    refine ⟨fun c hc => hc, fun mk p => ?_, rfl⟩
    show ∀ r ∈ doDisj (sem S (.atom a)).scalar (sem S (.atom a)).conj p (mode false mk), ROdm r
    rw [mode_false]; exact rodm_doDisj _ _ (fun c hc => hc) p
  | and l r ihl ihr =>
    simp only [Expr.hasAnyMark, Bool.or_eq_false_iff] at hm
    have il := ihl hm.1
    have ir := ihr hm.2
    have hc : ∀ c, OdmMaybe c → OdmMaybe ((sem S (.and l r)).conj c) :=
      fun c hc => ir.conj _ (il.conj c hc)
    refine ⟨hc, fun mk p => ?_, rfl⟩
    show ∀ x ∈ doDisj (sem S (.and l r)).scalar (sem S (.and l r)).conj p (mode false mk), ROdm x
    rw [mode_false]; exact rodm_doDisj _ _ hc p
  | paren e ih =>
    have ie := ih hm
    refine ⟨ie.conj, fun mk p => ?_, rfl⟩
    show ∀ x ∈ doDisj (sem S e).scalar (sem S e).conj p (mode false mk), ROdm x
    rw [mode_false]; exact rodm_doDisj _ _ ie.conj p
  | mark e _ => simp [Expr.hasAnyMark] at hm
  | or l r ihl ihr =>
    simp only [Expr.hasAnyMark, Bool.or_eq_false_iff] at hm
    have il := ihl hm.1
    have ir := ihr hm.2
    have hhm : (sem S (.or l r)).hasMark = false := by
      show ((sem S l).hasMark || (sem S r).hasMark) = false
      rw [il.hasMark, ir.hasMark]; rfl
    refine ⟨?_, ?_, hhm⟩
    · intro c _
      show OdmMaybe (crossProduct c (fun p =>
        (sem S l).terms ((sem S l).hasMark || (sem S r).hasMark) false p ++
        (sem S r).terms ((sem S l).hasMark || (sem S r).hasMark) false p))
      rw [il.hasMark, ir.hasMark]
      apply odm_crossProduct
      intro p _ x hx
      rcases List.mem_append.1 hx with h | h
      · exact il.terms false p x h
      · exact ir.terms false p x h
    · intro mk p x hx
      have hx' : x ∈ (sem S l).terms false mk p ++ (sem S r).terms false mk p := hx
      rcases List.mem_append.1 hx' with h | h
      · exact il.terms mk p x h
      · exact ir.terms mk p x h

/-! ### spec: the conjunct pairs of any expression meet to its value component -/

theorem VV_conjs {S : Sl V} (h : Laws S) (e : Expr V) :
    VV S ((specSem S e).conjs.map Pair.v) = memP (specPair S e).v := by
  induction e with
  | atom a => exact mt_top_right h _
  | mark e _ => exact mt_top_right h _
  | or l r _ _ => exact mt_top_right h _
  | paren e ih => exact ih
  | and l r ihl ihr =>
    show VV S (((specSem S l).conjs ++ (specSem S r).conjs).map Pair.v) =
      memP (meetV S (specPair S l).v (specPair S r).v)
    rw [List.map_append, VV_append h, ihl, ihr, memP_meetV]

/-! ### the theorem -/

theorem default_preNested_aux (S : Sl V) (h : Laws S) (pre ch l r : Expr V)
    (hpre : pre.hasAnyMark = false) (hf : (Expr.or l r).mfChain = true)
    (hc1 : (sem S ch).conj = (sem S (.or l r)).conj) (hc2 : (sem S ch).scalar = id)
    (hc3 : (specSem S ch).conjs = [specPair S (.or l r)]) :
    (eval S (.and pre ch)).resolve = (specPair S (.and pre ch)).resolve := by
  have hvals : ∀ x, x ∈ (eval S (.and pre ch)).values ↔ x ∈ (specPair S (.and pre ch)).v :=
    values_iff S h _
  have hsv : sv S (.and pre ch) = sv S pre := by
    show (sem S ch).scalar ((sem S pre).scalar (some S.top)) = _
    rw [hc2]; rfl
  rw [eval_resolve, Pair.resolve_eq]
  cases hb : sv S (.and pre ch) with
  | none =>
    have hv : (specPair S (.and pre ch)).v = [] := by
      apply List.eq_nil_iff_forall_not_mem.2
      intro x hx
      have := (hvals x).2 hx
      have he : (eval S (.and pre ch)).values = [] := by
        unfold eval doDisj
        have : (sem S (.and pre ch)).scalar (some S.top) = none := hb
        simp only [this]; rfl
      rw [he] at this; cases this
    rw [hv]; rfl
  | some b =>
    simp only
    have hbp : sv S pre = some b := hsv ▸ hb
    let L0 := (sem S pre).conj [⟨b, .maybe, .maybe⟩]
    have hconj : (sem S (.and pre ch)).conj [⟨b, .maybe, .maybe⟩] = (sem S (.or l r)).conj L0 := by
      show (sem S ch).conj ((sem S pre).conj _) = _
      rw [hc1]
    have hL1 : AllMaybe L0 := (allMaybe_all S pre hpre).conj _
      (by intro q hq; rw [List.mem_singleton] at hq; rw [hq])
    have hL2 : OdmMaybe L0 := (odmMaybe_all S pre hpre).conj _
      (by intro q hq; rw [List.mem_singleton] at hq; rw [hq])
    obtain ⟨_, m2⟩ := chain_sets_cross S h l r hf L0 hL1 hL2
    obtain ⟨_, s2⟩ := chain_spec_nested S l r hf
    obtain ⟨⟨k1, k2⟩, _⟩ := specPair_nodup S (.and pre ch)
    have hnd : (vals ((sem S (.and pre ch)).conj [⟨b, .maybe, .maybe⟩])).Nodup :=
      nodup_conj S _ _ (by simp [vals])
    have hev : (eval S (.and pre ch)).values =
        vals ((sem S (.and pre ch)).conj [⟨b, .maybe, .maybe⟩]) := by
      rw [eval_values, rvals_doDisj]
      have : (sem S (.and pre ch)).scalar (some S.top) = some b := hb
      simp only [this]
    -- the values of the prefix
    have hpv : ∀ z, (∃ p ∈ L0, p.v = z) ↔ z ∈ (specPair S pre).v := by
      intro z
      have e1 : (eval S pre).values = vals L0 := by
        rw [eval_values, rvals_doDisj]
        have : (sem S pre).scalar (some S.top) = some b := hbp
        simp only [this]
        rfl
      rw [← values_iff S h pre z, e1]
      simp [vals]
    refine resOf_congr hnd k1 ((List.filter_sublist.map _).nodup hnd) k2 ?_ ?_
    · funext x; apply propext
      show x ∈ vals _ ↔ _
      rw [← hev]; exact hvals x
    · rw [memP_defs, hconj]
      have hd : (specPair S (.and pre ch)).d =
          unifyD S ((specSem S pre).conjs ++ (specSem S ch).conjs) := rfl
      rw [hd, hc3, unifyD_oneM h _ [] _ (spec_unmarked S pre hpre).conjs (by intro q hq; cases hq),
        VV_conjs h pre]
      funext y; apply propext
      rw [m2 y]
      show _ ↔ mt S _ (mt S _ (VV S [])) y
      rw [show VV S ([] : List (List V)) = fun x => x = S.top from rfl, mt_top_right h]
      constructor
      · rintro ⟨p, hp, mt', hmt, hmk, x, hx, hm⟩
        exact ⟨p.v, x, (hpv p.v).1 ⟨p, hp, rfl⟩, (s2 x).2 ⟨mt', hmt, hmk, hx⟩, hm⟩
      · rintro ⟨z, x, hz, hx, hm⟩
        obtain ⟨p, hp, rfl⟩ := (hpv z).2 hz
        obtain ⟨mt', hmt, hmk, hx'⟩ := (s2 x).1 hx
        exact ⟨p, hp, mt', hmt, hmk, x, hx', hm⟩

/-- Mark-free conjuncts of ANY shape (atoms, unmarked disjunctions, nested ones) followed by a
(marked) disjunction with arbitrarily nested mark-free terms: the transcribed algorithm
resolves exactly as the spec's value-default pair (U0/U1, D0–D2, M0–M3). -/
theorem default_preNested (S : Sl V) (h : Laws S) (e : Expr V) (hf : e.PreNested = true) :
    (eval S e).resolve = (specPair S e).resolve := by
  match e, hf with
  | .and pre (.or l r), hf =>
    simp only [Expr.PreNested, Bool.and_eq_true, Bool.not_eq_true'] at hf
    exact default_preNested_aux S h pre (.or l r) l r hf.1 hf.2 rfl rfl rfl
  | .and pre (.paren (.or l r)), hf =>
    simp only [Expr.PreNested, Bool.and_eq_true, Bool.not_eq_true'] at hf
    exact default_preNested_aux S h pre (.paren (.or l r)) l r hf.1 hf.2 rfl rfl rfl

end CueVerif.Disj
