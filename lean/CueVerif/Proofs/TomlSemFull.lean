/-
C12 — towards the full `sem_partial` (arrays of tables included): the simulation relation,
its initialisation, the reduction of `sem_partial` to the step simulation, and the step cases
proved so far.
-/
import CueVerif.Proofs.TomlSem
namespace CueVerif.Toml
open CueVerif.Toml.Spec

/-! ### the simulation relation -/

def isAotP (σ : Store) (r : Path) : Prop := ∃ n, kindAt σ r = some (.aot n)
def Dfd (σ : Store) (r : Path) : Prop := kindAt σ r ≠ none

/-- a position that may have children: the root, a defined non-array path, or an existing
element of an array of tables -/
def Occ (σ : Store) (r : Path) : Prop :=
  r = [] ∨ (Dfd σ r ∧ ¬ isAotP σ r) ∨
    ∃ r' i n, r = r' ++ [Seg.idx i] ∧ kindAt σ r' = some (.aot n) ∧ i < n

/-- definedness is prefix closed -/
def PC (σ : Store) : Prop := ∀ r s, Dfd σ (r ++ [s]) → Occ σ r

/-- arrays of tables sit at label-ending paths -/
def AotKey (σ : Store) : Prop := ∀ r, isAotP σ r → ∃ r0 a, r = r0 ++ [Seg.key a]

def PureKey (k : Path) : Prop := ∃ hs : List Name, k = keyPath hs

structure ArrOk (σ : Store) (a : OpenArr) : Prop where
  pure : ∃ hs : List Name, a.rkey = keyPath hs ∧ a.level = hs.length
  list : a.list = res σ [] a.rkey
  kind : kindAt σ a.list = some (.aot a.len)
  pos : 1 ≤ a.len
  last : a.last = a.list ++ [Seg.idx (a.len - 1)]

structure Rel (σs : SSt) (s : St) : Prop where
  cur : s.cur = σs.cur
  out : ([], Leaf.tbl) :: s.out = σs.facts
  curRes : res σs.store [] s.curKey = σs.cur
  curNA : ¬ isAotP σs.store σs.cur
  curOcc : Occ σs.store σs.cur
  arrOk : ∀ a ∈ s.arrays, ArrOk σs.store a
  arrAll : ∀ hs : List Name, isAotP σs.store (res σs.store [] (keyPath hs)) →
    ∃ a ∈ s.arrays, a.rkey = keyPath hs
  arrOrd : s.arrays.Pairwise (fun a b => strictPrefix b.rkey a.rkey = false ∧ a.rkey ≠ b.rkey)
  seenHV : ∀ k ∈ s.seen, HV σs.store (res σs.store [] k)
  seenPure : ∀ k ∈ s.seen, ∀ k1 a k2, k = k1 ++ Seg.key a :: k2 →
    isAotP σs.store (res σs.store [] k1) → PureKey k1
  pc : PC σs.store
  aotKey : AotKey σs.store

theorem kindAt_nil (r : Path) : kindAt [] r = none := rfl

theorem rel_init : Rel SSt.init St.init where
  cur := rfl
  out := rfl
  curRes := rfl
  curNA := by rintro ⟨n, h⟩; cases h
  curOcc := .inl rfl
  arrOk := by intro a h; cases h
  arrAll := by rintro hs ⟨n, h⟩; cases h
  arrOrd := List.Pairwise.nil
  seenHV := by intro k h; cases h
  seenPure := by intro k h; cases h
  pc := by intro r s h; exact absurd rfl h
  aotKey := by rintro r ⟨n, h⟩; cases h

/-- `sem_partial` follows from the step simulation -/
theorem run_of_step
    (hstep : ∀ σs σs' s e, Rel σs s → sstep σs e = .ok σs' → ∃ s', step s e = .ok s' ∧ Rel σs' s') :
    ∀ (evs : List Ev) (σs σs' : SSt) (s : St), Rel σs s → srun σs evs = .ok σs' →
      ∃ s', run s evs = .ok s' ∧ Rel σs' s'
  | [], σs, σs', s, hr, h => by
    rw [srun] at h; cases h
    exact ⟨s, rfl, hr⟩
  | e :: es, σs, σs', s, hr, h => by
    rw [srun] at h
    split at h
    · cases h
    · next σ1 h1 =>
      obtain ⟨s1, g1, r1⟩ := hstep _ _ _ _ hr h1
      obtain ⟨s2, g2, r2⟩ := run_of_step hstep es _ _ _ r1 h
      refine ⟨s2, ?_, r2⟩
      rw [run, g1]; exact g2

theorem sem_partial_of_step
    (hstep : ∀ σs σs' s e, Rel σs s → sstep σs e = .ok σs' → ∃ s', step s e = .ok s' ∧ Rel σs' s')
    (evs : List Ev) (fs : List Fact) (h : tomlSpec evs = .ok fs) :
    ∃ fs', decode evs = .ok fs' ∧ SameData fs fs' := by
  unfold tomlSpec at h
  split at h
  · cases h
  · next σs hs =>
    cases h
    obtain ⟨s', g, r⟩ := run_of_step hstep evs _ _ _ rel_init hs
    refine ⟨([], .tbl) :: s'.out, ?_, ?_⟩
    · unfold decode; rw [g]
    · rw [r.out]; exact sameData_refl _

--NEXT

end CueVerif.Toml
