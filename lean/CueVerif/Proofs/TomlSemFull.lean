/-
C12 — towards the full `sem_partial` (arrays of tables included): the simulation relation,
its initialisation, the reduction of `sem_partial` to the step simulation, and the step cases
proved so far.
-/
import CueVerif.Proofs.TomlSem
namespace CueVerif.Toml
open CueVerif.Toml.Spec

/-! ### the simulation relation -/

def isAotP (σ : Store) (r : Path) : Prop := ∃ n, kindAt σ r = some (.aot n)
def Dfd (σ : Store) (r : Path) : Prop := kindAt σ r ≠ none

/-- a position that may have children: the root, a defined non-array path, or an existing
element of an array of tables -/
def Occ (σ : Store) (r : Path) : Prop :=
  r = [] ∨ (Dfd σ r ∧ ¬ isAotP σ r) ∨
    ∃ r' i n, r = r' ++ [Seg.idx i] ∧ kindAt σ r' = some (.aot n) ∧ i < n

/-- definedness is prefix closed -/
def PC (σ : Store) : Prop := ∀ r s, Dfd σ (r ++ [s]) → Occ σ r

/-- arrays of tables sit at label-ending paths -/
def AotKey (σ : Store) : Prop := ∀ r, isAotP σ r → ∃ r0 a, r = r0 ++ [Seg.key a]

def PureKey (k : Path) : Prop := ∃ hs : List Name, k = keyPath hs

structure ArrOk (σ : Store) (a : OpenArr) : Prop where
  pure : ∃ hs : List Name, a.rkey = keyPath hs ∧ a.level = hs.length
  list : a.list = res σ [] a.rkey
  kind : kindAt σ a.list = some (.aot a.len)
  pos : 1 ≤ a.len
  last : a.last = a.list ++ [Seg.idx (a.len - 1)]

structure Rel (σs : SSt) (s : St) : Prop where
  cur : s.cur = σs.cur
  out : ([], Leaf.tbl) :: s.out = σs.facts
  curRes : res σs.store [] s.curKey = σs.cur
  curNA : ¬ isAotP σs.store σs.cur
  curOcc : Occ σs.store σs.cur
  arrOk : ∀ a ∈ s.arrays, ArrOk σs.store a
  arrAll : ∀ hs : List Name, isAotP σs.store (res σs.store [] (keyPath hs)) →
    ∃ a ∈ s.arrays, a.rkey = keyPath hs
  arrOrd : s.arrays.Pairwise (fun a b => strictPrefix b.rkey a.rkey = false ∧ a.rkey ≠ b.rkey)
  seenHV : ∀ k ∈ s.seen, HV σs.store (res σs.store [] k)
  seenPure : ∀ k ∈ s.seen, ∀ k1 a k2, k = k1 ++ Seg.key a :: k2 →
    isAotP σs.store (res σs.store [] k1) → PureKey k1
  pc : PC σs.store
  aotKey : AotKey σs.store

theorem kindAt_nil (r : Path) : kindAt [] r = none := rfl

theorem rel_init : Rel SSt.init St.init where
  cur := rfl
  out := rfl
  curRes := rfl
  curNA := by rintro ⟨n, h⟩; cases h
  curOcc := .inl rfl
  arrOk := by intro a h; cases h
  arrAll := by rintro hs ⟨n, h⟩; cases h
  arrOrd := List.Pairwise.nil
  seenHV := by intro k h; cases h
  seenPure := by intro k h; cases h
  pc := by intro r s h; exact absurd rfl h
  aotKey := by rintro r ⟨n, h⟩; cases h

/-- `sem_partial` follows from the step simulation -/
theorem run_of_step
    (hstep : ∀ σs σs' s e, Rel σs s → sstep σs e = .ok σs' → ∃ s', step s e = .ok s' ∧ Rel σs' s') :
    ∀ (evs : List Ev) (σs σs' : SSt) (s : St), Rel σs s → srun σs evs = .ok σs' →
      ∃ s', run s evs = .ok s' ∧ Rel σs' s'
  | [], σs, σs', s, hr, h => by
    rw [srun] at h; cases h
    exact ⟨s, rfl, hr⟩
  | e :: es, σs, σs', s, hr, h => by
    rw [srun] at h
    split at h
    · cases h
    · next σ1 h1 =>
      obtain ⟨s1, g1, r1⟩ := hstep _ _ _ _ hr h1
      obtain ⟨s2, g2, r2⟩ := run_of_step hstep es _ _ _ r1 h
      refine ⟨s2, ?_, r2⟩
      rw [run, g1]; exact g2

theorem sem_partial_of_step
    (hstep : ∀ σs σs' s e, Rel σs s → sstep σs e = .ok σs' → ∃ s', step s e = .ok s' ∧ Rel σs' s')
    (evs : List Ev) (fs : List Fact) (h : tomlSpec evs = .ok fs) :
    ∃ fs', decode evs = .ok fs' ∧ SameData fs fs' := by
  unfold tomlSpec at h
  split at h
  · cases h
  · next σs hs =>
    cases h
    obtain ⟨s', g, r⟩ := run_of_step hstep evs _ _ _ rel_init hs
    refine ⟨([], .tbl) :: s'.out, ?_, ?_⟩
    · unfold decode; rw [g]
    · rw [r.out]; exact sameData_refl _


/-! ### definedness only grows -/

def Mono (σ σ' : Store) : Prop := ∀ r, Dfd σ r → Dfd σ' r

theorem Mono.refl (σ : Store) : Mono σ σ := fun _ h => h
theorem Mono.trans {a b c : Store} (h1 : Mono a b) (h2 : Mono b c) : Mono a c :=
  fun r h => h2 r (h1 r h)

theorem mono_define (σ : Store) (p : Path) (k : Kind) : Mono σ (define σ p k) := by
  intro r h
  unfold Dfd
  rw [kindAt_define]
  by_cases e : p = r
  · simp [e]
  · simp [e]; exact h

theorem dfd_define (σ : Store) (p : Path) (k : Kind) : Dfd (define σ p k) p := by
  unfold Dfd; rw [kindAt_define]; simp

theorem walkDotted_mono : ∀ (ks : List Name) (σ : Store) (cur : Path) (σ1 : Store) (q : Path),
    walkDotted σ cur ks = .ok (σ1, q) → Mono σ σ1
  | [], σ, cur, σ1, q, h => by
    rw [walkDotted] at h; cases h; exact Mono.refl _
  | k :: ks, σ, cur, σ1, q, h => by
    rw [walkDotted] at h
    split at h
    · exact (mono_define _ _ _).trans (walkDotted_mono ks _ _ _ _ h)
    · exact walkDotted_mono ks _ _ _ _ h
    · cases h
    · cases h

mutual
theorem defineVal_mono : ∀ (v : Val) (p : Path) (σ σ' : Store),
    defineVal p v σ = .ok σ' → Mono σ σ' ∧ Dfd σ' p
  | .sc a, p, σ, σ', h => by
    rw [defineVal] at h; cases h
    exact ⟨mono_define _ _ _, dfd_define _ _ _⟩
  | .arr xs, p, σ, σ', h => by
    rw [defineVal] at h
    have := defineElems_mono xs p 0 _ _ h
    exact ⟨(mono_define _ _ _).trans this, this _ (dfd_define _ _ _)⟩
  | .inl kvs, p, σ, σ', h => by
    rw [defineVal] at h
    have := defineFields_mono kvs p _ _ h
    exact ⟨(mono_define _ _ _).trans this, this _ (dfd_define _ _ _)⟩
theorem defineElems_mono : ∀ (xs : List Val) (p : Path) (i : Nat) (σ σ' : Store),
    defineElems p i xs σ = .ok σ' → Mono σ σ'
  | [], p, i, σ, σ', h => by
    rw [defineElems] at h; cases h; exact Mono.refl _
  | x :: xs, p, i, σ, σ', h => by
    rw [defineElems] at h
    split at h
    · cases h
    · next σ1 h1 =>
      exact (defineVal_mono x _ _ _ h1).1.trans (defineElems_mono xs _ _ _ _ h)
theorem defineFields_mono : ∀ (kvs : List (List Name × Val)) (p : Path) (σ σ' : Store),
    defineFields p kvs σ = .ok σ' → Mono σ σ'
  | [], p, σ, σ', h => by
    rw [defineFields] at h; cases h; exact Mono.refl _
  | kv :: rest, p, σ, σ', h => by
    rw [defineFields] at h
    split at h
    · cases h
    · cases h
    · next k σ1 q hl hw =>
      simp only [] at h
      split at h
      · cases h
      · split at h
        · cases h
        · next σ2 h2 =>
          exact ((walkDotted_mono _ _ _ _ _ hw).trans (defineVal_mono kv.2 _ _ _ h2).1).trans
            (defineFields_mono rest _ _ _ h)
end



/-! ### value-level simulation, general form

`Hx σ s rkey p`: every key strictly below `rkey` the decoder would reject (an open array or a
seen key) designates a defined path below `p`.  Under it the decoder accepts every value the
specification accepts at `p`, and the seen keys it adds are `rkey ++ K` with `p ++ K`
defined. -/

def Hx (σ : Store) (s : St) (rkey p : Path) : Prop :=
  ∀ K, K ≠ [] → ((findArray s.arrays (rkey ++ K)).isSome = true ∨ rkey ++ K ∈ s.seen) →
    Dfd σ (p ++ K)

def Cls (s : St) (σ : Store) (rkey p k : Path) : Prop :=
  k ∈ s.seen ∨ ∃ K, K ≠ [] ∧ k = rkey ++ K ∧ Dfd σ (p ++ K)

def New (s s' : St) (σ' : Store) (rkey p : Path) : Prop :=
  s'.arrays = s.arrays ∧ ∀ k ∈ s'.seen, Cls s σ' rkey p k

theorem Cls.mono {s : St} {σ σ' : Store} {rkey p k : Path} (h : Cls s σ rkey p k)
    (hm : Mono σ σ') : Cls s σ' rkey p k := by
  rcases h with h | ⟨K, hK, e, d⟩
  · exact .inl h
  · exact .inr ⟨K, hK, e, hm _ d⟩

theorem Cls.lift {s : St} {σ : Store} {rkey p E k : Path} (h : Cls s σ (rkey ++ E) (p ++ E) k) :
    Cls s σ rkey p k := by
  rcases h with h | ⟨K, hK, e, d⟩
  · exact .inl h
  · refine .inr ⟨E ++ K, ?_, by rw [e, List.append_assoc], by rw [← List.append_assoc]; exact d⟩
    intro h0; exact hK (List.append_eq_nil_iff.1 h0).2

theorem New.refl (s : St) (σ : Store) (rkey p : Path) : New s s σ rkey p :=
  ⟨rfl, fun _ hk => .inl hk⟩

theorem New.trans {s s1 s2 : St} {σ1 σ2 : Store} {rkey p : Path} (h1 : New s s1 σ1 rkey p)
    (h2 : New s1 s2 σ2 rkey p) (hm : Mono σ1 σ2) : New s s2 σ2 rkey p := by
  refine ⟨h2.1.trans h1.1, ?_⟩
  intro k hk
  rcases h2.2 k hk with h | h
  · exact (h1.2 k h).mono hm
  · exact .inr h

theorem Hx.step {σ σ1 : Store} {s s1 : St} {rkey p : Path} (h : Hx σ s rkey p)
    (hm : Mono σ σ1) (hn : New s s1 σ1 rkey p) : Hx σ1 s1 rkey p := by
  intro K hK hb
  rcases hb with hb | hb
  · rw [hn.1] at hb; exact hm _ (h K hK (.inl hb))
  · rcases hn.2 _ hb with h1 | ⟨K0, _, e, d⟩
    · exact hm _ (h K hK (.inr h1))
    · rw [List.append_cancel_left e]; exact d

theorem Hx.nest {σ : Store} {s : St} {rkey p : Path} (h : Hx σ s rkey p) (E : Path) :
    Hx σ s (rkey ++ E) (p ++ E) := by
  intro K hK hb
  rw [List.append_assoc] at hb ⊢
  exact h (E ++ K) (fun h0 => hK (List.append_eq_nil_iff.1 h0).2) hb

mutual
theorem decExpr_gen : ∀ (v : Val) (rkey p : Path) (s : St) (σ σ' : Store),
    defineVal p v σ = .ok σ' → Hx σ s rkey p →
    ∃ s', decodeExpr rkey p v s = .ok s' ∧ New s s' σ' rkey p
  | .sc a, rkey, p, s, σ, σ', hd, hx => by
    rw [decodeExpr]
    exact ⟨_, rfl, rfl, fun _ hk => .inl hk⟩
  | .arr xs, rkey, p, s, σ, σ', hd, hx => by
    rw [defineVal] at hd
    rw [decodeExpr]
    have hx0 : Hx (define σ p .value) { s with out := s.out ++ [(p, Leaf.arr)] } rkey p :=
      fun K hK hb => mono_define _ _ _ _ (hx K hK hb)
    obtain ⟨s', h1, n1⟩ := decElems_gen xs rkey p 0 _ _ _ hd hx0
    exact ⟨s', h1, n1⟩
  | .inl kvs, rkey, p, s, σ, σ', hd, hx => by
    rw [defineVal] at hd
    rw [decodeExpr]
    have hx0 : Hx (define σ p .value) { s with out := s.out ++ [(p, Leaf.tbl)] } rkey p :=
      fun K hK hb => mono_define _ _ _ _ (hx K hK hb)
    obtain ⟨s', h1, n1⟩ := decFields_gen kvs rkey p _ _ _ hd hx0
    exact ⟨s', h1, n1⟩
theorem decElems_gen : ∀ (xs : List Val) (rkey p : Path) (i : Nat) (s : St) (σ σ' : Store),
    defineElems p i xs σ = .ok σ' → Hx σ s rkey p →
    ∃ s', decodeElems rkey p i xs s = .ok s' ∧ New s s' σ' rkey p
  | [], rkey, p, i, s, σ, σ', hd, hx => by
    rw [defineElems] at hd; cases hd
    rw [decodeElems]
    exact ⟨s, rfl, New.refl _ _ _ _⟩
  | x :: xs, rkey, p, i, s, σ, σ', hd, hx => by
    rw [defineElems] at hd
    split at hd
    · cases hd
    · next σ1 hd1 =>
      obtain ⟨s1, h1, n1⟩ := decExpr_gen x (rkey ++ [.idx i]) (p ++ [.idx i]) s σ σ1 hd1
        (hx.nest _)
      have n1' : New s s1 σ1 rkey p := ⟨n1.1, fun k hk => (n1.2 k hk).lift⟩
      have m1 := (defineVal_mono x _ _ _ hd1).1
      obtain ⟨s2, h2, n2⟩ := decElems_gen xs rkey p (i + 1) s1 σ1 σ' hd (hx.step m1 n1')
      refine ⟨s2, ?_, n1'.trans n2 (defineElems_mono _ _ _ _ _ hd)⟩
      rw [decodeElems, h1]; exact h2
theorem decFields_gen : ∀ (kvs : List (List Name × Val)) (rkey p : Path) (s : St) (σ σ' : Store),
    defineFields p kvs σ = .ok σ' → Hx σ s rkey p →
    ∃ s', decodeFields rkey p kvs s = .ok s' ∧ New s s' σ' rkey p
  | [], rkey, p, s, σ, σ', hd, hx => by
    rw [defineFields] at hd; cases hd
    rw [decodeFields]
    exact ⟨s, rfl, New.refl _ _ _ _⟩
  | kv :: rest, rkey, p, s, σ, σ', hd, hx => by
    rw [defineFields] at hd
    split at hd
    · cases hd
    · cases hd
    · next k σ1 q hl hw =>
      simp only [] at hd
      split at hd
      · cases hd
      · next hnone =>
        split at hd
        · cases hd
        · next σ2 hd2 =>
          obtain ⟨hq, -, -⟩ := walkDotted_spec _ _ _ _ _ hw
          have m01 := walkDotted_mono _ _ _ _ _ hw
          have hleaf : q ++ [Seg.key k] = p ++ keyPath kv.1 := by
            rw [hq, List.append_assoc]
            congr 1
            have := dropLast_getLast? _ _ hl
            rw [← this]; simp [keyPath]
          rw [hleaf] at hnone hd2
          have hE : keyPath kv.1 ≠ [] := by
            intro h0
            have : kv.1 = [] := by simpa [keyPath] using h0
            rw [this] at hl; cases hl
          have hbad : ∀ (_ : (findArray s.arrays (rkey ++ keyPath kv.1)).isSome = true ∨
              rkey ++ keyPath kv.1 ∈ s.seen), False := by
            intro hb
            exact m01 _ (hx _ hE hb) hnone
          have m12 := defineVal_mono kv.2 _ _ _ hd2
          have hx1 : Hx σ1 { s with seen := (rkey ++ keyPath kv.1) :: s.seen }
              (rkey ++ keyPath kv.1) (p ++ keyPath kv.1) := by
            intro K hK hb
            rcases hb with hb | hb
            · exact m01 _ ((hx.nest _) K hK (.inl hb))
            · rcases List.mem_cons.1 hb with e | e
              · exfalso
                have := congrArg List.length e
                simp at this
                exact hK this
              · exact m01 _ ((hx.nest _) K hK (.inr e))
          obtain ⟨s1, h1, n1⟩ := decExpr_gen kv.2 _ _ _ σ1 σ2 hd2 hx1
          have n1' : New s s1 σ2 rkey p := by
            refine ⟨n1.1, ?_⟩
            intro k' hk'
            rcases n1.2 k' hk' with h | h
            · rcases List.mem_cons.1 h with e | e
              · exact .inr ⟨keyPath kv.1, hE, e, m12.2⟩
              · exact .inl e
            · exact Cls.lift (.inr h)
          obtain ⟨s2, h2, n2⟩ := decFields_gen rest rkey p s1 σ2 σ' hd
            (hx.step (m01.trans m12.1) n1')
          refine ⟨s2, ?_, n1'.trans n2 (defineFields_mono _ _ _ _ hd)⟩
          rw [decodeFields]
          rw [if_neg (fun h => hbad (.inl h)),
            if_neg (fun h => hbad (.inr (by simpa using h)))]
          simp only [h1]
          exact h2
end



/-! ### resolution along stages that are not arrays of tables; transport of the relation -/

theorem enter_of_not {σ : Store} {p : Path} (h : ¬ isAotP σ p) : enter σ p = p :=
  enter_not (fun n hn => h ⟨n, hn⟩)

theorem res_noaot (σ : Store) : ∀ (K p : Path),
    (∀ K' a K'', K = K' ++ Seg.key a :: K'' → ¬ isAotP σ (p ++ K')) → res σ p K = p ++ K
  | [], p, _ => by simp [res]
  | .key a :: K, p, h => by
    rw [res, enter_of_not (by simpa using h [] a K rfl), res_noaot σ K]
    · simp
    · intro K' b K'' e
      have := h (.key a :: K') b K'' (by rw [e]; rfl)
      simpa using this
  | .idx i :: K, p, h => by
    rw [res, res_noaot σ K]
    · simp
    · intro K' b K'' e
      have := h (.idx i :: K') b K'' (by rw [e]; rfl)
      simpa using this

theorem isAotP_congr {σ σ' : Store} (h : SameAot σ σ') (r : Path) : isAotP σ r ↔ isAotP σ' r :=
  ⟨fun ⟨n, hn⟩ => ⟨n, (h r n).1 hn⟩, fun ⟨n, hn⟩ => ⟨n, (h r n).2 hn⟩⟩

theorem ArrOk.transport {σ σ' : Store} {a : OpenArr} (h : ArrOk σ a) (sa : SameAot σ σ') :
    ArrOk σ' a :=
  ⟨h.pure, by rw [← res_congr sa]; exact h.list, (sa _ _).1 h.kind, h.pos, h.last⟩

/-- the components of `Rel` that depend on the store only through its arrays of tables and
its header/value paths survive every store extension that keeps those -/
theorem Rel.transport {σs : SSt} {s : St} (hr : Rel σs s) {σ' : Store}
    (sa : SameAot σs.store σ') (st : Stable σs.store σ') :
    res σ' [] s.curKey = σs.cur ∧ ¬ isAotP σ' σs.cur ∧
    (∀ a ∈ s.arrays, ArrOk σ' a) ∧
    (∀ hs : List Name, isAotP σ' (res σ' [] (keyPath hs)) → ∃ a ∈ s.arrays, a.rkey = keyPath hs) ∧
    (∀ k ∈ s.seen, HV σ' (res σ' [] k)) ∧
    (∀ k ∈ s.seen, ∀ k1 a k2, k = k1 ++ Seg.key a :: k2 → isAotP σ' (res σ' [] k1) → PureKey k1) ∧
    AotKey σ' := by
  refine ⟨by rw [← res_congr sa]; exact hr.curRes, fun h => hr.curNA ((isAotP_congr sa _).2 h),
    fun a ha => (hr.arrOk a ha).transport sa, ?_, ?_, ?_, ?_⟩
  · intro hs h
    rw [← res_congr sa] at h
    exact hr.arrAll hs ((isAotP_congr sa _).2 h)
  · intro k hk
    rw [← res_congr sa]; exact st _ (hr.seenHV k hk)
  · intro k hk k1 a k2 e h
    rw [← res_congr sa] at h
    exact hr.seenPure k hk k1 a k2 e ((isAotP_congr sa _).2 h)
  · intro r h
    exact hr.aotKey r ((isAotP_congr sa _).2 h)



end CueVerif.Toml
