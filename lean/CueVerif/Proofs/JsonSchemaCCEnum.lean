/-
C13 — exactness of the constraints emitted by `constraintConst`, `constraintEnum` and
`constraintUniqueItems` (as transcribed) w.r.t. the oracle, on normal-form data.  Core Lean only.
-/
import CueVerif.Proofs.JsonSchemaCC
import CueVerif.Proofs.JsonSchemaCCLit
namespace CueVerif.CCm
open CueVerif.JS CueVerif.Skel

variable (re : String → String → Bool)

/-- `const`: the literal `constValue(v)` accepts exactly the instances equal to `v` -/
theorem const_exact (rec res kws) (v j : Json) (hv : normal v = true) (hj : normal j = true) :
    kwHolds re rec res kws (.const v) j = some (acc re (.lit v) j) := by
  simp only [kwHolds, acc, litEq_eq_jeq v j hv hj]

/-- `uniqueItems: true` ↦ `list.UniqueItems()` -/
theorem uniqueItems_exact (rec res kws) (j : Json) (hj : normal j = true) :
    kwHolds re rec res kws (.uniqueItems true) j = some (coreOf j != .array || acc re .uniqueItems j) := by
  cases j with
  | arr xs =>
    have hx : normalList xs = true := by simpa [normal] using hj
    simp [kwHolds, acc, coreOf, allDistinctLit_eq xs hx]
  | _ => simp [kwHolds, acc, coreOf]

/-- equal data (normal form) have the same CUE kind -/
theorem kindOf_of_jeq (v j : Json) (hv : normal v = true) (hj : normal j = true)
    (h : jeq v j = true) : kindOf v = kindOf j := by
  cases v <;> cases j <;> simp [jeq] at h <;> try rfl
  rename_i a b
  have ha : normalNum a = true := by simpa [normal] using hv
  have hb : normalNum b = true := by simpa [normal] using hj
  have hsym : b.eq a = true := by
    simp only [Num.eq, decide_eq_true_eq] at h ⊢
    exact h.symm
  have h' : a.eq b = true := by simpa [Num.eq] using h
  simp only [kindOf]
  cases h1 : isIntLit a <;> cases h2 : isIntLit b <;> simp
  · have := lit_of_eq b a ha hsym h2; rw [h1] at this; cases this
  · have := lit_of_eq a b hb h' h1; rw [h2] at this; cases this

/-- `enum`: dropping the values whose kind is not allowed loses nothing for an instance whose own
kind is allowed, and the disjunction of the kept literals accepts exactly the equal instances -/
theorem enum_filter_exact (allowed : KSet) (vs : List Json) (j : Json)
    (hvs : ∀ v ∈ vs, normal v = true) (hj : normal j = true) (hk : allowed (kindOf j) = true) :
    (vs.filter (fun v => allowed (kindOf v))).any (litEq · j) = vs.any (jeq · j) := by
  induction vs with
  | nil => rfl
  | cons v r ih =>
    have hv := hvs v (List.mem_cons_self ..)
    have ihr := ih (fun x hx => hvs x (List.mem_cons_of_mem _ hx))
    rw [List.filter_cons, List.any_cons, ← ihr]
    cases he : jeq v j
    · split
      · rw [List.any_cons, litEq_eq_jeq v j hv hj, he]
      · rfl
    · have hkind := kindOf_of_jeq v j hv hj he
      rw [hkind, hk, if_pos rfl, List.any_cons, litEq_eq_jeq v j hv hj, he]

theorem acc_lits (a : Json) (r : List Json) (j : Json) :
    acc re (foldOr (.lit a) (r.map CC.lit)) j = (a :: r).any (litEq · j) := by
  rw [acc_foldOr]
  simp [acc, List.any_map, Function.comp_def]

/-- the all-constraint `constraintEnum` adds (if any) holds iff the `enum` keyword does; with no
value kept the keyword fails for every instance whose kind is allowed -/
theorem enum_exact (rec res kws) (allowed : KSet) (vs : List Json) (j : Json)
    (hvs : ∀ v ∈ vs, normal v = true) (hj : normal j = true) (hk : allowed (kindOf j) = true) :
    kwHolds re rec res kws (.enum vs) j = some
      (match (vs.filter (fun v => allowed (kindOf v))).map CC.lit with
       | [] => false
       | c :: cs => acc re (foldOr c cs) j) := by
  simp only [kwHolds]
  rw [← enum_filter_exact allowed vs j hvs hj hk]
  cases hf : vs.filter (fun v => allowed (kindOf v)) with
  | nil => rfl
  | cons a r =>
    simp only [List.map_cons]
    rw [acc_lits]

end CueVerif.CCm
