/-
C11 — lemmas about the YAML decision model (core Lean only).
-/
import CueVerif.Spec.Yaml
import CueVerif.Proofs.YamlRe
import CueVerif.Proofs.QuoteMain
namespace CueVerif.Yaml
open CueVerif.Quote (Bytes)

/-! ### a quoting decision never shows as a plain scalar -/

theorem visible_ne_plain_of_ne_lib (d : Decision) (libq : Bool) (h : d ≠ .lib) : d.visible libq ≠ .plain := by
  cases d <;> simp_all [Decision.visible]

theorem shouldQuote_of_core (P : IsPrint) (lx : Lex) (s : Bytes) (h : shouldQuoteCore lx s = true) :
    shouldQuote P lx s = true := by simp [shouldQuote, h]

theorem quoteScalar_ne_lib (P : IsPrint) (lx : Lex) (s : Bytes)
    (h : needsSingleQuoting s = true ∨ shouldQuoteCore lx s = true) : quoteScalar P lx s ≠ .lib := by
  unfold quoteScalar
  split
  · simp
  · have : (shouldQuote P lx s || needsSingleQuoting s) = true := by
      rcases h with h | h
      · simp [h]
      · simp [shouldQuote_of_core P lx s h]
    simp [this]

theorem quoted_of (lx : Lex) (s : Bytes) (h : needsSingleQuoting s = true ∨ shouldQuoteCore lx s = true) :
    Quoted lx s := by
  intro P libq multi
  have hq := quoteScalar_ne_lib P lx s h
  constructor
  · apply visible_ne_plain_of_ne_lib
    unfold valueDecision
    split
    · split <;> simp
    · split
      · simp
      · exact hq
  · apply visible_ne_plain_of_ne_lib
    unfold keyDecision
    split
    · rename_i heq; exact absurd heq hq
    · rename_i d hd; intro h'; exact hd (by simpa using h')

/-! ### the finite tables -/

/-- every lexer verdict -/
def allLex : List Lex :=
  [true, false].flatMap fun a =>
    [Tok.str, .bool, .null, .implicitNull, .inf, .nan, .merge, .int, .float, .quoted, .other].flatMap fun t =>
      [true, false].map fun c => { single := a, ty := t, same := c }

theorem mem_allLex (lx : Lex) : lx ∈ allLex := by
  cases lx with | mk a t c => cases a <;> cases t <;> cases c <;> decide

theorem boolWords_all : boolWords.all (fun s => allLex.all fun lx => shouldQuoteCore lx s) = true := by decide

theorem boolWords_quoted (s : Bytes) (hs : s ∈ boolWords) (lx : Lex) : shouldQuoteCore lx s = true := by
  have h := boolWords_all
  rw [List.all_eq_true] at h
  have h2 := h s hs
  rw [List.all_eq_true] at h2
  exact h2 lx (mem_allLex lx)

/-- executable form of `CoreTyped` -/
def coreTypedB (lx : Lex) (s : Bytes) : Bool :=
  lx.single && (lx.ty == coreTok s || (lx.ty == .str && lx.same && (specialFloat s).isSome))

theorem coreWords_all : coreWords.all (fun s => allLex.all fun lx =>
    !coreTypedB lx s || needsSingleQuoting s || shouldQuoteCore lx s) = true := by decide

theorem coreWords_quoted (s : Bytes) (hs : s ∈ coreWords) (lx : Lex) (h : CoreTyped lx s) :
    needsSingleQuoting s = true ∨ shouldQuoteCore lx s = true := by
  have h0 := coreWords_all
  rw [List.all_eq_true] at h0
  have h2 := h0 s hs
  rw [List.all_eq_true] at h2
  have h3 := h2 lx (mem_allLex lx)
  have hc : coreTypedB lx s = true := by
    obtain ⟨h1, h4⟩ := h
    unfold coreTypedB
    rcases h4 with h4 | ⟨h4, h5, h6⟩
    · simp [h1, h4]
    · simp [h1, h4, h5, h6]
  simp [hc] at h3
  rcases h3 with h3 | h3
  · exact Or.inl h3
  · exact Or.inr h3

/-! ### plain ⇒ string -/

theorem specialFloat_start (c : Nat) (t : Bytes) (h : (specialFloat (c :: t)).isSome = true) :
    nonStringStarts.contains c = true := by
  unfold specialFloat at h
  rw [Option.isSome_map] at h
  obtain ⟨p, hp⟩ := Option.isSome_iff_exists.mp h
  have hmem := List.mem_of_find?_eq_some hp
  have heq := List.find?_some hp
  have hall : specialFloats.all (fun p => match p.1 with
      | [] => true
      | c :: _ => nonStringStarts.contains c) = true := by decide
  have h2 := (List.all_eq_true.mp hall) p hmem
  have h1 : p.1 = c :: t := by simpa using heq
  rw [h1] at h2
  exact h2

theorem lib_of_plain (d : Decision) (libq : Bool) (h : d.visible libq = .plain) : d = .lib ∧ libq = false := by
  cases d <;> cases libq <;> simp_all [Decision.visible]

theorem quoteScalar_lib (P : IsPrint) (lx : Lex) (s : Bytes) (h : quoteScalar P lx s = .lib) :
    needsSingleQuoting s = false ∧ shouldQuoteCore lx s = false := by
  unfold quoteScalar at h
  split at h
  · simp at h
  · split at h
    · simp at h
    · rename_i h2
      simp only [shouldQuote, Bool.or_eq_true, not_or, Bool.not_eq_true] at h2
      exact ⟨h2.2, h2.1.1⟩

theorem valueDecision_lib (P : IsPrint) (lx : Lex) (s : Bytes) (multi : Bool)
    (h : valueDecision P lx s multi = .lib) : quoteScalar P lx s = .lib := by
  unfold valueDecision at h
  split at h
  · split at h <;> simp at h
  · split at h
    · simp at h
    · exact h

theorem keyDecision_lib (P : IsPrint) (lx : Lex) (s : Bytes) (h : keyDecision P lx s = .lib) :
    quoteScalar P lx s = .lib := by
  unfold keyDecision at h
  split at h
  · rename_i heq; exact heq
  · rename_i d hd; exact absurd h hd

/-- the heart: a string that the in-repo decision does not quote and that the lexer hands to
the decoder as one scalar token with the same text is classified as that string -/
theorem decode_str_of_not_quoted (lx : Lex) (s : Bytes)
    (hsingle : lx.single = true) (hsame : lx.same = true)
    (hty : lx.ty = .str ∨ lx.ty.nonString = true)
    (hstart : ∀ c t, s = c :: t → nonStringStarts.contains c = false → lx.same = true →
      lx.ty.nonString = false)
    (hq : shouldQuoteCore lx s = false) : decodeScalar lx.ty s = .str s := by
  cases s with
  | nil => simp [shouldQuoteCore] at hq
  | cons c t =>
    -- the decoder-side facts we need: no special float, not a number
    have key : lx.ty = .str ∧ (specialFloat (c :: t)).isSome = false ∧ numberKind (c :: t) = .illegal := by
      by_cases hc : nonStringStarts.contains c = true
      · -- the encoder consulted the lexer
        have hd : decodesAsNonString lx (c :: t) = false := by
          unfold shouldQuoteCore at hq
          simp only at hq
          split at hq
          · simp at hq
          · split at hq
            · simp at hq
            · simp only [Bool.or_eq_false_iff] at hq; exact hq.1
        unfold decodesAsNonString at hd
        simp only [hc, hsingle, Bool.not_true, Bool.false_eq_true, ↓reduceIte] at hd
        rcases hty with hty | hty
        · rw [hty] at hd
          simp only [hsame, Bool.not_true, Bool.false_eq_true, ↓reduceIte] at hd
          by_cases hsf : (specialFloat (c :: t)).isSome = true
          · simp [hsf] at hd
          · simp only [hsf, Bool.false_eq_true, ↓reduceIte] at hd
            refine ⟨hty, by simpa using hsf, ?_⟩
            simpa using hd
        · exfalso
          cases hlt : lx.ty <;> rw [hlt] at hd hty <;> simp_all [Tok.nonString]
      · have hc' : nonStringStarts.contains c = false := by simpa using hc
        have hns := hstart c t rfl hc' hsame
        have hstr : lx.ty = .str := by
          rcases hty with hty | hty
          · exact hty
          · rw [hns] at hty; cases hty
        refine ⟨hstr, ?_, ?_⟩
        · apply Classical.byContradiction
          intro hsf
          have hsome : (specialFloat (c :: t)).isSome = true := by
            cases hv : specialFloat (c :: t) with
            | none => rw [hv] at hsf; exact absurd rfl hsf
            | some v => rfl
          have := specialFloat_start c t hsome
          rw [hc'] at this; cases this
        · apply Classical.byContradiction
          intro hnk
          obtain ⟨c', t', he, hcc⟩ := numberKind_start_nonString (c :: t) hnk
          cases he
          rw [hc'] at hcc; cases hcc
    obtain ⟨h1, h2, h3⟩ := key
    unfold decodeScalar
    rw [h1]
    have : specialFloat (c :: t) = none := by
      cases hsf : specialFloat (c :: t) with
      | none => rfl
      | some v => rw [hsf] at h2; cases h2
    simp [this, h3]

/-! ### numbers are quoted -/

theorem shouldQuote_of_number (lx : Lex) (s : Bytes) (hn : numberKind s ≠ .illegal) (hl : LexScalar lx) :
    shouldQuoteCore lx s = true := by
  obtain ⟨c, t, he, hc⟩ := numberKind_start_nonString s hn
  subst he
  obtain ⟨hs, hty⟩ := hl
  unfold shouldQuoteCore
  simp only
  split
  · rfl
  · split
    · rfl
    · have : decodesAsNonString lx (c :: t) = true := by
        unfold decodesAsNonString
        simp only [hc, hs, Bool.not_true, Bool.false_eq_true, ↓reduceIte]
        rcases hty with hty | ⟨hty, hsame⟩
        · cases hlt : lx.ty <;> rw [hlt] at hty <;> simp_all [Tok.nonString]
        · rw [hty]
          simp only [hsame, Bool.not_true, Bool.false_eq_true, ↓reduceIte]
          split
          · rfl
          · simpa using hn
      simp [this]

/-- the byte pre-filter in front of the two regexps never changes their verdict -/
theorem shouldQuote_of_regexp (lx : Lex) (s : Bytes)
    (h : reUseQuote.matches s = true ∨ reAnyOctal.matches s = true) : shouldQuoteCore lx s = true := by
  cases s with
  | nil => rfl
  | cons c t =>
    have hc : regexpStarts.contains c = true := by
      rcases h with h | h
      · exact useQuote_first c t h
      · exact anyOctal_first c t h
    unfold shouldQuoteCore
    simp only
    split
    · rfl
    · have : (reUseQuote.matches (c :: t) || reAnyOctal.matches (c :: t)) = true := by
        rcases h with h | h <;> simp [h]
      rw [if_pos (by rw [hc, this]; rfl)]

/-! ### single quotes and the library never see what needs escaping -/

theorem quoteScalar_single (P : IsPrint) (lx : Lex) (s : Bytes) (h : quoteScalar P lx s = .single) :
    yamlUnprintable P s = false ∧ s.contains 10 = false := by
  unfold quoteScalar at h
  split at h
  · rename_i hc
    simp only [Bool.and_eq_true, Bool.not_eq_true'] at hc
    exact ⟨hc.1.2, hc.2⟩
  · split at h <;> simp at h

theorem blockLiteralSafe_printable (P : IsPrint) (s : Bytes) (h : blockLiteralSafe P s = true) :
    yamlUnprintable P s = false := by
  unfold blockLiteralSafe at h
  split at h
  · simp at h
  · split at h
    · simp at h
    · split at h
      · simp at h
      · split at h
        · simp at h
        · split at h
          · simp at h
          · simpa using h

theorem quoteScalar_unprintable (P : IsPrint) (lx : Lex) (s : Bytes) (h : yamlUnprintable P s = true) :
    quoteScalar P lx s = .double := by
  unfold quoteScalar
  simp [h, shouldQuote]

theorem valueDecision_unprintable (P : IsPrint) (lx : Lex) (s : Bytes) (multi : Bool)
    (h : yamlUnprintable P s = true) : valueDecision P lx s multi = .double := by
  have hb : blockLiteralSafe P s = false := by
    cases hv : blockLiteralSafe P s with
    | false => rfl
    | true => rw [blockLiteralSafe_printable P s hv] at h; cases h
  unfold valueDecision
  simp [hb, quoteScalar_unprintable P lx s h]

theorem keyDecision_unprintable (P : IsPrint) (lx : Lex) (s : Bytes)
    (h : yamlUnprintable P s = true) : keyDecision P lx s = .double := by
  unfold keyDecision
  rw [quoteScalar_unprintable P lx s h]

/-! ### escapes -/

theorem goEscape_lt (l : Nat) (h : (goEscape l).isSome = true) : l < 128 := by
  apply Classical.byContradiction
  intro hl
  have hne : ∀ n : Nat, n < 128 → (l == n) = false := by
    intro n hn; simp; omega
  simp [goEscape, hne] at h

theorem escapes_table : ∀ l, l < 128 → (goEscape l).isSome = true → yamlEscape l = goEscape l := by decide

theorem go_escape_is_yaml_escape (l : Nat) (e : Esc) (h : goEscape l = some e) : yamlEscape l = some e := by
  have hs : (goEscape l).isSome = true := by simp [h]
  rw [escapes_table l (goEscape_lt l hs) hs, h]

/-! ### literal blocks: the two witnesses of the defect repaired by /repo 05f5435 -/

theorem block_lone_newline : blockLiteralSafeOld asciiPrint [10] = true ∧
    parseBlock (emitBlock 2 [10]).1 (emitBlock 2 [10]).2 = [] := by decide

theorem block_blank_then_indented : blockLiteralSafeOld asciiPrint (b "\n a") = true ∧
    parseBlock (emitBlock 2 (b "\n a")).1 (emitBlock 2 (b "\n a")).2 = b "\na" := by decide

theorem block_rejects_witnesses (P : IsPrint) : blockLiteralSafe P [10] = false ∧
    blockLiteralSafe P (b "\n a") = false ∧ blockLiteralSafe P (b "\n\n") = false := by
  refine ⟨rfl, rfl, rfl⟩

end CueVerif.Yaml
