/-
C10, document level: the statements of Props/C10.lean about whole documents, assembled from
Proofs/JsonDoc.lean.  Core Lean only.
-/
import CueVerif.Proofs.JsonDoc
namespace CueVerif.Json
open CueVerif CueVerif.Quote

/-- marshal, then read with the RFC 8259 reference parser: exactly the data of the value, for
every finite value tree -/
theorem doc_roundtrip (v : MVal) (hwf : v.WF) : parseJSON (appendJSON v) = some (dataOf v) := by
  obtain ⟨c, t, hct, hc⟩ := appendJSON_head v
  have hws := (valStart_facts hc).1
  have h := pValue_append v hwf [] rfl ((appendJSON v).length + 1) (by omega)
  rw [List.append_nil] at h
  have hsk : skipWs (appendJSON v) = appendJSON v := by rw [hct]; exact skipWs_cons t hws
  have hnil : skipWs ([] : Bytes) = [] := rfl
  simp [parseJSON, hsk, h, hnil]

/-- the same with anything after the value that cannot continue a number (a separator, the
next document of a stream): the value is read and the rest is left untouched -/
theorem doc_prefix (v : MVal) (hwf : v.WF) (rest : Bytes) (hs : numStop rest = true) :
    pValue ((appendJSON v ++ rest).length + 1) (appendJSON v ++ rest) = some (dataOf v, rest) :=
  pValue_append v hwf rest hs _ (by simp only [List.length_append]; omega)

/-- numbers, through the executable grammar: what apd's 'G' format prints is read by the
reference parser as exactly the decimal printed -/
theorem number_out_parsed (neg : Bool) (coeff : Nat) (exp : Int) :
    parseJSON (fmtG neg coeff exp) = some (.num neg coeff exp) := by
  have := doc_roundtrip (.num neg coeff exp) (by simp [MVal.WF])
  simpa [appendJSON, dataOf] using this

/-- strings, through the executable grammar -/
theorem string_out_parsed (s : Bytes) (hb : IsBytes s) (hv : validUTF8 s = true) :
    parseJSON (jsonEscape s) = some (.str s) := by
  have := doc_roundtrip (.str s) (by simp [MVal.WF, hb, hv])
  simpa [appendJSON, dataOf] using this

/-- what the encoder writes always begins with the first byte of a JSON value (never white
space, never a separator or closing bracket) -/
theorem doc_head (v : MVal) : ∃ c t, appendJSON v = c :: t ∧ valStart c = true := appendJSON_head v

end CueVerif.Json
