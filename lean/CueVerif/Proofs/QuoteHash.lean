/-
C09: the raw-copy path of `Form.Append` with `WithOptionalHashes` (single-line, h ≥ 1 hashes).
-/
import CueVerif.Proofs.Quote
namespace CueVerif.Quote

/-- s begins with two quote characters and the next byte (if any) is not '#' -/
def startsTwoQuotes (q : Nat) (s : Bytes) : Bool :=
  match s with
  | a :: b :: rest => a == q && b == q && rest.head? != some 0x23
  | _ => false

/-! ### `hashRun` -/

theorem hashRun_nil : hashRun [] = 0 := by simp [hashRun]

theorem hashRun_cons_hash (t : Bytes) : hashRun (0x23 :: t) = hashRun t + 1 := by simp [hashRun]

theorem hashRun_cons_ne (a : Nat) (t : Bytes) (h : a ≠ 0x23) : hashRun (a :: t) = 0 := by
  unfold hashRun
  split
  · next heq => simp at heq; omega
  · rfl

theorem hashRun_hashes (h c : Nat) (X : Bytes) (hc : c ≠ 0x23) : hashRun (hashes h ++ c :: X) = h := by
  induction h with
  | zero => simpa [hashes] using hashRun_cons_ne c X hc
  | succ n ih =>
    have : hashes (n + 1) ++ c :: X = 0x23 :: (hashes n ++ c :: X) := by
      simp [hashes, List.replicate_succ]
    rw [this, hashRun_cons_hash, ih]

/-- if `h` hashes are a prefix of `rest ++ c :: X` with `c` not a hash, `rest` starts with `h` hashes -/
theorem hashes_prefix_run (h : Nat) : ∀ (rest : Bytes) (c : Nat) (X : Bytes), c ≠ 0x23 →
    (hashes h).isPrefixOf (rest ++ c :: X) = true → h ≤ hashRun rest := by
  induction h with
  | zero => intros; omega
  | succ n ih =>
    intro rest c X hc hp
    have hh : hashes (n + 1) = 0x23 :: hashes n := by simp [hashes, List.replicate_succ]
    rw [hh] at hp
    match rest with
    | [] =>
      simp only [List.nil_append, List.isPrefixOf, Bool.and_eq_true, beq_iff_eq] at hp
      omega
    | a :: r =>
      simp only [List.cons_append, List.isPrefixOf, Bool.and_eq_true, beq_iff_eq] at hp
      rw [← hp.1, hashRun_cons_hash]
      have := ih r c X hc hp.2
      omega

/-! ### `slhcLoop` -/

theorem slhc_cons (E : Env) (f : Form) (b0 : Nat) (rest : Bytes) (acc : Nat) :
    slhcLoop E f (b0 :: rest) acc =
      if (decide (0x80 ≤ b0) && (decodeFirst b0 rest).2 == 1) then none
      else if !f.isPrint E (decodeFirst b0 rest).1 then none
      else if (decodeFirst b0 rest).1 == f.quote || (decodeFirst b0 rest).1 == 0x5C then
        slhcLoop E f (rest.drop ((decodeFirst b0 rest).2 - 1))
          (max acc (hashRun (rest.drop ((decodeFirst b0 rest).2 - 1)) + 1))
      else slhcLoop E f (rest.drop ((decodeFirst b0 rest).2 - 1)) acc := by
  conv => lhs; unfold slhcLoop

/-- one iteration of `singleLineHashCountOld`'s loop that does not bail out: the head of the
string is a printable good unit, and after a quote or a backslash the accumulator exceeds
the run of hashes that follows -/
theorem slhc_step {E : Env} {f : Form} {b0 : Nat} {rest : Bytes} {acc n : Nat}
    (hs : slhcLoop E f (b0 :: rest) acc = some n) :
    ∃ r orig rest' acc', b0 :: rest = orig ++ rest' ∧ GoodUnit r orig ∧ f.isPrint E r = true ∧
      rest'.length ≤ rest.length ∧ acc ≤ acc' ∧ slhcLoop E f rest' acc' = some n ∧
      ((r = f.quote ∨ r = 0x5C) → hashRun rest' + 1 ≤ acc') := by
  rw [slhc_cons] at hs
  obtain ⟨hw1, hcase⟩ := decodeFirst_cases b0 rest
  split at hs
  · cases hs
  next hbad =>
  split at hs
  · cases hs
  next hpr =>
  have hgood : GoodUnit (decodeFirst b0 rest).1 ((b0 :: rest).take (decodeFirst b0 rest).2) := by
    rcases hcase with ⟨hg, _⟩ | ⟨h80, hw, _⟩
    · exact hg
    · exfalso; apply hbad; simp [h80, hw]
  have hpr' : f.isPrint E (decodeFirst b0 rest).1 = true := by simpa using hpr
  refine ⟨(decodeFirst b0 rest).1, (b0 :: rest).take (decodeFirst b0 rest).2,
    rest.drop ((decodeFirst b0 rest).2 - 1), ?_⟩
  split at hs
  · exact ⟨_, (take_drop_unit b0 rest _ hw1).symm, hgood, hpr', by simp, Nat.le_max_left _ _, hs,
      fun _ => Nat.le_max_right _ _⟩
  · next hq =>
    refine ⟨acc, (take_drop_unit b0 rest _ hw1).symm, hgood, hpr', by simp, Nat.le_refl _, hs, ?_⟩
    intro h
    exfalso; apply hq
    rcases h with h | h <;> simp [h]

/-- the accumulator only grows -/
theorem slhc_mono {E : Env} {f : Form} : ∀ (k : Nat) (t : Bytes) (acc n : Nat), t.length ≤ k →
    slhcLoop E f t acc = some n → acc ≤ n := by
  intro k
  induction k with
  | zero =>
    intro t acc n hk hs
    have : t = [] := List.length_eq_zero_iff.mp (by omega)
    subst this
    simp [slhcLoop] at hs; omega
  | succ k ih =>
    intro t acc n hk hs
    match t with
    | [] => simp [slhcLoop] at hs; omega
    | b0 :: rest =>
      obtain ⟨r, orig, rest', acc', _, _, _, hlen, hacc, hs', _⟩ := slhc_step hs
      have := ih rest' acc' n (by simp at hk; omega) hs'
      omega

theorem slhc_pos {E : Env} {f : Form} {s : Bytes} {h : Nat} (hs : slhcLoop E f s 1 = some h) : 1 ≤ h :=
  slhc_mono s.length s 1 h (Nat.le_refl _) hs

/-- no byte of a string accepted by the loop is a line feed -/
theorem slhc_no_nl {E : Env} (hE : E.Ok) {f : Form} : ∀ (k : Nat) (t : Bytes) (acc n : Nat), t.length ≤ k →
    slhcLoop E f t acc = some n → ∀ b ∈ t, b ≠ 10 := by
  intro k
  induction k with
  | zero =>
    intro t acc n hk hs b hb
    have : t = [] := List.length_eq_zero_iff.mp (by omega)
    subst this
    simp at hb
  | succ k ih =>
    intro t acc n hk hs b hb
    match t with
    | [] => simp at hb
    | b0 :: rest =>
      obtain ⟨r, orig, rest', acc', hsplit, hg, hpr, hlen, _, hs', _⟩ := slhc_step hs
      rw [hsplit, List.mem_append] at hb
      rcases hb with hb | hb
      · rcases hg with ⟨_, rfl⟩ | ⟨h80, _, _, henc⟩
        · simp at hb; subst hb
          exact (Form.isPrint_not_ctl hE f _ hpr).2.1
        · rw [← henc] at hb
          have := (encodeRune_bytes_high r h80 b hb).1
          omega
      · exact ih rest' acc' n (by simp at hk; omega) hs' b hb

/-! ### `unquoteChar` on raw quotes and backslashes -/

theorem hashes_not_prefix (h : Nat) (rest : Bytes) (c : Nat) (X : Bytes) (hc : c ≠ 0x23)
    (hr : hashRun rest < h) : (hashes h).isPrefixOf (rest ++ c :: X) = false := by
  rw [Bool.eq_false_iff]
  intro hp
  have := hashes_prefix_run h rest c X hc hp
  omega

/-- a raw quote character that is not followed by `numHash` hashes is a plain character -/
theorem uc_quote_raw (q : QuoteInfo) (hq : q.char = 0x22 ∨ q.char = 0x27) (hm : q.multiline = false)
    (X : Bytes) (hnp : (hashes q.numHash).isPrefixOf X = false) :
    unquoteChar (q.char :: X) q = .ok (.char q.char false, X) := by
  have h0 : (q.char != 0) = true := by rcases hq with h | h <;> simp [h]
  have hc : q.closing = q.char :: hashes q.numHash := by
    simp [QuoteInfo.closing, QuoteInfo.numChar, hm]
  simp [unquoteChar, h0, hc, hnp]

/-- a raw backslash that is not followed by `numHash` hashes is a plain character -/
theorem uc_bs_raw (q : QuoteInfo) (hq : q.char = 0x22 ∨ q.char = 0x27)
    (X : Bytes) (hnp : (hashes q.numHash).isPrefixOf X = false) :
    unquoteChar (0x5C :: X) q = .ok (.char 0x5C false, X) := by
  have h1 : ((0x5C : Nat) == q.char) = false := by rcases hq with h | h <;> simp [h]
  have h2 : ¬ (0x80 ≤ (0x5C : Nat)) := by decide
  simp [unquoteChar, h1, h2, hnp]

/-! ### the main loop over a raw body -/

theorem loop_hashes {E : Env} (hE : E.Ok) (f : Form) (hf : f.WF) (q : QuoteInfo)
    (hqc : q.char = f.quote) (hm : q.multiline = false) :
    ∀ (k : Nat) (t : Bytes) (acc n : Nat), t.length ≤ k → slhcLoop E f t acc = some n →
      n ≤ q.numHash →
    ∀ (fuel : Nat) (buf : Bytes), t.length + 1 ≤ fuel →
      unquoteLoop q fuel (t ++ (q.char :: hashes q.numHash)) buf false false = .ok (buf ++ t) := by
  have hq : q.char = 0x22 ∨ q.char = 0x27 := by rcases hf with h | h <;> simp [hqc, h.1]
  have hq23 : q.char ≠ 0x23 := by rcases hq with h | h <;> simp [h]
  intro k
  induction k with
  | zero =>
    intro t acc n hk _ _ fuel buf hfuel
    have : t = [] := List.length_eq_zero_iff.mp (by omega)
    subst this
    obtain ⟨j, rfl⟩ : ∃ j, fuel = j + 1 := ⟨fuel - 1, by omega⟩
    simp [loop_step_close q hq hm]
  | succ k ih =>
    intro t acc n hk hs hn fuel buf hfuel
    match t with
    | [] =>
      obtain ⟨j, rfl⟩ : ∃ j, fuel = j + 1 := ⟨fuel - 1, by omega⟩
      simp [loop_step_close q hq hm]
    | b0 :: rest =>
      obtain ⟨j, rfl⟩ : ∃ j, fuel = j + 1 := ⟨fuel - 1, by omega⟩
      obtain ⟨r, orig, rest', acc', hsplit, hg, hpr, hlen, hacc, hs', hrun⟩ := slhc_step hs
      have hctl := Form.isPrint_not_ctl hE f r hpr
      have hmono := slhc_mono rest'.length rest' acc' n (Nat.le_refl _) hs'
      have hk' : rest'.length ≤ k := by simp at hk; omega
      have hj : rest'.length + 1 ≤ j := by simp at hfuel; omega
      have hih := ih rest' acc' n hk' hs' hn j
      rcases hg with ⟨hr80, rfl⟩ | ⟨hr80, hrmax, hrsur, henc⟩
      · -- an ASCII unit
        simp only [List.cons_append, List.nil_append, List.cons.injEq] at hsplit
        obtain ⟨rfl, rfl⟩ := hsplit
        have huc : unquoteChar (b0 :: (rest ++ (q.char :: hashes q.numHash))) q
            = .ok (.char b0 false, rest ++ (q.char :: hashes q.numHash)) := by
          by_cases h1 : b0 = q.char
          · have hnp := hashes_not_prefix q.numHash rest q.char (hashes q.numHash) hq23
              (by have := hrun (Or.inl (h1.trans hqc)); omega)
            rw [h1]; exact uc_quote_raw q hq hm _ hnp
          · by_cases h2 : b0 = 0x5C
            · have hnp := hashes_not_prefix q.numHash rest q.char (hashes q.numHash) hq23
                (by have := hrun (Or.inr h2); omega)
              rw [h2]; exact uc_bs_raw q hq _ hnp
            · exact uc_plain q b0 _ hr80 hctl.1 h2 h1
        show unquoteLoop q (j + 1) (b0 :: (rest ++ (q.char :: hashes q.numHash))) buf false false = _
        rw [loop_step_char q b0 _ hctl.2.2 hctl.2.1 b0 false _ huc (by omega)]
        have hmod : b0 % 256 = b0 := by omega
        rw [hih _ hj]
        simp [pushChar, hmod]
      · -- a multi-byte unit
        have huc := uc_multibyte q hq r (rest' ++ (q.char :: hashes q.numHash)) hr80 hrmax hrsur
        have hbh := encodeRune_bytes_high r hr80
        have hl := encodeRune_length r hr80
        rw [hsplit, ← henc]
        match he : encodeRune r with
        | [] => rw [he] at hl; simp at hl
        | c :: cs =>
          rw [he] at huc hbh
          have hc := (hbh c (by simp)).1
          show unquoteLoop q (j + 1) (c :: (cs ++ rest' ++ (q.char :: hashes q.numHash))) buf false false = _
          have huc' : unquoteChar (c :: (cs ++ rest' ++ (q.char :: hashes q.numHash))) q
              = .ok (.char r true, rest' ++ (q.char :: hashes q.numHash)) := by
            simpa using huc
          rw [loop_step_char q c _ (by omega) (by omega) r true _ huc' hrsur]
          rw [hih _ hj]
          simp [pushChar, he]

/-! ### `parseQuotes` on `#…#"s"#…#` -/

theorem take_hashes (h c : Nat) (X : Bytes) : (hashes h ++ c :: X).take (1 + h) = hashes h ++ [c] := by
  have hl : (hashes h).length = h := by simp [hashes]
  rw [List.take_append, hl]
  have : 1 + h - h = 1 := by omega
  rw [this, List.take_of_length_le (by omega)]
  simp

theorem reverse_hashes (h : Nat) : (hashes h).reverse = hashes h := by simp [hashes]

/-- the opener of a raw single-line literal is not taken for a multi-line opener -/
theorem not_multi_opener (q : Nat) (hq23 : q ≠ 0x23) (s : Bytes) (h : Nat) (hpos : 1 ≤ h)
    (h2 : startsTwoQuotes q s = false) :
    (decide ((q :: (s ++ q :: hashes h)).length > 3) && (q :: (s ++ q :: hashes h))[1]? == some q &&
      (q :: (s ++ q :: hashes h))[2]? == some q && (q :: (s ++ q :: hashes h))[3]? != some 0x23) = false := by
  obtain ⟨j, rfl⟩ : ∃ j, h = j + 1 := ⟨h - 1, by omega⟩
  have hh : hashes (j + 1) = 0x23 :: hashes j := by simp [hashes, List.replicate_succ]
  rw [hh]
  match s with
  | [] =>
    have : ((0x23 : Nat) == q) = false := by simp; omega
    simp [this]
  | [a] => simp
  | a :: b :: [] =>
    simp only [startsTwoQuotes, List.head?_nil] at h2
    have h2' : (a == q && b == q) = false := by simpa using h2
    simp only [Bool.and_eq_false_iff, beq_eq_false_iff_ne] at h2'
    rcases h2' with h | h <;> simp [h]
  | a :: b :: c :: r =>
    simp only [startsTwoQuotes, List.head?_cons] at h2
    simp only [Bool.and_eq_false_iff, beq_eq_false_iff_ne, bne_eq_false_iff_eq] at h2
    rcases h2 with (h | h) | h
    · simp [h]
    · simp [h]
    · simp at h; simp [h]

theorem parseQuotes_hashes (f : Form) (hf : f.WF) (s : Bytes) (h : Nat) (hpos : 1 ≤ h)
    (h2 : startsTwoQuotes f.quote s = false) :
    parseQuotes (hashes h ++ f.quote :: (s ++ f.quote :: hashes h))
      = .ok ({ char := f.quote, numHash := h, multiline := false, whitespace := [] }, 1 + h) := by
  have hq : f.quote = 0x22 ∨ f.quote = 0x27 := by rcases hf with g | g <;> simp [g.1]
  have hq23 : f.quote ≠ 0x23 := by rcases hq with g | g <;> simp [g]
  have hrun := hashRun_hashes h f.quote (s ++ f.quote :: hashes h) hq23
  have hdrop := drop_hashes h (f.quote :: (s ++ f.quote :: hashes h))
  have hmulti := not_multi_opener f.quote hq23 s h hpos h2
  have hc : (f.quote != 0x22 && f.quote != 0x27) = false := by rcases hq with g | g <;> simp [g]
  have htake := take_hashes h f.quote (s ++ f.quote :: hashes h)
  have hpre : (hashes h ++ [f.quote]).isPrefixOf
      (hashes h ++ f.quote :: (s ++ f.quote :: hashes h)).reverse = true := by
    simp [List.isPrefixOf_iff_prefix, reverse_hashes]
  unfold parseQuotes
  simp only [hrun, hdrop, hc, hmulti, Bool.false_eq_true, if_false, htake, hpre, Bool.not_true,
    Bool.not_false, if_true]

/-! ### A: the round trip of the raw-copy path -/

-- `hb` is not needed (kept so that callers can pass it): nothing below depends on the byte range
set_option linter.unusedVariables false in
theorem roundtrip_hashes_core {E : Env} (hE : E.Ok) (f : Form) (hf : f.WF) (s : Bytes) (hb : IsBytes s)
    (h : Nat) (hs : slhcLoop E f s 1 = some h) (h2 : startsTwoQuotes f.quote s = false) :
    unquote (hashes h ++ [f.quote] ++ s ++ [f.quote] ++ hashes h) = .ok s := by
  have hq : f.quote = 0x22 ∨ f.quote = 0x27 := by rcases hf with g | g <;> simp [g.1]
  have hpos : 1 ≤ h := slhc_pos hs
  have hshape : hashes h ++ [f.quote] ++ s ++ [f.quote] ++ hashes h
      = hashes h ++ f.quote :: (s ++ f.quote :: hashes h) := by simp
  rw [hshape]
  unfold unquote
  rw [parseQuotes_hashes f hf s h hpos h2]
  have hdrop : (hashes h ++ f.quote :: (s ++ f.quote :: hashes h)).drop (1 + h)
      = s ++ f.quote :: hashes h := by
    rw [Nat.add_comm, ← List.drop_drop, drop_hashes]; rfl
  simp only [hdrop]
  have hnl : (s ++ f.quote :: hashes h).contains 10 = false := by
    rw [Bool.eq_false_iff]
    intro hc
    simp only [List.contains_eq_mem, List.mem_append, List.mem_cons, decide_eq_true_eq] at hc
    rcases hc with hc | hc | hc
    · exact slhc_no_nl hE s.length s 1 h (Nat.le_refl _) hs 10 hc rfl
    · rcases hq with g | g <;> omega
    · simp [hashes] at hc
  have hnh : (h == 0) = false := by simp; omega
  unfold QuoteInfo.unquote
  simp only [hnl, hnh, Bool.and_false, Bool.false_and, Bool.false_eq_true, if_false]
  have := loop_hashes hE f hf { char := f.quote, numHash := h, multiline := false, whitespace := [] }
    rfl rfl s.length s 1 h (Nat.le_refl _) hs (Nat.le_refl _)
    ((s ++ f.quote :: hashes h).length + 1) [] (by simp)
  simpa using this

/-! ### B: what `quote` emits on that path -/

theorem quoteWith_hashes_eq (slhc : Env → Form → Bytes → Nat) {E : Env} (f : Form) (s : Bytes)
    (hml : f.effMultiline s = false) (ha : f.autoHash = true) (h : Nat) (hs : slhc E f s = h)
    (hpos : 1 ≤ h) :
    quoteWith slhc E f s = hashes h ++ [f.quote] ++ s ++ [f.quote] ++ hashes h := by
  have hgt : decide (h > 0) = true := by simp; omega
  simp [quoteWith, hashCountWith, appendEscaped, hml, ha, hs, hgt]

theorem quoteOld_hashes_eq {E : Env} (f : Form) (s : Bytes) (hml : f.effMultiline s = false)
    (ha : f.autoHash = true) (h : Nat) (hs : singleLineHashCountOld E f s = h) (hpos : 1 ≤ h) :
    quoteOld E f s = hashes h ++ [f.quote] ++ s ++ [f.quote] ++ hashes h :=
  quoteWith_hashes_eq singleLineHashCountOld f s hml ha h hs hpos

theorem quote_hashes_eq {E : Env} (f : Form) (s : Bytes) (hml : f.effMultiline s = false)
    (ha : f.autoHash = true) (h : Nat) (hs : singleLineHashCount E f s = h) (hpos : 1 ≤ h) :
    quote E f s = hashes h ++ [f.quote] ++ s ++ [f.quote] ++ hashes h :=
  quoteWith_hashes_eq singleLineHashCount f s hml ha h hs hpos

/-! ### C: a positive count comes from the loop -/

theorem slhcOld_pos_imp {E : Env} (f : Form) (s : Bytes) (h : Nat) (hpos : 1 ≤ h)
    (hs : singleLineHashCountOld E f s = h) : slhcLoop E f s 1 = some h := by
  unfold singleLineHashCountOld at hs
  split at hs
  · omega
  · split at hs
    · next n hn => rw [hn, hs]
    · omega

theorem slhc_pos_imp {E : Env} (f : Form) (s : Bytes) (h : Nat)
    (hs : singleLineHashCount E f s = h) (hpos : 1 ≤ h) :
    slhcLoop E f s 1 = some h ∧ startsTwoQuotes f.quote s = false := by
  unfold singleLineHashCount at hs
  split at hs
  · omega
  split at hs
  · omega
  · next hany htwo =>
    constructor
    · split at hs
      · next n hn => rw [hn, hs]
      · omega
    · have h2 : startsWithTwo f.quote s = false := by simpa using htwo
      unfold startsTwoQuotes
      split
      · next a b rest =>
        have : (a == f.quote && b == f.quote) = false := by simpa [startsWithTwo] using h2
        simp [this]
      · rfl

/-! ### D: the defect of the OLD code (before /repo a2b8800) -/

/-- `"\"\"x"` quoted with `WithOptionalHashes` is `#"""x"#`, which does not read back -/
theorem hashes_witness_fails_old (E : Env) (hp : E.isPrint 0x22 = true) (hx : E.isPrint 0x78 = true) :
    unquote (quoteOld E stringForm.withOptionalHashes [0x22, 0x22, 0x78]) = .error .missingOpeningNewline := by
  have hc : singleLineHashCountOld E stringForm.withOptionalHashes [0x22, 0x22, 0x78] = 1 := by
    simp [singleLineHashCountOld, slhc_cons, slhcLoop, decodeFirst, Form.isPrint, stringForm,
      Form.withOptionalHashes, hp, hx, hashRun_cons_ne]
  have hqv := quoteOld_hashes_eq (E := E) stringForm.withOptionalHashes [0x22, 0x22, 0x78]
    (by simp [Form.effMultiline, stringForm, Form.withOptionalHashes]) rfl 1 hc (Nat.le_refl _)
  rw [hqv]
  rfl


end CueVerif.Quote
