/-
C10 helper lemmas: the encoder side (`jsonEscape` = Go's appendString without HTML escaping,
`fmtG` = apd's 'G' format) produces RFC 8259 tokens denoting exactly the input.  Core Lean only.

Strings: `encItems s` is the token (list of `JItem`s) that `escapeLoop` writes; one round of the
loop is `step`.  Numbers: `fmtE_out` / `fmtF_out` give the `JNum` written by each branch.
-/
import CueVerif.Spec.Json
import CueVerif.Model.Json
import CueVerif.Proofs.Utf8
namespace CueVerif.Json
open CueVerif CueVerif.Quote

/-! ## strings -/

/-- the item `appendString` writes for an ASCII byte -/
def asciiItem (b : Nat) : JItem :=
  if safeAscii b then .raw b
  else if b == 0x22 then .esc .quote
  else if b == 0x5C then .esc .backslash
  else if b == 8 then .esc .b
  else if b == 12 then .esc .f
  else if b == 10 then .esc .n
  else if b == 13 then .esc .r
  else if b == 9 then .esc .t
  else .u 0x30 0x30 (hexDigit (b / 16 % 16)) (hexDigit (b % 16))

/-- one round of the loop: the item written and how many bytes of `rest` it consumes -/
def step (b : Nat) (rest : Bytes) : JItem × Nat :=
  if b < 0x80 then (asciiItem b, 0)
  else
    if (decodeRune (b :: rest)).1 == 0xFFFD && (decodeRune (b :: rest)).2 == 1 then
      (.u 0x66 0x66 0x66 0x64, 0)
    else if (decodeRune (b :: rest)).1 == 0x2028 || (decodeRune (b :: rest)).1 == 0x2029 then
      (.u 0x32 0x30 0x32 (hexDigit ((decodeRune (b :: rest)).1 % 16)), (decodeRune (b :: rest)).2 - 1)
    else (.raw (decodeRune (b :: rest)).1, (decodeRune (b :: rest)).2 - 1)

def encItems : Bytes → List JItem
  | [] => []
  | b :: rest => (step b rest).1 :: encItems (rest.drop (step b rest).2)
termination_by s => s.length
decreasing_by simp_wf; omega

/-- no `\u` escape carries a surrogate code unit -/
def JItem.noSur : JItem → Bool
  | .u a b c d => !isHigh (uVal a b c d) && !isLow (uVal a b c d)
  | _ => true

/-- what a single item denotes when it is not a surrogate escape -/
def JItem.den : JItem → Bytes
  | .raw r => encodeRune r
  | .esc e => [e.value]
  | .u a b c d => encodeRune (uVal a b c d)

theorem hexCharVal_hexDigit (d : Nat) (h : d < 16) : hexCharVal (hexDigit d) = d := by
  unfold hexCharVal hexDigit
  repeat' split
  all_goals omega

theorem isHexChar_hexDigit (d : Nat) (h : d < 16) : isHexChar (hexDigit d) = true := by
  unfold isHexChar hexDigit
  split <;> simp <;> omega

theorem uVal_ctrl (b : Nat) (h : b < 256) :
    uVal 0x30 0x30 (hexDigit (b / 16 % 16)) (hexDigit (b % 16)) = b := by
  unfold uVal
  rw [hexCharVal_hexDigit _ (Nat.mod_lt _ (by decide)), hexCharVal_hexDigit _ (Nat.mod_lt _ (by decide))]
  have : hexCharVal 0x30 = 0 := by decide
  rw [this]
  omega

theorem uVal_FFFD : uVal 0x66 0x66 0x66 0x64 = 0xFFFD := by decide

theorem uVal_2028 (r : Nat) (h : r = 0x2028 ∨ r = 0x2029) :
    uVal 0x32 0x30 0x32 (hexDigit (r % 16)) = r := by
  rcases h with h | h <;> subst h <;> decide

/-! ### the ASCII item -/

theorem asciiItem_text (b : Nat) :
    (asciiItem b).text = if safeAscii b then encodeRune b else escapeAscii b := by
  unfold asciiItem escapeAscii
  repeat' split
  all_goals simp_all [JItem.text, Esc.letter]

theorem asciiItem_wf (b : Nat) (h : b < 0x80) : (asciiItem b).wf = true := by
  unfold asciiItem
  repeat' split
  all_goals simp only [JItem.wf]
  · rename_i hs
    simp only [safeAscii, Bool.and_eq_true, decide_eq_true_eq] at hs
    simp only [isScalar, Bool.and_eq_true, decide_eq_true_eq, Bool.not_eq_true', Bool.and_eq_false_iff,
      decide_eq_false_iff_not, hs, and_true]
    omega
  · simp only [Bool.and_eq_true]
    exact ⟨⟨⟨by decide, by decide⟩, isHexChar_hexDigit _ (Nat.mod_lt _ (by decide))⟩,
      isHexChar_hexDigit _ (Nat.mod_lt _ (by decide))⟩


theorem asciiItem_noSur (b : Nat) (h : b < 0x80) : (asciiItem b).noSur = true := by
  unfold asciiItem
  repeat' split
  all_goals simp only [JItem.noSur]
  rw [uVal_ctrl b (by omega)]
  simp only [isHigh, isLow, Bool.and_eq_true, Bool.not_eq_true', Bool.and_eq_false_iff,
    decide_eq_false_iff_not]
  omega

theorem asciiItem_den (b : Nat) (h : b < 0x80) : (asciiItem b).den = [b] := by
  unfold asciiItem
  repeat' split
  all_goals simp only [JItem.den, Esc.value]
  all_goals first
    | exact encodeRune_ascii b h
    | (rw [uVal_ctrl b (by omega)]; exact encodeRune_ascii b h)
    | simp_all

theorem asciiItem_plain (b : Nat) (h : b < 0x80) : (asciiItem b).plainEscape = true := by
  unfold asciiItem
  repeat' split
  all_goals simp only [JItem.plainEscape]
  rename_i hs h1 h2 _ _ _ _ _
  rw [uVal_ctrl b (by omega)]
  simp only [safeAscii, Bool.and_eq_true, decide_eq_true_eq, bne_iff_ne, ne_eq, beq_iff_eq] at hs h1 h2
  simp only [Bool.or_eq_true, decide_eq_true_eq, beq_iff_eq]
  omega

/-! ### one round -/

theorem width_ge_two (b : Nat) (rest : Bytes) (hb : ¬ b < 0x80)
    (h : ¬ ((decodeRune (b :: rest)).1 = 0xFFFD ∧ (decodeRune (b :: rest)).2 = 1)) :
    2 ≤ (decodeRune (b :: rest)).2 := by
  have h1 := decodeRune_width_pos b rest
  have h2 := decodeRune_width_one b rest
  omega

theorem step_text (b : Nat) (rest : Bytes) :
    escapeLoop (b :: rest) = (step b rest).1.text ++ escapeLoop (rest.drop (step b rest).2) := by
  rw [escapeLoop]
  unfold step
  split
  · rename_i hb
    simp only [asciiItem_text, List.drop_zero]
    split
    · rw [encodeRune_ascii b hb]
    · rfl
  · rename_i hb
    simp only []
    split
    · simp [JItem.text]
    · rename_i h1
      simp only [Bool.and_eq_true, beq_iff_eq] at h1
      have hw := width_ge_two b rest hb h1
      split
      · simp [JItem.text]
      · simp only [JItem.text]
        rw [(encodeRune_decodeRune (b :: rest) hw).1]

theorem step_wf (b : Nat) (rest : Bytes) : (step b rest).1.wf = true := by
  unfold step
  split
  · exact asciiItem_wf b ‹_›
  · rename_i hb
    split
    · decide
    · rename_i h1
      simp only [Bool.and_eq_true, beq_iff_eq] at h1
      have hw := width_ge_two b rest hb h1
      have hr := encodeRune_decodeRune (b :: rest) hw
      split
      · simp only [JItem.wf, Bool.and_eq_true]
        exact ⟨⟨⟨by decide, by decide⟩, by decide⟩, isHexChar_hexDigit _ (Nat.mod_lt _ (by decide))⟩
      · simp only [JItem.wf, isScalar, Bool.and_eq_true, decide_eq_true_eq, Bool.not_eq_true',
          Bool.and_eq_false_iff, decide_eq_false_iff_not, bne_iff_ne, ne_eq]
        omega

theorem step_noSur (b : Nat) (rest : Bytes) : (step b rest).1.noSur = true := by
  unfold step
  split
  · exact asciiItem_noSur b ‹_›
  · split
    · decide
    · split
      · rename_i h2
        simp only [Bool.or_eq_true, beq_iff_eq] at h2
        simp only [JItem.noSur]
        rw [uVal_2028 _ h2]
        rcases h2 with h2 | h2 <;> rw [h2] <;> decide
      · rfl

theorem step_valid (b : Nat) (rest : Bytes) (hv : validUTF8 (b :: rest) = true) :
    (step b rest).1.den = (b :: rest).take ((step b rest).2 + 1) ∧
      validUTF8 (rest.drop (step b rest).2) = true ∧ (step b rest).1.plainEscape = true := by
  rw [validUTF8] at hv
  unfold decodeFirst at hv
  unfold step
  split
  · rename_i hb
    simp only [if_pos hb] at hv
    have : ¬ 0x80 ≤ b := by omega
    simp only [this, decide_false, Bool.false_and, Bool.false_eq_true, if_false, Nat.sub_self,
      List.drop_zero] at hv
    exact ⟨by simp [asciiItem_den b hb], by simpa using hv, asciiItem_plain b hb⟩
  · rename_i hb
    simp only [if_neg hb] at hv
    have hb' : 0x80 ≤ b := by omega
    simp only [hb', decide_true, Bool.true_and] at hv
    split at hv
    · exact absurd hv (by simp)
    · rename_i hw1
      simp only [beq_iff_eq] at hw1
      have h1 : ¬ ((decodeRune (b :: rest)).1 = 0xFFFD ∧ (decodeRune (b :: rest)).2 = 1) := by
        intro h; exact hw1 h.2
      have hw := width_ge_two b rest hb h1
      have hr := encodeRune_decodeRune (b :: rest) hw
      have hk : (decodeRune (b :: rest)).2 - 1 + 1 = (decodeRune (b :: rest)).2 := by omega
      split
      · rename_i h; simp only [Bool.and_eq_true, beq_iff_eq] at h; exact absurd h h1
      · split
        · rename_i h2
          simp only [Bool.or_eq_true, beq_iff_eq] at h2
          refine ⟨?_, hv, ?_⟩
          · simp only [JItem.den]
            rw [uVal_2028 _ h2, hk]
            exact hr.1
          · simp only [JItem.plainEscape]
            rw [uVal_2028 _ h2]
            simp only [Bool.or_eq_true, decide_eq_true_eq, beq_iff_eq]
            omega
        · refine ⟨?_, hv, rfl⟩
          simp only [JItem.den]
          rw [hk]
          exact hr.1

/-! ### the whole loop -/

theorem encItems_text (s : Bytes) : escapeLoop s = bodyText (encItems s) := by
  fun_induction encItems s with
  | case1 => rw [escapeLoop]; rfl
  | case2 b rest ih => rw [step_text, ih]; rfl

theorem encItems_all (P : JItem → Prop) (hP : ∀ b rest, P (step b rest).1) (s : Bytes) :
    ∀ i ∈ encItems s, P i := by
  fun_induction encItems s with
  | case1 => intro i hi; cases hi
  | case2 b rest ih =>
    intro i hi
    rcases List.mem_cons.mp hi with h | h
    · rw [h]; exact hP b rest
    · exact ih i h

theorem wellPaired_of_noSur (l : List JItem) (h : ∀ i ∈ l, i.noSur = true) : wellPaired l = true := by
  induction l with
  | nil => rw [wellPaired]
  | cons i t ih =>
    have ht := ih (fun j hj => h j (List.mem_cons_of_mem _ hj))
    have hi := h i (List.mem_cons_self ..)
    cases i with
    | raw r => rw [wellPaired]; exact ht
    | esc e => rw [wellPaired]; exact ht
    | u a b c d =>
      simp only [JItem.noSur, Bool.and_eq_true, Bool.not_eq_true'] at hi
      cases t with
      | nil =>
        rw [wellPaired.eq_5 _ _ _ _ _ (by intro _ _ _ _ _ h; cases h)]
        simp [hi.1, hi.2, ht]
      | cons j t' =>
        cases j with
        | raw r =>
          rw [wellPaired.eq_5 _ _ _ _ _ (by intro _ _ _ _ _ h; cases h)]
          simp [hi.1, hi.2, ht]
        | esc e =>
          rw [wellPaired.eq_5 _ _ _ _ _ (by intro _ _ _ _ _ h; cases h)]
          simp [hi.1, hi.2, ht]
        | u a' b' c' d' => rw [wellPaired.eq_4]; simp [hi.1, hi.2, ht]

theorem denote_cons_of_noSur (i : JItem) (t : List JItem) (hi : i.noSur = true) :
    denote (i :: t) = i.den ++ denote t := by
  cases i with
  | raw r => rw [denote.eq_2]; rfl
  | esc e => rw [denote.eq_3]; rfl
  | u a b c d =>
    simp only [JItem.noSur, Bool.and_eq_true, Bool.not_eq_true'] at hi
    cases t with
    | nil => rw [denote.eq_5 _ _ _ _ _ (by intro _ _ _ _ _ h; cases h)]; rfl
    | cons j t' =>
      cases j with
      | raw r => rw [denote.eq_5 _ _ _ _ _ (by intro _ _ _ _ _ h; cases h)]; rfl
      | esc e => rw [denote.eq_5 _ _ _ _ _ (by intro _ _ _ _ _ h; cases h)]; rfl
      | u a' b' c' d' => rw [denote.eq_4]; simp [hi.1, JItem.den]

theorem encItems_valid (s : Bytes) (hv : validUTF8 s = true) :
    denote (encItems s) = s ∧ ∀ i ∈ encItems s, i.plainEscape = true := by
  fun_induction encItems s with
  | case1 => exact ⟨by rw [denote], fun i hi => by cases hi⟩
  | case2 b rest ih =>
    obtain ⟨h1, h2, h3⟩ := step_valid b rest hv
    obtain ⟨ih1, ih2⟩ := ih h2
    refine ⟨?_, ?_⟩
    · rw [denote_cons_of_noSur _ _ (step_noSur b rest), h1, ih1]
      simp
    · intro i hi
      rcases List.mem_cons.mp hi with h | h
      · rw [h]; exact h3
      · exact ih2 i h

/-- For EVERY byte string the marshalled string is an RFC 8259 string token. -/
theorem string_out_valid (s : Bytes) (hb : IsBytes s) :
    ∃ items, WfItems items ∧ jsonEscape s = stringText items ∧ wellPaired items = true := by
  have _ := hb
  refine ⟨encItems s, encItems_all _ step_wf s, ?_, wellPaired_of_noSur _ (encItems_all _ step_noSur s)⟩
  simp only [jsonEscape, stringText, encItems_text]

/-- For every valid UTF-8 string the marshalled token denotes exactly the string, its surrogate
escapes are (vacuously) well paired, and `\u` escapes are only used for control characters and
U+2028/U+2029 (no HTML escaping). -/
theorem string_out (s : Bytes) (hb : IsBytes s) (hv : validUTF8 s = true) :
    ∃ items, WfItems items ∧ jsonEscape s = stringText items ∧ denote items = s ∧
      wellPaired items = true ∧ ∀ i ∈ items, i.plainEscape = true := by
  have _ := hb
  obtain ⟨h1, h2⟩ := encItems_valid s hv
  refine ⟨encItems s, encItems_all _ step_wf s, ?_, h1,
    wellPaired_of_noSur _ (encItems_all _ step_noSur s), h2⟩
  simp only [jsonEscape, stringText, encItems_text]

/-! ## numbers -/

theorem digitsVal_append (a b : Bytes) :
    digitsVal (a ++ b) = b.foldl (fun a c => a * 10 + (c - 48)) (digitsVal a) := by
  simp only [digitsVal, List.foldl_append]

theorem digitsVal_snoc (a : Bytes) (c : Nat) : digitsVal (a ++ [c]) = digitsVal a * 10 + (c - 48) := by
  rw [digitsVal_append]; rfl

theorem digitsVal_zeros (k : Nat) : digitsVal (List.replicate k 48) = 0 := by
  induction k with
  | zero => rfl
  | succ k ih => rw [List.replicate_succ', digitsVal_snoc, ih]

theorem digitsVal_zeros_append (k : Nat) (ds : Bytes) :
    digitsVal (List.replicate k 48 ++ ds) = digitsVal ds := by
  rw [digitsVal_append, digitsVal_zeros]; rfl

theorem digitsVal_zero_cons (ds : Bytes) : digitsVal (48 :: ds) = digitsVal ds :=
  digitsVal_zeros_append 1 ds

theorem allDigits_append (a b : Bytes) : allDigits (a ++ b) = (allDigits a && allDigits b) := by
  simp only [allDigits, List.all_append]

theorem allDigits_zeros (k : Nat) : allDigits (List.replicate k 48) = true := by
  simp only [allDigits, List.all_eq_true]
  intro x hx
  rw [List.eq_of_mem_replicate hx]
  decide

/-- everything needed about `natDigits` -/
theorem natDigits_spec (n : Nat) :
    allDigits (natDigits n) = true ∧ digitsVal (natDigits n) = n ∧
      ∃ d ds, natDigits n = d :: ds ∧ (n ≠ 0 → d ≠ 48) ∧ (n = 0 → d = 48 ∧ ds = []) := by
  induction n using Nat.strongRecOn with
  | _ n ih =>
    rw [natDigits]
    split
    · rename_i h
      refine ⟨?_, ?_, _, [], rfl, by omega, fun h0 => ⟨by omega, rfl⟩⟩
      · simp only [allDigits, List.all_cons, List.all_nil, isDigit, Bool.and_true, Bool.and_eq_true,
          decide_eq_true_eq]
        omega
      · simp only [digitsVal, List.foldl_cons, List.foldl_nil]
        omega
    · rename_i h
      obtain ⟨h1, h2, d, ds, h3, h4, _⟩ := ih (n / 10) (by omega)
      refine ⟨?_, ?_, d, ds ++ [48 + n % 10], by rw [h3]; rfl, fun _ => h4 (by omega), by omega⟩
      · rw [allDigits_append, h1]
        simp only [allDigits, List.all_cons, List.all_nil, isDigit, Bool.and_true, Bool.true_and,
          Bool.and_eq_true, decide_eq_true_eq]
        omega
      · rw [digitsVal_snoc, h2]
        omega

theorem natDigits_ne_nil (n : Nat) : natDigits n ≠ [] := by
  obtain ⟨_, _, d, ds, h, _⟩ := natDigits_spec n
  rw [h]; exact List.cons_ne_nil _ _

theorem jnum_wf_iff (n : JNum) :
    n.wf = true ↔ n.int ≠ [] ∧ allDigits n.int = true ∧ (n.int = [48] ∨ n.int.head? ≠ some 48) ∧
      fracWf n.frac = true ∧ expWf n.exp = true := by
  simp only [JNum.wf, Bool.and_eq_true, Bool.not_eq_true', List.isEmpty_eq_false_iff, Bool.or_eq_true,
    beq_iff_eq, bne_iff_ne, ne_eq, and_assoc]

theorem fracWf_some (f : Bytes) (h1 : f ≠ []) (h2 : allDigits f = true) : fracWf (some f) = true := by
  simp only [fracWf, Bool.and_eq_true, Bool.not_eq_true', List.isEmpty_eq_false_iff]
  exact ⟨h1, h2⟩

theorem fmtE_aux (d0 : Nat) (ds : Bytes) (adj : Int) :
    (d0 :: (if ds.isEmpty then [] else 0x2E :: ds)) ++ [0x45] ++ (if adj < 0 then [0x2D] else [0x2B]) ++
        natDigits adj.natAbs =
      [d0] ++ (fracText (if ds = [] then none else some ds) ++
        expText (some { upper := true, sign := some (decide (adj < 0)), digits := natDigits adj.natAbs })) := by
  by_cases h : ds = [] <;> by_cases h2 : adj < 0 <;> simp [h, h2, fracText, expText, JExp.text]

theorem fracDigits_ite (ds : Bytes) : fracDigits (if ds = [] then none else some ds) = ds := by
  by_cases h : ds = []
  · subst h; rfl
  · simp [fracDigits, h]

theorem fmtE_out (neg : Bool) (coeff : Nat) (exp : Int) :
    ∃ n : JNum, n.wf = true ∧ fmtE (natDigits coeff) exp = n.utext ∧ n.neg = neg ∧
      n.coeff = coeff ∧ n.exponent = exp := by
  obtain ⟨hall, hval, d0, ds, hd, hd0, _⟩ := natDigits_spec coeff
  obtain ⟨hall', hval', _⟩ := natDigits_spec (exp + ((natDigits coeff).length : Int) - 1).natAbs
  have hne' := natDigits_ne_nil (exp + ((natDigits coeff).length : Int) - 1).natAbs
  have hl : (natDigits coeff).length = ds.length + 1 := by rw [hd]; rfl
  have hdd : allDigits [d0] = true ∧ allDigits ds = true := by
    have : allDigits ([d0] ++ ds) = true := by rw [← hall, hd]; rfl
    rw [allDigits_append] at this
    simpa using this
  refine ⟨{ neg := neg, int := [d0], frac := if ds = [] then none else some ds,
            exp := some { upper := true,
                          sign := some (decide (exp + ((natDigits coeff).length : Int) - 1 < 0)),
                          digits := natDigits (exp + ((natDigits coeff).length : Int) - 1).natAbs } },
    ?_, ?_, rfl, ?_, ?_⟩
  · rw [jnum_wf_iff]
    refine ⟨List.cons_ne_nil _ _, hdd.1, ?_, ?_, ?_⟩
    · by_cases h : d0 = 48
      · left; rw [h]
      · right; simpa using h
    · show fracWf (if ds = [] then none else some ds) = true
      split
      · rfl
      · exact fracWf_some _ ‹_› hdd.2
    · simp only [expWf, JExp.wf, Bool.and_eq_true, Bool.not_eq_true', List.isEmpty_eq_false_iff]
      exact ⟨hne', hall'⟩
  · unfold fmtE
    simp only [JNum.utext]
    rw [hd]
    exact fmtE_aux d0 ds _
  · simp only [JNum.coeff, fracDigits_ite]
    rw [← hval, hd]; rfl
  · simp only [JNum.exponent, expValue, JExp.value, fracDigits_ite]
    rw [hval']
    by_cases h2 : exp + ((natDigits coeff).length : Int) - 1 < 0
    · simp only [h2, decide_true]
      omega
    · simp only [h2, decide_false]
      omega

theorem fmtF_out (neg : Bool) (coeff : Nat) (exp : Int) (hexp : exp ≤ 0) :
    ∃ n : JNum, n.wf = true ∧ fmtF (natDigits coeff) exp = n.utext ∧ n.neg = neg ∧
      n.coeff = coeff ∧ n.exponent = exp := by
  obtain ⟨hall, hval, d0, ds, hd, hd0, hd1⟩ := natDigits_spec coeff
  have hne := natDigits_ne_nil coeff
  have hl : (natDigits coeff).length = ds.length + 1 := by rw [hd]; rfl
  unfold fmtF
  split
  · rename_i hneg
    simp only []
    split
    · -- 0.000ddd
      rename_i hleft
      refine ⟨{ neg := neg, int := [48],
                frac := some (List.replicate (-exp - ((natDigits coeff).length : Int)).toNat 48 ++ natDigits coeff),
                exp := none }, ?_, ?_, rfl, ?_, ?_⟩
      · rw [jnum_wf_iff]
        refine ⟨List.cons_ne_nil _ _, (by decide : allDigits [48] = true), Or.inl rfl, ?_, rfl⟩
        apply fracWf_some
        · simp [hne]
        · rw [allDigits_append, allDigits_zeros, hall]; rfl
      · simp [JNum.utext, fracText, expText]
      · simp only [JNum.coeff, fracDigits]
        rw [List.singleton_append, digitsVal_zero_cons, digitsVal_zeros_append, hval]
      · simp only [JNum.exponent, expValue, fracDigits, List.length_append, List.length_replicate]
        omega
    · -- dd.ddd
      rename_i hleft
      have hc : coeff ≠ 0 := by
        intro h0
        have := (hd1 h0).2
        subst this
        simp only [List.length_nil] at hl
        omega
      have hoff : ∃ k, (-(-exp - ((natDigits coeff).length : Int))).toNat = k + 1 ∧ k < ds.length :=
        ⟨(-(-exp - ((natDigits coeff).length : Int))).toNat - 1, by omega, by omega⟩
      obtain ⟨k, hk, hk'⟩ := hoff
      rw [hk]
      have htd : allDigits ((natDigits coeff).take (k + 1)) = true ∧
          allDigits ((natDigits coeff).drop (k + 1)) = true := by
        have := hall
        rw [← List.take_append_drop (k + 1) (natDigits coeff), allDigits_append] at this
        simpa using this
      refine ⟨{ neg := neg, int := (natDigits coeff).take (k + 1),
                frac := some ((natDigits coeff).drop (k + 1)), exp := none }, ?_, ?_, rfl, ?_, ?_⟩
      · rw [jnum_wf_iff]
        refine ⟨?_, htd.1, Or.inr ?_, ?_, rfl⟩
        · rw [hd]; simp
        · rw [hd]; simpa using hd0 hc
        · apply fracWf_some _ _ htd.2
          intro h
          have := congrArg List.length h
          simp only [List.length_drop, List.length_nil] at this
          omega
      · simp [JNum.utext, fracText, expText]
      · simp only [JNum.coeff, fracDigits, List.take_append_drop]
        exact hval
      · simp only [JNum.exponent, expValue, fracDigits, List.length_drop]
        omega
  · rename_i hneg
    have h0 : exp = 0 := by omega
    subst h0
    refine ⟨{ neg := neg, int := natDigits coeff, frac := none, exp := none }, ?_, ?_, rfl, ?_, ?_⟩
    · rw [jnum_wf_iff]
      refine ⟨hne, hall, ?_, rfl, rfl⟩
      by_cases hc : coeff = 0
      · left; rw [hd, (hd1 hc).1, (hd1 hc).2]
      · right; rw [hd]; simpa using hd0 hc
    · simp [JNum.utext, fracText, expText]
    · simp only [JNum.coeff, fracDigits, List.append_nil]
      exact hval
    · simp [JNum.exponent, expValue, fracDigits]

/-- For every finite decimal (any sign, coefficient, exponent) the 'G' format is an RFC 8259
number token denoting exactly that sign, coefficient and exponent. -/
theorem number_out (neg : Bool) (coeff : Nat) (exp : Int) :
    ∃ n : JNum, n.wf = true ∧ fmtG neg coeff exp = n.text ∧ n.neg = neg ∧ n.coeff = coeff ∧
      n.exponent = exp := by
  have key : ∀ (c : Prop) [Decidable c], (c → exp ≤ 0) → ∃ n : JNum, n.wf = true ∧
      (if neg then [0x2D] else []) ++
        (if c then fmtF (natDigits coeff) exp else fmtE (natDigits coeff) exp) = n.text ∧
      n.neg = neg ∧ n.coeff = coeff ∧ n.exponent = exp := by
    intro c _ hc
    by_cases h : c
    · rw [if_pos h]
      obtain ⟨n, h1, h2, h3, h4, h5⟩ := fmtF_out neg coeff exp (hc h)
      exact ⟨n, h1, by rw [JNum.text, h2, h3], h3, h4, h5⟩
    · rw [if_neg h]
      obtain ⟨n, h1, h2, h3, h4, h5⟩ := fmtE_out neg coeff exp
      exact ⟨n, h1, by rw [JNum.text, h2, h3], h3, h4, h5⟩
  exact key _ (fun h => h.1)

end CueVerif.Json
