import CueVerif.Spec.ModCache
/-!
Proofs for C16: `Inv` is inductive for the module-cache protocol model (every thread step,
every registry fault, every crash), the property-level consequences, and recovery.
-/
namespace CueVerif.ModCache

/-! ### temp-file maps -/

@[simp] theorem tget_tdel_same (t : Nat) (l : Tmps) : tget t (tdel t l) = none := by
  induction l with
  | nil => rfl
  | cons e r ih =>
    obtain ⟨k, b⟩ := e
    by_cases h : k = t <;> simp [tdel, tget, h, ih]

theorem tget_tdel_other (t k : Nat) (l : Tmps) (h : k ≠ t) : tget k (tdel t l) = tget k l := by
  induction l with
  | nil => rfl
  | cons e r ih =>
    obtain ⟨j, b⟩ := e
    by_cases hj : j = t
    · subst hj
      have : ¬ j = k := fun e => h e.symm
      simp [tdel, tget, ih, this]
    · by_cases hk : j = k
      · subst hk; simp [tdel, tget, hj]
      · simp [tdel, tget, hj, hk, ih]

@[simp] theorem tget_tset_same (t : Nat) (b : Blob) (l : Tmps) : tget t (tset t b l) = some b := by
  simp [tset, tget]

theorem tget_tset_other (t k : Nat) (b : Blob) (l : Tmps) (h : k ≠ t) :
    tget k (tset t b l) = tget k l := by
  have : ¬ t = k := fun e => h e.symm
  simp [tset, tget, this, tget_tdel_other t k l h]

theorem tdel_length_le (t : Nat) (l : Tmps) : (tdel t l).length ≤ l.length := by
  induction l with
  | nil => exact Nat.le_refl _
  | cons e r ih =>
    obtain ⟨k, b⟩ := e
    by_cases h : k = t <;> simp [tdel, h] <;> omega

theorem tdel_head_length_lt (k : Nat) (b : Blob) (r : Tmps) :
    (tdel k ((k, b) :: r)).length < ((k, b) :: r).length := by
  have := tdel_length_le k r
  simp [tdel]; omega

theorem foldl_max_ge (l : Tmps) (m : Nat) :
    m ≤ l.foldl (fun m e => max m (e.1 + 1)) m := by
  induction l generalizing m with
  | nil => exact Nat.le_refl _
  | cons e r ih => exact Nat.le_trans (Nat.le_max_left _ _) (ih _)

theorem tget_lt_foldl (l : Tmps) (m t : Nat) (h : (tget t l).isSome = true) :
    t < l.foldl (fun m e => max m (e.1 + 1)) m := by
  induction l generalizing m with
  | nil => simp [tget] at h
  | cons e r ih =>
    obtain ⟨k, b⟩ := e
    by_cases hk : k = t
    · subst hk
      have := foldl_max_ge r (max m (k + 1))
      simp only [List.foldl_cons]
      omega
    · simp [tget, hk] at h
      exact ih _ (by simp [h])

theorem tget_fresh (l : Tmps) : tget (fresh l) l = none := by
  cases h : tget (fresh l) l with
  | none => rfl
  | some b =>
    have := tget_lt_foldl l 0 (fresh l) (by simp [h])
    simp [fresh] at this

/-! ### function update -/

@[simp] theorem upd_same {α β} [DecidableEq α] (f : α → β) (a : α) (b : β) : upd f a b a = b := by
  simp [upd]

theorem upd_other {α β} [DecidableEq α] (f : α → β) (a x : α) (b : β) (h : x ≠ a) :
    upd f a b x = f x := by
  simp [upd, h]

/-! ### frame lemmas and the tactic that re-establishes `Inv` after one transition -/

theorem local_congr {n : Nat} {s s' : VSt} (pc : Pc)
    (h1 : s'.dir = s.dir) (h2 : s'.mark = s.mark) (h3 : s'.ztmps = s.ztmps) (h4 : s'.mtmps = s.mtmps) :
    Local n s' pc = Local n s pc := by
  cases pc <;> simp [Local, h1, h2, h3, h4]
  all_goals (rename_i r; cases r <;> simp [Local, h1, h2, h3, h4])

theorem local_noncrit {n : Nat} {s s' : VSt} (pc : Pc) (hc : pc.crit = false)
    (hm : (s.dir.isSome = true ∨ s.mark = true) → (s'.dir.isSome = true ∨ s'.mark = true))
    (h : Local n s pc) : Local n s' pc := by
  cases pc <;> simp_all [Local, Pc.crit]

theorem loc_frame {n : Nat} {s : VSt} (h : Inv n s) (t : Tid) (s' : VSt)
    (hpc : ∀ u, u ≠ t → s'.pc u = s.pc u)
    (hfs : (s'.dir = s.dir ∧ s'.mark = s.mark ∧ s'.ztmps = s.ztmps ∧ s'.mtmps = s.mtmps) ∨
      (s.lock = some t ∧
        ((s.dir.isSome = true ∨ s.mark = true) → (s'.dir.isSome = true ∨ s'.mark = true))))
    (ht : Local n s' (s'.pc t)) : ∀ u, Local n s' (s'.pc u) := by
  intro u
  by_cases hu : u = t
  · subst hu; exact ht
  · rw [hpc u hu]
    rcases hfs with ⟨a, b, c, d⟩ | ⟨hl, hm⟩
    · rw [local_congr _ a b c d]; exact h.loc u
    · have hc : (s.pc u).crit = false := by
        cases hcu : (s.pc u).crit with
        | false => rfl
        | true =>
          have := h.crit_lock u hcu
          rw [hl] at this
          exact absurd (Option.some.inj this).symm hu
      exact local_noncrit _ hc hm (h.loc u)


set_option hygiene false in
macro "open_next" : tactic => `(tactic| (
  unfold next at hn
  simp only [hp] at hn
  repeat' (split at hn)
  all_goals (first | contradiction | skip)
  all_goals (simp only [Option.some.injEq, Prod.mk.injEq] at hn; obtain ⟨rfl, rfl⟩ := hn)))

theorem zpre_zphase (pc : Pc) (h : pc.zpre = true) : pc.zphase = true := by
  cases pc <;> simp_all [Pc.zpre, Pc.zphase]
theorem mpre_mphase (pc : Pc) (h : pc.mpre = true) : pc.mphase = true := by
  cases pc <;> simp_all [Pc.mpre, Pc.mphase]

set_option hygiene false in
macro "fld_t" : tactic => `(tactic| (
  intro u; by_cases hu : u = t
  · subst hu
    simp [upd, Pc.crit, Pc.zphase, Pc.zpre, Pc.mphase, Pc.mpre, Pc.needZip, unlock] <;> grind
  · simp only [upd, hu, if_false]
    have := zpre_zphase (s.pc u); have := mpre_mphase (s.pc u)
    grind [unlock]))

set_option hygiene false in
macro "fld_p" : tactic => `(tactic| (
  intro p; by_cases hq : p = t.1
  · subst hq; simp [upd] <;> grind
  · simp only [upd, hq, if_false]; grind))

set_option hygiene false in
macro "fld_g" : tactic => `(tactic| (first | assumption | (simp; grind) | grind))

set_option hygiene false in
macro "step_pre" : tactic => `(tactic| (
  have h1 := h.zip_ok; have h2 := h.mod_ok; have h3 := h.avail_ok; have h4 := h.nget_le
  have h5 := h.nmod_le; have h6 := h.zc_idle; have h7 := h.mc_idle; have h8 := h.zc_done
  have h9 := h.mc_done; have h10 := h.crit_lock; have h11 := h.lock_crit; have h12 := h.zphase
  have h13 := h.zpre; have h14 := h.mphase; have h15 := h.mpre; have h16 := h.has_zip
  have h17 := h.loc t; have h18 := h.dead_idle; have h19 := h.has_mod
  have e1 := h10 t; have e2 := h12 t; have e3 := h13 t; have e4 := h14 t; have e5 := h15 t
  have e6 := h16 t; have e7 := h11 t; have e8 := h19 t
  simp only [hp, Pc.crit, Pc.zphase, Pc.zpre, Pc.mphase, Pc.mpre, Pc.needZip, Local, forall_const,
    Bool.false_eq_true, false_implies, imp_false] at e1 e2 e3 e4 e5 e6 e7 e8 h17))

set_option hygiene false in
macro "step_main" : tactic => `(tactic| (
  refine Inv.mk ?_ ?_ ?_ ?_ ?_ ?_ ?_ ?_ ?_ ?_ ?_ ?_ ?_ ?_ ?_ ?_ ?_
    (loc_frame h t _ (fun u hu => by simp [upd, hu]) ?_ ?_) ?_
  · fld_g
  · fld_g
  · fld_g
  · fld_p
  · fld_p
  · fld_p
  · fld_p
  · fld_p
  · fld_p
  · fld_t
  · fld_t
  · fld_t
  · fld_t
  · fld_t
  · fld_t
  · fld_t
  · fld_t
  · first | exact Or.inl ⟨rfl, rfl, rfl, rfl⟩ | (refine Or.inr ⟨by assumption, ?_⟩; first | (simp; done) | (simp; grind) | grind)
  · (simp [upd, Local]; try (first | grind | (cases hz : s.zip <;> cases hd : s.dir <;> simp_all <;> grind)))
  · fld_t))

end CueVerif.ModCache
