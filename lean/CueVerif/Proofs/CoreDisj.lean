/-
C01 helper lemmas, part 5 (phase 3): top-level disjunctions with default marks.
-/
import CueVerif.Proofs.Core
import CueVerif.Spec.CoreDisj
namespace CueVerif.Core

theorem eff_mem_iff (x : DVal) (v : Val) : (∃ b, (v, b) ∈ x.eff) ↔ ∃ b, (v, b) ∈ x.items := by
  unfold DVal.eff; split
  · rfl
  · constructor
    · rintro ⟨b, h⟩
      simp only [List.mem_map] at h
      obtain ⟨p, hp, he⟩ := h
      cases p; simp only [Prod.mk.injEq] at he
      obtain ⟨rfl, _⟩ := he
      exact ⟨_, hp⟩
    · rintro ⟨b, h⟩
      exact ⟨true, List.mem_map.2 ⟨(v, b), h, rfl⟩⟩

theorem expl_mem_iff (x : DVal) (v : Val) : (∃ b, (v, b) ∈ x.expl) ↔ ∃ b, (v, b) ∈ x.items := by
  unfold DVal.expl; split
  · rfl
  · constructor
    · rintro ⟨b, h⟩
      simp only [List.mem_map] at h
      obtain ⟨p, hp, he⟩ := h
      cases p; simp only [Prod.mk.injEq] at he
      obtain ⟨rfl, _⟩ := he
      exact ⟨_, hp⟩
    · rintro ⟨b, h⟩
      exact ⟨false, List.mem_map.2 ⟨(v, b), h, rfl⟩⟩

theorem eff_true_of_not_hm (x : DVal) (h : x.hm = false) (a : Val) (b : Bool)
    (hm : (a, b) ∈ x.eff) : b = true := by
  unfold DVal.eff at hm
  simp only [h, Bool.false_eq_true, ↓reduceIte, List.mem_map] at hm
  obtain ⟨p, _, he⟩ := hm
  simp only [Prod.mk.injEq] at he
  exact he.2.symm

theorem expl_true_iff (x : DVal) (v : Val) :
    (v, true) ∈ x.expl ↔ x.hm = true ∧ (v, true) ∈ x.eff := by
  unfold DVal.expl DVal.eff
  cases x.hm <;> simp

theorem mem_prodU (xs ys : List (Val × Bool)) (w : Val) (c : Bool) :
    (w, c) ∈ prodU xs ys ↔
      ∃ a ba b bb, (a, ba) ∈ xs ∧ (b, bb) ∈ ys ∧ unify a b = w ∧ (ba && bb) = c := by
  simp only [prodU, List.mem_flatMap, List.mem_map, Prod.mk.injEq, Prod.exists]
  constructor
  · rintro ⟨a, ba, h1, b, bb, h2, h3, h4⟩; exact ⟨a, ba, b, bb, h1, h2, h3, h4⟩
  · rintro ⟨a, ba, b, bb, h1, h2, h3, h4⟩; exact ⟨a, ba, h1, b, bb, h2, h3, h4⟩

theorem mem_of_eff {x : DVal} {a : Val} {b : Bool} (h : (a, b) ∈ x.eff) (hne : a ≠ .bot) :
    x.mem a := ⟨hne, (eff_mem_iff x a).1 ⟨b, h⟩⟩

theorem unify_ne_bot_left {a b : Val} (h : unify a b ≠ .bot) : a ≠ .bot := by
  rintro rfl; simp at h

theorem unify_ne_bot_right {a b : Val} (h : unify a b ≠ .bot) : b ≠ .bot := by
  rintro rfl; simp at h

theorem mem_unifyD (x y : DVal) (v : Val) :
    (unifyD x y).mem v ↔ v ≠ .bot ∧ ∃ a b, x.mem a ∧ y.mem b ∧ v = unify a b := by
  unfold DVal.mem
  simp only [unifyD, mem_prodU]
  constructor
  · rintro ⟨hv, c, a, ba, b, bb, h1, h2, rfl, _⟩
    exact ⟨hv, a, b, ⟨unify_ne_bot_left hv, (eff_mem_iff x a).1 ⟨ba, h1⟩⟩,
      ⟨unify_ne_bot_right hv, (eff_mem_iff y b).1 ⟨bb, h2⟩⟩, rfl⟩
  · rintro ⟨hv, a, b, ⟨_, h1⟩, ⟨_, h2⟩, rfl⟩
    obtain ⟨ba, h1⟩ := (eff_mem_iff x a).2 h1
    obtain ⟨bb, h2⟩ := (eff_mem_iff y b).2 h2
    exact ⟨hv, _, a, ba, b, bb, h1, h2, rfl, rfl⟩

theorem unifyD_eff_true (x y : DVal) (v : Val) :
    (v, true) ∈ (unifyD x y).eff ↔ ∃ a b, (a, true) ∈ x.eff ∧ (b, true) ∈ y.eff ∧ v = unify a b := by
  by_cases h : (x.hm || y.hm) = true
  · have : (unifyD x y).eff = prodU x.eff y.eff := by simp [DVal.eff, unifyD, h]
    rw [this, mem_prodU]
    constructor
    · rintro ⟨a, ba, b, bb, h1, h2, rfl, h4⟩
      simp only [Bool.and_eq_true] at h4
      obtain ⟨rfl, rfl⟩ := h4
      exact ⟨a, b, h1, h2, rfl⟩
    · rintro ⟨a, b, h1, h2, rfl⟩
      exact ⟨a, true, b, true, h1, h2, rfl, rfl⟩
  · simp only [Bool.or_eq_true, not_or, Bool.not_eq_true] at h
    have : (unifyD x y).eff = (prodU x.eff y.eff).map (fun p => (p.1, true)) := by
      simp [DVal.eff, unifyD, h.1, h.2]
    rw [this]
    simp only [List.mem_map, Prod.mk.injEq, and_true, Prod.exists, exists_and_right, exists_eq_right,
      mem_prodU]
    constructor
    · rintro ⟨c, a, ba, b, bb, h1, h2, rfl, _⟩
      have e1 := eff_true_of_not_hm x h.1 a ba h1
      have e2 := eff_true_of_not_hm y h.2 b bb h2
      subst e1 e2
      exact ⟨a, b, h1, h2, rfl⟩
    · rintro ⟨a, b, h1, h2, rfl⟩
      exact ⟨_, a, true, b, true, h1, h2, rfl, rfl⟩

theorem dflt_unifyD (x y : DVal) (v : Val) :
    (unifyD x y).dflt v ↔ v ≠ .bot ∧ ∃ a b, x.dflt a ∧ y.dflt b ∧ v = unify a b := by
  unfold DVal.dflt
  rw [unifyD_eff_true]
  constructor
  · rintro ⟨hv, a, b, h1, h2, rfl⟩
    exact ⟨hv, a, b, ⟨unify_ne_bot_left hv, h1⟩, ⟨unify_ne_bot_right hv, h2⟩, rfl⟩
  · rintro ⟨hv, a, b, ⟨_, h1⟩, ⟨_, h2⟩, rfl⟩
    exact ⟨hv, a, b, h1, h2, rfl⟩

@[simp] theorem hm_unifyD (x y : DVal) : (unifyD x y).hm = (x.hm || y.hm) := rfl

/-! ### DEquiv is an equivalence -/

theorem DEquiv.refl (x : DVal) : DEquiv x x := ⟨fun _ => Iff.rfl, fun _ => Iff.rfl, rfl⟩
theorem DEquiv.symm {x y : DVal} (h : DEquiv x y) : DEquiv y x :=
  ⟨fun v => (h.mem v).symm, fun v => (h.dflt v).symm, h.hm.symm⟩
theorem DEquiv.trans {x y z : DVal} (h1 : DEquiv x y) (h2 : DEquiv y z) : DEquiv x z :=
  ⟨fun v => (h1.mem v).trans (h2.mem v), fun v => (h1.dflt v).trans (h2.dflt v), h1.hm.trans h2.hm⟩

/-! ### the laws of `unifyD` -/

theorem unifyD_congr {x x' y y' : DVal} (hx : DEquiv x x') (hy : DEquiv y y') :
    DEquiv (unifyD x y) (unifyD x' y') := by
  refine ⟨fun v => ?_, fun v => ?_, ?_⟩
  · simp only [mem_unifyD, hx.mem, hy.mem]
  · simp only [dflt_unifyD, hx.dflt, hy.dflt]
  · simp [hx.hm, hy.hm]

theorem unifyD_comm (x y : DVal) : DEquiv (unifyD x y) (unifyD y x) := by
  refine ⟨fun v => ?_, fun v => ?_, ?_⟩
  · simp only [mem_unifyD]
    constructor <;> rintro ⟨hv, a, b, h1, h2, rfl⟩ <;> exact ⟨hv, b, a, h2, h1, unify_comm _ _⟩
  · simp only [dflt_unifyD]
    constructor <;> rintro ⟨hv, a, b, h1, h2, rfl⟩ <;> exact ⟨hv, b, a, h2, h1, unify_comm _ _⟩
  · simp [Bool.or_comm]

theorem unifyD_assoc (x y z : DVal) : DEquiv (unifyD (unifyD x y) z) (unifyD x (unifyD y z)) := by
  refine ⟨fun v => ?_, fun v => ?_, ?_⟩
  · simp only [mem_unifyD]
    constructor
    · rintro ⟨hv, w, c, ⟨_, a, b, h1, h2, rfl⟩, h3, rfl⟩
      rw [unify_assoc] at hv ⊢
      exact ⟨hv, a, _, h1, ⟨unify_ne_bot_right hv, b, c, h2, h3, rfl⟩, rfl⟩
    · rintro ⟨hv, a, w, h1, ⟨_, b, c, h2, h3, rfl⟩, rfl⟩
      rw [← unify_assoc] at hv ⊢
      exact ⟨hv, _, c, ⟨unify_ne_bot_left hv, a, b, h1, h2, rfl⟩, h3, rfl⟩
  · simp only [dflt_unifyD]
    constructor
    · rintro ⟨hv, w, c, ⟨_, a, b, h1, h2, rfl⟩, h3, rfl⟩
      rw [unify_assoc] at hv ⊢
      exact ⟨hv, a, _, h1, ⟨unify_ne_bot_right hv, b, c, h2, h3, rfl⟩, rfl⟩
    · rintro ⟨hv, a, w, h1, ⟨_, b, c, h2, h3, rfl⟩, rfl⟩
      rw [← unify_assoc] at hv ⊢
      exact ⟨hv, _, c, ⟨unify_ne_bot_left hv, a, b, h1, h2, rfl⟩, h3, rfl⟩
  · simp [Bool.or_assoc]

theorem mem_single (v w : Val) : (DVal.single v).mem w ↔ w ≠ .bot ∧ w = v := by
  simp [DVal.mem, DVal.single]

theorem dflt_single (v w : Val) : (DVal.single v).dflt w ↔ w ≠ .bot ∧ w = v := by
  simp [DVal.dflt, DVal.single, DVal.eff]

theorem unifyD_top (x : DVal) : DEquiv (unifyD x (.single .top)) x := by
  refine ⟨fun v => ?_, fun v => ?_, ?_⟩
  · simp only [mem_unifyD, mem_single]
    constructor
    · rintro ⟨_, a, b, h1, ⟨_, rfl⟩, rfl⟩; simpa using h1
    · intro h; exact ⟨h.1, v, .top, h, ⟨by simp, rfl⟩, by simp⟩
  · simp only [dflt_unifyD, dflt_single]
    constructor
    · rintro ⟨_, a, b, h1, ⟨_, rfl⟩, rfl⟩; simpa using h1
    · intro h; exact ⟨h.1, v, .top, h, ⟨by simp, rfl⟩, by simp⟩
  · simp [DVal.single]

theorem unifyD_single (a b : Val) :
    DEquiv (unifyD (.single a) (.single b)) (.single (unify a b)) := by
  refine ⟨fun v => ?_, fun v => ?_, ?_⟩
  · simp only [mem_unifyD, mem_single]
    constructor
    · rintro ⟨hv, a', b', ⟨_, rfl⟩, ⟨_, rfl⟩, rfl⟩; exact ⟨hv, rfl⟩
    · rintro ⟨hv, rfl⟩
      exact ⟨hv, a, b, ⟨unify_ne_bot_left hv, rfl⟩, ⟨unify_ne_bot_right hv, rfl⟩, rfl⟩
  · simp only [dflt_unifyD, dflt_single]
    constructor
    · rintro ⟨hv, a', b', ⟨_, rfl⟩, ⟨_, rfl⟩, rfl⟩; exact ⟨hv, rfl⟩
    · rintro ⟨hv, rfl⟩
      exact ⟨hv, a, b, ⟨unify_ne_bot_left hv, rfl⟩, ⟨unify_ne_bot_right hv, rfl⟩, rfl⟩
  · simp [DVal.single]


/-! ### the laws of `orD` and `markD` -/

/-- `v` is a default that `x` contributes to an enclosing disjunction -/
def DVal.edflt (x : DVal) (v : Val) : Prop := x.hm = true ∧ x.dflt v

theorem dflt_of_not_hm (x : DVal) (h : x.hm = false) (v : Val) : x.dflt v ↔ x.mem v := by
  unfold DVal.dflt DVal.mem
  constructor
  · rintro ⟨hv, h1⟩; exact ⟨hv, (eff_mem_iff x v).1 ⟨_, h1⟩⟩
  · rintro ⟨hv, h1⟩
    obtain ⟨b, h2⟩ := (eff_mem_iff x v).2 h1
    have := eff_true_of_not_hm x h v b h2
    subst this
    exact ⟨hv, h2⟩

theorem DEquiv.edflt {x y : DVal} (h : DEquiv x y) (v : Val) : x.edflt v ↔ y.edflt v := by
  simp only [DVal.edflt, h.hm, h.dflt]

@[simp] theorem hm_orD (x y : DVal) : (orD x y).hm = (x.hm || y.hm) := by
  unfold orD; split <;> simp_all

theorem mem_orD (x y : DVal) (v : Val) : (orD x y).mem v ↔ x.mem v ∨ y.mem v := by
  unfold orD DVal.mem
  split
  · simp only [List.mem_append, exists_or, expl_mem_iff]
    constructor
    · rintro ⟨hv, h | h⟩
      · exact Or.inl ⟨hv, h⟩
      · exact Or.inr ⟨hv, h⟩
    · rintro (⟨hv, h⟩ | ⟨hv, h⟩)
      · exact ⟨hv, Or.inl h⟩
      · exact ⟨hv, Or.inr h⟩
  · simp only [List.mem_append, exists_or]
    constructor
    · rintro ⟨hv, h | h⟩
      · exact Or.inl ⟨hv, h⟩
      · exact Or.inr ⟨hv, h⟩
    · rintro (⟨hv, h⟩ | ⟨hv, h⟩)
      · exact ⟨hv, Or.inl h⟩
      · exact ⟨hv, Or.inr h⟩

theorem dflt_orD (x y : DVal) (v : Val) :
    (orD x y).dflt v ↔
      if (x.hm || y.hm) = true then x.edflt v ∨ y.edflt v else x.mem v ∨ y.mem v := by
  by_cases h : (x.hm || y.hm) = true
  · simp only [h, ↓reduceIte]
    unfold DVal.dflt DVal.edflt DVal.dflt
    have : (orD x y).eff = x.expl ++ y.expl := by simp [orD, h, DVal.eff]
    rw [this]
    simp only [List.mem_append, expl_true_iff]
    constructor
    · rintro ⟨hv, ⟨h1, h2⟩ | ⟨h1, h2⟩⟩
      · exact Or.inl ⟨h1, hv, h2⟩
      · exact Or.inr ⟨h1, hv, h2⟩
    · rintro (⟨h1, hv, h2⟩ | ⟨h1, hv, h2⟩)
      · exact ⟨hv, Or.inl ⟨h1, h2⟩⟩
      · exact ⟨hv, Or.inr ⟨h1, h2⟩⟩
  · have h' : (orD x y).hm = false := by simpa using h
    rw [dflt_of_not_hm _ h', mem_orD, if_neg h]

theorem edflt_orD (x y : DVal) (v : Val) : (orD x y).edflt v ↔ x.edflt v ∨ y.edflt v := by
  unfold DVal.edflt
  rw [dflt_orD, hm_orD]
  by_cases h : (x.hm || y.hm) = true
  · simp only [h, ↓reduceIte, true_and]; rfl
  · simp only [h, ↓reduceIte, false_and, false_iff, not_or, Bool.false_eq_true]
    simp only [Bool.or_eq_true, not_or, Bool.not_eq_true] at h
    simp [h.1, h.2]

theorem orD_congr {x x' y y' : DVal} (hx : DEquiv x x') (hy : DEquiv y y') :
    DEquiv (orD x y) (orD x' y') := by
  refine ⟨fun v => ?_, fun v => ?_, ?_⟩
  · simp only [mem_orD, hx.mem, hy.mem]
  · simp only [dflt_orD, hx.mem, hy.mem, hx.edflt, hy.edflt, hx.hm, hy.hm]
  · simp [hx.hm, hy.hm]

theorem orD_comm (x y : DVal) : DEquiv (orD x y) (orD y x) := by
  refine ⟨fun v => ?_, fun v => ?_, ?_⟩
  · simp only [mem_orD, Or.comm]
  · simp only [dflt_orD, Bool.or_comm x.hm, Or.comm]
  · simp [Bool.or_comm]

theorem orD_assoc (x y z : DVal) : DEquiv (orD (orD x y) z) (orD x (orD y z)) := by
  refine ⟨fun v => ?_, fun v => ?_, ?_⟩
  · simp only [mem_orD, or_assoc]
  · simp only [dflt_orD, edflt_orD, mem_orD, hm_orD, Bool.or_assoc, or_assoc]
  · simp [Bool.or_assoc]

theorem markD_congr {x x' : DVal} (hx : DEquiv x x') : DEquiv (markD x) (markD x') := by
  refine ⟨fun v => ?_, fun v => ?_, rfl⟩
  · have := hx.mem v
    simpa only [DVal.mem, markD, eff_mem_iff] using this
  · have := hx.dflt v
    simpa only [DVal.dflt, markD, DVal.eff, ↓reduceIte] using this

/-! ### idempotence fails for overlapping disjuncts -/

theorem unifyD_idem_of_exclusive (x : DVal)
    (hwf : ∀ a, x.mem a → a.WF)
    (hex : ∀ a b, x.mem a → x.mem b → a ≠ b → unify a b = .bot) :
    DEquiv (unifyD x x) x := by
  have hd : ∀ a, x.dflt a → x.mem a := fun a h => ⟨h.1, (eff_mem_iff x a).1 ⟨_, h.2⟩⟩
  refine ⟨fun v => ?_, fun v => ?_, by simp⟩
  · rw [mem_unifyD]
    constructor
    · rintro ⟨hv, a, b, h1, h2, rfl⟩
      by_cases hab : a = b
      · subst hab; rwa [unify_idem a (hwf a h1)]
      · exact absurd (hex a b h1 h2 hab) hv
    · intro h
      exact ⟨h.1, v, v, h, h, (unify_idem v (hwf v h)).symm⟩
  · rw [dflt_unifyD]
    constructor
    · rintro ⟨hv, a, b, h1, h2, rfl⟩
      by_cases hab : a = b
      · subst hab; rwa [unify_idem a (hwf a (hd a h1))]
      · exact absurd (hex a b (hd a h1) (hd b h2) hab) hv
    · intro h
      exact ⟨h.1, v, v, h, h, (unify_idem v (hwf v (hd v h))).symm⟩

/-! ### the general statement -/

theorem evalD_rearr {e e' : DExpr} (h : DRearr e e') : DEquiv (evalD e) (evalD e') := by
  induction h with
  | refl e => exact DEquiv.refl _
  | symm _ ih => exact ih.symm
  | trans _ _ ih1 ih2 => exact ih1.trans ih2
  | and_congr _ _ ih1 ih2 => exact unifyD_congr ih1 ih2
  | or_congr _ _ ih1 ih2 => exact orD_congr ih1 ih2
  | mark_congr _ ih => exact markD_congr ih
  | leaf_congr h => simp only [evalD, eval_rearr h]; exact DEquiv.refl _
  | leaf_and a b => simp only [evalD, eval]; exact (unifyD_single _ _).symm
  | and_comm a b => exact unifyD_comm _ _
  | and_assoc a b c => exact unifyD_assoc _ _ _
  | and_top a => simp only [evalD, eval]; exact (unifyD_top _).symm
  | or_comm a b => exact orD_comm _ _
  | or_assoc a b c => exact orD_assoc _ _ _

end CueVerif.Core
