/-
C10 helper lemmas: fuel monotonicity of the reference parser of Spec/JsonDoc.lean — an answer
obtained with some fuel is the answer with any larger fuel (mutual structural induction on the
fuel).  Core Lean only.
-/
import CueVerif.Spec.JsonDoc
namespace CueVerif.Json
open CueVerif.Quote (Bytes)

theorem map_some_mono {α β : Type} {a a' : Option α} {g : α → β} {x : β}
    (hm : ∀ p, a = some p → a' = some p) (h : a.map g = some x) : a'.map g = some x := by
  cases ha : a with
  | none => rw [ha] at h; simp at h
  | some p => rw [ha] at h; rw [hm p ha]; exact h

theorem consFst_mono {α β : Type} {a a' : Option (List α × β)} {v : α} {x : List α × β}
    (hm : ∀ p, a = some p → a' = some p) (h : consFst v a = some x) : consFst v a' = some x := by
  cases ha : a with
  | none => rw [ha] at h; simp [consFst] at h
  | some p => rw [ha] at h; rw [hm p ha]; exact h

mutual
theorem pValue_mono : ∀ (f : Nat) (s : Bytes) (x : JVal × Bytes), pValue f s = some x → pValue (f + 1) s = some x
  | 0, s, x, h => by simp [pValue] at h
  | f + 1, s, x, h => by
    cases s with
    | nil => simp [pValue] at h
    | cons c r =>
      simp only [pValue] at h ⊢
      split
      · simpa [*] using h
      · split
        · simpa [*] using h
        · split
          · simpa [*] using h
          · split
            · simpa [*] using h
            · split
              · simp only [*, if_true, if_false, Bool.false_eq_true] at h
                cases hs : skipWs r with
                | nil => rw [hs] at h; simp at h
                | cons c1 r1 =>
                  rw [hs] at h
                  simp only at h ⊢
                  split
                  · simpa [*] using h
                  · simp only [*, if_false, Bool.false_eq_true] at h
                    exact map_some_mono (fun p hp => pElems_mono f _ p hp) h
              · split
                · simp only [*, if_true, if_false, Bool.false_eq_true] at h
                  cases hs : skipWs r with
                  | nil => rw [hs] at h; simp at h
                  | cons c1 r1 =>
                    rw [hs] at h
                    simp only at h ⊢
                    split
                    · simpa [*] using h
                    · simp only [*, if_false, Bool.false_eq_true] at h
                      exact map_some_mono (fun p hp => pMembers_mono f _ p hp) h
                · simpa [*] using h
theorem pElems_mono : ∀ (f : Nat) (s : Bytes) (x : List JVal × Bytes), pElems f s = some x → pElems (f + 1) s = some x
  | 0, s, x, h => by simp [pElems] at h
  | f + 1, s, x, h => by
    simp only [pElems] at h ⊢
    cases hv : pValue f s with
    | none => rw [hv] at h; simp at h
    | some p =>
      obtain ⟨v, r⟩ := p
      rw [hv] at h
      rw [pValue_mono f s (v, r) hv]
      simp only at h ⊢
      cases hs : skipWs r with
      | nil => rw [hs] at h; simp at h
      | cons c r' =>
        rw [hs] at h
        simp only at h ⊢
        split
        · simp only [*, if_true] at h
          exact consFst_mono (fun p hp => pElems_mono f _ p hp) h
        · simpa [*] using h
theorem pMembers_mono : ∀ (f : Nat) (s : Bytes) (x : List (Bytes × JVal) × Bytes), pMembers f s = some x → pMembers (f + 1) s = some x
  | 0, s, x, h => by simp [pMembers] at h
  | f + 1, s, x, h => by
    cases s with
    | nil => simp [pMembers] at h
    | cons q r =>
      simp only [pMembers] at h ⊢
      split
      · simp [*] at h
      · simp only [*, if_false, Bool.false_eq_true] at h
        cases hk : pString r with
        | none => rw [hk] at h; simp at h
        | some kp =>
          obtain ⟨k, r1⟩ := kp
          rw [hk] at h
          simp only at h ⊢
          cases hs : skipWs r1 with
          | nil => rw [hs] at h; simp at h
          | cons c r2 =>
            rw [hs] at h
            simp only at h ⊢
            split
            · simp [*] at h
            · simp only [*, if_false, Bool.false_eq_true] at h
              cases hv : pValue f (skipWs r2) with
              | none => rw [hv] at h; simp at h
              | some p =>
                obtain ⟨v, r3⟩ := p
                rw [hv] at h
                rw [pValue_mono f _ (v, r3) hv]
                simp only at h ⊢
                cases hs3 : skipWs r3 with
                | nil => rw [hs3] at h; simp at h
                | cons c' r4 =>
                  rw [hs3] at h
                  simp only at h ⊢
                  split
                  · simp only [*, if_true] at h
                    exact consFst_mono (fun p hp => pMembers_mono f _ p hp) h
                  · simpa [*] using h
end

/-- more fuel never changes an answer -/
theorem pValue_mono_le (f g : Nat) (hfg : f ≤ g) (s : Bytes) (x : JVal × Bytes)
    (h : pValue f s = some x) : pValue g s = some x := by
  induction g with
  | zero =>
    have : f = 0 := by omega
    subst this; exact h
  | succ g ih =>
    by_cases hf : f = g + 1
    · subst hf; exact h
    · exact pValue_mono g s x (ih (by omega))

end CueVerif.Json
