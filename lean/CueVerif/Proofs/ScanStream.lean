/-
Stream-level totality of the scanner model (C09): the client loop `scanLoop` never runs out
of fuel — neither the per-call fuel 2·|remaining|+3 nor the loop fuel 3·len+4.
Core Lean only.
-/
import CueVerif.Proofs.ScanComma
namespace CueVerif.Scan

/-- the two pseudo tokens that are not produced by `Scan` -/
def isMarker : Kind → Bool
  | .FUEL | .PANIC => true
  | _ => false

def ActReal : Act → Prop
  | .done k _ _ _ _ _ => isMarker k = false
  | _ => True

def optReal : Option (Kind × Nat) → Bool
  | some p => !isMarker p.1
  | none => true

theorem ite_real {c : Prop} [Decidable c] {a b : Option (Kind × Nat)} (ha : optReal a = true)
    (hb : optReal b = true) : optReal (if c then a else b) = true := by
  split <;> assumption

theorem op2_real (rest : Str) (c2 : Nat) (k1 k2 : Kind) (h1 : isMarker k1 = false)
    (h2 : isMarker k2 = false) : optReal (some (op2 rest c2 k1 k2)) = true := by
  unfold op2
  repeat' split
  all_goals simp [optReal, h1, h2]

theorem operator_real (b : Nat) (rest : Str) : optReal (operator b rest) = true := by
  unfold operator
  iterate 14 (apply ite_real; · rfl)
  apply ite_real
  · split
    · rfl
    · exact op2_real _ _ _ _ rfl rfl
  apply ite_real
  · exact op2_real _ _ _ _ rfl rfl
  apply ite_real
  · split
    · rfl
    · exact op2_real _ _ _ _ rfl rfl
  apply ite_real
  · split
    · rfl
    · exact op2_real _ _ _ _ rfl rfl
  apply ite_real
  · exact op2_real _ _ _ _ rfl rfl
  apply ite_real
  · exact op2_real _ _ _ _ rfl rfl
  · rfl

theorem classOther_real (ins : Bool) (cur : Str) (b : Nat) (rest : Str) :
    ActReal (classOther ins cur b rest) := by
  unfold classOther
  split
  · rename_i k x heq
    have h := operator_real b rest
    rw [heq] at h
    show isMarker k = false
    simpa [optReal] using h
  · exact (rfl : isMarker Kind.ILLEGAL = false)

theorem quotedAct_real (cur : Str) (nh ch : Nat) (after : Str) : ActReal (quotedAct cur nh ch after) := by
  unfold quotedAct
  show isMarker (scanQuoted nh ch after).kind = false
  rcases scanQuoted_kind nh ch after with h | h <;> rw [h] <;> rfl

theorem kindOfNum_real (k : NumLit.Kind) : isMarker (kindOfNum k) = false := by cases k <;> rfl
theorem lookup_real (l : Str) : isMarker (lookup l) = false := by unfold lookup; split <;> rfl

theorem classify_real (M : Mode) (U : Uni) (ins : Bool) (cur : Str) : ActReal (classify M U ins cur) := by
  unfold classify
  split
  · split
    · trivial
    · exact (rfl : isMarker Kind.EOF = false)
  · dsimp only
    repeat' split
    all_goals first
      | exact kindOfNum_real _
      | exact quotedAct_real _ _ _ _
      | trivial
      | skip
    · unfold classIdent
      dsimp only
      repeat' split
      all_goals first
        | exact lookup_real _
        | exact quotedAct_real _ _ _ _
        | exact (rfl : isMarker Kind.IDENT = false)
        | skip
      · unfold hashString
        dsimp only
        repeat' split
        all_goals first
          | exact quotedAct_real _ _ _ _
          | exact (rfl : isMarker Kind.ILLEGAL = false)
    · unfold classUnderscore
      split
      · exact (rfl : isMarker Kind.BOTTOM = false)
      dsimp only
      repeat' split
      all_goals first
        | exact (rfl : isMarker Kind.ILLEGAL = false)
        | exact (rfl : isMarker Kind.IDENT = false)
    · unfold classNewline
      dsimp only
      split <;> trivial
    · unfold classDot
      repeat' split
      all_goals first
        | exact kindOfNum_real _
        | exact (rfl : isMarker Kind.ELLIPSIS = false)
        | exact (rfl : isMarker Kind.ILLEGAL = false)
        | exact (rfl : isMarker Kind.PERIOD = false)
    · unfold classSlash
      repeat' split
      all_goals first
        | trivial
        | exact (rfl : isMarker Kind.COMMENT = false)
        | exact (rfl : isMarker Kind.QUO = false)
    · exact classOther_real _ _ _ _

/-- `Scan` only returns real tokens -/
theorem scanTok_real (M : Mode) (U : Uni) (n : Nat) :
    ∀ fuel st t st', scanTok M U n fuel st = some (t, st') → isMarker t.kind = false := by
  intro fuel
  induction fuel with
  | zero => intro st t st' h; simp [scanTok] at h
  | succ fuel ih =>
    intro st t st' h
    have hc := classify_real M U st.insertEOL (skipWs st.insertEOL st.cur)
    unfold scanTok at h
    dsimp only at h
    generalize classify M U st.insertEOL (skipWs st.insertEOL st.cur) = act at hc h
    cases act with
    | done k l rest ins e push =>
      dsimp only at h
      injection h with h
      injection h with h1 h2
      subst h1
      exact hc
    | autoComma rest =>
      dsimp only at h
      injection h with h
      injection h with h1 h2
      subst h1
      rfl
    | again start =>
      dsimp only at h
      split at h
      · exact absurd h (by simp)
      · rename_i t0 s0 heq
        injection h with h
        injection h with h1 h2
        subst h1
        exact ih _ t0 _ heq
    | attr c1 =>
      dsimp only at h
      split at h
      · exact absurd h (by simp)
      · split at h
        · split at h
          · exact absurd h (by simp)
          · injection h with h
            injection h with h1 h2
            subst h1
            rfl
        · injection h with h
          injection h with h1 h2
          subst h1
          rfl

theorem resume_spec (n : Nat) (st : St) (t : Tok) (st' : St) (h : resume n st = some (t, st')) :
    isMarker t.kind = false ∧ mu st' ≤ mu st := by
  unfold resume at h
  split at h
  · exact absurd h (by simp)
  · rename_i q _
    dsimp only at h
    injection h with h
    injection h with h1 h2
    subst h1 h2
    refine ⟨?_, ?_⟩
    · show isMarker (strLoop q false [] false false 0 st.cur).kind = false
      rcases strLoop_kind st.cur q false [] false false 0 with h | h <;> rw [h] <;> rfl
    · have := strLoop_len st.cur q false [] false false 0
      unfold mu
      dsimp only
      split <;> omega

/-- the client loop never emits FUEL when the loop fuel exceeds `mu` of the state -/
theorem scanLoop_no_fuel (M : Mode) (U : Uni) (n : Nat) :
    ∀ fuel st ds, mu st < fuel → ∀ t ∈ scanLoop M U n fuel st ds, t.kind ≠ .FUEL := by
  intro fuel
  induction fuel with
  | zero => intro st ds h; omega
  | succ fuel ih =>
    intro st ds hmu
    obtain ⟨t, st1, hscan, hg⟩ := scanTok_ok M U n (2 * st.cur.length + 3) st
      (by have := (mu_bounds st).2; omega)
    have hreal := scanTok_real M U n _ _ _ _ hscan
    have hne : t.kind ≠ .FUEL := by intro e; rw [e] at hreal; exact absurd hreal (by decide)
    obtain ⟨_, _, _, _, hle, hprog⟩ := hg
    unfold scanLoop
    simp only [hscan]
    by_cases heof : (t.kind == Kind.EOF) = true
    · rw [if_pos heof]
      intro t' ht'
      simp only [List.mem_singleton] at ht'
      subst ht'; exact hne
    · rw [if_neg heof]
      have hlt : mu st1 < fuel := by
        rcases hprog with h | h
        · rw [h] at heof; exact absurd rfl heof
        · omega
      have hcons : ∀ (l : List Tok), (∀ x ∈ l, x.kind ≠ .FUEL) → ∀ x ∈ t :: l, x.kind ≠ .FUEL := by
        intro l hl x hx
        rcases List.mem_cons.mp hx with h | h
        · subst h; exact hne
        · exact hl x h
      split
      · exact hcons _ (ih st1 _ hlt)
      · split
        · exact hcons _ (ih st1 _ hlt)
        · split
          · exact hcons _ (ih st1 _ hlt)
          · split
            · split
              · split
                · intro x hx
                  simp only [List.mem_cons, List.mem_singleton, List.not_mem_nil, or_false] at hx
                  rcases hx with h | h
                  · subst h; exact hne
                  · subst h; decide
                · rename_i t2 st2 hres
                  obtain ⟨hr1, hr2⟩ := resume_spec n st1 t2 st2 hres
                  have hne2 : t2.kind ≠ .FUEL := by intro e; rw [e] at hr1; exact absurd hr1 (by decide)
                  apply hcons
                  intro x hx
                  rcases List.mem_cons.mp hx with h | h
                  · subst h; exact hne2
                  · exact ih st2 _ (by omega) x h
              · exact hcons _ (ih st1 _ hlt)
            · exact hcons _ (ih st1 _ hlt)

theorem init_len (src : Str) : (init src).1.cur.length ≤ src.length := by
  unfold init
  dsimp only
  split <;> simp

/-- `scan` is total at stream level: no FUEL pseudo token for ANY source text -/
theorem scan_no_fuel (M : Mode) (U : Uni) (src : Str) : ∀ t ∈ (scan M U src).1, t.kind ≠ .FUEL := by
  unfold scan
  dsimp only
  apply scanLoop_no_fuel
  have := init_len src
  have := (mu_bounds (init src).1).2
  omega

end CueVerif.Scan
