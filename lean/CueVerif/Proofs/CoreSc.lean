/-
C01 helper lemmas, part 1: the scalar meet-semilattice `Sc`.
-/
import CueVerif.Model.Core
namespace CueVerif.Core

/-! ### intervals -/

theorem omax_comm (a b : Option Int) : omax a b = omax b a := by
  cases a <;> cases b <;> simp [omax] <;> omega

theorem omin_comm (a b : Option Int) : omin a b = omin b a := by
  cases a <;> cases b <;> simp [omin] <;> omega

theorem omax_assoc (a b c : Option Int) : omax (omax a b) c = omax a (omax b c) := by
  cases a <;> cases b <;> cases c <;> simp [omax] <;> (repeat' split) <;> omega

theorem omin_assoc (a b c : Option Int) : omin (omin a b) c = omin a (omin b c) := by
  cases a <;> cases b <;> cases c <;> simp [omin] <;> (repeat' split) <;> omega

theorem omax_idem (a : Option Int) : omax a a = a := by cases a <;> simp [omax]
theorem omin_idem (a : Option Int) : omin a a = a := by cases a <;> simp [omin]

/-- the interval `[lo, hi]` is empty -/
def ivEmpty : Option Int → Option Int → Prop
  | some a, some b => b < a
  | _, _ => False

theorem mkRng_none (lo hi : Option Int) : mkRng lo hi = none ↔ ivEmpty lo hi := by
  cases lo <;> cases hi <;> simp only [mkRng, ivEmpty] <;> (try simp)
  rename_i a b
  split
  · simp; omega
  · split <;> simp <;> omega

theorem mkRng_iv (lo hi : Option Int) (r : Sc) (h : mkRng lo hi = some r) :
    r.iv = some (lo, hi) := by
  cases lo <;> cases hi <;> simp only [mkRng] at h
  · cases h; rfl
  · cases h; rfl
  · cases h; rfl
  · split at h
    · cases h; simp_all [Sc.iv]
    · split at h
      · cases h; rfl
      · cases h

theorem mkRng_wf (lo hi : Option Int) (r : Sc) (h : mkRng lo hi = some r) : r.wf = true := by
  cases lo <;> cases hi <;> simp only [mkRng] at h
  · cases h; rfl
  · cases h; rfl
  · cases h; rfl
  · split at h
    · cases h; rfl
    · split at h
      · cases h; simp_all [Sc.wf]
      · cases h

theorem ivEmpty_mono_left (l1 h1 l2 h2 : Option Int) (h : ivEmpty l1 h1) :
    ivEmpty (omax l1 l2) (omin h1 h2) := by
  cases l1 <;> cases h1 <;> cases l2 <;> cases h2 <;> simp [ivEmpty, omax, omin] at * <;>
    (repeat' split) <;> omega

theorem ivEmpty_mono_right (l1 h1 l2 h2 : Option Int) (h : ivEmpty l2 h2) :
    ivEmpty (omax l1 l2) (omin h1 h2) := by
  rw [omax_comm, omin_comm]; exact ivEmpty_mono_left _ _ _ _ h

/-! ### the non-integer part -/

theorem meetN_iv (a b r : Sc) (h : meetN a b = some r) : r.iv = none := by
  cases a <;> cases b <;> simp only [meetN] at h <;> (try split at h) <;> cases h <;> rfl

theorem meetN_iv_left (a b r : Sc) (h : meetN a b = some r) : a.iv = none := by
  cases a <;> cases b <;> simp [meetN] at h <;> rfl

theorem meetN_comm (a b : Sc) : meetN a b = meetN b a := by
  cases a <;> cases b <;> simp [meetN] <;> (split <;> simp_all) <;> simp_all [eq_comm]

/-- associativity of `meetN` for a fixed first operand (split per constructor to keep every
lemma fast) -/
local macro "meetN_assoc_tac" b:ident c:ident hb:ident hc:ident : tactic =>
  `(tactic| (cases $b:ident <;> simp [Sc.iv] at $hb:ident <;> simp [meetN] <;>
      cases $c:ident <;> simp [Sc.iv] at $hc:ident <;> simp <;> (repeat' split) <;> simp_all))

theorem meetN_assoc_str (n : Nat) (b c : Sc) (hb : b.iv = none) (hc : c.iv = none) :
    (meetN (.str n) b).bind (fun r => meetN r c) = (meetN b c).bind (fun r => meetN (.str n) r) := by
  meetN_assoc_tac b c hb hc
theorem meetN_assoc_bool (x : Bool) (b c : Sc) (hb : b.iv = none) (hc : c.iv = none) :
    (meetN (.bool x) b).bind (fun r => meetN r c) = (meetN b c).bind (fun r => meetN (.bool x) r) := by
  meetN_assoc_tac b c hb hc
theorem meetN_assoc_null (b c : Sc) (hb : b.iv = none) (hc : c.iv = none) :
    (meetN .null b).bind (fun r => meetN r c) = (meetN b c).bind (fun r => meetN .null r) := by
  meetN_assoc_tac b c hb hc
theorem meetN_assoc_tStr (b c : Sc) (hb : b.iv = none) (hc : c.iv = none) :
    (meetN .tStr b).bind (fun r => meetN r c) = (meetN b c).bind (fun r => meetN .tStr r) := by
  meetN_assoc_tac b c hb hc
theorem meetN_assoc_tBool (b c : Sc) (hb : b.iv = none) (hc : c.iv = none) :
    (meetN .tBool b).bind (fun r => meetN r c) = (meetN b c).bind (fun r => meetN .tBool r) := by
  meetN_assoc_tac b c hb hc

theorem meetN_assoc (a b c : Sc) (ha : a.iv = none) (hb : b.iv = none) (hc : c.iv = none) :
    (meetN a b).bind (fun r => meetN r c) = (meetN b c).bind (fun r => meetN a r) := by
  cases a <;> simp [Sc.iv] at ha
  · exact meetN_assoc_str _ b c hb hc
  · exact meetN_assoc_bool _ b c hb hc
  · exact meetN_assoc_null b c hb hc
  · exact meetN_assoc_tStr b c hb hc
  · exact meetN_assoc_tBool b c hb hc

theorem meetN_idem (a : Sc) (h : a.iv = none) : meetN a a = some a := by
  cases a <;> simp [meetN, Sc.iv] at *

/-! ### the laws of `Sc.meet` -/

theorem Sc.meet_comm (a b : Sc) : Sc.meet a b = Sc.meet b a := by
  unfold Sc.meet
  cases ha : a.iv <;> cases hb : b.iv <;> simp
  · exact meetN_comm a b
  · rw [omax_comm, omin_comm]

theorem Sc.meet_wf (a b r : Sc) (h : Sc.meet a b = some r) : r.wf = true := by
  unfold Sc.meet at h
  cases hia : a.iv <;> cases hib : b.iv <;> simp [hia, hib] at h
  · cases a <;> cases b <;> simp only [meetN] at h <;> (try split at h) <;> cases h <;> rfl
  · exact mkRng_wf _ _ _ h

theorem Sc.meet_int (a b : Sc) (i j : Option Int × Option Int) (ha : a.iv = some i)
    (hb : b.iv = some j) : Sc.meet a b = mkRng (omax i.1 j.1) (omin i.2 j.2) := by
  simp [Sc.meet, ha, hb]

theorem Sc.meet_assoc (a b c : Sc) :
    (Sc.meet a b).bind (fun r => Sc.meet r c) = (Sc.meet b c).bind (fun r => Sc.meet a r) := by
  cases hia : a.iv <;> cases hib : b.iv <;> cases hic : c.iv
  · -- no integers at all
    have h := meetN_assoc a b c hia hib hic
    have e1 : Sc.meet a b = meetN a b := by simp [Sc.meet, hia, hib]
    have e2 : Sc.meet b c = meetN b c := by simp [Sc.meet, hib, hic]
    rw [e1, e2]
    cases hab : meetN a b <;> cases hbc : meetN b c <;> simp [hab, hbc] at h ⊢
    · rename_i r; simpa [Sc.meet, hia, meetN_iv _ _ _ hbc] using h
    · rename_i r; simpa [Sc.meet, hic, meetN_iv _ _ _ hab] using h
    · rename_i r r'
      simpa [Sc.meet, hia, hic, meetN_iv _ _ _ hab, meetN_iv _ _ _ hbc] using h
  · have e1 : Sc.meet a b = meetN a b := by simp [Sc.meet, hia, hib]
    have e2 : Sc.meet b c = none := by simp [Sc.meet, hib, hic]
    rw [e1, e2]
    cases hab : meetN a b <;> simp
    simp [Sc.meet, hic, meetN_iv _ _ _ hab]
  · have e1 : Sc.meet a b = none := by simp [Sc.meet, hia, hib]
    have e2 : Sc.meet b c = none := by simp [Sc.meet, hib, hic]
    simp [e1, e2]
  · rename_i j k
    have e1 : Sc.meet a b = none := by simp [Sc.meet, hia, hib]
    rw [e1, Sc.meet_int b c j k hib hic]
    cases hbc : mkRng (omax j.1 k.1) (omin j.2 k.2) <;> simp
    simp [Sc.meet, hia, mkRng_iv _ _ _ hbc]
  · rename_i i
    have e1 : Sc.meet a b = none := by simp [Sc.meet, hia, hib]
    have e2 : Sc.meet b c = meetN b c := by simp [Sc.meet, hib, hic]
    rw [e1, e2]
    cases hbc : meetN b c <;> simp
    simp [Sc.meet, hia, meetN_iv _ _ _ hbc]
  · have e1 : Sc.meet a b = none := by simp [Sc.meet, hia, hib]
    have e2 : Sc.meet b c = none := by simp [Sc.meet, hib, hic]
    simp [e1, e2]
  · rename_i i j
    have e2 : Sc.meet b c = none := by simp [Sc.meet, hib, hic]
    rw [e2, Sc.meet_int a b i j hia hib]
    cases hab : mkRng (omax i.1 j.1) (omin i.2 j.2) <;> simp
    simp [Sc.meet, hic, mkRng_iv _ _ _ hab]
  · -- three intervals
    rename_i i j k
    rw [Sc.meet_int a b i j hia hib, Sc.meet_int b c j k hib hic]
    cases hab : mkRng (omax i.1 j.1) (omin i.2 j.2) <;>
      cases hbc : mkRng (omax j.1 k.1) (omin j.2 k.2) <;> simp
    · rename_i r
      rw [Sc.meet_int a r i _ hia (mkRng_iv _ _ _ hbc)]
      simp only []
      rw [← omax_assoc, ← omin_assoc, eq_comm, mkRng_none]
      exact ivEmpty_mono_left _ _ _ _ ((mkRng_none _ _).1 hab)
    · rename_i r
      rw [Sc.meet_int r c _ k (mkRng_iv _ _ _ hab) hic]
      simp only []
      rw [omax_assoc, omin_assoc, mkRng_none]
      exact ivEmpty_mono_right _ _ _ _ ((mkRng_none _ _).1 hbc)
    · rename_i r r'
      rw [Sc.meet_int r c _ k (mkRng_iv _ _ _ hab) hic,
        Sc.meet_int a r' i _ hia (mkRng_iv _ _ _ hbc)]
      simp only []
      rw [omax_assoc, omin_assoc]

theorem Sc.meet_idem (a : Sc) (h : a.wf = true) : Sc.meet a a = some a := by
  cases a <;> simp [Sc.meet, Sc.iv, meetN, omax, omin, mkRng]
  rename_i lo hi
  cases lo <;> cases hi <;> simp [Sc.wf] at h ⊢
  rw [if_neg (by omega), if_pos h]

theorem Sc.norm_wf (a r : Sc) (h : a.norm = some r) : r.wf = true := by
  unfold Sc.norm at h
  cases hia : a.iv
  · simp [hia] at h; subst h; cases a <;> simp [Sc.iv] at hia <;> rfl
  · simp [hia] at h; exact mkRng_wf _ _ _ h

end CueVerif.Core
