/-
Intern-table model (Model/Intern.lean): the per-thread invariant of a `getKey` call and
what ONE instruction of one thread does to it and to the shared table (one lemma per
program point).  Used by Proofs/InternInv.lean (global invariant) and Proofs/Intern.lean.
-/
import CueVerif.Model.Intern
import CueVerif.Proofs.LocksetMutex
namespace CueVerif.Intern
open CueVerif.Lockset

/-! ### the data semantics, access by access -/

theorem sem_lookup_some {d : Tab} {l : Loc} {v : Nat} (h : lookup d.map l.s = some v) :
    sem.acc "labelMap" .lookup d l =
      (d, { l with p := v, ok := true, lin := if l.lin = none then some v else l.lin }) := by
  simp [sem, h]

theorem sem_lookup_none {d : Tab} {l : Loc} (h : lookup d.map l.s = none) :
    sem.acc "labelMap" .lookup d l = (d, { l with p := 0, ok := false }) := by
  simp [sem, h]

theorem sem_len (d : Tab) (l : Loc) :
    sem.acc "labels" .len d l = (d, { l with p := d.labels.length }) := by
  simp [sem]

theorem sem_append (d : Tab) (l : Loc) : sem.acc "labels" .append d l =
    ({ d with labels := d.labels ++ [l.s] },
     { l with lin := if l.lin = none then some d.labels.length else l.lin }) := by
  simp [sem]

theorem sem_store (d : Tab) (l : Loc) :
    sem.acc "labelMap" .store d l = ({ d with map := (l.s, l.p) :: d.map }, l) := by
  simp [sem]

theorem sem_index (d : Tab) (l : Loc) :
    sem.acc "labels" .index d l = (d, { l with out := d.labels[l.i]? }) := by
  simp [sem]

theorem sem_cond_ok (l : Loc) : sem.cond "ok" l = l.ok := by simp [sem]

/-- generic facts about ANY access: `s`, `i` are never written, `labels` only grows at the
end, `out` is only written by the index read -/
theorem sem_acc_facts (x : Lockset.Loc) (k : Acc) (d : Tab) (l : Loc) :
    (sem.acc x k d l).2.s = l.s ∧ (sem.acc x k d l).2.i = l.i ∧
    (∃ ext, (sem.acc x k d l).1.labels = d.labels ++ ext) ∧
    ((sem.acc x k d l).2.out = l.out ∨ (sem.acc x k d l).2.out = d.labels[l.i]?) := by
  simp only [sem]
  split
  · split
    · exact ⟨rfl, rfl, ⟨[], by simp⟩, .inl rfl⟩
    · exact ⟨rfl, rfl, ⟨[], by simp⟩, .inl rfl⟩
  · split
    · exact ⟨rfl, rfl, ⟨[], by simp⟩, .inl rfl⟩
    · split
      · exact ⟨rfl, rfl, ⟨[l.s], rfl⟩, .inl rfl⟩
      · split
        · exact ⟨rfl, rfl, ⟨[], by simp⟩, .inl rfl⟩
        · split
          · exact ⟨rfl, rfl, ⟨[], by simp⟩, .inr rfl⟩
          · exact ⟨rfl, rfl, ⟨[], by simp⟩, .inl rfl⟩

/-! ### generic facts about one instruction -/

theorem next_prog {D L : Type} (sm : Sem D L) (fr : Lk → Bool → Bool) (d : D) (t : Th L)
    (d' : D) (t' : Th L) (h : next sm fr d t = some (d', t')) : t'.prog = t.prog := by
  unfold next at h
  split at h
  · cases h
  · split at h
    · cases h; rfl
    · split at h
      · cases h; rfl
      · cases h
  · split at h
    · cases h; rfl
    · split at h
      · cases h; rfl
      · cases h
    · split at h
      · cases h; rfl
      · cases h
    · cases h; rfl
    · cases h; rfl
    · cases h; rfl
    · cases h; rfl
    · cases h; rfl
    · cases h; rfl
    · cases h

/-- an instruction either leaves data and locals alone or is an access -/
theorem next_data {D L : Type} (sm : Sem D L) (fr : Lk → Bool → Bool) (d : D) (t : Th L)
    (d' : D) (t' : Th L) (h : next sm fr d t = some (d', t')) :
    (d' = d ∧ t'.loc = t.loc) ∨
    (t.st = .run ∧ ∃ x k, t.prog[t.pc]? = some (.acc x k) ∧
      d' = (sm.acc x k d t.loc).1 ∧ t'.loc = (sm.acc x k d t.loc).2) := by
  unfold next at h
  split at h
  · cases h
  · split at h
    · cases h; exact .inl ⟨rfl, rfl⟩
    · split at h
      · cases h; exact .inl ⟨rfl, rfl⟩
      · cases h
  · next hst =>
    split at h
    · cases h; exact .inl ⟨rfl, rfl⟩
    · split at h
      · cases h; exact .inl ⟨rfl, rfl⟩
      · cases h
    · split at h
      · cases h; exact .inl ⟨rfl, rfl⟩
      · cases h
    · cases h; exact .inl ⟨rfl, rfl⟩
    · next x k he => cases h; exact .inr ⟨hst, x, k, he, rfl, rfl⟩
    · cases h; exact .inl ⟨rfl, rfl⟩
    · cases h; exact .inl ⟨rfl, rfl⟩
    · cases h; exact .inl ⟨rfl, rfl⟩
    · cases h; exact .inl ⟨rfl, rfl⟩
    · cases h

/-! ### the two programs, instruction by instruction -/

theorem gk_at0 : getKeyProg[0]? = some (.acq "mutex" false) := rfl
theorem gk_at1 : getKeyProg[1]? = some (.acc "labelMap" .lookup) := rfl
theorem gk_at2 : getKeyProg[2]? = some (.rel "mutex" false) := rfl
theorem gk_at3 : getKeyProg[3]? = some (.br "ok" 1) := rfl
theorem gk_at4 : getKeyProg[4]? = some .ret := rfl
theorem gk_at5 : getKeyProg[5]? = some (.acq "mutex" true) := rfl
theorem gk_at6 : getKeyProg[6]? = some (.dfr "mutex" true) := rfl
theorem gk_at7 : getKeyProg[7]? = some (.acc "labelMap" .lookup) := rfl
theorem gk_at8 : getKeyProg[8]? = some (.br "ok" 1) := rfl
theorem gk_at9 : getKeyProg[9]? = some .ret := rfl
theorem gk_at10 : getKeyProg[10]? = some (.acc "labels" .len) := rfl
theorem gk_at11 : getKeyProg[11]? = some (.acc "labels" .append) := rfl
theorem gk_at12 : getKeyProg[12]? = some (.acc "labelMap" .store) := rfl
theorem gk_at13 : getKeyProg[13]? = some .ret := rfl

theorem progs_ne : getKeyProg ≠ indexToStringProg := by decide

theorem its_acc {n : Nat} {x : Lockset.Loc} {k : Acc}
    (h : indexToStringProg[n]? = some (.acc x k)) : n = 1 ∧ x = "labels" ∧ k = .index := by
  match n, h with
  | 0, h => simp [indexToStringProg] at h
  | 1, h =>
    simp [indexToStringProg] at h
    exact ⟨rfl, h.1.symm, h.2.symm⟩
  | 2, h => simp [indexToStringProg] at h
  | 3, h => simp [indexToStringProg] at h
  | n + 4, h => simp [indexToStringProg] at h

/-! ### the per-thread invariant of a `getKey` call -/

/-- the call has been linearized and `p` is its result -/
def LinOk (ls : List Key) (l : Loc) : Prop := ls[l.p]? = some l.s ∧ l.lin = some l.p

def GKrun (ls : List Key) (pc : Nat) (held dfr : Held) (l : Loc) : Prop :=
  match pc with
  | 0 => held = [] ∧ dfr = [] ∧ l.lin = none
  | 1 => held = [("mutex", false)] ∧ dfr = [] ∧ l.lin = none
  | 2 => held = [("mutex", false)] ∧ dfr = [] ∧ (if l.ok then LinOk ls l else l.lin = none)
  | 3 => held = [] ∧ dfr = [] ∧ (if l.ok then LinOk ls l else l.lin = none)
  | 4 => held = [] ∧ dfr = [] ∧ LinOk ls l
  | 5 => held = [] ∧ dfr = [] ∧ l.lin = none
  | 6 => held = [("mutex", true)] ∧ dfr = [] ∧ l.lin = none
  | 7 => held = [("mutex", true)] ∧ dfr = [("mutex", true)] ∧ l.lin = none
  | 8 => held = [("mutex", true)] ∧ dfr = [("mutex", true)] ∧
      (if l.ok then LinOk ls l else (l.lin = none ∧ l.s ∉ ls))
  | 9 => held = [("mutex", true)] ∧ dfr = [("mutex", true)] ∧ LinOk ls l
  | 10 => held = [("mutex", true)] ∧ dfr = [("mutex", true)] ∧ l.lin = none ∧ l.s ∉ ls
  | 11 => held = [("mutex", true)] ∧ dfr = [("mutex", true)] ∧ l.lin = none ∧ l.s ∉ ls ∧
      l.p = ls.length
  | 12 => held = [("mutex", true)] ∧ dfr = [("mutex", true)] ∧ LinOk ls l
  | 13 => held = [("mutex", true)] ∧ dfr = [("mutex", true)] ∧ LinOk ls l
  | _ => False

def GK (ls : List Key) (t : Th Loc) : Prop :=
  match t.st with
  | .run => GKrun ls t.pc t.held t.dfr t.loc
  | .unwinding => LinOk ls t.loc ∧ t.held = t.dfr ∧ (t.dfr = [] ∨ t.dfr = [("mutex", true)])
  | .done => LinOk ls t.loc ∧ t.held = []

theorem LinOk_append {ls : List Key} {l : Loc} (ext : List Key) (h : LinOk ls l) :
    LinOk (ls ++ ext) l := by
  refine ⟨?_, h.2⟩
  have hlt : l.p < ls.length := (List.getElem?_eq_some_iff.1 h.1).1
  rw [List.getElem?_append_left hlt]; exact h.1

/-- a thread that does not hold the write lock does not care about appends to `labels` -/
theorem GKrun_stable {ls : List Key} {pc : Nat} {held dfr : Held} {l : Loc} (ext : List Key)
    (h : GKrun ls pc held dfr l) (hW : ("mutex", true) ∉ held) :
    GKrun (ls ++ ext) pc held dfr l := by
  unfold GKrun at h ⊢
  split at h
  · exact h
  · exact h
  · refine ⟨h.1, h.2.1, ?_⟩
    have h3 := h.2.2
    split at h3
    · next hok => rw [if_pos hok]; exact LinOk_append ext h3
    · next hok => rw [if_neg hok]; exact h3
  · refine ⟨h.1, h.2.1, ?_⟩
    have h3 := h.2.2
    split at h3
    · next hok => rw [if_pos hok]; exact LinOk_append ext h3
    · next hok => rw [if_neg hok]; exact h3
  · exact ⟨h.1, h.2.1, LinOk_append ext h.2.2⟩
  · exact h
  · exact absurd (by rw [h.1]; exact List.mem_singleton.2 rfl) hW
  · exact absurd (by rw [h.1]; exact List.mem_singleton.2 rfl) hW
  · exact absurd (by rw [h.1]; exact List.mem_singleton.2 rfl) hW
  · exact absurd (by rw [h.1]; exact List.mem_singleton.2 rfl) hW
  · exact absurd (by rw [h.1]; exact List.mem_singleton.2 rfl) hW
  · exact absurd (by rw [h.1]; exact List.mem_singleton.2 rfl) hW
  · exact absurd (by rw [h.1]; exact List.mem_singleton.2 rfl) hW
  · exact absurd (by rw [h.1]; exact List.mem_singleton.2 rfl) hW
  · exact h.elim

theorem GK_stable {ls : List Key} {t : Th Loc} (ext : List Key)
    (h : GK ls t) (hW : ("mutex", true) ∉ t.held) : GK (ls ++ ext) t := by
  unfold GK at h ⊢
  split at h
  · exact GKrun_stable ext h hW
  · exact ⟨LinOk_append ext h.1, h.2⟩
  · exact ⟨LinOk_append ext h.1, h.2⟩

theorem GK_run12 {ls : List Key} {t : Th Loc} (h : GK ls t) (hst : t.st = .run)
    (hpc : t.pc = 12) : t.held = [("mutex", true)] ∧ LinOk ls t.loc := by
  simp only [GK, hst, hpc, GKrun] at h
  exact ⟨h.1, h.2.2⟩

theorem GK_done {ls : List Key} {t : Th Loc} (h : GK ls t) (hst : t.st = .done) :
    LinOk ls t.loc ∧ t.held = [] := by
  simpa only [GK, hst] using h

theorem GK_new {ls : List Key} {l0 : Loc} (hl : initL l0) : GK ls (Th.new getKeyProg l0) :=
  show _ ∧ _ from ⟨rfl, rfl, hl.2.2⟩

/-! ### what one step of a `getKey` thread does -/

/-- the effect of a step on the thread's ghost result and on `labels`: nothing, or the
linearization point (a successful lookup, or the append) -/
def LinStep (d : Tab) (t : Th Loc) (d' : Tab) (t' : Th Loc) : Prop :=
  (t'.loc.lin = t.loc.lin ∧ d'.labels = d.labels) ∨
  (t.loc.lin = none ∧ ∃ r, t'.loc.lin = some r ∧
    ((d'.labels = d.labels ∧ d.labels[r]? = some t.loc.s) ∨
     (r = d.labels.length ∧ d'.labels = d.labels ++ [t.loc.s] ∧ t.loc.s ∉ d.labels)))

/-- the effect of a step on the shared table -/
def DataStep (d : Tab) (t : Th Loc) (d' : Tab) (t' : Th Loc) : Prop :=
  (d' = d ∧ ¬ (t.st = .run ∧ t.pc = 12)) ∨
  (t.st = .run ∧ t.pc = 11 ∧ t.held = [("mutex", true)] ∧ t.loc.s ∉ d.labels ∧
    d' = { d with labels := d.labels ++ [t.loc.s] } ∧
    t'.st = .run ∧ t'.pc = 12 ∧ t'.loc.p = d.labels.length) ∨
  (t.st = .run ∧ t.pc = 12 ∧ t.held = [("mutex", true)] ∧ d.labels[t.loc.p]? = some t.loc.s ∧
    d' = { d with map := (t.loc.s, t.loc.p) :: d.map })

structure StepOut (d : Tab) (t : Th Loc) (d' : Tab) (t' : Th Loc) : Prop where
  prog : t'.prog = t.prog
  s : t'.loc.s = t.loc.s
  ok : GK d'.labels t'
  lin : LinStep d t d' t'
  data : DataStep d t d' t'

section steps
variable {fr : Lk → Bool → Bool} {d d' : Tab} {held dfr : Held} {loc : Loc} {t' : Th Loc}

theorem gk_step_run0 (hok : GKrun d.labels 0 held dfr loc)
    (h : next sem fr d ⟨getKeyProg, 0, held, dfr, .run, loc⟩ = some (d', t')) :
    StepOut d ⟨getKeyProg, 0, held, dfr, .run, loc⟩ d' t' := by
  simp only [GKrun] at hok
  obtain ⟨rfl, rfl, hl⟩ := hok
  simp only [next, gk_at0] at h
  split at h
  · cases h
    exact ⟨rfl, rfl, show _ ∧ _ from ⟨rfl, rfl, hl⟩, .inl ⟨rfl, rfl⟩,
      .inl ⟨rfl, by simp⟩⟩
  · cases h

theorem gk_step_run1 (hA : ∀ k i, lookup d.map k = some i → d.labels[i]? = some k)
    (hok : GKrun d.labels 1 held dfr loc)
    (h : next sem fr d ⟨getKeyProg, 1, held, dfr, .run, loc⟩ = some (d', t')) :
    StepOut d ⟨getKeyProg, 1, held, dfr, .run, loc⟩ d' t' := by
  simp only [GKrun] at hok
  obtain ⟨rfl, rfl, hl⟩ := hok
  simp only [next, gk_at1] at h
  cases hlk : lookup d.map loc.s with
  | none =>
    rw [sem_lookup_none hlk] at h
    cases h
    exact ⟨rfl, rfl, show _ ∧ _ from ⟨rfl, rfl, by simpa using hl⟩,
      .inl ⟨rfl, rfl⟩, .inl ⟨rfl, by simp⟩⟩
  | some v =>
    rw [sem_lookup_some hlk] at h
    cases h
    have hv := hA _ _ hlk
    exact ⟨rfl, rfl, show _ ∧ _ from ⟨rfl, rfl, by simp [LinOk, hl, hv]⟩,
      .inr ⟨hl, v, by simp [hl], .inl ⟨rfl, hv⟩⟩, .inl ⟨rfl, by simp⟩⟩

theorem gk_step_run2 (hok : GKrun d.labels 2 held dfr loc)
    (h : next sem fr d ⟨getKeyProg, 2, held, dfr, .run, loc⟩ = some (d', t')) :
    StepOut d ⟨getKeyProg, 2, held, dfr, .run, loc⟩ d' t' := by
  simp only [GKrun] at hok
  obtain ⟨rfl, rfl, hl⟩ := hok
  simp only [next, gk_at2] at h
  split at h
  · cases h
    exact ⟨rfl, rfl, show _ ∧ _ from ⟨by simp, rfl, hl⟩, .inl ⟨rfl, rfl⟩,
      .inl ⟨rfl, by simp⟩⟩
  · cases h

theorem gk_step_run3 (hok : GKrun d.labels 3 held dfr loc)
    (h : next sem fr d ⟨getKeyProg, 3, held, dfr, .run, loc⟩ = some (d', t')) :
    StepOut d ⟨getKeyProg, 3, held, dfr, .run, loc⟩ d' t' := by
  simp only [GKrun] at hok
  obtain ⟨rfl, rfl, hl⟩ := hok
  simp only [next, gk_at3, sem_cond_ok] at h
  cases h
  refine ⟨rfl, rfl, ?_, .inl ⟨rfl, rfl⟩, .inl ⟨rfl, by simp⟩⟩
  cases hok : loc.ok with
  | true =>
    rw [hok] at hl
    simp only [if_true]; exact show _ ∧ _ from ⟨rfl, rfl, by simpa using hl⟩
  | false =>
    rw [hok] at hl
    simp only [Bool.false_eq_true, if_false]; exact show _ ∧ _ from ⟨rfl, rfl, by simpa using hl⟩

theorem gk_step_run4 (hok : GKrun d.labels 4 held dfr loc)
    (h : next sem fr d ⟨getKeyProg, 4, held, dfr, .run, loc⟩ = some (d', t')) :
    StepOut d ⟨getKeyProg, 4, held, dfr, .run, loc⟩ d' t' := by
  simp only [GKrun] at hok
  obtain ⟨rfl, rfl, hl⟩ := hok
  simp only [next, gk_at4] at h
  cases h
  exact ⟨rfl, rfl, show _ ∧ _ from ⟨hl, rfl, .inl rfl⟩, .inl ⟨rfl, rfl⟩,
    .inl ⟨rfl, by simp⟩⟩

theorem gk_step_run5 (hok : GKrun d.labels 5 held dfr loc)
    (h : next sem fr d ⟨getKeyProg, 5, held, dfr, .run, loc⟩ = some (d', t')) :
    StepOut d ⟨getKeyProg, 5, held, dfr, .run, loc⟩ d' t' := by
  simp only [GKrun] at hok
  obtain ⟨rfl, rfl, hl⟩ := hok
  simp only [next, gk_at5] at h
  split at h
  · cases h
    exact ⟨rfl, rfl, show _ ∧ _ from ⟨rfl, rfl, hl⟩, .inl ⟨rfl, rfl⟩,
      .inl ⟨rfl, by simp⟩⟩
  · cases h

theorem gk_step_run6 (hok : GKrun d.labels 6 held dfr loc)
    (h : next sem fr d ⟨getKeyProg, 6, held, dfr, .run, loc⟩ = some (d', t')) :
    StepOut d ⟨getKeyProg, 6, held, dfr, .run, loc⟩ d' t' := by
  simp only [GKrun] at hok
  obtain ⟨rfl, rfl, hl⟩ := hok
  simp only [next, gk_at6] at h
  cases h
  exact ⟨rfl, rfl, show _ ∧ _ from ⟨rfl, rfl, hl⟩, .inl ⟨rfl, rfl⟩,
    .inl ⟨rfl, by simp⟩⟩

theorem gk_step_run7 (hA : ∀ k i, lookup d.map k = some i → d.labels[i]? = some k)
    (hN : lookup d.map loc.s = none → loc.s ∉ d.labels)
    (hok : GKrun d.labels 7 held dfr loc)
    (h : next sem fr d ⟨getKeyProg, 7, held, dfr, .run, loc⟩ = some (d', t')) :
    StepOut d ⟨getKeyProg, 7, held, dfr, .run, loc⟩ d' t' := by
  simp only [GKrun] at hok
  obtain ⟨rfl, rfl, hl⟩ := hok
  simp only [next, gk_at7] at h
  cases hlk : lookup d.map loc.s with
  | none =>
    rw [sem_lookup_none hlk] at h
    cases h
    exact ⟨rfl, rfl, show _ ∧ _ from ⟨rfl, rfl, by simpa using ⟨hl, hN hlk⟩⟩,
      .inl ⟨rfl, rfl⟩, .inl ⟨rfl, by simp⟩⟩
  | some v =>
    rw [sem_lookup_some hlk] at h
    cases h
    have hv := hA _ _ hlk
    exact ⟨rfl, rfl, show _ ∧ _ from ⟨rfl, rfl, by simp [LinOk, hl, hv]⟩,
      .inr ⟨hl, v, by simp [hl], .inl ⟨rfl, hv⟩⟩, .inl ⟨rfl, by simp⟩⟩

theorem gk_step_run8 (hok : GKrun d.labels 8 held dfr loc)
    (h : next sem fr d ⟨getKeyProg, 8, held, dfr, .run, loc⟩ = some (d', t')) :
    StepOut d ⟨getKeyProg, 8, held, dfr, .run, loc⟩ d' t' := by
  simp only [GKrun] at hok
  obtain ⟨rfl, rfl, hl⟩ := hok
  simp only [next, gk_at8, sem_cond_ok] at h
  cases h
  refine ⟨rfl, rfl, ?_, .inl ⟨rfl, rfl⟩, .inl ⟨rfl, by simp⟩⟩
  cases hok : loc.ok with
  | true =>
    rw [hok] at hl
    simp only [if_true]; exact show _ ∧ _ from ⟨rfl, rfl, by simpa using hl⟩
  | false =>
    rw [hok] at hl
    simp only [Bool.false_eq_true, if_false]; exact show _ ∧ _ from ⟨rfl, rfl, by simpa using hl⟩

theorem gk_step_run9 (hok : GKrun d.labels 9 held dfr loc)
    (h : next sem fr d ⟨getKeyProg, 9, held, dfr, .run, loc⟩ = some (d', t')) :
    StepOut d ⟨getKeyProg, 9, held, dfr, .run, loc⟩ d' t' := by
  simp only [GKrun] at hok
  obtain ⟨rfl, rfl, hl⟩ := hok
  simp only [next, gk_at9] at h
  cases h
  exact ⟨rfl, rfl, show _ ∧ _ from ⟨hl, rfl, .inr rfl⟩, .inl ⟨rfl, rfl⟩,
    .inl ⟨rfl, by simp⟩⟩

theorem gk_step_run10 (hok : GKrun d.labels 10 held dfr loc)
    (h : next sem fr d ⟨getKeyProg, 10, held, dfr, .run, loc⟩ = some (d', t')) :
    StepOut d ⟨getKeyProg, 10, held, dfr, .run, loc⟩ d' t' := by
  simp only [GKrun] at hok
  obtain ⟨rfl, rfl, hl, hn⟩ := hok
  simp only [next, gk_at10, sem_len] at h
  cases h
  exact ⟨rfl, rfl, show _ ∧ _ from ⟨rfl, rfl, hl, hn, rfl⟩, .inl ⟨rfl, rfl⟩,
    .inl ⟨rfl, by simp⟩⟩

theorem gk_step_run11 (hok : GKrun d.labels 11 held dfr loc)
    (h : next sem fr d ⟨getKeyProg, 11, held, dfr, .run, loc⟩ = some (d', t')) :
    StepOut d ⟨getKeyProg, 11, held, dfr, .run, loc⟩ d' t' := by
  simp only [GKrun] at hok
  obtain ⟨rfl, rfl, hl, hn, hp⟩ := hok
  simp only [next, gk_at11, sem_append] at h
  cases h
  refine ⟨rfl, rfl, ?_, .inr ⟨hl, d.labels.length, by simp [hl], .inr ⟨rfl, rfl, hn⟩⟩,
    .inr (.inl ⟨rfl, rfl, rfl, hn, rfl, rfl, rfl, hp⟩)⟩
  refine show _ ∧ _ ∧ _ ∧ _ from ⟨rfl, rfl, ?_, ?_⟩
  · show (d.labels ++ [loc.s])[loc.p]? = some loc.s
    rw [hp]; exact List.getElem?_concat_length
  · simp [hl, hp]

theorem gk_step_run12 (hok : GKrun d.labels 12 held dfr loc)
    (h : next sem fr d ⟨getKeyProg, 12, held, dfr, .run, loc⟩ = some (d', t')) :
    StepOut d ⟨getKeyProg, 12, held, dfr, .run, loc⟩ d' t' := by
  simp only [GKrun] at hok
  obtain ⟨rfl, rfl, hl⟩ := hok
  simp only [next, gk_at12, sem_store] at h
  cases h
  exact ⟨rfl, rfl, show _ ∧ _ from ⟨rfl, rfl, hl⟩, .inl ⟨rfl, rfl⟩,
    .inr (.inr ⟨rfl, rfl, rfl, hl.1, rfl⟩)⟩

theorem gk_step_run13 (hok : GKrun d.labels 13 held dfr loc)
    (h : next sem fr d ⟨getKeyProg, 13, held, dfr, .run, loc⟩ = some (d', t')) :
    StepOut d ⟨getKeyProg, 13, held, dfr, .run, loc⟩ d' t' := by
  simp only [GKrun] at hok
  obtain ⟨rfl, rfl, hl⟩ := hok
  simp only [next, gk_at13] at h
  cases h
  exact ⟨rfl, rfl, show _ ∧ _ from ⟨hl, rfl, .inr rfl⟩, .inl ⟨rfl, rfl⟩,
    .inl ⟨rfl, by simp⟩⟩

theorem gk_step_unwinding {pc : Nat}
    (hok : GK d.labels ⟨getKeyProg, pc, held, dfr, .unwinding, loc⟩)
    (h : next sem fr d ⟨getKeyProg, pc, held, dfr, .unwinding, loc⟩ = some (d', t')) :
    StepOut d ⟨getKeyProg, pc, held, dfr, .unwinding, loc⟩ d' t' := by
  simp only [GK] at hok
  obtain ⟨hl, rfl, hd⟩ := hok
  rcases hd with rfl | rfl
  · simp only [next] at h
    cases h
    exact ⟨rfl, rfl, show _ ∧ _ from ⟨hl, rfl⟩, .inl ⟨rfl, rfl⟩, .inl ⟨rfl, by simp⟩⟩
  · simp only [next] at h
    split at h
    · cases h
      exact ⟨rfl, rfl, show _ ∧ _ from ⟨hl, by simp, .inl rfl⟩, .inl ⟨rfl, rfl⟩,
        .inl ⟨rfl, by simp⟩⟩
    · cases h

end steps

/-- one enabled instruction of a `getKey` thread that satisfies its invariant -/
theorem gk_step {fr : Lk → Bool → Bool} {d d' : Tab} {t t' : Th Loc}
    (hp : t.prog = getKeyProg) (hok : GK d.labels t)
    (hA : ∀ k i, lookup d.map k = some i → d.labels[i]? = some k)
    (hN : t.st = .run → t.pc = 7 → lookup d.map t.loc.s = none → t.loc.s ∉ d.labels)
    (h : next sem fr d t = some (d', t')) : StepOut d t d' t' := by
  obtain ⟨prog, pc, held, dfr, st, loc⟩ := t
  simp only at hp hN
  subst hp
  cases st with
  | done => simp [next] at h
  | unwinding => exact gk_step_unwinding hok h
  | run =>
    simp only [GK] at hok
    match pc, hok, h, hN with
    | 0, hok, h, _ => exact gk_step_run0 hok h
    | 1, hok, h, _ => exact gk_step_run1 hA hok h
    | 2, hok, h, _ => exact gk_step_run2 hok h
    | 3, hok, h, _ => exact gk_step_run3 hok h
    | 4, hok, h, _ => exact gk_step_run4 hok h
    | 5, hok, h, _ => exact gk_step_run5 hok h
    | 6, hok, h, _ => exact gk_step_run6 hok h
    | 7, hok, h, hN => exact gk_step_run7 hA (hN rfl rfl) hok h
    | 8, hok, h, _ => exact gk_step_run8 hok h
    | 9, hok, h, _ => exact gk_step_run9 hok h
    | 10, hok, h, _ => exact gk_step_run10 hok h
    | 11, hok, h, _ => exact gk_step_run11 hok h
    | 12, hok, h, _ => exact gk_step_run12 hok h
    | 13, hok, h, _ => exact gk_step_run13 hok h
    | n + 14, hok, _, _ => simp [GKrun] at hok

/-- a step of an `IndexToString` thread never touches the table or the ghost field -/
theorem its_step {fr : Lk → Bool → Bool} {d d' : Tab} {t t' : Th Loc}
    (hp : t.prog = indexToStringProg) (h : next sem fr d t = some (d', t')) :
    d' = d ∧ t'.loc.lin = t.loc.lin := by
  rcases next_data sem fr d t d' t' h with ⟨hd, hl⟩ | ⟨_, x, k, he, hd, hl⟩
  · exact ⟨hd, by rw [hl]⟩
  · rw [hp] at he
    obtain ⟨_, rfl, rfl⟩ := its_acc he
    rw [sem_index] at hd hl
    exact ⟨hd, by rw [hl]⟩

end CueVerif.Intern
