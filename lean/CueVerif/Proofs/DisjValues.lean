/-
C04: the disjunct values of the implementation model (`eval`, Model/Disj.lean) are exactly
the value component of the spec's value-default pair (`specPair`, Spec/Disj.lean), for every
expression tree, and the model never lists a value twice.

Proof: structural induction with the invariant `Inv` below.  An expression contributes a
scalar part `scP` and a disjunction part `djP` (sets of values as predicates); `sem.scalar`
meets the base with `scP`, `sem.conj` meets every element of `cross` with `djP`, the spec's
`pair.v` is the pointwise meet of the two, and `sem.terms` corresponds to `specSem.terms`.
Modes never influence values.  Core Lean only.
-/
import CueVerif.Spec.Disj
namespace CueVerif.Disj
variable {V : Type} [DecidableEq V]
set_option linter.unusedSectionVars false

/-! ### value lists -/

/-- the values of a list of leaves -/
def vals (l : List (Leaf V)) : List V := l.map (·.v)

/-- the values of one `doDisjunct` result -/
def R.vals : R V → List V
  | .leaf l => [l.v]
  | .multi _ _ ds => ds.map (·.v)

/-- the values of a list of `doDisjunct` results -/
def rvals (rs : List (R V)) : List V := rs.flatMap R.vals

@[simp] theorem rvals_nil : rvals ([] : List (R V)) = [] := rfl
@[simp] theorem rvals_cons (r : R V) (rs : List (R V)) : rvals (r :: rs) = r.vals ++ rvals rs := by
  simp [rvals]
@[simp] theorem rvals_append (a b : List (R V)) : rvals (a ++ b) = rvals a ++ rvals b := by
  simp [rvals]

/-! ### spec side: membership in `insertV`, `unionV`, `meetV`, `disjPair` -/

theorem mem_insertV_v (xs : List V) (y x : V) : x ∈ insertV xs y ↔ x ∈ xs ∨ x = y := by
  unfold insertV
  split
  · constructor
    · intro h; exact Or.inl h
    · rintro (h | h)
      · exact h
      · subst h; assumption
  · simp

theorem mem_foldl_insertV_v (b : List V) (a : List V) (x : V) :
    x ∈ b.foldl insertV a ↔ x ∈ a ∨ x ∈ b := by
  induction b generalizing a with
  | nil => simp
  | cons y ys ih =>
    simp only [List.foldl_cons, ih, mem_insertV_v, List.mem_cons]
    constructor
    · rintro ((h | h) | h)
      · exact Or.inl h
      · exact Or.inr (Or.inl h)
      · exact Or.inr (Or.inr h)
    · rintro (h | h | h)
      · exact Or.inl (Or.inl h)
      · exact Or.inl (Or.inr h)
      · exact Or.inr h

theorem mem_unionV_v (a b : List V) (x : V) : x ∈ unionV a b ↔ x ∈ a ∨ x ∈ b :=
  mem_foldl_insertV_v b a x

theorem mem_meetV_v (S : Sl V) (a b : List V) (x : V) :
    x ∈ meetV S a b ↔ ∃ u, u ∈ a ∧ ∃ w, w ∈ b ∧ S.meet u w = some x := by
  unfold meetV
  rw [mem_foldl_insertV_v]
  simp [List.mem_flatMap, List.mem_filterMap]

theorem M_v (mk : Bool) (p : Pair V) : (M mk p).v = p.v := by
  unfold M
  split
  · split <;> rfl
  · rfl

theorem mem_foldl_D (f : Bool × Pair V → Pair V) (hf : ∀ t, (f t).v = t.2.v)
    (ts : List (Bool × Pair V)) (acc : Pair V) (x : V) :
    x ∈ (ts.foldl (fun acc t => D acc (f t)) acc).v ↔ x ∈ acc.v ∨ ∃ t, t ∈ ts ∧ x ∈ t.2.v := by
  induction ts generalizing acc with
  | nil => simp
  | cons t ts ih =>
    rw [List.foldl_cons, ih]
    simp only [D, mem_unionV_v, hf, List.mem_cons]
    constructor
    · rintro ((h | h) | ⟨t', h1, h2⟩)
      · exact Or.inl h
      · exact Or.inr ⟨t, Or.inl rfl, h⟩
      · exact Or.inr ⟨t', Or.inr h1, h2⟩
    · rintro (h | ⟨t', h1 | h1, h2⟩)
      · exact Or.inl (Or.inl h)
      · subst h1; exact Or.inl (Or.inr h2)
      · exact Or.inr ⟨t', h1, h2⟩

theorem mem_disjPair_v (ts : List (Bool × Pair V)) (x : V) :
    x ∈ (disjPair ts).v ↔ ∃ t, t ∈ ts ∧ x ∈ t.2.v := by
  unfold disjPair
  have := mem_foldl_D (fun t => if (ts.any (·.1)) = true then M t.1 t.2 else t.2)
    (by intro t; by_cases h : (ts.any (·.1)) = true <;> simp [h, M_v]) ts { v := [], d := [] } x
  simpa using this

/-! ### model side: `appendDisjunct`, `unroll`, `place`, `crossProduct` -/

theorem mem_vals_appendDisjunct (l : List (Leaf V)) (x : Leaf V) (y : V) :
    y ∈ vals (appendDisjunct l x) ↔ y ∈ vals l ∨ y = x.v := by
  induction l with
  | nil => simp [appendDisjunct, vals]
  | cons xn rest ih =>
    unfold appendDisjunct
    split
    · rename_i heq
      have : vals ((if x.dm = Mode.isDef then { xn with dm := Mode.isDef } else xn) :: rest)
          = vals (xn :: rest) := by
        split <;> simp [vals]
      rw [this]
      constructor
      · exact Or.inl
      · rintro (h | h)
        · exact h
        · subst h; rw [← heq]; simp [vals]
    · simp only [vals, List.map_cons, List.mem_cons] at ih ⊢
      rw [ih]
      simp [or_assoc]

theorem mem_vals_unroll (rdm rodm : Mode) (ld : Bool) (xs : List (Leaf V))
    (acc : List (Leaf V) × Bool) (y : V) :
    y ∈ vals (unroll rdm rodm ld xs acc).1 ↔ y ∈ vals acc.1 ∨ y ∈ vals xs := by
  induction xs generalizing acc with
  | nil => simp [unroll, vals]
  | cons x xs ih =>
    obtain ⟨dst, hnm⟩ := acc
    simp only [unroll, ih, mem_vals_appendDisjunct]
    simp [vals, or_assoc]

theorem mem_vals_place (ld rd : Bool) (acc : List (Leaf V) × Bool) (r : R V) (y : V) :
    y ∈ vals (place ld rd acc r).1 ↔ y ∈ vals acc.1 ∨ y ∈ r.vals := by
  cases r with
  | leaf l => simp [place, mem_vals_appendDisjunct, R.vals]
  | multi dm odm ds =>
    simp only [place]
    rw [mem_vals_unroll]
    simp [R.vals, vals]

theorem mem_vals_foldl_place (ld rd : Bool) (rs : List (R V)) (acc : List (Leaf V) × Bool) (y : V) :
    y ∈ vals (rs.foldl (place ld rd) acc).1 ↔ y ∈ vals acc.1 ∨ y ∈ rvals rs := by
  induction rs generalizing acc with
  | nil => simp
  | cons r rs ih => simp [ih, mem_vals_place, or_assoc]

theorem vals_demote (l : List (Leaf V)) :
    vals (l.map fun r => if r.dm = Mode.maybe then { r with dm := Mode.notDef } else r) = vals l := by
  induction l with
  | nil => rfl
  | cons a l ih =>
    simp only [vals, List.map_cons, List.map_map] at ih ⊢
    rw [ih]
    split <;> rfl

theorem flatMap_pairs (cross : List (Leaf V)) (terms : Leaf V → List (R V)) :
    (cross.map fun p => (p, terms p)).flatMap (fun pr => pr.2) = cross.flatMap terms := by
  induction cross with
  | nil => rfl
  | cons c cs ih => simp [List.flatMap_cons, ih]

theorem mem_rvals_flatMap (cross : List (Leaf V)) (terms : Leaf V → List (R V)) (y : V) :
    y ∈ rvals (cross.flatMap terms) ↔ ∃ c, c ∈ cross ∧ y ∈ rvals (terms c) := by
  induction cross with
  | nil => simp
  | cons c cs ih => simp [List.flatMap_cons, ih]

theorem mem_vals_crossProduct (cross : List (Leaf V)) (terms : Leaf V → List (R V)) (y : V) :
    y ∈ vals (crossProduct cross terms) ↔ ∃ c, c ∈ cross ∧ y ∈ rvals (terms c) := by
  unfold crossProduct
  simp only
  split
  · rw [vals_demote, mem_vals_foldl_place, flatMap_pairs, mem_rvals_flatMap]
    simp [vals]
  · rw [mem_vals_foldl_place, flatMap_pairs, mem_rvals_flatMap]
    simp [vals]


/-! ### sets of values as predicates, and their pointwise meet -/

/-- pointwise meet of two sets of values (failed meets disappear) -/
def MeetP (S : Sl V) (A B : V → Prop) : V → Prop :=
  fun y => ∃ u, A u ∧ ∃ w, B w ∧ S.meet u w = some y

/-- "the base value `b` met with some element of `A` gives `y`" -/
def Step (S : Sl V) (A : V → Prop) (b y : V) : Prop := ∃ a, A a ∧ S.meet b a = some y

theorem assoc_iff (S : Sl V) (h : Laws S) (p a b y : V) :
    (∃ x, S.meet a b = some x ∧ S.meet p x = some y) ↔
    (∃ v, S.meet p a = some v ∧ S.meet v b = some y) := by
  have := h.assoc p a b
  constructor
  · rintro ⟨x, h1, h2⟩
    have h3 : (S.meet a b).bind (fun y => S.meet p y) = some y := by rw [h1]; exact h2
    rw [← this] at h3
    exact Option.bind_eq_some_iff.mp h3
  · rintro ⟨v, h1, h2⟩
    have h3 : (S.meet p a).bind (fun x => S.meet x b) = some y := by rw [h1]; exact h2
    rw [this] at h3
    exact Option.bind_eq_some_iff.mp h3

/-- two steps in a row = one step with the pointwise meet -/
theorem step_comp (S : Sl V) (h : Laws S) (A B : V → Prop) (b y : V) :
    (∃ v, Step S A b v ∧ Step S B v y) ↔ Step S (MeetP S A B) b y := by
  constructor
  · rintro ⟨v, ⟨a, ha, h1⟩, ⟨x, hx, h2⟩⟩
    obtain ⟨z, hz1, hz2⟩ := (assoc_iff S h b a x y).mpr ⟨v, h1, h2⟩
    exact ⟨z, ⟨a, ha, x, hx, hz1⟩, hz2⟩
  · rintro ⟨z, ⟨a, ha, x, hx, hz1⟩, hz2⟩
    obtain ⟨v, h1, h2⟩ := (assoc_iff S h b a x y).mp ⟨z, hz1, hz2⟩
    exact ⟨v, ⟨a, ha, h1⟩, ⟨x, hx, h2⟩⟩

theorem step_congr (S : Sl V) (A B : V → Prop) (hAB : ∀ x, A x ↔ B x) (b y : V) :
    Step S A b y ↔ Step S B b y := by
  unfold Step
  constructor <;> rintro ⟨a, ha, h1⟩
  · exact ⟨a, (hAB a).mp ha, h1⟩
  · exact ⟨a, (hAB a).mpr ha, h1⟩

theorem meetP_congr (S : Sl V) (A A' B B' : V → Prop) (hA : ∀ x, A x ↔ A' x)
    (hB : ∀ x, B x ↔ B' x) (y : V) : MeetP S A B y ↔ MeetP S A' B' y := by
  unfold MeetP
  constructor <;> rintro ⟨u, hu, w, hw, h1⟩
  · exact ⟨u, (hA u).mp hu, w, (hB w).mp hw, h1⟩
  · exact ⟨u, (hA u).mpr hu, w, (hB w).mpr hw, h1⟩

theorem meetP_comm (S : Sl V) (h : Laws S) (A B : V → Prop) (y : V) :
    MeetP S A B y ↔ MeetP S B A y := by
  unfold MeetP
  constructor <;> rintro ⟨u, hu, w, hw, h1⟩
  · exact ⟨w, hw, u, hu, by rw [h.comm]; exact h1⟩
  · exact ⟨w, hw, u, hu, by rw [h.comm]; exact h1⟩

theorem meetP_assoc (S : Sl V) (h : Laws S) (A B C : V → Prop) (y : V) :
    MeetP S (MeetP S A B) C y ↔ MeetP S A (MeetP S B C) y := by
  constructor
  · rintro ⟨u, ⟨a, ha, b, hb, h1⟩, c, hc, h2⟩
    obtain ⟨x, hx1, hx2⟩ := (assoc_iff S h a b c y).mpr ⟨u, h1, h2⟩
    exact ⟨a, ha, x, ⟨b, hb, c, hc, hx1⟩, hx2⟩
  · rintro ⟨a, ha, x, ⟨b, hb, c, hc, hx1⟩, hx2⟩
    obtain ⟨u, h1, h2⟩ := (assoc_iff S h a b c y).mp ⟨x, hx1, hx2⟩
    exact ⟨u, ⟨a, ha, b, hb, h1⟩, c, hc, h2⟩

/-- (A & B) & (C & D) = (A & C) & (B & D) -/
theorem meetP_swap (S : Sl V) (h : Laws S) (A B C D : V → Prop) (y : V) :
    MeetP S (MeetP S A B) (MeetP S C D) y ↔ MeetP S (MeetP S A C) (MeetP S B D) y := by
  rw [meetP_assoc S h, meetP_assoc S h]
  apply meetP_congr S _ _ _ _ (fun _ => Iff.rfl)
  intro x
  rw [← meetP_assoc S h, ← meetP_assoc S h]
  exact meetP_congr S _ _ _ _ (meetP_comm S h B C) (fun _ => Iff.rfl) x

theorem meet_top_right (S : Sl V) (h : Laws S) (a : V) : S.meet a S.top = some a := by
  rw [h.comm]; exact h.top a

theorem meetP_top_left (S : Sl V) (h : Laws S) (B : V → Prop) (y : V) :
    MeetP S (· = S.top) B y ↔ B y := by
  unfold MeetP
  constructor
  · rintro ⟨u, rfl, w, hw, h1⟩
    rw [h.top] at h1
    cases h1; exact hw
  · intro hy
    exact ⟨S.top, rfl, y, hy, h.top y⟩

theorem meetP_top_right (S : Sl V) (h : Laws S) (A : V → Prop) (y : V) :
    MeetP S A (· = S.top) y ↔ A y := by
  rw [meetP_comm S h]; exact meetP_top_left S h A y

theorem step_top (S : Sl V) (h : Laws S) (b y : V) : Step S (· = S.top) b y ↔ b = y := by
  unfold Step
  constructor
  · rintro ⟨a, rfl, h1⟩
    rw [meet_top_right S h] at h1
    cases h1; rfl
  · rintro rfl
    exact ⟨S.top, rfl, meet_top_right S h b⟩

/-! ### `doDisj` -/

theorem rvals_doDisj (sc : Option V → Option V) (cj : List (Leaf V) → List (Leaf V))
    (p : Leaf V) (m : Mode) :
    rvals (doDisj sc cj p m) =
      match sc (some p.v) with
      | none => []
      | some v => vals (cj [{ v := v, dm := p.dm, odm := m }]) := by
  unfold doDisj
  cases sc (some p.v) with
  | none => rfl
  | some v =>
    simp only
    split
    · rename_i heq; rw [heq]; rfl
    · rename_i x heq; rw [heq]; simp [R.vals, vals]
    · simp [R.vals, vals]

theorem mem_rvals_doDisj (sc : Option V → Option V) (cj : List (Leaf V) → List (Leaf V))
    (p : Leaf V) (m : Mode) (y : V) :
    y ∈ rvals (doDisj sc cj p m) ↔
      ∃ v, sc (some p.v) = some v ∧ y ∈ vals (cj [{ v := v, dm := p.dm, odm := m }]) := by
  rw [rvals_doDisj]
  cases sc (some p.v) with
  | none => simp
  | some v => simp

/-! ### the scalar part and the disjunction part of an expression, as sets -/

/-- what the scalar conjuncts of `e` contribute -/
def scP (S : Sl V) : Expr V → V → Prop
  | .atom a => (· = a)
  | .and l r => MeetP S (scP S l) (scP S r)
  | .paren e => scP S e
  | .mark _ => fun _ => False
  | .or _ _ => (· = S.top)

/-- what the disjunction conjuncts of `e` contribute -/
def djP (S : Sl V) : Expr V → V → Prop
  | .atom _ => (· = S.top)
  | .and l r => MeetP S (djP S l) (djP S r)
  | .paren e => djP S e
  | .mark _ => fun _ => False
  | .or l r => fun x => x ∈ (specSem S (.or l r)).pair.v

/-- the invariant of the structural induction -/
structure Inv (S : Sl V) (e : Expr V) : Prop where
  scalar_none : (sem S e).scalar none = none
  scalar : ∀ b y, (sem S e).scalar (some b) = some y ↔ Step S (scP S e) b y
  conj : ∀ cross y, y ∈ vals ((sem S e).conj cross) ↔
    ∃ v, v ∈ vals cross ∧ Step S (djP S e) v y
  pair : ∀ x, x ∈ (specSem S e).pair.v ↔ MeetP S (scP S e) (djP S e) x
  terms : ∀ hd mk p y, y ∈ rvals ((sem S e).terms hd mk p) ↔
    ∃ t, t ∈ (specSem S e).terms mk ∧ ∃ x, x ∈ t.2.v ∧ S.meet p.v x = some y

/-- `doDisj` on the components of `e` meets the base value with the spec's value set -/
theorem doDisj_of_inv (S : Sl V) (h : Laws S) (e : Expr V)
    (hsc : ∀ b y, (sem S e).scalar (some b) = some y ↔ Step S (scP S e) b y)
    (hcj : ∀ cross y, y ∈ vals ((sem S e).conj cross) ↔
      ∃ v, v ∈ vals cross ∧ Step S (djP S e) v y)
    (P : V → Prop) (hP : ∀ x, P x ↔ MeetP S (scP S e) (djP S e) x)
    (p : Leaf V) (m : Mode) (y : V) :
    y ∈ rvals (doDisj (sem S e).scalar (sem S e).conj p m) ↔
      ∃ x, P x ∧ S.meet p.v x = some y := by
  rw [mem_rvals_doDisj]
  have key := step_comp S h (scP S e) (djP S e) p.v y
  have : (∃ x, P x ∧ S.meet p.v x = some y) ↔ Step S (MeetP S (scP S e) (djP S e)) p.v y :=
    step_congr S P _ hP p.v y
  rw [this, ← key]
  constructor
  · rintro ⟨v, h1, h2⟩
    refine ⟨v, (hsc _ _).mp h1, ?_⟩
    obtain ⟨v', hv', h3⟩ := (hcj _ _).mp h2
    simp [vals] at hv'
    subst hv'
    exact h3
  · rintro ⟨v, h1, h2⟩
    refine ⟨v, (hsc _ _).mpr h1, ?_⟩
    exact (hcj _ _).mpr ⟨v, by simp [vals], h2⟩


/-- for expressions that are a single term of an enclosing disjunction, the `terms` part of
the invariant follows from the others -/
theorem inv_of_parts (S : Sl V) (h : Laws S) (e : Expr V)
    (hterms : ∀ hd mk p, (sem S e).terms hd mk p =
      doDisj (sem S e).scalar (sem S e).conj p (mode hd mk))
    (hst : ∀ mk, (specSem S e).terms mk = [(mk, (specSem S e).pair)])
    (scalar_none : (sem S e).scalar none = none)
    (scalar : ∀ b y, (sem S e).scalar (some b) = some y ↔ Step S (scP S e) b y)
    (conj : ∀ cross y, y ∈ vals ((sem S e).conj cross) ↔
      ∃ v, v ∈ vals cross ∧ Step S (djP S e) v y)
    (pair : ∀ x, x ∈ (specSem S e).pair.v ↔ MeetP S (scP S e) (djP S e) x) : Inv S e where
  scalar_none := scalar_none
  scalar := scalar
  conj := conj
  pair := pair
  terms := by
    intro hd mk p y
    rw [hterms, hst, doDisj_of_inv S h e scalar conj (· ∈ (specSem S e).pair.v) pair]
    simp

theorem inv_atom (S : Sl V) (h : Laws S) (a : V) : Inv S (.atom a) := by
  apply inv_of_parts S h
  · intro hd mk p; rfl
  · intro mk; rfl
  · rfl
  · intro b y
    simp [sem, Step, scP]
  · intro cross y
    simp only [sem, djP, id, step_top S h]
    simp
  · intro x
    simp only [scP, djP, meetP_top_right S h]
    simp [specSem]

theorem inv_paren (S : Sl V) (h : Laws S) (e : Expr V) (ih : Inv S e) : Inv S (.paren e) := by
  apply inv_of_parts S h
  · intro hd mk p; rfl
  · intro mk; rfl
  · exact ih.scalar_none
  · exact ih.scalar
  · exact ih.conj
  · exact ih.pair

theorem inv_and (S : Sl V) (h : Laws S) (l r : Expr V) (ihl : Inv S l) (ihr : Inv S r) :
    Inv S (.and l r) := by
  apply inv_of_parts S h
  · intro hd mk p; rfl
  · intro mk; rfl
  · show (sem S r).scalar ((sem S l).scalar none) = none
    rw [ihl.scalar_none, ihr.scalar_none]
  · intro b y
    show (sem S r).scalar ((sem S l).scalar (some b)) = some y ↔ _
    simp only [scP]
    rw [← step_comp S h]
    cases hl : (sem S l).scalar (some b) with
    | none =>
      rw [ihr.scalar_none]
      constructor
      · intro h0; cases h0
      · rintro ⟨v, h1, _⟩
        rw [← ihl.scalar, hl] at h1; cases h1
    | some v =>
      rw [ihr.scalar]
      constructor
      · intro h2; exact ⟨v, (ihl.scalar _ _).mp hl, h2⟩
      · rintro ⟨v', h1, h2⟩
        rw [← ihl.scalar, hl] at h1
        cases h1; exact h2
  · intro cross y
    show y ∈ vals ((sem S r).conj ((sem S l).conj cross)) ↔ _
    simp only [djP]
    rw [ihr.conj]
    constructor
    · rintro ⟨v, hv, h2⟩
      obtain ⟨c, hc, h1⟩ := (ihl.conj _ _).mp hv
      exact ⟨c, hc, (step_comp S h _ _ _ _).mp ⟨v, h1, h2⟩⟩
    · rintro ⟨c, hc, h3⟩
      obtain ⟨v, h1, h2⟩ := (step_comp S h _ _ _ _).mpr h3
      exact ⟨v, (ihl.conj _ _).mpr ⟨c, hc, h1⟩, h2⟩
  · intro x
    show x ∈ meetV S (specSem S l).pair.v (specSem S r).pair.v ↔ _
    simp only [scP, djP]
    rw [mem_meetV_v, ← meetP_swap S h]
    exact meetP_congr S (· ∈ (specSem S l).pair.v) _ (· ∈ (specSem S r).pair.v) _
      ihl.pair ihr.pair x

theorem inv_mark (S : Sl V) (e : Expr V) (ih : Inv S e) : Inv S (.mark e) where
  scalar_none := rfl
  scalar := by
    intro b y
    simp [sem, scP, Step]
  conj := by
    intro cross y
    simp [sem, djP, Step, vals]
  pair := by
    intro x
    simp [specSem, scP, MeetP]
  terms := by
    intro hd mk p y
    exact ih.terms hd true p y

theorem inv_or (S : Sl V) (h : Laws S) (l r : Expr V) (ihl : Inv S l) (ihr : Inv S r) :
    Inv S (.or l r) where
  scalar_none := rfl
  scalar := by
    intro b y
    simp only [sem, scP, id, step_top S h]
    simp
  conj := by
    intro cross y
    show y ∈ vals (crossProduct cross _) ↔ _
    rw [mem_vals_crossProduct]
    simp only [rvals_append, List.mem_append, ihl.terms, ihr.terms, djP, Step]
    show _ ↔ ∃ v, v ∈ vals cross ∧ ∃ a,
      a ∈ (disjPair ((specSem S l).terms false ++ (specSem S r).terms false)).v ∧ _
    simp only [mem_disjPair_v, List.mem_append, vals, List.mem_map]
    constructor
    · rintro ⟨c, hc, (⟨t, ht, x, hx, h1⟩ | ⟨t, ht, x, hx, h1⟩)⟩
      · exact ⟨c.v, ⟨c, hc, rfl⟩, x, ⟨t, Or.inl ht, hx⟩, h1⟩
      · exact ⟨c.v, ⟨c, hc, rfl⟩, x, ⟨t, Or.inr ht, hx⟩, h1⟩
    · rintro ⟨v, ⟨c, hc, rfl⟩, x, ⟨t, (ht | ht), hx⟩, h1⟩
      · exact ⟨c, hc, Or.inl ⟨t, ht, x, hx, h1⟩⟩
      · exact ⟨c, hc, Or.inr ⟨t, ht, x, hx, h1⟩⟩
  pair := by
    intro x
    simp only [scP, djP, meetP_top_left S h]
  terms := by
    intro hd mk p y
    show y ∈ rvals ((sem S l).terms hd mk p ++ (sem S r).terms hd mk p) ↔
      ∃ t, t ∈ (specSem S l).terms mk ++ (specSem S r).terms mk ∧ _
    simp only [rvals_append, List.mem_append, ihl.terms, ihr.terms]
    constructor
    · rintro (⟨t, ht, rest⟩ | ⟨t, ht, rest⟩)
      · exact ⟨t, Or.inl ht, rest⟩
      · exact ⟨t, Or.inr ht, rest⟩
    · rintro ⟨t, (ht | ht), rest⟩
      · exact Or.inl ⟨t, ht, rest⟩
      · exact Or.inr ⟨t, ht, rest⟩

theorem inv_all (S : Sl V) (h : Laws S) (e : Expr V) : Inv S e := by
  induction e with
  | atom a => exact inv_atom S h a
  | and l r ihl ihr => exact inv_and S h l r ihl ihr
  | or l r ihl ihr => exact inv_or S h l r ihl ihr
  | mark e ih => exact inv_mark S e ih
  | paren e ih => exact inv_paren S h e ih

/-- key lemma: the disjunct values `doDisjunct` produces for `e` on the base `p` are the meets
of `p` with the spec's values of `e` -/
theorem doDisj_values (S : Sl V) (h : Laws S) (e : Expr V) (p : Leaf V) (m : Mode) (y : V) :
    y ∈ rvals (doDisj (sem S e).scalar (sem S e).conj p m) ↔
      ∃ x, x ∈ (specPair S e).v ∧ S.meet p.v x = some y :=
  have i := inv_all S h e
  doDisj_of_inv S h e i.scalar i.conj (· ∈ (specSem S e).pair.v) i.pair p m y

theorem eval_values (S : Sl V) (e : Expr V) :
    (eval S e).values =
      rvals (doDisj (sem S e).scalar (sem S e).conj { v := S.top, dm := .maybe, odm := .maybe } .maybe) := by
  unfold eval doDisj
  simp only
  cases (sem S e).scalar (some S.top) with
  | none => rfl
  | some v =>
    simp only
    generalize (sem S e).conj [{ v := v, dm := Mode.maybe, odm := Mode.maybe }] = L
    match L with
    | [] => rfl
    | [x] => simp [Out.values, R.vals]
    | a :: b :: t => simp [Out.values, R.vals]

/-- the set of disjunct values of the implementation model = the spec's value component -/
theorem values_iff (S : Sl V) (h : Laws S) (e : Expr V) (x : V) :
    x ∈ (eval S e).values ↔ x ∈ (specPair S e).v := by
  rw [eval_values, doDisj_values S h]
  simp only [h.top]
  simp


/-! ### duplicate elimination -/

theorem vals_appendDisjunct_hit (xn x : Leaf V) (rest : List (Leaf V)) :
    vals ((if x.dm = Mode.isDef then { xn with dm := Mode.isDef } else xn) :: rest)
      = vals (xn :: rest) := by
  split <;> simp [vals]

theorem nodup_appendDisjunct (l : List (Leaf V)) (x : Leaf V) (hl : (vals l).Nodup) :
    (vals (appendDisjunct l x)).Nodup := by
  induction l with
  | nil => simp [appendDisjunct, vals]
  | cons xn rest ih =>
    unfold appendDisjunct
    split
    · rw [vals_appendDisjunct_hit]; exact hl
    · rename_i hne
      have hl' : xn.v ∉ vals rest ∧ (vals rest).Nodup := by
        simpa [vals] using hl
      have : vals (xn :: appendDisjunct rest x) = xn.v :: vals (appendDisjunct rest x) := rfl
      rw [this, List.nodup_cons]
      refine ⟨?_, ih hl'.2⟩
      rw [mem_vals_appendDisjunct]
      rintro (h1 | h1)
      · exact hl'.1 h1
      · exact hne h1

theorem nodup_unroll (rdm rodm : Mode) (ld : Bool) (xs : List (Leaf V))
    (acc : List (Leaf V) × Bool) (hacc : (vals acc.1).Nodup) :
    (vals (unroll rdm rodm ld xs acc).1).Nodup := by
  induction xs generalizing acc with
  | nil => simpa [unroll] using hacc
  | cons x xs ih =>
    obtain ⟨dst, hnm⟩ := acc
    simp only [unroll]
    apply ih
    exact nodup_appendDisjunct _ _ hacc

theorem nodup_place (ld rd : Bool) (acc : List (Leaf V) × Bool) (r : R V)
    (hacc : (vals acc.1).Nodup) : (vals (place ld rd acc r).1).Nodup := by
  cases r with
  | leaf l => exact nodup_appendDisjunct _ _ hacc
  | multi dm odm ds => exact nodup_unroll _ _ _ _ _ hacc

theorem nodup_foldl_place (ld rd : Bool) (rs : List (R V)) (acc : List (Leaf V) × Bool)
    (hacc : (vals acc.1).Nodup) : (vals (rs.foldl (place ld rd) acc).1).Nodup := by
  induction rs generalizing acc with
  | nil => exact hacc
  | cons r rs ih => exact ih _ (nodup_place _ _ _ _ hacc)

/-- the output of `crossProduct` never lists a value twice -/
theorem nodup_crossProduct (cross : List (Leaf V)) (terms : Leaf V → List (R V)) :
    (vals (crossProduct cross terms)).Nodup := by
  unfold crossProduct
  simp only
  split
  · rw [vals_demote]
    exact nodup_foldl_place _ _ _ _ (by simp [vals])
  · exact nodup_foldl_place _ _ _ _ (by simp [vals])

/-- `processDisjunctions` keeps the list of disjuncts duplicate free -/
theorem nodup_conj (S : Sl V) (e : Expr V) (cross : List (Leaf V)) (hc : (vals cross).Nodup) :
    (vals ((sem S e).conj cross)).Nodup := by
  induction e generalizing cross with
  | atom a => exact hc
  | and l r ihl ihr => exact ihr _ (ihl _ hc)
  | or l r _ _ => exact nodup_crossProduct _ _
  | mark e _ => simp [sem, vals]
  | paren e ih => exact ih _ hc

/-- the model never lists a disjunct value twice (duplicate elimination) -/
theorem values_nodup (S : Sl V) (e : Expr V) : (eval S e).values.Nodup := by
  rw [eval_values, rvals_doDisj]
  cases (sem S e).scalar (some S.top) with
  | none => simp
  | some v =>
    simp only
    exact nodup_conj S e _ (by simp [vals])

end CueVerif.Disj
