/-
C12: every emission of the encoder model is valid TOML (reference semantics `tomlSpec`) with
the meaning of the tree (`emit_valid`).  The spec-side analogue of `roundtrip`: the store of
defined paths is tracked with a frame (`SFrame`: which paths a run may have (re)defined) and the
resolution of the header key stack (`Res`: `walkHeader` reaches the current position without
creating implicit tables).  The appended facts are literally `kvFacts`/`subFacts`/… of
TomlRoundFacts.
-/
import CueVerif.Spec.Toml
import CueVerif.Proofs.TomlRound
open CueVerif.Toml CueVerif.Toml.Spec CueVerif.Toml.Round
namespace CueVerif.Toml.EmitValid

theorem kindAt_define (σ : Store) (p r : Path) (k : Kind) :
    kindAt (define σ p k) r = if p = r then some k else kindAt σ r := by
  unfold kindAt define
  rw [List.find?_cons]
  by_cases h : p = r
  · simp [h]
  · have : (p == r) = false := by simpa using h
    simp [h, this]

/-- the store is unchanged (as a function `kindAt`) outside `Q` -/
def SFrame (Q : Path → Prop) (σ σ' : Store) : Prop := ∀ r, ¬ Q r → kindAt σ' r = kindAt σ r

theorem SFrame.refl (Q : Path → Prop) (σ : Store) : SFrame Q σ σ := fun _ _ => rfl

theorem SFrame.trans {Q : Path → Prop} {a b c : Store} (h1 : SFrame Q a b) (h2 : SFrame Q b c) :
    SFrame Q a c := fun r hr => (h2 r hr).trans (h1 r hr)

theorem SFrame.mono {Q Q' : Path → Prop} {a b : Store} (hq : ∀ r, Q r → Q' r) (h : SFrame Q a b) :
    SFrame Q' a b := fun r hr => h r (fun h' => hr (hq r h'))

theorem sframe_define {Q : Path → Prop} {σ : Store} {p : Path} {k : Kind} (h : Q p) :
    SFrame Q σ (define σ p k) := fun r hr => by
  rw [kindAt_define, if_neg]
  rintro rfl
  exact hr h

/-- `walkHeader` resolves the key stack to `q` through explicit tables / last array elements -/
inductive Res (σ : Store) : Path → List Name → Path → Prop
  | nil (cur : Path) : Res σ cur [] cur
  | header {cur : Path} {k : Name} {ks : List Name} {q : Path} :
      kindAt σ (cur ++ [.key k]) = some .header → Res σ (cur ++ [.key k]) ks q →
      Res σ cur (k :: ks) q
  | aot {cur : Path} {k : Name} {ks : List Name} {q : Path} {n : Nat} :
      kindAt σ (cur ++ [.key k]) = some (.aot n) →
      Res σ (cur ++ [.key k] ++ [.idx (n - 1)]) ks q → Res σ cur (k :: ks) q

theorem Res.walk {σ : Store} {cur q : Path} {ks : List Name} (h : Res σ cur ks q) :
    walkHeader σ cur ks = .ok (σ, q) := by
  induction h with
  | nil cur => simp only [walkHeader]
  | header hk _ ih => simp only [walkHeader, hk, ih]
  | aot hk _ ih => simp only [walkHeader, hk, ih]

theorem Res.isPrefix {σ : Store} {cur q : Path} {ks : List Name} (h : Res σ cur ks q) :
    cur <+: q := by
  induction h with
  | nil cur => exact List.prefix_refl _
  | header _ _ ih => exact (List.prefix_append _ _).trans ih
  | aot _ _ ih =>
    refine List.IsPrefix.trans ?_ ih
    rw [List.append_assoc]
    exact List.prefix_append _ _

theorem Res.congr {σ σ' : Store} {cur q : Path} {ks : List Name} (h : Res σ cur ks q)
    (hc : ∀ r, r <+: q → kindAt σ' r = kindAt σ r) : Res σ' cur ks q := by
  induction h with
  | nil cur => exact .nil _
  | header hk hr ih =>
    exact .header (by rw [hc _ hr.isPrefix, hk]) (ih hc)
  | aot hk hr ih =>
    have hp : (_ ++ [Seg.key _] : Path) <+: _ := (List.prefix_append _ _).trans hr.isPrefix
    exact .aot (by rw [hc _ hp, hk]) (ih hc)

theorem Res.snoc_header {σ : Store} {cur q : Path} {ks : List Name} {k : Name}
    (h : Res σ cur ks q) (hk : kindAt σ (q ++ [.key k]) = some .header) :
    Res σ cur (ks ++ [k]) (q ++ [.key k]) := by
  induction h with
  | nil cur => exact .header hk (.nil _)
  | header hk' _ ih => exact .header hk' (ih hk)
  | aot hk' _ ih => exact .aot hk' (ih hk)

theorem Res.snoc_aot {σ : Store} {cur q : Path} {ks : List Name} {k : Name} {n : Nat}
    (h : Res σ cur ks q) (hk : kindAt σ (q ++ [.key k]) = some (.aot n)) :
    Res σ cur (ks ++ [k]) (q ++ [.key k] ++ [.idx (n - 1)]) := by
  induction h with
  | nil cur => exact .aot hk (.nil _)
  | header hk' _ ih => exact .header hk' (ih hk)
  | aot hk' _ ih => exact .aot hk' (ih hk)

/-! ### inline values -/

mutual
theorem toVal_facts : ∀ (t : Tree) (p : Path), t.toVal.facts p = t.facts p
  | .sc a, p => by simp only [Tree.toVal, Val.facts, Tree.facts]
  | .arr xs, p => by simp only [Tree.toVal, Val.facts, Tree.facts, toValElems_facts xs p 0]
  | .tbl fs, p => by simp only [Tree.toVal, Val.facts, Tree.facts, toValFields_facts fs p]
theorem toValElems_facts : ∀ (xs : List Tree) (p : Path) (i : Nat),
    factsElems p i (toValElems xs) = treeFactsElems p i xs
  | [], p, i => by simp only [toValElems, factsElems, treeFactsElems]
  | x :: xs, p, i => by
    simp only [toValElems, factsElems, treeFactsElems, toVal_facts x, toValElems_facts xs p (i + 1)]
theorem toValFields_facts : ∀ (fs : List (Name × Tree)) (p : Path),
    factsFields p (toValFields fs) = treeFactsFields p fs
  | [], p => by simp only [toValFields, factsFields, treeFactsFields]
  | f :: fs, p => by
    simp only [toValFields, factsFields, treeFactsFields, toVal_facts f.2, toValFields_facts fs p]
    rfl
end

mutual
theorem dv_ok : ∀ (t : Tree) (p : Path) (σ : Store), SafeTree t →
    (∀ r, SExt p r → kindAt σ r = none) →
    ∃ σ', defineVal p t.toVal σ = .ok σ' ∧ SFrame (fun r => p <+: r) σ σ'
  | .sc a, p, σ, _, _ =>
    ⟨define σ p .value, by simp only [Tree.toVal, defineVal], sframe_define (List.prefix_refl _)⟩
  | .arr xs, p, σ, hs, h => by
    simp only [SafeTree] at hs
    obtain ⟨σ', hr, hf⟩ := dv_elems xs p 0 (define σ p .value) hs (fun j _ r hp => by
      have hse := sext_of_snoc_prefix hp
      rw [kindAt_define, if_neg (fun e => SExt_irrefl _ (e ▸ hse))]
      exact h r hse)
    refine ⟨σ', by simpa only [Tree.toVal, defineVal] using hr, ?_⟩
    exact (sframe_define (Q := fun r => p <+: r) (List.prefix_refl _)).trans
      (hf.mono (fun r hr => hr.isPrefix))
  | .tbl fs, p, σ, hs, h => by
    simp only [SafeTree] at hs
    obtain ⟨σ', hr, hf⟩ := dv_fields fs p (define σ p .value) hs.1 hs.2 (fun f _ r hp => by
      have hse := sext_of_snoc_prefix hp
      rw [kindAt_define, if_neg (fun e => SExt_irrefl _ (e ▸ hse))]
      exact h r hse)
    refine ⟨σ', by simpa only [Tree.toVal, defineVal] using hr, ?_⟩
    exact (sframe_define (Q := fun r => p <+: r) (List.prefix_refl _)).trans
      (hf.mono (fun r ⟨f, _, hp⟩ => (sext_of_snoc_prefix hp).isPrefix))
theorem dv_elems : ∀ (xs : List Tree) (p : Path) (i : Nat) (σ : Store), SafeElems xs →
    (∀ j, i ≤ j → ∀ r, (p ++ [.idx j]) <+: r → kindAt σ r = none) →
    ∃ σ', defineElems p i (toValElems xs) σ = .ok σ' ∧ SFrame (fun r => SExt p r) σ σ'
  | [], p, i, σ, _, _ => ⟨σ, by simp only [toValElems, defineElems], SFrame.refl _ _⟩
  | x :: xs, p, i, σ, hs, h => by
    simp only [SafeElems] at hs
    obtain ⟨σ1, hr1, hf1⟩ := dv_ok x (p ++ [.idx i]) σ hs.1
      (fun r hr => h i (Nat.le_refl _) r hr.isPrefix)
    obtain ⟨σ2, hr2, hf2⟩ := dv_elems xs p (i + 1) σ1 hs.2 (fun j hj r hp => by
      rw [hf1 r (fun hp' => by
        have := snoc_prefix_eq hp hp'
        injection this with this
        omega)]
      exact h j (by omega) r hp)
    refine ⟨σ2, by simp only [toValElems, defineElems, hr1, hr2], ?_⟩
    exact (hf1.mono (fun r hr => sext_of_snoc_prefix hr)).trans hf2
theorem dv_fields : ∀ (fs : List (Name × Tree)) (p : Path) (σ : Store),
    (fs.map (·.1)).Nodup → SafeFields fs →
    (∀ f ∈ fs, ∀ r, (p ++ [.key f.1]) <+: r → kindAt σ r = none) →
    ∃ σ', defineFields p (toValFields fs) σ = .ok σ' ∧
      SFrame (fun r => ∃ f ∈ fs, (p ++ [.key f.1]) <+: r) σ σ'
  | [], p, σ, _, _, _ => ⟨σ, by simp only [toValFields, defineFields], SFrame.refl _ _⟩
  | f :: rest, p, σ, hn, hs, h => by
    simp only [SafeFields] at hs
    simp only [List.map_cons, List.nodup_cons] at hn
    have hleaf : kindAt σ (p ++ [.key f.1]) = none :=
      h f (List.mem_cons_self ..) _ (List.prefix_refl _)
    obtain ⟨σ1, hr1, hf1⟩ := dv_ok f.2 (p ++ [.key f.1]) σ hs.1
      (fun r hr => h f (List.mem_cons_self ..) r hr.isPrefix)
    obtain ⟨σ2, hr2, hf2⟩ := dv_fields rest p σ1 hn.2 hs.2 (fun f' hf' r hp => by
      rw [hf1 r (fun hp' => by
        have := snoc_prefix_eq hp hp'
        injection this with this
        exact hn.1 (List.mem_map.mpr ⟨f', hf', this⟩))]
      exact h f' (List.mem_cons_of_mem _ hf') r hp)
    refine ⟨σ2, ?_, ?_⟩
    · simp only [toValFields, defineFields, List.getLast?_singleton, List.dropLast_singleton,
        walkDotted, hleaf, hr1, hr2]
    · exact (hf1.mono (fun r hr => ⟨f, List.mem_cons_self .., hr⟩)).trans
        (hf2.mono (fun r ⟨f', hf', hp⟩ => ⟨f', List.mem_cons_of_mem _ hf', hp⟩))
end

/-! ### the four kinds of steps -/

theorem sstep_kv {s : SSt} {P : Path} {k : Name} {v : Val} {σ' : Store} (hc : s.cur = P)
    (hleaf : kindAt s.store (P ++ [.key k]) = none)
    (hd : defineVal (P ++ [.key k]) v s.store = .ok σ') :
    sstep s (.kv [k] v) =
      .ok { s with store := σ', facts := s.facts ++ v.facts (P ++ [.key k]) } := by
  simp only [sstep, defineFields, List.getLast?_singleton, List.dropLast_singleton, walkDotted, hc,
    hleaf, hd]
  rfl

theorem sstep_table {s : SSt} {K : List Name} {k : Name} {P : Path} (hr : Res s.store [] K P)
    (hleaf : kindAt s.store (P ++ [.key k]) = none) :
    sstep s (.table (K ++ [k])) =
      .ok { store := define s.store (P ++ [.key k]) .header, cur := P ++ [.key k],
            facts := s.facts ++ [(P ++ [.key k], .tbl)] } := by
  simp only [sstep, List.getLast?_concat, List.dropLast_concat, hr.walk, hleaf]

theorem sstep_aot_first {s : SSt} {K : List Name} {k : Name} {P : Path}
    (hr : Res s.store [] K P) (hleaf : kindAt s.store (P ++ [.key k]) = none) :
    sstep s (.arrayTable (K ++ [k])) =
      .ok { store := define s.store (P ++ [.key k]) (.aot 1), cur := P ++ [.key k] ++ [.idx 0],
            facts := s.facts ++ [(P ++ [.key k], .arr), (P ++ [.key k] ++ [.idx 0], .tbl)] } := by
  simp only [sstep, List.getLast?_concat, List.dropLast_concat, hr.walk, hleaf]

theorem sstep_aot_next {s : SSt} {K : List Name} {k : Name} {P : Path} {n : Nat}
    (hr : Res s.store [] K P) (hleaf : kindAt s.store (P ++ [.key k]) = some (.aot n)) :
    sstep s (.arrayTable (K ++ [k])) =
      .ok { store := define s.store (P ++ [.key k]) (.aot (n + 1)), cur := P ++ [.key k] ++ [.idx n],
            facts := s.facts ++ [(P ++ [.key k] ++ [.idx n], .tbl)] } := by
  simp only [sstep, List.getLast?_concat, List.dropLast_concat, hr.walk, hleaf]

theorem srun_append {s s1 s2 : SSt} {a b : List Ev} (h1 : srun s a = .ok s1)
    (h2 : srun s1 b = .ok s2) : srun s (a ++ b) = .ok s2 := by
  induction a generalizing s with
  | nil => simp only [srun] at h1; cases h1; exact h2
  | cons e es ih =>
    simp only [List.cons_append, srun] at h1 ⊢
    cases hs : sstep s e with
    | error err => rw [hs] at h1; cases h1
    | ok s' => rw [hs] at h1; exact ih h1

theorem srun_cons {s s1 s2 : SSt} {e : Ev} {b : List Ev} (h1 : sstep s e = .ok s1)
    (h2 : srun s1 b = .ok s2) : srun s (e :: b) = .ok s2 := by
  simp only [srun, h1, h2]

/-- the postcondition of a run of a piece of the emission under the specification -/
structure SPost (Q : Path → Prop) (s s' : SSt) (facts : List Fact) : Prop where
  out : s'.facts = s.facts ++ facts
  frame : SFrame Q s.store s'.store

theorem SPost.trans {Q : Path → Prop} {s s1 s2 : SSt} {f1 f2 : List Fact} (h1 : SPost Q s s1 f1)
    (h2 : SPost Q s1 s2 f2) : SPost Q s s2 (f1 ++ f2) :=
  ⟨by rw [h2.out, h1.out, List.append_assoc], h1.frame.trans h2.frame⟩

theorem SPost.mono {Q Q' : Path → Prop} {s s' : SSt} {f : List Fact} (hq : ∀ r, Q r → Q' r)
    (h : SPost Q s s' f) : SPost Q' s s' f := ⟨h.out, h.frame.mono hq⟩

/-- nothing is defined at or below `p` -/
def Undef (σ : Store) (p : Path) : Prop := ∀ r, p <+: r → kindAt σ r = none

theorem Undef.frame {Q : Path → Prop} {σ σ' : Store} {p : Path} (hf : SFrame Q σ σ')
    (hq : ∀ r, Q r → ¬ p <+: r) (h : Undef σ p) : Undef σ' p :=
  fun r hp => by rw [hf r (fun h' => hq r h' hp)]; exact h r hp

theorem Res.frame {Q : Path → Prop} {σ σ' : Store} {cur q : Path} {ks : List Name}
    (hf : SFrame Q σ σ') (hq : ∀ r, Q r → ¬ r <+: q) (h : Res σ cur ks q) : Res σ' cur ks q :=
  h.congr (fun r hp => hf r (fun h' => hq r h' hp))

theorem not_prefix_of_snoc_prefix {P r : Path} {x : Seg} (h : (P ++ [x]) <+: r) : ¬ r <+: P := by
  intro h'
  have h1 := h.length_le
  have h2 := h'.length_le
  simp at h1
  omega

/-- first pass of a table body under the specification -/
theorem skv_phase (P : Path) : ∀ (fs : List (Name × Tree)) (s : SSt),
    s.cur = P → (fs.map (·.1)).Nodup → SafeFields fs →
    (∀ f ∈ fs, Undef s.store (P ++ [.key f.1])) →
    ∃ s', srun s (emitKVs fs) = .ok s' ∧ s'.cur = P ∧
      SPost (fun r => ∃ f ∈ fs, f.2.entryIsTable = false ∧ (P ++ [.key f.1]) <+: r) s s'
        (kvFacts P fs)
  | [], s, hc, _, _, _ => by
    refine ⟨s, by simp only [emitKVs, srun], hc, ?_, SFrame.refl _ _⟩
    simp [kvFacts]
  | f :: rest, s, hc, hn, hs, h => by
    simp only [SafeFields] at hs
    simp only [List.map_cons, List.nodup_cons] at hn
    cases hb : f.2.entryIsTable
    · have hu := h f (List.mem_cons_self ..)
      obtain ⟨σ1, hd, hf1⟩ := dv_ok f.2 (P ++ [.key f.1]) s.store hs.1
        (fun r hr => hu r hr.isPrefix)
      have hstep := sstep_kv hc (hu _ (List.prefix_refl _)) hd
      obtain ⟨s2, hr2, hc2, hp2⟩ := skv_phase P rest
        { s with store := σ1, facts := s.facts ++ f.2.toVal.facts (P ++ [.key f.1]) } hc hn.2 hs.2
        (fun f' hf' => Undef.frame hf1 (fun r hp hp' => by
          have := snoc_prefix_eq hp hp'
          injection this with this
          exact hn.1 (List.mem_map.mpr ⟨f', hf', this.symm⟩))
          (h f' (List.mem_cons_of_mem _ hf')))
      refine ⟨s2, ?_, hc2, ?_⟩
      · simp only [emitKVs, hb, Bool.false_eq_true, if_false, List.singleton_append]
        exact srun_cons hstep hr2
      · have hp1 : SPost (fun r => ∃ f' ∈ f :: rest, f'.2.entryIsTable = false ∧
            (P ++ [.key f'.1]) <+: r) s
            { s with store := σ1, facts := s.facts ++ f.2.toVal.facts (P ++ [.key f.1]) }
            (f.2.facts (P ++ [.key f.1])) :=
          ⟨by rw [toVal_facts], hf1.mono (fun r hr => ⟨f, List.mem_cons_self .., hb, hr⟩)⟩
        have := hp1.trans (hp2.mono (fun r ⟨f', hf', hb', hp⟩ =>
          ⟨f', List.mem_cons_of_mem _ hf', hb', hp⟩))
        simpa only [kvFacts, hb, Bool.false_eq_true, if_false] using this
    · obtain ⟨s2, hr2, hc2, hp2⟩ := skv_phase P rest s hc hn.2 hs.2
        (fun f' hf' => h f' (List.mem_cons_of_mem _ hf'))
      refine ⟨s2, ?_, hc2, ?_⟩
      · simpa only [emitKVs, hb, if_true, List.nil_append] using hr2
      · have := hp2.mono (Q' := fun r => ∃ f' ∈ f :: rest, f'.2.entryIsTable = false ∧
            (P ++ [.key f'.1]) <+: r) (fun r ⟨f', hf', hb', hp⟩ =>
          ⟨f', List.mem_cons_of_mem _ hf', hb', hp⟩)
        simpa only [kvFacts, hb, if_true, List.nil_append] using this

/-- a table body (both passes) under the specification, given the second pass -/
theorem sbody_ok {K : List Name} {P : Path} {fs : List (Name × Tree)} {s : SSt}
    (hsubs : ∀ s1 : SSt, Res s1.store [] K P →
      (∀ f ∈ fs, f.2.entryIsTable = true → Undef s1.store (P ++ [.key f.1])) →
      ∃ s', srun s1 (emitSubs K fs) = .ok s' ∧ SPost (SExt P) s1 s' (subFacts P fs))
    (hc : s.cur = P) (hr : Res s.store [] K P) (hu : ∀ r, SExt P r → kindAt s.store r = none)
    (hn : (fs.map (·.1)).Nodup) (hsafe : SafeFields fs) :
    ∃ s', srun s (emitKVs fs ++ emitSubs K fs) = .ok s' ∧
      SPost (SExt P) s s' (kvFacts P fs ++ subFacts P fs) := by
  obtain ⟨s1, hr1, _, hp1⟩ := skv_phase P fs s hc hn hsafe
    (fun f _ r hp => hu r (sext_of_snoc_prefix hp))
  obtain ⟨s2, hr2, hp2⟩ := hsubs s1
    (Res.frame hp1.frame (fun r ⟨f, _, _, hp⟩ => not_prefix_of_snoc_prefix hp) hr)
    (fun f hf hb => Undef.frame hp1.frame (fun r ⟨f', hf', hb', hp'⟩ hp => by
        have := snoc_prefix_eq hp hp'
        injection this with this
        have := nodup_fst_eq hn hf hf' this
        subst this
        rw [hb] at hb'
        cases hb')
      (fun r hp => hu r (sext_of_snoc_prefix hp)))
  exact ⟨s2, srun_append hr1 hr2,
    (hp1.mono (fun r ⟨f, _, _, hp⟩ => sext_of_snoc_prefix hp)).trans hp2⟩

theorem undef_define_below {σ : Store} {p : Path} {k : Kind} (h : Undef σ p) :
    ∀ r, SExt p r → kindAt (define σ p k) r = none := fun r hr => by
  rw [kindAt_define, if_neg (fun e => SExt_irrefl _ (e ▸ hr))]
  exact h r hr.isPrefix

theorem res_define_snoc {σ : Store} {K : List Name} {P : Path} {k : Name} (kd : Kind)
    (hr : Res σ [] K P) : Res (define σ (P ++ [.key k]) kd) [] K P :=
  Res.frame (Q := fun r => (P ++ [.key k]) <+: r) (sframe_define (List.prefix_refl _))
    (fun _ hp => not_prefix_of_snoc_prefix hp) hr

mutual
theorem ssubs_ok : ∀ (fs : List (Name × Tree)) (K : List Name) (P : Path) (s : SSt),
    (fs.map (·.1)).Nodup → SafeFields fs → Res s.store [] K P →
    (∀ f ∈ fs, f.2.entryIsTable = true → Undef s.store (P ++ [.key f.1])) →
    ∃ s', srun s (emitSubs K fs) = .ok s' ∧ SPost (SExt P) s s' (subFacts P fs)
  | [], K, P, s, _, _, _, _ => by
    refine ⟨s, by simp only [emitSubs, srun], ?_, SFrame.refl _ _⟩
    simp [subFacts]
  | f :: rest, K, P, s, hn, hs, hr, hu => by
    simp only [SafeFields] at hs
    simp only [List.map_cons, List.nodup_cons] at hn
    cases hb : f.2.entryIsTable
    · obtain ⟨s2, hr2, hp2⟩ := ssubs_ok rest K P s hn.2 hs.2 hr
        (fun f' hf' => hu f' (List.mem_cons_of_mem _ hf'))
      refine ⟨s2, ?_, ?_⟩
      · simpa only [emitSubs, emitEntry_nil _ _ hb, List.nil_append] using hr2
      · simpa only [subFacts, entryFacts_nil _ _ hb, List.nil_append] using hp2
    · obtain ⟨s1, hr1, hp1⟩ := sentry_ok f.2 K f.1 P s hs.1 hb hr (hu f (List.mem_cons_self ..) hb)
      obtain ⟨s2, hr2, hp2⟩ := ssubs_ok rest K P s1 hn.2 hs.2
        (Res.frame hp1.frame (fun _ hp => not_prefix_of_snoc_prefix hp) hr)
        (fun f' hf' hb' => Undef.frame hp1.frame (fun r hp hp' => by
          have := snoc_prefix_eq hp hp'
          injection this with this
          exact hn.1 (List.mem_map.mpr ⟨f', hf', this.symm⟩))
          (hu f' (List.mem_cons_of_mem _ hf') hb'))
      refine ⟨s2, ?_, ?_⟩
      · simp only [emitSubs]
        exact srun_append hr1 hr2
      · simp only [subFacts]
        exact (hp1.mono (fun r hp => sext_of_snoc_prefix hp)).trans hp2
theorem sentry_ok : ∀ (t : Tree) (K : List Name) (k : Name) (P : Path) (s : SSt),
    SafeTree t → t.entryIsTable = true → Res s.store [] K P → Undef s.store (P ++ [.key k]) →
    ∃ s', srun s (emitEntry (K ++ [k]) t) = .ok s' ∧
      SPost (fun r => (P ++ [.key k]) <+: r) s s' (entryFacts (P ++ [.key k]) t)
  | .sc _, _, _, _, _, _, hb, _, _ => by
    simp [Tree.entryIsTable, Tree.isTable, Tree.isAoT] at hb
  | .tbl fs, K, k, P, s, hsafe, _, hr, hu => by
    simp only [SafeTree] at hsafe
    have hstep := sstep_table (k := k) hr (hu _ (List.prefix_refl _))
    have hr1 : Res (define s.store (P ++ [.key k]) .header) [] (K ++ [k]) (P ++ [.key k]) :=
      (res_define_snoc _ hr).snoc_header (by rw [kindAt_define, if_pos rfl])
    obtain ⟨s2, hr2, hp2⟩ := sbody_ok (K := K ++ [k]) (P := P ++ [.key k]) (fs := fs)
      (s := { store := define s.store (P ++ [.key k]) .header, cur := P ++ [.key k],
              facts := s.facts ++ [(P ++ [.key k], .tbl)] })
      (fun s' hr' hu' => ssubs_ok fs (K ++ [k]) (P ++ [.key k]) s' hsafe.1 hsafe.2 hr' hu')
      rfl hr1 (undef_define_below hu) hsafe.1 hsafe.2
    refine ⟨s2, ?_, ?_⟩
    · simp only [emitEntry]
      exact srun_cons hstep hr2
    · have hp1 : SPost (fun r => (P ++ [.key k]) <+: r) s
          { store := define s.store (P ++ [.key k]) .header, cur := P ++ [.key k],
            facts := s.facts ++ [(P ++ [.key k], .tbl)] } [(P ++ [.key k], .tbl)] :=
        ⟨rfl, sframe_define (List.prefix_refl _)⟩
      have := hp1.trans (hp2.mono (fun r hr => hr.isPrefix))
      simpa only [entryFacts, List.singleton_append] using this
  | .arr [], _, _, _, _, _, hb, _, _ => by
    simp [Tree.entryIsTable, Tree.isTable, Tree.isAoT] at hb
  | .arr (.sc _ :: _), _, _, _, _, _, hb, _, _ => by
    simp [Tree.entryIsTable, Tree.isTable, Tree.isAoT] at hb
  | .arr (.arr _ :: _), _, _, _, _, _, hb, _, _ => by
    simp [Tree.entryIsTable, Tree.isTable, Tree.isAoT] at hb
  | .arr (.tbl fs :: xs), K, k, P, s, hsafe, hb, hr, hu => by
    simp only [SafeTree, SafeElems] at hsafe
    obtain ⟨⟨hn, hsf⟩, hsx⟩ := hsafe
    have haot : (Tree.arr (.tbl fs :: xs)).isAoT = true := by
      simpa [Tree.entryIsTable, Tree.isTable] using hb
    have hall : xs.all Tree.isTable = true := by
      simpa [Tree.isAoT, Tree.isTable] using haot
    have hstep := sstep_aot_first (k := k) hr (hu _ (List.prefix_refl _))
    have hk1 : kindAt (define s.store (P ++ [.key k]) (.aot 1)) (P ++ [.key k]) = some (.aot 1) := by
      rw [kindAt_define, if_pos rfl]
    have hr0 : Res (define s.store (P ++ [.key k]) (.aot 1)) [] K P := res_define_snoc _ hr
    have hr1 : Res (define s.store (P ++ [.key k]) (.aot 1)) [] (K ++ [k])
        (P ++ [.key k] ++ [.idx 0]) := hr0.snoc_aot hk1
    obtain ⟨s2, hr2, hp2⟩ := sbody_ok (K := K ++ [k]) (P := P ++ [.key k] ++ [.idx 0]) (fs := fs)
      (s := { store := define s.store (P ++ [.key k]) (.aot 1), cur := P ++ [.key k] ++ [.idx 0],
              facts := s.facts ++ [(P ++ [.key k], .arr), (P ++ [.key k] ++ [.idx 0], .tbl)] })
      (fun s' hr' hu' => ssubs_ok fs (K ++ [k]) (P ++ [.key k] ++ [.idx 0]) s' hn hsf hr' hu')
      rfl hr1 (fun r hse => undef_define_below hu r (sext_snoc_of_sext hse)) hn hsf
    have hnotQ : ¬ SExt (P ++ [.key k] ++ [.idx 0]) (P ++ [.key k]) := fun h => by
      have := h.isPrefix.length_le
      simp at this
    obtain ⟨s3, hr3, hp3⟩ := selems_ok xs K k P 1 s2 hsx hall
      (Res.frame hp2.frame (fun r hse => by
        have := not_prefix_of_snoc_prefix (sext_snoc_of_sext hse |> fun h => h.isPrefix)
        exact this) hr0)
      (by rw [hp2.frame _ hnotQ]; exact hk1)
      (fun j hj => Undef.frame hp2.frame (fun r hse hp => by
          have := snoc_prefix_eq hp hse.isPrefix
          injection this with this
          omega)
        (fun r hp => undef_define_below hu r (sext_of_snoc_prefix hp)))
    refine ⟨s3, ?_, ?_⟩
    · simp only [emitEntry, haot, if_true, emitElems, emitElem]
      exact srun_append (srun_cons hstep hr2) hr3
    · have hp1 : SPost (fun r => (P ++ [.key k]) <+: r) s
          { store := define s.store (P ++ [.key k]) (.aot 1), cur := P ++ [.key k] ++ [.idx 0],
            facts := s.facts ++ [(P ++ [.key k], .arr), (P ++ [.key k] ++ [.idx 0], .tbl)] }
          [(P ++ [.key k], .arr), (P ++ [.key k] ++ [.idx 0], .tbl)] :=
        ⟨rfl, sframe_define (List.prefix_refl _)⟩
      have := (hp1.trans (hp2.mono (fun r hr => (sext_snoc_of_sext hr).isPrefix))).trans hp3
      simpa only [entryFacts, haot, if_true, elemsFacts, elemFacts, List.cons_append,
        List.nil_append, List.append_assoc, Nat.zero_add] using this
theorem selems_ok : ∀ (xs : List Tree) (K : List Name) (k : Name) (P : Path) (n : Nat) (s : SSt),
    SafeElems xs → xs.all Tree.isTable = true → Res s.store [] K P →
    kindAt s.store (P ++ [.key k]) = some (.aot n) →
    (∀ j, n ≤ j → Undef s.store (P ++ [.key k] ++ [.idx j])) →
    ∃ s', srun s (emitElems (K ++ [k]) xs) = .ok s' ∧
      SPost (fun r => (P ++ [.key k]) <+: r) s s' (elemsFacts (P ++ [.key k]) n xs)
  | [], K, k, P, n, s, _, _, _, _, _ => by
    refine ⟨s, by simp only [emitElems, srun], ?_, SFrame.refl _ _⟩
    simp [elemsFacts]
  | .sc _ :: _, _, _, _, _, _, _, hall, _, _, _ => by simp [Tree.isTable] at hall
  | .arr _ :: _, _, _, _, _, _, _, hall, _, _, _ => by simp [Tree.isTable] at hall
  | .tbl fs :: xs, K, k, P, n, s, hsafe, hall, hr, hk, hu => by
    simp only [SafeElems, SafeTree] at hsafe
    obtain ⟨⟨hn, hsf⟩, hsx⟩ := hsafe
    have hall' : xs.all Tree.isTable = true := by simpa [Tree.isTable] using hall
    have hstep := sstep_aot_next hr hk
    have hk1 : kindAt (define s.store (P ++ [.key k]) (.aot (n + 1))) (P ++ [.key k]) =
        some (.aot (n + 1)) := by rw [kindAt_define, if_pos rfl]
    have hr0 : Res (define s.store (P ++ [.key k]) (.aot (n + 1))) [] K P := res_define_snoc _ hr
    have hr1 : Res (define s.store (P ++ [.key k]) (.aot (n + 1))) [] (K ++ [k])
        (P ++ [.key k] ++ [.idx n]) := by simpa using hr0.snoc_aot hk1
    have hudef : ∀ j, n ≤ j → Undef (define s.store (P ++ [.key k]) (.aot (n + 1)))
        (P ++ [.key k] ++ [.idx j]) := fun j hj r hp => by
      have hse : SExt (P ++ [.key k]) r := sext_of_snoc_prefix hp
      rw [kindAt_define, if_neg (fun e => SExt_irrefl _ (e ▸ hse))]
      exact hu j hj r hp
    obtain ⟨s2, hr2, hp2⟩ := sbody_ok (K := K ++ [k]) (P := P ++ [.key k] ++ [.idx n]) (fs := fs)
      (s := { store := define s.store (P ++ [.key k]) (.aot (n + 1)),
              cur := P ++ [.key k] ++ [.idx n],
              facts := s.facts ++ [(P ++ [.key k] ++ [.idx n], .tbl)] })
      (fun s' hr' hu' => ssubs_ok fs (K ++ [k]) (P ++ [.key k] ++ [.idx n]) s' hn hsf hr' hu')
      rfl hr1 (fun r hse => hudef n (Nat.le_refl _) r hse.isPrefix) hn hsf
    have hnotQ : ¬ SExt (P ++ [.key k] ++ [.idx n]) (P ++ [.key k]) := fun h => by
      have := h.isPrefix.length_le
      simp at this
    obtain ⟨s3, hr3, hp3⟩ := selems_ok xs K k P (n + 1) s2 hsx hall'
      (Res.frame hp2.frame (fun r hse =>
        not_prefix_of_snoc_prefix (sext_snoc_of_sext hse).isPrefix) hr0)
      (by rw [hp2.frame _ hnotQ]; exact hk1)
      (fun j hj => Undef.frame hp2.frame (fun r hse hp => by
          have := snoc_prefix_eq hp hse.isPrefix
          injection this with this
          omega)
        (hudef j (by omega)))
    refine ⟨s3, ?_, ?_⟩
    · simp only [emitElems, emitElem]
      exact srun_append (srun_cons hstep hr2) hr3
    · have hp1 : SPost (fun r => (P ++ [.key k]) <+: r) s
          { store := define s.store (P ++ [.key k]) (.aot (n + 1)),
            cur := P ++ [.key k] ++ [.idx n],
            facts := s.facts ++ [(P ++ [.key k] ++ [.idx n], .tbl)] }
          [(P ++ [.key k] ++ [.idx n], .tbl)] :=
        ⟨rfl, sframe_define (List.prefix_refl _)⟩
      have := (hp1.trans (hp2.mono (fun r hr => (sext_snoc_of_sext hr).isPrefix))).trans hp3
      simpa only [elemsFacts, elemFacts, List.cons_append, List.nil_append,
        List.append_assoc] using this
end

end CueVerif.Toml.EmitValid

namespace CueVerif.Toml
open EmitValid

/-- every emission of the encoder is valid TOML with the meaning of the tree -/
theorem emit_valid (t : Tree) (evs : List Ev) (hs : SafeTree t) (he : emit t = some evs) :
    ∃ fs, tomlSpec evs = .ok fs ∧ SameData fs (t.facts []) := by
  cases t with
  | sc a => simp [emit] at he
  | arr xs => simp [emit] at he
  | tbl fs =>
    simp only [emit, Option.some.injEq] at he
    subst he
    simp only [SafeTree] at hs
    obtain ⟨s', hr, hp⟩ := sbody_ok (K := []) (P := []) (fs := fs) (s := SSt.init)
      (fun s' hr' hu' => ssubs_ok fs [] [] s' hs.1 hs.2 hr' hu')
      rfl (.nil _) (fun r _ => rfl) hs.1 hs.2
    refine ⟨s'.facts, by simp only [tomlSpec, hr], ?_⟩
    rw [hp.out]
    exact bodyFacts_sameData fs

end CueVerif.Toml

