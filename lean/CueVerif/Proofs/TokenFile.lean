/-
Lemmas about the position table model (C09).  Core Lean only.
-/
import CueVerif.Spec.TokenFile
namespace CueVerif.TokenFile

theorem newFile_wf (size : Int) (h : 0 ≤ size) : WF (newFile size) :=
  ⟨h, rfl, by simp [newFile], by intro x hx; simp [newFile] at hx⟩

theorem addLine_wf (f : File) (o : Int) (h : WF f) : WF (addLine f o) := by
  unfold addLine
  split
  next hc =>
    unfold lastLt at hc
    obtain ⟨hs, hh, hso, hb⟩ := h
    have hne : f.lines ≠ [] := by intro e; simp [e] at hh
    simp only [Bool.and_eq_true, decide_eq_true_eq] at hc
    obtain ⟨hprev, hsz⟩ := hc
    refine ⟨hs, ?_, ?_, ?_⟩
    · cases hl : f.lines with
      | nil => exact absurd hl hne
      | cons a t => simpa [hl] using hh
    · obtain ⟨ys, l, hyl⟩ : ∃ ys l, f.lines = ys ++ [l] :=
        ⟨f.lines.dropLast, f.lines.getLast hne, (List.dropLast_concat_getLast hne).symm⟩
      have hlast : f.lines.getLast? = some l := by simp [hyl]
      simp only [hlast, decide_eq_true_eq] at hprev
      rw [List.pairwise_append]
      refine ⟨hso, by simp, ?_⟩
      intro a ha b hb'
      simp only [List.mem_singleton] at hb'
      subst hb'
      rw [hyl] at ha hso
      rw [List.pairwise_append] at hso
      rcases List.mem_append.mp ha with h1 | h1
      · have := hso.2.2 a h1 l (by simp)
        omega
      · simp only [List.mem_singleton] at h1
        omega
    · intro x hx
      cases hl : f.lines with
      | nil => exact absurd hl hne
      | cons a t =>
        simp only [hl, List.cons_append, List.tail_cons, List.mem_append, List.mem_singleton] at hx
        rcases hx with h1 | h1
        · exact hb x (by simp [hl, h1])
        · subst h1; exact hsz
  next => exact h

theorem addLines_wf (offs : List Int) : ∀ (f : File), WF f → WF (addLines f offs) := by
  induction offs with
  | nil => intro f h; exact h
  | cons o rest ih => intro f h; exact ih _ (addLine_wf f o h)

theorem addLine_size (f : File) (o : Int) : (addLine f o).size = f.size := by
  unfold addLine; split <;> rfl

theorem addLines_size (offs : List Int) : ∀ f : File, (addLines f offs).size = f.size := by
  induction offs with
  | nil => intro f; rfl
  | cons o rest ih => intro f; simp only [addLines, List.foldl_cons] at *; rw [ih, addLine_size]

/-! ### `fixOffset`, `Pos`, `Offset`, `Add` -/

theorem fixOffset_range (f : File) (h : 0 ≤ f.size) (o : Int) :
    0 ≤ fixOffset f o ∧ fixOffset f o ≤ f.size := by
  unfold fixOffset; repeat' split
  all_goals omega

theorem fixOffset_id (f : File) (o : Int) (h0 : 0 ≤ o) (h1 : o ≤ f.size) : fixOffset f o = o := by
  unfold fixOffset; repeat' split
  all_goals omega

theorem index_pos (f : File) (o rel : Int) (hr0 : 0 ≤ rel) (hr1 : rel < 64) :
    index (pos f o rel) = 1 + fixOffset f o := by
  unfold index pos toPos relUnit; omega

theorem offset_pos (f : File) (h : 0 ≤ f.size) (o rel : Int) (hr0 : 0 ≤ rel) (hr1 : rel < 64) :
    offset f (pos f o rel) = fixOffset f o := by
  unfold offset
  rw [index_pos f o rel hr0 hr1]
  have := fixOffset_range f h o
  rw [show 1 + fixOffset f o - 1 = fixOffset f o by omega]
  exact fixOffset_id f _ this.1 this.2

theorem pos_offset (f : File) (h : 0 ≤ f.size) (o rel : Int) (hr0 : 0 ≤ rel) (hr1 : rel < 64) :
    pos f (offset f (pos f o rel)) rel = pos f o rel := by
  rw [offset_pos f h o rel hr0 hr1]
  have := fixOffset_range f h o
  unfold pos
  rw [fixOffset_id f _ this.1 this.2]

theorem offset_add (f : File) (p n : Int) : offset f (add p n) = fixOffset f (index p - 1 + n) := by
  unfold offset add index toPos relUnit
  congr 1; omega

/-! ### the binary search and `Position` -/

theorem sorted_get (a : List Int) (hs : a.Pairwise (· < ·)) (k h : Nat) (w v : Int) (hk : k < h)
    (h1 : a[k]? = some w) (h2 : a[h]? = some v) : w < v := by
  obtain ⟨b1, e1⟩ := List.getElem?_eq_some_iff.mp h1
  obtain ⟨b2, e2⟩ := List.getElem?_eq_some_iff.mp h2
  have := List.pairwise_iff_getElem.mp hs k h b1 b2 hk
  omega

/-- loop invariant of `searchInts`: everything left of `i` is ≤ x, everything from `j` on is
> x; the loop ends (fuel `j - i + 1` suffices), never indexes out of range, and returns the
number of entries ≤ x -/
theorem searchLoop_spec (a : List Int) (x : Int) (hs : a.Pairwise (· < ·)) :
    ∀ fuel i j, i ≤ j → j ≤ a.length → j - i < fuel →
      (∀ k v, k < i → a[k]? = some v → v ≤ x) →
      (∀ k v, j ≤ k → a[k]? = some v → x < v) →
      ∃ r, searchLoop a x fuel i j = .ok r ∧ r ≤ a.length ∧
        (∀ k v, k < r → a[k]? = some v → v ≤ x) ∧ (∀ k v, r ≤ k → a[k]? = some v → x < v) := by
  intro fuel
  induction fuel with
  | zero => intro i j _ _ h; omega
  | succ fuel ih =>
    intro i j hij hj hf inv1 inv2
    unfold searchLoop
    by_cases hlt : i < j
    · simp only [hlt, if_true]
      have hh1 : i ≤ i + (j - i) / 2 := by omega
      have hh2 : i + (j - i) / 2 < j := by omega
      generalize i + (j - i) / 2 = h at hh1 hh2
      have hb : h < a.length := by omega
      have hget : a[h]? = some a[h] := List.getElem?_eq_getElem hb
      rw [hget]
      dsimp only
      by_cases hv : a[h] ≤ x
      · simp only [hv, if_true]
        refine ih (h + 1) j (by omega) hj (by omega) ?_ inv2
        intro k v hk hkv
        by_cases hkh : k = h
        · subst hkh; rw [hget] at hkv; cases hkv; exact hv
        · have := sorted_get a hs k h v a[h] (by omega) hkv hget; omega
      · simp only [hv, if_false]
        refine ih i h (by omega) (by omega) (by omega) inv1 ?_
        intro k v hk hkv
        by_cases hkh : k = h
        · subst hkh; rw [hget] at hkv; cases hkv; omega
        · have := sorted_get a hs h k a[h] v (by omega) hget hkv; omega
    · simp only [hlt, if_false]
      have : i = j := by omega
      subst this
      exact ⟨i, rfl, hj, inv1, inv2⟩

theorem searchInts_spec (a : List Int) (x : Int) (hs : a.Pairwise (· < ·)) :
    ∃ r : Nat, searchInts a x = .ok ((r : Int) - 1) ∧ r ≤ a.length ∧
      (∀ k v, k < r → a[k]? = some v → v ≤ x) ∧ (∀ k v, r ≤ k → a[k]? = some v → x < v) := by
  obtain ⟨r, h1, h2, h3, h4⟩ := searchLoop_spec a x hs (a.length + 1) 0 a.length (by omega)
    (by omega) (by omega) (by intro k v hk; omega)
    (by intro k v hk hkv
        obtain ⟨b, _⟩ := List.getElem?_eq_some_iff.mp hkv
        omega)
  exact ⟨r, by simp [searchInts, h1], h2, h3, h4⟩

/-- `unpack` on a well-formed table and an offset within the file: no panic, and the
line/column satisfy the specification -/
theorem unpack_good (f : File) (hwf : WF f) (o : Int) (h0 : 0 ≤ o) (h1 : o ≤ f.size) :
    ∃ l c, unpack f o = .ok (l, c) ∧ GoodPosition f o ⟨o, l, c⟩ := by
  obtain ⟨r, hr, hlen, hle, hgt⟩ := searchInts_spec f.lines o hwf.sorted
  have hhead : f.lines[0]? = some 0 := by
    have := hwf.head
    cases hl : f.lines with
    | nil => simp [hl] at this
    | cons a t => simp [hl] at this; simp [this]
  have hr1 : 1 ≤ r := by
    rcases Nat.eq_zero_or_pos r with h | h
    · subst h
      have := hgt 0 0 (by omega) hhead
      omega
    · exact h
  have hb : r - 1 < f.lines.length := by omega
  have hget : f.lines[r - 1]? = some f.lines[r - 1] := List.getElem?_eq_getElem hb
  have hle' := hle (r - 1) _ (by omega) hget
  refine ⟨(r : Int), o - f.lines[r - 1] + 1, ?_, ?_⟩
  · unfold unpack
    rw [hr]
    have hi : ((r : Int) - 1) ≥ 0 := by omega
    have ht : ((r : Int) - 1).toNat = r - 1 := by omega
    simp only [hi, if_true, ht, hget]
    congr 2
    omega
  · refine ⟨rfl, h0, h1, by simp only; omega, by simp only; omega, by simp only; omega, ?_, ?_⟩
    · have ht : ((r : Int) - 1).toNat = r - 1 := by omega
      simp only [ht, hget]
      congr 1; omega
    · intro nxt hn
      simp only [Int.toNat_natCast] at hn
      exact hgt r nxt (by omega) hn

/-- `Position` of a position made by `Pos`: no panic, and a good position for the clamped
offset -/
theorem position_good (f : File) (hwf : WF f) (o rel : Int) (hr0 : 0 ≤ rel) (hr1 : rel < 64) :
    ∃ p, position f (pos f o rel) = .ok p ∧ GoodPosition f (fixOffset f o) p := by
  have hrange := fixOffset_range f hwf.size_nonneg o
  obtain ⟨l, c, hu, hg⟩ := unpack_good f hwf (fixOffset f o) hrange.1 hrange.2
  refine ⟨⟨fixOffset f o, l, c⟩, ?_, hg⟩
  unfold position
  simp only [offset_pos f hwf.size_nonneg o rel hr0 hr1, hu]

/-- line/column are monotone in the offset (lexicographically) -/
theorem good_monotone (f : File) (hwf : WF f) (o1 o2 : Int) (p1 p2 : Position) (h : o1 ≤ o2)
    (g1 : GoodPosition f o1 p1) (g2 : GoodPosition f o2 p2) :
    p1.line < p2.line ∨ (p1.line = p2.line ∧ p1.column ≤ p2.column) := by
  obtain ⟨_, _, _, a1, a2, a3, a4, a5⟩ := g1
  obtain ⟨_, _, _, b1, b2, b3, b4, b5⟩ := g2
  rcases Int.lt_trichotomy p1.line p2.line with hlt | heq | hgt
  · exact Or.inl hlt
  · right
    refine ⟨heq, ?_⟩
    rw [heq] at a4
    rw [a4] at b4
    have := Option.some.inj b4
    omega
  · exfalso
    -- the start of line p1.line is ≤ o1 ≤ o2 < start of line p2.line + 1 ≤ start of p1.line
    have hk : p2.line.toNat ≤ (p1.line - 1).toNat := by omega
    obtain ⟨bb, _⟩ := List.getElem?_eq_some_iff.mp a4
    have hb2 : p2.line.toNat < f.lines.length := by omega
    obtain ⟨w, hget⟩ : ∃ w, f.lines[p2.line.toNat]? = some w := ⟨_, List.getElem?_eq_getElem hb2⟩
    have h5 := b5 _ hget
    rcases Nat.eq_or_lt_of_le hk with he | hl
    · rw [he] at hget; rw [hget] at a4; have := Option.some.inj a4; omega
    · have := sorted_get f.lines hwf.sorted _ _ _ _ hl hget a4
      omega

end CueVerif.TokenFile
